(* Reconciler/PhaseProofs.v — the change-stream phase of a round (incremental.go single) keeps the cover
   invariant for arbitrary operation outcomes and arbitrary user writes from inside the operations. *)
From Coq Require Import List NArith Bool Lia ZifyN ZifyBool.
From SV Require Import Reconciler.Retries Reconciler.Model Reconciler.RetriesProofs Reconciler.CommitProofs
  Reconciler.RoundProofs Reconciler.CoverProofs Reconciler.StepProofs Reconciler.TableWf Reconciler.StreamProofs.
Import ListNotations.
Open Scope N_scope.

(* ghost: a Delete (single or batch) of key pk for its deletion at revision rev has succeeded *)
Definition is_del_op (op : N) : bool := (op =? 1) || (op =? 3).
Definition Dlog (e : env) (pk rev : N) : Prop :=
  exists c, In c (e_calls e) /\ is_del_op (cl_op c) = true /\ cl_pk c = pk /\ cl_rev c = rev /\ cl_ok c = true.

Lemma covered_D_mono : forall (D D' : N -> N -> Prop) t c res q pk,
  (forall p r, D p r -> D' p r) -> covered D t c res q pk -> covered D' t c res q pk.
Proof.
  intros D D' t c res q pk H Hc. unfold covered in *. destruct (slot_of t pk) as [[o r|o r]|]; try exact Hc.
  destruct Hc as [A|[A|A]]; [left; exact A|right; left; exact A|right; right; apply H; exact A].
Qed.

Lemma covered_res_mono : forall D t c res res' q pk,
  (forall r, In r res -> In r res') -> covered D t c res q pk -> covered D t c res' q pk.
Proof.
  intros D t c res res' q pk H Hc. unfold covered in *. destruct (slot_of t pk) as [[o r|o r]|]; try exact Hc.
  destruct (o_kind o); try exact Hc.
  - destruct Hc as [A|[x [X1 X2]]]; [left; exact A|right; exists x; split; [apply H; exact X1|exact X2]].
  - destruct Hc as [A|[x [X1 X2]]]; [left; exact A|right; exists x; split; [apply H; exact X1|exact X2]].
  - destruct Hc as [A|[x [X1 X2]]]; [left; exact A|right; exists x; split; [apply H; exact X1|exact X2]].
Qed.

Lemma covered_q_ext : forall D t c res q q' pk, q_items q' = q_items q -> covered D t c res q pk -> covered D t c res q' pk.
Proof.
  intros D t c res q q' pk H Hc. unfold covered, item_upd, item_covers in *. rewrite H. exact Hc.
Qed.

(* moving the cursor forward: fine for every key whose slot is not in the skipped interval, or is taken
   care of by a result / a delete retry / D *)
Lemma cov_advance : forall D T cur c' res q pk, cur <= c' ->
  covered D T cur res q pk ->
  (forall sl, slot_of T pk = Some sl -> cur < slot_rev sl -> slot_rev sl <= c' ->
     match sl with
     | Live o r => is_pending o = true -> res_covers res pk o r
     | Dead o r => item_covers q pk true r \/ D pk r
     end) ->
  covered D T c' res q pk.
Proof.
  intros D T cur c' res q pk Hle Hc H. unfold covered in *.
  destruct (slot_of T pk) as [[o r|o r]|]; [| |exact I].
  - destruct (o_kind o) eqn:Ek; try exact Hc.
    + destruct Hc as [A|A]; [|right; exact A]. destruct (N.lt_ge_cases c' r) as [L|L]; [left; exact L|].
      right. apply (H (Live o r) eq_refl A L). unfold is_pending. rewrite Ek. reflexivity.
    + destruct Hc as [A|A]; [|right; exact A]. destruct (N.lt_ge_cases c' r) as [L|L]; [left; exact L|].
      right. apply (H (Live o r) eq_refl A L). unfold is_pending. rewrite Ek. reflexivity.
  - destruct Hc as [A|A]; [|right; exact A]. destruct (N.lt_ge_cases c' r) as [L|L]; [left; exact L|].
    right. apply (H (Dead o r) eq_refl A L).
Qed.

Lemma clear_idem : forall q k, r_clear (r_clear q k) k = r_clear q k.
Proof.
  intros q k. unfold r_clear at 1. rewrite clear_items, find_item_remove_same. reflexivity.
Qed.
Lemma no_item_after_clear : forall q k, find_item k (q_items (r_clear q k)) = None.
Proof. intros. rewrite clear_items. apply find_item_remove_same. Qed.

(* retries.Clear(k) when the stream delivers a change of k *)
Lemma cov_clear : forall D T c res q k pk,
  covered D T c res q pk ->
  (pk = k -> forall sl, slot_of T k = Some sl ->
     match sl with Live o _ => o_kind o <> Error | Dead _ r => c < r \/ D k r end) ->
  covered D T c res (r_clear q k) pk.
Proof.
  intros D T c res q k pk Hc H. destruct (N.eq_dec pk k) as [E|E].
  - subst pk. specialize (H eq_refl). unfold covered in *.
    destruct (slot_of T k) as [[o r|o r]|]; [| |exact I].
    + specialize (H _ eq_refl). cbn in H. destruct (o_kind o); try exact Hc. congruence.
    + destruct (H _ eq_refl) as [A|A]; [left; exact A|right; right; exact A].
  - unfold covered in *. destruct (slot_of T pk) as [[o r|o r]|]; [| |exact I].
    + destruct (o_kind o); try exact Hc.
      destruct Hc as [A|A]; [left; apply item_upd_clear_other; assumption|right; exact A].
    + destruct Hc as [A|[A|A]]; [left; exact A|right; left; apply item_covers_clear_other; assumption|right; right; exact A].
Qed.

(* a failed Delete of (k, rev) is queued: the pending-delete ghost can be dropped *)
Lemma cov_add_del : forall (D : N -> N -> Prop) T c res q o rev orig now pk,
  (forall it, find_item (o_pk o) (q_items q) = Some it -> ri_inq it = false) ->
  covered (fun p r => D p r \/ (p = o_pk o /\ r = rev)) T c res q pk ->
  covered D T c res (r_add q o rev orig true now) pk.
Proof.
  intros D T c res q o rev orig now pk Hno Hc. unfold covered in *.
  destruct (N.eq_dec pk (o_pk o)) as [E|E].
  - subst pk. destruct (slot_of T (o_pk o)) as [[o' r|o' r]|]; [| |exact I].
    + destruct (o_kind o'); try exact Hc.
      destruct Hc as [[i [A [_ [B _]]]]|A]; [rewrite (Hno i A) in B; discriminate|right; exact A].
    + destruct Hc as [A|[[i [A [_ [_ B]]]]|[A|[_ A]]]]; [left; exact A|rewrite (Hno i A) in B; discriminate|right; right; exact A|].
      subst r. right. left.
      destruct (add_item_spec q o rev orig true now) as [it [I1 [_ [I3 [_ [I5 [I6 _]]]]]]].
      exists it. repeat split; assumption.
  - destruct (slot_of T pk) as [[o' r|o' r]|]; [| |exact I].
    + destruct (o_kind o'); try exact Hc.
      destruct Hc as [A|A]; [left; apply item_upd_add_other; assumption|right; exact A].
    + destruct Hc as [A|[A|[A|[A _]]]]; [left; exact A|right; left; apply item_covers_add_other; assumption|right; right; exact A|contradiction].
Qed.

(* clearing an item that is not queued (popped) changes nothing *)
Lemma cov_clear_unqueued : forall D T c res q k pk,
  (forall it, find_item k (q_items q) = Some it -> ri_inq it = false) ->
  covered D T c res q pk -> covered D T c res (r_clear q k) pk.
Proof.
  intros D T c res q k pk Hno Hc. unfold covered in *. destruct (N.eq_dec pk k) as [E|E].
  - subst pk. destruct (slot_of T k) as [[o r|o r]|]; [| |exact I].
    + destruct (o_kind o); try exact Hc.
      destruct Hc as [[i [A [_ [B _]]]]|A]; [rewrite (Hno i A) in B; discriminate|right; exact A].
    + destruct Hc as [A|[[i [A [_ [_ B]]]]|A]]; [left; exact A|rewrite (Hno i A) in B; discriminate|right; right; exact A].
  - destruct (slot_of T pk) as [[o r|o r]|]; [| |exact I].
    + destruct (o_kind o); try exact Hc.
      destruct Hc as [A|A]; [left; apply item_upd_clear_other; assumption|right; exact A].
    + destruct Hc as [A|[A|A]]; [left; exact A|right; left; apply item_covers_clear_other; assumption|right; right; exact A].
Qed.

Lemma Dlog_mono : forall e e' l, e_calls e' = e_calls e ++ l -> forall p r, Dlog e p r -> Dlog e' p r.
Proof.
  intros e e' l H p r [c [A B]]. exists c. split; [rewrite H; apply in_or_app; left; exact A|exact B].
Qed.

Definition res_pks (res : list opres) : list N := map (fun r => o_pk (r_obj r)) res.

(* loop invariant of the change-stream phase: snapshot snap, current env e, queue q, results res,
   cursor cur, remaining stream chs *)
Record phase_inv (D : N -> N -> Prop) (snap : table) (e : env) (q : retries) (res : list opres) (cur : N) (chs : list change) : Prop := {
  pi_twf : twf (e_tab e);
  pi_twfs : twf snap;
  pi_snap : snap_rel snap (e_tab e);
  pi_stream : stream_ok snap cur chs;
  pi_cur : cur <= t_rev snap;
  pi_uniq : uniq q;
  pi_past : forall it, In it (q_items q) -> ri_orig it <= t_rev (e_tab e) /\ ri_rev it <= t_rev (e_tab e);
  pi_nd : NoDup (res_pks res);
  pi_disj : forall ch, In ch chs -> ~ In (ch_pk ch) (res_pks res);
  pi_rpast : forall r, In r res -> r_orig r <= t_rev snap /\ r_rev r <= t_rev snap;
  pi_cov : forall pk, covered D (e_tab e) cur res q pk
}.

Definition curs (c0 lastrev : N) : N := if lastrev =? 0 then c0 else lastrev.

Section Step.
Variables (D : N -> N -> Prop) (snap : table) (e : env) (q : retries) (res : list opres) (cur : N) (ch : change) (rest : list change).
Hypothesis INV : phase_inv D snap e q res cur (ch :: rest).

Let k := ch_pk ch.

Lemma step_head_slot : exists sl0, slot_of snap k = Some sl0 /\ slot_change sl0 = ch /\
  0 < c_rev ch /\ c_rev ch <= t_rev snap /\ cur < c_rev ch /\ o_pk (c_obj ch) = k.
Proof.
  destruct INV. destruct pi_stream0 as [A [B [C [Dx E]]]].
  destruct (C ch (or_introl eq_refl)) as [sl0 [S0 S1]]. exists sl0. split; [exact S0|split; [exact S1|]].
  destruct pi_twfs0 as [_ [W2 _]]. destruct (W2 _ _ S0) as [P1 [P2 P3]].
  assert (R : c_rev ch = slot_rev sl0) by (rewrite <- S1, slot_change_rev; reflexivity).
  specialize (E ch (or_introl eq_refl)).
  split; [lia|]. split; [lia|]. split; [exact E|reflexivity].
Qed.

(* F1: a current slot with revision in (cur, c_rev ch] is the head's snapshot slot *)
Lemma step_interval : forall pk sl, slot_of (e_tab e) pk = Some sl -> cur < slot_rev sl -> slot_rev sl <= c_rev ch ->
  pk = k /\ slot_change sl = ch.
Proof.
  intros pk sl Hs Hlt Hle. destruct step_head_slot as [sl0 [S0 [S1 [P0 [P1 [P2 P3]]]]]].
  destruct INV. destruct pi_snap0 as [R1 [R2 R3]].
  assert (Hsn : slot_of snap pk = Some sl) by (apply R2; [exact Hs|lia]).
  apply (stream_head_unique snap cur ch rest pk sl pi_twfs0 pi_stream0 Hsn Hlt Hle).
Qed.

(* a current slot of key k that is not the head's snapshot slot was written after the snapshot *)
Lemma step_self_newer : forall sl sl0, slot_of (e_tab e) k = Some sl -> slot_of snap k = Some sl0 -> sl <> sl0 ->
  t_rev snap < slot_rev sl.
Proof.
  intros sl sl0 Hs H0 Hne. destruct INV. destruct pi_snap0 as [R1 [R2 R3]].
  destruct (N.lt_ge_cases (t_rev snap) (slot_rev sl)) as [L|L]; [exact L|].
  exfalso. apply Hne. specialize (R2 k sl Hs L). congruence.
Qed.

Lemma step_rest_inv : forall D' e' q' res',
  twf (e_tab e') -> snap_rel snap (e_tab e') -> uniq q' ->
  (forall it, In it (q_items q') -> ri_orig it <= t_rev (e_tab e') /\ ri_rev it <= t_rev (e_tab e')) ->
  NoDup (res_pks res') -> (forall p, In p (res_pks res') -> In p (res_pks res) \/ p = k) ->
  (forall r, In r res' -> r_orig r <= t_rev snap /\ r_rev r <= t_rev snap) ->
  (forall pk, covered D' (e_tab e') (c_rev ch) res' q' pk) ->
  phase_inv D' snap e' q' res' (c_rev ch) rest.
Proof.
  intros D' e' q' res' A B C D0 E F G H. destruct step_head_slot as [sl0 [S0 [S1 [P0 [P1 [P2 P3]]]]]].
  pose proof INV as [I1 I2 I3 I4 I5 I6 I7 I8 I9 I10 I11].
  constructor; try assumption.
  - apply (stream_tail snap cur ch rest I2 I4).
  - intros d Hd Hin. destruct (F _ Hin) as [X|X].
    + apply (I9 d (or_intror Hd) X).
    + destruct I4 as [N1 _]. cbn [map] in N1. inversion N1 as [|x xs Hx Hr]; subst. apply Hx. fold k. rewrite <- X. apply in_map. exact Hd.
Qed.
End Step.

Lemma nodup_snoc : forall (l : list N) x, NoDup l -> ~ In x l -> NoDup (l ++ [x]).
Proof.
  induction l as [|a r IH]; intros x Hn Hx; cbn [app].
  - constructor; [intros []|constructor].
  - inversion Hn as [|y ys Hy Hr]; subst. constructor.
    + intro Hin. apply in_app_or in Hin. destruct Hin as [Hin|[Hin|[]]]; [contradiction|]. apply Hx. left. symmetry. exact Hin.
    + apply IH; [exact Hr|intro Hin; apply Hx; right; exact Hin].
Qed.

Lemma in_clear_items : forall q k it, In it (q_items (r_clear q k)) -> In it (q_items q).
Proof. intros q k it H. rewrite clear_items in H. apply in_remove_item in H. apply H. Qed.

Lemma step_skip : forall D snap e q res cur ch rest,
  phase_inv D snap e q res cur (ch :: rest) -> c_del ch = false -> is_pending (c_obj ch) = false ->
  phase_inv D snap e q res (c_rev ch) rest.
Proof.
  intros D snap e q res cur ch rest INV Hd Hp.
  destruct (step_head_slot _ _ _ _ _ _ _ _ INV) as [sl0 [S0 [S1 [P0 [P1 [P2 P3]]]]]].
  pose proof INV as [I1 I2 I3 I4 I5 I6 I7 I8 I9 I10 I11].
  apply (step_rest_inv D snap e q res cur ch rest INV D); try assumption.
  - intros p Hp'. left. exact Hp'.
  - intro pk. apply (cov_advance _ _ cur); [lia|apply I11|].
    intros sl Hs Hlt Hle. destruct (step_interval _ _ _ _ _ _ _ _ INV pk sl Hs Hlt Hle) as [K SC].
    destruct sl as [o r|o r]; rewrite <- SC in *; cbn in *; [congruence|discriminate].
Qed.

Lemma step_update : forall snap e q res cur ch rest e' q' res',
  phase_inv (Dlog e) snap e q res cur (ch :: rest) -> c_del ch = false -> is_pending (c_obj ch) = true ->
  process_single e snap true (r_clear q (ch_pk ch)) res (c_obj ch) (c_rev ch) (c_rev ch) false = (e', q', res') ->
  phase_inv (Dlog e') snap e' q' res' (c_rev ch) rest.
Proof.
  intros snap e q res cur ch rest e' q' res' INV Hd Hp H.
  destruct (step_head_slot _ _ _ _ _ _ _ _ INV) as [sl0 [S0 [S1 [P0 [P1 [P2 P3]]]]]].
  pose proof INV as [I1 I2 I3 I4 I5 I6 I7 I8 I9 I10 I11].
  unfold process_single in H.
  destruct (do_call e snap true 0 (c_obj ch) (c_rev ch)) as [e1 ok] eqn:Ec.
  injection H as H1 H2 H3. subst e' res'.
  set (k := ch_pk ch) in *.
  set (r := mkRes (c_obj ch) (c_rev ch) (c_rev ch) (o_sid (c_obj ch)) ok) in *.
  destruct (do_call_effect _ _ _ _ _ _ _ _ I1 Ec) as [WS [_ [cl [LC _]]]].
  assert (Hsl0 : sl0 = Live (c_obj ch) (c_rev ch)).
  { destruct sl0 as [o0 r0|o0 r0]; rewrite <- S1 in *; cbn in *; [reflexivity|discriminate]. }
  assert (C2 : forall pk, covered (Dlog e) (e_tab e) (c_rev ch) (res ++ [r]) (r_clear q k) pk).
  { intro pk. apply cov_clear.
    - apply (cov_advance _ _ cur); [lia| |].
      + apply (covered_res_mono _ _ _ res); [intros x Hx; apply in_or_app; left; exact Hx|apply I11].
      + intros sl Hs Hlt Hle. destruct (step_interval _ _ _ _ _ _ _ _ INV pk sl Hs Hlt Hle) as [K SC].
        destruct sl as [o r0|o r0].
        * intros _. exists r. split; [apply in_or_app; right; left; reflexivity|]. split; [cbn; rewrite K; reflexivity|].
          left. cbn. rewrite <- SC. reflexivity.
        * rewrite <- SC in Hd. discriminate.
    - intros Ek sl Hs. destruct sl as [o r0|o r0].
      + intro He. destruct I3 as [_ [_ R3]]. destruct (R3 k o r0 Hs He) as [o' [r' [X Y]]].
        rewrite S0, Hsl0 in X. injection X as X1 X2. subst o'. unfold is_pending in Hp. rewrite Y in Hp. discriminate.
      + left. assert (Hne : Dead o r0 <> sl0) by (rewrite Hsl0; discriminate).
        pose proof (step_self_newer _ _ _ _ _ _ _ _ INV (Dead o r0) sl0 Hs S0 Hne) as L. cbn in L. lia. }
  assert (W0 : wstate (Dlog e) (e_tab e) (c_rev ch) (res ++ [r]) (r_clear q k)).
  { split; [apply twf_keyed; exact I1|]. split; [destruct I3 as [R1 _]; lia|exact C2]. }
  pose proof (do_call_wstate (Dlog e) e snap true 0 (c_obj ch) (c_rev ch) _ _ _ W0) as W1.
  rewrite Ec in W1. cbn [fst] in W1. destruct W1 as [_ [_ C3]].
  assert (Q' : q_items q' = q_items (r_clear q k)).
  { subst q'. destruct ok; [rewrite clear_idem|]; reflexivity. }
  apply (step_rest_inv (Dlog e) snap e q res cur ch rest INV (Dlog e1)).
  - apply (wstep_twf _ _ WS I1).
  - apply (wstep_snap_rel _ _ _ WS I1 I3).
  - subst q'. destruct ok; [apply uniq_clear|]; apply uniq_clear; exact I6.
  - intros it Hin. rewrite Q' in Hin. apply in_clear_items in Hin. destruct (I7 it Hin). pose proof (wstep_rev _ _ WS). split; lia.
  - unfold res_pks. rewrite map_app. cbn [map]. apply nodup_snoc; [exact I8|]. apply (I9 ch). left. reflexivity.
  - intros p Hp'. unfold res_pks in Hp'. rewrite map_app in Hp'. apply in_app_or in Hp'.
    destruct Hp' as [X|[X|[]]]; [left; exact X|right; symmetry; exact X].
  - intros x Hx. apply in_app_or in Hx. destruct Hx as [Hx|[Hx|[]]]; [apply I10; exact Hx|subst x; cbn; split; exact P1].
  - intro pk. apply (covered_q_ext _ _ _ _ (r_clear q k)); [exact Q'|].
    apply (covered_D_mono (Dlog e)); [apply (Dlog_mono e e1 [cl] LC)|apply C3].
Qed.

Lemma step_delete : forall snap e q res cur ch rest e' q' res',
  phase_inv (Dlog e) snap e q res cur (ch :: rest) -> c_del ch = true ->
  process_single e snap true (r_clear q (ch_pk ch)) res (c_obj ch) (c_rev ch) (c_rev ch) true = (e', q', res') ->
  phase_inv (Dlog e') snap e' q' res' (c_rev ch) rest.
Proof.
  intros snap e q res cur ch rest e' q' res' INV Hd H.
  destruct (step_head_slot _ _ _ _ _ _ _ _ INV) as [sl0 [S0 [S1 [P0 [P1 [P2 P3]]]]]].
  pose proof INV as [I1 I2 I3 I4 I5 I6 I7 I8 I9 I10 I11].
  unfold process_single in H.
  destruct (do_call e snap true 1 (c_obj ch) (c_rev ch)) as [e1 ok] eqn:Ec.
  set (k := ch_pk ch) in *.
  destruct (do_call_effect _ _ _ _ _ _ _ _ I1 Ec) as [WS [_ [cl [LC [L1 [L2 [L3 L4]]]]]]].
  assert (Hsl0 : sl0 = Dead (c_obj ch) (c_rev ch)).
  { destruct sl0 as [o0 r0|o0 r0]; rewrite <- S1 in *; cbn in *; [discriminate|reflexivity]. }
  set (D' := fun p r0 => Dlog e p r0 \/ (p = o_pk (c_obj ch) /\ r0 = c_rev ch)).
  assert (C2 : forall pk, covered D' (e_tab e) (c_rev ch) res (r_clear q k) pk).
  { intro pk. apply cov_clear.
    - apply (cov_advance _ _ cur); [lia| |].
      + apply (covered_D_mono (Dlog e)); [intros p r0 X; left; exact X|apply I11].
      + intros sl Hs Hlt Hle. destruct (step_interval _ _ _ _ _ _ _ _ INV pk sl Hs Hlt Hle) as [K SC].
        destruct sl as [o r0|o r0].
        * rewrite <- SC in Hd. discriminate.
        * right. right. split; [rewrite K; reflexivity|]. rewrite <- SC. reflexivity.
    - intros Ek sl Hs. destruct sl as [o r0|o r0].
      + intro He. destruct I3 as [_ [_ R3]]. destruct (R3 k o r0 Hs He) as [o' [r' [X Y]]].
        rewrite S0, Hsl0 in X. discriminate.
      + destruct (N.lt_ge_cases (t_rev snap) r0) as [L|L]; [left; lia|].
        right. right. split; [reflexivity|].
        destruct I3 as [_ [R2 _]]. specialize (R2 k (Dead o r0) Hs L). rewrite S0, Hsl0 in R2. injection R2 as X1 X2. symmetry. exact X2. }
  assert (W0 : wstate D' (e_tab e) (c_rev ch) res (r_clear q k)).
  { split; [apply twf_keyed; exact I1|]. split; [destruct I3 as [R1 _]; lia|exact C2]. }
  pose proof (do_call_wstate D' e snap true 1 (c_obj ch) (c_rev ch) _ _ _ W0) as W1.
  rewrite Ec in W1. cbn [fst] in W1. destruct W1 as [_ [_ C3]].
  assert (DM : forall p r0, Dlog e p r0 -> Dlog e1 p r0) by (apply (Dlog_mono e e1 [cl] LC)).
  destruct ok; injection H as H1 H2 H3; subst e' q' res'.
  - (* Delete succeeded *)
    apply (step_rest_inv (Dlog e) snap e q res cur ch rest INV (Dlog e1)).
    + apply (wstep_twf _ _ WS I1).
    + apply (wstep_snap_rel _ _ _ WS I1 I3).
    + apply uniq_clear. apply uniq_clear. exact I6.
    + intros it Hin. rewrite clear_idem in Hin. apply in_clear_items in Hin. destruct (I7 it Hin). pose proof (wstep_rev _ _ WS). split; lia.
    + exact I8.
    + intros p Hp'. left. exact Hp'.
    + exact I10.
    + intro pk. rewrite clear_idem. apply (covered_D_mono D'); [|apply C3].
      intros p r0 [X|[X1 X2]]; [apply DM; exact X|].
      exists cl. split; [rewrite LC; apply in_or_app; right; left; reflexivity|].
      rewrite L1, L2, L3, L4. subst p r0. repeat split.
  - (* Delete failed: queued *)
    apply (step_rest_inv (Dlog e) snap e q res cur ch rest INV (Dlog e1)).
    + apply (wstep_twf _ _ WS I1).
    + apply (wstep_snap_rel _ _ _ WS I1 I3).
    + apply uniq_add. apply uniq_clear. exact I6.
    + intros it Hin. rewrite add_items in Hin. apply in_put_item in Hin. pose proof (wstep_rev _ _ WS) as M. destruct I3 as [R1 _].
      destruct Hin as [Hin|Hin]; [subst it; cbn; split; lia|]. apply in_clear_items in Hin. destruct (I7 it Hin). split; lia.
    + exact I8.
    + intros p Hp'. left. exact Hp'.
    + exact I10.
    + intro pk. apply cov_add_del; [intros it Hit; rewrite no_item_after_clear in Hit; discriminate|].
      apply (covered_D_mono D'); [|apply C3]. intros p r0 [X|X]; [left; apply DM; exact X|right; exact X].
Qed.

(* incremental.go single over the whole stream (any round size, any outcomes, any writes from inside) *)
Theorem single_inv : forall chs rs snap c0 e q res nrec lastrev e' q' res' nrec' lastrev',
  phase_inv (Dlog e) snap e q res (curs c0 lastrev) chs ->
  single rs snap chs e q res nrec lastrev = (e', q', res', nrec', lastrev') ->
  exists chs', phase_inv (Dlog e') snap e' q' res' (curs c0 lastrev') chs'.
Proof.
  induction chs as [|ch rest IH]; intros rs snap c0 e q res nrec lastrev e' q' res' nrec' lastrev' INV H; cbn [single] in H.
  - injection H as H1 H2 H3 H4 H5. subst. exists []. exact INV.
  - destruct (step_head_slot _ _ _ _ _ _ _ _ INV) as [sl0 [S0 [S1 [P0 [P1 [P2 P3]]]]]].
    assert (CU : curs c0 (c_rev ch) = c_rev ch).
    { unfold curs. destruct (c_rev ch =? 0) eqn:E; [apply N.eqb_eq in E; lia|reflexivity]. }
    destruct (negb (c_del ch) && negb (is_pending (c_obj ch))) eqn:Esk.
    + apply andb_prop in Esk. destruct Esk as [E1 E2]. apply negb_true_iff in E1. apply negb_true_iff in E2.
      apply (IH rs snap c0 e q res nrec (c_rev ch) e' q' res' nrec' lastrev'); [rewrite CU; apply (step_skip _ _ _ _ _ _ _ _ INV E1 E2)|exact H].
    + destruct (process_single e snap true (r_clear q (o_pk (c_obj ch))) res (c_obj ch) (c_rev ch) (c_rev ch) (c_del ch))
        as [[e1 q1] res1] eqn:Ep.
      assert (INV1 : phase_inv (Dlog e1) snap e1 q1 res1 (c_rev ch) rest).
      { destruct (c_del ch) eqn:Ed.
        - apply (step_delete _ _ _ _ _ _ _ _ _ _ INV Ed Ep).
        - cbn [negb andb] in Esk. apply negb_false_iff in Esk. apply (step_update _ _ _ _ _ _ _ _ _ _ INV Ed Esk Ep). }
      destruct (rs <=? nrec + 1).
      * injection H as H1 H2 H3 H4 H5. subst. exists rest. rewrite CU. exact INV1.
      * apply (IH rs snap c0 e1 q1 res1 (nrec + 1) (c_rev ch) e' q' res' nrec' lastrev'); [rewrite CU; exact INV1|exact H].
Qed.
