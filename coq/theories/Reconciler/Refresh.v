(* Reconciler/Refresh.v — the write of the refresher (reconciler/reconciler.go refreshLoop).

   In Model.v a refresh is the atomic user write `w_ref` (kind 5 of do_write): a live Done object gets status
   Refreshing with a fresh id.  The real refresher is a concurrent loop: it iterates a READ snapshot in
   revision order and, for a Done object (obj, rev) older than the refresh interval, opens a write
   transaction, re-reads the object and only `if ok && rev == newRev` inserts the clone of the RE-READ object
   with StatusRefreshing().  Between the snapshot and the write transaction arbitrary writes (user writes,
   status commits of the reconciler) may have been committed.

   Here: one refresher action as coded (`refresh_write`), on the CURRENT table, for a pair (o, rev) the
   refresher saw in an earlier snapshot `snap`:
   (a) key untouched since the snapshot  => the write is exactly the model's `ref` write;
   (b) key written or deleted meanwhile   => nothing is written;
   (c) in all cases only a status changes (same statuses-erased table, deleted/absent keys untouched, other
       keys untouched);
   (d) Refreshing is written only over the very object seen in the snapshot, still Done — never over a
       Pending/Refreshing/Error object, hence never over an object with a queued update retry;
   and the two seeded variants (stale check / no revision check) refuted by concrete runs of the model.

   NOT modelled: the refresher's TIMING — which objects it picks and when (UpdatedAt, RefreshInterval, the
   rate limiter, lastRevision): (o, rev) is ANY Done object of ANY earlier snapshot. *)
From Coq Require Import List NArith Bool Lia ZifyN ZifyBool.
From SV Require Import Reconciler.Retries Reconciler.Model Reconciler.RetriesProofs Reconciler.CommitProofs
  Reconciler.RoundProofs Reconciler.CoverProofs Reconciler.StepProofs Reconciler.TableWf Reconciler.StreamProofs
  Reconciler.PhaseProofs Reconciler.BatchProofs Reconciler.RoundInv Reconciler.Runs Reconciler.Progress
  Reconciler.Converge Reconciler.StatusOnly Reconciler.ItemsInv.
Import ListNotations.
Open Scope N_scope.

(* ================================================================== 1. the refresher's write *)
(* reconciler.go refreshLoop, the body of `if status.Kind == StatusKindDone`:
     wtxn := r.DB.WriteTxn(table)
     obj, newRev, ok := table.Get(wtxn, indexer.QueryFromObject(obj))
     if ok && rev == newRev { table.Insert(wtxn, SetObjectStatus(CloneObject(obj), StatusRefreshing())) }
     wtxn.Commit()
   t is the table the write transaction sees; (o, rev) come from the earlier read snapshot *)
Definition refresh_write (t : table) (o : obj) (rev : N) : table :=
  match t_live t (o_pk o) with
  | Some (cur, r) =>
    if r =? rev then let (t1, id) := t_fresh_id t in t_insert t1 (with_status cur Refreshing id) else t
  | None => t
  end.

(* what the refresher saw: a live Done object with its revision in a snapshot *)
Definition refresher_saw (snap : table) (o : obj) (rev : N) : Prop :=
  t_live snap (o_pk o) = Some (o, rev) /\ o_kind o = Done.

(* seeded variant A: the revision check is made on a READ transaction `chk` taken before the write
   transaction, and the OLD object (of the snapshot) is then inserted unconditionally *)
Definition refresh_write_stale (chk t : table) (o : obj) (rev : N) : table :=
  match t_live chk (o_pk o) with
  | Some (_, r) =>
    if r =? rev then let (t1, id) := t_fresh_id t in t_insert t1 (with_status o Refreshing id) else t
  | None => t
  end.

(* seeded variant B: `if ok` — the revision comparison is dropped *)
Definition refresh_write_nocheck (t : table) (o : obj) : table :=
  match t_live t (o_pk o) with
  | Some (cur, _) => let (t1, id) := t_fresh_id t in t_insert t1 (with_status cur Refreshing id)
  | None => t
  end.

Lemma refresh_write_eq : forall t o rev, refresh_write t o rev =
  match t_live t (o_pk o) with
  | Some (cur, r) => if r =? rev then t_insert (fst (t_fresh_id t)) (with_status cur Refreshing (t_nextid t)) else t
  | None => t
  end.
Proof. reflexivity. Qed.

(* ================================================================== 2. anything may happen in between *)
(* any sequence of committed write transactions on the table: id draws, inserts of ANY object (user writes,
   foreign status writes, the reconciler's own status commits, other refreshes), deletes *)
Inductive tstep : table -> table -> Prop :=
| tt_refl : forall t, tstep t t
| tt_id : forall t, tstep t (fst (t_fresh_id t))
| tt_ins : forall t o, tstep t (t_insert t o)
| tt_del : forall t k, tstep t (t_delete t k)
| tt_init : forall t, tstep t (mkTable (t_slots t) (t_rev t) (t_nextid t) false)   (* initializer completion *)
| tt_trans : forall t1 t2 t3, tstep t1 t2 -> tstep t2 t3 -> tstep t1 t3.

Lemma tstep_twf : forall t t', tstep t t' -> twf t -> twf t'.
Proof.
  intros t t' H. induction H; intro W.
  - exact W.
  - apply (twf_ext t); [reflexivity|reflexivity|exact W].
  - rewrite t_insert_tset. apply twf_tset; [exact W|reflexivity|reflexivity].
  - destruct (t_delete_cases t k) as [[o [r [A B]]]|[_ B]]; rewrite B; [|exact W].
    apply twf_tset; [exact W| |reflexivity]. destruct W as [_ [W2 _]]. destruct (W2 k _ A) as [X _]. exact X.
  - apply (twf_ext t); [reflexivity|reflexivity|exact W].
  - auto.
Qed.

Lemma tstep_rev : forall t t', tstep t t' -> t_rev t <= t_rev t'.
Proof.
  intros t t' H. induction H; try (cbn; lia).
  pose proof (t_rev_delete t k). lia.
Qed.

Lemma wstep_tstep : forall t t', wstep t t' -> tstep t t'.
Proof.
  intros t t' H. induction H.
  - apply tt_refl.
  - apply tt_id.
  - apply tt_ins.
  - apply tt_del.
  - apply (tt_trans _ t2); assumption.
Qed.

Lemma ustep_tstep : forall t t', ustep t t' -> tstep t t'.
Proof.
  intros t t' H. induction H.
  - apply tt_refl.
  - apply (tt_trans _ (fst (t_fresh_id t))); [apply tt_id|apply tt_ins].
  - apply tt_ins.
  - apply tt_del.
  - apply (tt_trans _ t2); assumption.
Qed.

Lemma do_write_tstep : forall e kind k, tstep (e_tab e) (e_tab (do_write e kind k)).
Proof. intros. apply ustep_tstep. apply do_write_ustep. Qed.

(* one iteration of commitStatus, a whole commitStatus *)
Lemma commit_one_tstep : forall fixed efb now t q r t' q',
  commit_one fixed efb now (t, q) r = (t', q') -> tstep t t'.
Proof.
  intros fixed efb now t q r t' q' H.
  destruct (commit_one_cases _ _ _ _ _ _ _ _ H) as [[A _]|[[cur [_ [A _]]]|[cur [rv [_ [_ [_ [A _]]]]]]]]; subst t'.
  - apply tt_id.
  - apply (tt_trans _ (fst (t_fresh_id t))); [apply tt_id|apply tt_ins].
  - apply (tt_trans _ (fst (t_fresh_id t))); [apply tt_id|apply tt_ins].
Qed.

Lemma commit_status_tstep : forall fixed efb now res t q t' q',
  commit_status_gen fixed efb now t q res = (t', q') -> tstep t t'.
Proof.
  intros fixed efb now res. unfold commit_status_gen. induction res as [|r rest IH]; intros t q t' q' H.
  - cbn in H. injection H as H1 H2. subst. apply tt_refl.
  - cbn [fold_left] in H. destruct (commit_one fixed efb now (t, q) r) as [t1 q1] eqn:E1.
    apply (tt_trans _ t1); [apply (commit_one_tstep _ _ _ _ _ _ _ _ E1)|apply (IH _ _ _ _ H)].
Qed.

(* the refresher's own write is such a step *)
Lemma refresh_write_tstep : forall t o rev, tstep t (refresh_write t o rev).
Proof.
  intros t o rev. rewrite refresh_write_eq. destruct (t_live t (o_pk o)) as [[cur r]|]; [|apply tt_refl].
  destruct (r =? rev); [|apply tt_refl].
  apply (tt_trans _ (fst (t_fresh_id t))); [apply tt_id|apply tt_ins].
Qed.

(* under table well-formedness: whatever was committed in between, a key's slot is either exactly as it was
   or carries a revision above the snapshot's table revision (a write gives the key a strictly larger
   revision; a delete turns the live slot into a graveyard entry at a strictly larger revision) *)
Lemma tstep_slot : forall t t', tstep t t' -> twf t -> forall k,
  slot_of t' k = slot_of t k \/ exists sl, slot_of t' k = Some sl /\ t_rev t < slot_rev sl.
Proof.
  intros t t' H. induction H; intros W k0.
  - left. reflexivity.
  - left. apply slot_fresh.
  - destruct (N.eq_dec k0 (o_pk o)) as [E|E].
    + right. subst k0. exists (Live o (t_rev t + 1)). split; [apply slot_insert_same|cbn [slot_rev]; lia].
    + left. apply slot_insert_other. exact E.
  - destruct (t_delete_cases t k) as [[o [r [A B]]]|[_ B]]; rewrite B; [|left; reflexivity].
    destruct (N.eq_dec k0 k) as [E|E].
    + right. subst k0. exists (Dead o (t_rev t + 1)). split; [apply slot_tset_same|cbn [slot_rev]; lia].
    + left. apply slot_tset_other. exact E.
  - left. reflexivity.
  - pose proof (tstep_twf _ _ H W) as W2. pose proof (tstep_rev _ _ H) as M.
    destruct (IHtstep2 W2 k0) as [A|[sl [A B]]].
    + rewrite A. apply (IHtstep1 W k0).
    + right. exists sl. split; [exact A|lia].
Qed.

Lemma live_of_slot_eq : forall t t' k, slot_of t' k = slot_of t k -> t_live t' k = t_live t k.
Proof. intros t t' k H. unfold t_live. unfold slot_of in H. rewrite H. reflexivity. Qed.

(* the two situations the write transaction can find, for a pair (o, rev) read from an earlier snapshot *)
Lemma refresh_cases : forall snap t o rev, twf snap -> tstep snap t ->
  t_live snap (o_pk o) = Some (o, rev) ->
  (slot_of t (o_pk o) = slot_of snap (o_pk o) /\ t_live t (o_pk o) = Some (o, rev)) \/
  (slot_of t (o_pk o) <> slot_of snap (o_pk o) /\
   forall cur r, t_live t (o_pk o) = Some (cur, r) -> rev < r).
Proof.
  intros snap t o rev W S HL.
  assert (Hs : slot_of snap (o_pk o) = Some (Live o rev)) by (apply t_live_slot; exact HL).
  assert (Hr : rev <= t_rev snap).
  { destruct W as [_ [W2 _]]. destruct (W2 _ _ Hs) as [_ [_ X]]. exact X. }
  destruct (tstep_slot _ _ S W (o_pk o)) as [A|[sl [A B]]].
  - left. split; [exact A|]. rewrite (live_of_slot_eq _ _ _ A). exact HL.
  - right. split.
    + rewrite A, Hs. intro X. injection X as X. subst sl. cbn [slot_rev] in B. lia.
    + intros cur r Hc. apply t_live_slot in Hc. rewrite A in Hc. injection Hc as Hc. subst sl. cbn [slot_rev] in B. lia.
Qed.

(* ================================================================== 3. (a) untouched key: exactly the model's ref *)
Theorem refresh_write_unchanged_is_ref : forall snap e o rev,
  refresher_saw snap o rev ->
  slot_of (e_tab e) (o_pk o) = slot_of snap (o_pk o) ->
  refresh_write (e_tab e) o rev = e_tab (do_write e 5 (o_pk o)).
Proof.
  intros snap e o rev [HL HK] A.
  change (do_write e 5 (o_pk o)) with (w_ref e (o_pk o)).
  pose proof (live_of_slot_eq _ _ _ A) as L. rewrite HL in L.
  rewrite refresh_write_eq. unfold w_ref. rewrite L, N.eqb_refl, HK. unfold t_fresh_id. reflexivity.
Qed.

(* ================================================================== (b) written meanwhile: nothing *)
Theorem refresh_write_changed_is_nothing : forall snap t o rev, twf snap -> tstep snap t ->
  t_live snap (o_pk o) = Some (o, rev) ->
  slot_of t (o_pk o) <> slot_of snap (o_pk o) ->
  refresh_write t o rev = t.
Proof.
  intros snap t o rev W S HL Hne.
  destruct (refresh_cases _ _ _ _ W S HL) as [[A _]|[_ B]]; [contradiction|].
  rewrite refresh_write_eq. destruct (t_live t (o_pk o)) as [[cur r]|] eqn:E; [|reflexivity].
  pose proof (B cur r eq_refl) as X. destruct (r =? rev) eqn:Er; [|reflexivity]. apply N.eqb_eq in Er. lia.
Qed.

(* the two elementary instances: a write to the key, a delete of the key *)
Corollary refresh_after_insert_is_nothing : forall snap o rev x, twf snap ->
  t_live snap (o_pk o) = Some (o, rev) -> o_pk x = o_pk o ->
  refresh_write (t_insert snap x) o rev = t_insert snap x.
Proof.
  intros snap o rev x W HL Hk. apply (refresh_write_changed_is_nothing snap); [exact W|apply tt_ins|exact HL|].
  rewrite <- Hk, slot_insert_same, Hk. apply t_live_slot in HL. rewrite HL. intro X. injection X as _ X.
  destruct W as [_ [W2 _]]. destruct (W2 _ _ HL) as [_ [_ Y]]. cbn [slot_rev] in Y. lia.
Qed.
Corollary refresh_after_delete_is_nothing : forall snap o rev, twf snap ->
  t_live snap (o_pk o) = Some (o, rev) ->
  refresh_write (t_delete snap (o_pk o)) o rev = t_delete snap (o_pk o) /\
  t_live (t_delete snap (o_pk o)) (o_pk o) = None.
Proof.
  intros snap o rev W HL. pose proof HL as Hs. apply t_live_slot in Hs.
  pose proof (slot_delete_same _ _ _ _ Hs) as D.
  assert (N0 : t_live (t_delete snap (o_pk o)) (o_pk o) = None).
  { unfold t_live. unfold slot_of in D. rewrite D. reflexivity. }
  split; [|exact N0]. rewrite refresh_write_eq, N0. reflexivity.
Qed.

(* (a) + (b): the refresher's write is the model's atomic `ref` write on the current table, or nothing *)
Theorem refresher_write_is_ref_or_nothing : forall snap e o rev, twf snap -> tstep snap (e_tab e) ->
  refresher_saw snap o rev ->
  (slot_of (e_tab e) (o_pk o) = slot_of snap (o_pk o) /\
   refresh_write (e_tab e) o rev = e_tab (do_write e 5 (o_pk o))) \/
  (slot_of (e_tab e) (o_pk o) <> slot_of snap (o_pk o) /\
   refresh_write (e_tab e) o rev = e_tab e).
Proof.
  intros snap e o rev W S Saw. pose proof Saw as [HL HK].
  destruct (refresh_cases _ _ _ _ W S HL) as [[A _]|[A _]].
  - left. split; [exact A|]. apply (refresh_write_unchanged_is_ref snap); assumption.
  - right. split; [exact A|]. apply (refresh_write_changed_is_nothing snap); assumption.
Qed.

(* ================================================================== (c) only a status changes *)
(* unconditionally in (o, rev) — whatever the refresher believes it saw —: same statuses-erased table (payload
   version and foreign data of every live object, None for deleted ones, same keys in the same order),
   deleted/absent keys exactly as they were, every other key exactly as it was, table still well-formed *)
Theorem refresh_write_status_only : forall t o rev, keyed t ->
  status_only t (refresh_write t o rev) /\
  (forall k, k <> o_pk o -> slot_of (refresh_write t o rev) k = slot_of t k).
Proof.
  intros t o rev K. rewrite refresh_write_eq.
  destruct (t_live t (o_pk o)) as [[cur r]|] eqn:E.
  2:{ split; [split; [reflexivity|intros; reflexivity]|intros; reflexivity]. }
  destruct (r =? rev).
  2:{ split; [split; [reflexivity|intros; reflexivity]|intros; reflexivity]. }
  assert (Kc : o_pk cur = o_pk o) by (apply (K _ cur r); apply t_live_slot; exact E).
  assert (O : forall k, k <> o_pk o ->
    slot_of (t_insert (fst (t_fresh_id t)) (with_status cur Refreshing (t_nextid t))) k = slot_of t k).
  { intros k Hk. rewrite slot_insert_other by (cbn [with_status o_pk]; rewrite Kc; exact Hk). apply slot_fresh. }
  split; [split|exact O].
  - rewrite (erase_insert _ _ cur r); [apply erase_fresh| |reflexivity|reflexivity].
    cbn [with_status o_pk]. rewrite live_fresh, Kc. exact E.
  - intros k NL. apply O. intro X. subst k. unfold not_live in NL. apply t_live_slot in E. rewrite E in NL. exact NL.
Qed.

Corollary refresh_write_erase : forall t o rev, keyed t -> erase (refresh_write t o rev) = erase t.
Proof. intros t o rev K. destruct (refresh_write_status_only t o rev K) as [[A _] _]. exact A. Qed.

Corollary refresh_write_payload : forall t o rev, keyed t -> forall k, payload (refresh_write t o rev) k = payload t k.
Proof. intros t o rev K. apply erase_payload. apply refresh_write_erase. exact K. Qed.

Lemma refresh_write_twf : forall t o rev, twf t -> twf (refresh_write t o rev).
Proof. intros t o rev W. apply (tstep_twf t); [apply refresh_write_tstep|exact W]. Qed.

(* ================================================================== (d) only over the object seen, still Done *)
(* if the refresher writes at all, the table still held the very object of the snapshot at the snapshot's
   revision (a Done object), and the result is that object with status Refreshing, a fresh id and the next
   revision *)
Theorem refresh_write_only_over_seen : forall snap t o rev, twf snap -> tstep snap t ->
  refresher_saw snap o rev ->
  refresh_write t o rev <> t ->
  t_live t (o_pk o) = Some (o, rev) /\ o_kind o = Done /\
  t_live (refresh_write t o rev) (o_pk o) = Some (with_status o Refreshing (t_nextid t), t_rev t + 1).
Proof.
  intros snap t o rev W S [HL HK] Hne.
  destruct (refresh_cases _ _ _ _ W S HL) as [[_ A]|[A _]].
  - split; [exact A|]. split; [exact HK|].
    rewrite refresh_write_eq, A, N.eqb_refl.
    exact (live_insert_same (fst (t_fresh_id t)) (with_status o Refreshing (t_nextid t))).
  - exfalso. apply Hne. apply (refresh_write_changed_is_nothing snap); assumption.
Qed.

(* never over an object that is not Done: Pending, Refreshing or Error objects are left alone *)
Theorem refresh_write_not_over_other_status : forall snap t o rev cur r, twf snap -> tstep snap t ->
  refresher_saw snap o rev ->
  t_live t (o_pk o) = Some (cur, r) -> o_kind cur <> Done ->
  refresh_write t o rev = t.
Proof.
  intros snap t o rev cur r W S [HL HK] Hc Hk.
  destruct (refresh_cases _ _ _ _ W S HL) as [[_ A]|[A _]].
  - rewrite A in Hc. injection Hc as Hc _. subst cur. contradiction.
  - apply (refresh_write_changed_is_nothing snap); assumption.
Qed.

Corollary refresh_write_not_over_error : forall snap t o rev, twf snap -> tstep snap t ->
  refresher_saw snap o rev -> err_live t (o_pk o) -> refresh_write t o rev = t.
Proof.
  intros snap t o rev W S Saw [cur [r [A B]]]. apply t_live_slot in A.
  apply (refresh_write_not_over_other_status snap t o rev cur r); try assumption. rewrite B. discriminate.
Qed.

(* (c) + (d) for a pair from an earlier snapshot of a well-formed table *)
Theorem refresher_changes_only_status : forall snap t o rev, twf snap -> tstep snap t ->
  refresher_saw snap o rev ->
  (status_only t (refresh_write t o rev) /\
   (forall k, k <> o_pk o -> slot_of (refresh_write t o rev) k = slot_of t k)) /\
  (refresh_write t o rev <> t ->
   t_live t (o_pk o) = Some (o, rev) /\ o_kind o = Done /\
   t_live (refresh_write t o rev) (o_pk o) = Some (with_status o Refreshing (t_nextid t), t_rev t + 1)) /\
  (forall cur r, t_live t (o_pk o) = Some (cur, r) -> o_kind cur <> Done -> refresh_write t o rev = t).
Proof.
  intros snap t o rev W S Saw. split; [|split].
  - apply refresh_write_status_only. apply twf_keyed. apply (tstep_twf snap); assumption.
  - apply (refresh_write_only_over_seen snap); assumption.
  - intros cur r. apply (refresh_write_not_over_other_status snap); assumption.
Qed.

(* hence, in every reachable state of the reconciler: an object with an UPDATE retry item (queued, or popped
   and awaiting its re-queue) is not touched by the refresher — such an object carries our Error status, or
   is Pending/Refreshing/deleted ahead of the change cursor; the retry keeps its backoff *)
Theorem refresher_leaves_queued_retries_alone : forall cf e s snap o rev it, reach cf (e, s) ->
  twf snap -> tstep snap (e_tab e) -> refresher_saw snap o rev ->
  In it (q_items (k_ret s)) -> ri_del it = false -> ri_pk it = o_pk o ->
  refresh_write (e_tab e) o rev = e_tab e.
Proof.
  intros cf e s snap o rev it R W S Saw Hin Hd Hk.
  pose proof (reach_items_inv cf (e, s) R it Hin) as X. cbn [fst snd] in X. unfold item_ok in X. rewrite Hk in X.
  destruct X as [[sl [A [_ B]]]|[[_ A]|[[_ [_ [_ A]]]|[_ [_ [r [[] _]]]]]]].
  - destruct sl as [cur r|cur r].
    + apply t_live_slot in A. apply (refresh_write_not_over_other_status snap _ o rev cur r); try assumption.
      cbn [slot_act] in B. unfold is_pending in B. intro X. rewrite X in B. discriminate.
    + rewrite refresh_write_eq. unfold t_live. unfold slot_of in A. rewrite A. reflexivity.
  - congruence.
  - apply (refresh_write_not_over_error snap); assumption.
Qed.

(* ================================================================== 4. the refresher inside runs *)
(* st' is a later state of the run than st: environment steps (user writes of every kind, time, faults,
   hooks, ...) and reconciler rounds *)
Inductive later (cf : cfg) (st : env * rstate) : env * rstate -> Prop :=
| lt_refl : later cf st st
| lt_env : forall st' st'', later cf st st' -> estep st' st'' -> later cf st st''
| lt_round : forall e s, later cf st (e, s) -> later cf st (round cf e s).

Lemma later_reach : forall cf st st', reach cf st -> later cf st st' -> reach cf st'.
Proof.
  intros cf st st' R L. induction L.
  - exact R.
  - apply (reach_env cf st'); assumption.
  - apply reach_round. exact IHL.
Qed.

Lemma reach_twf : forall cf st, reach cf st -> twf (e_tab (fst st)).
Proof. intros cf st R. destruct (nothing_forgotten cf st R) as [[[W _] _] _]. exact W. Qed.

Lemma estep_tstep : forall st st', estep st st' -> tstep (e_tab (fst st)) (e_tab (fst st')).
Proof.
  intros st st' H. destruct H; cbn [fst]; try apply tt_refl.
  - apply do_write_tstep.
  - apply tt_init.
Qed.

Lemma user_writes_tstep : forall K t t', user_writes_in K t t' -> tstep t t'.
Proof. intros K t t' H. apply ustep_tstep. apply (user_writes_ustep K). exact H. Qed.

(* a whole round: user writes from hooks, a commitStatus, user writes from hooks, a commitStatus *)
Lemma round_tstep : forall cf st, reach cf st ->
  tstep (e_tab (fst st)) (e_tab (fst (round cf (fst st) (snd st)))).
Proof.
  intros cf st R. destruct (round cf (fst st) (snd st)) as [e' s'] eqn:HR.
  destruct (round_commits_change_only_statuses cf st R e' s' HR) as [U1 [_ [U3 _]]].
  destruct (round_trace_spec cf (fst st) (snd st)) as [_ [C1 [C2 [T2 _]]]].
  rewrite HR in T2. cbn [fst] in T2. cbn [fst]. rewrite T2.
  apply (tt_trans _ (e_tab (tr_e1 (round_trace cf (fst st) (snd st))))); [apply (user_writes_tstep _ _ _ U1)|].
  apply (tt_trans _ (tr_t1 (round_trace cf (fst st) (snd st)))); [apply (commit_status_tstep _ _ _ _ _ _ _ _ C1)|].
  apply (tt_trans _ (e_tab (tr_e3 (round_trace cf (fst st) (snd st))))); [apply (user_writes_tstep _ _ _ U3)|].
  apply (commit_status_tstep _ _ _ _ _ _ _ _ C2).
Qed.

Lemma later_tstep : forall cf st st', reach cf st -> later cf st st' -> tstep (e_tab (fst st)) (e_tab (fst st')).
Proof.
  intros cf st st' R L. induction L.
  - apply tt_refl.
  - apply (tt_trans _ (e_tab (fst st'))); [exact IHL|apply estep_tstep; assumption].
  - apply (tt_trans _ (e_tab e)); [exact IHL|].
    apply (round_tstep cf (e, s)). apply (later_reach cf st); assumption.
Qed.

(* The refresher reads (o, rev) — a Done object — from the table of ANY reachable state st and commits its
   write transaction in ANY later state st' of the run (single or batch mode, any faults, any user writes
   and rounds in between).  Then its write is the model's `ref` write applied at st' — an environment step of
   the model, so the resulting state is again a reachable state — or nothing at all; and it is the `ref` write
   only if the key still holds the object seen. *)
Theorem refresher_in_runs : forall cf st st' o rev, reach cf st -> later cf st st' ->
  refresher_saw (e_tab (fst st)) o rev ->
  (t_live (e_tab (fst st')) (o_pk o) = Some (o, rev) /\
   refresh_write (e_tab (fst st')) o rev = e_tab (do_write (fst st') 5 (o_pk o)) /\
   reach cf (do_write (fst st') 5 (o_pk o), snd st')) \/
  (slot_of (e_tab (fst st')) (o_pk o) <> slot_of (e_tab (fst st)) (o_pk o) /\
   refresh_write (e_tab (fst st')) o rev = e_tab (fst st')).
Proof.
  intros cf st st' o rev R L Saw.
  pose proof (reach_twf cf st R) as W. pose proof (later_tstep cf st st' R L) as S.
  destruct (refresher_write_is_ref_or_nothing _ (fst st') o rev W S Saw) as [[A B]|[A B]].
  - left. split; [rewrite (live_of_slot_eq _ _ _ A); apply Saw|]. split; [exact B|].
    apply (reach_env cf st'); [apply (later_reach cf st); assumption|].
    destruct st' as [e' s']. cbn [fst snd]. apply es_write.
  - right. split; assumption.
Qed.

(* ================================================================== 5. the seeded variants refuted *)
(* a run of the model: put key 1, the reconciler settles: payload version 1, Done at revision 2.  The
   refresher's snapshot. *)
Definition rf_cf : cfg := mkCfg false 10 10 40 0 false.
Definition rf_st0 : env * rstate := settle 50 rf_cf (do_write (env0 rf_cf) 0 1) (rstate0 rf_cf).
Definition rf_snap : table := e_tab (fst rf_st0).
Definition rf_o : obj := mkObj 1 1 Done 2 0.
Definition rf_rev : N := 2.
(* meanwhile: the user updates the object (payload version 2) / deletes it *)
Definition rf_upd : table := e_tab (do_write (fst rf_st0) 0 1).
Definition rf_del : table := e_tab (do_write (fst rf_st0) 1 1).
(* meanwhile: the user updates the object and its Update fails twice (time 0, time 20): status Error,
   retry item with numRetries 2 queued for time 60 *)
Definition rf_st1 : env * rstate :=
  let e := add_fault (add_fault (add_fault (do_write (fst rf_st0) 0 1) 1 1) 1 2) 1 3 in
  let '(e, s) := settle 50 rf_cf e (snd rf_st0) in advance 10 50 rf_cf e s 20.
Definition rf_err : table := e_tab (fst rf_st1).
(* what the reconciler does next, up to time 39, when the table is t *)
Definition rf_next (t : table) : env * rstate :=
  let '(e, s) := settle 50 rf_cf (set_tab (clear_calls (fst rf_st1)) t) (snd rf_st1) in advance 10 50 rf_cf e s 39.
Definition calls_of (e : env) : list (N * N * N * bool) := map (fun c => (cl_t c, cl_op c, cl_pk c, cl_ok c)) (e_calls e).
Definition items_of (s : rstate) : list (N * N * N) := map (fun i => (ri_pk i, ri_at i, ri_n i)) (q_items (k_ret s)).

Lemma rf_reach0 : reach rf_cf rf_st0.
Proof. unfold rf_st0. apply reach_settle. apply (reach_env rf_cf (env0 rf_cf, rstate0 rf_cf)); [apply reach_init|apply es_write]. Qed.

Lemma reach_advance : forall fuel sfuel cf e s until, reach cf (e, s) -> reach cf (advance fuel sfuel cf e s until).
Proof.
  unfold advance. induction fuel as [|f IH]; intros sfuel cf e s until R; cbn [advance_gen].
  - apply (reach_env cf (e, s)); [exact R|apply es_time].
  - destruct (next_event cf e s until) as [t|].
    + change (settle_gen true true sfuel cf (set_now e (N.max t (e_now e))) s)
        with (settle sfuel cf (set_now e (N.max t (e_now e))) s).
      destruct (settle sfuel cf (set_now e (N.max t (e_now e))) s) as [e' s'] eqn:E.
      apply IH. rewrite <- E. apply reach_settle. apply (reach_env cf (e, s)); [exact R|apply es_time].
    + apply (reach_env cf (e, s)); [exact R|apply es_time].
Qed.

Lemma rf_reach1 : reach rf_cf rf_st1.
Proof.
  unfold rf_st1.
  set (e0 := add_fault (add_fault (add_fault (do_write (fst rf_st0) 0 1) 1 1) 1 2) 1 3).
  assert (R0 : reach rf_cf (e0, snd rf_st0)).
  { pose proof rf_reach0 as R. destruct rf_st0 as [e s]. cbn [fst snd] in *. unfold e0.
    apply (reach_env rf_cf (add_fault (add_fault (do_write e 0 1) 1 1) 1 2, s)); [|apply es_fault].
    apply (reach_env rf_cf (add_fault (do_write e 0 1) 1 1, s)); [|apply es_fault].
    apply (reach_env rf_cf (do_write e 0 1, s)); [|apply es_fault].
    apply (reach_env rf_cf (e, s)); [exact R|apply es_write]. }
  pose proof (reach_settle 50 rf_cf e0 (snd rf_st0) R0) as R1.
  destruct (settle 50 rf_cf e0 (snd rf_st0)) as [e1 s1]. apply reach_advance. exact R1.
Qed.

Example rf_saw : refresher_saw rf_snap rf_o rf_rev /\ twf rf_snap /\ tstep rf_snap rf_upd /\ tstep rf_snap rf_del.
Proof.
  split; [split; vm_compute; reflexivity|]. split; [apply (reach_twf rf_cf rf_st0 rf_reach0)|].
  split; apply do_write_tstep.
Qed.

(* variant A reverts a committed user update (the payload version goes back from 2 to 1) and re-creates a
   deleted object; the code as it is writes nothing in both situations *)
Theorem refresh_stale_check_refuted :
  refresher_saw rf_snap rf_o rf_rev /\
  (erase rf_upd = [(1, Some (2, 0))] /\
   erase (refresh_write_stale rf_snap rf_upd rf_o rf_rev) = [(1, Some (1, 0))] /\
   refresh_write rf_upd rf_o rf_rev = rf_upd) /\
  (erase rf_del = [(1, None)] /\
   erase (refresh_write_stale rf_snap rf_del rf_o rf_rev) = [(1, Some (1, 0))] /\
   refresh_write rf_del rf_o rf_rev = rf_del).
Proof. split; [split; vm_compute; reflexivity|]. split; (split; [|split]); vm_compute; reflexivity. Qed.

(* variant B overwrites the Error status although a retry item is queued for time 60 (numRetries 2): Update
   is called again immediately (time 20, not 60) and, failing, is re-queued with numRetries 1 for time 40 —
   the backoff is reset.  With the code as it is nothing is written and (up to time 39, the horizon of
   rf_next) nothing is called: the item stays queued for time 60 with numRetries 2. *)
Theorem refresh_no_revision_check_refuted :
  refresher_saw rf_snap rf_o rf_rev /\
  t_live rf_err 1 = Some (mkObj 1 2 Error 5 0, 5) /\
  e_now (fst rf_st1) = 20 /\ items_of (snd rf_st1) = [(1, 60, 2)] /\
  t_live (refresh_write_nocheck rf_err rf_o) 1 = Some (mkObj 1 2 Refreshing 6 0, 6) /\
  refresh_write rf_err rf_o rf_rev = rf_err /\
  calls_of (fst (rf_next rf_err)) = [] /\ items_of (snd (rf_next rf_err)) = [(1, 60, 2)] /\
  calls_of (fst (rf_next (refresh_write_nocheck rf_err rf_o))) = [(20, 0, 1, false)] /\
  items_of (snd (rf_next (refresh_write_nocheck rf_err rf_o))) = [(1, 40, 1)].
Proof. split; [split; vm_compute; reflexivity|]. repeat split; vm_compute; reflexivity. Qed.

(* ================================================================== 6. non-vacuity *)
(* (a): after an unrelated write (put key 2) the slot of key 1 is as in the snapshot and the refresher's write
   is the ref write: key 1 becomes Refreshing (kind code 1) with its payload version 1.
   (b): after the user's update of key 1 the slot differs. *)
Example rf_unchanged_and_changed :
  (let e := do_write (fst rf_st0) 0 2 in
   tstep rf_snap (e_tab e) /\ slot_of (e_tab e) 1 = slot_of rf_snap 1 /\
   live_objs (refresh_write (e_tab e) rf_o rf_rev) = [(1, 1, 1); (2, 2, 0)] /\
   refresh_write (e_tab e) rf_o rf_rev <> e_tab e) /\
  slot_of rf_upd 1 <> slot_of rf_snap 1 /\ slot_of rf_del 1 <> slot_of rf_snap 1.
Proof.
  split; [split; [apply do_write_tstep|split; [vm_compute; reflexivity|split; [vm_compute; reflexivity|]]]|].
  - intro X. apply (f_equal t_rev) in X. vm_compute in X. discriminate.
  - split; vm_compute; discriminate.
Qed.

Lemma later_settle : forall fuel cf st e s, later cf st (e, s) -> later cf st (settle fuel cf e s).
Proof.
  unfold settle. induction fuel as [|f IH]; intros cf st e s L; cbn [settle_gen]; [exact L|].
  destruct (trigger_ready cf e s); [|exact L].
  change (round_gen true true cf e s) with (round cf e s).
  destruct (round cf e s) as [e' s'] eqn:E. apply IH. rewrite <- E. apply lt_round. exact L.
Qed.

Lemma later_advance : forall fuel sfuel cf st e s until, later cf st (e, s) -> later cf st (advance fuel sfuel cf e s until).
Proof.
  unfold advance. induction fuel as [|f IH]; intros sfuel cf st e s until L; cbn [advance_gen].
  - apply (lt_env cf st (e, s)); [exact L|apply es_time].
  - destruct (next_event cf e s until) as [t|].
    + change (settle_gen true true sfuel cf (set_now e (N.max t (e_now e))) s)
        with (settle sfuel cf (set_now e (N.max t (e_now e))) s).
      destruct (settle sfuel cf (set_now e (N.max t (e_now e))) s) as [e' s'] eqn:E.
      apply IH. rewrite <- E. apply later_settle. apply (lt_env cf st (e, s)); [exact L|apply es_time].
    + apply (lt_env cf st (e, s)); [exact L|apply es_time].
Qed.

Lemma rf_later1 : later rf_cf rf_st0 rf_st1.
Proof.
  unfold rf_st1.
  set (e0 := add_fault (add_fault (add_fault (do_write (fst rf_st0) 0 1) 1 1) 1 2) 1 3).
  assert (L0 : later rf_cf rf_st0 (e0, snd rf_st0)).
  { unfold e0. destruct rf_st0 as [e s] eqn:E0. cbn [fst snd].
    apply (lt_env rf_cf _ (add_fault (add_fault (do_write e 0 1) 1 1) 1 2, s)); [|apply es_fault].
    apply (lt_env rf_cf _ (add_fault (do_write e 0 1) 1 1, s)); [|apply es_fault].
    apply (lt_env rf_cf _ (do_write e 0 1, s)); [|apply es_fault].
    apply (lt_env rf_cf _ (e, s)); [apply lt_refl|apply es_write]. }
  pose proof (later_settle 50 rf_cf rf_st0 e0 (snd rf_st0) L0) as L1.
  destruct (settle 50 rf_cf e0 (snd rf_st0)) as [e1 s1]. apply later_advance. exact L1.
Qed.

(* (d): the state with the queued retry (numRetries 2, time 60) is a reachable state later than the
   snapshot's state, its key carries our Error status; the refresher's pair (rf_o, 2) is from the snapshot *)
Example rf_retry_state :
  reach rf_cf rf_st0 /\ later rf_cf rf_st0 rf_st1 /\ reach rf_cf rf_st1 /\ tstep rf_snap rf_err /\ err_live rf_err 1 /\
  (exists it, In it (q_items (k_ret (snd rf_st1))) /\ ri_del it = false /\ ri_pk it = o_pk rf_o /\ ri_inq it = true).
Proof.
  split; [exact rf_reach0|]. split; [exact rf_later1|]. split; [exact rf_reach1|].
  split; [apply (later_tstep rf_cf rf_st0 rf_st1 rf_reach0 rf_later1)|]. split.
  - exists (mkObj 1 2 Error 5 0), 5. split; vm_compute; reflexivity.
  - eexists. split; [vm_compute; left; reflexivity|]. split; [reflexivity|]. split; reflexivity.
Qed.

(* refresher_in_runs, second alternative: snapshot at rf_st0, write transaction at rf_st1 *)
Example rf_in_runs_nothing :
  refresh_write (e_tab (fst rf_st1)) rf_o rf_rev = e_tab (fst rf_st1) /\
  slot_of (e_tab (fst rf_st1)) 1 <> slot_of (e_tab (fst rf_st0)) 1.
Proof. split; [vm_compute; reflexivity|vm_compute; discriminate]. Qed.
