(* Reconciler/Progress.v — once the fault oracle only answers ok (e_foff = true), a round never queues a
   retry: the set of keys with retry items only shrinks (one half of the progress argument of C14
   bounded convergence; the other half — the counting of processed changes per round — is not proved). *)
From Coq Require Import List NArith Bool Lia ZifyN ZifyBool.
From SV Require Import Reconciler.Retries Reconciler.Model Reconciler.RetriesProofs Reconciler.CommitProofs
  Reconciler.RoundProofs Reconciler.CoverProofs Reconciler.StepProofs Reconciler.TableWf Reconciler.StreamProofs
  Reconciler.PhaseProofs Reconciler.BatchProofs Reconciler.RoundInv Reconciler.Runs.
Import ListNotations.
Open Scope N_scope.

Definition qsub (q' q : retries) : Prop :=
  forall it', In it' (q_items q') -> exists it, In it (q_items q) /\ ri_pk it = ri_pk it'.

Lemma qsub_refl : forall q, qsub q q.
Proof. intros q it H. exists it. split; [exact H|reflexivity]. Qed.
Lemma qsub_trans : forall a b c, qsub a b -> qsub b c -> qsub a c.
Proof. intros a b c H1 H2 it Hin. destruct (H1 it Hin) as [i1 [A B]]. destruct (H2 i1 A) as [i2 [C D]]. exists i2. split; [exact C|congruence]. Qed.
Lemma qsub_clear : forall q k, qsub (r_clear q k) q.
Proof. intros q k it H. apply in_clear_items in H. exists it. split; [exact H|reflexivity]. Qed.
Lemma qsub_pop : forall q, qsub (r_pop q) q.
Proof.
  intros q it H. rewrite pop_items in H. destruct (top_of (q_items q)) as [t|] eqn:Et; [|exists it; split; [exact H|reflexivity]].
  apply in_put_item in H. destruct H as [H|H]; [|exists it; split; [exact H|reflexivity]].
  subst it. destruct (top_of_spec _ _ Et) as [A _]. exists t. split; [exact A|reflexivity].
Qed.

Lemma run_hooks_foff : forall hs k n e, e_foff (run_hooks hs k n e) = e_foff e.
Proof.
  induction hs as [|[[k' n'] [wk k2]] r IH]; intros k n e; cbn [run_hooks]; [reflexivity|].
  rewrite IH. destruct ((k' =? k) && (n' =? n)); [|reflexivity]. destruct (do_write_frame e wk k2) as [_ [_ [_ [_ [F _]]]]]. exact F.
Qed.

(* with faults switched off every scripted operation succeeds *)
Lemma do_call_foff : forall e snap fresh op o rev e' ok, e_foff e = true ->
  do_call e snap fresh op o rev = (e', ok) -> ok = true /\ e_foff e' = true.
Proof.
  intros e snap fresh op o rev e' ok F H. unfold do_call in H.
  destruct fresh; injection H as H1 H2; subst e' ok; cbn [e_foff]; rewrite ?run_hooks_foff; cbn [e_foff];
    rewrite F; rewrite andb_false_r; split; reflexivity.
Qed.

Definition all_ok (res : list opres) : Prop := forall r, In r res -> r_ok r = true.

Lemma process_single_foff : forall e snap fresh q res o rev orig del e' q' res', e_foff e = true -> all_ok res ->
  process_single e snap fresh q res o rev orig del = (e', q', res') ->
  e_foff e' = true /\ all_ok res' /\ qsub q' q.
Proof.
  intros e snap fresh q res o rev orig del e' q' res' F A H. unfold process_single in H. destruct del.
  - destruct (do_call e snap fresh 1 o rev) as [e1 ok] eqn:Ec. destruct (do_call_foff _ _ _ _ _ _ _ _ F Ec) as [X Y]. subst ok.
    injection H as H1 H2 H3. subst e' q' res'. split; [exact Y|split; [exact A|apply qsub_clear]].
  - destruct (do_call e snap fresh 0 o rev) as [e1 ok] eqn:Ec. destruct (do_call_foff _ _ _ _ _ _ _ _ F Ec) as [X Y]. subst ok.
    injection H as H1 H2 H3. subst e' q' res'. split; [exact Y|split; [|apply qsub_clear]].
    intros r Hr. apply in_app_or in Hr. destruct Hr as [Hr|[Hr|[]]]; [apply A; exact Hr|subst r; reflexivity].
Qed.

Lemma single_foff : forall chs rs snap e q res nrec lastrev e' q' res' nrec' lastrev', e_foff e = true -> all_ok res ->
  single rs snap chs e q res nrec lastrev = (e', q', res', nrec', lastrev') ->
  e_foff e' = true /\ all_ok res' /\ qsub q' q.
Proof.
  induction chs as [|ch rest IH]; intros rs snap e q res nrec lastrev e' q' res' nrec' lastrev' F A H; cbn [single] in H.
  - injection H as H1 H2 H3 H4 H5. subst. split; [exact F|split; [exact A|apply qsub_refl]].
  - destruct (negb (c_del ch) && negb (is_pending (c_obj ch))); [apply (IH _ _ _ _ _ _ _ _ _ _ _ _ F A H)|].
    destruct (process_single e snap true (r_clear q (o_pk (c_obj ch))) res (c_obj ch) (c_rev ch) (c_rev ch) (c_del ch)) as [[e1 q1] res1] eqn:Ep.
    destruct (process_single_foff _ _ _ _ _ _ _ _ _ _ _ _ F A Ep) as [F1 [A1 S1]].
    assert (S1' : qsub q1 q) by (apply (qsub_trans _ _ _ S1); apply qsub_clear).
    destruct (rs <=? nrec + 1).
    + injection H as H1 H2 H3 H4 H5. subst. split; [exact F1|split; [exact A1|exact S1']].
    + destruct (IH _ _ _ _ _ _ _ _ _ _ _ _ F1 A1 H) as [F2 [A2 S2]]. split; [exact F2|split; [exact A2|apply (qsub_trans _ _ _ S2 S1')]].
Qed.

Lemma process_retries_foff : forall fuel rs snap e q res nrec e' q' res' nrec', e_foff e = true -> all_ok res ->
  process_retries fuel rs snap e q res nrec = (e', q', res', nrec') ->
  e_foff e' = true /\ all_ok res' /\ qsub q' q.
Proof.
  induction fuel as [|f IH]; intros rs snap e q res nrec e' q' res' nrec' F A H; cbn [process_retries] in H.
  - injection H as H1 H2 H3 H4. subst. split; [exact F|split; [exact A|apply qsub_refl]].
  - destruct (nrec <? rs); [|injection H as H1 H2 H3 H4; subst; split; [exact F|split; [exact A|apply qsub_refl]]].
    destruct (r_top q) as [it|]; [|injection H as H1 H2 H3 H4; subst; split; [exact F|split; [exact A|apply qsub_refl]]].
    destruct (e_now e <? ri_at it); [injection H as H1 H2 H3 H4; subst; split; [exact F|split; [exact A|apply qsub_refl]]|].
    destruct (process_single e snap false (r_pop q) res (ri_obj it) (ri_rev it) (ri_orig it) (ri_del it)) as [[e1 q1] res1] eqn:Ep.
    destruct (process_single_foff _ _ _ _ _ _ _ _ _ _ _ _ F A Ep) as [F1 [A1 S1]].
    destruct (IH _ _ _ _ _ _ _ _ _ _ F1 A1 H) as [F2 [A2 S2]]. split; [exact F2|split; [exact A2|]].
    apply (qsub_trans _ _ _ S2). apply (qsub_trans _ _ _ S1). apply qsub_pop.
Qed.

Lemma commit_status_all_ok : forall fixed efb now res t q t' q', all_ok res ->
  commit_status_gen fixed efb now t q res = (t', q') -> q' = q.
Proof.
  intros fixed efb now res. unfold commit_status_gen. induction res as [|r rest IH]; intros t q t' q' A H.
  - cbn in H. injection H as H1 H2. symmetry. exact H2.
  - cbn [fold_left] in H. destruct (commit_one fixed efb now (t, q) r) as [t1 q1] eqn:E1.
    assert (Q : q1 = q).
    { unfold commit_one in E1. destruct (t_fresh_id t) as [t0 id]. rewrite (A r (or_introl eq_refl)) in E1. cbn [negb andb] in E1.
      destruct (t_cas t0 (r_rev r) (with_status (r_obj r) Done id)) as [t'0 c].
      destruct c as [| |cur cr]; [| |destruct (fallback_ok efb cur r)]; injection E1 as X1 X2; symmetry; exact X2. }
    subst q1. apply (IH t1 q t' q'); [intros x Hx; apply A; right; exact Hx|exact H].
Qed.

Lemma batch_collect_sub : forall chs rs q dels upds nrec lastrev q' dels' upds' nrec' lastrev',
  batch_collect rs chs q dels upds nrec lastrev = (q', dels', upds', nrec', lastrev') -> qsub q' q.
Proof.
  induction chs as [|ch rest IH]; intros rs q dels upds nrec lastrev q' dels' upds' nrec' lastrev' H; cbn [batch_collect] in H.
  - injection H as H1 H2 H3 H4 H5. subst. apply qsub_refl.
  - destruct (negb (c_del ch) && negb (is_pending (c_obj ch))); [apply (IH _ _ _ _ _ _ _ _ _ _ _ H)|].
    destruct (rs <=? nrec + 1).
    + injection H as H1 H2 H3 H4 H5. subst q'. apply qsub_clear.
    + apply (qsub_trans _ (r_clear q (o_pk (c_obj ch)))); [apply (IH _ _ _ _ _ _ _ _ _ _ _ H)|apply qsub_clear].
Qed.

Lemma batch_deletes_foff : forall dl snap e q e' q', e_foff e = true -> batch_deletes snap dl e q = (e', q') ->
  e_foff e' = true /\ q' = q.
Proof.
  induction dl as [|d rest IH]; intros snap e q e' q' F H; cbn [batch_deletes] in H.
  - injection H as H1 H2. subst. split; [exact F|reflexivity].
  - destruct (do_call e snap true 3 (c_obj d) (c_rev d)) as [e1 ok] eqn:Ec.
    destruct (do_call_foff _ _ _ _ _ _ _ _ F Ec) as [X Y]. subst ok. apply (IH snap e1 q e' q' Y H).
Qed.

Lemma batch_update_calls_foff : forall upds snap e acc e' l, e_foff e = true -> (forall x, In x acc -> snd x = true) ->
  batch_update_calls snap upds e acc = (e', l) -> e_foff e' = true /\ forall x, In x l -> snd x = true.
Proof.
  induction upds as [|c rest IH]; intros snap e acc e' l F A H; cbn [batch_update_calls] in H.
  - injection H as H1 H2. subst. split; [exact F|exact A].
  - destruct (do_call e snap true 2 (c_obj c) (c_rev c)) as [e1 ok] eqn:Ec.
    destruct (do_call_foff _ _ _ _ _ _ _ _ F Ec) as [X Y]. subst ok.
    apply (IH snap e1 (acc ++ [(c, true)]) e' l Y); [|exact H].
    intros x Hx. apply in_app_or in Hx. destruct Hx as [Hx|[Hx|[]]]; [apply A; exact Hx|subst x; reflexivity].
Qed.

Lemma batch_results_ok : forall l q res0 q' res', all_ok res0 -> (forall x, In x l -> snd x = true) ->
  batch_results l q res0 = (q', res') -> all_ok res' /\ qsub q' q.
Proof.
  induction l as [|[c ok] rest IH]; intros q res0 q' res' A L H; cbn [batch_results] in H.
  - injection H as H1 H2. subst. split; [exact A|apply qsub_refl].
  - assert (Ok : ok = true) by (apply (L (c, ok)); left; reflexivity). subst ok.
    destruct (IH (r_clear q (o_pk (c_obj c))) (res0 ++ [mkRes (c_obj c) (c_rev c) (c_rev c) (o_sid (c_obj c)) true]) q' res') as [A2 S2].
    + intros r Hr. apply in_app_or in Hr. destruct Hr as [Hr|[Hr|[]]]; [apply A; exact Hr|subst r; reflexivity].
    + intros x Hx. apply L. right. exact Hx.
    + exact H.
    + split; [exact A2|apply (qsub_trans _ _ _ S2); apply qsub_clear].
Qed.

Lemma phase1_foff : forall cf snap chs e q e1 q1 res1 nrec1 lastrev1, e_foff e = true ->
  phase1 cf snap chs e q = (e1, q1, res1, nrec1, lastrev1) -> e_foff e1 = true /\ all_ok res1 /\ qsub q1 q.
Proof.
  intros cf snap chs e q e1 q1 res1 nrec1 lastrev1 F H. unfold phase1 in H. destruct (cf_batch cf).
  - destruct (batch_collect (cf_rs cf) chs q [] [] 0 0) as [[[[qa dels] upds] nrec] lastrev] eqn:HC.
    destruct (batch_deletes snap dels e qa) as [e2 q2] eqn:HD.
    destruct (batch_update_calls snap upds e2 []) as [e3 l] eqn:HU.
    destruct (batch_results l q2 []) as [q4 res] eqn:HR.
    injection H as H1 H2 H3 H4 H5. subst e1 q1 res1 nrec1 lastrev1.
    pose proof (batch_collect_sub _ _ _ _ _ _ _ _ _ _ _ _ HC) as S1.
    destruct (batch_deletes_foff _ _ _ _ _ _ F HD) as [F2 Q2]. subst q2.
    destruct (batch_update_calls_foff _ _ _ _ _ _ F2 (fun x (Hx : In x []) => match Hx with end) HU) as [F3 L3].
    destruct (batch_results_ok _ _ _ _ _ (fun r (Hr : In r []) => match Hr with end) L3 HR) as [A4 S4].
    split; [exact F3|split; [exact A4|apply (qsub_trans _ _ _ S4 S1)]].
  - apply (single_foff _ _ _ _ _ _ _ _ _ _ _ _ _ F (fun r (Hr : In r []) => match Hr with end) H).
Qed.

(* once faults have stopped, a round (either mode, any writes from hooks) never queues a retry: every key
   with a retry item after the round had one before *)
Theorem faults_off_no_new_retries : forall cf e s e' s', e_foff e = true -> round cf e s = (e', s') ->
  e_foff e' = true /\ qsub (k_ret s') (k_ret s).
Proof.
  intros cf e s e' s' F H. unfold round, round_gen in H. cbv zeta in H.
  change (if cf_batch cf
          then let '(q, dels, upds, nrec, lastrev) := batch_collect (cf_rs cf) (changes_of (e_tab e) (k_cursor s)) (k_ret s) [] [] 0 0 in
               let (e0, q0) := batch_deletes (e_tab e) dels e q in
               let (e1, l) := batch_update_calls (e_tab e) upds e0 [] in
               let (q1, res) := batch_results l q0 [] in (e1, q1, res, nrec, lastrev)
          else single (cf_rs cf) (e_tab e) (changes_of (e_tab e) (k_cursor s)) e (k_ret s) [] 0 0)
    with (phase1 cf (e_tab e) (changes_of (e_tab e) (k_cursor s)) e (k_ret s)) in H.
  destruct (phase1 cf (e_tab e) (changes_of (e_tab e) (k_cursor s)) e (k_ret s)) as [[[[e1 q1] res1] nrec1] lastrev1] eqn:E1.
  destruct (phase1_foff _ _ _ _ _ _ _ _ _ _ F E1) as [F1 [A1 S1]].
  destruct (commit_status_gen true true (e_now e1) (e_tab e1) q1 res1) as [t1 q2] eqn:C1.
  pose proof (commit_status_all_ok _ _ _ _ _ _ _ _ A1 C1) as Q2. subst q2.
  destruct (process_retries (N.to_nat (cf_rs cf)) (cf_rs cf) (e_tab e) (set_tab e1 t1) q1 [] nrec1) as [[[e3 q3] res2] nrec3] eqn:R1.
  assert (F1' : e_foff (set_tab e1 t1) = true) by exact F1.
  destruct (process_retries_foff _ _ _ _ _ _ _ _ _ _ _ F1' (fun r (Hr : In r []) => match Hr with end) R1) as [F3 [A3 S3]].
  destruct (commit_status_gen true true (e_now e3) (e_tab e3) q3 res2) as [t2 q4] eqn:C2.
  pose proof (commit_status_all_ok _ _ _ _ _ _ _ _ A3 C2) as Q4. subst q4.
  match type of H with (if ?b then _ else _) = _ => destruct b end; injection H as H1 H2; subst e' s'; cbn;
    (split; [exact F3|apply (qsub_trans _ _ _ S3 S1)]).
Qed.
