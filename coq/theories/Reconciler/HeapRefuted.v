(* Reconciler/HeapRefuted.v — bookkeeping bugs the heap-level model distinguishes: each variant below differs from
   Heap.v in one place and violates, in a state reachable by the real operations, a statement proved for
   the faithful model (HeapInv.v / HeapRefine.v). Witnesses by computation. *)
From Coq Require Import List NArith ZArith Bool.
From SV Require Import Reconciler.Retries Reconciler.Heap.
Import ListNotations.
Open Scope N_scope.

Definition ob (k : N) : obj := mkObj k 0 Pending 0 0.
Definition pks (hs : hstate) : list N := map hi_pk (hs_store hs).

(* ------------------------------------------------------------------ 1. Clear addresses queue with revIndex *)
(* retries.Clear with "item.revIndex" where the code has "item.index" for the retryAt queue. guarded = the
   key comparison of the guard is kept (as coded); unguarded = only the range checks. *)
Definition hq_clear_wrongidx (guarded : bool) (hs : hstate) (pk : N) : hstate :=
  match st_get pk (hs_store hs) with
  | None => hs
  | Some it =>
    let index := hi_revIndex it in   (* BUG: hi_index it *)
    let g := if guarded then clear_guard index (hs_q hs) pk
             else (0 <=? index)%Z && (index <? Z.of_nat (length (hs_q hs)))%Z in
    let hs1 :=
      if g then
        let '(st, q) := h_remove QT (hs_store hs, hs_q hs) (Z.to_nat index) in
        let hs' := mkHS st q (hs_r hs) (hs_timer hs) (hs_min hs) (hs_max hs) in
        if (index =? 0)%Z then hq_reset_timer hs' else hs'
      else hs in
    let ri := hi_revIndex (st_getd pk (hs_store hs1)) in
    let hs2 :=
      if clear_guard ri (hs_r hs1) pk then
        let '(st, r) := h_remove QR (hs_store hs1, hs_r hs1) (Z.to_nat ri) in
        mkHS st (hs_q hs1) r (hs_timer hs1) (hs_min hs1) (hs_max hs1)
      else hs1 in
    mkHS (st_del pk (hs_store hs2)) (hs_q hs2) (hs_r hs2) (hs_timer hs2) (hs_min hs2) (hs_max hs2)
  end.

(* three items; key 3 has the smallest origRev, so it is at revIndex 0 but at index 2 *)
Definition st3 : hstate :=
  hq_add (hq_add (hq_add (hq_new 10 40) (ob 1) 5 5 false 0) (ob 2) 6 6 false 0) (ob 3) 1 1 false 10.

(* with the key comparison the guard fails, the item stays in queue.items although it left the map: the next
   Top/Pop hands out an object that was cleared (contradicts hq_clear_spec: the key leaves both arrays) *)
Theorem clear_wrong_index_guarded_refuted :
  hs_q st3 = [1; 2; 3] /\ hs_r st3 = [3; 2; 1] /\
  In 3 (hs_q (hq_clear_wrongidx true st3 3)) /\ ~ In 3 (pks (hq_clear_wrongidx true st3 3)).
Proof.
  vm_compute. split; [reflexivity|]. split; [reflexivity|]. split; [right; right; left; reflexivity|].
  intros [H|[H|[]]]; discriminate.
Qed.

(* without it, another key's item is removed from queue: key 1 (the head) is never retried *)
Theorem clear_wrong_index_unguarded_refuted :
  hs_q (hq_clear_wrongidx false st3 3) = [2; 3] /\ In 1 (pks (hq_clear_wrongidx false st3 3)) /\
  hs_q (hq_clear st3 3) = [1; 2].
Proof. vm_compute. split; [reflexivity|]. split; [left; reflexivity|reflexivity]. Qed.

(* ------------------------------------------------------------------ 2. Swap forgets the second setIndex *)
Definition h_swap_bug (w : qsel) (h : hq) (i j : nat) : hq :=
  let '(st, arr) := h in
  let arr' := list_set i (nth j arr 0) (list_set j (nth i arr 0) arr) in
  let st1 := st_upd (nth i arr' 0) (set_idx w (Z.of_nat i)) st in
  (st1, arr').   (* BUG: hq.setIndex(hq.items[j], j) missing *)

Fixpoint h_up_bug (w : qsel) (fuel : nat) (h : hq) (j : nat) : hq :=
  match fuel with
  | O => h
  | S f =>
    let i := Nat.div (j - 1) 2 in
    if Nat.eqb i j || negb (h_less w h j i) then h
    else h_up_bug w f (h_swap_bug w h i j) i
  end.

Definition h_push_bug (w : qsel) (h : hq) (pk : N) : hq :=
  let h1 := h_push_last w h pk in
  h_up_bug w (S (length (snd h1))) h1 (length (snd h1) - 1).

(* queue = [1] (retryAt 40); pushing key 2 with retryAt 30 swaps it to the root; key 1 keeps index 0 *)
Definition sw_store : list hitem :=
  [mkH (ob 1) 1 1 false 0 (-1) 40 2; mkH (ob 2) 1 1 false (-1) (-1) 30 1].

Theorem swap_forgets_setindex_refuted :
  let '(st, q) := h_push_bug QT (sw_store, [1]) 2 in
  q = [2; 1] /\ hi_index (st_getd 1 st) = 0%Z /\ hi_index (st_getd 2 st) = 0%Z /\
  (* the faithful Push: *)
  (let '(st', q') := h_push QT (sw_store, [1]) 2 in q' = [2; 1] /\ hi_index (st_getd 1 st') = 1%Z).
Proof. vm_compute. repeat split. Qed.

(* ------------------------------------------------------------------ 3. Add does not Fix revQueue on a re-add *)
Definition hq_add_norevfix (hs : hstate) (o : obj) (rev orig : N) (del : bool) (now : N) : hstate :=
  let pk := o_pk o in
  let st0 := match st_get pk (hs_store hs) with
             | Some _ => hs_store hs
             | None => hs_store hs ++ [mkH o 0 0 false (-1)%Z (-1)%Z 0 0]
             end in
  let st1 := st_upd pk (fun it =>
               let n := hi_n it + 1 in
               mkH o rev orig del (hi_index it) (hi_revIndex it) (now + duration (hs_min hs) (hs_max hs) n) n) st0 in
  let ri := hi_revIndex (st_getd pk st1) in
  let '(st2, r2) := if (0 <=? ri)%Z then (st1, hs_r hs) (* BUG: rq.revQueue.Fix(item.revIndex) missing *)
                    else h_push QR (st1, hs_r hs) pk in
  let qi := hi_index (st_getd pk st2) in
  let '(st3, q3) := if (0 <=? qi)%Z then h_fix QT (st2, hs_q hs) (Z.to_nat qi) else h_push QT (st2, hs_q hs) pk in
  let hs' := mkHS st3 q3 r2 (hs_timer hs) (hs_min hs) (hs_max hs) in
  if (hi_index (st_getd pk st3) =? 0)%Z then hq_reset_timer hs' else hs'.

(* keys 1 and 2 fail at revisions 5 and 6; key 1 fails again for a newer change (origRev 9): the oldest
   failing change is now 6, but the stale root answers 9 - WaitUntilReconciled(6..8) would return early *)
Definition st2 : hstate := hq_add (hq_add (hq_new 10 40) (ob 1) 5 5 false 0) (ob 2) 6 6 false 0.

Theorem add_without_revqueue_fix_refuted :
  fst (fst (hq_low_watermark (hq_add_norevfix st2 (ob 1) 9 9 false 0))) = 9 /\
  fst (fst (hq_low_watermark (hq_add st2 (ob 1) 9 9 false 0))) = 6.
Proof. vm_compute. split; reflexivity. Qed.

(* ------------------------------------------------------------------ 4. the list model is not exact under ties *)
(* Retries.v re-arms the timer on Add only for a strictly earlier retryAt; the heap re-arms whenever the item
   ends up at position 0. Key 1 is the head (retryAt 20); key 2 is queued for 40; key 1 fails again and is
   queued for 40 as well: it stays at position 0, the real timer is re-armed for 40, the list model keeps 20.
   Between 20 and 40 the list model reports a fired wait channel, the implementation (and Heap.v) do not. *)
Definition tie_hs : hstate := hq_add (hq_add (hq_add (hq_new 10 40) (ob 1) 1 1 false 0) (ob 2) 2 2 false 0) (ob 2) 2 2 false 0.
Definition tie_q : retries := r_add (r_add (r_add (r_new 10 40) (ob 1) 1 1 false 0) (ob 2) 2 2 false 0) (ob 2) 2 2 false 0.

Theorem list_model_exact_under_ties_refuted :
  hs_timer tie_hs = q_timer tie_q /\
  hs_timer (hq_add tie_hs (ob 1) 3 1 false 0) = Some 40 /\ q_timer (r_add tie_q (ob 1) 3 1 false 0) = Some 20 /\
  hq_fired (hq_add tie_hs (ob 1) 3 1 false 0) 30 = false /\ r_fired (r_add tie_q (ob 1) 3 1 false 0) 30 = true.
Proof. vm_compute. repeat split. Qed.
