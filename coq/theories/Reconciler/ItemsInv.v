(* Reconciler/ItemsInv.v — every retry item of a REACHABLE state can still be processed: an item that was
   popped from the retryAt queue and not re-queued (ri_inq = false: its Update failed and the Error status
   could not be written because the object had changed or was deleted meanwhile) always has a deletion or a
   Pending/Refreshing object of its key ahead of the change cursor, so the change phase will Clear it.
   This is the hypothesis `items_ready` of Converge.converges_bounded (up to "queued items are due"), proved
   here as an invariant of `reach` — single and batch mode, any faults, any user writes from hooks. *)
From Coq Require Import List NArith Bool Lia ZifyN ZifyNat ZifyBool.
From SV Require Import Reconciler.Retries Reconciler.Model Reconciler.RetriesProofs Reconciler.CommitProofs
  Reconciler.RoundProofs Reconciler.CoverProofs Reconciler.StepProofs Reconciler.TableWf Reconciler.StreamProofs
  Reconciler.PhaseProofs Reconciler.BatchProofs Reconciler.RoundInv Reconciler.Runs Reconciler.Progress
  Reconciler.Converge.
Import ListNotations.
Open Scope N_scope.

(* ------------------------------------------------------------------ the invariant *)
(* key k has a deletion or a Pending/Refreshing object ahead of cursor c *)
Definition work_ahead (t : table) (c k : N) : Prop :=
  exists sl, slot_of t k = Some sl /\ c < slot_rev sl /\ slot_act sl = true.
(* key k is live with our Error status *)
Definition err_live (t : table) (k : N) : Prop :=
  exists o r, slot_of t k = Some (Live o r) /\ o_kind o = Error.

(* a retry item is accounted for:
   - its key has work ahead of the cursor (the change phase will Clear it), or
   - it is a queued delete retry, or
   - it is a queued update retry (rev <> origRev) and the object still carries our Error status, or
   - it was popped in this round, its RETRY result awaits the status commit, the object still carries Error
     (then fix 8844901 writes the result whatever the revision, and a failed one is re-queued) *)
Definition item_ok (t : table) (c : N) (res : list opres) (it : ritem) : Prop :=
  work_ahead t c (ri_pk it) \/
  (ri_inq it = true /\ ri_del it = true) \/
  (ri_inq it = true /\ ri_del it = false /\ ri_rev it <> ri_orig it /\ err_live t (ri_pk it)) \/
  (ri_inq it = false /\ err_live t (ri_pk it) /\
   exists r, In r res /\ o_pk (r_obj r) = ri_pk it /\ r_rev r <> r_orig r).

Definition items_ok (t : table) (c : N) (res : list opres) (l : list ritem) : Prop :=
  forall it, In it l -> item_ok t c res it.
Definition items_inv (t : table) (c : N) (res : list opres) (q : retries) : Prop := items_ok t c res (q_items q).

(* a successful result has cleared the item of its key *)
Definition okclear (res : list opres) (q : retries) : Prop :=
  forall r, In r res -> r_ok r = true -> forall it, In it (q_items q) -> ri_pk it <> o_pk (r_obj r).

Lemma item_ok_step : forall t t' c c' res res' it,
  (work_ahead t c (ri_pk it) -> work_ahead t' c' (ri_pk it)) ->
  (err_live t (ri_pk it) -> err_live t' (ri_pk it) \/ work_ahead t' c' (ri_pk it)) ->
  (forall r, In r res -> In r res') ->
  item_ok t c res it -> item_ok t' c' res' it.
Proof.
  intros t t' c c' res res' it HW HE HR [A|[A|[[A1 [A2 [A3 A4]]]|[A1 [A2 [r [R1 R2]]]]]]].
  - left. apply HW. exact A.
  - right. left. exact A.
  - destruct (HE A4) as [X|X]; [right; right; left; repeat split; assumption|left; exact X].
  - destruct (HE A2) as [X|X]; [|left; exact X]. right. right. right. split; [exact A1|]. split; [exact X|].
    exists r. split; [apply HR; exact R1|exact R2].
Qed.

Lemma items_ok_res_mono : forall t c res res' l, (forall r, In r res -> In r res') -> items_ok t c res l -> items_ok t c res' l.
Proof.
  intros t c res res' l H I it Hi. apply (item_ok_step t t c c res res'); [tauto|tauto|exact H|apply I; exact Hi].
Qed.

Lemma items_ok_sub : forall t c res l l', (forall it, In it l' -> In it l) -> items_ok t c res l -> items_ok t c res l'.
Proof. intros t c res l l' H I it Hi. apply I. apply H. exact Hi. Qed.

(* ------------------------------------------------------------------ user writes keep the invariant *)
Definition istate (t : table) (c : N) (res : list opres) (l : list ritem) : Prop :=
  keyed t /\ c <= t_rev t /\ items_ok t c res l.

Lemma work_ahead_ext : forall t t' c k, slot_of t' k = slot_of t k -> work_ahead t c k -> work_ahead t' c k.
Proof. intros t t' c k H [sl [A B]]. exists sl. rewrite H. split; assumption. Qed.
Lemma err_live_ext : forall t t' k, slot_of t' k = slot_of t k -> err_live t k -> err_live t' k.
Proof. intros t t' k H [o [r [A B]]]. exists o, r. rewrite H. split; assumption. Qed.

Lemma items_ok_ext : forall t t' c res l, (forall k, slot_of t' k = slot_of t k) -> items_ok t c res l -> items_ok t' c res l.
Proof.
  intros t t' c res l H I it Hi. apply (item_ok_step t t' c c res res); [apply work_ahead_ext; apply H| |tauto|apply I; exact Hi].
  intro X. left. apply (err_live_ext t); [apply H|exact X].
Qed.

Lemma fresh_id_istate : forall t c res l, istate t c res l -> istate (fst (t_fresh_id t)) c res l.
Proof.
  intros t c res l [A [B C]]. split; [apply (keyed_ext t); [reflexivity|exact A]|]. split; [exact B|].
  apply (items_ok_ext t); [reflexivity|exact C].
Qed.

(* a Pending/Refreshing object is written *)
Lemma insert_pending_istate : forall t c res l o, is_pending o = true -> istate t c res l -> istate (t_insert t o) c res l.
Proof.
  intros t c res l o Hp [A [B C]]. split; [apply keyed_insert; exact A|]. split; [cbn; lia|].
  intros it Hi. specialize (C it Hi). destruct (N.eq_dec (ri_pk it) (o_pk o)) as [E|E].
  - left. exists (Live o (t_rev t + 1)). rewrite E, slot_insert_same. split; [reflexivity|]. split; [cbn; lia|exact Hp].
  - apply (item_ok_step t (t_insert t o) c c res res); [| |tauto|exact C].
    + apply work_ahead_ext. apply slot_insert_other. exact E.
    + intro X. left. apply (err_live_ext t); [apply slot_insert_other; exact E|exact X].
Qed.

(* a status-only write by another writer: the object is re-inserted at a new revision with the other
   writer's data changed *)
Lemma restamp_istate : forall t c res l o r, slot_of t (o_pk o) = Some (Live o r) -> istate t c res l -> istate (t_insert t (bump_aux o)) c res l.
Proof.
  intros t c res l o r Hs [A [B C]]. split; [apply keyed_insert; exact A|]. split; [cbn; lia|].
  set (o' := bump_aux o). assert (Hpk' : o_pk o' = o_pk o) by reflexivity.
  intros it Hi. specialize (C it Hi). destruct (N.eq_dec (ri_pk it) (o_pk o')) as [E|E].
  - apply (item_ok_step t (t_insert t o') c c res res); [| |tauto|exact C]; rewrite E.
    + intros [sl [X1 [X2 X3]]]. rewrite Hpk', Hs in X1. injection X1 as X1. subst sl. cbn in X2, X3.
      exists (Live o' (t_rev t + 1)). rewrite slot_insert_same. split; [reflexivity|]. split; [cbn; lia|exact X3].
    + intros [o2 [r' [X1 X2]]]. rewrite Hpk', Hs in X1. injection X1 as X1 X3. subst o2 r'. left.
      exists o', (t_rev t + 1). rewrite slot_insert_same. split; [reflexivity|exact X2].
  - apply (item_ok_step t (t_insert t o') c c res res); [| |tauto|exact C].
    + apply work_ahead_ext. apply slot_insert_other. exact E.
    + intro X. left. apply (err_live_ext t); [apply slot_insert_other; exact E|exact X].
Qed.

Lemma delete_istate : forall t c res l k, istate t c res l -> istate (t_delete t k) c res l.
Proof.
  intros t c res l k [A [B C]]. split; [apply keyed_delete; exact A|]. split; [pose proof (t_rev_delete t k); lia|].
  intros it Hi. specialize (C it Hi). destruct (N.eq_dec (ri_pk it) k) as [E|E].
  - destruct (slot_of t k) as [[o r|o r]|] eqn:Es.
    + left. exists (Dead o (t_rev t + 1)). rewrite E, (slot_delete_same t k o r Es). split; [reflexivity|]. split; [cbn; lia|reflexivity].
    + assert (X : t_delete t k = t) by (unfold t_delete; unfold slot_of in Es; rewrite Es; reflexivity). rewrite X. exact C.
    + assert (X : t_delete t k = t) by (unfold t_delete; unfold slot_of in Es; rewrite Es; reflexivity). rewrite X. exact C.
  - apply (item_ok_step t (t_delete t k) c c res res); [| |tauto|exact C].
    + apply work_ahead_ext. apply slot_delete_other. exact E.
    + intro X. left. apply (err_live_ext t); [apply slot_delete_other; exact E|exact X].
Qed.

Lemma w_put_istate : forall e k c res l, istate (e_tab e) c res l -> istate (e_tab (w_put e k)) c res l.
Proof.
  intros e k c res l H. unfold w_put. cbn [bump_ver e_tab e_ver].
  destruct (t_fresh_id (e_tab e)) as [t id] eqn:Ef. cbn [add_urev set_tab e_tab].
  apply insert_pending_istate; [reflexivity|]. pose proof (fresh_id_istate _ c res l H) as P. rewrite Ef in P. exact P.
Qed.

Lemma w_del_istate : forall e k c res l, istate (e_tab e) c res l -> istate (e_tab (w_del e k)) c res l.
Proof.
  intros e k c res l H. unfold w_del. destruct (t_live (e_tab e) k); [|exact H].
  cbn [add_urev set_tab e_tab]. apply delete_istate. exact H.
Qed.

Lemma w_stat_istate : forall g e k c res l, istate (e_tab e) c res l -> istate (e_tab (w_stat g e k)) c res l.
Proof.
  intros g e k c res l H. unfold w_stat. destruct (t_live (e_tab e) k) as [[o r]|] eqn:El; [|exact H].
  match goal with |- istate (e_tab (if ?b then _ else _)) _ _ _ => destruct b end; [exact H|].
  cbn [add_urev set_tab e_tab]. pose proof H as [A _].
  assert (Hs : slot_of (e_tab e) k = Some (Live o r)) by (apply t_live_slot; exact El).
  assert (Hpk : o_pk o = k) by (apply (A k o r Hs)).
  apply (restamp_istate _ _ _ _ o r); [rewrite Hpk; exact Hs|exact H].
Qed.

Lemma w_ref_istate : forall e k c res l, istate (e_tab e) c res l -> istate (e_tab (w_ref e k)) c res l.
Proof.
  intros e k c res l H. unfold w_ref. destruct (t_live (e_tab e) k) as [[o r]|]; [|exact H].
  destruct (o_kind o) eqn:Ek; try exact H.
  destruct (t_fresh_id (e_tab e)) as [t id] eqn:Ef. cbn [add_urev set_tab e_tab].
  apply insert_pending_istate; [reflexivity|]. pose proof (fresh_id_istate _ c res l H) as P. rewrite Ef in P. exact P.
Qed.

Lemma w_pend_istate : forall e k c res l, istate (e_tab e) c res l -> istate (e_tab (w_pend e k)) c res l.
Proof.
  intros e k c res l H. unfold w_pend. destruct (t_live (e_tab e) k) as [[o r]|]; [|exact H].
  destruct (t_fresh_id (e_tab e)) as [t id] eqn:Ef. cbn [add_urev set_tab e_tab].
  apply insert_pending_istate; [reflexivity|]. pose proof (fresh_id_istate _ c res l H) as P. rewrite Ef in P. exact P.
Qed.

Lemma do_write_istate : forall e kind k c res l, istate (e_tab e) c res l -> istate (e_tab (do_write e kind k)) c res l.
Proof.
  intros e kind k c res l W. unfold do_write.
  destruct kind as [|[[p|[p|p|]|]|[p|[p|p|]|]|]];
    first [ apply w_put_istate; apply w_del_istate; exact W
          | apply w_put_istate; exact W | apply w_del_istate; exact W | apply w_stat_istate; exact W
          | apply w_ref_istate; exact W | apply w_pend_istate; exact W ].
Qed.

Lemma run_hooks_istate : forall hs k n e c res l,
  istate (e_tab e) c res l -> istate (e_tab (run_hooks hs k n e)) c res l.
Proof.
  intros hs k n. induction hs as [|[[k' n'] [wk k2]] r IH]; intros e c res l W; cbn [run_hooks]; [exact W|].
  apply IH. destruct ((k' =? k) && (n' =? n)); [|exact W]. apply do_write_istate. exact W.
Qed.

Lemma do_call_istate : forall e snap fresh op o rev c res l,
  istate (e_tab e) c res l -> istate (e_tab (fst (do_call e snap fresh op o rev))) c res l.
Proof.
  intros e snap fresh op o rev c res l W. unfold do_call. cbn [fst e_tab e_hooks].
  destruct fresh; cbn [e_hooks].
  - apply run_hooks_istate. apply run_hooks_istate. exact W.
  - apply run_hooks_istate. exact W.
Qed.

(* ------------------------------------------------------------------ the cursor moves over the head of the stream *)
Lemma advance_clear : forall D snap e q res cur ch rest resx l,
  phase_inv D snap e q res cur (ch :: rest) -> items_ok (e_tab e) cur resx l ->
  (forall it, In it l -> ri_pk it <> ch_pk ch) ->
  items_ok (e_tab e) (c_rev ch) resx l.
Proof.
  intros D snap e q res cur ch rest resx l INV I Hk it Hi.
  destruct (step_head_slot _ _ _ _ _ _ _ _ INV) as [sl0 [S0 [S1 [P0 [P1 [P2 P3]]]]]].
  apply (item_ok_step (e_tab e) (e_tab e) cur (c_rev ch) resx resx); [|tauto|tauto|apply I; exact Hi].
  intros [sl [A [B C]]]. exists sl. split; [exact A|]. split; [|exact C].
  destruct (N.lt_ge_cases (c_rev ch) (slot_rev sl)) as [L|L]; [exact L|exfalso].
  destruct (step_interval _ _ _ _ _ _ _ _ INV (ri_pk it) sl A B L) as [K _]. apply (Hk it Hi). exact K.
Qed.

Lemma advance_skip : forall D snap e q res cur ch rest resx l,
  phase_inv D snap e q res cur (ch :: rest) -> ch_act ch = false -> items_ok (e_tab e) cur resx l ->
  items_ok (e_tab e) (c_rev ch) resx l.
Proof.
  intros D snap e q res cur ch rest resx l INV Ha I it Hi.
  apply (item_ok_step (e_tab e) (e_tab e) cur (c_rev ch) resx resx); [|tauto|tauto|apply I; exact Hi].
  intros [sl [A [B C]]]. exists sl. split; [exact A|]. split; [|exact C].
  destruct (N.lt_ge_cases (c_rev ch) (slot_rev sl)) as [L|L]; [exact L|exfalso].
  destruct (step_interval _ _ _ _ _ _ _ _ INV (ri_pk it) sl A B L) as [_ SC].
  rewrite <- SC, ch_act_slot in Ha. congruence.
Qed.

(* ------------------------------------------------------------------ queue bookkeeping *)
Lemma in_put_item_uniq : forall it l j, NoDup (map ri_pk l) -> In j (put_item it l) ->
  j = it \/ (In j l /\ ri_pk j <> ri_pk it).
Proof.
  intros it l j. induction l as [|i r IH]; intros Hn H; cbn [put_item] in H.
  - destruct H as [H|[]]. left. symmetry. exact H.
  - cbn [map] in Hn. inversion Hn as [|x xs Hx Hr]; subst. destruct (ri_pk i =? ri_pk it) eqn:E.
    + apply N.eqb_eq in E. destruct H as [H|H]; [left; symmetry; exact H|right].
      split; [right; exact H|]. intro X. apply Hx. rewrite E, <- X. apply in_map. exact H.
    + apply N.eqb_neq in E. destruct H as [H|H]; [right; subst j; split; [left; reflexivity|exact E]|].
      destruct (IH Hr H) as [A|[A B]]; [left; exact A|right; split; [right; exact A|exact B]].
Qed.

Lemma in_add_items : forall q o rev orig del now j, uniq q -> In j (q_items (r_add q o rev orig del now)) ->
  (ri_obj j = o /\ ri_rev j = rev /\ ri_orig j = orig /\ ri_del j = del /\ ri_inq j = true) \/
  (In j (q_items q) /\ ri_pk j <> o_pk o).
Proof.
  intros q o rev orig del now j U H. rewrite add_items in H. apply (in_put_item_uniq _ _ _ U) in H.
  destruct H as [H|H]; [left; subst j; cbn; repeat split|right; exact H].
Qed.

Lemma in_pop_items : forall q it j, r_top q = Some it -> In j (q_items (r_pop q)) -> j = set_inq false it \/ In j (q_items q).
Proof.
  intros q it j Ht H. rewrite pop_items in H. unfold r_top in Ht. rewrite Ht in H. apply in_put_item in H. exact H.
Qed.

Lemma in_pop_items_uniq : forall q it j, uniq q -> r_top q = Some it -> In j (q_items (r_pop q)) ->
  j = set_inq false it \/ (In j (q_items q) /\ ri_pk j <> ri_pk it).
Proof.
  intros q it j U Ht H. rewrite pop_items in H. unfold r_top in Ht. rewrite Ht in H.
  apply (in_put_item_uniq _ _ _ U) in H. exact H.
Qed.

Lemma okclear_sub : forall res q q', (forall it, In it (q_items q') -> exists j, In j (q_items q) /\ ri_pk j = ri_pk it) ->
  okclear res q -> okclear res q'.
Proof.
  intros res q q' H O r Hr Hok it Hi. destruct (H it Hi) as [j [A B]]. rewrite <- B. apply (O r Hr Hok j A).
Qed.

Lemma okclear_clear : forall res q k, okclear res q -> okclear res (r_clear q k).
Proof. intros res q k O. apply (okclear_sub res q); [|exact O]. intros it Hi. apply in_clear_items in Hi. exists it. split; [exact Hi|reflexivity]. Qed.

(* ------------------------------------------------------------------ one status commit *)
Lemma commit_one_items : forall c now t q r rest t1 q1, keyed t -> uniq q -> c <= t_rev t ->
  ~ In (o_pk (r_obj r)) (res_pks rest) -> r_orig r <= t_rev t ->
  items_inv t c (r :: rest) q -> okclear (r :: rest) q ->
  commit_one true true now (t, q) r = (t1, q1) ->
  items_inv t1 c rest q1 /\ okclear rest q1.
Proof.
  intros c now t q r rest t1 q1 K U Hc Hnin Hpast I O H.
  destruct (commit_one_spec _ _ _ _ _ _ _ _ K H) as [Ho [Hcs Hq]].
  pose proof (queued_pk t r K) as Qk.
  set (pk := o_pk (r_obj r)) in *.
  assert (NotRest : forall r', In r' rest -> o_pk (r_obj r') <> pk).
  { intros r' Hin Heq. apply Hnin. rewrite <- Heq. unfold res_pks. apply (in_map (fun r => o_pk (r_obj r))). exact Hin. }
  (* an item of another key is untouched *)
  assert (Other : forall it, In it (q_items q) -> ri_pk it <> pk -> item_ok t1 c rest it).
  { intros it Hi Hne. specialize (I it Hi).
    destruct I as [A|[A|[[A1 [A2 [A3 A4]]]|[A1 [A2 [r' [[R1|R1] [R2 R3]]]]]]]].
    - left. apply (work_ahead_ext t); [apply Ho; exact Hne|exact A].
    - right. left. exact A.
    - right. right. left. repeat split; try assumption. apply (err_live_ext t); [apply Ho; exact Hne|exact A4].
    - subst r'. exfalso. apply Hne. unfold pk. symmetry. exact R2.
    - right. right. right. split; [exact A1|]. split; [apply (err_live_ext t); [apply Ho; exact Hne|exact A2]|].
      exists r'. repeat split; assumption. }
  destruct Hcs as [[A [B C]]|[[cur [A [B C]]]|[cur [rv0 [A [A2 [A3 [B C]]]]]]]].
  - (* nothing written *)
    assert (Hq1 : q1 = q).
    { rewrite Hq. unfold wrote. rewrite B. replace (t_rev t =? t_rev t + 1) with false by (symmetry; apply N.eqb_neq; lia).
      rewrite andb_false_r. reflexivity. }
    clear Hq. subst q1. split.
    + intros it Hi. destruct (N.eq_dec (ri_pk it) pk) as [E|E]; [|apply Other; first [assumption|rewrite <- Qk; assumption]].
      specialize (I it Hi).
      assert (SE : slot_of t1 (ri_pk it) = slot_of t (ri_pk it)) by (rewrite E; exact A).
      destruct I as [X|[X|[[X1 [X2 [X3 X4]]]|[X1 [X2 [r' [[R1|R1] [R2 R3]]]]]]]].
      * left. apply (work_ahead_ext t); assumption.
      * right. left. exact X.
      * right. right. left. repeat split; try assumption. apply (err_live_ext t); assumption.
      * subst r'. exfalso. destruct X2 as [o [rv [Y1 Y2]]]. rewrite E in Y1. apply t_live_slot in Y1.
        destruct (C o rv Y1) as [_ NF].
        assert (F : fallback_ok true o r = true) by (apply fallback_ok_spec; right; repeat split; assumption). congruence.
      * exfalso. apply (NotRest r' R1). rewrite R2. exact E.
    + intros r' Hr' Hok it Hi. apply (O r' (or_intror Hr') Hok it Hi).
  - (* written by CompareAndSwap *)
    assert (W : wrote t t1 = true) by (unfold wrote; rewrite C; apply N.eqb_refl).
    rewrite W, andb_true_r in Hq. destruct (r_ok r) eqn:Eok; cbn [negb] in Hq.
    + subst q1. split.
      * intros it Hi. apply Other; [exact Hi|]. apply (O r (or_introl eq_refl) Eok it Hi).
      * intros r' Hr' Hok it Hi. apply (O r' (or_intror Hr') Hok it Hi).
    + subst q1. split.
      * intros it Hi. apply (in_add_items _ _ _ _ _ _ _ U) in Hi. destruct Hi as [[I1 [I2 [I3 [I4 I5]]]]|[I1 I2]]; [|apply Other; first [assumption|rewrite <- Qk; assumption]].
        right. right. left. split; [exact I5|]. split; [exact I4|]. split; [rewrite I2, I3; lia|].
        unfold ri_pk. rewrite I1, Qk. exists (with_status (r_obj r) Error (t_nextid t)), (t_rev t + 1). split; [exact B|reflexivity].
      * intros r' Hr' Hok it Hi. apply (in_add_items _ _ _ _ _ _ _ U) in Hi. destruct Hi as [[I1 _]|[I1 I2]].
        -- unfold ri_pk. rewrite I1, Qk. intro X. apply (NotRest r' Hr'). symmetry. exact X.
        -- apply (O r' (or_intror Hr') Hok it I1).
  - (* written through the fallback *)
    assert (W : wrote t t1 = true) by (unfold wrote; rewrite C; apply N.eqb_refl).
    rewrite W, andb_true_r in Hq. destruct (r_ok r) eqn:Eok; cbn [negb] in Hq.
    + subst q1. split.
      * intros it Hi. apply Other; [exact Hi|]. apply (O r (or_introl eq_refl) Eok it Hi).
      * intros r' Hr' Hok it Hi. apply (O r' (or_intror Hr') Hok it Hi).
    + subst q1. split.
      * intros it Hi. apply (in_add_items _ _ _ _ _ _ _ U) in Hi. destruct Hi as [[I1 [I2 [I3 [I4 I5]]]]|[I1 I2]]; [|apply Other; first [assumption|rewrite <- Qk; assumption]].
        right. right. left. split; [exact I5|]. split; [exact I4|]. split; [rewrite I2, I3; lia|].
        unfold ri_pk. rewrite I1, Qk. exists (with_status cur Error (t_nextid t)), (t_rev t + 1). split; [exact B|reflexivity].
      * intros r' Hr' Hok it Hi. apply (in_add_items _ _ _ _ _ _ _ U) in Hi. destruct Hi as [[I1 _]|[I1 I2]].
        -- unfold ri_pk. rewrite I1, Qk. intro X. apply (NotRest r' Hr'). symmetry. exact X.
        -- apply (O r' (or_intror Hr') Hok it I1).
Qed.

Theorem commit_status_items : forall c now res t q t' q', keyed t -> uniq q -> c <= t_rev t ->
  NoDup (res_pks res) -> (forall r, In r res -> r_orig r <= t_rev t) ->
  items_inv t c res q -> okclear res q ->
  commit_status_gen true true now t q res = (t', q') -> items_inv t' c [] q'.
Proof.
  intros c now res. unfold commit_status_gen. induction res as [|r rest IH]; intros t q t' q' K U Hc Hnd Hpast I O H.
  - cbn in H. injection H as H1 H2. subst. exact I.
  - cbn [fold_left] in H. destruct (commit_one true true now (t, q) r) as [t1 q1] eqn:E1.
    cbn [res_pks map] in Hnd. inversion Hnd as [|x xs Hx Hr]; subst.
    destruct (commit_one_spec _ _ _ _ _ _ _ _ K E1) as [_ [Hcs Hq]].
    assert (Hmono : t_rev t <= t_rev t1).
    { destruct Hcs as [[_ [B _]]|[[cur [_ [_ C]]]|[cur [rv0 [_ [_ [_ [_ C]]]]]]]]; lia. }
    destruct (commit_one_items c now t q r rest t1 q1 K U Hc Hx (Hpast r (or_introl eq_refl)) I O E1) as [I1 O1].
    apply (IH t1 q1 t' q').
    + eapply commit_one_keyed; eassumption.
    + rewrite Hq. destruct (negb (r_ok r) && wrote t t1); [apply uniq_add|]; exact U.
    + lia.
    + exact Hr.
    + intros r2 Hin. specialize (Hpast r2 (or_intror Hin)). lia.
    + exact I1.
    + exact O1.
    + exact H.
Qed.

(* ------------------------------------------------------------------ the retry phase *)
Lemma retry_step_items : forall e snap q res c it e' q' res',
  retry_inv e q res c -> items_inv (e_tab e) c res q -> okclear res q -> r_top q = Some it ->
  process_single e snap false (r_pop q) res (ri_obj it) (ri_rev it) (ri_orig it) (ri_del it) = (e', q', res') ->
  items_inv (e_tab e') c res' q' /\ okclear res' q'.
Proof.
  intros e snap q res c it e' q' res' [I1 I2 I3 I4 I5 I6 I7 I8] I O Ht H.
  assert (Hin : In it (q_items q)) by (destruct (top_of_spec _ _ Ht) as [A _]; exact A).
  assert (Hq : ri_inq it = true) by (destruct (top_of_spec _ _ Ht) as [_ [A _]]; exact A).
  assert (Hf : find_item (ri_pk it) (q_items q) = Some it) by (apply find_item_uniq; assumption).
  assert (Hnew : ~ In (ri_pk it) (res_pks res)).
  { intro X. rewrite (I7 _ _ X Hf) in Hq. discriminate. }
  assert (IS : istate (e_tab e) c res (q_items q)) by (split; [apply twf_keyed; exact I1|split; [exact I2|exact I]]).
  assert (PopKeys : forall j, In j (q_items (r_pop q)) -> exists i, In i (q_items q) /\ ri_pk i = ri_pk j).
  { intros j Hj. destruct (in_pop_items _ _ _ Ht Hj) as [X|X]; [subst j; exists it; split; [exact Hin|reflexivity]|exists j; split; [exact X|reflexivity]]. }
  assert (PopOther : forall j, In j (q_items (r_pop q)) -> ri_pk j <> ri_pk it -> In j (q_items q)).
  { intros j Hj Hne. destruct (in_pop_items _ _ _ Ht Hj) as [X|X]; [subst j; exfalso; apply Hne; reflexivity|exact X]. }
  unfold process_single in H. destruct (ri_del it) eqn:Hd.
  - destruct (do_call e snap false 1 (ri_obj it) (ri_rev it)) as [e1 ok] eqn:Ec.
    pose proof (do_call_istate e snap false 1 (ri_obj it) (ri_rev it) c res (q_items q) IS) as IS1.
    rewrite Ec in IS1. cbn [fst] in IS1. destruct IS1 as [_ [_ C1]].
    destruct ok; injection H as H1 H2 H3; subst e' q' res'.
    + split.
      * intros j Hj. apply clear_in in Hj. destruct Hj as [Hj Hne]. apply C1. apply (PopOther j Hj Hne).
      * apply (okclear_sub res q); [|exact O]. intros j Hj. apply clear_in in Hj. destruct Hj as [Hj _]. apply PopKeys. exact Hj.
    + split.
      * intros j Hj. apply (in_add_items _ _ _ _ _ _ _ (uniq_pop _ I3)) in Hj.
        destruct Hj as [[J1 [J2 [J3 [J4 J5]]]]|[J1 J2]]; [right; left; split; assumption|].
        apply C1. apply (PopOther j J1 J2).
      * intros r' Hr' Hok j Hj. apply (in_add_items _ _ _ _ _ _ _ (uniq_pop _ I3)) in Hj.
        destruct Hj as [[J1 _]|[J1 J2]].
        -- unfold ri_pk at 1. rewrite J1. intro X. apply Hnew. unfold ri_pk. rewrite X. unfold res_pks.
           apply (in_map (fun r => o_pk (r_obj r))). exact Hr'.
        -- apply (O r' Hr' Hok). apply (PopOther j J1 J2).
  - destruct (do_call e snap false 0 (ri_obj it) (ri_rev it)) as [e1 ok] eqn:Ec.
    pose proof (do_call_istate e snap false 0 (ri_obj it) (ri_rev it) c res (q_items q) IS) as IS1.
    rewrite Ec in IS1. cbn [fst] in IS1. destruct IS1 as [_ [_ C1]].
    injection H as H1 H2 H3. subst e' q' res'.
    set (r := mkRes (ri_obj it) (ri_rev it) (ri_orig it) (o_sid (ri_obj it)) ok) in *.
    assert (C1' : items_ok (e_tab e1) c (res ++ [r]) (q_items q)).
    { apply (items_ok_res_mono _ _ res); [intros x Hx; apply in_or_app; left; exact Hx|exact C1]. }
    destruct ok.
    + split.
      * intros j Hj. apply clear_in in Hj. destruct Hj as [Hj Hne]. apply C1'. apply (PopOther j Hj Hne).
      * intros r' Hr' Hok j Hj. apply clear_in in Hj. destruct Hj as [Hj Hne].
        apply in_app_or in Hr'. destruct Hr' as [Hr'|[Hr'|[]]].
        -- apply (O r' Hr' Hok). apply (PopOther j Hj Hne).
        -- subst r'. exact Hne.
    + split.
      * intros j Hj. destruct (in_pop_items _ _ _ Ht Hj) as [X|X]; [|apply C1'; exact X]. subst j.
        destruct (C1 it Hin) as [A|[[_ A]|[[A1 [A2 [A3 A4]]]|[A1 _]]]].
        -- left. exact A.
        -- congruence.
        -- right. right. right. split; [reflexivity|]. split; [exact A4|].
           exists r. split; [apply in_or_app; right; left; reflexivity|]. split; [reflexivity|exact A3].
        -- congruence.
      * intros r' Hr' Hok j Hj. apply in_app_or in Hr'. destruct Hr' as [Hr'|[Hr'|[]]]; [|subst r'; discriminate].
        destruct (PopKeys j Hj) as [i [X1 X2]]. rewrite <- X2. apply (O r' Hr' Hok i X1).
Qed.

Theorem process_retries_items : forall fuel rs snap e q res nrec c e' q' res' nrec',
  retry_inv e q res c -> items_inv (e_tab e) c res q -> okclear res q ->
  process_retries fuel rs snap e q res nrec = (e', q', res', nrec') ->
  items_inv (e_tab e') c res' q' /\ okclear res' q'.
Proof.
  induction fuel as [|f IH]; intros rs snap e q res nrec c e' q' res' nrec' INV I O H; cbn [process_retries] in H.
  - injection H as H1 H2 H3 H4. subst. split; assumption.
  - destruct (nrec <? rs); [|injection H as H1 H2 H3 H4; subst; split; assumption].
    destruct (r_top q) as [it|] eqn:Et; [|injection H as H1 H2 H3 H4; subst; split; assumption].
    destruct (e_now e <? ri_at it); [injection H as H1 H2 H3 H4; subst; split; assumption|].
    destruct (process_single e snap false (r_pop q) res (ri_obj it) (ri_rev it) (ri_orig it) (ri_del it)) as [[e1 q1] res1] eqn:Ep.
    destruct (retry_step_items e snap q res c it e1 q1 res1 INV I O Et Ep) as [I1 O1].
    apply (IH rs snap e1 q1 res1 (nrec + 1) c e' q' res' nrec'); [|exact I1|exact O1|exact H].
    apply (retry_step e snap q res c it e1 q1 res1 INV Et Ep).
Qed.

(* ------------------------------------------------------------------ the change phase, single mode *)
Lemma single_step_items : forall snap e q res cur ch rest e1 q1 res1,
  phase_inv (Dlog e) snap e q res cur (ch :: rest) -> items_inv (e_tab e) cur [] q -> okclear res q ->
  process_single e snap true (r_clear q (ch_pk ch)) res (c_obj ch) (c_rev ch) (c_rev ch) (c_del ch) = (e1, q1, res1) ->
  items_inv (e_tab e1) (c_rev ch) [] q1 /\ okclear res1 q1.
Proof.
  intros snap e q res cur ch rest e1 q1 res1 INV I O H.
  destruct (step_head_slot _ _ _ _ _ _ _ _ INV) as [sl0 [S0 [S1 [P0 [P1 [P2 P3]]]]]].
  pose proof INV as [I1 I2 I3 I4 I5 I6 I7 I8 I9 I10 I11].
  set (k := ch_pk ch) in *. set (q0 := r_clear q k) in *.
  assert (Sub0 : forall it, In it (q_items q0) -> In it (q_items q) /\ ri_pk it <> k) by (intros it Hi; apply clear_in; exact Hi).
  assert (I0 : items_ok (e_tab e) (c_rev ch) [] (q_items q0)).
  { apply (advance_clear _ _ _ _ _ _ _ _ _ _ INV).
    - apply (items_ok_sub _ _ _ (q_items q)); [intros it Hi; apply (Sub0 it Hi)|exact I].
    - intros it Hi. apply (Sub0 it Hi). }
  assert (IS : istate (e_tab e) (c_rev ch) [] (q_items q0)).
  { split; [apply twf_keyed; exact I1|]. split; [destruct I3 as [R1 _]; lia|exact I0]. }
  assert (O0 : okclear res q0) by (apply okclear_clear; exact O).
  assert (Knew : forall r', In r' res -> o_pk (r_obj r') <> k).
  { intros r' Hr' X. apply (I9 ch (or_introl eq_refl)). fold k. rewrite <- X. unfold res_pks. apply (in_map (fun r => o_pk (r_obj r))). exact Hr'. }
  unfold process_single in H. destruct (c_del ch) eqn:Hd.
  - destruct (do_call e snap true 1 (c_obj ch) (c_rev ch)) as [e2 ok] eqn:Ec.
    pose proof (do_call_istate e snap true 1 (c_obj ch) (c_rev ch) (c_rev ch) [] (q_items q0) IS) as IS1.
    rewrite Ec in IS1. cbn [fst] in IS1. destruct IS1 as [_ [_ C1]].
    destruct ok; injection H as H1 H2 H3; subst e1 q1 res1.
    + split.
      * intros j Hj. apply clear_in in Hj. apply C1. apply Hj.
      * apply okclear_clear. exact O0.
    + split.
      * intros j Hj. apply (in_add_items _ _ _ _ _ _ _ (uniq_clear _ k I6)) in Hj.
        destruct Hj as [[J1 [J2 [J3 [J4 J5]]]]|[J1 J2]]; [right; left; split; assumption|apply C1; exact J1].
      * intros r' Hr' Hok j Hj. apply (in_add_items _ _ _ _ _ _ _ (uniq_clear _ k I6)) in Hj.
        destruct Hj as [[J1 _]|[J1 J2]].
        -- unfold ri_pk. rewrite J1. intro X. apply (Knew r' Hr'). symmetry. exact X.
        -- apply (O0 r' Hr' Hok j J1).
  - destruct (do_call e snap true 0 (c_obj ch) (c_rev ch)) as [e2 ok] eqn:Ec.
    pose proof (do_call_istate e snap true 0 (c_obj ch) (c_rev ch) (c_rev ch) [] (q_items q0) IS) as IS1.
    rewrite Ec in IS1. cbn [fst] in IS1. destruct IS1 as [_ [_ C1]].
    injection H as H1 H2 H3. subst e1 q1 res1. split.
    + intros j Hj. apply C1. destruct ok; [apply clear_in in Hj; apply Hj|exact Hj].
    + intros r' Hr' Hok j Hj.
      assert (Hj0 : In j (q_items q0)) by (destruct ok; [apply clear_in in Hj; apply Hj|exact Hj]).
      apply in_app_or in Hr'. destruct Hr' as [Hr'|[Hr'|[]]]; [apply (O0 r' Hr' Hok j Hj0)|].
      subst r'. cbn [r_obj]. apply (Sub0 j Hj0).
Qed.

Theorem single_items : forall chs rs snap c0 e q res nrec lastrev e' q' res' nrec' lastrev',
  phase_inv (Dlog e) snap e q res (curs c0 lastrev) chs ->
  items_inv (e_tab e) (curs c0 lastrev) [] q -> okclear res q ->
  single rs snap chs e q res nrec lastrev = (e', q', res', nrec', lastrev') ->
  items_inv (e_tab e') (curs c0 lastrev') [] q' /\ okclear res' q'.
Proof.
  induction chs as [|ch rest IH]; intros rs snap c0 e q res nrec lastrev e' q' res' nrec' lastrev' INV I O H; cbn [single] in H.
  - injection H as H1 H2 H3 H4 H5. subst. split; assumption.
  - destruct (step_head_slot _ _ _ _ _ _ _ _ INV) as [sl0 [S0 [S1 [P0 [P1 [P2 P3]]]]]].
    assert (CU : curs c0 (c_rev ch) = c_rev ch).
    { unfold curs. destruct (c_rev ch =? 0) eqn:E; [apply N.eqb_eq in E; lia|reflexivity]. }
    destruct (negb (c_del ch) && negb (is_pending (c_obj ch))) eqn:Esk.
    + pose proof Esk as Ea. rewrite skip_is_not_act in Ea. apply negb_true_iff in Ea.
      apply andb_prop in Esk. destruct Esk as [E1 E2]. apply negb_true_iff in E1. apply negb_true_iff in E2.
      apply (IH rs snap c0 e q res nrec (c_rev ch) e' q' res' nrec' lastrev'); [rewrite CU; apply (step_skip _ _ _ _ _ _ _ _ INV E1 E2)| |exact O|exact H].
      rewrite CU. apply (advance_skip _ _ _ _ _ _ _ _ _ _ INV Ea I).
    + destruct (process_single e snap true (r_clear q (o_pk (c_obj ch))) res (c_obj ch) (c_rev ch) (c_rev ch) (c_del ch))
        as [[e1 q1] res1] eqn:Ep.
      assert (INV1 : phase_inv (Dlog e1) snap e1 q1 res1 (c_rev ch) rest).
      { destruct (c_del ch) eqn:Ed.
        - apply (step_delete _ _ _ _ _ _ _ _ _ _ INV Ed Ep).
        - cbn [negb andb] in Esk. apply negb_false_iff in Esk. apply (step_update _ _ _ _ _ _ _ _ _ _ INV Ed Esk Ep). }
      destruct (single_step_items _ _ _ _ _ _ _ _ _ _ INV I O Ep) as [I1 O1].
      destruct (rs <=? nrec + 1).
      * injection H as H1 H2 H3 H4 H5. subst. rewrite CU. split; assumption.
      * apply (IH rs snap c0 e1 q1 res1 (nrec + 1) (c_rev ch) e' q' res' nrec' lastrev'); [rewrite CU; exact INV1|rewrite CU; exact I1|exact O1|exact H].
Qed.

(* ------------------------------------------------------------------ the change phase, batch mode *)
(* the same cursor lemmas from the stream facts alone (the table does not move while the batches are collected) *)
Lemma interval_head : forall snap t cur ch rest pk sl, twf snap -> snap_rel snap t -> stream_ok snap cur (ch :: rest) ->
  slot_of t pk = Some sl -> cur < slot_rev sl -> slot_rev sl <= c_rev ch -> pk = ch_pk ch /\ slot_change sl = ch.
Proof.
  intros snap t cur ch rest pk sl W [R1 [R2 R3]] S Hs Hlt Hle.
  pose proof S as [_ [_ [S3 _]]]. destruct (S3 ch (or_introl eq_refl)) as [sl0 [A B]].
  pose proof W as [_ [W2 _]]. destruct (W2 _ _ A) as [_ [_ P3]].
  assert (R : c_rev ch = slot_rev sl0) by (rewrite <- B, slot_change_rev; reflexivity).
  assert (Hsn : slot_of snap pk = Some sl) by (apply R2; [exact Hs|lia]).
  apply (stream_head_unique snap cur ch rest pk sl W S Hsn Hlt Hle).
Qed.

Lemma advance_clear_l : forall snap t cur ch rest resx l, twf snap -> snap_rel snap t -> stream_ok snap cur (ch :: rest) ->
  items_ok t cur resx l -> (forall it, In it l -> ri_pk it <> ch_pk ch) -> items_ok t (c_rev ch) resx l.
Proof.
  intros snap t cur ch rest resx l W SR S I Hk it Hi.
  apply (item_ok_step t t cur (c_rev ch) resx resx); [|tauto|tauto|apply I; exact Hi].
  intros [sl [A [B C]]]. exists sl. split; [exact A|]. split; [|exact C].
  destruct (N.lt_ge_cases (c_rev ch) (slot_rev sl)) as [L|L]; [exact L|exfalso].
  destruct (interval_head _ _ _ _ _ _ _ W SR S A B L) as [K _]. apply (Hk it Hi). exact K.
Qed.

Lemma advance_skip_l : forall snap t cur ch rest resx l, twf snap -> snap_rel snap t -> stream_ok snap cur (ch :: rest) ->
  ch_act ch = false -> items_ok t cur resx l -> items_ok t (c_rev ch) resx l.
Proof.
  intros snap t cur ch rest resx l W SR S Ha I it Hi.
  apply (item_ok_step t t cur (c_rev ch) resx resx); [|tauto|tauto|apply I; exact Hi].
  intros [sl [A [B C]]]. exists sl. split; [exact A|]. split; [|exact C].
  destruct (N.lt_ge_cases (c_rev ch) (slot_rev sl)) as [L|L]; [exact L|exfalso].
  destruct (interval_head _ _ _ _ _ _ _ W SR S A B L) as [_ SC].
  rewrite <- SC, ch_act_slot in Ha. congruence.
Qed.

Theorem batch_collect_items : forall chs rs snap t c0 q dels upds nrec lastrev q' dels' upds' nrec' lastrev',
  twf snap -> snap_rel snap t -> stream_ok snap (curs c0 lastrev) chs -> items_inv t (curs c0 lastrev) [] q ->
  batch_collect rs chs q dels upds nrec lastrev = (q', dels', upds', nrec', lastrev') ->
  items_inv t (curs c0 lastrev') [] q'.
Proof.
  induction chs as [|ch rest IH]; intros rs snap t c0 q dels upds nrec lastrev q' dels' upds' nrec' lastrev' W SR S I H; cbn [batch_collect] in H.
  - injection H as H1 H2 H3 H4 H5. subst. exact I.
  - assert (CU : curs c0 (c_rev ch) = c_rev ch).
    { destruct S as [_ [_ [_ [_ S5]]]]. specialize (S5 ch (or_introl eq_refl)).
      unfold curs. destruct (c_rev ch =? 0) eqn:E; [apply N.eqb_eq in E; lia|reflexivity]. }
    pose proof (stream_tail snap _ ch rest W S) as ST.
    rewrite skip_is_not_act in H. destruct (ch_act ch) eqn:Ea; cbn [negb] in H.
    + assert (I0 : items_inv t (c_rev ch) [] (r_clear q (o_pk (c_obj ch)))).
      { apply (advance_clear_l snap t (curs c0 lastrev) ch rest); try assumption.
        - apply (items_ok_sub _ _ _ (q_items q)); [intros it Hi; apply clear_in in Hi; apply Hi|exact I].
        - intros it Hi. apply clear_in in Hi. apply Hi. }
      destruct (rs <=? nrec + 1).
      * injection H as H1 H2 H3 H4 H5. subst q' dels' upds' nrec' lastrev'. rewrite CU. exact I0.
      * apply (IH rs snap t c0 (r_clear q (o_pk (c_obj ch))) (if c_del ch then dels ++ [ch] else dels)
                  (if c_del ch then upds else upds ++ [ch]) (nrec + 1) (c_rev ch) q' dels' upds' nrec' lastrev' W SR); [rewrite CU; exact ST|rewrite CU; exact I0|exact H].
    + apply (IH rs snap t c0 q dels upds nrec (c_rev ch) q' dels' upds' nrec' lastrev' W SR); [rewrite CU; exact ST| |exact H].
      rewrite CU. apply (advance_skip_l snap t (curs c0 lastrev) ch rest); assumption.
Qed.

Lemma in_add_items_weak : forall q o rev orig del now j, In j (q_items (r_add q o rev orig del now)) ->
  (ri_obj j = o /\ ri_rev j = rev /\ ri_orig j = orig /\ ri_del j = del /\ ri_inq j = true) \/ In j (q_items q).
Proof.
  intros q o rev orig del now j H. rewrite add_items in H. apply in_put_item in H.
  destruct H as [H|H]; [left; subst j; cbn; repeat split|right; exact H].
Qed.

Lemma batch_deletes_items : forall dl snap e q c e' q', istate (e_tab e) c [] (q_items q) ->
  batch_deletes snap dl e q = (e', q') -> istate (e_tab e') c [] (q_items q').
Proof.
  induction dl as [|d rest IH]; intros snap e q c e' q' IS H; cbn [batch_deletes] in H.
  - injection H as H1 H2. subst. exact IS.
  - destruct (do_call e snap true 3 (c_obj d) (c_rev d)) as [e1 ok] eqn:Ec.
    pose proof (do_call_istate e snap true 3 (c_obj d) (c_rev d) c [] (q_items q) IS) as IS1.
    rewrite Ec in IS1. cbn [fst] in IS1.
    apply (IH snap e1 (if ok then q else r_add q (c_obj d) (c_rev d) (c_rev d) true (e_now e1)) c e' q'); [|exact H].
    destruct ok; [exact IS1|]. destruct IS1 as [A [B C]]. split; [exact A|]. split; [exact B|].
    intros j Hj. apply in_add_items_weak in Hj. destruct Hj as [[J1 [J2 [J3 [J4 J5]]]]|J1]; [right; left; split; assumption|apply C; exact J1].
Qed.

Lemma batch_update_calls_items : forall upds snap e acc c l0 e' l, istate (e_tab e) c [] l0 ->
  batch_update_calls snap upds e acc = (e', l) -> istate (e_tab e') c [] l0.
Proof.
  induction upds as [|u rest IH]; intros snap e acc c l0 e' l IS H; cbn [batch_update_calls] in H.
  - injection H as H1 H2. subst. exact IS.
  - destruct (do_call e snap true 2 (c_obj u) (c_rev u)) as [e1 ok] eqn:Ec.
    pose proof (do_call_istate e snap true 2 (c_obj u) (c_rev u) c [] l0 IS) as IS1.
    rewrite Ec in IS1. cbn [fst] in IS1. apply (IH snap e1 _ c l0 e' l IS1 H).
Qed.

Lemma batch_results_items : forall l q res0 q' res', okclear res0 q -> batch_results l q res0 = (q', res') ->
  (forall it, In it (q_items q') -> In it (q_items q)) /\ okclear res' q'.
Proof.
  induction l as [|[c ok] rest IH]; intros q res0 q' res' O H; cbn [batch_results] in H.
  - injection H as H1 H2. subst. split; [intros it Hi; exact Hi|exact O].
  - set (q1 := if ok then r_clear q (o_pk (c_obj c)) else q) in *.
    assert (Sub1 : forall it, In it (q_items q1) -> In it (q_items q)).
    { intros it Hi. unfold q1 in Hi. destruct ok; [apply clear_in in Hi; apply Hi|exact Hi]. }
    destruct (IH q1 (res0 ++ [mkRes (c_obj c) (c_rev c) (c_rev c) (o_sid (c_obj c)) ok]) q' res') as [S2 O2].
    + intros r Hr Hok it Hi. apply in_app_or in Hr. destruct Hr as [Hr|[Hr|[]]].
      * apply (O r Hr Hok it (Sub1 it Hi)).
      * subst r. cbn [r_ok r_obj] in *. subst ok. unfold q1 in Hi. apply clear_in in Hi. apply Hi.
    + exact H.
    + split; [intros it Hi; apply Sub1; apply S2; exact Hi|exact O2].
Qed.

(* the change phase of a round, either mode *)
Theorem phase1_items : forall cf snap c0 chs e q e1 q1 res1 nrec1 lastrev1,
  phase_inv (Dlog e) snap e q [] (curs c0 0) chs -> items_inv (e_tab e) (curs c0 0) [] q ->
  curs c0 lastrev1 <= t_rev snap ->
  phase1 cf snap chs e q = (e1, q1, res1, nrec1, lastrev1) ->
  items_inv (e_tab e1) (curs c0 lastrev1) [] q1 /\ okclear res1 q1.
Proof.
  intros cf snap c0 chs e q e1 q1 res1 nrec1 lastrev1 PH I Hcur H. unfold phase1 in H. destruct (cf_batch cf).
  - destruct (batch_collect (cf_rs cf) chs q [] [] 0 0) as [[[[qa dels] upds] nrec] lastrev] eqn:HC.
    destruct (batch_deletes snap dels e qa) as [e2 q2] eqn:HD.
    destruct (batch_update_calls snap upds e2 []) as [e3 l] eqn:HU.
    destruct (batch_results l q2 []) as [q4 res] eqn:HR.
    injection H as H1 H2 H3 H4 H5. subst e1 q1 res1 nrec1 lastrev1.
    pose proof PH as [I1 I2 I3 I4 I5 I6 I7 I8 I9 I10 I11].
    pose proof (batch_collect_items _ _ _ _ _ _ _ _ _ _ _ _ _ _ _ I2 I3 I4 I HC) as Ia.
    assert (IS : istate (e_tab e) (curs c0 lastrev) [] (q_items qa)).
    { split; [apply twf_keyed; exact I1|]. split; [destruct I3 as [R1 _]; lia|exact Ia]. }
    pose proof (batch_deletes_items _ _ _ _ _ _ _ IS HD) as IS2.
    pose proof (batch_update_calls_items _ _ _ _ _ _ _ _ IS2 HU) as [_ [_ C3]].
    destruct (batch_results_items l q2 [] q4 res (fun r (Hr : In r []) => match Hr with end) HR) as [S4 O4].
    split; [apply (items_ok_sub _ _ _ (q_items q2)); [exact S4|exact C3]|exact O4].
  - apply (single_items _ _ _ c0 _ _ _ _ _ _ _ _ _ _ PH I (fun r (Hr : In r []) => match Hr with end) H).
Qed.

(* ------------------------------------------------------------------ the whole round *)
Theorem round_keeps_items : forall cf e s e' s', round_inv e s ->
  items_inv (e_tab e) (k_cursor s) [] (k_ret s) -> round cf e s = (e', s') ->
  items_inv (e_tab e') (k_cursor s') [] (k_ret s').
Proof.
  intros cf e s e' s' [[W [U P]] [Hc Hcov]] II H.
  destruct (round_decompose _ _ _ _ _ H) as [e1 [q1 [res1 [nrec1 [lastrev1 [t1 [q2 [e3 [q3 [res2 [nrec3 [t2 [q4
    [E1 [C1 [R1 [C2 [Tt [_ [_ [_ [_ [Tc Tq]]]]]]]]]]]]]]]]]]]]]]].
  set (snap := e_tab e) in *.
  assert (INV0 : phase_inv (Dlog e) snap e (k_ret s) [] (curs (k_cursor s) 0) (changes_of snap (k_cursor s))).
  { constructor; first [assumption | exact Hc | apply snap_rel_refl | apply changes_stream_ok; exact W
                        | intros ch _ [] | intros r [] | constructor ]. }
  destruct (phase1_inv _ _ _ _ _ _ _ _ _ _ _ INV0 E1) as [[chs' [J1 J2 J3 J4 J5 J6 J7 J8 J9 J10 J11]] LR].
  set (cur1 := curs (k_cursor s) lastrev1) in *.
  assert (SR : t_rev snap <= t_rev (e_tab e1)) by (destruct J3 as [X _]; exact X).
  destruct (phase1_items cf snap (k_cursor s) _ e (k_ret s) e1 q1 res1 nrec1 lastrev1 INV0 II J5 E1) as [I1 O1].
  assert (Hres1 : forall r, In r res1 -> r_orig r <= t_rev (e_tab e1) /\ r_rev r <= t_rev (e_tab e1)).
  { intros r Hr. destruct (J10 r Hr). split; lia. }
  assert (I2 : items_inv t1 cur1 [] q2).
  { apply (commit_status_items cur1 (e_now e1) res1 (e_tab e1) q1 t1 q2 (twf_keyed _ J1) J6); try assumption.
    - fold cur1 in J5. lia.
    - intros r Hr. apply Hres1. exact Hr.
    - apply (items_ok_res_mono _ _ []); [intros r []|exact I1]. }
  destruct (commit_status_side _ _ _ _ _ _ _ _ (conj J1 (conj J6 J7)) Hres1 C1) as [[W1 [U1 P1]] M1].
  assert (Cov1 : forall pk, covered (Dlog e1) t1 cur1 [] q2 pk).
  { apply (commit_status_covers (Dlog e1) cur1 (e_now e1) res1 (e_tab e1) q1 t1 q2 (twf_keyed _ J1) J6 J8).
    - intros r Hr. apply Hres1. exact Hr.
    - exact J11.
    - exact C1. }
  assert (RI0 : retry_inv (set_tab e1 t1) q2 [] cur1).
  { constructor; first [assumption | cbn; fold cur1 in J5; lia | intros r [] | intros p it [] | intro pk; apply Cov1 | constructor]. }
  destruct (process_retries_items _ _ _ _ _ _ _ _ _ _ _ _ RI0 I2 (fun r (Hr : In r []) => match Hr with end) R1) as [I3 O3].
  pose proof (process_retries_inv _ _ _ _ _ _ _ _ _ _ _ _ RI0 R1) as [K1 K2 K3 K4 K5 K6 K7 K8].
  assert (I4 : items_inv t2 cur1 [] q4).
  { apply (commit_status_items cur1 (e_now e3) res2 (e_tab e3) q3 t2 q4 (twf_keyed _ K1) K3 K2 K5); try assumption.
    intros r Hr. apply K6. exact Hr. }
  rewrite Tt, Tc, Tq. exact I4.
Qed.

(* ------------------------------------------------------------------ runs *)
Lemma estep_keeps_items : forall st st', estep st st' -> full_inv (fst st) (snd st) ->
  items_inv (e_tab (fst st)) (k_cursor (snd st)) [] (k_ret (snd st)) ->
  items_inv (e_tab (fst st')) (k_cursor (snd st')) [] (k_ret (snd st')).
Proof.
  intros st st' H. destruct H; cbn [fst snd]; intros [[[W _] [Hc _]] _] I; try exact I.
  (* only the user write remains (initializer completion changes the pendinit flag only) *)
  assert (IS : istate (e_tab e) (k_cursor s) [] (q_items (k_ret s))) by (split; [apply twf_keyed; exact W|split; [exact Hc|exact I]]).
  destruct (do_write_istate e kind k _ _ _ IS) as [_ [_ X]]. exact X.
Qed.

(* in every reachable state every retry item is accounted for *)
Theorem reach_items_inv : forall cf st, reach cf st ->
  items_inv (e_tab (fst st)) (k_cursor (snd st)) [] (k_ret (snd st)).
Proof.
  intros cf st H. induction H.
  - intros it [].
  - apply (estep_keeps_items st st' H0); [apply (nothing_forgotten cf st H)|exact IHreach].
  - destruct (round cf e s) as [e' s'] eqn:E. cbn [fst snd] in *.
    destruct (nothing_forgotten cf (e, s) H) as [RI _].
    apply (round_keeps_items cf e s e' s' RI IHreach E).
Qed.

(* hence: in a reachable state, if every QUEUED item is due, every item is ready *)
Theorem reach_items_ready : forall cf e s, reach cf (e, s) ->
  (forall it, In it (q_items (k_ret s)) -> ri_inq it = true -> ri_at it <= e_now e) -> items_ready e s.
Proof.
  intros cf e s H Due it Hi. pose proof (reach_items_inv cf (e, s) H it Hi) as X. cbn [fst snd] in X.
  destruct X as [A|[[A _]|[[A _]|[_ [_ [r [[] _]]]]]]].
  - right. exact A.
  - left. split; [exact A|apply Due; assumption].
  - left. split; [exact A|apply Due; assumption].
Qed.

(* ------------------------------------------------------------------ bounded convergence of reachable states *)
(* From ANY reachable state of the reconciler — whatever history of inserts, updates, deletes, failing
   operations, user writes from inside operations and timings led there — : if operations have stopped
   failing (e_foff), no user write is pending in a hook (hooks_inert) and every queued retry item is due,
   then after n <= ceil((#pending changes + #retry items) / roundSize) + 1 rounds the reconciler is
   quiescent and everything is reconciled, and it stays so under all further rounds, with the same table. *)
Theorem converges_from_reach : forall cf e s, reach cf (e, s) -> 0 < cf_rs cf -> calm e ->
  (forall it, In it (q_items (k_ret s)) -> ri_inq it = true -> ri_at it <= e_now e) ->
  exists n, (n <= bound cf e s)%nat /\
    forall m, (n <= m)%nat ->
      quiescent (fst (iter_round cf m (e, s))) (snd (iter_round cf m (e, s))) /\
      reconciled (fst (iter_round cf m (e, s))) /\
      e_tab (fst (iter_round cf m (e, s))) = e_tab (fst (iter_round cf n (e, s))).
Proof.
  intros cf e s H RS C Due.
  apply (converges_and_stays cf e s (reach_full_inv cf e s H) RS C (reach_items_ready cf e s H Due)).
Qed.

(* the same, operationally: take any reachable state, switch the fault oracle off, let the clock pass the
   largest retryAt, and let no further user write happen *)
Definition max_at (q : retries) : N := fold_right (fun it m => N.max (ri_at it) m) 0 (q_items q).

Lemma max_at_ge : forall q it, In it (q_items q) -> ri_at it <= max_at q.
Proof.
  intros q it. unfold max_at. induction (q_items q) as [|i r IH]; intro H; [destruct H|].
  cbn [fold_right]. destruct H as [H|H]; [subst i; lia|specialize (IH H); lia].
Qed.

Theorem converges_after_faults_stop : forall cf e s T, reach cf (e, s) -> 0 < cf_rs cf -> hooks_inert e ->
  max_at (k_ret s) <= T ->
  let e1 := faults_off (set_now e T) in
  reach cf (e1, s) /\
  exists n, (n <= bound cf e1 s)%nat /\
    forall m, (n <= m)%nat ->
      quiescent (fst (iter_round cf m (e1, s))) (snd (iter_round cf m (e1, s))) /\
      reconciled (fst (iter_round cf m (e1, s))).
Proof.
  intros cf e s T H RS HI MT e1.
  assert (H1 : reach cf (e1, s)).
  { unfold e1. eapply reach_env; [|apply es_foff]. eapply reach_env; [|apply es_time]. exact H. }
  split; [exact H1|].
  destruct (converges_from_reach cf e1 s H1 RS) as [n [Hn S]].
  - split; [reflexivity|]. intros k n w Hin. apply (HI k n w Hin).
  - intros it Hi _. cbn [e1 faults_off set_now e_now]. pose proof (max_at_ge _ it Hi). lia.
  - exists n. split; [exact Hn|]. intros m Hm. destruct (S m Hm) as [A [B _]]. split; assumption.
Qed.

Print Assumptions reach_items_inv.
Print Assumptions converges_from_reach.
Print Assumptions converges_after_faults_stop.
