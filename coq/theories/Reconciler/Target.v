(* Reconciler/Target.v — TARGET = TABLE (C14, part 2).
   e_target is the simulated target of the harness: a successful Update / UpdateBatch entry of (pk, version)
   sets target[pk] := version, a successful Delete / DeleteBatch entry removes pk (Model.do_call); it is the
   "last successful operation per key" of the call log (target_is_replay).
   Invariant of every reachable state (`tinv`): a key that has no work left — no deletion or Pending/Refreshing
   object of it ahead of the change cursor, no retry item, no result awaiting its status commit — has
   target[pk] = the payload version of its live object, and no target entry if it is deleted.
   In a quiescent state no key has work left: target = table (target_equals_table). *)
From Coq Require Import List NArith Bool Lia ZifyN ZifyNat ZifyBool.
From SV Require Import Reconciler.Retries Reconciler.Model Reconciler.RetriesProofs Reconciler.CommitProofs
  Reconciler.RoundProofs Reconciler.CoverProofs Reconciler.StepProofs Reconciler.TableWf Reconciler.StreamProofs
  Reconciler.PhaseProofs Reconciler.BatchProofs Reconciler.RoundInv Reconciler.Runs Reconciler.Progress
  Reconciler.StatusOnly Reconciler.Converge Reconciler.ItemsInv.
Import ListNotations.
Open Scope N_scope.

(* ------------------------------------------------------------------ how user writes move the slot of a key *)
(* work ahead of cursor c, on the slot of a key *)
Definition wa (c : N) (s : option slot) : Prop := exists sl, s = Some sl /\ c < slot_rev sl /\ slot_act sl = true.

Lemma work_ahead_wa : forall t c k, work_ahead t c k <-> wa c (slot_of t k).
Proof. intros. reflexivity. Qed.

(* the slot of a key under any number of user writes made while the table revision was >= c0:
   unchanged | a deletion or a Pending/Refreshing object at a revision above c0 | the live object
   re-stamped at a revision above c0 with only the other writers' data changed (status write of another
   reconciler) *)
Definition same_ours (o o' : obj) : Prop :=
  o_pk o' = o_pk o /\ o_ver o' = o_ver o /\ o_kind o' = o_kind o /\ o_sid o' = o_sid o.
Lemma same_ours_refl : forall o, same_ours o o.
Proof. intro o. repeat split. Qed.
Lemma same_ours_trans : forall a b c, same_ours a b -> same_ours b c -> same_ours a c.
Proof. intros a b c [A1 [A2 [A3 A4]]] [B1 [B2 [B3 B4]]]. repeat split; congruence. Qed.
Lemma same_ours_pending : forall o o', same_ours o o' -> is_pending o' = is_pending o.
Proof. intros o o' [_ [_ [A _]]]. unfold is_pending. rewrite A. reflexivity. Qed.

Inductive kstep (c0 : N) : option slot -> option slot -> Prop :=
| ks_same : forall s, kstep c0 s s
| ks_new : forall s sl, c0 < slot_rev sl -> slot_act sl = true -> kstep c0 s (Some sl)
| ks_re : forall o o' r r', c0 < r' -> same_ours o o' -> kstep c0 (Some (Live o r)) (Some (Live o' r')).

Lemma kstep_trans : forall c0 a b c, kstep c0 a b -> kstep c0 b c -> kstep c0 a c.
Proof.
  intros c0 a b c H1 H2. destruct H2 as [s|s sl A B|o o' r r' A SO].
  - exact H1.
  - apply ks_new; assumption.
  - inversion H1 as [s E1 E2|s sl A1 B1 E1 E2|o0 o1 r0 r1 A1 SO1 E1 E2]; subst.
    + apply ks_re; assumption.
    + apply ks_new; [cbn; exact A|]. cbn in *. rewrite (same_ours_pending _ _ SO). exact B1.
    + apply ks_re; [exact A|apply (same_ours_trans _ _ _ SO1 SO)].
Qed.

Lemma kstep_mono : forall c0 c1 a b, c0 <= c1 -> kstep c1 a b -> kstep c0 a b.
Proof.
  intros c0 c1 a b H K. destruct K as [s|s sl A B|o o' r r' A SO]; [apply ks_same|apply ks_new; [lia|exact B]|apply ks_re; [lia|exact SO]].
Qed.

Lemma kstep_inv : forall c0 s s', kstep c0 s s' ->
  s' = s \/ (exists sl, s' = Some sl /\ c0 < slot_rev sl /\ slot_act sl = true) \/
  (exists o o' r r', s = Some (Live o r) /\ s' = Some (Live o' r') /\ c0 < r' /\ same_ours o o').
Proof.
  intros c0 s s' K. destruct K as [s|s sl A B|o o' r r' A SO].
  - left. reflexivity.
  - right. left. exists sl. repeat split; assumption.
  - right. right. exists o, o', r, r'. split; [reflexivity|]. split; [reflexivity|]. split; assumption.
Qed.

(* the table moved from t0 to t by user writes only *)
Definition tstep (t0 t : table) : Prop :=
  keyed t /\ t_rev t0 <= t_rev t /\ forall k, kstep (t_rev t0) (slot_of t0 k) (slot_of t k).

Lemma tstep_refl : forall t, keyed t -> tstep t t.
Proof. intros t K. split; [exact K|]. split; [lia|]. intro k. apply ks_same. Qed.

Lemma tstep_trans : forall t0 t1 t2, tstep t0 t1 -> tstep t1 t2 -> tstep t0 t2.
Proof.
  intros t0 t1 t2 [K1 [R1 S1]] [K2 [R2 S2]]. split; [exact K2|]. split; [lia|]. intro k.
  apply (kstep_trans _ _ (slot_of t1 k)); [apply S1|apply (kstep_mono _ (t_rev t1)); [exact R1|apply S2]].
Qed.

Lemma tstep_fresh : forall t0 t, tstep t0 t -> tstep t0 (fst (t_fresh_id t)).
Proof. intros t0 t [K [R S]]. split; [apply (keyed_ext t); [reflexivity|exact K]|]. split; [exact R|exact S]. Qed.

Lemma tstep_ins_pending : forall t0 t o, is_pending o = true -> tstep t0 t -> tstep t0 (t_insert t o).
Proof.
  intros t0 t o Hp [K [R S]]. split; [apply keyed_insert; exact K|]. split; [cbn; lia|]. intro k.
  destruct (N.eq_dec k (o_pk o)) as [E|E].
  - subst k. rewrite slot_insert_same. apply ks_new; [cbn; lia|exact Hp].
  - rewrite slot_insert_other by exact E. apply S.
Qed.

Lemma tstep_restamp : forall t0 t o r, slot_of t (o_pk o) = Some (Live o r) -> tstep t0 t -> tstep t0 (t_insert t (bump_aux o)).
Proof.
  intros t0 t o r Hs [K [R S]]. split; [apply keyed_insert; exact K|]. split; [cbn; lia|]. intro k.
  destruct (N.eq_dec k (o_pk (bump_aux o))) as [E|E].
  - subst k. rewrite slot_insert_same. apply (kstep_trans _ _ (slot_of t (o_pk o))); [apply S|].
    rewrite Hs. apply ks_re; [lia|repeat split].
  - rewrite slot_insert_other by exact E. apply S.
Qed.

Lemma tstep_delete : forall t0 t k, tstep t0 t -> tstep t0 (t_delete t k).
Proof.
  intros t0 t k [K [R S]]. split; [apply keyed_delete; exact K|]. split; [pose proof (t_rev_delete t k); lia|]. intro k'.
  destruct (N.eq_dec k' k) as [E|E].
  - subst k'. destruct (slot_of t k) as [[o r|o r]|] eqn:Es.
    + rewrite (slot_delete_same t k o r Es). apply ks_new; [cbn; lia|reflexivity].
    + assert (X : t_delete t k = t) by (unfold t_delete; unfold slot_of in Es; rewrite Es; reflexivity). rewrite X, Es. rewrite <- Es. apply S.
    + assert (X : t_delete t k = t) by (unfold t_delete; unfold slot_of in Es; rewrite Es; reflexivity). rewrite X, Es. rewrite <- Es. apply S.
  - rewrite slot_delete_other by exact E. apply S.
Qed.

Lemma w_put_tstep : forall t0 e k, tstep t0 (e_tab e) -> tstep t0 (e_tab (w_put e k)).
Proof.
  intros t0 e k H. unfold w_put. cbn [bump_ver e_tab e_ver].
  destruct (t_fresh_id (e_tab e)) as [t id] eqn:Ef. cbn [add_urev set_tab e_tab].
  apply tstep_ins_pending; [reflexivity|]. pose proof (tstep_fresh _ _ H) as P. rewrite Ef in P. exact P.
Qed.
Lemma w_del_tstep : forall t0 e k, tstep t0 (e_tab e) -> tstep t0 (e_tab (w_del e k)).
Proof.
  intros t0 e k H. unfold w_del. destruct (t_live (e_tab e) k); [|exact H].
  cbn [add_urev set_tab e_tab]. apply tstep_delete. exact H.
Qed.
Lemma w_stat_tstep : forall t0 g e k, tstep t0 (e_tab e) -> tstep t0 (e_tab (w_stat g e k)).
Proof.
  intros t0 g e k H. unfold w_stat. destruct (t_live (e_tab e) k) as [[o r]|] eqn:El; [|exact H].
  match goal with |- tstep _ (e_tab (if ?b then _ else _)) => destruct b end; [exact H|].
  cbn [add_urev set_tab e_tab]. pose proof H as [A _].
  assert (Hs : slot_of (e_tab e) k = Some (Live o r)) by (apply t_live_slot; exact El).
  assert (Hpk : o_pk o = k) by (apply (A k o r Hs)).
  apply (tstep_restamp _ _ o r); [rewrite Hpk; exact Hs|exact H].
Qed.
Lemma w_ref_tstep : forall t0 e k, tstep t0 (e_tab e) -> tstep t0 (e_tab (w_ref e k)).
Proof.
  intros t0 e k H. unfold w_ref. destruct (t_live (e_tab e) k) as [[o r]|]; [|exact H].
  destruct (o_kind o) eqn:Ek; try exact H.
  destruct (t_fresh_id (e_tab e)) as [t id] eqn:Ef. cbn [add_urev set_tab e_tab].
  apply tstep_ins_pending; [reflexivity|]. pose proof (tstep_fresh _ _ H) as P. rewrite Ef in P. exact P.
Qed.
Lemma w_pend_tstep : forall t0 e k, tstep t0 (e_tab e) -> tstep t0 (e_tab (w_pend e k)).
Proof.
  intros t0 e k H. unfold w_pend. destruct (t_live (e_tab e) k) as [[o r]|]; [|exact H].
  destruct (t_fresh_id (e_tab e)) as [t id] eqn:Ef. cbn [add_urev set_tab e_tab].
  apply tstep_ins_pending; [reflexivity|]. pose proof (tstep_fresh _ _ H) as P. rewrite Ef in P. exact P.
Qed.

Lemma do_write_tstep : forall t0 e kind k, tstep t0 (e_tab e) -> tstep t0 (e_tab (do_write e kind k)).
Proof.
  intros t0 e kind k W. unfold do_write.
  destruct kind as [|[[p|[p|p|]|]|[p|[p|p|]|]|]];
    first [ apply w_put_tstep; apply w_del_tstep; exact W
          | apply w_put_tstep; exact W | apply w_del_tstep; exact W | apply w_stat_tstep; exact W
          | apply w_ref_tstep; exact W | apply w_pend_tstep; exact W ].
Qed.

Lemma run_hooks_tstep : forall t0 hs k n e, tstep t0 (e_tab e) -> tstep t0 (e_tab (run_hooks hs k n e)).
Proof.
  intros t0 hs k n. induction hs as [|[[k' n'] [wk k2]] r IH]; intros e W; cbn [run_hooks]; [exact W|].
  apply IH. destruct ((k' =? k) && (n' =? n)); [|exact W]. apply do_write_tstep. exact W.
Qed.

Lemma do_call_tstep : forall t0 e snap fresh op o rev,
  tstep t0 (e_tab e) -> tstep t0 (e_tab (fst (do_call e snap fresh op o rev))).
Proof.
  intros t0 e snap fresh op o rev W. unfold do_call. cbn [fst e_tab e_hooks].
  destruct fresh; cbn [e_hooks].
  - apply run_hooks_tstep. apply run_hooks_tstep. exact W.
  - apply run_hooks_tstep. exact W.
Qed.

(* ------------------------------------------------------------------ what a scripted operation does to the target *)
Lemma run_hooks_target : forall hs k n e, e_target (run_hooks hs k n e) = e_target e.
Proof.
  induction hs as [|[[k' n'] [wk k2]] r IH]; intros k n e; cbn [run_hooks]; [reflexivity|].
  rewrite IH. destruct ((k' =? k) && (n' =? n)); [|reflexivity]. destruct (do_write_frame e wk k2) as [_ [_ [_ [_ [_ [_ F]]]]]]. exact F.
Qed.

Definition is_upd_op (op : N) : bool := (op =? 0) || (op =? 2).

Definition apply_op (ok : bool) (op pk ver : N) (tg : list (N * N)) : list (N * N) :=
  if ok then (if is_upd_op op then aset pk ver tg else adel pk tg) else tg.

Lemma do_call_target : forall e snap fresh op o rev e' ok, do_call e snap fresh op o rev = (e', ok) ->
  e_target e' = apply_op ok op (o_pk o) (o_ver o) (e_target e).
Proof.
  intros e snap fresh op o rev e' ok H. unfold do_call in H. cbv zeta in H.
  destruct fresh; injection H as H1 H2; subst e'; cbn [e_target]; rewrite ?run_hooks_target; cbn [e_target];
    unfold apply_op, is_upd_op; rewrite H2; reflexivity.
Qed.

Lemma aget_adel_same : forall V k (l : list (N * V)), aget k (adel k l) = None.
Proof.
  intros V k l. induction l as [|[k0 v0] r IH]; cbn [adel aget]; [reflexivity|].
  destruct (k0 =? k) eqn:E; [exact IH|]. cbn [aget]. rewrite E. exact IH.
Qed.
Lemma aget_adel_other : forall V k k' (l : list (N * V)), k' <> k -> aget k' (adel k l) = aget k' l.
Proof.
  intros V k k' l Hn. induction l as [|[k0 v0] r IH]; cbn [adel aget]; [reflexivity|].
  destruct (k0 =? k) eqn:E.
  - apply N.eqb_eq in E. subst k0. destruct (k =? k') eqn:E2; [apply N.eqb_eq in E2; congruence|exact IH].
  - cbn [aget]. destruct (k0 =? k'); [reflexivity|exact IH].
Qed.

Lemma apply_op_other : forall ok op pk ver tg k, k <> pk -> aget k (apply_op ok op pk ver tg) = aget k tg.
Proof.
  intros ok op pk ver tg k H. unfold apply_op. destruct ok; [|reflexivity].
  destruct (is_upd_op op); [apply aget_aset_other; exact H|apply aget_adel_other; exact H].
Qed.

(* ------------------------------------------------------------------ facts about a key's slot that survive user writes *)
Definition pay (sl : slot) : option N := match sl with Live o _ => Some (o_ver o) | Dead _ _ => None end.
Definition dead_at (t : table) (k r : N) : Prop := exists o, slot_of t k = Some (Dead o r).

Lemma kstep_wa : forall c0 c s s', kstep c0 s s' -> c <= c0 -> wa c s -> wa c s'.
Proof.
  intros c0 c s s' K Hc W. destruct K as [s|s sl A B|o o' r r' A SO].
  - exact W.
  - exists sl. split; [reflexivity|]. split; [lia|exact B].
  - destruct W as [sl [E [L Ac]]]. injection E as E. subst sl. exists (Live o' r'). split; [reflexivity|]. split; [cbn; lia|].
    cbn in *. rewrite (same_ours_pending _ _ SO). exact Ac.
Qed.

(* a key that has no work ahead after the writes had none before, kept its payload, and existed *)
Lemma kstep_settled : forall c0 c s s' sl', kstep c0 s s' -> c <= c0 -> s' = Some sl' -> ~ wa c s' ->
  ~ wa c s /\ exists sl, s = Some sl /\ pay sl = pay sl'.
Proof.
  intros c0 c s s' sl' K Hc E NW. destruct K as [s|s sl A B|o o' r r' A SO].
  - split; [exact NW|]. exists sl'. split; [exact E|reflexivity].
  - exfalso. apply NW. exists sl. split; [reflexivity|]. split; [lia|exact B].
  - injection E as E. subst sl'. split.
    + intros [sl [E1 [L Ac]]]. injection E1 as E1. subst sl. apply NW. exists (Live o' r'). split; [reflexivity|]. split; [cbn; lia|].
      cbn in *. rewrite (same_ours_pending _ _ SO). exact Ac.
    + exists (Live o r). split; [reflexivity|]. destruct SO as [_ [V _]]. cbn. rewrite V. reflexivity.
Qed.

Lemma tstep_work_ahead : forall t t' c k, tstep t t' -> c <= t_rev t -> work_ahead t c k -> work_ahead t' c k.
Proof. intros t t' c k [_ [_ S]] Hc W. apply (kstep_wa _ _ _ _ (S k) Hc W). Qed.

Lemma tstep_err_live : forall t t' c k, tstep t t' -> c <= t_rev t -> err_live t k -> err_live t' k \/ work_ahead t' c k.
Proof.
  intros t t' c k [_ [_ S]] Hc [o [r [A B]]].
  destruct (kstep_inv _ _ _ (S k)) as [E|[[sl [E [X Y]]]|[o0 [o1 [r0 [r1 [E1 [E2 [X SO]]]]]]]]].
  - left. exists o, r. rewrite E. split; assumption.
  - right. exists sl. split; [exact E|]. split; [lia|exact Y].
  - rewrite A in E1. injection E1 as E1 E3. subst o0 r0. left. exists o1, r1. split; [exact E2|].
    destruct SO as [_ [_ [Kd _]]]. rewrite Kd. exact B.
Qed.

Lemma tstep_dead_at : forall t t' c k r, tstep t t' -> c <= t_rev t -> dead_at t k r -> dead_at t' k r \/ work_ahead t' c k.
Proof.
  intros t t' c k r [_ [_ S]] Hc [o A].
  destruct (kstep_inv _ _ _ (S k)) as [E|[[sl [E [X Y]]]|[o0 [o1 [r0 [r1 [E1 [E2 [X SO]]]]]]]]].
  - left. exists o. rewrite E. exact A.
  - right. exists sl. split; [exact E|]. split; [lia|exact Y].
  - rewrite A in E1. discriminate.
Qed.

(* the snapshot's work is still there: a snapshot slot that is a deletion or a Pending/Refreshing object is
   still the current slot, or the key has (newer) work ahead of the snapshot revision *)
Lemma tstep_act_rel : forall snap t k sl, tstep snap t -> slot_of snap k = Some sl -> slot_act sl = true ->
  slot_of t k = Some sl \/ work_ahead t (t_rev snap) k.
Proof.
  intros snap t k sl [_ [_ S]] A B.
  destruct (kstep_inv _ _ _ (S k)) as [E|[[sl' [E [X Y]]]|[o0 [o1 [r0 [r1 [E1 [E2 [X SO]]]]]]]]].
  - left. rewrite E. exact A.
  - right. exists sl'. split; [exact E|]. split; [exact X|exact Y].
  - right. rewrite A in E1. injection E1 as E1. subst sl. exists (Live o1 r1). split; [exact E2|]. split; [exact X|].
    cbn in *. rewrite (same_ours_pending _ _ SO). exact B.
Qed.

Lemma work_ahead_lower : forall t c c' k, c' <= c -> work_ahead t c k -> work_ahead t c' k.
Proof. intros t c c' k H [sl [A [B C]]]. exists sl. split; [exact A|]. split; [lia|exact C]. Qed.

(* ------------------------------------------------------------------ the invariant *)
Definition no_item (q : retries) (k : N) : Prop := forall it, In it (q_items q) -> ri_pk it <> k.

(* target = table for every key without work left. P: keys of results awaiting their status commit (and, in
   batch mode, of the collected batches) *)
Definition tinv (t : table) (c : N) (P : list N) (q : retries) (tg : list (N * N)) : Prop :=
  forall k sl, slot_of t k = Some sl -> ~ work_ahead t c k -> no_item q k -> ~ In k P -> aget k tg = pay sl.

(* a successful result carries the target entry of its key *)
Definition res_target (res : list opres) (tg : list (N * N)) : Prop :=
  forall r, In r res -> r_ok r = true -> aget (o_pk (r_obj r)) tg = Some (o_ver (r_obj r)).

(* a result will be committed, or its key has work ahead (and will be reconciled again) *)
Definition good (t : table) (c : N) (r : opres) : Prop :=
  work_ahead t c (o_pk (r_obj r)) \/
  exists cur rv, slot_of t (o_pk (r_obj r)) = Some (Live cur rv) /\
    ((is_pending cur = true /\ rv = r_rev r) \/ (o_kind cur = Pending /\ o_sid cur = r_id r) \/
     (o_kind cur = Error /\ r_rev r <> r_orig r)).
Definition res_good (t : table) (c : N) (res : list opres) : Prop := forall r, In r res -> good t c r.

(* a delete retry belongs to the current deletion of its key, or the key has work ahead *)
Definition del_items (t : table) (c : N) (q : retries) : Prop :=
  forall it, In it (q_items q) -> ri_del it = true -> work_ahead t c (ri_pk it) \/ dead_at t (ri_pk it) (ri_rev it).

(* an item of the key of a result awaiting commit is the popped update item *)
Definition res_del (res : list opres) (q : retries) : Prop :=
  forall r it, In r res -> In it (q_items q) -> ri_pk it = o_pk (r_obj r) -> ri_del it = false.

Lemma tinv_P_mono : forall t c P P' q tg, (forall k, In k P -> In k P') -> tinv t c P q tg -> tinv t c P' q tg.
Proof. intros t c P P' q tg H T k sl A B C D. apply (T k sl A B C). intro X. apply D. apply H. exact X. Qed.

Lemma tinv_q_change : forall t c P q q' tg, (forall k, ~ In k P -> no_item q' k -> no_item q k) ->
  tinv t c P q tg -> tinv t c P q' tg.
Proof. intros t c P q q' tg H T k sl A B C D. apply (T k sl A B); [apply H; assumption|exact D]. Qed.

(* user writes keep all of it *)
Lemma tinv_tstep : forall t t' c P q tg, tstep t t' -> c <= t_rev t -> tinv t c P q tg -> tinv t' c P q tg.
Proof.
  intros t t' c P q tg [_ [_ S]] Hc T k sl' A B C D.
  destruct (kstep_settled _ _ _ _ _ (S k) Hc A B) as [NW [sl [E1 E2]]].
  rewrite <- E2. apply (T k sl E1 NW C D).
Qed.

Lemma good_tstep : forall t t' c r, tstep t t' -> c <= t_rev t -> good t c r -> good t' c r.
Proof.
  intros t t' c r TS Hc [W|[cur [rv [A B]]]]; [left; apply (tstep_work_ahead _ _ _ _ TS Hc W)|].
  pose proof TS as [_ [_ S]].
  destruct (kstep_inv _ _ _ (S (o_pk (r_obj r)))) as [E|[[sl [E [X Y]]]|[o0 [o1 [r0 [r1 [E1 [E2 [X SO]]]]]]]]].
  - right. exists cur, rv. rewrite E. split; [exact A|exact B].
  - left. exists sl. split; [exact E|]. split; [lia|exact Y].
  - rewrite A in E1. injection E1 as E1 E3. subst o0 r0. pose proof (same_ours_pending _ _ SO) as SP.
    destruct SO as [_ [_ [Kd Sd]]]. destruct B as [[B1 B2]|[B|B]].
    + left. exists (Live o1 r1). split; [exact E2|]. split; [cbn; lia|cbn; rewrite SP; exact B1].
    + right. exists o1, r1. split; [exact E2|right; left; rewrite Kd, Sd; exact B].
    + right. exists o1, r1. split; [exact E2|right; right; rewrite Kd; exact B].
Qed.

Lemma res_good_tstep : forall t t' c res, tstep t t' -> c <= t_rev t -> res_good t c res -> res_good t' c res.
Proof. intros t t' c res TS Hc G r Hr. apply (good_tstep _ _ _ _ TS Hc). apply G. exact Hr. Qed.

Lemma del_items_tstep : forall t t' c q, tstep t t' -> c <= t_rev t -> del_items t c q -> del_items t' c q.
Proof.
  intros t t' c q TS Hc D it Hi Hd. destruct (D it Hi Hd) as [W|X].
  - left. apply (tstep_work_ahead _ _ _ _ TS Hc W).
  - destruct (tstep_dead_at _ _ c _ _ TS Hc X) as [Y|Y]; [right; exact Y|left; exact Y].
Qed.

(* ------------------------------------------------------------------ the cursor moves over the head of the stream *)
Section Advance.
Variables (snap t : table) (cur : N) (ch : change) (rest : list change).
Hypothesis W : twf snap.
Hypothesis SR : snap_rel snap t.
Hypothesis S : stream_ok snap cur (ch :: rest).

Lemma wa_advance : forall k, work_ahead t cur k -> k <> ch_pk ch \/ ch_act ch = false -> work_ahead t (c_rev ch) k.
Proof.
  intros k [sl [A [B C]]] H. exists sl. split; [exact A|]. split; [|exact C].
  destruct (N.lt_ge_cases (c_rev ch) (slot_rev sl)) as [L|L]; [exact L|exfalso].
  destruct (interval_head _ _ _ _ _ _ _ W SR S A B L) as [K SC]. destruct H as [H|H]; [exact (H K)|].
  rewrite <- SC, ch_act_slot in H. congruence.
Qed.

Lemma head_rev_gt : cur < c_rev ch.
Proof. destruct S as [_ [_ [_ [_ S5]]]]. apply S5. left. reflexivity. Qed.

Lemma no_item_clear_other : forall q k k', k' <> k -> no_item (r_clear q k) k' -> no_item q k'.
Proof.
  intros q k k' Hne H it Hi Hk. apply (H it); [|exact Hk]. rewrite clear_items. apply in_remove_item_intro; [exact Hi|congruence].
Qed.

Lemma tinv_advance_take : forall P q tg, tinv t cur P q tg -> tinv t (c_rev ch) (ch_pk ch :: P) (r_clear q (ch_pk ch)) tg.
Proof.
  intros P q tg T k sl A B C D.
  assert (Hne : k <> ch_pk ch) by (intro X; apply D; left; symmetry; exact X).
  apply (T k sl A).
  - intro X. apply B. apply wa_advance; [exact X|left; exact Hne].
  - apply (no_item_clear_other q (ch_pk ch)); assumption.
  - intro X. apply D. right. exact X.
Qed.

Lemma tinv_advance_skip : forall P q tg, ch_act ch = false -> tinv t cur P q tg -> tinv t (c_rev ch) P q tg.
Proof.
  intros P q tg Ha T k sl A B C D. apply (T k sl A); [|exact C|exact D].
  intro X. apply B. apply wa_advance; [exact X|right; exact Ha].
Qed.

Lemma good_advance : forall r, o_pk (r_obj r) <> ch_pk ch \/ ch_act ch = false -> good t cur r -> good t (c_rev ch) r.
Proof. intros r H [X|X]; [left; apply wa_advance; assumption|right; exact X]. Qed.

Lemma del_items_advance_take : forall q, del_items t cur q -> del_items t (c_rev ch) (r_clear q (ch_pk ch)).
Proof.
  intros q D it Hi Hd. apply clear_in in Hi. destruct Hi as [Hi Hne]. destruct (D it Hi Hd) as [X|X]; [left|right; exact X].
  apply wa_advance; [exact X|left; exact Hne].
Qed.

Lemma del_items_advance_skip : forall q, ch_act ch = false -> del_items t cur q -> del_items t (c_rev ch) q.
Proof.
  intros q Ha D it Hi Hd. destruct (D it Hi Hd) as [X|X]; [left|right; exact X]. apply wa_advance; [exact X|right; exact Ha].
Qed.
End Advance.

(* ------------------------------------------------------------------ small facts about the queue and the target *)
Lemma in_put_item_other : forall it l j, In j l -> ri_pk j <> ri_pk it -> In j (put_item it l).
Proof.
  intros it l j. induction l as [|i r IH]; intros H Hn; [destruct H|]. cbn [put_item].
  destruct H as [H|H].
  - subst i. destruct (ri_pk j =? ri_pk it) eqn:E; [apply N.eqb_eq in E; congruence|left; reflexivity].
  - destruct (ri_pk i =? ri_pk it); right; [exact H|apply IH; assumption].
Qed.

Lemma in_add_other : forall q o rev orig del now j, In j (q_items q) -> ri_pk j <> o_pk o -> In j (q_items (r_add q o rev orig del now)).
Proof. intros q o rev orig del now j H Hn. rewrite add_items. apply in_put_item_other; [exact H|exact Hn]. Qed.

Lemma add_has_item : forall q o rev orig del now, exists it, In it (q_items (r_add q o rev orig del now)) /\ ri_pk it = o_pk o.
Proof.
  intros q o rev orig del now. destruct (add_item_spec q o rev orig del now) as [it [A _]].
  exists it. apply find_item_in. exact A.
Qed.

Lemma no_item_sub : forall q q' k, (forall it, In it (q_items q') -> In it (q_items q)) -> no_item q k -> no_item q' k.
Proof. intros q q' k H N it Hi. apply N. apply H. exact Hi. Qed.

Lemma tinv_target_other : forall t c P q tg tg', (forall k, ~ In k P -> aget k tg' = aget k tg) ->
  tinv t c P q tg -> tinv t c P q tg'.
Proof. intros t c P q tg tg' H T k sl A B C D. rewrite (H k D). apply (T k sl A B C D). Qed.

Lemma res_pks_snoc : forall res r, res_pks (res ++ [r]) = res_pks res ++ [o_pk (r_obj r)].
Proof. intros. unfold res_pks. rewrite map_app. reflexivity. Qed.

Lemma slot_change_dead : forall sl ch, slot_change sl = ch -> c_del ch = true -> sl = Dead (c_obj ch) (c_rev ch).
Proof. intros [o r|o r] ch H Hd; subst ch; cbn in *; [discriminate|reflexivity]. Qed.
Lemma slot_change_live : forall sl ch, slot_change sl = ch -> c_del ch = false -> sl = Live (c_obj ch) (c_rev ch).
Proof. intros [o r|o r] ch H Hd; subst ch; cbn in *; [reflexivity|discriminate]. Qed.

(* ------------------------------------------------------------------ the change phase, single mode *)
Record p1inv (snap : table) (e : env) (q : retries) (res : list opres) (cur : N) : Prop := {
  p1_ts : tstep snap (e_tab e);
  p1_t : tinv (e_tab e) cur (res_pks res) q (e_target e);
  p1_rt : res_target res (e_target e);
  p1_del : del_items (e_tab e) cur q;
  p1_noi : forall r, In r res -> no_item q (o_pk (r_obj r));
  p1_snap : forall r, In r res -> slot_of snap (o_pk (r_obj r)) = Some (Live (r_obj r) (r_rev r)) /\ is_pending (r_obj r) = true
}.

Lemma single_step_target : forall snap e q res cur ch rest e1 q1 res1,
  phase_inv (Dlog e) snap e q res cur (ch :: rest) -> p1inv snap e q res cur -> ch_act ch = true ->
  process_single e snap true (r_clear q (ch_pk ch)) res (c_obj ch) (c_rev ch) (c_rev ch) (c_del ch) = (e1, q1, res1) ->
  p1inv snap e1 q1 res1 (c_rev ch).
Proof.
  intros snap e q res cur ch rest e1 q1 res1 INV [TS T RT DI NOI SN] Hact H.
  destruct (step_head_slot _ _ _ _ _ _ _ _ INV) as [sl0 [S0 [S1 [P0 [P1 [P2 P3]]]]]].
  pose proof INV as [I1 I2 I3 I4 I5 I6 I7 I8 I9 I10 I11].
  set (k := ch_pk ch) in *. set (c' := c_rev ch) in *. set (q0 := r_clear q k) in *.
  assert (Hc' : c' <= t_rev (e_tab e)) by (destruct I3 as [R1 _]; lia).
  assert (Knew : forall r', In r' res -> o_pk (r_obj r') <> k).
  { intros r' Hr' X. apply (I9 ch (or_introl eq_refl)). fold k. rewrite <- X. unfold res_pks. apply (in_map (fun r => o_pk (r_obj r))). exact Hr'. }
  assert (Sub0 : forall it, In it (q_items q0) -> In it (q_items q) /\ ri_pk it <> k) by (intros it Hi; apply clear_in; exact Hi).
  pose proof (tinv_advance_take snap (e_tab e) cur ch rest I2 I3 I4 _ _ _ T) as T0. fold k c' q0 in T0.
  pose proof (del_items_advance_take snap (e_tab e) cur ch rest I2 I3 I4 _ DI) as D0. fold k c' q0 in D0.
  unfold process_single in H.
  assert (Act0 : forall e2, tstep snap (e_tab e2) -> slot_act sl0 = true ->
            slot_of (e_tab e2) k = Some sl0 \/ work_ahead (e_tab e2) c' k).
  { intros e2 TS2 Ha. destruct (tstep_act_rel snap (e_tab e2) k sl0 TS2 S0 Ha) as [X|X]; [left; exact X|right].
    apply (work_ahead_lower _ (t_rev snap)); [exact P1|exact X]. }
  destruct (c_del ch) eqn:Hd.
  - assert (Hsl0 : sl0 = Dead (c_obj ch) c') by (apply slot_change_dead; assumption).
    destruct (do_call e snap true 1 (c_obj ch) c') as [e2 ok] eqn:Ec.
    pose proof (do_call_tstep snap e snap true 1 (c_obj ch) c' TS) as TS2. rewrite Ec in TS2. cbn [fst] in TS2.
    pose proof (do_call_tstep (e_tab e) e snap true 1 (c_obj ch) c' (tstep_refl _ (twf_keyed _ I1))) as TS1. rewrite Ec in TS1. cbn [fst] in TS1.
    pose proof (do_call_target _ _ _ _ _ _ _ _ Ec) as TG. change (o_pk (c_obj ch)) with k in TG.
    assert (T2 : tinv (e_tab e2) c' (k :: res_pks res) q0 (e_target e2)).
    { apply (tinv_target_other _ _ _ _ (e_target e)).
      - intros k' Hk'. rewrite TG. apply apply_op_other. intro X. apply Hk'. left. symmetry. exact X.
      - apply (tinv_tstep (e_tab e)); assumption. }
    assert (RT2 : res_target res (e_target e2)).
    { intros r' Hr' Hok. rewrite TG, apply_op_other by (apply Knew; exact Hr'). apply RT; assumption. }
    pose proof (del_items_tstep _ _ _ _ TS1 Hc' D0) as D1.
    assert (A0 : slot_of (e_tab e2) k = Some sl0 \/ work_ahead (e_tab e2) c' k) by (apply Act0; [exact TS2|rewrite Hsl0; reflexivity]).
    destruct ok; injection H as H1 H2 H3; subst e1 q1 res1.
    + constructor; try assumption.
      * intros k' sl A B C D. destruct (N.eq_dec k' k) as [E|E].
        -- subst k'. destruct A0 as [X|X]; [|contradiction]. rewrite X in A. injection A as A. subst sl. rewrite Hsl0. cbn [pay].
           rewrite TG. unfold apply_op. cbn. apply aget_adel_same.
        -- apply (T2 k' sl A B); [apply (no_item_clear_other q0 k); assumption|].
           intros [X|X]; [apply E; symmetry; exact X|exact (D X)].
      * intros it Hi Hdel. apply clear_in in Hi. apply (D1 it (proj1 Hi) Hdel).
      * intros r' Hr'. apply (no_item_sub q); [|apply NOI; exact Hr'].
        intros it Hi. apply clear_in in Hi. apply (Sub0 it (proj1 Hi)).
    + constructor; try assumption.
      * intros k' sl A B C D. destruct (N.eq_dec k' k) as [E|E].
        -- subst k'. exfalso. destruct (add_has_item q0 (c_obj ch) c' c' true (e_now e2)) as [it [X1 X2]]. apply (C it X1 X2).
        -- apply (T2 k' sl A B).
           ++ intros it Hi Hk. apply (C it); [|exact Hk]. apply in_add_other; [exact Hi|]. change (o_pk (c_obj ch)) with k. congruence.
           ++ intros [X|X]; [apply E; symmetry; exact X|exact (D X)].
      * intros it Hi Hdel. apply in_add_items_weak in Hi. destruct Hi as [[J1 [J2 _]]|J1]; [|apply (D1 it J1 Hdel)].
        unfold ri_pk. rewrite J1, J2. change (o_pk (c_obj ch)) with k.
        destruct A0 as [X|X]; [right; exists (c_obj ch); rewrite X, Hsl0; reflexivity|left; exact X].
      * intros r' Hr' it Hi. apply in_add_items_weak in Hi. destruct Hi as [[J1 _]|J1].
        -- unfold ri_pk. rewrite J1. intro X. apply (Knew r' Hr'). symmetry. exact X.
        -- apply (NOI r' Hr'). apply (Sub0 it J1).
  - destruct (do_call e snap true 0 (c_obj ch) c') as [e2 ok] eqn:Ec.
    pose proof (do_call_tstep snap e snap true 0 (c_obj ch) c' TS) as TS2. rewrite Ec in TS2. cbn [fst] in TS2.
    pose proof (do_call_tstep (e_tab e) e snap true 0 (c_obj ch) c' (tstep_refl _ (twf_keyed _ I1))) as TS1. rewrite Ec in TS1. cbn [fst] in TS1.
    pose proof (do_call_target _ _ _ _ _ _ _ _ Ec) as TG. change (o_pk (c_obj ch)) with k in TG.
    assert (T2 : tinv (e_tab e2) c' (k :: res_pks res) q0 (e_target e2)).
    { apply (tinv_target_other _ _ _ _ (e_target e)).
      - intros k' Hk'. rewrite TG. apply apply_op_other. intro X. apply Hk'. left. symmetry. exact X.
      - apply (tinv_tstep (e_tab e)); assumption. }
    pose proof (del_items_tstep _ _ _ _ TS1 Hc' D0) as D1.
    injection H as H1 H2 H3. subst e1 q1 res1.
    assert (Sub1 : forall it, In it (q_items (if ok then r_clear q0 (o_pk (c_obj ch)) else q0)) -> In it (q_items q0)).
    { intros it Hi. destruct ok; [apply clear_in in Hi; apply Hi|exact Hi]. }
    constructor.
    + exact TS2.
    + rewrite res_pks_snoc. cbn [r_obj]. change (o_pk (c_obj ch)) with k.
      apply (tinv_q_change _ _ _ q0).
      * intros k' Hk' N it Hi Hk. assert (E : k' <> k) by (intro X; apply Hk'; apply in_or_app; right; left; symmetry; exact X).
        apply (N it); [|exact Hk]. destruct ok; [|exact Hi]. rewrite clear_items. apply in_remove_item_intro; [exact Hi|]. change (o_pk (c_obj ch)) with k. congruence.
      * apply (tinv_P_mono _ _ (k :: res_pks res)); [|exact T2].
        intros x [X|X]; apply in_or_app; [right; left; exact X|left; exact X].
    + intros r' Hr' Hok. apply in_app_or in Hr'. destruct Hr' as [Hr'|[Hr'|[]]].
      * rewrite TG, apply_op_other by (apply Knew; exact Hr'). apply RT; assumption.
      * subst r'. cbn [r_obj r_ok] in *. subst ok. change (o_pk (c_obj ch)) with k. rewrite TG. unfold apply_op. cbn. apply aget_aset_same.
    + intros it Hi Hdel. apply (D1 it (Sub1 it Hi) Hdel).
    + intros r' Hr' it Hi. apply Sub1 in Hi. apply in_app_or in Hr'. destruct Hr' as [Hr'|[Hr'|[]]].
      * apply (NOI r' Hr'). apply (Sub0 it Hi).
      * subst r'. cbn [r_obj]. apply (Sub0 it Hi).
    + intros r' Hr'. apply in_app_or in Hr'. destruct Hr' as [Hr'|[Hr'|[]]]; [apply SN; exact Hr'|].
      subst r'. cbn [r_obj r_rev]. change (o_pk (c_obj ch)) with k. rewrite S0.
      split; [f_equal; apply slot_change_live; assumption|].
      unfold ch_act in Hact. rewrite Hd in Hact. exact Hact.
Qed.

Theorem single_target : forall chs rs snap c0 e q res nrec lastrev e' q' res' nrec' lastrev',
  phase_inv (Dlog e) snap e q res (curs c0 lastrev) chs -> p1inv snap e q res (curs c0 lastrev) ->
  single rs snap chs e q res nrec lastrev = (e', q', res', nrec', lastrev') ->
  p1inv snap e' q' res' (curs c0 lastrev').
Proof.
  induction chs as [|ch rest IH]; intros rs snap c0 e q res nrec lastrev e' q' res' nrec' lastrev' INV G H; cbn [single] in H.
  - injection H as H1 H2 H3 H4 H5. subst. exact G.
  - destruct (step_head_slot _ _ _ _ _ _ _ _ INV) as [sl0 [S0 [S1 [P0 [P1 [P2 P3]]]]]].
    assert (CU : curs c0 (c_rev ch) = c_rev ch).
    { unfold curs. destruct (c_rev ch =? 0) eqn:E; [apply N.eqb_eq in E; lia|reflexivity]. }
    pose proof INV as [I1 I2 I3 I4 I5 I6 I7 I8 I9 I10 I11].
    destruct (negb (c_del ch) && negb (is_pending (c_obj ch))) eqn:Esk.
    + pose proof Esk as Ea. rewrite skip_is_not_act in Ea. apply negb_true_iff in Ea.
      apply andb_prop in Esk. destruct Esk as [E1 E2]. apply negb_true_iff in E1. apply negb_true_iff in E2.
      apply (IH rs snap c0 e q res nrec (c_rev ch) e' q' res' nrec' lastrev'); [rewrite CU; apply (step_skip _ _ _ _ _ _ _ _ INV E1 E2)| |exact H].
      rewrite CU. destruct G as [TS T RT DI NOI SN]. constructor; try assumption.
      * apply (tinv_advance_skip snap (e_tab e) _ ch rest I2 I3 I4 _ _ _ Ea T).
      * apply (del_items_advance_skip snap (e_tab e) _ ch rest I2 I3 I4 _ Ea DI).
    + destruct (process_single e snap true (r_clear q (o_pk (c_obj ch))) res (c_obj ch) (c_rev ch) (c_rev ch) (c_del ch))
        as [[e1 q1] res1] eqn:Ep.
      assert (INV1 : phase_inv (Dlog e1) snap e1 q1 res1 (c_rev ch) rest).
      { destruct (c_del ch) eqn:Ed.
        - apply (step_delete _ _ _ _ _ _ _ _ _ _ INV Ed Ep).
        - cbn [negb andb] in Esk. apply negb_false_iff in Esk. apply (step_update _ _ _ _ _ _ _ _ _ _ INV Ed Esk Ep). }
      assert (Ea : ch_act ch = true) by (rewrite skip_is_not_act in Esk; apply negb_false_iff in Esk; exact Esk).
      pose proof (single_step_target _ _ _ _ _ _ _ _ _ _ INV G Ea Ep) as G1.
      destruct (rs <=? nrec + 1).
      * injection H as H1 H2 H3 H4 H5. subst. rewrite CU. exact G1.
      * apply (IH rs snap c0 e1 q1 res1 (nrec + 1) (c_rev ch) e' q' res' nrec' lastrev'); [rewrite CU; exact INV1|rewrite CU; exact G1|exact H].
Qed.

(* ------------------------------------------------------------------ the change phase, batch mode *)
Lemma batch_collect_target : forall chs rs snap t c0 q dels upds nrec lastrev q' dels' upds' nrec' lastrev' tg,
  twf snap -> snap_rel snap t -> stream_ok snap (curs c0 lastrev) chs ->
  tinv t (curs c0 lastrev) (map ch_pk (dels ++ upds)) q tg -> del_items t (curs c0 lastrev) q ->
  batch_collect rs chs q dels upds nrec lastrev = (q', dels', upds', nrec', lastrev') ->
  tinv t (curs c0 lastrev') (map ch_pk (dels' ++ upds')) q' tg /\ del_items t (curs c0 lastrev') q' /\
  (forall c, In c dels' -> In c dels \/ (In c chs /\ c_del c = true)) /\
  (forall c, In c upds' -> In c upds \/ (In c chs /\ c_del c = false /\ is_pending (c_obj c) = true)) /\
  (forall it, In it (q_items q') -> In it (q_items q)).
Proof.
  induction chs as [|ch rest IH]; intros rs snap t c0 q dels upds nrec lastrev q' dels' upds' nrec' lastrev' tg W SR S T DI H; cbn [batch_collect] in H.
  - injection H as H1 H2 H3 H4 H5. subst. split; [exact T|]. split; [exact DI|]. split; [intros c Hc; left; exact Hc|].
    split; [intros c Hc; left; exact Hc|intros it Hi; exact Hi].
  - assert (CU : curs c0 (c_rev ch) = c_rev ch).
    { pose proof (head_rev_gt snap _ ch rest S). unfold curs. destruct (c_rev ch =? 0) eqn:E; [apply N.eqb_eq in E; lia|reflexivity]. }
    pose proof (stream_tail snap _ ch rest W S) as ST.
    rewrite skip_is_not_act in H. destruct (ch_act ch) eqn:Ea; cbn [negb] in H.
    + set (dels1 := if c_del ch then dels ++ [ch] else dels) in *.
      set (upds1 := if c_del ch then upds else upds ++ [ch]) in *.
      assert (T1 : tinv t (c_rev ch) (map ch_pk (dels1 ++ upds1)) (r_clear q (o_pk (c_obj ch))) tg).
      { apply (tinv_P_mono _ _ (ch_pk ch :: map ch_pk (dels ++ upds))).
        - intros x [X|X].
          + subst x. apply in_map. unfold dels1, upds1. destruct (c_del ch); apply in_or_app; [left|right]; apply in_or_app; right; left; reflexivity.
          + apply in_map_iff in X. destruct X as [c [X1 X2]]. rewrite <- X1. apply in_map. apply in_app_or in X2.
            unfold dels1, upds1. destruct (c_del ch); apply in_or_app; destruct X2 as [X2|X2];
              first [left; apply in_or_app; left; exact X2 | left; exact X2 | right; exact X2 | right; apply in_or_app; left; exact X2].
        - apply (tinv_advance_take snap t _ ch rest W SR S). exact T. }
      pose proof (del_items_advance_take snap t _ ch rest W SR S _ DI) as D1.
      assert (Dl1 : forall c, In c dels1 -> In c dels \/ (In c (ch :: rest) /\ c_del c = true)).
      { intros c Hc. unfold dels1 in Hc. destruct (c_del ch) eqn:Ed; [|left; exact Hc]. apply in_app_or in Hc.
        destruct Hc as [Hc|[Hc|[]]]; [left; exact Hc|right; subst c; split; [left; reflexivity|exact Ed]]. }
      assert (Up1 : forall c, In c upds1 -> In c upds \/ (In c (ch :: rest) /\ c_del c = false /\ is_pending (c_obj c) = true)).
      { intros c Hc. unfold upds1 in Hc. destruct (c_del ch) eqn:Ed; [left; exact Hc|]. apply in_app_or in Hc.
        destruct Hc as [Hc|[Hc|[]]]; [left; exact Hc|right; subst c; split; [left; reflexivity|split; [exact Ed|]]].
        unfold ch_act in Ea. rewrite Ed in Ea. exact Ea. }
      assert (Q1 : forall it, In it (q_items (r_clear q (o_pk (c_obj ch)))) -> In it (q_items q)) by (intros it Hi; apply clear_in in Hi; apply Hi).
      destruct (rs <=? nrec + 1).
      * injection H as H1 H2 H3 H4 H5. subst q' dels' upds' nrec' lastrev'. rewrite CU.
        split; [exact T1|]. split; [exact D1|]. split; [exact Dl1|]. split; [exact Up1|exact Q1].
      * destruct (IH rs snap t c0 (r_clear q (o_pk (c_obj ch))) dels1 upds1 (nrec + 1) (c_rev ch) q' dels' upds' nrec' lastrev' tg W SR) as [R1 [R2 [R3 [R4 R5]]]];
          [rewrite CU; exact ST|rewrite CU; exact T1|rewrite CU; exact D1|exact H|].
        split; [exact R1|]. split; [exact R2|]. split; [|split].
        -- intros c Hc. destruct (R3 c Hc) as [X|[X1 X2]]; [|right; split; [right; exact X1|exact X2]].
           destruct (Dl1 c X) as [Y|Y]; [left; exact Y|right; exact Y].
        -- intros c Hc. destruct (R4 c Hc) as [X|[X1 X2]]; [|right; split; [right; exact X1|exact X2]].
           destruct (Up1 c X) as [Y|Y]; [left; exact Y|right; exact Y].
        -- intros it Hi. apply Q1. apply R5. exact Hi.
    + destruct (IH rs snap t c0 q dels upds nrec (c_rev ch) q' dels' upds' nrec' lastrev' tg W SR) as [R1 [R2 [R3 [R4 R5]]]];
        [rewrite CU; exact ST|rewrite CU; apply (tinv_advance_skip snap t _ ch rest W SR S _ _ _ Ea T)
        |rewrite CU; apply (del_items_advance_skip snap t _ ch rest W SR S _ Ea DI)|exact H|].
      split; [exact R1|]. split; [exact R2|]. split; [|split; [|exact R5]].
      * intros c Hc. destruct (R3 c Hc) as [X|[X1 X2]]; [left; exact X|right; split; [right; exact X1|exact X2]].
      * intros c Hc. destruct (R4 c Hc) as [X|[X1 X2]]; [left; exact X|right; split; [right; exact X1|exact X2]].
Qed.

Lemma batch_deletes_target : forall dl snap upds e q c e' q', c <= t_rev snap ->
  tstep snap (e_tab e) ->
  (forall d, In d dl -> slot_of snap (ch_pk d) = Some (Dead (c_obj d) (c_rev d))) ->
  NoDup (map ch_pk (dl ++ upds)) ->
  tinv (e_tab e) c (map ch_pk (dl ++ upds)) q (e_target e) -> del_items (e_tab e) c q ->
  (forall x, In x (dl ++ upds) -> no_item q (ch_pk x)) ->
  batch_deletes snap dl e q = (e', q') ->
  tstep snap (e_tab e') /\ tinv (e_tab e') c (map ch_pk upds) q' (e_target e') /\ del_items (e_tab e') c q' /\
  (forall x, In x upds -> no_item q' (ch_pk x)).
Proof.
  induction dl as [|d rest IH]; intros snap upds e q c e' q' Hc TS SD ND T DI NI H; cbn [batch_deletes] in H.
  - injection H as H1 H2. subst. split; [exact TS|]. split; [exact T|]. split; [exact DI|exact NI].
  - destruct (do_call e snap true 3 (c_obj d) (c_rev d)) as [e1 ok] eqn:Ec.
    set (k := ch_pk d) in *.
    pose proof TS as [K0 [R0 _]].
    assert (Hc' : c <= t_rev (e_tab e)) by lia.
    pose proof (do_call_tstep snap e snap true 3 (c_obj d) (c_rev d) TS) as TS2. rewrite Ec in TS2. cbn [fst] in TS2.
    pose proof (do_call_tstep (e_tab e) e snap true 3 (c_obj d) (c_rev d) (tstep_refl _ K0)) as TS1. rewrite Ec in TS1. cbn [fst] in TS1.
    pose proof (do_call_target _ _ _ _ _ _ _ _ Ec) as TG. change (o_pk (c_obj d)) with k in TG.
    cbn [app map] in T, ND. fold k in T, ND. inversion ND as [|x xs Hx Hr]; subst x xs.
    assert (T2 : tinv (e_tab e1) c (k :: map ch_pk (rest ++ upds)) q (e_target e1)).
    { apply (tinv_target_other _ _ _ _ (e_target e)).
      - intros k' Hk'. rewrite TG. apply apply_op_other. intro X. apply Hk'. left. symmetry. exact X.
      - apply (tinv_tstep (e_tab e)); assumption. }
    pose proof (del_items_tstep _ _ _ _ TS1 Hc' DI) as D1.
    assert (A0 : slot_of (e_tab e1) k = Some (Dead (c_obj d) (c_rev d)) \/ work_ahead (e_tab e1) c k).
    { destruct (tstep_act_rel snap (e_tab e1) k _ TS2 (SD d (or_introl eq_refl)) eq_refl) as [X|X]; [left; exact X|right].
      apply (work_ahead_lower _ (t_rev snap)); [exact Hc|exact X]. }
    set (q1 := if ok then q else r_add q (c_obj d) (c_rev d) (c_rev d) true (e_now e1)) in *.
    apply (IH snap upds e1 q1 c e' q' Hc TS2); [intros x Hx'; apply SD; right; exact Hx'|exact Hr| | | |exact H].
    + intros k' sl A B C D. destruct (N.eq_dec k' k) as [E|E].
      * subst k'. unfold q1 in C. destruct ok.
        -- destruct A0 as [X|X]; [|contradiction]. rewrite X in A. injection A as A. subst sl. cbn [pay].
           rewrite TG. unfold apply_op. cbn. apply aget_adel_same.
        -- exfalso. destruct (add_has_item q (c_obj d) (c_rev d) (c_rev d) true (e_now e1)) as [it [X1 X2]]. apply (C it X1 X2).
      * apply (T2 k' sl A B).
        -- unfold q1 in C. destruct ok; [exact C|]. intros it Hi Hk. apply (C it); [|exact Hk].
           apply in_add_other; [exact Hi|]. change (o_pk (c_obj d)) with k. congruence.
        -- intros [X|X]; [apply E; symmetry; exact X|exact (D X)].
    + unfold q1. destruct ok; [exact D1|]. intros it Hi Hdel. apply in_add_items_weak in Hi.
      destruct Hi as [[J1 [J2 _]]|J1]; [|apply (D1 it J1 Hdel)].
      unfold ri_pk. rewrite J1, J2. change (o_pk (c_obj d)) with k.
      destruct A0 as [X|X]; [right; exists (c_obj d); exact X|left; exact X].
    + intros x Hx' it Hi. unfold q1 in Hi. destruct ok; [apply (NI x (or_intror Hx') it Hi)|].
      apply in_add_items_weak in Hi. destruct Hi as [[J1 _]|J1]; [|apply (NI x (or_intror Hx') it J1)].
      unfold ri_pk. rewrite J1. change (o_pk (c_obj d)) with k. intro X. apply Hx. rewrite X. apply in_map. exact Hx'.
Qed.

Lemma batch_update_calls_target : forall upds snap e acc P q c e' l, c <= t_rev snap ->
  tstep snap (e_tab e) -> (forall u, In u upds -> In (ch_pk u) P) ->
  NoDup (map ch_pk (map fst acc ++ upds)) ->
  tinv (e_tab e) c P q (e_target e) -> del_items (e_tab e) c q ->
  (forall x, In x acc -> snd x = true -> aget (ch_pk (fst x)) (e_target e) = Some (o_ver (c_obj (fst x)))) ->
  batch_update_calls snap upds e acc = (e', l) ->
  tstep snap (e_tab e') /\ tinv (e_tab e') c P q (e_target e') /\ del_items (e_tab e') c q /\
  (forall x, In x l -> snd x = true -> aget (ch_pk (fst x)) (e_target e') = Some (o_ver (c_obj (fst x)))) /\
  map fst l = map fst acc ++ upds.
Proof.
  induction upds as [|u rest IH]; intros snap e acc P q c e' l Hc TS UP ND T DI RA H; cbn [batch_update_calls] in H.
  - injection H as H1 H2. subst. split; [exact TS|]. split; [exact T|]. split; [exact DI|]. split; [exact RA|rewrite app_nil_r; reflexivity].
  - destruct (do_call e snap true 2 (c_obj u) (c_rev u)) as [e1 ok] eqn:Ec.
    set (k := ch_pk u) in *.
    pose proof TS as [K0 [R0 _]].
    assert (Hc' : c <= t_rev (e_tab e)) by lia.
    pose proof (do_call_tstep snap e snap true 2 (c_obj u) (c_rev u) TS) as TS2. rewrite Ec in TS2. cbn [fst] in TS2.
    pose proof (do_call_tstep (e_tab e) e snap true 2 (c_obj u) (c_rev u) (tstep_refl _ K0)) as TS1. rewrite Ec in TS1. cbn [fst] in TS1.
    pose proof (do_call_target _ _ _ _ _ _ _ _ Ec) as TG. change (o_pk (c_obj u)) with k in TG.
    assert (KP : In k P) by (apply UP; left; reflexivity).
    destruct (IH snap e1 (acc ++ [(u, ok)]) P q c e' l Hc TS2) as [R1 [R2 [R3 [R4 R5]]]].
    + intros x Hx. apply UP. right. exact Hx.
    + replace (map fst (acc ++ [(u, ok)]) ++ rest) with (map fst acc ++ u :: rest); [exact ND|].
      rewrite (map_app fst). cbn [map fst]. rewrite <- app_assoc. reflexivity.
    + apply (tinv_target_other _ _ _ _ (e_target e)).
      * intros k' Hk'. rewrite TG. apply apply_op_other. intro X. apply Hk'. rewrite X. exact KP.
      * apply (tinv_tstep (e_tab e)); assumption.
    + apply (del_items_tstep _ _ _ _ TS1 Hc' DI).
    + intros x Hx Hok. apply in_app_or in Hx. destruct Hx as [Hx|[Hx|[]]].
      * rewrite TG, apply_op_other; [apply RA; assumption|].
        intro X. rewrite (map_app ch_pk) in ND. cbn [map] in ND. apply NoDup_remove_2 in ND. apply ND.
        apply in_or_app. left. fold k. rewrite <- X. apply in_map. apply (in_map fst) in Hx. exact Hx.
      * subst x. cbn [fst snd] in *. subst ok. fold k. rewrite TG. unfold apply_op. cbn. apply aget_aset_same.
    + exact H.
    + split; [exact R1|]. split; [exact R2|]. split; [exact R3|]. split; [exact R4|].
      rewrite R5, map_app. cbn [map fst]. rewrite <- app_assoc. reflexivity.
Qed.

Lemma nodup_app_intro : forall (l1 l2 : list N), NoDup l1 -> NoDup l2 -> (forall x, In x l1 -> ~ In x l2) -> NoDup (l1 ++ l2).
Proof.
  induction l1 as [|a r IH]; intros l2 N1 N2 D; cbn [app]; [exact N2|].
  inversion N1 as [|x xs Hx Hr]; subst. constructor.
  - intro H. apply in_app_or in H. destruct H as [H|H]; [contradiction|]. apply (D a (or_introl eq_refl) H).
  - apply IH; [exact Hr|exact N2|]. intros x Hx'. apply D. right. exact Hx'.
Qed.

Lemma find_none_no_item : forall q k, find_item k (q_items q) = None -> no_item q k.
Proof.
  intros q k H it Hi Hk. induction (q_items q) as [|i r IH]; [destruct Hi|].
  cbn [find_item] in H. destruct (ri_pk i =? k) eqn:E; [discriminate|]. destruct Hi as [Hi|Hi]; [subst i; apply N.eqb_neq in E; congruence|apply IH; assumption].
Qed.

Lemma no_item_find_none : forall q k, no_item q k -> find_item k (q_items q) = None.
Proof.
  intros q k H. destruct (find_item k (q_items q)) as [it|] eqn:E; [|reflexivity].
  destruct (find_item_in _ _ _ E) as [A B]. exfalso. apply (H it A B).
Qed.

(* the change phase of a round, either mode *)
Theorem phase1_target : forall cf snap c0 chs e q e1 q1 res1 nrec1 lastrev1,
  phase_inv (Dlog e) snap e q [] (curs c0 0) chs -> p1inv snap e q [] (curs c0 0) ->
  curs c0 lastrev1 <= t_rev snap ->
  phase1 cf snap chs e q = (e1, q1, res1, nrec1, lastrev1) ->
  p1inv snap e1 q1 res1 (curs c0 lastrev1).
Proof.
  intros cf snap c0 chs e q e1 q1 res1 nrec1 lastrev1 PH G Hcur H. unfold phase1 in H. destruct (cf_batch cf).
  2:{ apply (single_target _ _ _ c0 _ _ _ _ _ _ _ _ _ _ PH G H). }
  destruct (batch_collect (cf_rs cf) chs q [] [] 0 0) as [[[[qa dels] upds] nrec] lastrev] eqn:HC.
  destruct (batch_deletes snap dels e qa) as [e2 q2] eqn:HD.
  destruct (batch_update_calls snap upds e2 []) as [e3 l] eqn:HU.
  destruct (batch_results l q2 []) as [q4 res] eqn:HR.
  injection H as H1 H2 H3 H4 H5. subst e1 q1 res1 nrec1 lastrev1.
  pose proof PH as [I1 I2 I3 I4 I5 I6 I7 I8 I9 I10 I11]. destruct G as [TS T RT DI NOI SN].
  assert (B0 : binv (Dlog e) snap e q [] [] (curs c0 0) chs).
  { constructor.
    - apply (phase_inv_D_mono (Dlog e)); [intros p r X; left; exact X|exact PH].
    - intros c [].
    - constructor.
    - intros d [].
    - intros d ch [].
    - intros d []. }
  destruct (batch_collect_inv _ _ _ _ _ _ _ _ _ _ _ _ _ _ _ _ B0 HC) as [chs' [B1 B2 B3 B4 B5 B6]].
  destruct (batch_collect_target chs (cf_rs cf) snap (e_tab e) c0 q [] [] 0 0 qa dels upds nrec lastrev (e_target e) I2 I3 I4 T DI HC) as [Ta [Da [Dl [Up Qa]]]].
  set (cur1 := curs c0 lastrev) in *.
  assert (SD : forall d, In d dels -> slot_of snap (ch_pk d) = Some (Dead (c_obj d) (c_rev d))).
  { intros d Hd. destruct (Dl d Hd) as [[]|[X1 X2]]. destruct I4 as [_ [_ [S3 _]]]. destruct (S3 d X1) as [sl [Y1 Y2]].
    rewrite Y1. f_equal. apply slot_change_dead; assumption. }
  assert (NDu : NoDup (map ch_pk upds)).
  { destruct B1 as [_ _ _ _ _ _ _ X _ _ _]. rewrite res_pks_pend in X. exact X. }
  assert (ND : NoDup (map ch_pk (dels ++ upds))).
  { rewrite map_app. apply nodup_app_intro; [exact B3|exact NDu|].
    intros x Hx Hx'. apply in_map_iff in Hx. destruct Hx as [d [X1 X2]]. apply (B4 d X2). rewrite res_pks_pend, X1. exact Hx'. }
  assert (NIa : forall x, In x (dels ++ upds) -> no_item qa (ch_pk x)) by (intros x Hx; apply find_none_no_item; apply B2; exact Hx).
  destruct (batch_deletes_target dels snap upds e qa cur1 e2 q2 Hcur TS SD ND Ta Da NIa HD) as [TS2 [T2 [D2 NI2]]].
  destruct (batch_update_calls_target upds snap e2 [] (map ch_pk upds) q2 cur1 e3 l Hcur TS2) as [TS3 [T3 [D3 [RA3 M3]]]];
    [intros u Hu; apply in_map; exact Hu|exact NDu|exact T2|exact D2|intros x []|exact HU|].
  cbn [map app] in M3.
  rewrite batch_results_spec in HR.
  2:{ intros x Hx. apply no_item_find_none. apply NI2. rewrite <- M3. apply in_map. exact Hx. }
  injection HR as H1 H2. subst q4 res. cbn [app].
  assert (PK : res_pks (map mk_res l) = map ch_pk upds).
  { rewrite <- M3. unfold res_pks. rewrite !map_map. reflexivity. }
  constructor.
  - exact TS3.
  - rewrite PK. exact T3.
  - intros r Hr Hok. apply in_map_iff in Hr. destruct Hr as [x [X1 X2]]. subst r. cbn [mk_res r_obj r_ok] in *. apply (RA3 x X2 Hok).
  - exact D3.
  - intros r Hr. apply in_map_iff in Hr. destruct Hr as [x [X1 X2]]. subst r. cbn [mk_res r_obj]. apply NI2. rewrite <- M3. apply in_map. exact X2.
  - intros r Hr. apply in_map_iff in Hr. destruct Hr as [x [X1 X2]]. subst r. cbn [mk_res r_obj r_rev].
    assert (Hu : In (fst x) upds) by (rewrite <- M3; apply in_map; exact X2).
    destruct (Up _ Hu) as [[]|[Y1 [Y2 Y3]]]. split; [|exact Y3].
    destruct I4 as [_ [_ [S3 _]]]. destruct (S3 _ Y1) as [sl [Z1 Z2]]. fold (ch_pk (fst x)). rewrite Z1. f_equal. apply slot_change_live; assumption.
Qed.

(* ------------------------------------------------------------------ the status commit *)
Record cinv (t : table) (c : N) (res : list opres) (q : retries) (tg : list (N * N)) : Prop := {
  ci_t : tinv t c (res_pks res) q tg;
  ci_rt : res_target res tg;
  ci_good : res_good t c res;
  ci_del : del_items t c q;
  ci_rd : res_del res q;
  ci_okc : okclear res q
}.

Lemma good_ext : forall t t' c r, slot_of t' (o_pk (r_obj r)) = slot_of t (o_pk (r_obj r)) -> good t c r -> good t' c r.
Proof.
  intros t t' c r H [X|[cur [rv [A B]]]]; [left; apply (work_ahead_ext t); assumption|right].
  exists cur, rv. rewrite H. split; assumption.
Qed.

Lemma dead_at_ext : forall t t' k r, slot_of t' k = slot_of t k -> dead_at t k r -> dead_at t' k r.
Proof. intros t t' k r H [o A]. exists o. rewrite H. exact A. Qed.

Lemma commit_one_target : forall f c now t q r rest t1 q1 tg, uniq q -> c <= t_rev t ->
  NoDup (res_pks (r :: rest)) -> sinv f t q -> res_ok f t r ->
  cinv t c (r :: rest) q tg -> commit_one true true now (t, q) r = (t1, q1) -> cinv t1 c rest q1 tg.
Proof.
  intros f c now t q r rest t1 q1 tg U Hc ND SI RO [T RT G DI RD OKC] H.
  pose proof SI as [Wt _]. pose proof (twf_keyed _ Wt) as K.
  destruct (commit_one_spec _ _ _ _ _ _ _ _ K H) as [Ho [Hcs Hq]].
  pose proof (queued_pk t r K) as Qk.
  set (pk := o_pk (r_obj r)) in *.
  cbn [res_pks map] in ND. fold pk in ND. inversion ND as [|x xs Hx Hr]; subst x xs.
  assert (NotRest : forall r', In r' rest -> o_pk (r_obj r') <> pk).
  { intros r' Hin Heq. apply Hx. rewrite <- Heq. apply (in_map (fun r => o_pk (r_obj r))). exact Hin. }
  assert (QO : forall it, In it (q_items q) -> ri_pk it <> pk -> In it (q_items q1)).
  { intros it Hi Hne. rewrite Hq. destruct (negb (r_ok r) && wrote t t1); [apply in_add_other; [assumption|rewrite Qk; assumption]|exact Hi]. }
  assert (QI : forall it, In it (q_items q1) -> In it (q_items q) \/ (ri_pk it = pk /\ ri_del it = false)).
  { intros it Hi. rewrite Hq in Hi. destruct (negb (r_ok r) && wrote t t1); [|left; exact Hi].
    apply (in_add_items _ _ _ _ _ _ _ U) in Hi. destruct Hi as [[I1 [_ [_ [I4 _]]]]|[I1 _]]; [right|left; exact I1].
    split; [unfold ri_pk; rewrite I1; exact Qk|exact I4]. }
  constructor.
  - (* target = table *)
    intros k sl A B C D. destruct (N.eq_dec k pk) as [E|E].
    2:{ rewrite (Ho k E) in A. apply (T k sl A).
        - intro X. apply B. apply (work_ahead_ext t); [apply Ho; exact E|exact X].
        - intros it Hi Hk. apply (C it); [apply QO; [exact Hi|congruence]|exact Hk].
        - cbn [res_pks map]. intros [X|X]; [apply E; symmetry; exact X|exact (D X)]. }
    subst k. destruct Hcs as [[A1 [B1 C1]]|[[cur [A1 [B1 C1]]]|[cur [rv0 [A1 [A2 [A3 [B1 C1]]]]]]]].
    + exfalso. destruct (G r (or_introl eq_refl)) as [X|[cur [rv [X1 X2]]]].
      * apply B. apply (work_ahead_ext t); [exact A1|exact X].
      * fold pk in X1. apply t_live_slot in X1. destruct (C1 cur rv X1) as [Y1 Y2].
        assert (F : fallback_ok true cur r = true).
        { apply fallback_ok_spec. destruct X2 as [[X2 X3]|[[X2 X3]|[X2 X3]]]; [congruence|left; split; assumption|right; repeat split; assumption]. }
        congruence.
    + rewrite B1 in A. injection A as A. subst sl. cbn [pay with_status o_ver].
      destruct (r_ok r) eqn:Eok; [apply (RT r (or_introl eq_refl) Eok)|].
      exfalso. assert (Wr : wrote t t1 = true) by (unfold wrote; rewrite C1; apply N.eqb_refl).
      rewrite Wr in Hq. cbn [negb andb] in Hq. destruct (add_has_item q (queued t r) (t_rev t1) (r_orig r) false now) as [it [Y1 Y2]].
      rewrite <- Hq in Y1. rewrite Qk in Y2. apply (C it Y1 Y2).
    + rewrite B1 in A. injection A as A. subst sl. cbn [pay with_status o_ver].
      destruct (r_ok r) eqn:Eok.
      * rewrite (fallback_same_ver f t q true r cur rv0 SI RO A1 A3). apply (RT r (or_introl eq_refl) Eok).
      * exfalso. assert (Wr : wrote t t1 = true) by (unfold wrote; rewrite C1; apply N.eqb_refl).
        rewrite Wr in Hq. cbn [negb andb] in Hq. destruct (add_has_item q (queued t r) (t_rev t1) (r_orig r) false now) as [it [Y1 Y2]].
        rewrite <- Hq in Y1. rewrite Qk in Y2. apply (C it Y1 Y2).
  - intros r' Hr' Hok. apply (RT r' (or_intror Hr') Hok).
  - intros r' Hr'. apply (good_ext t); [apply Ho; apply NotRest; exact Hr'|apply G; right; exact Hr'].
  - intros it Hi Hd. destruct (QI it Hi) as [X|[_ X]]; [|congruence].
    assert (Hne : ri_pk it <> pk).
    { intro E. pose proof (RD r it (or_introl eq_refl) X E). congruence. }
    destruct (DI it X Hd) as [Y|Y]; [left; apply (work_ahead_ext t); [apply Ho; exact Hne|exact Y]|right; apply (dead_at_ext t); [apply Ho; exact Hne|exact Y]].
  - intros r' it Hr' Hi Hk. destruct (QI it Hi) as [X|[X1 X2]]; [apply (RD r' it (or_intror Hr') X Hk)|exact X2].
  - intros r' Hr' Hok it Hi. destruct (QI it Hi) as [X|[X1 _]]; [apply (OKC r' (or_intror Hr') Hok it X)|].
    rewrite X1. intro E. apply (NotRest r' Hr'). symmetry. exact E.
Qed.

Theorem commit_status_target : forall now res f c t q t' q' tg, uniq q -> c <= t_rev t ->
  NoDup (res_pks res) -> sinv f t q -> (forall r, In r res -> res_ok f t r) ->
  cinv t c res q tg -> commit_status_gen true true now t q res = (t', q') -> cinv t' c [] q' tg.
Proof.
  intros now res. unfold commit_status_gen. induction res as [|r rest IH]; intros f c t q t' q' tg U Hc ND SI RO CI H.
  - cbn in H. injection H as H1 H2. subst. exact CI.
  - cbn [fold_left] in H. destruct (commit_one true true now (t, q) r) as [t1 q1] eqn:E1.
    destruct (commit_one_sinv _ _ _ _ _ _ _ _ _ SI (RO r (or_introl eq_refl)) E1) as [f1 [X1 [S1 [M1 L1]]]].
    pose proof (commit_one_target f c now t q r rest t1 q1 tg U Hc ND SI (RO r (or_introl eq_refl)) CI E1) as CI1.
    pose proof ND as ND'. cbn [res_pks map] in ND'. inversion ND' as [|x xs Hx Hrest]; subst.
    apply (IH f1 c t1 q1 t' q' tg); try assumption.
    + destruct S1 as [_ [X _]]. exact X.
    + lia.
    + intros r2 Hin. apply (res_ok_frame f t); [exact X1| |exact M1|apply RO; right; exact Hin].
      apply L1. intro Heq. apply Hx. rewrite <- Heq. apply (in_map (fun r => o_pk (r_obj r))). exact Hin.
Qed.

(* ------------------------------------------------------------------ the retry phase *)
Lemma in_put_item_self : forall it l, In it (put_item it l).
Proof.
  intros it l. induction l as [|i r IH]; cbn [put_item]; [left; reflexivity|].
  destruct (ri_pk i =? ri_pk it); [left; reflexivity|right; exact IH].
Qed.

Lemma pop_keeps_keys : forall q it j, r_top q = Some it -> In j (q_items q) -> exists j', In j' (q_items (r_pop q)) /\ ri_pk j' = ri_pk j.
Proof.
  intros q it j Ht Hj. rewrite pop_items. unfold r_top in Ht. rewrite Ht.
  destruct (N.eq_dec (ri_pk j) (ri_pk it)) as [E|E].
  - exists (set_inq false it). split; [apply in_put_item_self|symmetry; exact E].
  - exists j. split; [apply in_put_item_other; [exact Hj|exact E]|reflexivity].
Qed.

Lemma retry_step_target : forall e snap q res c it e' q' res',
  retry_inv e q res c -> items_inv (e_tab e) c res q -> cinv (e_tab e) c res q (e_target e) -> r_top q = Some it ->
  process_single e snap false (r_pop q) res (ri_obj it) (ri_rev it) (ri_orig it) (ri_del it) = (e', q', res') ->
  okclear res' q' -> cinv (e_tab e') c res' q' (e_target e').
Proof.
  intros e snap q res c it e' q' res' [I1 I2 I3 I4 I5 I6 I7 I8] II [T RT G DI RD OKC] Ht H OKC'.
  assert (Hin : In it (q_items q)) by (destruct (top_of_spec _ _ Ht) as [A _]; exact A).
  assert (Hq : ri_inq it = true) by (destruct (top_of_spec _ _ Ht) as [_ [A _]]; exact A).
  assert (Hf : find_item (ri_pk it) (q_items q) = Some it) by (apply find_item_uniq; assumption).
  assert (Hnew : ~ In (ri_pk it) (res_pks res)).
  { intro X. rewrite (I7 _ _ X Hf) in Hq. discriminate. }
  set (k := ri_pk it) in *.
  assert (Knew : forall r', In r' res -> o_pk (r_obj r') <> k).
  { intros r' Hr' X. apply Hnew. rewrite <- X. unfold res_pks. apply (in_map (fun r => o_pk (r_obj r))). exact Hr'. }
  assert (PopU : forall j, In j (q_items (r_pop q)) -> j = set_inq false it \/ (In j (q_items q) /\ ri_pk j <> k)).
  { intros j Hj. apply (in_pop_items_uniq _ _ _ I3 Ht Hj). }
  assert (T0 : tinv (e_tab e) c (k :: res_pks res) (r_pop q) (e_target e)).
  { apply (tinv_q_change _ _ _ q).
    - intros k' _ N j Hj Hk. destruct (pop_keeps_keys q it j Ht Hj) as [j' [X1 X2]]. apply (N j' X1). congruence.
    - apply (tinv_P_mono _ _ (res_pks res)); [intros x Hx; right; exact Hx|exact T]. }
  pose proof (twf_keyed _ I1) as K0.
  unfold process_single in H. destruct (ri_del it) eqn:Hd.
  - destruct (do_call e snap false 1 (ri_obj it) (ri_rev it)) as [e1 ok] eqn:Ec.
    pose proof (do_call_tstep (e_tab e) e snap false 1 (ri_obj it) (ri_rev it) (tstep_refl _ K0)) as TS1. rewrite Ec in TS1. cbn [fst] in TS1.
    pose proof (do_call_target _ _ _ _ _ _ _ _ Ec) as TG. change (o_pk (ri_obj it)) with k in TG.
    assert (T2 : tinv (e_tab e1) c (k :: res_pks res) (r_pop q) (e_target e1)).
    { apply (tinv_target_other _ _ _ _ (e_target e)).
      - intros k' Hk'. rewrite TG. apply apply_op_other. intro X. apply Hk'. left. symmetry. exact X.
      - apply (tinv_tstep (e_tab e)); assumption. }
    assert (RT2 : res_target res (e_target e1)).
    { intros r' Hr' Hok. rewrite TG, apply_op_other by (apply Knew; exact Hr'). apply RT; assumption. }
    pose proof (res_good_tstep _ _ _ _ TS1 I2 G) as G2.
    pose proof (del_items_tstep _ _ _ _ TS1 I2 DI) as D2.
    assert (A0 : work_ahead (e_tab e1) c k \/ dead_at (e_tab e1) k (ri_rev it)) by (apply (D2 it Hin Hd)).
    destruct ok; injection H as H1 H2 H3; subst e' q' res'.
    + constructor; try assumption.
      * intros k' sl A B C D. destruct (N.eq_dec k' k) as [E|E].
        -- subst k'. destruct A0 as [X|[o X]]; [contradiction|]. rewrite X in A. injection A as A. subst sl. cbn [pay].
           rewrite TG. unfold apply_op. cbn. apply aget_adel_same.
        -- apply (T2 k' sl A B); [apply (no_item_clear_other (r_pop q) k); assumption|].
           intros [X|X]; [apply E; symmetry; exact X|exact (D X)].
      * intros j Hj Hdj. apply clear_in in Hj. destruct Hj as [Hj Hne]. destruct (PopU j Hj) as [X|[X _]]; [subst j; exfalso; apply Hne; reflexivity|].
        apply (D2 j X Hdj).
      * intros r' j Hr' Hj Hk. apply clear_in in Hj. destruct Hj as [Hj Hne]. destruct (PopU j Hj) as [X|[X _]]; [subst j; exfalso; apply Hne; reflexivity|].
        apply (RD r' j Hr' X Hk).
    + constructor; try assumption.
      * intros k' sl A B C D. destruct (N.eq_dec k' k) as [E|E].
        -- subst k'. exfalso. destruct (add_has_item (r_pop q) (ri_obj it) (ri_rev it) (ri_orig it) true (e_now e1)) as [j [X1 X2]]. apply (C j X1 X2).
        -- apply (T2 k' sl A B).
           ++ intros j Hj Hk. apply (C j); [|exact Hk]. apply in_add_other; [exact Hj|]. change (o_pk (ri_obj it)) with k. congruence.
           ++ intros [X|X]; [apply E; symmetry; exact X|exact (D X)].
      * intros j Hj Hdj. apply (in_add_items _ _ _ _ _ _ _ (uniq_pop _ I3)) in Hj.
        destruct Hj as [[J1 [J2 _]]|[J1 J2]].
        -- unfold ri_pk. rewrite J1, J2. change (o_pk (ri_obj it)) with k. exact A0.
        -- destruct (PopU j J1) as [X|[X _]]; [subst j; exfalso; apply J2; reflexivity|apply (D2 j X Hdj)].
      * intros r' j Hr' Hj Hk. apply (in_add_items _ _ _ _ _ _ _ (uniq_pop _ I3)) in Hj.
        destruct Hj as [[J1 _]|[J1 J2]].
        -- exfalso. apply (Knew r' Hr'). rewrite <- Hk. unfold ri_pk. rewrite J1. reflexivity.
        -- destruct (PopU j J1) as [X|[X _]]; [subst j; exfalso; apply J2; reflexivity|apply (RD r' j Hr' X Hk)].
  - destruct (do_call e snap false 0 (ri_obj it) (ri_rev it)) as [e1 ok] eqn:Ec.
    pose proof (do_call_tstep (e_tab e) e snap false 0 (ri_obj it) (ri_rev it) (tstep_refl _ K0)) as TS1. rewrite Ec in TS1. cbn [fst] in TS1.
    pose proof (do_call_target _ _ _ _ _ _ _ _ Ec) as TG. change (o_pk (ri_obj it)) with k in TG.
    assert (T2 : tinv (e_tab e1) c (k :: res_pks res) (r_pop q) (e_target e1)).
    { apply (tinv_target_other _ _ _ _ (e_target e)).
      - intros k' Hk'. rewrite TG. apply apply_op_other. intro X. apply Hk'. left. symmetry. exact X.
      - apply (tinv_tstep (e_tab e)); assumption. }
    pose proof (res_good_tstep _ _ _ _ TS1 I2 G) as G2.
    pose proof (del_items_tstep _ _ _ _ TS1 I2 DI) as D2.
    injection H as H1 H2 H3. subst e' q' res'.
    set (r := mkRes (ri_obj it) (ri_rev it) (ri_orig it) (o_sid (ri_obj it)) ok) in *.
    assert (Sub1 : forall j, In j (q_items (if ok then r_clear (r_pop q) (o_pk (ri_obj it)) else r_pop q)) -> In j (q_items (r_pop q))).
    { intros j Hj. destruct ok; [apply clear_in in Hj; apply Hj|exact Hj]. }
    constructor.
    + rewrite res_pks_snoc. cbn [r r_obj]. change (o_pk (ri_obj it)) with k.
      apply (tinv_q_change _ _ _ (r_pop q)).
      * intros k' Hk' N j Hj Hk. assert (E : k' <> k) by (intro X; apply Hk'; apply in_or_app; right; left; symmetry; exact X).
        apply (N j); [|exact Hk]. destruct ok; [|exact Hj]. rewrite clear_items. apply in_remove_item_intro; [exact Hj|]. change (o_pk (ri_obj it)) with k. congruence.
      * apply (tinv_P_mono _ _ (k :: res_pks res)); [|exact T2].
        intros x [X|X]; apply in_or_app; [right; left; exact X|left; exact X].
    + intros r' Hr' Hok. apply in_app_or in Hr'. destruct Hr' as [Hr'|[Hr'|[]]].
      * rewrite TG, apply_op_other by (apply Knew; exact Hr'). apply RT; assumption.
      * subst r'. cbn [r r_obj r_ok] in *. subst ok. change (o_pk (ri_obj it)) with k. rewrite TG. unfold apply_op. cbn. apply aget_aset_same.
    + intros r' Hr'. apply in_app_or in Hr'. destruct Hr' as [Hr'|[Hr'|[]]]; [apply G2; exact Hr'|]. subst r'.
      destruct (II it Hin) as [A|[[_ A]|[[A1 [A2 [A3 A4]]]|[A1 _]]]].
      * left. cbn [r r_obj]. apply (tstep_work_ahead _ _ _ _ TS1 I2 A).
      * congruence.
      * destruct (tstep_err_live _ _ c _ TS1 I2 A4) as [[o [rv [X1 X2]]]|X]; [right|left; exact X].
        exists o, rv. cbn [r r_obj r_rev r_orig]. split; [exact X1|]. right. right. split; [exact X2|exact A3].
      * congruence.
    + intros j Hj Hdj. apply Sub1 in Hj. destruct (PopU j Hj) as [X|[X _]]; [subst j; cbn in Hdj; congruence|apply (D2 j X Hdj)].
    + intros r' j Hr' Hj Hk. apply Sub1 in Hj. apply in_app_or in Hr'. destruct Hr' as [Hr'|[Hr'|[]]].
      * destruct (PopU j Hj) as [X|[X _]]; [subst j; exfalso; apply (Knew r' Hr'); symmetry; exact Hk|apply (RD r' j Hr' X Hk)].
      * subst r'. cbn [r r_obj] in Hk. destruct (PopU j Hj) as [X|[_ X]]; [subst j; exact Hd|exfalso; apply X; exact Hk].
    + exact OKC'.
Qed.

Theorem process_retries_target : forall fuel rs snap e q res nrec c e' q' res' nrec',
  retry_inv e q res c -> items_inv (e_tab e) c res q -> cinv (e_tab e) c res q (e_target e) ->
  process_retries fuel rs snap e q res nrec = (e', q', res', nrec') ->
  cinv (e_tab e') c res' q' (e_target e').
Proof.
  induction fuel as [|f IH]; intros rs snap e q res nrec c e' q' res' nrec' INV I CI H; cbn [process_retries] in H.
  - injection H as H1 H2 H3 H4. subst. exact CI.
  - destruct (nrec <? rs); [|injection H as H1 H2 H3 H4; subst; exact CI].
    destruct (r_top q) as [it|] eqn:Et; [|injection H as H1 H2 H3 H4; subst; exact CI].
    destruct (e_now e <? ri_at it); [injection H as H1 H2 H3 H4; subst; exact CI|].
    destruct (process_single e snap false (r_pop q) res (ri_obj it) (ri_rev it) (ri_orig it) (ri_del it)) as [[e1 q1] res1] eqn:Ep.
    destruct (retry_step_items e snap q res c it e1 q1 res1 INV I (ci_okc _ _ _ _ _ CI) Et Ep) as [I1 O1].
    pose proof (retry_step_target e snap q res c it e1 q1 res1 INV I CI Et Ep O1) as CI1.
    apply (IH rs snap e1 q1 res1 (nrec + 1) c e' q' res' nrec'); [|exact I1|exact CI1|exact H].
    apply (retry_step e snap q res c it e1 q1 res1 INV Et Ep).
Qed.

(* ------------------------------------------------------------------ the whole round *)
Lemma good_of_snap : forall snap t c r, tstep snap t -> c <= t_rev snap ->
  slot_of snap (o_pk (r_obj r)) = Some (Live (r_obj r) (r_rev r)) -> is_pending (r_obj r) = true -> good t c r.
Proof.
  intros snap t c r TS Hc Hs Hp. destruct (tstep_act_rel snap t _ _ TS Hs Hp) as [X|X].
  - right. exists (r_obj r), (r_rev r). split; [exact X|left; split; [exact Hp|reflexivity]].
  - left. apply (work_ahead_lower _ (t_rev snap)); assumption.
Qed.

(* what round_decompose does not say: the target and the call log after the (possible) Prune call *)
Lemma round_decompose_env : forall cf e s e' s' e3, round cf e s = (e', s') ->
  (forall e1 q1 res1 nrec1 lastrev1 t1 q2 e3' q3 res2 nrec3,
     phase1 cf (e_tab e) (changes_of (e_tab e) (k_cursor s)) e (k_ret s) = (e1, q1, res1, nrec1, lastrev1) ->
     commit_status_gen true true (e_now e1) (e_tab e1) q1 res1 = (t1, q2) ->
     process_retries (N.to_nat (cf_rs cf)) (cf_rs cf) (e_tab e) (set_tab e1 t1) q2 [] nrec1 = (e3', q3, res2, nrec3) -> e3' = e3) ->
  e_target e' = e_target e3 /\
  (e_calls e' = e_calls e3 \/ exists c, e_calls e' = e_calls e3 ++ [c] /\ cl_op c = 4 /\ cl_ok c = true).
Proof.
  intros cf e s e' s' e3 H Hsame. unfold round, round_gen in H. cbv zeta in H.
  change (if cf_batch cf
          then let '(q, dels, upds, nrec, lastrev) := batch_collect (cf_rs cf) (changes_of (e_tab e) (k_cursor s)) (k_ret s) [] [] 0 0 in
               let (e0, q0) := batch_deletes (e_tab e) dels e q in
               let (e1, l) := batch_update_calls (e_tab e) upds e0 [] in
               let (q1, res) := batch_results l q0 [] in (e1, q1, res, nrec, lastrev)
          else single (cf_rs cf) (e_tab e) (changes_of (e_tab e) (k_cursor s)) e (k_ret s) [] 0 0)
    with (phase1 cf (e_tab e) (changes_of (e_tab e) (k_cursor s)) e (k_ret s)) in H.
  destruct (phase1 cf (e_tab e) (changes_of (e_tab e) (k_cursor s)) e (k_ret s)) as [[[[e1 q1] res1] nrec1] lastrev1] eqn:E1.
  destruct (commit_status_gen true true (e_now e1) (e_tab e1) q1 res1) as [t1 q2] eqn:C1.
  destruct (process_retries (N.to_nat (cf_rs cf)) (cf_rs cf) (e_tab e) (set_tab e1 t1) q2 [] nrec1) as [[[e3' q3] res2] nrec3] eqn:R1.
  destruct (commit_status_gen true true (e_now e3') (e_tab e3') q3 res2) as [t2 q4] eqn:C2.
  pose proof (Hsame _ _ _ _ _ _ _ _ _ _ _ eq_refl C1 R1) as X. subst e3'.
  match type of H with (if ?b then _ else _) = _ => destruct b end; injection H as H1 H2; subst e' s'; cbn [e_target e_calls set_tab].
  - split; [reflexivity|]. right. eexists. split; [reflexivity|]. split; reflexivity.
  - split; [reflexivity|]. left. reflexivity.
Qed.

(* the state invariant at round boundaries *)
Definition ginv (e : env) (s : rstate) : Prop :=
  tinv (e_tab e) (k_cursor s) [] (k_ret s) (e_target e) /\ del_items (e_tab e) (k_cursor s) (k_ret s).

Theorem round_keeps_target : forall cf e s e' s', c15_inv e s ->
  items_inv (e_tab e) (k_cursor s) [] (k_ret s) -> ginv e s -> round cf e s = (e', s') -> ginv e' s'.
Proof.
  intros cf e s e' s' [[RI _] [f SI]] II [T0 D0] H.
  pose proof RI as [[W [U P]] [Hc Hcov]].
  destruct (round_decompose _ _ _ _ _ H) as [e1 [q1 [res1 [nrec1 [lastrev1 [t1 [q2 [e3 [q3 [res2 [nrec3 [t2 [q4
    [E1 [C1 [R1 [C2 [Tt [_ [_ [_ [_ [Tc Tq]]]]]]]]]]]]]]]]]]]]]]].
  destruct (round_decompose_env cf e s e' s' e3 H) as [Ttg _].
  { intros e1' q1' res1' nrec1' lastrev1' t1' q2' e3' q3' res2' nrec3' X1 X2 X3.
    rewrite E1 in X1. injection X1 as Y1 Y2 Y3 Y4 Y5. subst e1' q1' res1' nrec1' lastrev1'.
    rewrite C1 in X2. injection X2 as Y1 Y2. subst t1' q2'. rewrite R1 in X3. injection X3 as Y1 Y2 Y3 Y4. symmetry. exact Y1. }
  destruct (round_sinv cf e s f e1 q1 res1 nrec1 lastrev1 t1 q2 e3 q3 res2 nrec3 t2 q4 RI SI E1 C1 R1 C2)
    as [[f1 [S1 [N1 RO1]]] [[f3 [S3 [N3 RO3]]] _]].
  set (snap := e_tab e) in *.
  assert (INV0 : phase_inv (Dlog e) snap e (k_ret s) [] (curs (k_cursor s) 0) (changes_of snap (k_cursor s))).
  { constructor; first [assumption | exact Hc | apply snap_rel_refl | apply changes_stream_ok; exact W
                        | intros ch _ [] | intros r [] | constructor ]. }
  destruct (phase1_inv _ _ _ _ _ _ _ _ _ _ _ INV0 E1) as [[chs' [J1 J2 J3 J4 J5 J6 J7 J8 J9 J10 J11]] LR].
  set (cur1 := curs (k_cursor s) lastrev1) in *.
  assert (SR : t_rev snap <= t_rev (e_tab e1)) by (destruct J3 as [X _]; exact X).
  destruct (phase1_items cf snap (k_cursor s) _ e (k_ret s) e1 q1 res1 nrec1 lastrev1 INV0 II J5 E1) as [I1 O1].
  (* phase 1 *)
  assert (G0 : p1inv snap e (k_ret s) [] (curs (k_cursor s) 0)).
  { constructor; [apply tstep_refl; apply twf_keyed; exact W|exact T0|intros r []|exact D0|intros r []|intros r []]. }
  pose proof (phase1_target cf snap (k_cursor s) _ e (k_ret s) e1 q1 res1 nrec1 lastrev1 INV0 G0 J5 E1) as [G1a G1b G1c G1d G1e G1f].
  fold cur1 in G1b, G1d.
  assert (CI1 : cinv (e_tab e1) cur1 res1 q1 (e_target e1)).
  { constructor; try assumption.
    - intros r Hr. destruct (G1f r Hr) as [X1 X2]. apply (good_of_snap snap); assumption.
    - intros r it Hr Hi Hk. exfalso. apply (G1e r Hr it Hi Hk). }
  assert (Hres1 : forall r, In r res1 -> r_orig r <= t_rev (e_tab e1) /\ r_rev r <= t_rev (e_tab e1)).
  { intros r Hr. destruct (J10 r Hr). split; lia. }
  assert (Hcur1 : cur1 <= t_rev (e_tab e1)) by (fold cur1 in J5; lia).
  pose proof (commit_status_target (e_now e1) res1 f1 cur1 (e_tab e1) q1 t1 q2 (e_target e1) J6 Hcur1 J8 S1 RO1 CI1 C1) as CI2.
  (* the carriers of the retry phase, as in RoundInv.round_keeps_inv *)
  assert (I2 : items_inv t1 cur1 [] q2).
  { apply (commit_status_items cur1 (e_now e1) res1 (e_tab e1) q1 t1 q2 (twf_keyed _ J1) J6); try assumption.
    - intros r Hr. apply Hres1. exact Hr.
    - apply (items_ok_res_mono _ _ []); [intros r []|exact I1]. }
  destruct (commit_status_side _ _ _ _ _ _ _ _ (conj J1 (conj J6 J7)) Hres1 C1) as [[W1 [U1 P1]] M1].
  assert (Cov1 : forall pk, covered (Dlog e1) t1 cur1 [] q2 pk).
  { apply (commit_status_covers (Dlog e1) cur1 (e_now e1) res1 (e_tab e1) q1 t1 q2 (twf_keyed _ J1) J6 J8).
    - intros r Hr. apply Hres1. exact Hr.
    - exact J11.
    - exact C1. }
  assert (RI0 : retry_inv (set_tab e1 t1) q2 [] cur1).
  { constructor; first [assumption | cbn; lia | intros r [] | intros p it [] | intro pk; apply Cov1 | constructor]. }
  pose proof (process_retries_target _ _ _ _ _ _ _ _ _ _ _ _ RI0 I2 CI2 R1) as CI3.
  pose proof (process_retries_inv _ _ _ _ _ _ _ _ _ _ _ _ RI0 R1) as [K1 K2 K3 K4 K5 K6 K7 K8].
  pose proof (commit_status_target (e_now e3) res2 f3 cur1 (e_tab e3) q3 t2 q4 (e_target e3) K3 K2 K5 S3 RO3 CI3 C2) as [X1 _ _ X4 _ _].
  unfold ginv. rewrite Tt, Tc, Tq, Ttg. split; assumption.
Qed.

(* ------------------------------------------------------------------ runs *)
Lemma estep_keeps_target : forall st st', estep st st' -> full_inv (fst st) (snd st) ->
  ginv (fst st) (snd st) -> ginv (fst st') (snd st').
Proof.
  intros st st' H. destruct H; cbn [fst snd]; intros [[[W _] [Hc _]] _] G; try exact G.
  (* only the user write remains *)
  destruct G as [T D].
  pose proof (do_write_tstep (e_tab e) e kind k (tstep_refl _ (twf_keyed _ W))) as TS.
  destruct (do_write_frame e kind k) as [_ [_ [_ [_ [_ [_ F]]]]]].
  split; [rewrite F; apply (tinv_tstep (e_tab e)); assumption|apply (del_items_tstep (e_tab e)); assumption].
Qed.

Theorem reach_target : forall cf st, reach cf st -> ginv (fst st) (snd st).
Proof.
  intros cf st H. induction H.
  - split; [intros k sl A; discriminate|intros it []].
  - apply (estep_keeps_target st st' H0); [apply (nothing_forgotten cf st H)|exact IHreach].
  - destruct (round cf e s) as [e' s'] eqn:E. cbn [fst snd] in *.
    apply (round_keeps_target cf e s e' s' (c15_inv_reach cf (e, s) H) (reach_items_inv cf (e, s) H) IHreach E).
Qed.

(* TARGET = TABLE: in every reachable quiescent state the simulated target holds, for every key of the table,
   exactly the payload version of the live object, and no entry for a deleted key *)
Theorem target_equals_table : forall cf st, reach cf st -> quiescent (fst st) (snd st) ->
  forall k sl, slot_of (e_tab (fst st)) k = Some sl -> aget k (e_target (fst st)) = pay sl.
Proof.
  intros cf [e s] H [Q1 Q2] k sl Hs. cbn [fst snd] in *.
  destruct (reach_target cf (e, s) H) as [T _]. cbn [fst snd] in T.
  pose proof (full_inv_twf _ _ (reach_full_inv cf e s H)) as W.
  apply (T k sl Hs).
  - intros [sl' [A [B _]]]. pose proof (no_changes_all_behind _ _ W Q2 k sl' A). lia.
  - intros it Hi. rewrite Q1 in Hi. destruct Hi.
  - intros [].
Qed.

Corollary target_equals_payload : forall cf st, reach cf st -> quiescent (fst st) (snd st) ->
  forall k, slot_of (e_tab (fst st)) k <> None -> aget k (e_target (fst st)) = payload (e_tab (fst st)) k.
Proof.
  intros cf st H Q k Hk. unfold payload. destruct (slot_of (e_tab (fst st)) k) as [sl|] eqn:Hs; [|congruence].
  rewrite (target_equals_table cf st H Q k sl Hs). destruct sl; reflexivity.
Qed.

(* ------------------------------------------------------------------ the target is the call log replayed *)
Definition replay_call (tg : list (N * N)) (c : call) : list (N * N) :=
  if cl_ok c then
    (if is_upd_op (cl_op c) then aset (cl_pk c) (cl_ver c) tg
     else if is_del_op (cl_op c) then adel (cl_pk c) tg else tg)
  else tg.
Definition replay (l : list call) : list (N * N) := fold_left replay_call l [].
Definition logged (e : env) : Prop := e_target e = replay (e_calls e).

Lemma do_call_log_full : forall e snap fresh op o rev e' ok, do_call e snap fresh op o rev = (e', ok) ->
  exists c, e_calls e' = e_calls e ++ [c] /\ cl_op c = op /\ cl_pk c = o_pk o /\ cl_ver c = o_ver o /\ cl_ok c = ok.
Proof.
  intros e snap fresh op o rev e' ok H. unfold do_call in H.
  destruct fresh; injection H as H1 H2; subst e'; cbn [e_calls]; rewrite ?run_hooks_calls; cbn [e_calls];
    eexists; (split; [reflexivity|]); cbn [cl_op cl_pk cl_ver cl_ok]; repeat split; exact H2.
Qed.

Lemma do_call_logged : forall e snap fresh op o rev e' ok, is_upd_op op || is_del_op op = true -> logged e ->
  do_call e snap fresh op o rev = (e', ok) -> logged e'.
Proof.
  intros e snap fresh op o rev e' ok Hop L H. unfold logged in *.
  destruct (do_call_log_full _ _ _ _ _ _ _ _ H) as [c [LC [C1 [C2 [C3 C4]]]]].
  rewrite (do_call_target _ _ _ _ _ _ _ _ H), LC. unfold replay. rewrite fold_left_app. cbn [fold_left].
  fold (replay (e_calls e)). rewrite <- L. unfold replay_call, apply_op. rewrite C1, C2, C3, C4.
  destruct ok; [|reflexivity]. destruct (is_upd_op op); [reflexivity|]. cbn [orb] in Hop. rewrite Hop. reflexivity.
Qed.

Lemma process_single_logged : forall e snap fresh q res o rev orig del e' q' res', logged e ->
  process_single e snap fresh q res o rev orig del = (e', q', res') -> logged e'.
Proof.
  intros e snap fresh q res o rev orig del e' q' res' L H. unfold process_single in H. destruct del.
  - destruct (do_call e snap fresh 1 o rev) as [e1 ok] eqn:Ec. pose proof (do_call_logged e snap fresh 1 o rev e1 ok eq_refl L Ec) as L1.
    destruct ok; injection H as H1 H2 H3; subst e'; exact L1.
  - destruct (do_call e snap fresh 0 o rev) as [e1 ok] eqn:Ec. pose proof (do_call_logged e snap fresh 0 o rev e1 ok eq_refl L Ec) as L1.
    injection H as H1 H2 H3; subst e'; exact L1.
Qed.

Lemma single_logged : forall chs rs snap e q res nrec lastrev e' q' res' nrec' lastrev', logged e ->
  single rs snap chs e q res nrec lastrev = (e', q', res', nrec', lastrev') -> logged e'.
Proof.
  induction chs as [|ch rest IH]; intros rs snap e q res nrec lastrev e' q' res' nrec' lastrev' L H; cbn [single] in H.
  - injection H as H1 H2 H3 H4 H5. subst. exact L.
  - destruct (negb (c_del ch) && negb (is_pending (c_obj ch))); [apply (IH _ _ _ _ _ _ _ _ _ _ _ _ L H)|].
    destruct (process_single e snap true (r_clear q (o_pk (c_obj ch))) res (c_obj ch) (c_rev ch) (c_rev ch) (c_del ch)) as [[e1 q1] res1] eqn:Ep.
    pose proof (process_single_logged _ _ _ _ _ _ _ _ _ _ _ _ L Ep) as L1.
    destruct (rs <=? nrec + 1); [injection H as H1 H2 H3 H4 H5; subst; exact L1|apply (IH _ _ _ _ _ _ _ _ _ _ _ _ L1 H)].
Qed.

Lemma batch_deletes_logged : forall dl snap e q e' q', logged e -> batch_deletes snap dl e q = (e', q') -> logged e'.
Proof.
  induction dl as [|d rest IH]; intros snap e q e' q' L H; cbn [batch_deletes] in H.
  - injection H as H1 H2. subst. exact L.
  - destruct (do_call e snap true 3 (c_obj d) (c_rev d)) as [e1 ok] eqn:Ec.
    apply (IH snap e1 _ e' q' (do_call_logged e snap true 3 (c_obj d) (c_rev d) e1 ok eq_refl L Ec) H).
Qed.

Lemma batch_update_calls_logged : forall upds snap e acc e' l, logged e -> batch_update_calls snap upds e acc = (e', l) -> logged e'.
Proof.
  induction upds as [|u rest IH]; intros snap e acc e' l L H; cbn [batch_update_calls] in H.
  - injection H as H1 H2. subst. exact L.
  - destruct (do_call e snap true 2 (c_obj u) (c_rev u)) as [e1 ok] eqn:Ec.
    apply (IH snap e1 _ e' l (do_call_logged e snap true 2 (c_obj u) (c_rev u) e1 ok eq_refl L Ec) H).
Qed.

Lemma phase1_logged : forall cf snap chs e q e1 q1 res1 nrec1 lastrev1, logged e ->
  phase1 cf snap chs e q = (e1, q1, res1, nrec1, lastrev1) -> logged e1.
Proof.
  intros cf snap chs e q e1 q1 res1 nrec1 lastrev1 L H. unfold phase1 in H. destruct (cf_batch cf).
  - destruct (batch_collect (cf_rs cf) chs q [] [] 0 0) as [[[[qa dels] upds] nrec] lastrev] eqn:HC.
    destruct (batch_deletes snap dels e qa) as [e2 q2] eqn:HD.
    destruct (batch_update_calls snap upds e2 []) as [e3 l] eqn:HU.
    destruct (batch_results l q2 []) as [q4 res] eqn:HR.
    injection H as H1 H2 H3 H4 H5. subst e1.
    apply (batch_update_calls_logged _ _ _ _ _ _ (batch_deletes_logged _ _ _ _ _ _ L HD) HU).
  - apply (single_logged _ _ _ _ _ _ _ _ _ _ _ _ _ L H).
Qed.

Lemma process_retries_logged : forall fuel rs snap e q res nrec e' q' res' nrec', logged e ->
  process_retries fuel rs snap e q res nrec = (e', q', res', nrec') -> logged e'.
Proof.
  induction fuel as [|f IH]; intros rs snap e q res nrec e' q' res' nrec' L H; cbn [process_retries] in H.
  - injection H as H1 H2 H3 H4. subst. exact L.
  - destruct (nrec <? rs); [|injection H as H1 H2 H3 H4; subst; exact L].
    destruct (r_top q) as [it|]; [|injection H as H1 H2 H3 H4; subst; exact L].
    destruct (e_now e <? ri_at it); [injection H as H1 H2 H3 H4; subst; exact L|].
    destruct (process_single e snap false (r_pop q) res (ri_obj it) (ri_rev it) (ri_orig it) (ri_del it)) as [[e1 q1] res1] eqn:Ep.
    apply (IH _ _ _ _ _ _ _ _ _ _ (process_single_logged _ _ _ _ _ _ _ _ _ _ _ _ L Ep) H).
Qed.

Lemma round_logged : forall cf e s e' s', logged e -> round cf e s = (e', s') -> logged e'.
Proof.
  intros cf e s e' s' L H.
  destruct (round_decompose _ _ _ _ _ H) as [e1 [q1 [res1 [nrec1 [lastrev1 [t1 [q2 [e3 [q3 [res2 [nrec3 [t2 [q4
    [E1 [C1 [R1 _]]]]]]]]]]]]]]]].
  destruct (round_decompose_env cf e s e' s' e3 H) as [Ttg Tcl].
  { intros e1' q1' res1' nrec1' lastrev1' t1' q2' e3' q3' res2' nrec3' X1 X2 X3.
    rewrite E1 in X1. injection X1 as Y1 Y2 Y3 Y4 Y5. subst e1' q1' res1' nrec1' lastrev1'.
    rewrite C1 in X2. injection X2 as Y1 Y2. subst t1' q2'. rewrite R1 in X3. injection X3 as Y1 Y2 Y3 Y4. symmetry. exact Y1. }
  pose proof (phase1_logged _ _ _ _ _ _ _ _ _ _ L E1) as L1.
  assert (L1' : logged (set_tab e1 t1)) by exact L1.
  pose proof (process_retries_logged _ _ _ _ _ _ _ _ _ _ _ L1' R1) as L3.
  unfold logged in *. rewrite Ttg, L3. destruct Tcl as [X|[c [X1 [X2 X3]]]]; [rewrite X; reflexivity|].
  rewrite X1. unfold replay. rewrite fold_left_app. cbn [fold_left]. symmetry. unfold replay_call at 1. rewrite X3, X2. reflexivity.
Qed.

Theorem reach_logged : forall cf st, reach cf st -> logged (fst st).
Proof.
  intros cf st H. induction H.
  - reflexivity.
  - destruct H0; cbn [fst snd] in *; try exact IHreach.
    unfold logged in *. destruct (do_write_frame e kind k) as [F1 [_ [_ [_ [_ [_ F2]]]]]]. rewrite F1, F2. exact IHreach.
  - destruct (round cf e s) as [e' s'] eqn:E. apply (round_logged cf e s e' s' IHreach E).
Qed.

(* the last successful Update/Delete (single or batch entry) of a key in the log *)
Definition is_target_op (c : call) (k : N) : bool :=
  cl_ok c && (cl_pk c =? k) && (is_upd_op (cl_op c) || is_del_op (cl_op c)).
Fixpoint last_op (k : N) (l : list call) : option call :=
  match l with
  | [] => None
  | c :: r => match last_op k r with Some c' => Some c' | None => if is_target_op c k then Some c else None end
  end.

Lemma replay_last : forall k l tg0,
  aget k (fold_left replay_call l tg0) =
  match last_op k l with
  | Some c => if is_upd_op (cl_op c) then Some (cl_ver c) else None
  | None => aget k tg0
  end.
Proof.
  intros k l. induction l as [|c r IH]; intro tg0; cbn [fold_left last_op]; [reflexivity|].
  rewrite IH. destruct (last_op k r) as [c'|]; [reflexivity|].
  unfold is_target_op, replay_call. destruct (cl_ok c); cbn [andb]; [|reflexivity].
  destruct (N.eqb_spec (cl_pk c) k) as [E|E]; cbn [andb].
  - subst k. destruct (is_upd_op (cl_op c)) eqn:EU; cbn [orb]; [rewrite EU; apply aget_aset_same|].
    destruct (is_del_op (cl_op c)); [rewrite EU; apply aget_adel_same|reflexivity].
  - destruct (is_upd_op (cl_op c)); [apply aget_aset_other; congruence|].
    destruct (is_del_op (cl_op c)); [apply aget_adel_other; congruence|reflexivity].
Qed.

Lemma last_op_spec : forall k l c, last_op k l = Some c -> In c l /\ is_target_op c k = true.
Proof.
  intros k l. induction l as [|c0 r IH]; intros c H; cbn [last_op] in H; [discriminate|].
  destruct (last_op k r) as [c'|] eqn:E.
  - injection H as H. subst c'. destruct (IH c eq_refl) as [A B]. split; [right; exact A|exact B].
  - destruct (is_target_op c0 k) eqn:E2; [|discriminate]. injection H as H. subst c0. split; [left; reflexivity|exact E2].
Qed.

Lemma last_op_some : forall k l c, In c l -> is_target_op c k = true -> exists c', last_op k l = Some c'.
Proof.
  intros k l. induction l as [|c0 r IH]; intros c Hin Ht; [destruct Hin|]. cbn [last_op].
  destruct Hin as [Hin|Hin].
  - subst c0. destruct (last_op k r) as [c'|]; [exists c'; reflexivity|rewrite Ht; exists c; reflexivity].
  - destruct (IH c Hin Ht) as [c' E]. rewrite E. exists c'. reflexivity.
Qed.

(* TARGET = TABLE, on the call log: in every reachable quiescent state, for every live object the LAST
   successful operation of its key is an Update (or UpdateBatch entry) carrying its current payload version,
   and for every deleted key the last successful operation is a Delete (or DeleteBatch entry) *)
Theorem last_operation_matches_table : forall cf st, reach cf st -> quiescent (fst st) (snd st) ->
  forall k sl, slot_of (e_tab (fst st)) k = Some sl ->
    exists c, last_op k (e_calls (fst st)) = Some c /\ cl_ok c = true /\ cl_pk c = k /\
      match sl with
      | Live o _ => is_upd_op (cl_op c) = true /\ cl_ver c = o_ver o
      | Dead _ _ => is_del_op (cl_op c) = true
      end.
Proof.
  intros cf st H Q k sl Hs.
  pose proof (target_equals_table cf st H Q k sl Hs) as TT.
  rewrite (reach_logged cf st H) in TT. unfold replay in TT. rewrite replay_last in TT. cbn [aget] in TT.
  destruct sl as [o r|o r]; cbn [pay] in TT.
  - destruct (last_op k (e_calls (fst st))) as [c|] eqn:E; [|discriminate].
    destruct (last_op_spec _ _ _ E) as [_ B]. unfold is_target_op in B.
    apply andb_prop in B. destruct B as [B B3]. apply andb_prop in B. destruct B as [B1 B2]. apply N.eqb_eq in B2.
    exists c. split; [reflexivity|]. split; [exact B1|]. split; [exact B2|].
    destruct (is_upd_op (cl_op c)); [split; [reflexivity|congruence]|discriminate].
  - (* the deletion was Delete()d successfully (reconciled), so there is a last operation; it is not an Update *)
    pose proof (converges_partial cf st H Q k (Dead o r) Hs) as [c0 [A [B [C [D F]]]]].
    destruct (last_op_some k (e_calls (fst st)) c0 A) as [c E].
    { unfold is_target_op. rewrite F, C, N.eqb_refl, B. cbn. apply orb_true_r. }
    rewrite E in TT. destruct (last_op_spec _ _ _ E) as [_ X]. unfold is_target_op in X.
    apply andb_prop in X. destruct X as [X X3]. apply andb_prop in X. destruct X as [X1 X2]. apply N.eqb_eq in X2.
    exists c. split; [exact E|]. split; [exact X1|]. split; [exact X2|].
    destruct (is_upd_op (cl_op c)); [discriminate|]. cbn [orb] in X3. exact X3.
Qed.

(* ------------------------------------------------------------------ convergence to target = table *)
Lemma reach_iter : forall cf n st, reach cf st -> reach cf (iter_round cf n st).
Proof.
  intros cf n. induction n as [|n IH]; intros st H; cbn [iter_round]; [exact H|].
  apply IH. destruct st as [e s]. cbn [fst snd]. apply reach_round. exact H.
Qed.

(* the whole property C14 for runs: from any reachable state, once operations stop failing (e_foff), no user
   write is pending (hooks_inert) and the queued retries are due, after n <= ceil((pending + items)/roundSize) + 1
   rounds — and for ever after — the reconciler is quiescent, every live object is Done, every deletion was
   Delete()d, and the target equals the table *)
Theorem converges_to_target : forall cf e s, reach cf (e, s) -> 0 < cf_rs cf -> calm e ->
  (forall it, In it (q_items (k_ret s)) -> ri_inq it = true -> ri_at it <= e_now e) ->
  exists n, (n <= bound cf e s)%nat /\
    forall m, (n <= m)%nat ->
      quiescent (fst (iter_round cf m (e, s))) (snd (iter_round cf m (e, s))) /\
      reconciled (fst (iter_round cf m (e, s))) /\
      (forall k sl, slot_of (e_tab (fst (iter_round cf m (e, s)))) k = Some sl ->
         aget k (e_target (fst (iter_round cf m (e, s)))) = pay sl).
Proof.
  intros cf e s H RS C Due. destruct (converges_from_reach cf e s H RS C Due) as [n [Hn S]].
  exists n. split; [exact Hn|]. intros m Hm. destruct (S m Hm) as [Q [R _]]. split; [exact Q|]. split; [exact R|].
  apply (target_equals_table cf (iter_round cf m (e, s)) (reach_iter cf m (e, s) H) Q).
Qed.

(* non-vacuity: the quiescent state reached by the example of Converge.v (3 rounds from a reachable state with
   a retry item, a deletion and two pending objects) — the hypotheses of target_equals_table hold there, the
   table has live and deleted keys, and the theorem yields their target entries *)
Definition ex_final : env * rstate := iter_round Converge.ex_cf 3 (ex_e, ex_s).

Lemma ex_final_reach : reach Converge.ex_cf ex_final.
Proof. apply reach_iter. exact ex_reach. Qed.

Lemma ex_final_quiescent : quiescent (fst ex_final) (snd ex_final).
Proof. split; vm_compute; reflexivity. Qed.

Example target_equals_table_nonvacuous :
  reach Converge.ex_cf ex_final /\ quiescent (fst ex_final) (snd ex_final) /\
  live_objs (e_tab (fst ex_final)) = [(1, 1, 2); (3, 3, 2); (4, 4, 2)] /\
  slot_of (e_tab (fst ex_final)) 2 = Some (Dead (mkObj 2 2 Done 5 0) 6) /\
  aget 1 (e_target (fst ex_final)) = Some 1 /\ aget 2 (e_target (fst ex_final)) = None /\
  aget 3 (e_target (fst ex_final)) = Some 3 /\ aget 4 (e_target (fst ex_final)) = Some 4.
Proof.
  split; [exact ex_final_reach|]. split; [exact ex_final_quiescent|].
  split; [vm_compute; reflexivity|].
  assert (S2 : slot_of (e_tab (fst ex_final)) 2 = Some (Dead (mkObj 2 2 Done 5 0) 6)) by (vm_compute; reflexivity).
  assert (S1 : slot_of (e_tab (fst ex_final)) 1 = Some (Live (mkObj 1 1 Done 9 0) 10)) by (vm_compute; reflexivity).
  assert (S3 : slot_of (e_tab (fst ex_final)) 3 = Some (Live (mkObj 3 3 Done 7 0) 8)) by (vm_compute; reflexivity).
  assert (S4 : slot_of (e_tab (fst ex_final)) 4 = Some (Live (mkObj 4 4 Done 8 0) 9)) by (vm_compute; reflexivity).
  split; [exact S2|].
  pose proof (target_equals_table _ _ ex_final_reach ex_final_quiescent) as T.
  split; [exact (T 1 _ S1)|]. split; [exact (T 2 _ S2)|]. split; [exact (T 3 _ S3)|exact (T 4 _ S4)].
Qed.

Print Assumptions target_equals_table.
Print Assumptions last_operation_matches_table.
Print Assumptions converges_to_target.
Print Assumptions target_equals_table_nonvacuous.
