(* Reconciler/CoverProofs.v — user writes placed anywhere keep the cover invariant (C14), including the
   foreign status-only write over an Error status (write kind 4, `statx`): since fix 8844901 the retry's
   result is applied to the re-stamped object (before the fix that write lost the object: Refuted.v). *)
From Coq Require Import List NArith Bool Lia ZifyN ZifyBool.
From SV Require Import Reconciler.Retries Reconciler.Model Reconciler.RetriesProofs Reconciler.CommitProofs Reconciler.RoundProofs.
Import ListNotations.
Open Scope N_scope.

Lemma covered_ext : forall D t t' c res q pk, slot_of t' pk = slot_of t pk ->
  covered D t c res q pk -> covered D t' c res q pk.
Proof. intros D t t' c res q pk H Hc. unfold covered in *. rewrite H. exact Hc. Qed.

Lemma keyed_ext : forall t t', (forall k, slot_of t' k = slot_of t k) -> keyed t -> keyed t'.
Proof. intros t t' H Hk k o r Hs. rewrite H in Hs. apply (Hk k o r Hs). Qed.

Lemma insert_covers : forall D t c res q o, c <= t_rev t -> o_kind o <> Error ->
  (forall pk, covered D t c res q pk) -> forall pk, covered D (t_insert t o) c res q pk.
Proof.
  intros D t c res q o Hc Hne Hcov pk. destruct (N.eq_dec pk (o_pk o)) as [E|E].
  - subst pk. unfold covered. rewrite slot_insert_same. destruct (o_kind o); try exact I; try (left; lia). congruence.
  - apply (covered_ext D t). + apply slot_insert_other. exact E. + apply Hcov.
Qed.

(* a status-only write by another writer: the object is re-inserted at a new revision with the other
   writer's data changed (key and our status kept) *)
Lemma restamp_covers : forall D t c res q o r, c <= t_rev t -> slot_of t (o_pk o) = Some (Live o r) ->
  (forall pk, covered D t c res q pk) -> forall pk, covered D (t_insert t (bump_aux o)) c res q pk.
Proof.
  intros D t c res q o r Hc Hs Hcov pk. destruct (N.eq_dec pk (o_pk o)) as [E|E].
  - subst pk. specialize (Hcov (o_pk o)). unfold covered in *.
    change (o_pk o) with (o_pk (bump_aux o)) at 1. rewrite slot_insert_same. rewrite Hs in Hcov.
    change (o_kind (bump_aux o)) with (o_kind o).
    destruct (o_kind o); try exact I; try (left; lia). exact Hcov.
  - apply (covered_ext D t). + apply slot_insert_other. exact E. + apply Hcov.
Qed.

Lemma slot_delete_same : forall t k o r, slot_of t k = Some (Live o r) -> slot_of (t_delete t k) k = Some (Dead o (t_rev t + 1)).
Proof.
  intros t k o r H. unfold t_delete. unfold slot_of in H. rewrite H. unfold slot_of. cbn [t_slots]. apply aget_aset_same.
Qed.
Lemma slot_delete_other : forall t k k', k' <> k -> slot_of (t_delete t k) k' = slot_of t k'.
Proof.
  intros t k k' Hn. unfold t_delete. destruct (aget k (t_slots t)) as [[o r|o r]|]; try reflexivity.
  unfold slot_of. cbn [t_slots]. apply aget_aset_other. exact Hn.
Qed.
Lemma t_rev_delete : forall t k, t_rev t <= t_rev (t_delete t k).
Proof. intros t k. unfold t_delete. destruct (aget k (t_slots t)) as [[o r|o r]|]; cbn; lia. Qed.

Lemma delete_covers : forall D t c res q k, c <= t_rev t ->
  (forall pk, covered D t c res q pk) -> forall pk, covered D (t_delete t k) c res q pk.
Proof.
  intros D t c res q k Hc Hcov pk. destruct (N.eq_dec pk k) as [E|E].
  - subst pk. destruct (slot_of t k) as [[o r|o r]|] eqn:Es.
    + unfold covered. rewrite (slot_delete_same t k o r Es). left. lia.
    + apply (covered_ext D t); [|apply Hcov]. unfold t_delete. unfold slot_of in Es. rewrite Es. reflexivity.
    + apply (covered_ext D t); [|apply Hcov]. unfold t_delete. unfold slot_of in Es. rewrite Es. reflexivity.
  - apply (covered_ext D t); [apply slot_delete_other; exact E|apply Hcov].
Qed.

Lemma keyed_delete : forall t k, keyed t -> keyed (t_delete t k).
Proof.
  intros t k Hk k' o r Hs. destruct (N.eq_dec k' k) as [E|E].
  - subst k'. destruct (slot_of t k) as [[o0 r0|o0 r0]|] eqn:Es.
    + rewrite (slot_delete_same t k o0 r0 Es) in Hs. discriminate.
    + unfold t_delete in Hs. unfold slot_of in Es. rewrite Es in Hs. unfold slot_of in Hs. rewrite Es in Hs. discriminate.
    + unfold t_delete in Hs. unfold slot_of in Es. rewrite Es in Hs. unfold slot_of in Hs. rewrite Es in Hs. discriminate.
  - rewrite slot_delete_other in Hs by exact E. apply (Hk k' o r Hs).
Qed.

(* the state a user write may see: every live object stored under its key, cursor not beyond the table *)
Definition wstate D (t : table) (c : N) (res : list opres) (q : retries) : Prop :=
  keyed t /\ c <= t_rev t /\ forall pk, covered D t c res q pk.

Lemma fresh_id_wstate : forall D t c res q, wstate D t c res q -> wstate D (fst (t_fresh_id t)) c res q.
Proof.
  intros D t c res q [A [B C]]. split; [|split].
  - apply (keyed_ext t); [reflexivity|exact A].
  - exact B.
  - intro pk. apply (covered_ext D t); [reflexivity|apply C].
Qed.

Lemma insert_wstate : forall D t c res q o, o_kind o <> Error -> wstate D t c res q -> wstate D (t_insert t o) c res q.
Proof.
  intros D t c res q o Hne [A [B C]]. split; [apply keyed_insert; exact A|]. split; [cbn; lia|].
  apply insert_covers; assumption.
Qed.

Lemma delete_wstate : forall D t c res q k, wstate D t c res q -> wstate D (t_delete t k) c res q.
Proof.
  intros D t c res q k [A [B C]]. split; [apply keyed_delete; exact A|].
  split; [pose proof (t_rev_delete t k); lia|apply delete_covers; assumption].
Qed.

Lemma w_put_wstate : forall D e k c res q, wstate D (e_tab e) c res q -> wstate D (e_tab (w_put e k)) c res q.
Proof.
  intros D e k c res q H. unfold w_put. cbn [bump_ver e_tab e_ver].
  destruct (t_fresh_id (e_tab e)) as [t id] eqn:Ef. cbn [add_urev set_tab e_tab].
  apply insert_wstate; [cbn; discriminate|]. pose proof (fresh_id_wstate D _ c res q H) as P. rewrite Ef in P. exact P.
Qed.

Lemma w_del_wstate : forall D e k c res q, wstate D (e_tab e) c res q -> wstate D (e_tab (w_del e k)) c res q.
Proof.
  intros D e k c res q H. unfold w_del. destruct (t_live (e_tab e) k); [|exact H].
  cbn [add_urev set_tab e_tab]. apply delete_wstate. exact H.
Qed.

Lemma w_stat_wstate : forall D g e k c res q, wstate D (e_tab e) c res q -> wstate D (e_tab (w_stat g e k)) c res q.
Proof.
  intros D g e k c res q H. unfold w_stat. destruct (t_live (e_tab e) k) as [[o r]|] eqn:El; [|exact H].
  match goal with |- wstate D (e_tab (if ?b then _ else _)) _ _ _ => destruct b end; [exact H|].
  cbn [add_urev set_tab e_tab]. destruct H as [A [B C]].
  assert (Hs : slot_of (e_tab e) k = Some (Live o r)) by (apply t_live_slot; exact El).
  assert (Hpk : o_pk o = k) by (apply (A k o r Hs)).
  split; [apply keyed_insert; exact A|]. split; [cbn; lia|].
  apply (restamp_covers D (e_tab e) c res q o r B); [rewrite Hpk; exact Hs|exact C].
Qed.

Lemma w_ref_wstate : forall D e k c res q, wstate D (e_tab e) c res q -> wstate D (e_tab (w_ref e k)) c res q.
Proof.
  intros D e k c res q H. unfold w_ref. destruct (t_live (e_tab e) k) as [[o r]|]; [|exact H].
  destruct (o_kind o) eqn:Ek; try exact H.
  destruct (t_fresh_id (e_tab e)) as [t id] eqn:Ef. cbn [add_urev set_tab e_tab].
  apply insert_wstate; [cbn; discriminate|]. pose proof (fresh_id_wstate D _ c res q H) as P. rewrite Ef in P. exact P.
Qed.

Lemma w_pend_wstate : forall D e k c res q, wstate D (e_tab e) c res q -> wstate D (e_tab (w_pend e k)) c res q.
Proof.
  intros D e k c res q H. unfold w_pend. destruct (t_live (e_tab e) k) as [[o r]|]; [|exact H].
  destruct (t_fresh_id (e_tab e)) as [t id] eqn:Ef. cbn [add_urev set_tab e_tab].
  apply insert_wstate; [cbn; discriminate|]. pose proof (fresh_id_wstate D _ c res q H) as P. rewrite Ef in P. exact P.
Qed.

Theorem do_write_covers : forall D e kind k c res q,
  keyed (e_tab e) -> c <= t_rev (e_tab e) ->
  (forall pk, covered D (e_tab e) c res q pk) ->
  keyed (e_tab (do_write e kind k)) /\ c <= t_rev (e_tab (do_write e kind k)) /\
  forall pk, covered D (e_tab (do_write e kind k)) c res q pk.
Proof.
  intros D e kind k c res q A B C.
  assert (W : wstate D (e_tab e) c res q) by (split; [exact A|split; [exact B|exact C]]).
  unfold do_write.
  destruct kind as [|[[p|[p|p|]|]|[p|[p|p|]|]|]];
    first [ apply w_put_wstate; apply w_del_wstate; exact W
          | apply w_put_wstate; exact W | apply w_del_wstate; exact W | apply w_stat_wstate; exact W
          | apply w_ref_wstate; exact W | apply w_pend_wstate; exact W ].
Qed.

Theorem two_commits_cover : forall D c now res1 res2 t q t1 q1 t2 q2,
  keyed t -> uniq q -> NoDup (map (fun r => o_pk (r_obj r)) res1) ->
  (forall r, In r res1 -> r_orig r <= t_rev t) ->
  (forall pk, covered D t c res1 q pk) -> commit_status now t q res1 = (t1, q1) ->
  forall t1' q1', keyed t1' -> uniq q1' -> NoDup (map (fun r => o_pk (r_obj r)) res2) ->
  (forall r, In r res2 -> r_orig r <= t_rev t1') ->
  (forall pk, covered D t1' c res2 q1' pk) -> commit_status now t1' q1' res2 = (t2, q2) ->
  (forall pk, covered D t1 c [] q1 pk) /\ (forall pk, covered D t2 c [] q2 pk).
Proof.
  intros D c now res1 res2 t q t1 q1 t2 q2 K1 U1 N1 P1 C1 E1 t1' q1' K2 U2 N2 P2 C2 E2. split.
  - exact (commit_status_covers D c now res1 t q t1 q1 K1 U1 N1 P1 C1 E1).
  - exact (commit_status_covers D c now res2 t1' q1' t2 q2 K2 U2 N2 P2 C2 E2).
Qed.
