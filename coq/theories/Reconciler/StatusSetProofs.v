(* Reconciler/StatusSetProofs.v — proofs about the model of reconciler/types.go StatusSet (StatusSet.v). *)
From Coq Require Import List NArith Bool Lia.
From SV Require Import Base.Bytes Base.OrdMap Reconciler.Retries Reconciler.StatusSet.
Import ListNotations.
Open Scope N_scope.

(* representation invariant: entries strictly sorted by name (hence distinct names) *)
Definition ss_wf (s : sset) : Prop := om_sorted (ss_list s).

(* ------------------------------------------------------------------ lookups *)
Definition lookup (n : bytes) (l : list (bytes * status)) : option status :=
  match index_of n l with
  | Some i => match nth_error l i with Some e => Some (snd e) | None => None end
  | None => None
  end.

Lemma lookup_cons n n' st r :
  lookup n ((n', st) :: r) = if bytes_eqb n n' then Some st else lookup n r.
Proof.
  unfold lookup. cbn [index_of]. destruct (bytes_eqb n n'); [reflexivity|].
  destruct (index_of n r) as [i|]; reflexivity.
Qed.

Lemma lookup_om_get n l : om_sorted l -> lookup n l = om_get n l.
Proof.
  induction l as [|[n' st] r IH]; intros Hs; [reflexivity|].
  rewrite lookup_cons. cbn [om_get]. destruct (bytes_eqb n n') eqn:E; [reflexivity|].
  destruct Hs as [Ha Hs]. destruct (bytes_ltb n n') eqn:L.
  - rewrite IH by exact Hs. apply om_get_above. apply bytes_ltb_spec in L.
    eapply om_above_weaken; eauto.
  - apply IH; exact Hs.
Qed.

Lemma ss_get_lookup s n :
  ss_get s n = match lookup n (ss_list s) with Some st => st | None => mkSt Pending (ss_id s) end.
Proof.
  unfold ss_get, lookup. destruct (index_of n (ss_list s)) as [i|]; [|reflexivity].
  destruct (nth_error (ss_list s) i); reflexivity.
Qed.

Lemma index_of_none_lookup n l : index_of n l = None <-> lookup n l = None.
Proof.
  induction l as [|[n' st] r IH]; [unfold lookup; cbn; tauto|].
  rewrite lookup_cons. cbn [index_of]. destruct (bytes_eqb n n'); [split; discriminate|].
  destruct (index_of n r) as [i|] eqn:E; cbn [option_map].
  - split; [discriminate|]. intros H. apply IH in H. discriminate.
  - split; [intros _; apply IH; reflexivity|reflexivity].
Qed.

(* ------------------------------------------------------------------ Set is the sorted-map insert *)
Lemma ins_above e m : om_above (fst e) m -> ins_by_name e m = e :: m.
Proof.
  destruct m as [|x r]; [reflexivity|]. intros H. cbn [ins_by_name].
  inversion H as [|? ? Hx _]; subst. destruct (bytes_ltb (fst x) (fst e)) eqn:L; [|reflexivity].
  apply bytes_ltb_spec in L. exfalso. eapply lex_lt_asym; eauto.
Qed.

Lemma om_insert_above (n : bytes) (st : status) m : om_above n m -> om_insert n st m = (n, st) :: m.
Proof.
  destruct m as [|[n' st'] r]; [reflexivity|]. intros H. cbn [om_insert].
  inversion H as [|? ? Hx _]; subst. cbn [fst] in Hx.
  destruct (bytes_eqb n n') eqn:E.
  - apply bytes_eqb_spec in E. subst. exfalso. eapply lex_lt_irrefl; eauto.
  - apply bytes_ltb_spec in Hx. rewrite Hx. reflexivity.
Qed.

Lemma sort_append_is_insert n st l : om_sorted l -> lookup n l = None ->
  sort_by_name (l ++ [(n, st)]) = om_insert n st l.
Proof.
  unfold sort_by_name. rewrite fold_right_app. cbn [fold_right ins_by_name].
  induction l as [|[n' st'] r IH]; intros Hs Hn; [reflexivity|].
  rewrite lookup_cons in Hn. destruct (bytes_eqb n n') eqn:E; [discriminate|].
  destruct Hs as [Ha Hs]. cbn [fold_right]. rewrite IH by assumption. cbn [om_insert]. rewrite E.
  destruct (bytes_ltb n n') eqn:L.
  - apply bytes_ltb_spec in L.
    rewrite om_insert_above by (eapply om_above_weaken; eauto).
    cbn [ins_by_name fst]. pose proof (proj2 (bytes_ltb_spec n n') L) as L'. rewrite L'.
    rewrite ins_above by exact Ha. reflexivity.
  - apply ins_above. cbn [fst]. apply om_above_insert; [|exact Ha].
    destruct (lex_lt_total n n') as [H|[H|H]]; [apply bytes_ltb_spec in H; congruence| |exact H].
    subst. rewrite bytes_eqb_refl in E. discriminate.
Qed.

Lemma replace_is_insert n st l i : om_sorted l -> index_of n l = Some i ->
  replace_nth i (n, st) l = om_insert n st l.
Proof.
  revert i. induction l as [|[n' st'] r IH]; intros i Hs Hi; [discriminate|].
  cbn [index_of] in Hi. cbn [om_insert]. destruct (bytes_eqb n n') eqn:E.
  - inversion Hi; subst. reflexivity.
  - destruct (index_of n r) as [j|] eqn:Ej; [|discriminate]. inversion Hi; subst. cbn [replace_nth].
    destruct Hs as [Ha Hs]. destruct (bytes_ltb n n') eqn:L.
    + exfalso. apply bytes_ltb_spec in L.
      assert (Hl : lookup n r = None).
      { rewrite lookup_om_get by exact Hs. apply om_get_above. eapply om_above_weaken; eauto. }
      apply index_of_none_lookup in Hl. congruence.
    + f_equal. apply IH; [exact Hs|reflexivity].
Qed.

Theorem ss_set_is_insert s n st : ss_wf s ->
  ss_id (ss_set s n st) = ss_id s /\ ss_list (ss_set s n st) = om_insert n st (ss_list s).
Proof.
  intros Hw. unfold ss_set. destruct (index_of n (ss_list s)) as [i|] eqn:E; cbn [ss_id ss_list].
  - split; [reflexivity|]. apply replace_is_insert; assumption.
  - split; [reflexivity|]. apply sort_append_is_insert; [exact Hw|]. apply index_of_none_lookup. exact E.
Qed.

Theorem ss_set_wf s n st : ss_wf s -> ss_wf (ss_set s n st).
Proof.
  intros Hw. unfold ss_wf. rewrite (proj2 (ss_set_is_insert s n st Hw)). apply om_insert_sorted. exact Hw.
Qed.

(* ------------------------------------------------------------------ Get after Set *)
Theorem ss_get_set_same s n st : ss_wf s -> ss_get (ss_set s n st) n = st.
Proof.
  intros Hw. rewrite ss_get_lookup. rewrite lookup_om_get by (apply ss_set_wf; exact Hw).
  rewrite (proj2 (ss_set_is_insert s n st Hw)). rewrite om_get_insert_same. reflexivity.
Qed.

Theorem ss_get_set_other s n m st : ss_wf s -> m <> n -> ss_get (ss_set s n st) m = ss_get s m.
Proof.
  intros Hw Hne. rewrite !ss_get_lookup. rewrite lookup_om_get by (apply ss_set_wf; exact Hw).
  rewrite lookup_om_get by exact Hw.
  destruct (ss_set_is_insert s n st Hw) as [Hid Hl]. rewrite Hl, Hid.
  rewrite om_get_insert_other by assumption. reflexivity.
Qed.

(* a reconciler's write leaves everything it does not own exactly as it was *)
Lemma filter_insert me st l :
  filter (fun e : bytes * status => negb (bytes_eqb (fst e) me)) (om_insert me st l) =
  filter (fun e : bytes * status => negb (bytes_eqb (fst e) me)) l.
Proof.
  induction l as [|[n' st'] r IH]; cbn [om_insert filter fst].
  - rewrite bytes_eqb_refl. reflexivity.
  - destruct (bytes_eqb me n') eqn:E.
    + apply bytes_eqb_spec in E. subst. cbn [filter fst]. rewrite bytes_eqb_refl. reflexivity.
    + assert (E' : bytes_eqb n' me = false).
      { destruct (bytes_eqb n' me) eqn:E2; [|reflexivity]. apply bytes_eqb_spec in E2. subst.
        rewrite bytes_eqb_refl in E. discriminate. }
      destruct (bytes_ltb me n'); cbn [filter fst]; rewrite ?bytes_eqb_refl, ?E'; cbn [negb].
      * reflexivity.
      * rewrite IH. reflexivity.
Qed.

Theorem own_write_keeps_others me s st : ss_wf s -> others me (ss_set s me st) = others me s.
Proof.
  intros Hw. unfold others. destruct (ss_set_is_insert s me st Hw) as [Hid Hl]. rewrite Hid, Hl.
  rewrite filter_insert. reflexivity.
Qed.

Theorem foreign_write_keeps_view me other s st : ss_wf s -> me <> other ->
  view me (ss_set s other st) = view me s.
Proof. intros Hw Hne. apply ss_get_set_other; assumption. Qed.

(* ------------------------------------------------------------------ Pending *)
Lemma above_map (f : bytes * status -> bytes * status) k l : (forall e, fst (f e) = fst e) ->
  om_above k l -> om_above k (map f l).
Proof.
  intros Hf. unfold om_above. induction 1 as [|e r He _ IH]; cbn [map]; constructor; [rewrite Hf; exact He|exact IH].
Qed.

Lemma sorted_map (f : bytes * status -> bytes * status) l : (forall e, fst (f e) = fst e) ->
  om_sorted l -> om_sorted (map f l).
Proof.
  intros Hf. induction l as [|[n st] r IH]; [trivial|]. intros [Ha Hs]. cbn [map].
  specialize (Hf (n, st)) as Hn. destruct (f (n, st)) as [n2 st2] eqn:E. cbn [fst] in Hn. subst n2.
  split; [apply above_map; [exact Hf|exact Ha]|apply IH; exact Hs].
Qed.

Lemma lookup_map g n l :
  lookup n (map (fun e => (fst e, g (snd e))) l) = option_map g (lookup n l).
Proof.
  induction l as [|[n' st] r IH]; [reflexivity|]. cbn [map fst snd]. rewrite !lookup_cons.
  destruct (bytes_eqb n n'); [reflexivity|exact IH].
Qed.

Theorem ss_pending_wf s g : ss_wf s -> ss_wf (fst (ss_pending s g)).
Proof. intros Hw. unfold ss_pending, next_id, ss_wf. cbn [fst ss_list]. apply sorted_map; [reflexivity|exact Hw]. Qed.

(* after Pending() EVERY reconciler - named in the set or not - reads Pending with the new id *)
Theorem ss_get_pending s g n : ss_get (fst (ss_pending s g)) n = mkSt Pending (g + 1).
Proof.
  unfold ss_pending, next_id. cbn [fst]. rewrite ss_get_lookup. cbn [ss_list ss_id].
  rewrite (lookup_map (fun _ => mkSt Pending (g + 1))). destruct (lookup n (ss_list s)); reflexivity.
Qed.

Theorem ss_pending_names s g : map fst (ss_list (fst (ss_pending s g))) = map fst (ss_list s).
Proof. unfold ss_pending, next_id. cbn [fst ss_list]. rewrite map_map. reflexivity. Qed.

Theorem ss_pending_gen s g : snd (ss_pending s g) = g + 1.
Proof. reflexivity. Qed.

(* ------------------------------------------------------------------ ids are fresh *)
(* every id in the value was drawn from the counter: it is at most the counter's value *)
Definition ids_le (g : N) (s : sset) : Prop :=
  ss_id s <= g /\ Forall (fun e => st_id (snd e) <= g) (ss_list s).

Lemma ids_le_get g s n : ids_le g s -> st_id (ss_get s n) <= g.
Proof.
  intros [Hi Hf]. rewrite ss_get_lookup. unfold lookup.
  destruct (index_of n (ss_list s)) as [i|]; [|exact Hi].
  destruct (nth_error (ss_list s) i) as [e|] eqn:E; [|exact Hi].
  apply nth_error_In in E. rewrite Forall_forall in Hf. apply Hf. exact E.
Qed.

Lemma ids_le_mono g g' s : g <= g' -> ids_le g s -> ids_le g' s.
Proof.
  intros Hg [Hi Hf]. split; [lia|]. eapply Forall_impl; [|exact Hf]. cbn. intros; lia.
Qed.

Lemma forall_insert (P : bytes * status -> Prop) n st l : P (n, st) -> Forall P l -> Forall P (om_insert n st l).
Proof.
  intros Hp. induction 1 as [|[n' st'] r Hx Hr IH]; cbn [om_insert]; [repeat constructor; exact Hp|].
  destruct (bytes_eqb n n'); [constructor; assumption|].
  destruct (bytes_ltb n n'); repeat constructor; assumption.
Qed.

Theorem ids_le_new g : ids_le (snd (ss_new g)) (fst (ss_new g)).
Proof. unfold ss_new, next_id, ids_le. cbn [fst snd ss_id ss_list]. split; [lia|constructor]. Qed.

Theorem ids_le_set g s n st : ss_wf s -> ids_le g s -> st_id st <= g -> ids_le g (ss_set s n st).
Proof.
  intros Hw [Hi Hf] Hs. destruct (ss_set_is_insert s n st Hw) as [Hid Hl]. split; [rewrite Hid; exact Hi|].
  rewrite Hl. apply forall_insert; assumption.
Qed.

Theorem ids_le_pending g s : ids_le g s -> ids_le (snd (ss_pending s g)) (fst (ss_pending s g)).
Proof.
  intros _. unfold ss_pending, next_id. cbn [fst snd]. split; cbn [ss_id ss_list]; [lia|].
  apply Forall_forall. intros e He. apply in_map_iff in He. destruct He as [x [Hx _]]. subst. cbn. lia.
Qed.

(* the id every reconciler reads after Pending() is carried by NO value built before: a result computed for an
   earlier version of the object (any reconciler's view of any earlier value) has a different id, so the
   "same pending id" test of commitStatus cannot take the new version for the one that was reconciled *)
Theorem pending_id_is_fresh g s old n m : ids_le g old ->
  st_id (ss_get (fst (ss_pending s g)) n) <> st_id (ss_get old m).
Proof.
  intros Ho. rewrite ss_get_pending. cbn [st_id]. pose proof (ids_le_get g old m Ho). lia.
Qed.

(* ------------------------------------------------------------------ the machine: values are never changed *)
Lemma sm_val_app m x i : (i < length (sm_vals m))%nat ->
  nth i (sm_vals m ++ [x]) (mkSS 0 []) = sm_val m i.
Proof. intros H. unfold sm_val. apply app_nth1. exact H. Qed.

Theorem sm_new_keeps m i : (i < length (sm_vals m))%nat -> sm_val (sm_new m) i = sm_val m i.
Proof. intros H. unfold sm_new, ss_new, next_id. unfold sm_val at 1. cbn [sm_vals]. apply sm_val_app. exact H. Qed.
Theorem sm_pending_keeps m j i : (i < length (sm_vals m))%nat -> sm_val (sm_pending m j) i = sm_val m i.
Proof. intros H. unfold sm_pending, ss_pending, next_id. unfold sm_val at 1. cbn [sm_vals]. apply sm_val_app. exact H. Qed.
Theorem sm_set_keeps m j n k i : (i < length (sm_vals m))%nat -> sm_val (sm_set m j n k) i = sm_val m i.
Proof. intros H. unfold sm_set, status_new, next_id. unfold sm_val at 1. cbn [sm_vals]. apply sm_val_app. exact H. Qed.

(* every value the machine ever holds is well-formed and has ids below the counter *)
Definition sm_inv (m : smach) : Prop := Forall (fun s => ss_wf s /\ ids_le (sm_gen m) s) (sm_vals m).

Lemma sm_val_inv m i : sm_inv m -> ss_wf (sm_val m i) /\ ids_le (sm_gen m) (sm_val m i).
Proof.
  intros H. unfold sm_val. destruct (nth_in_or_default i (sm_vals m) (mkSS 0 [])) as [Hin|Hd].
  - unfold sm_inv in H. rewrite Forall_forall in H. apply H. exact Hin.
  - rewrite Hd. split; [exact I|]. split; cbn; [lia|constructor].
Qed.

Lemma sm_inv_step g' m x : sm_inv m -> sm_gen m <= g' -> ss_wf x -> ids_le g' x ->
  sm_inv (mkSM g' (sm_vals m ++ [x])).
Proof.
  intros H Hg Hw Hi. unfold sm_inv. cbn [sm_gen sm_vals]. apply Forall_app. split.
  - eapply Forall_impl; [|exact H]. cbn. intros s [Hs Hl]. split; [exact Hs|]. eapply ids_le_mono; eauto.
  - constructor; [split; assumption|constructor].
Qed.

Theorem sm_inv_init : sm_inv sm_init.
Proof. constructor. Qed.
Theorem sm_inv_new m : sm_inv m -> sm_inv (sm_new m).
Proof.
  intros H. unfold sm_new, ss_new, next_id. apply sm_inv_step; [exact H|lia|exact I|]. split; cbn; [lia|constructor].
Qed.
Theorem sm_inv_pending m j : sm_inv m -> sm_inv (sm_pending m j).
Proof.
  intros H. destruct (sm_val_inv m j H) as [Hw Hi].
  pose proof (ss_pending_wf (sm_val m j) (sm_gen m) Hw) as Hw'.
  pose proof (ids_le_pending (sm_gen m) (sm_val m j) Hi) as Hi'.
  unfold sm_pending. unfold ss_pending, next_id in *. cbn [fst snd] in *.
  apply sm_inv_step; [exact H|lia|exact Hw'|exact Hi'].
Qed.
Theorem sm_inv_set m j n k : sm_inv m -> sm_inv (sm_set m j n k).
Proof.
  intros H. destruct (sm_val_inv m j H) as [Hw Hi].
  unfold sm_set, status_new, next_id. apply sm_inv_step; [exact H|lia|apply ss_set_wf; exact Hw|].
  apply ids_le_set; [exact Hw|eapply ids_le_mono; [|exact Hi]; lia|cbn; lia].
Qed.

(* ------------------------------------------------------------------ the seeded Pending() variants *)
(* keeping the set id: a reconciler that has no entry yet reads the same (Pending, id) before and after the
   user re-marked the object - it cannot tell the new version from the one it reconciled *)
Theorem pending_keep_set_id_refuted :
  let s := fst (ss_new 0) in
  let s' := fst (ss_pending_keep_set_id s 1) in
  ss_wf s /\ ids_le 1 s /\ view [114] s' = view [114] s /\ view [114] (fst (ss_pending s 1)) <> view [114] s.
Proof. vm_compute. repeat split; try constructor; discriminate. Qed.

(* keeping the per-entry ids: the same for a reconciler that has an entry *)
Theorem pending_keep_entry_ids_refuted :
  let s := ss_set (fst (ss_new 0)) [114] (mkSt Pending 2) in
  let s' := fst (ss_pending_keep_entry_ids s 2) in
  ss_wf s /\ ids_le 2 s /\ view [114] s' = view [114] s /\ view [114] (fst (ss_pending s 2)) <> view [114] s.
Proof.
  vm_compute. split; [split; [constructor|exact I]|]. split; [split; [discriminate|repeat constructor; discriminate]|].
  split; [reflexivity|discriminate].
Qed.
