(* MapSet/Refuted.v — witnesses: (1) the pre-fix FromMap (seeded/D5: singleton inserted last) violates
   "the entries of hm win"; (2) the strong invariant (a tree holds >= 2 entries) is necessary for the
   equality predicates, and decoding a list with duplicate keys leaves it. *)
From SV Require Import Base.Bytes Base.OrdMap MapSet.Model MapSet.OrdLemmas MapSet.Proofs.
Open Scope N_scope.

(* {a:1} FromMap {a:2, b:3}: a stays 1 *)
Theorem frommap_singleton_last_refuted : exists m hm k v,
  minv m /\ NoDup (map fst hm) /\ In (k, v) hm /\ mget (fromMap_old m hm) k <> Some v.
Proof.
  exists (MSingle [97] 1), [([97], 2); ([98], 3)], [97], 2.
  split; [exact I|]. split.
  - repeat constructor; simpl; intuition discriminate.
  - split; [now left|]. vm_compute. discriminate.
Qed.

(* the fixed FromMap on the same input *)
Example frommap_fixed_witness : mget (fromMap (MSingle [97] 1) [([97], 2); ([98], 3)]) [97] = Some 2.
Proof. vm_compute. reflexivity. Qed.

(* a 1-element tree (sorted, but outside minv) makes EqualKeys/SlowEqual answer true for different keys … *)
Theorem equalkeys_needs_invariant_refuted : exists m o,
  minv_weak m /\ minv_weak o /\ mequalKeys m o = true /\ mslowEqual m o = true /\ om_keys (abs m) <> om_keys (abs o).
Proof.
  exists (MSingle [97] 1), (MTree [([98], 2)]). unfold minv_weak.
  split; [apply sorted_single|]. split; [apply sorted_single|]. repeat split; vm_compute; try reflexivity. discriminate.
Qed.

(* … and false for equal contents; such a value is produced by decoding duplicate keys *)
Theorem decode_duplicates_leave_invariant : exists l o,
  abs (mdecode_json l) = abs o /\ minv o /\ mequalKeys (mdecode_json l) o = false /\ mslowEqual (mdecode_json l) o = false.
Proof.
  exists [([97], 1); ([97], 2)], (MSingle [97] 2). repeat split; vm_compute; reflexivity.
Qed.
