(* MapSet/RecycleModel.v — mechanism-level model of the transaction-object recycling underneath part.Map
   (part/tree.go Tree.Txn / Tree.prevTxn, part/txn.go Commit / commit): Txn objects are mutable heap
   cells, every tree value carries the identity of the shared `prevTxn` pointer it was created with,
   Tree.Txn() takes the object offered there (Swap(nil)) or allocates, Txn.Commit() offers the object
   for reuse, Txn.commit() (fix b3f1606) does not. Tree contents stay abstract (omap). No proofs here.
   The flag `store` of x_tcommit selects what MapTxn.Commit calls: true = Txn.Commit (before the fix,
   seeded/D6), false = Txn.commit (the code as it is now). *)
From SV Require Import Base.Bytes Base.OrdMap MapSet.Model.
Open Scope N_scope.

(* a part.Tree value: its prevTxn pointer (identity) and its contents *)
Record tval := mkT { t_slot : N; t_c : tree }.
(* part.Map with the tree as a value carrying its prevTxn pointer *)
Inductive xmap := XEmpty | XSingle (k : bytes) (v : val) | XTree (t : tval).

Definition erase (m : xmap) : pmap :=
  match m with XEmpty => MEmpty | XSingle k v => MSingle k v | XTree t => MTree (t_c t) end.

Record mstate := mkM {
  slot : N -> option N;      (* *atomic.Pointer[Txn]: the Txn object currently offered for reuse *)
  obj : N -> tree * N;       (* Txn objects: (root contents, txn.prevTxn) *)
  nxt : N;                   (* allocator of pointer identities and Txn objects *)
  xmaps : N -> option xmap;  (* registers: Map values *)
  xtxns : N -> option N      (* registers: MapTxn values = the *Txn they wrap *)
}.

Definition upd {A} (f : N -> A) (i : N) (a : A) : N -> A := fun j => if j =? i then a else f j.

Definition ms0 : mstate := mkM (fun _ => None) (fun _ => ([], 0)) 0 (fun _ => None) (fun _ => None).

(* part.New(): a fresh prevTxn pointer holding nil *)
Definition new_tree (ms : mstate) : tval * mstate :=
  (mkT (nxt ms) [], mkM (slot ms) (obj ms) (nxt ms + 1) (xmaps ms) (xtxns ms)).

(* Tree.Txn(): reuse the offered object (prevTxn.Swap(nil)) or allocate; root/prevTxn are (re)set *)
Definition tree_txn (ms : mstate) (tv : tval) : N * mstate :=
  match slot ms (t_slot tv) with
  | Some x => (x, mkM (upd (slot ms) (t_slot tv) None) (upd (obj ms) x (t_c tv, t_slot tv)) (nxt ms) (xmaps ms) (xtxns ms))
  | None => (nxt ms, mkM (slot ms) (upd (obj ms) (nxt ms) (t_c tv, t_slot tv)) (nxt ms + 1) (xmaps ms) (xtxns ms))
  end.

(* Txn.Insert / Txn.Delete: in-place update of the object's root *)
Definition txn_mod (ms : mstate) (x : N) (f : tree -> tree) : mstate :=
  mkM (slot ms) (upd (obj ms) x (f (fst (obj ms x)), snd (obj ms x))) (nxt ms) (xmaps ms) (xtxns ms).

(* Txn.Commit (store = true: t.prevTxn.Store(txn)) / Txn.commit (store = false) *)
Definition txn_commit (store : bool) (ms : mstate) (x : N) : tval * mstate :=
  let c := fst (obj ms x) in let s := snd (obj ms x) in
  (mkT s c, if store then mkM (upd (slot ms) s (Some x)) (obj ms) (nxt ms) (xmaps ms) (xtxns ms) else ms).

(* ensureTree *)
Definition ensure_tree (ms : mstate) (m : xmap) : tval * mstate :=
  match m with XTree tv => (tv, ms) | _ => new_tree ms end.

(* Map.Set *)
Definition x_mset (ms : mstate) (m : xmap) (k : bytes) (v : val) : xmap * mstate :=
  match m with
  | XEmpty => (XSingle k v, ms)
  | XSingle k' v' =>
    if bytes_eqb k k' then (XSingle k v, ms)
    else let (tv, ms1) := new_tree ms in
         let (x, ms2) := tree_txn ms1 tv in
         let ms3 := txn_mod ms2 x (om_insert k v) in
         let ms4 := txn_mod ms3 x (om_insert k' v') in
         let (tv', ms5) := txn_commit true ms4 x in (XTree tv', ms5)
  | XTree tv =>
    let (x, ms2) := tree_txn ms tv in
    let ms3 := txn_mod ms2 x (om_insert k v) in
    let (tv', ms5) := txn_commit true ms3 x in (XTree tv', ms5)
  end.

(* Map.Delete: the transaction is only committed in the default case *)
Definition x_mdelete (ms : mstate) (m : xmap) (k : bytes) : xmap * mstate :=
  match m with
  | XEmpty => (XEmpty, ms)
  | XSingle k' v' => if bytes_eqb k' k then (XEmpty, ms) else (m, ms)
  | XTree tv =>
    let (x, ms2) := tree_txn ms tv in
    let ms3 := txn_mod ms2 x (om_delete k) in
    match fst (obj ms3 x) with
    | [] => (XEmpty, ms3)
    | [(k1, v1)] => (XSingle k1 v1, ms3)
    | _ => let (tv', ms5) := txn_commit true ms3 x in (XTree tv', ms5)
    end
  end.

(* Map.Txn(): ensureTree, tree.Txn(), insert the singleton; the MapTxn keeps the *Txn *)
Definition x_txn (ms : mstate) (m : xmap) : N * mstate :=
  let (tv, ms1) := ensure_tree ms m in
  let (x, ms2) := tree_txn ms1 tv in
  match m with
  | XSingle k v => (x, txn_mod ms2 x (om_insert k v))
  | _ => (x, ms2)
  end.

(* MapTxn.Commit *)
Definition x_tcommit (store : bool) (ms : mstate) (x : N) : xmap * mstate :=
  match fst (obj ms x) with
  | [] => (XEmpty, ms)
  | [(k, v)] => (XSingle k v, ms)
  | _ => let (tv, ms') := txn_commit store ms x in (XTree tv, ms')
  end.

Definition xgetm (ms : mstate) (i : N) : xmap := match xmaps ms i with Some m => m | None => XEmpty end.
Definition xputm (ms : mstate) (d : N) (m : xmap) : mstate :=
  match xmaps ms d with
  | Some _ => ms
  | None => mkM (slot ms) (obj ms) (nxt ms) (upd (xmaps ms) d (Some m)) (xtxns ms)
  end.

(* the Map / MapTxn operations of the register machine (Model.step) on the mechanism state;
   operations not concerning Map transactions are not part of this model and are no-ops *)
Definition xstep (store : bool) (ms : mstate) (o : op) : mstate :=
  match o with
  | OMSet d s k v => match xmaps ms d with Some _ => ms | None =>
                       let (m, ms') := x_mset ms (xgetm ms s) k v in xputm ms' d m end
  | OMDel d s k => match xmaps ms d with Some _ => ms | None =>
                     let (m, ms') := x_mdelete ms (xgetm ms s) k in xputm ms' d m end
  | OMTxn t s => match xtxns ms t with Some _ => ms | None =>
                   let (x, ms') := x_txn ms (xgetm ms s) in
                   mkM (slot ms') (obj ms') (nxt ms') (xmaps ms') (upd (xtxns ms') t (Some x)) end
  | OTSet t k v => match xtxns ms t with Some x => txn_mod ms x (om_insert k v) | None => ms end
  | OTDel t k => match xtxns ms t with Some x => txn_mod ms x (om_delete k) | None => ms end
  | OTCommit d t => match xtxns ms t with
                    | Some x => match xmaps ms d with Some _ => ms | None =>
                                  let (m, ms') := x_tcommit store ms x in xputm ms' d m end
                    | None => ms end
  | _ => ms
  end.

Definition xrun (store : bool) (ms : mstate) (ops : list op) : mstate := fold_left (xstep store) ops ms.

(* the operations this model covers *)
Definition txn_op (o : op) : bool :=
  match o with OMSet _ _ _ _ | OMDel _ _ _ | OMTxn _ _ | OTSet _ _ _ | OTDel _ _ | OTCommit _ _ => true | _ => false end.

(* what the API shows: contents of a Map register / of a MapTxn register *)
Definition xobs_map (ms : mstate) (i : N) : option pmap := option_map erase (xmaps ms i).
Definition xobs_txn (ms : mstate) (t : N) : option tree := option_map (fun x => fst (obj ms x)) (xtxns ms t).
