(* MapSet/RecycleProofs.v — with MapTxn.Commit calling Txn.commit (no offer for reuse, fix b3f1606) the
   mechanism model of RecycleModel.v shows exactly what the pure register machine of Model.v shows:
   a Txn object wrapped by a live MapTxn is never handed out by Tree.Txn(). With Txn.Commit (before the
   fix) it is not: concrete witness (seeded/D6 shape). *)
From SV Require Import Base.Bytes Base.OrdMap MapSet.Model MapSet.OrdLemmas MapSet.Proofs MapSet.Machine MapSet.RecycleModel.
From Coq Require Import ZifyN ZifyNat ZifyBool.
Open Scope N_scope.

Ltac csplit := repeat match goal with |- _ /\ _ => split end.

Definition held (ms : mstate) (x : N) : Prop := exists t, xtxns ms t = Some x.
Definition free (ms : mstate) (x : N) : Prop := forall s, slot ms s <> Some x.

(* ownership invariant of the heap *)
Record hinv (ms : mstate) : Prop := mkH {
  h_slot : forall s x, slot ms s = Some x -> x < nxt ms /\ ~ held ms x;   (* offered objects are not held by a MapTxn *)
  h_inj : forall s s' x, slot ms s = Some x -> slot ms s' = Some x -> s = s';
  h_held : forall x, held ms x -> x < nxt ms;
  h_distinct : forall t t' x, xtxns ms t = Some x -> xtxns ms t' = Some x -> t = t'
}.

(* ms' has the same registers as ms and did not touch the objects held by MapTxns *)
Definition frame (ms ms' : mstate) : Prop :=
  xmaps ms' = xmaps ms /\ xtxns ms' = xtxns ms /\ nxt ms <= nxt ms' /\
  (forall y, held ms y -> obj ms' y = obj ms y).

Lemma frame_refl ms : frame ms ms.
Proof. unfold frame. csplit; auto. lia. Qed.

Lemma held_frame ms ms' x : xtxns ms' = xtxns ms -> (held ms' x <-> held ms x).
Proof. intros E. unfold held. now rewrite E. Qed.

Lemma frame_trans a b c : frame a b -> frame b c -> frame a c.
Proof.
  intros [A1 [A2 [A3 A4]]] [B1 [B2 [B3 B4]]]. unfold frame. csplit; try congruence; try lia.
  intros y Hy. rewrite B4, A4; auto. now apply (held_frame a b).
Qed.

Lemma upd_same {A} (f : N -> A) i a : upd f i a i = a.
Proof. unfold upd. now rewrite N.eqb_refl. Qed.
Lemma upd_other {A} (f : N -> A) i j a : j <> i -> upd f i a j = f j.
Proof. unfold upd. intros H. destruct (N.eqb_spec j i); congruence. Qed.

Lemma new_tree_spec ms : hinv ms -> frame ms (snd (new_tree ms)) /\ hinv (snd (new_tree ms)) /\ t_c (fst (new_tree ms)) = [].
Proof.
  intros [H1 H2 H3 H4]. split; [|split; [|reflexivity]].
  - unfold frame. csplit; simpl; auto. lia.
  - constructor; simpl; auto.
    + intros s x Hs. destruct (H1 s x Hs). split; [lia|auto].
    + intros x Hx. specialize (H3 x Hx). lia.
Qed.

Lemma tree_txn_spec ms tv x ms' : hinv ms -> tree_txn ms tv = (x, ms') ->
  frame ms ms' /\ hinv ms' /\ ~ held ms x /\ free ms' x /\ x < nxt ms' /\ obj ms' x = (t_c tv, t_slot tv).
Proof.
  intros [H1 H2 H3 H4] E. unfold tree_txn in E. destruct (slot ms (t_slot tv)) as [x0|] eqn:S; injection E as <- <-.
  - destruct (H1 _ _ S) as [Hlt Hnh].
    assert (Hfree : forall s, upd (slot ms) (t_slot tv) None s <> Some x0).
    { intros s. destruct (N.eq_dec s (t_slot tv)) as [->|Hne].
      - rewrite upd_same. discriminate.
      - rewrite upd_other by auto. intros Hs. apply Hne. eapply H2; eauto. }
    unfold frame. csplit; simpl; auto; try lia.
    + intros y Hy. apply upd_other. intros ->. contradiction.
    + constructor; simpl; auto.
      * intros s x Hs. destruct (N.eq_dec s (t_slot tv)) as [->|Hne]; [rewrite upd_same in Hs; discriminate|].
        rewrite upd_other in Hs by auto. exact (H1 s x Hs).
      * intros s s' x Hs Hs'.
        destruct (N.eq_dec s (t_slot tv)) as [->|Hne]; [rewrite upd_same in Hs; discriminate|].
        destruct (N.eq_dec s' (t_slot tv)) as [->|Hne']; [rewrite upd_same in Hs'; discriminate|].
        rewrite upd_other in Hs, Hs' by auto. eauto.
    + apply upd_same.
  - assert (Hnh : ~ held ms (nxt ms)). { intros Hh. specialize (H3 _ Hh). lia. }
    unfold frame. csplit; simpl; auto; try lia.
    + intros y Hy. apply upd_other. intros ->. contradiction.
    + constructor; simpl; auto.
      * intros s x Hs. destruct (H1 s x Hs). split; [lia|auto].
      * intros x Hx. specialize (H3 x Hx). lia.
    + intros s Hs. destruct (H1 _ _ Hs). lia.
    + apply upd_same.
Qed.

Lemma txn_mod_frame ms x f : ~ held ms x -> frame ms (txn_mod ms x f).
Proof.
  intros Hnh. unfold frame. csplit; simpl; auto; try lia. intros y Hy. apply upd_other. intros ->. contradiction.
Qed.

Lemma txn_mod_hinv ms x f : hinv ms -> hinv (txn_mod ms x f).
Proof. intros [H1 H2 H3 H4]. constructor; simpl; auto. Qed.

Lemma txn_mod_obj ms x f : fst (obj (txn_mod ms x f) x) = f (fst (obj ms x)) /\ snd (obj (txn_mod ms x f) x) = snd (obj ms x).
Proof. simpl. now rewrite upd_same. Qed.

Lemma txn_mod_free ms x f y : free ms y -> free (txn_mod ms x f) y.
Proof. auto. Qed.

Lemma txn_commit_store_spec ms x : hinv ms -> ~ held ms x -> free ms x -> x < nxt ms ->
  frame ms (snd (txn_commit true ms x)) /\ hinv (snd (txn_commit true ms x)) /\
  t_c (fst (txn_commit true ms x)) = fst (obj ms x).
Proof.
  intros [H1 H2 H3 H4] Hnh Hfree Hlt. split; [|split; [|reflexivity]].
  - unfold frame. csplit; simpl; auto. lia.
  - constructor; simpl; auto.
    + intros s y Hs. destruct (N.eq_dec s (snd (obj ms x))) as [->|Hne].
      * rewrite upd_same in Hs. injection Hs as <-. auto.
      * rewrite upd_other in Hs by auto. exact (H1 s y Hs).
    + intros s s' y Hs Hs'.
      destruct (N.eq_dec s (snd (obj ms x))) as [->|Hne], (N.eq_dec s' (snd (obj ms x))) as [->|Hne']; auto.
      * rewrite upd_same in Hs. injection Hs as <-. rewrite upd_other in Hs' by auto. now apply Hfree in Hs'.
      * rewrite upd_same in Hs'. injection Hs' as <-. rewrite upd_other in Hs by auto. now apply Hfree in Hs.
      * rewrite upd_other in Hs, Hs' by auto. eauto.
Qed.

(* ---------------------------------------------------------------- the Map operations *)
Lemma txn_mod_facts ms x f ms' : ms' = txn_mod ms x f -> ~ held ms x -> hinv ms -> free ms x -> x < nxt ms ->
  frame ms ms' /\ hinv ms' /\ ~ held ms' x /\ free ms' x /\ x < nxt ms' /\
  fst (obj ms' x) = f (fst (obj ms x)) /\ snd (obj ms' x) = snd (obj ms x).
Proof.
  intros -> Hnh H Hfr Hlt. pose proof (txn_mod_frame ms x f Hnh) as F.
  csplit; auto using txn_mod_hinv; try apply txn_mod_obj.
Qed.

Lemma x_mset_spec ms m k v m' ms' : hinv ms -> x_mset ms m k v = (m', ms') ->
  erase m' = mset (erase m) k v /\ frame ms ms' /\ hinv ms'.
Proof.
  intros H E. destruct m as [|k' v'|tv]; unfold x_mset in E.
  - injection E as <- <-. auto using frame_refl.
  - destruct (bytes_eqb k k') eqn:Ek.
    + injection E as <- <-. simpl. rewrite Ek. auto using frame_refl.
    + destruct (new_tree_spec ms H) as [F1 [I1 C1]].
      destruct (new_tree ms) as [tv ms1] eqn:N1. simpl in F1, I1, C1.
      destruct (tree_txn ms1 tv) as [x ms2] eqn:T. destruct (tree_txn_spec _ _ _ _ I1 T) as [F2 [I2 [Hnh [Hfr [Hlt Ho]]]]].
      assert (Hnh2 : ~ held ms2 x). { rewrite (held_frame ms1 ms2); [auto|apply F2]. }
      remember (txn_mod ms2 x (om_insert k v)) as ms3 eqn:E3.
      destruct (txn_mod_facts _ _ _ _ E3 Hnh2 I2 Hfr Hlt) as [F3 [I3 [Hnh3 [Hfr3 [Hlt3 [O3 P3]]]]]].
      remember (txn_mod ms3 x (om_insert k' v')) as ms4 eqn:E4.
      destruct (txn_mod_facts _ _ _ _ E4 Hnh3 I3 Hfr3 Hlt3) as [F4 [I4 [Hnh4 [Hfr4 [Hlt4 [O4 P4]]]]]].
      destruct (txn_commit_store_spec ms4 x I4 Hnh4 Hfr4 Hlt4) as [F5 [I5 C5]].
      destruct (txn_commit true ms4 x) as [tv' ms5] eqn:TC. injection E as <- <-. simpl in F5, I5, C5.
      split; [|split; [|exact I5]].
      * simpl. rewrite Ek, C5, O4, O3, Ho. simpl. now rewrite C1.
      * eapply frame_trans; [exact F1|]. eapply frame_trans; [exact F2|]. eapply frame_trans; [exact F3|].
        eapply frame_trans; [exact F4|exact F5].
  - destruct (tree_txn ms tv) as [x ms2] eqn:T. destruct (tree_txn_spec _ _ _ _ H T) as [F2 [I2 [Hnh [Hfr [Hlt Ho]]]]].
    assert (Hnh2 : ~ held ms2 x). { rewrite (held_frame ms ms2); [auto|apply F2]. }
    remember (txn_mod ms2 x (om_insert k v)) as ms3 eqn:E3.
    destruct (txn_mod_facts _ _ _ _ E3 Hnh2 I2 Hfr Hlt) as [F3 [I3 [Hnh3 [Hfr3 [Hlt3 [O3 P3]]]]]].
    destruct (txn_commit_store_spec ms3 x I3 Hnh3 Hfr3 Hlt3) as [F5 [I5 C5]].
    destruct (txn_commit true ms3 x) as [tv' ms5] eqn:TC. injection E as <- <-. simpl in F5, I5, C5.
    split; [|split; [|exact I5]].
    + simpl. now rewrite C5, O3, Ho.
    + eapply frame_trans; [exact F2|]. eapply frame_trans; [exact F3|exact F5].
Qed.

Lemma x_mdelete_spec ms m k m' ms' : hinv ms -> x_mdelete ms m k = (m', ms') ->
  erase m' = mdelete (erase m) k /\ frame ms ms' /\ hinv ms'.
Proof.
  intros H E. destruct m as [|k' v'|tv]; unfold x_mdelete in E.
  - injection E as <- <-. auto using frame_refl.
  - destruct (bytes_eqb k' k) eqn:Ek; injection E as <- <-; simpl; rewrite Ek; auto using frame_refl.
  - destruct (tree_txn ms tv) as [x ms2] eqn:T. destruct (tree_txn_spec _ _ _ _ H T) as [F2 [I2 [Hnh [Hfr [Hlt Ho]]]]].
    assert (Hnh2 : ~ held ms2 x). { rewrite (held_frame ms ms2); [auto|apply F2]. }
    remember (txn_mod ms2 x (om_delete k)) as ms3 eqn:E3.
    destruct (txn_mod_facts _ _ _ _ E3 Hnh2 I2 Hfr Hlt) as [F3 [I3 [Hnh3 [Hfr3 [Hlt3 [O3 P3]]]]]].
    assert (Hc : fst (obj ms3 x) = om_delete k (t_c tv)) by now rewrite O3, Ho.
    assert (F : frame ms ms3) by (eapply frame_trans; eauto).
    simpl erase. simpl mdelete. rewrite Hc in E.
    destruct (om_delete k (t_c tv)) as [|[k1 v1] [|q r]] eqn:D.
    + injection E as <- <-. auto.
    + injection E as <- <-. auto.
    + destruct (txn_commit_store_spec ms3 x I3 Hnh3 Hfr3 Hlt3) as [F5 [I5 C5]].
      destruct (txn_commit true ms3 x) as [tv' ms5] eqn:TC. injection E as <- <-. simpl in F5, I5, C5.
      split; [|split; [|exact I5]].
      * simpl. now rewrite C5, Hc.
      * eapply frame_trans; eauto.
Qed.

Lemma x_txn_spec ms m x ms' : hinv ms -> x_txn ms m = (x, ms') ->
  frame ms ms' /\ hinv ms' /\ ~ held ms x /\ free ms' x /\ x < nxt ms' /\ fst (obj ms' x) = mtxn (erase m).
Proof.
  intros H E. unfold x_txn in E.
  assert (G : exists tv ms1, ensure_tree ms m = (tv, ms1) /\ frame ms ms1 /\ hinv ms1 /\ t_c tv = tree_of (erase m)).
  { destruct m as [|k v|tv]; simpl.
    - destruct (new_tree_spec ms H) as [F [I C]]. destruct (new_tree ms) as [tv ms1]. exists tv, ms1. auto.
    - destruct (new_tree_spec ms H) as [F [I C]]. destruct (new_tree ms) as [tv ms1]. exists tv, ms1. auto.
    - exists tv, ms. auto using frame_refl. }
  destruct G as [tv [ms1 [E1 [F1 [I1 C1]]]]]. rewrite E1 in E.
  destruct (tree_txn ms1 tv) as [x0 ms2] eqn:T. destruct (tree_txn_spec _ _ _ _ I1 T) as [F2 [I2 [Hnh [Hfr [Hlt Ho]]]]].
  assert (Hnh0 : ~ held ms x0). { rewrite <- (held_frame ms ms1); [auto|apply F1]. }
  assert (Hnh2 : ~ held ms2 x0). { rewrite (held_frame ms1 ms2); [auto|apply F2]. }
  destruct m as [|k v|tv0]; injection E as <- <-.
  - csplit; auto; try (eapply frame_trans; eauto). simpl. rewrite Ho. simpl. now rewrite C1.
  - csplit; auto.
    + eapply frame_trans; [exact F1|]. eapply frame_trans; [exact F2|]. now apply txn_mod_frame.
    + now apply txn_mod_hinv.
    + simpl. rewrite upd_same. simpl. rewrite Ho. simpl. now rewrite C1.
  - csplit; auto; try (eapply frame_trans; eauto). simpl. rewrite Ho. simpl. now rewrite C1.
Qed.

Lemma x_tcommit_nostore_spec ms x :
  erase (fst (x_tcommit false ms x)) = tcommit (fst (obj ms x)) /\ snd (x_tcommit false ms x) = ms.
Proof. unfold x_tcommit. destruct (fst (obj ms x)) as [|[k v] [|q r]] eqn:E; simpl; auto. now rewrite E. Qed.

(* ---------------------------------------------------------------- simulation *)
Definition sim (ms : mstate) (st : state) : Prop :=
  (forall i, xobs_map ms i = rget (maps st) i) /\ (forall t, xobs_txn ms t = rget (txns st) t).

Lemma rget_rput {A} (r : regs A) d a i :
  rget (rput r d a) i = match rget r d with Some _ => rget r i | None => if i =? d then Some a else rget r i end.
Proof.
  unfold rput. destruct (rget r d) eqn:E; auto. destruct (N.eqb_spec i d) as [->|Hne].
  - rewrite rget_app_none by auto. simpl. now rewrite N.eqb_refl.
  - destruct (rget r i) eqn:E2.
    + now apply rget_app.
    + rewrite rget_app_none by auto. simpl. destruct (N.eqb_spec i d); congruence.
Qed.

Lemma rget_rupd {A} (r : regs A) t a i :
  rget (rupd r t a) i = if i =? t then match rget r t with Some _ => Some a | None => None end else rget r i.
Proof.
  induction r as [|[j b] r IH]; simpl.
  - now destruct (i =? t).
  - destruct (N.eqb_spec t j) as [->|Hne]; simpl.
    + destruct (N.eqb_spec i j); auto.
    + rewrite IH. destruct (N.eqb_spec i j) as [->|Hne2]; auto.
      destruct (N.eqb_spec j t); congruence.
Qed.

Lemma sim_getm ms st s : sim ms st -> erase (xgetm ms s) = getm st s.
Proof.
  intros [S1 _]. unfold xgetm, getm. rewrite <- S1. unfold xobs_map. now destruct (xmaps ms s).
Qed.

(* writing a Map register after a heap operation that left registers and held objects alone *)
Lemma sim_putm ms ms' st d m pm : sim ms st -> frame ms ms' -> erase m = pm ->
  sim (xputm ms' d m) (putm st d pm).
Proof.
  intros [S1 S2] [F1 [F2 [F3 F4]]] Em. split.
  - intros i. simpl. rewrite rget_rput, <- !S1. unfold xputm, xobs_map. rewrite ?F1.
    destruct (xmaps ms d) eqn:E; simpl; rewrite ?F1; [reflexivity|]. unfold upd.
    destruct (i =? d); simpl; congruence.
  - intros t. simpl. rewrite <- S2. unfold xobs_txn.
    assert (G : forall ms2, xtxns ms2 = xtxns ms' -> obj ms2 = obj ms' ->
                option_map (fun x => fst (obj ms2 x)) (xtxns ms2 t) = option_map (fun x => fst (obj ms x)) (xtxns ms t)).
    { intros ms2 E1 E2. rewrite E1, E2, F2. destruct (xtxns ms t) as [x|] eqn:E; simpl; auto.
      rewrite F4; auto. now exists t. }
    unfold xputm. destruct (xmaps ms' d); apply G; reflexivity.
Qed.

Lemma xputm_hinv ms d m : hinv ms -> hinv (xputm ms d m).
Proof. intros [H1 H2 H3 H4]. unfold xputm. destruct (xmaps ms d); constructor; auto. Qed.

Lemma step_sim ms st o : hinv ms -> sim ms st -> txn_op o = true ->
  hinv (xstep false ms o) /\ sim (xstep false ms o) (step st o).
Proof.
  intros H S Ho. pose proof S as [S1 S2]. destruct o; try discriminate; simpl xstep; simpl step.
  - (* OMSet *)
    destruct (xmaps ms d) eqn:Ed.
    + split; auto. split; auto. intros i. simpl. rewrite rget_rput, <- !S1. unfold xobs_map at 2. now rewrite Ed.
    + destruct (x_mset ms (xgetm ms s) k v) as [m ms'] eqn:E. destruct (x_mset_spec _ _ _ _ _ _ H E) as [Em [F I]].
      split; [now apply xputm_hinv|]. eapply sim_putm; eauto. now rewrite Em, (sim_getm ms st).
  - (* OMDel *)
    destruct (xmaps ms d) eqn:Ed.
    + split; auto. split; auto. intros i. simpl. rewrite rget_rput, <- !S1. unfold xobs_map at 2. now rewrite Ed.
    + destruct (x_mdelete ms (xgetm ms s) k) as [m ms'] eqn:E. destruct (x_mdelete_spec _ _ _ _ _ H E) as [Em [F I]].
      split; [now apply xputm_hinv|]. eapply sim_putm; eauto. now rewrite Em, (sim_getm ms st).
  - (* OMTxn *)
    destruct (xtxns ms t) as [x0|] eqn:Et.
    + split; auto. split; auto. intros i. simpl. rewrite rget_rput, <- !S2. unfold xobs_txn at 2. now rewrite Et.
    + destruct (x_txn ms (xgetm ms s)) as [x ms'] eqn:E.
      destruct (x_txn_spec _ _ _ _ H E) as [[F1 [F2 [F3 F4]]] [[I1 I2 I3 I4] [Hnh [Hfr [Hlt Hc]]]]].
      assert (Hh : forall y, held ms' y <-> held ms y) by (intros y; now apply held_frame).
      split.
      * constructor; simpl.
        -- intros s0 y Hs. destruct (I1 _ _ Hs) as [Hl Hn]. split; auto. intros [t' Ht'].
           unfold upd in Ht'; simpl in Ht'. destruct (t' =? t).
           ++ injection Ht' as <-. now apply Hfr in Hs.
           ++ apply Hn. now exists t'.
        -- exact I2.
        -- intros y [t' Ht']. unfold upd in Ht'; simpl in Ht'. destruct (t' =? t); [injection Ht' as <-; auto|]. apply I3. now exists t'.
        -- intros t1 t2 y Ht1 Ht2. unfold upd in Ht1, Ht2; simpl in Ht1, Ht2.
           destruct (N.eqb_spec t1 t) as [->|N1], (N.eqb_spec t2 t) as [->|N2]; auto.
           ++ injection Ht1 as <-. exfalso. apply Hnh. exists t2. now rewrite <- F2.
           ++ injection Ht2 as <-. exfalso. apply Hnh. exists t1. now rewrite <- F2.
           ++ eauto.
      * split.
        -- intros i. simpl. rewrite <- S1. unfold xobs_map. simpl. now rewrite F1.
        -- intros t'. simpl. rewrite rget_rput, <- !S2. unfold xobs_txn. simpl. rewrite Et. simpl. unfold upd.
           destruct (t' =? t); simpl.
           ++ now rewrite Hc, (sim_getm ms st).
           ++ rewrite F2. destruct (xtxns ms t') as [y|] eqn:Ey; simpl; auto. rewrite F4; auto. now exists t'.
  - (* OTSet *)
    specialize (S2 t) as S2t. unfold xobs_txn in S2t. destruct (xtxns ms t) as [x|] eqn:Et; simpl in S2t; rewrite <- S2t; [|auto].
    split; [now apply txn_mod_hinv|]. split; [exact S1|].
    intros t'. simpl. rewrite rget_rupd, <- S2t, <- S2. unfold xobs_txn. simpl.
    destruct (N.eqb_spec t' t) as [->|Hne].
    + rewrite Et. simpl. now rewrite upd_same.
    + destruct (xtxns ms t') as [y|] eqn:Ey; simpl; auto. rewrite upd_other; auto.
      intros ->. apply Hne. destruct H as [_ _ _ H4]. eauto.
  - (* OTDel *)
    specialize (S2 t) as S2t. unfold xobs_txn in S2t. destruct (xtxns ms t) as [x|] eqn:Et; simpl in S2t; rewrite <- S2t; [|auto].
    split; [now apply txn_mod_hinv|]. split; [exact S1|].
    intros t'. simpl. rewrite rget_rupd, <- S2t, <- S2. unfold xobs_txn. simpl.
    destruct (N.eqb_spec t' t) as [->|Hne].
    + rewrite Et. simpl. now rewrite upd_same.
    + destruct (xtxns ms t') as [y|] eqn:Ey; simpl; auto. rewrite upd_other; auto.
      intros ->. apply Hne. destruct H as [_ _ _ H4]. eauto.
  - (* OTCommit *)
    specialize (S2 t) as S2t. unfold xobs_txn in S2t. destruct (xtxns ms t) as [x|] eqn:Et; simpl in S2t; rewrite <- S2t; [|auto].
    destruct (xmaps ms d) eqn:Ed.
    + split; auto. split; auto. intros i. simpl. rewrite rget_rput, <- !S1. unfold xobs_map at 2. now rewrite Ed.
    + destruct (x_tcommit_nostore_spec ms x) as [Em Es]. destruct (x_tcommit false ms x) as [m ms'].
      simpl in Em, Es. subst ms'. split; [now apply xputm_hinv|].
      eapply sim_putm; eauto using frame_refl.
Qed.

Lemma ms0_hinv : hinv ms0.
Proof. constructor; simpl; try discriminate. intros x [t Ht]. discriminate. Qed.
Lemma ms0_sim : sim ms0 st0.
Proof. split; reflexivity. Qed.

(* the fixed code: whatever sequence of Map/MapTxn operations runs over the register file, every Map
   register and every MapTxn shows exactly what the pure model (Model.run) shows *)
Theorem recycle_refines_pure ops : Forall (fun o => txn_op o = true) ops ->
  forall i t, xobs_map (xrun false ms0 ops) i = rget (maps (run st0 ops)) i /\
              xobs_txn (xrun false ms0 ops) t = rget (txns (run st0 ops)) t.
Proof.
  intros Hops.
  assert (G : forall ops ms st, Forall (fun o => txn_op o = true) ops -> hinv ms -> sim ms st ->
                sim (xrun false ms ops) (run st ops)).
  { clear. induction ops as [|o r IH]; intros ms st Hf H S; simpl; auto. inversion Hf; subst.
    destruct (step_sim ms st o H S) as [H' S']; auto. }
  destruct (G ops ms0 st0 Hops ms0_hinv ms0_sim) as [S1 S2]. intros i t. auto.
Qed.

(* before the fix (MapTxn.Commit offering its Txn for reuse): the committed map's next Set takes the
   object the MapTxn still wraps, and the transaction suddenly contains that write *)
Theorem recycle_old_refuted : exists ops t,
  Forall (fun o => txn_op o = true) ops /\
  xobs_txn (xrun true ms0 ops) t <> rget (txns (run st0 ops)) t.
Proof.
  exists [OMSet 1 0 [97] 1; OMSet 2 1 [98] 2; OMTxn 3 2; OTCommit 4 3; OMSet 5 4 [99] 3], 3.
  split; [repeat constructor|]. vm_compute. discriminate.
Qed.
