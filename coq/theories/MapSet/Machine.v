(* MapSet/Machine.v — the register-file machine (branching histories): persistence of every value
   already obtained, and the representation invariants of everything reachable. *)
From SV Require Import Base.Bytes Base.OrdMap MapSet.Model MapSet.OrdLemmas MapSet.Proofs MapSet.SetProofs.
From Coq Require Import ZifyN ZifyNat ZifyBool.
Open Scope N_scope.

Section Regs.
Context {A : Type}.
Lemma rget_app (r r' : regs A) i a : rget r i = Some a -> rget (r ++ r') i = Some a.
Proof. induction r as [|[j b] r IH]; simpl; [discriminate|]. destruct (i =? j); auto. Qed.

Lemma rget_app_none (r r' : regs A) i : rget r i = None -> rget (r ++ r') i = rget r' i.
Proof. induction r as [|[j b] r IH]; simpl; auto. destruct (i =? j); [discriminate|auto]. Qed.

Lemma rget_rput_old (r : regs A) i j a b : rget r i = Some a -> rget (rput r j b) i = Some a.
Proof. intros H. unfold rput. destruct (rget r j); auto. now apply rget_app. Qed.

Lemma rget_rput_new (r : regs A) j b : rget r j = None -> rget (rput r j b) j = Some b.
Proof. intros H. unfold rput. rewrite H, rget_app_none by auto. simpl. now rewrite N.eqb_refl. Qed.

Lemma rget_rput_inv (r : regs A) i j a b : rget (rput r j b) i = Some a -> rget r i = Some a \/ a = b.
Proof.
  unfold rput. destruct (rget r j) eqn:E; auto. destruct (rget r i) eqn:E2.
  - rewrite (rget_app r _ i a0 E2). auto.
  - rewrite rget_app_none by auto. simpl. destruct (i =? j); [|discriminate]. intros H. injection H. auto.
Qed.

Lemma rget_rupd_inv (r : regs A) i j a b : rget (rupd r j b) i = Some a -> rget r i = Some a \/ a = b.
Proof.
  induction r as [|[j' c] r IH]; simpl; auto. destruct (N.eqb_spec j j') as [->|Hne]; simpl.
  - destruct (i =? j'); auto. intros H. injection H. auto.
  - destruct (i =? j'); auto.
Qed.
End Regs.

(* ---------------------------------------------------------------- persistence *)
(* no operation changes a Map or Set register that already exists *)
Lemma step_maps_persist st o i m : rget (maps st) i = Some m -> rget (maps (step st o)) i = Some m.
Proof.
  intros H. destruct o; simpl; try (now apply rget_rput_old); auto;
    destruct (rget (txns st) t); simpl; auto; now apply rget_rput_old.
Qed.

Lemma step_sets_persist st o i s : rget (sets st) i = Some s -> rget (sets (step st o)) i = Some s.
Proof.
  intros H. destruct o; simpl; try (now apply rget_rput_old); auto;
    destruct (rget (txns st) t); simpl; auto.
Qed.

Lemma run_persist ops : forall st,
  (forall i m, rget (maps st) i = Some m -> rget (maps (run st ops)) i = Some m) /\
  (forall i s, rget (sets st) i = Some s -> rget (sets (run st ops)) i = Some s).
Proof.
  induction ops as [|o r IH]; intros st; simpl; [auto|]. destruct (IH (step st o)) as [IH1 IH2]. split.
  - intros i m H. apply IH1. now apply step_maps_persist.
  - intros i s H. apply IH2. now apply step_sets_persist.
Qed.

(* a fresh destination receives the operation's result *)
Lemma getm_putm_new st d m : rget (maps st) d = None -> getm (putm st d m) d = m.
Proof. intros H. unfold getm, putm. simpl. now rewrite rget_rput_new. Qed.
Lemma gets_puts_new st d s : rget (sets st) d = None -> gets (puts st d s) d = s.
Proof. intros H. unfold gets, puts. simpl. now rewrite rget_rput_new. Qed.

(* ---------------------------------------------------------------- reachable states *)
Definition st_inv (st : state) : Prop :=
  (forall i m, rget (maps st) i = Some m -> minv m) /\
  (forall i s, rget (sets st) i = Some s -> sinv s) /\
  (forall i t, rget (txns st) i = Some t -> om_sorted t).

(* raw decoding of hand-made input is inside the strong invariant only without duplicate keys *)
Definition op_ok (o : op) : Prop :=
  match o with OMDecJ _ l | OMDecY _ l => NoDup (map fst l) | _ => True end.

Lemma st0_inv : st_inv st0.
Proof. repeat split; intros i x H; discriminate. Qed.

Lemma getm_inv st i : st_inv st -> minv (getm st i).
Proof. intros [H _]. unfold getm. destruct (rget (maps st) i) eqn:E; [eauto|exact I]. Qed.
Lemma gets_inv st i : st_inv st -> sinv (gets st i).
Proof. intros [_ [H _]]. unfold gets. destruct (rget (sets st) i) eqn:E; [eauto|exact I]. Qed.

Lemma putm_inv st d m : st_inv st -> minv m -> st_inv (putm st d m).
Proof.
  intros [H1 [H2 H3]] Hm. repeat split; auto. simpl. intros i x H.
  apply rget_rput_inv in H. destruct H as [H| ->]; eauto.
Qed.
Lemma puts_inv st d s : st_inv st -> sinv s -> st_inv (puts st d s).
Proof.
  intros [H1 [H2 H3]] Hs. repeat split; auto. simpl. intros i x H.
  apply rget_rput_inv in H. destruct H as [H| ->]; eauto.
Qed.

Lemma step_inv st o : st_inv st -> op_ok o -> st_inv (step st o).
Proof.
  intros H Hok. pose proof (getm_inv st) as GM. pose proof (gets_inv st) as GS.
  destruct o; simpl in *.
  - apply putm_inv; auto. apply mset_inv; auto.
  - apply putm_inv; auto. apply mdelete_inv; auto.
  - apply putm_inv; auto. apply fromMap_inv; auto. apply hm_of_list_nodup.
  - destruct H as [H1 [H2 H3]]. repeat split; auto. simpl. intros i x Hx.
    apply rget_rput_inv in Hx. destruct Hx as [Hx| ->]; eauto. rewrite mtxn_abs. apply minv_sorted. apply GM. repeat split; auto.
  - destruct (rget (txns st) t) eqn:E; auto. destruct H as [H1 [H2 H3]]. repeat split; auto. simpl. intros i x Hx.
    apply rget_rupd_inv in Hx. destruct Hx as [Hx| ->]; eauto. apply om_insert_sorted. eauto.
  - destruct (rget (txns st) t) eqn:E; auto. destruct H as [H1 [H2 H3]]. repeat split; auto. simpl. intros i x Hx.
    apply rget_rupd_inv in Hx. destruct Hx as [Hx| ->]; eauto. apply om_delete_sorted. eauto.
  - destruct (rget (txns st) t) eqn:E; auto. apply putm_inv; auto. apply tcommit_inv. destruct H as [_ [_ H3]]. eauto.
  - apply putm_inv; auto. rewrite mdecode_mencode; auto.
  - apply putm_inv; auto. rewrite mdecode_yaml_json, mdecode_mencode; auto.
  - apply putm_inv; auto. now apply mdecode_inv.
  - apply putm_inv; auto. rewrite mdecode_yaml_json. now apply mdecode_inv.
  - apply puts_inv; auto. apply snew_inv.
  - apply puts_inv; auto. apply sset_inv; auto.
  - apply puts_inv; auto. apply sdelete_inv; auto.
  - apply puts_inv; auto. apply sunion_inv; auto.
  - apply puts_inv; auto. apply sdifference_inv; auto.
  - apply puts_inv; auto. apply sdecode_json_inv.
  - apply puts_inv; auto. apply sdecode_yaml_inv.
  - apply puts_inv; auto. apply sdecode_json_inv.
  - apply puts_inv; auto. apply sdecode_yaml_inv.
  - exact H.
Qed.

Lemma run_inv ops : forall st, st_inv st -> Forall op_ok ops -> st_inv (run st ops).
Proof.
  induction ops as [|o r IH]; intros st H Hok; simpl; auto. inversion Hok; subst.
  apply IH; auto. now apply step_inv.
Qed.

(* branching histories: whatever is executed afterwards, the contents (abs) of every value already
   in a register stay what they were — and they are the contents the register was created with *)
Lemma run_persist_abs ops st :
  (forall i m, rget (maps st) i = Some m -> abs (getm (run st ops) i) = abs m) /\
  (forall i s, rget (sets st) i = Some s -> sabs (gets (run st ops) i) = sabs s).
Proof.
  destruct (run_persist ops st) as [H1 H2]. split.
  - intros i m H. unfold getm. now rewrite (H1 i m H).
  - intros i s H. unfold gets. now rewrite (H2 i s H).
Qed.
