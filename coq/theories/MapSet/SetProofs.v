(* MapSet/SetProofs.v — part.Set refines the ordered map key -> element. *)
From SV Require Import Base.Bytes Base.OrdMap MapSet.Model MapSet.OrdLemmas.
From Coq Require Import ZifyN ZifyNat ZifyBool.
Open Scope N_scope.

(* the mathematical set (as key -> stored element) denoted by a part.Set *)
Definition sabs (s : pset) : tree := stree s.
Definition sinv (s : pset) : Prop := om_sorted (sabs s).

Lemma sinv_none tb : sinv (SNone tb). Proof. exact I. Qed.

Lemma snew_abs l : sabs (snew l) = ins_all l [].
Proof. destruct l; reflexivity. Qed.
Lemma snew_inv l : sinv (snew l).
Proof. unfold sinv. rewrite snew_abs. apply ins_all_sorted. exact I. Qed.

Lemma sset_abs s k v : sabs (sset s k v) = om_insert k v (sabs s).
Proof. reflexivity. Qed.
Lemma sset_inv s k v : sinv s -> sinv (sset s k v).
Proof. unfold sinv. rewrite sset_abs. apply om_insert_sorted. Qed.

Lemma sdelete_abs s k : sabs (sdelete s k) = om_delete k (sabs s).
Proof. destruct s as [tb|t]; simpl; auto. destruct (om_delete k t); reflexivity. Qed.
Lemma sdelete_inv s k : sinv s -> sinv (sdelete s k).
Proof. unfold sinv. rewrite sdelete_abs. apply om_delete_sorted. Qed.

Lemma shas_abs s k : shas s k = match om_get k (sabs s) with Some _ => true | None => false end.
Proof. destruct s; reflexivity. Qed.
Lemma slen_abs s : slen s = N.of_nat (length (sabs s)).
Proof. reflexivity. Qed.
Lemma sall_abs s : sall s = sabs s.
Proof. reflexivity. Qed.

(* Union: the elements of s2 are written over s (for a key in both, s2's element is kept) *)
Lemma sunion_abs s s2 : sinv s2 -> sabs (sunion s s2) = ins_all (sabs s2) (sabs s).
Proof.
  intros H2. destruct s2 as [tb2|t2]; simpl; auto. destruct s as [tb|t1]; simpl; auto.
  symmetry. now apply ins_all_sorted_id.
Qed.
Lemma sunion_inv s s2 : sinv s -> sinv s2 -> sinv (sunion s s2).
Proof. intros H H2. unfold sinv. rewrite sunion_abs by auto. now apply ins_all_sorted. Qed.
Lemma sunion_get s s2 k : sinv s -> sinv s2 ->
  om_get k (sabs (sunion s s2)) = match om_get k (sabs s2) with Some v => Some v | None => om_get k (sabs s) end.
Proof.
  intros H H2. rewrite sunion_abs by auto. rewrite ins_all_get by auto. now rewrite assoc_last_sorted.
Qed.

(* Difference: every key of s2 is deleted from s *)
Lemma sdifference_abs s s2 : sabs (sdifference s s2) = del_all (om_keys (sabs s2)) (sabs s).
Proof.
  destruct s as [tb|t1], s2 as [tb2|t2]; simpl; auto; now rewrite del_all_nil.
Qed.
Lemma sdifference_inv s s2 : sinv s -> sinv (sdifference s s2).
Proof. intros H. unfold sinv. rewrite sdifference_abs. now apply del_all_sorted. Qed.
Lemma sdifference_get s s2 k : sinv s -> sinv s2 ->
  om_get k (sabs (sdifference s s2)) = match om_get k (sabs s2) with Some _ => None | None => om_get k (sabs s) end.
Proof.
  intros H H2. rewrite sdifference_abs, del_all_get by auto. rewrite existsb_keys by auto.
  now destruct (om_get k (sabs s2)).
Qed.

(* Equal decides equality of the key sets (no invariant needed) *)
Lemma sequal_spec s o : sequal s o = true <-> om_keys (sabs s) = om_keys (sabs o).
Proof.
  assert (G : forall t1 t2 : tree,
    (if negb (N.of_nat (length t1) =? N.of_nat (length t2)) then false else keys_eq_loop t1 t2) = true <->
    om_keys t1 = om_keys t2).
  { intros t1 t2. destruct (N.eqb_spec (N.of_nat (length t1)) (N.of_nat (length t2))) as [E|E]; simpl.
    - apply keys_eq_loop_spec. lia.
    - split; [discriminate|]. intros H. exfalso. apply E. f_equal.
      unfold om_keys in H. rewrite <- (map_length fst t1), <- (map_length fst t2). now rewrite H. }
  destruct s as [tb|t1], o as [tb2|t2]; unfold sequal, slen, sabs; simpl stree; try apply G.
  simpl. tauto.
Qed.

(* codecs *)
Lemma sdecode_json_abs l : sabs (sdecode_json l) = ins_all l [].
Proof. unfold sdecode_json. destruct (ins_all l []); reflexivity. Qed.
Lemma sdecode_yaml_abs l : sabs (sdecode_yaml l) = ins_all l [].
Proof. reflexivity. Qed.
Lemma sdecode_json_inv l : sinv (sdecode_json l).
Proof. unfold sinv. rewrite sdecode_json_abs. apply ins_all_sorted. exact I. Qed.
Lemma sdecode_yaml_inv l : sinv (sdecode_yaml l).
Proof. unfold sinv. rewrite sdecode_yaml_abs. apply ins_all_sorted. exact I. Qed.
Lemma sdecode_sencode s : sinv s ->
  sabs (sdecode_json (sencode s)) = sabs s /\ sabs (sdecode_yaml (sencode s)) = sabs s.
Proof.
  intros H. rewrite sdecode_json_abs, sdecode_yaml_abs. unfold sencode. rewrite sall_abs.
  split; now apply ins_all_sorted_id.
Qed.
