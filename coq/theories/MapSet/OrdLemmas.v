(* MapSet/OrdLemmas.v — further lemmas about Base/OrdMap.v needed by the Map/Set proofs:
   sequences of inserts/deletes ("later writes win"), re-inserting a sorted list, lengths. *)
From SV Require Import Base.Bytes Base.OrdMap MapSet.Model.
Open Scope N_scope.

Lemma bytes_eqb_sym a b : bytes_eqb a b = bytes_eqb b a.
Proof.
  destruct (bytes_eqb a b) eqn:E1, (bytes_eqb b a) eqn:E2; auto.
  - apply bytes_eqb_spec in E1. subst. now rewrite bytes_eqb_refl in E2.
  - apply bytes_eqb_spec in E2. subst. now rewrite bytes_eqb_refl in E1.
Qed.

Lemma bytes_eqb_false a b : bytes_eqb a b = false <-> a <> b.
Proof.
  split.
  - intros E H. subst. now rewrite bytes_eqb_refl in E.
  - intros H. destruct (bytes_eqb a b) eqn:E; auto. apply bytes_eqb_spec in E. contradiction.
Qed.

(* all five comparison results at once *)
Lemma cmp_full k k' :
  (k = k' /\ bytes_eqb k k' = true /\ bytes_eqb k' k = true /\ bytes_ltb k k' = false /\ bytes_ltb k' k = false) \/
  (lex_lt k k' /\ k <> k' /\ bytes_eqb k k' = false /\ bytes_eqb k' k = false /\ bytes_ltb k k' = true /\ bytes_ltb k' k = false) \/
  (lex_lt k' k /\ k <> k' /\ bytes_eqb k k' = false /\ bytes_eqb k' k = false /\ bytes_ltb k k' = false /\ bytes_ltb k' k = true).
Proof.
  destruct (bytes_cmp_cases k k') as [[E ->]|[[E [L Hl]]|[E [L Hl]]]].
  - left. rewrite bytes_eqb_refl, bytes_ltb_irrefl. auto.
  - right; left. assert (k <> k') by now apply bytes_eqb_false.
    repeat split; auto. + now rewrite bytes_eqb_sym.
    + destruct (bytes_ltb k' k) eqn:L2; auto. apply bytes_ltb_spec in L2. exfalso. eapply lex_lt_asym; eauto.
  - right; right. assert (k <> k') by now apply bytes_eqb_false.
    repeat split; auto. + now rewrite bytes_eqb_sym. + now apply bytes_ltb_spec.
Qed.

Section L.
Notation tree := (omap val).

Lemma sorted_single (k : bytes) (v : val) : om_sorted [(k, v)].
Proof. simpl. split; [constructor|exact I]. Qed.

Lemma om_get_some_in k (t : tree) x : om_get k t = Some x -> In (k, x) t.
Proof.
  induction t as [|[k' v'] r IH]; simpl; [discriminate|].
  destruct (bytes_eqb k k') eqn:E.
  - apply bytes_eqb_spec in E. subst. intros H. injection H as ->. now left.
  - destruct (bytes_ltb k k'); [discriminate|]. intros H. right. auto.
Qed.

Lemma om_get_in k x (t : tree) : om_sorted t -> In (k, x) t -> om_get k t = Some x.
Proof.
  induction t as [|[k' v'] r IH]; simpl; [tauto|]. intros [Ha Hs] [H|H].
  - injection H as -> ->. now rewrite bytes_eqb_refl.
  - assert (Hl : lex_lt k' k).
    { unfold om_above in Ha. rewrite Forall_forall in Ha. exact (Ha _ H). }
    destruct (cmp_full k k') as [[-> _]|[[Hl2 _]|[_ [_ [E [_ [L _]]]]]]].
    + now apply lex_lt_irrefl in Hl.
    + exfalso. eapply lex_lt_asym; eauto.
    + rewrite E, L. auto.
Qed.

Lemma om_get_singleton_some k1 k (v a : val) : om_get k1 [(k, v)] = Some a -> k1 = k /\ a = v.
Proof.
  simpl. destruct (bytes_eqb k1 k) eqn:E.
  - apply bytes_eqb_spec in E. intros H. injection H as ->. auto.
  - destruct (bytes_ltb k1 k); discriminate.
Qed.

Lemma two_keys_length k1 k2 (t : tree) a b :
  om_get k1 t = Some a -> om_get k2 t = Some b -> k1 <> k2 -> (2 <= length t)%nat.
Proof.
  destruct t as [|[k v] [|q r]]; simpl length; try lia.
  - discriminate.
  - intros H1 H2 Hne. apply om_get_singleton_some in H1, H2. destruct H1, H2. congruence.
Qed.

Lemma om_insert_length_ge k v (t : tree) : (length t <= length (om_insert k v t))%nat.
Proof.
  induction t as [|[k' v'] r IH]; simpl; [lia|].
  destruct (bytes_eqb k k'); simpl; [lia|]. destruct (bytes_ltb k k'); simpl; lia.
Qed.

Lemma sorted_nodup (t : tree) : om_sorted t -> NoDup (om_keys t).
Proof.
  induction t as [|[k v] r IH]; simpl; intros H; [constructor|]. destruct H as [Ha Hs].
  constructor; auto. intros Hin. apply om_keys_sorted_above in Ha. rewrite Forall_forall in Ha.
  exact (lex_lt_irrefl _ (Ha _ Hin)).
Qed.

(* ---- runs of inserts: the last write to a key wins *)
Fixpoint assoc_last (k : bytes) (l : list kv) : option val :=
  match l with
  | [] => None
  | (k', v) :: r => match assoc_last k r with
                    | Some x => Some x
                    | None => if bytes_eqb k k' then Some v else None
                    end
  end.

Lemma ins_all_cons k v r (t : tree) : ins_all ((k, v) :: r) t = ins_all r (om_insert k v t).
Proof. reflexivity. Qed.

Lemma ins_all_sorted l : forall t, om_sorted t -> om_sorted (ins_all l t).
Proof.
  induction l as [|[k v] r IH]; intros t H; [exact H|]. rewrite ins_all_cons. apply IH. now apply om_insert_sorted.
Qed.

Lemma ins_all_get k l : forall t, om_sorted t ->
  om_get k (ins_all l t) = match assoc_last k l with Some v => Some v | None => om_get k t end.
Proof.
  induction l as [|[k' v] r IH]; intros t H; [reflexivity|].
  rewrite ins_all_cons. rewrite IH by now apply om_insert_sorted. simpl.
  destruct (assoc_last k r); auto.
  destruct (bytes_eqb k k') eqn:E.
  - apply bytes_eqb_spec in E. subst. apply om_get_insert_same.
  - apply om_get_insert_other; auto. now apply bytes_eqb_false.
Qed.

Lemma assoc_last_in k l : In k (map fst l) -> exists v, assoc_last k l = Some v.
Proof.
  induction l as [|[k' v] r IH]; simpl; [tauto|]. intros [H|H].
  - subst. rewrite bytes_eqb_refl. destruct (assoc_last k r); eauto.
  - destruct (IH H) as [x ->]. eauto.
Qed.

Lemma assoc_last_notin k l : ~ In k (map fst l) -> assoc_last k l = None.
Proof.
  induction l as [|[k' v] r IH]; simpl; auto. intros H.
  rewrite IH by tauto. destruct (bytes_eqb k k') eqn:E; auto.
  apply bytes_eqb_spec in E. subst. tauto.
Qed.

(* with pairwise distinct keys the binding is the one listed *)
Lemma assoc_last_nodup k v l : NoDup (map fst l) -> In (k, v) l -> assoc_last k l = Some v.
Proof.
  induction l as [|[k' v'] r IH]; simpl; [tauto|]. intros Hn [H|H]; inversion Hn; subst.
  - injection H as -> ->. rewrite assoc_last_notin by auto. now rewrite bytes_eqb_refl.
  - now rewrite IH.
Qed.

Lemma assoc_last_sorted k (t : tree) : om_sorted t -> assoc_last k t = om_get k t.
Proof.
  induction t as [|[k' v] r IH]; simpl; auto. intros [Ha Hs]. rewrite IH by auto.
  destruct (om_get k r) eqn:G.
  - apply om_get_some_in in G. unfold om_above in Ha. rewrite Forall_forall in Ha. specialize (Ha _ G). simpl in Ha.
    destruct (cmp_full k k') as [[-> _]|[[Hl2 _]|[_ [_ [E [_ [L _]]]]]]].
    + now apply lex_lt_irrefl in Ha.
    + exfalso. eapply lex_lt_asym; eauto.
    + rewrite E, L. reflexivity.
  - destruct (bytes_eqb k k'); auto. now destruct (bytes_ltb k k').
Qed.

(* ---- re-inserting a sorted list reproduces it *)
Lemma om_insert_last k v r : forall acc : tree, om_sorted (acc ++ (k, v) :: r) -> om_insert k v acc = acc ++ [(k, v)].
Proof.
  induction acc as [|[k' v'] acc IH]; simpl; auto. intros [Ha Hs].
  assert (Hl : lex_lt k' k).
  { unfold om_above in Ha. rewrite Forall_forall in Ha. apply (Ha (k, v)). apply in_or_app. right. now left. }
  destruct (cmp_full k k') as [[-> _]|[[Hl2 _]|[_ [_ [E [_ [L _]]]]]]].
  - now apply lex_lt_irrefl in Hl.
  - exfalso. eapply lex_lt_asym; eauto.
  - rewrite E, L. f_equal. auto.
Qed.

Lemma ins_all_sorted_app l : forall acc : tree, om_sorted (acc ++ l) -> ins_all l acc = acc ++ l.
Proof.
  induction l as [|[k v] r IH]; intros acc H.
  - simpl. now rewrite app_nil_r.
  - rewrite ins_all_cons. rewrite (om_insert_last k v r) by auto.
    rewrite IH; rewrite <- app_assoc; auto.
Qed.

Lemma ins_all_sorted_id (t : tree) : om_sorted t -> ins_all t [] = t.
Proof. intros H. now rewrite (ins_all_sorted_app t []). Qed.

(* ---- runs of deletes *)
Lemma del_all_sorted ks : forall t : tree, om_sorted t -> om_sorted (del_all ks t).
Proof.
  induction ks as [|k r IH]; intros t H; simpl; auto. apply IH. now apply om_delete_sorted.
Qed.

Lemma del_all_nil ks : del_all ks ([] : tree) = [].
Proof. induction ks; simpl; auto. Qed.

Lemma del_all_get k ks : forall t : tree, om_sorted t ->
  om_get k (del_all ks t) = if existsb (bytes_eqb k) ks then None else om_get k t.
Proof.
  induction ks as [|k' r IH]; intros t H; simpl; auto.
  rewrite IH by now apply om_delete_sorted.
  destruct (bytes_eqb k k') eqn:E; simpl.
  - apply bytes_eqb_spec in E. subst. rewrite om_get_delete_same by auto. now destruct (existsb _ r).
  - rewrite om_get_delete_other; auto. now apply bytes_eqb_false.
Qed.

Lemma existsb_keys k (t : tree) : om_sorted t ->
  existsb (bytes_eqb k) (om_keys t) = match om_get k t with Some _ => true | None => false end.
Proof.
  intros Hs. destruct (om_get k t) eqn:G.
  - apply om_get_some_in in G. apply existsb_exists. exists k. split; [|apply bytes_eqb_refl].
    unfold om_keys. change k with (fst (k, v)). now apply in_map.
  - destruct (existsb (bytes_eqb k) (om_keys t)) eqn:E; auto.
    apply existsb_exists in E. destruct E as [k' [Hin E]]. apply bytes_eqb_spec in E. subst k'.
    unfold om_keys in Hin. apply in_map_iff in Hin. destruct Hin as [[k2 v2] [Hf Hin]]. simpl in Hf. subst k2.
    rewrite (om_get_in k v2 t Hs Hin) in G. discriminate.
Qed.

(* ---- the comparison loops *)
Lemma keys_eq_loop_spec (t1 : tree) : forall t2 : tree, length t1 = length t2 ->
  (keys_eq_loop t1 t2 = true <-> om_keys t1 = om_keys t2).
Proof.
  induction t1 as [|[k1 v1] r1 IH]; intros [|[k2 v2] r2]; simpl; try discriminate; [tauto|].
  intros H. injection H as H. rewrite andb_true_iff, bytes_eqb_spec, (IH r2 H).
  split; [intros [-> ->]; reflexivity|]. intros E. injection E as -> E. auto.
Qed.

Lemma kvs_eq_loop_spec (t1 : tree) : forall t2 : tree, length t1 = length t2 ->
  (kvs_eq_loop t1 t2 = true <-> t1 = t2).
Proof.
  induction t1 as [|[k1 v1] r1 IH]; intros [|[k2 v2] r2]; simpl; try discriminate; [tauto|].
  intros H. injection H as H. rewrite !andb_true_iff, bytes_eqb_spec, N.eqb_eq, (IH r2 H).
  split; [intros [[-> ->] ->]; reflexivity|]. intros E. injection E as -> -> ->. auto.
Qed.
End L.
