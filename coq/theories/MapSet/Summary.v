(* MapSet/Summary.v — the statements of Properties/C17.v assembled from the lemmas of
   Proofs.v / SetProofs.v / Machine.v. *)
From SV Require Import Base.Bytes Base.OrdMap MapSet.Model MapSet.OrdLemmas MapSet.Proofs MapSet.SetProofs MapSet.Machine.
Open Scope N_scope.

Ltac csplit := repeat match goal with |- _ /\ _ => split end.

Lemma map_invariant :
  minv MEmpty /\
  (forall m k v, minv m -> minv (mset m k v)) /\
  (forall m k, minv m -> minv (mdelete m k)) /\
  (forall m hm, minv m -> NoDup (map fst hm) -> minv (fromMap m hm)) /\
  (forall m ops, minv m -> minv (tcommit (fold_left apply_txop ops (mtxn m)))) /\
  (forall l, NoDup (map fst l) -> minv (mdecode_json l) /\ minv (mdecode_yaml l)) /\
  (forall l, minv_weak (mdecode_json l) /\ minv_weak (mdecode_yaml l)) /\
  (forall m, minv m -> om_sorted (abs m)).
Proof.
  repeat split; auto using mset_inv, mdelete_inv, fromMap_inv, txn_commit_inv, mdecode_inv, mdecode_weak_inv, minv_sorted.
Qed.

Lemma map_ops_exact :
  (forall m k v, abs (mset m k v) = om_insert k v (abs m)) /\
  (forall m k, abs (mdelete m k) = om_delete k (abs m)) /\
  (forall m hm, abs (fromMap m hm) = ins_all hm (abs m)) /\
  (forall m ops, abs (tcommit (fold_left apply_txop ops (mtxn m))) = fold_left spec_txop ops (abs m)) /\
  (forall m ops1 ops2, abs (tcommit (fold_left apply_txop ops2 (fold_left apply_txop ops1 (mtxn m)))) =
                       fold_left spec_txop ops2 (abs (tcommit (fold_left apply_txop ops1 (mtxn m))))) /\
  (forall l, abs (mdecode_json l) = ins_all l [] /\ abs (mdecode_yaml l) = ins_all l []).
Proof.
  repeat split; auto using mset_abs, mdelete_abs, fromMap_abs, txn_commit_abs, mdecode_abs.
  intros m ops1 ops2. apply (txn_reuse_abs m ops1 ops2).
Qed.

Lemma mget_mset m k v k' : minv m -> mget (mset m k v) k' = if bytes_eqb k' k then Some v else mget m k'.
Proof.
  intros H. rewrite !mget_abs, mset_abs. destruct (bytes_eqb k' k) eqn:E.
  - apply bytes_eqb_spec in E. subst. apply om_get_insert_same.
  - apply om_get_insert_other; [now apply bytes_eqb_false|now apply minv_sorted].
Qed.

Lemma mget_mdelete m k k' : minv m -> mget (mdelete m k) k' = if bytes_eqb k' k then None else mget m k'.
Proof.
  intros H. rewrite !mget_abs, mdelete_abs. destruct (bytes_eqb k' k) eqn:E.
  - apply bytes_eqb_spec in E. subst. apply om_get_delete_same. now apply minv_sorted.
  - apply om_get_delete_other; [now apply bytes_eqb_false|now apply minv_sorted].
Qed.

Lemma later_write_wins :
  (forall m k v k', minv m -> mget (mset m k v) k' = if bytes_eqb k' k then Some v else mget m k') /\
  (forall m k k', minv m -> mget (mdelete m k) k' = if bytes_eqb k' k then None else mget m k') /\
  (forall m hm k, minv m ->
     mget (fromMap m hm) k = match assoc_last k hm with Some v => Some v | None => mget m k end) /\
  (forall m hm k v, minv m -> NoDup (map fst hm) -> In (k, v) hm -> mget (fromMap m hm) k = Some v) /\
  (forall m hm k, minv m -> ~ In k (map fst hm) -> mget (fromMap m hm) k = mget m k) /\
  (forall l k, mget (mdecode_json l) k = assoc_last k l /\ mget (mdecode_yaml l) k = assoc_last k l) /\
  (forall l1 k v l2, ~ In k (map fst l2) -> assoc_last k (l1 ++ (k, v) :: l2) = Some v).
Proof.
  repeat split; auto using mget_mset, mget_mdelete, fromMap_get, fromMap_get_in, fromMap_get_notin, mdecode_get.
  intros l1 k v l2 H. induction l1 as [|[k1 v1] l1 IH]; simpl.
  - rewrite assoc_last_notin by auto. now rewrite bytes_eqb_refl.
  - now rewrite IH.
Qed.

Lemma map_reads_consistent :
  (forall m k, mget m k = om_get k (abs m)) /\
  (forall m, mlen m = N.of_nat (length (abs m))) /\
  (forall m, mall m = abs m) /\
  (forall m p, mprefix m p = om_prefix p (abs m)) /\
  (forall m from, mlower m from = om_lower_bound from (abs m)) /\
  (forall m lim, take lim (mall m) = firstn lim (abs m)) /\
  (forall m, minv m -> om_sorted (mall m)) /\
  (forall m p, minv m -> om_sorted (mprefix m p)) /\
  (forall m from, minv m -> om_sorted (mlower m from) /\
     forall e, In e (mlower m from) <-> In e (abs m) /\ bytes_ltb (fst e) from = false).
Proof.
  csplit; auto using mget_abs, mlen_abs, mall_abs, mprefix_abs, mlower_abs, take_abs, mall_sorted.
  - intros m p H. rewrite mprefix_abs. apply om_prefix_sorted. now apply minv_sorted.
  - intros m from H. rewrite mlower_abs. split.
    + apply om_lower_bound_sorted. now apply minv_sorted.
    + apply om_lower_bound_spec. now apply minv_sorted.
Qed.

Lemma txn_reads_consistent m ops :
  let t := fold_left apply_txop ops (mtxn m) in
  let a := fold_left spec_txop ops (abs m) in
  (forall k, tget t k = om_get k a) /\ tlen t = N.of_nat (length a) /\ tall t = a /\
  (forall p, tprefix t p = om_prefix p a) /\ (forall from, tlower t from = om_lower_bound from a) /\
  (forall k, snd (tdelete t k) = true <-> om_get k a <> None) /\
  (minv m -> om_sorted a).
Proof.
  simpl. rewrite apply_txops_spec, mtxn_abs. csplit; auto.
  - intros k. apply tdelete_found.
  - intros H. apply spec_txops_sorted. now apply minv_sorted.
Qed.

Lemma map_equality_decides :
  (forall m o, minv m -> minv o -> (mequalKeys m o = true <-> om_keys (abs m) = om_keys (abs o))) /\
  (forall m o, minv m -> minv o -> (mslowEqual m o = true <-> abs m = abs o)) /\
  (forall m o, minv m -> minv o -> abs m = abs o -> m = o).
Proof. repeat split; try apply mequalKeys_spec; try apply mslowEqual_spec; auto. apply abs_inj. Qed.

Lemma map_roundtrip :
  (forall m, minv m -> mdecode_json (mencode m) = m /\ mdecode_yaml (mencode m) = m) /\
  (forall m, minv_weak m -> abs (mdecode_json (mencode m)) = abs m /\ abs (mdecode_yaml (mencode m)) = abs m).
Proof.
  split; intros m H; split; try rewrite mdecode_yaml_json; auto using mdecode_mencode, mdecode_mencode_abs.
Qed.

Lemma set_invariant :
  (forall tb, sinv (SNone tb)) /\ (forall l, sinv (snew l)) /\
  (forall s k v, sinv s -> sinv (sset s k v)) /\ (forall s k, sinv s -> sinv (sdelete s k)) /\
  (forall s s2, sinv s -> sinv s2 -> sinv (sunion s s2)) /\
  (forall s s2, sinv s -> sinv (sdifference s s2)) /\
  (forall l, sinv (sdecode_json l) /\ sinv (sdecode_yaml l)).
Proof.
  repeat split; auto using sinv_none, snew_inv, sset_inv, sdelete_inv, sunion_inv, sdifference_inv, sdecode_json_inv, sdecode_yaml_inv.
Qed.

Lemma set_ops_exact :
  (forall l, sabs (snew l) = ins_all l []) /\
  (forall s k v, sabs (sset s k v) = om_insert k v (sabs s)) /\
  (forall s k, sabs (sdelete s k) = om_delete k (sabs s)) /\
  (forall s s2, sinv s2 -> sabs (sunion s s2) = ins_all (sabs s2) (sabs s)) /\
  (forall s s2 k, sinv s -> sinv s2 ->
     om_get k (sabs (sunion s s2)) = match om_get k (sabs s2) with Some v => Some v | None => om_get k (sabs s) end) /\
  (forall s s2, sabs (sdifference s s2) = del_all (om_keys (sabs s2)) (sabs s)) /\
  (forall s s2 k, sinv s -> sinv s2 ->
     om_get k (sabs (sdifference s s2)) = match om_get k (sabs s2) with Some _ => None | None => om_get k (sabs s) end) /\
  (forall s k, shas s k = match om_get k (sabs s) with Some _ => true | None => false end) /\
  (forall s, slen s = N.of_nat (length (sabs s))) /\
  (forall s, sall s = sabs s) /\
  (forall l, sabs (sdecode_json l) = ins_all l [] /\ sabs (sdecode_yaml l) = ins_all l []).
Proof.
  repeat split; auto using snew_abs, sunion_abs, sunion_get, sdifference_abs, sdifference_get, shas_abs, sdelete_abs, sdecode_json_abs.
Qed.

Lemma set_equal_roundtrip :
  (forall s o, sequal s o = true <-> om_keys (sabs s) = om_keys (sabs o)) /\
  (forall s, sinv s -> sabs (sdecode_json (sencode s)) = sabs s /\ sabs (sdecode_yaml (sencode s)) = sabs s).
Proof. split; [apply sequal_spec|apply sdecode_sencode]. Qed.

Lemma persistence : forall st ops,
  (forall i m, rget (maps st) i = Some m ->
     rget (maps (run st ops)) i = Some m /\ abs (getm (run st ops) i) = abs m) /\
  (forall i s, rget (sets st) i = Some s ->
     rget (sets (run st ops)) i = Some s /\ sabs (gets (run st ops) i) = sabs s) /\
  (st_inv st -> Forall op_ok ops -> st_inv (run st ops)).
Proof.
  intros st ops. destruct (run_persist ops st) as [P1 P2]. destruct (run_persist_abs ops st) as [A1 A2].
  csplit; intros; csplit; auto. now apply run_inv.
Qed.

(* each operation of the machine writes its specified result into a fresh register *)
Lemma machine_results st :
  (forall d s k v, rget (maps st) d = None ->
     abs (getm (step st (OMSet d s k v)) d) = om_insert k v (abs (getm st s))) /\
  (forall d s k, rget (maps st) d = None ->
     abs (getm (step st (OMDel d s k)) d) = om_delete k (abs (getm st s))) /\
  (forall d s hm, rget (maps st) d = None ->
     abs (getm (step st (OMFrom d s hm)) d) = ins_all (hm_of_list hm) (abs (getm st s))) /\
  (forall d t x, rget (maps st) d = None -> rget (txns st) t = Some x ->
     abs (getm (step st (OTCommit d t)) d) = x) /\
  (forall d a b, rget (sets st) d = None -> st_inv st ->
     sabs (gets (step st (OSUnion d a b)) d) = ins_all (sabs (gets st b)) (sabs (gets st a))) /\
  (forall d a b, rget (sets st) d = None ->
     sabs (gets (step st (OSDiff d a b)) d) = del_all (om_keys (sabs (gets st b))) (sabs (gets st a))).
Proof.
  repeat split; intros; simpl.
  - rewrite getm_putm_new by auto. apply mset_abs.
  - rewrite getm_putm_new by auto. apply mdelete_abs.
  - rewrite getm_putm_new by auto. apply fromMap_abs.
  - rewrite H0. rewrite getm_putm_new by auto. apply tcommit_abs.
  - rewrite gets_puts_new by auto. apply sunion_abs. now apply gets_inv.
  - rewrite gets_puts_new by auto. apply sdifference_abs.
Qed.
