(* MapSet/Model.v — executable model of part.Map, part.MapTxn and part.Set (part/map.go, part/set.go).
   The radix tree underneath (part.Tree / part.Txn) is property C11's business: here it is the
   abstract ordered map `omap` of Base/OrdMap.v (Txn.Insert = om_insert, Txn.Delete = om_delete,
   Iterator = the sorted list, Prefix = om_prefix, LowerBound = om_lower_bound, size = length).
   Keys are the byte strings produced by the registered bytesFromKey function (part/registry.go);
   values are N. No proofs here. *)
From SV Require Export Base.Bytes Base.OrdMap.
Open Scope N_scope.

Definition val := N.
Definition kv := (bytes * val)%type.
Definition tree := omap val.

(* ------------------------------------------------------------------ part.Map *)
(* type Map struct { singleton *mapKVPair; tree Tree; hasTree bool }
     MEmpty      : singleton == nil && !hasTree
     MSingle k v : singleton != nil && !hasTree
     MTree t     : singleton == nil &&  hasTree
   (singleton != nil && hasTree is never constructed: every assignment to singleton happens with
    hasTree false or sets it false — Set's first branch, Delete case 1, MapTxn.Commit, decoders.) *)
Inductive pmap := MEmpty | MSingle (k : bytes) (v : val) | MTree (t : tree).

(* m.tree as seen by code that reads it without checking hasTree (the zero Tree iterates as empty) *)
Definition tree_of (m : pmap) : tree := match m with MTree t => t | _ => [] end.
Definition has_tree (m : pmap) : bool := match m with MTree _ => true | _ => false end.

(* Txn.Insert(key, value) on the tree of a transaction, pair form *)
Definition ins (t : tree) (p : kv) : tree := om_insert (fst p) (snd p) t.
(* a run of Txn.Insert calls in the given order *)
Definition ins_all (l : list kv) (t : tree) : tree := fold_left ins l t.
Definition del_all (ks : list bytes) (t : tree) : tree := fold_left (fun t k => om_delete k t) ks t.

(* Map.Get *)
Definition mget (m : pmap) (k : bytes) : option val :=
  match m with
  | MEmpty => None
  | MSingle k' v' => if bytes_eqb k' k then Some v' else None
  | MTree t => om_get k t
  end.

(* Map.Set: empty -> singleton; singleton with the same key -> singleton; singleton with another key ->
   tree holding the new pair (inserted first) and the old singleton (inserted second); tree -> insert *)
Definition mset (m : pmap) (k : bytes) (v : val) : pmap :=
  match m with
  | MEmpty => MSingle k v
  | MSingle k' v' => if bytes_eqb k k' then MSingle k v
                     else MTree (om_insert k' v' (om_insert k v []))
  | MTree t => MTree (om_insert k v t)
  end.

(* Map.Delete: singleton -> empty when the key matches; tree -> switch on txn.Len() after the delete:
   0 -> empty, 1 -> singleton holding the remaining pair, otherwise the committed tree *)
Definition mdelete (m : pmap) (k : bytes) : pmap :=
  match m with
  | MEmpty => MEmpty
  | MSingle k' v' => if bytes_eqb k' k then MEmpty else m
  | MTree t => match om_delete k t with
               | [] => MEmpty
               | [(k1, v1)] => MSingle k1 v1
               | t' => MTree t'
               end
  end.

(* Map.Len *)
Definition mlen (m : pmap) : N :=
  match m with MEmpty => 0 | MSingle _ _ => 1 | MTree t => N.of_nat (length t) end.

(* Map.All (full iteration) *)
Definition mall (m : pmap) : list kv :=
  match m with MEmpty => [] | MSingle k v => [(k, v)] | MTree t => t end.

(* Map.Prefix: singleton checked with bytes.HasPrefix, otherwise !hasTree -> empty iterator *)
Definition mprefix (m : pmap) (p : bytes) : list kv :=
  match m with
  | MEmpty => []
  | MSingle k v => if has_prefix k p then [(k, v)] else []
  | MTree t => om_prefix p t
  end.

(* Map.LowerBound: singleton yielded when bytes.Compare(singletonKey, from) >= 0 *)
Definition mlower (m : pmap) (from : bytes) : list kv :=
  match m with
  | MEmpty => []
  | MSingle k v => if negb (bytes_ltb k from) then [(k, v)] else []
  | MTree t => om_lower_bound from t
  end.

(* a consumer that breaks out of a `for range` loop after `lim` elements (toSeq2 / yieldAll stop) *)
Definition take (lim : nat) (l : list kv) : list kv := firstn lim l.

(* the loop of the default branch of EqualKeys / Set.Equal: iter1 drives, iter2.Next() is not checked
   for exhaustion (an exhausted iterator returns the nil key) *)
Fixpoint keys_eq_loop (t1 t2 : tree) : bool :=
  match t1 with
  | [] => true
  | (k1, _) :: r1 =>
    match t2 with
    | [] => bytes_eqb k1 [] && keys_eq_loop r1 []
    | (k2, _) :: r2 => bytes_eqb k1 k2 && keys_eq_loop r1 r2
    end
  end.

(* same for SlowEqual: additionally reflect.DeepEqual of the pairs (exhausted iter2: zero pair) *)
Fixpoint kvs_eq_loop (t1 t2 : tree) : bool :=
  match t1 with
  | [] => true
  | (k1, v1) :: r1 =>
    match t2 with
    | [] => bytes_eqb k1 [] && (v1 =? 0) && kvs_eq_loop r1 []
    | (k2, v2) :: r2 => bytes_eqb k1 k2 && (v1 =? v2) && kvs_eq_loop r1 r2
    end
  end.

(* Map.EqualKeys: switch { Len differs; both singletons; neither has a tree; default: the loop } *)
Definition mequalKeys (m o : pmap) : bool :=
  if negb (mlen m =? mlen o) then false
  else match m, o with
       | MSingle k1 _, MSingle k2 _ => bytes_eqb k1 k2
       | _, _ => if negb (has_tree m) && negb (has_tree o) then true
                 else keys_eq_loop (tree_of m) (tree_of o)
       end.

(* Map.SlowEqual *)
Definition mslowEqual (m o : pmap) : bool :=
  if negb (mlen m =? mlen o) then false
  else match m, o with
       | MSingle k1 v1, MSingle k2 v2 => bytes_eqb k1 k2 && (v1 =? v2)
       | _, _ => if negb (has_tree m) && negb (has_tree o) then true
                 else kvs_eq_loop (tree_of m) (tree_of o)
       end.

(* FromMap(m, hm). `hm` lists the entries of the Go hash map in the order its `range` happens to
   produce them (keys pairwise distinct): len 0 -> m; len 1 -> m.Set; otherwise a tree transaction
   into which the existing singleton is inserted FIRST (fix 7184c35), then the entries of hm. *)
Definition fromMap (m : pmap) (hm : list kv) : pmap :=
  match hm with
  | [] => m
  | [(k, v)] => mset m k v
  | _ => MTree (ins_all hm (match m with
                            | MEmpty => []
                            | MSingle k v => om_insert k v []
                            | MTree t => t
                            end))
  end.

(* FromMap before fix 7184c35: the singleton was inserted AFTER the entries of hm (seeded/D5) *)
Definition fromMap_old (m : pmap) (hm : list kv) : pmap :=
  match hm with
  | [] => m
  | [(k, v)] => mset m k v
  | _ => MTree (match m with
                | MEmpty => ins_all hm []
                | MSingle k v => om_insert k v (ins_all hm [])
                | MTree t => ins_all hm t
                end)
  end.

(* the Go hash map built from a list of pairs (later duplicates overwrite), as an entry list *)
Definition hm_of_list (l : list kv) : list kv := ins_all l [].

(* ------------------------------------------------------------------ part.MapTxn *)
(* MapTxn wraps a *Txn on the tree: its state is the transaction's current tree. It is a mutable
   object (not a persistent value); Commit does not end it (fix b3f1606: commit() does not offer the
   Txn for recycling). *)
Definition maptxn := tree.

(* Map.Txn(): ensureTree, tree.Txn(), insert the singleton if any *)
Definition mtxn (m : pmap) : maptxn :=
  match m with
  | MEmpty => []
  | MSingle k v => om_insert k v []
  | MTree t => t
  end.

Definition tset (t : maptxn) (k : bytes) (v : val) : maptxn := om_insert k v t.
(* MapTxn.Delete returns hadOld *)
Definition tdelete (t : maptxn) (k : bytes) : maptxn * bool :=
  (om_delete k t, match om_get k t with Some _ => true | None => false end).
Definition tget (t : maptxn) (k : bytes) : option val := om_get k t.
Definition tlen (t : maptxn) : N := N.of_nat (length t).
Definition tall (t : maptxn) : list kv := t.
Definition tprefix (t : maptxn) (p : bytes) : list kv := om_prefix p t.
Definition tlower (t : maptxn) (from : bytes) : list kv := om_lower_bound from t.

(* MapTxn.Commit: switch txn.Len() { 0: empty; 1: singleton; default: tree } ; the txn stays usable *)
Definition tcommit (t : maptxn) : pmap :=
  match t with
  | [] => MEmpty
  | [(k, v)] => MSingle k v
  | _ => MTree t
  end.

(* ------------------------------------------------------------------ Map codecs *)
(* MarshalJSON / MarshalYAML: the pairs in iteration order *)
Definition mencode (m : pmap) : list kv := mall m.
(* UnmarshalJSON: no element -> zero map; exactly one -> singleton; otherwise all inserted in order
   into a fresh tree (a later duplicate key overwrites an earlier one) *)
Definition mdecode_json (l : list kv) : pmap :=
  match l with
  | [] => MEmpty
  | [(k, v)] => MSingle k v
  | _ => MTree (ins_all l [])
  end.
(* UnmarshalYAML: switch len(value.Content) { 0; 1; default } — the same three cases *)
Definition mdecode_yaml (l : list kv) : pmap :=
  match l with
  | [] => MEmpty
  | [(k, v)] => MSingle k v
  | _ => MTree (ins_all l [])
  end.

(* ------------------------------------------------------------------ part.Set *)
(* type Set struct { toBytes func(T) []byte; tree Tree[T]; hasTree bool }
   An element is modelled by (key bytes, payload): the key is toBytes(element), the payload is what
   distinguishes two elements with the same key (toBytes need not be injective).
     SNone tb : !hasTree ; tb = (toBytes != nil)   (only visible through ToBytesFunc)
     STree t  : hasTree (toBytes set by ensureTree); t may be empty (Difference, UnmarshalYAML) *)
Inductive pset := SNone (tb : bool) | STree (t : tree).

Definition stree (s : pset) : tree := match s with STree t => t | SNone _ => [] end.

(* NewSet(values...) *)
Definition snew (l : list kv) : pset :=
  match l with [] => SNone false | _ => STree (ins_all l []) end.
(* Set.Set: ensureTree, insert *)
Definition sset (s : pset) (k : bytes) (v : val) : pset := STree (om_insert k v (stree s)).
(* Set.Delete: no tree -> unchanged; delete, commit, and drop the tree when it became empty *)
Definition sdelete (s : pset) (k : bytes) : pset :=
  match s with
  | SNone _ => s
  | STree t => match om_delete k t with [] => SNone true | t' => STree t' end
  end.
(* Set.Has *)
Definition shas (s : pset) (k : bytes) : bool :=
  match s with SNone _ => false | STree t => match om_get k t with Some _ => true | None => false end end.
(* Set.Has does not return the element; the harness reads it through All: the stored payload *)
Definition sget (s : pset) (k : bytes) : option val := om_get k (stree s).
Definition slen (s : pset) : N := N.of_nat (length (stree s)).
(* Set.All *)
Definition sall (s : pset) : list kv := stree s.
(* Set.Union: s2 without tree -> s; s without tree -> s2; else insert every element of s2 into s *)
Definition sunion (s s2 : pset) : pset :=
  match s2 with
  | SNone _ => s
  | STree t2 => match s with
                | SNone _ => s2
                | STree t1 => STree (ins_all t2 t1)
                end
  end.
(* Set.Difference: either without tree -> s; else delete every key of s2 from s (no collapse) *)
Definition sdifference (s s2 : pset) : pset :=
  match s, s2 with
  | STree t1, STree t2 => STree (del_all (om_keys t2) t1)
  | _, _ => s
  end.
(* Set.Equal: switch { neither has a tree; Len differs; default: the loop over keys } *)
Definition sequal (s o : pset) : bool :=
  match s, o with
  | SNone _, SNone _ => true
  | _, _ => if negb (slen s =? slen o) then false else keys_eq_loop (stree s) (stree o)
  end.
(* Set.ToBytesFunc() != nil *)
Definition stbf (s : pset) : bool := match s with SNone tb => tb | STree _ => true end.

Definition sencode (s : pset) : list kv := sall s.
(* Set.UnmarshalJSON: ensureTree, insert all in order, drop the tree when empty (toBytes stays set) *)
Definition sdecode_json (l : list kv) : pset :=
  match ins_all l [] with [] => SNone true | t => STree t end.
(* Set.UnmarshalYAML: ensureTree, insert all in order, keeps the (possibly empty) tree *)
Definition sdecode_yaml (l : list kv) : pset := STree (ins_all l []).

(* ------------------------------------------------------------------ register-file machine *)
(* Branching histories: every operation reads its inputs from registers named by ids and writes its
   result to a register that must not exist yet (write-once: values are never overwritten; an op
   whose destination exists is a no-op). A missing source register reads as the zero value
   (Map{} / Set{}); a missing transaction register makes the op a no-op. MapTxn registers are the
   only mutable ones. *)
Definition regs (A : Type) := list (N * A).
Fixpoint rget {A} (r : regs A) (i : N) : option A :=
  match r with [] => None | (j, a) :: r' => if i =? j then Some a else rget r' i end.
Definition rput {A} (r : regs A) (i : N) (a : A) : regs A :=
  match rget r i with Some _ => r | None => r ++ [(i, a)] end.
Fixpoint rupd {A} (r : regs A) (i : N) (a : A) : regs A :=
  match r with [] => [] | (j, b) :: r' => if i =? j then (j, a) :: r' else (j, b) :: rupd r' i a end.

Record state := mkState { maps : regs pmap; sets : regs pset; txns : regs maptxn }.
Definition st0 : state := mkState [] [] [].
Definition getm (st : state) (i : N) : pmap := match rget (maps st) i with Some m => m | None => MEmpty end.
Definition gets (st : state) (i : N) : pset := match rget (sets st) i with Some s => s | None => SNone false end.
Definition putm (st : state) (d : N) (m : pmap) : state := mkState (rput (maps st) d m) (sets st) (txns st).
Definition puts (st : state) (d : N) (s : pset) : state := mkState (maps st) (rput (sets st) d s) (txns st).

Inductive op :=
| OMSet (d s : N) (k : bytes) (v : val)
| OMDel (d s : N) (k : bytes)
| OMFrom (d s : N) (hm : list kv)
| OMTxn (t s : N)
| OTSet (t : N) (k : bytes) (v : val)
| OTDel (t : N) (k : bytes)
| OTCommit (d t : N)
| OMJson (d s : N) | OMYaml (d s : N)
| OMDecJ (d : N) (l : list kv) | OMDecY (d : N) (l : list kv)
| OSNew (d : N) (l : list kv)
| OSSet (d s : N) (k : bytes) (v : val)
| OSDel (d s : N) (k : bytes)
| OSUnion (d a b : N) | OSDiff (d a b : N)
| OSJson (d s : N) | OSYaml (d s : N)
| OSDecJ (d : N) (l : list kv) | OSDecY (d : N) (l : list kv)
| OQuery.   (* any read-only operation: Get/Len/All/Prefix/LowerBound/Equal… *)

Definition step (st : state) (o : op) : state :=
  match o with
  | OMSet d s k v => putm st d (mset (getm st s) k v)
  | OMDel d s k => putm st d (mdelete (getm st s) k)
  | OMFrom d s hm => putm st d (fromMap (getm st s) (hm_of_list hm))
  | OMTxn t s => mkState (maps st) (sets st) (rput (txns st) t (mtxn (getm st s)))
  | OTSet t k v => match rget (txns st) t with
                   | Some x => mkState (maps st) (sets st) (rupd (txns st) t (tset x k v))
                   | None => st end
  | OTDel t k => match rget (txns st) t with
                 | Some x => mkState (maps st) (sets st) (rupd (txns st) t (fst (tdelete x k)))
                 | None => st end
  | OTCommit d t => match rget (txns st) t with
                    | Some x => putm st d (tcommit x)
                    | None => st end
  | OMJson d s => putm st d (mdecode_json (mencode (getm st s)))
  | OMYaml d s => putm st d (mdecode_yaml (mencode (getm st s)))
  | OMDecJ d l => putm st d (mdecode_json l)
  | OMDecY d l => putm st d (mdecode_yaml l)
  | OSNew d l => puts st d (snew l)
  | OSSet d s k v => puts st d (sset (gets st s) k v)
  | OSDel d s k => puts st d (sdelete (gets st s) k)
  | OSUnion d a b => puts st d (sunion (gets st a) (gets st b))
  | OSDiff d a b => puts st d (sdifference (gets st a) (gets st b))
  | OSJson d s => puts st d (sdecode_json (sencode (gets st s)))
  | OSYaml d s => puts st d (sdecode_yaml (sencode (gets st s)))
  | OSDecJ d l => puts st d (sdecode_json l)
  | OSDecY d l => puts st d (sdecode_yaml l)
  | OQuery => st
  end.

Definition run (st : state) (ops : list op) : state := fold_left step ops st.
