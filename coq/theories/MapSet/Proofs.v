(* MapSet/Proofs.v — part.Map / part.MapTxn refine the ordered map `omap` (Base/OrdMap.v):
   representation invariant, abstraction function, every operation against its specification. *)
From SV Require Import Base.Bytes Base.OrdMap MapSet.Model MapSet.OrdLemmas.
From Coq Require Import ZifyN ZifyNat ZifyBool.
Open Scope N_scope.

(* the mathematical map denoted by a part.Map *)
Definition abs (m : pmap) : tree :=
  match m with MEmpty => [] | MSingle k v => [(k, v)] | MTree t => t end.

(* representation invariant of values built through the API: a tree holds at least two entries *)
Definition minv (m : pmap) : Prop :=
  match m with MTree t => om_sorted t /\ (2 <= length t)%nat | _ => True end.
(* what decoding arbitrary input still guarantees *)
Definition minv_weak (m : pmap) : Prop := om_sorted (abs m).

Lemma minv_sorted m : minv m -> om_sorted (abs m).
Proof. destruct m as [|k v|t]; simpl; [auto|intros _; exact (sorted_single k v)|tauto]. Qed.

Lemma minv_empty : minv MEmpty. Proof. exact I. Qed.

(* ---------------------------------------------------------------- Set (the Map method) *)
Lemma mset_abs m k v : abs (mset m k v) = om_insert k v (abs m).
Proof.
  destruct m as [|k' v'|t]; simpl; auto.
  destruct (cmp_full k k') as [[-> [E [E' [L L']]]]|[[Hl [Hne [E [E' [L L']]]]]|[Hl [Hne [E [E' [L L']]]]]]];
    rewrite ?E, ?E', ?L, ?L'; simpl; rewrite ?E, ?E', ?L, ?L'; reflexivity.
Qed.

Lemma mset_inv m k v : minv m -> minv (mset m k v).
Proof.
  destruct m as [|k' v'|t]; [intros _; exact I| |].
  - intros _. cbn [mset]. destruct (bytes_eqb k k') eqn:E; [exact I|]. cbn [minv].
    assert (Hne : k <> k') by now apply bytes_eqb_false.
    assert (Hs : om_sorted (om_insert k v ([] : tree))) by (apply om_insert_sorted; exact I).
    split; [now apply om_insert_sorted|].
    apply (two_keys_length k' k _ v' v); [apply om_get_insert_same| |congruence].
    rewrite om_get_insert_other; auto. apply om_get_insert_same.
  - intros [Hs Hl]. cbn [mset minv]. split; [now apply om_insert_sorted|]. pose proof (om_insert_length_ge k v t). lia.
Qed.

(* ---------------------------------------------------------------- Delete *)
Lemma mdelete_abs m k : abs (mdelete m k) = om_delete k (abs m).
Proof.
  destruct m as [|k' v'|t]; simpl; auto.
  - rewrite (bytes_eqb_sym k' k). destruct (bytes_eqb k k'); simpl; auto. now destruct (bytes_ltb k k').
  - destruct (om_delete k t) as [|[k1 v1] [|q r]]; reflexivity.
Qed.

Lemma mdelete_inv m k : minv m -> minv (mdelete m k).
Proof.
  destruct m as [|k' v'|t]; simpl; auto.
  - intros _. destruct (bytes_eqb k' k); simpl; auto.
  - intros [Hs _]. pose proof (om_delete_sorted k t Hs) as H.
    destruct (om_delete k t) as [|[k1 v1] [|q r]]; simpl; auto. split; [exact H|simpl; lia].
Qed.

(* ---------------------------------------------------------------- reads *)
Lemma mget_abs m k : mget m k = om_get k (abs m).
Proof.
  destruct m as [|k' v'|t]; simpl; auto.
  rewrite (bytes_eqb_sym k' k). destruct (bytes_eqb k k'); auto. now destruct (bytes_ltb k k').
Qed.

Lemma mlen_abs m : mlen m = N.of_nat (length (abs m)).
Proof. destruct m; reflexivity. Qed.

Lemma mall_abs m : mall m = abs m.
Proof. destruct m; reflexivity. Qed.

Lemma mprefix_abs m p : mprefix m p = om_prefix p (abs m).
Proof. destruct m as [|k v|t]; simpl; auto. Qed.

Lemma mlower_abs m from : mlower m from = om_lower_bound from (abs m).
Proof. destruct m as [|k v|t]; simpl; auto. now destruct (bytes_ltb k from). Qed.

(* iteration is in strictly ascending key order, and an early break sees a prefix of it *)
Lemma mall_sorted m : minv m -> om_sorted (mall m).
Proof. rewrite mall_abs. apply minv_sorted. Qed.

Lemma take_abs lim m : take lim (mall m) = firstn lim (abs m).
Proof. unfold take. now rewrite mall_abs. Qed.

(* ---------------------------------------------------------------- FromMap *)
Lemma fromMap_abs m hm : abs (fromMap m hm) = ins_all hm (abs m).
Proof.
  destruct hm as [|[k v] [|q r]]; simpl fromMap; auto.
  apply mset_abs.
Qed.

(* later writes win: an entry of hm overrides whatever m held *)
Lemma fromMap_get m hm k : minv m ->
  mget (fromMap m hm) k = match assoc_last k hm with Some v => Some v | None => mget m k end.
Proof.
  intros H. rewrite !mget_abs, fromMap_abs. apply ins_all_get. now apply minv_sorted.
Qed.

Lemma fromMap_get_in m hm k v : minv m -> NoDup (map fst hm) -> In (k, v) hm -> mget (fromMap m hm) k = Some v.
Proof. intros H Hn Hin. rewrite fromMap_get by auto. now rewrite (assoc_last_nodup k v hm). Qed.

Lemma fromMap_get_notin m hm k : minv m -> ~ In k (map fst hm) -> mget (fromMap m hm) k = mget m k.
Proof. intros H Hn. rewrite fromMap_get by auto. now rewrite assoc_last_notin. Qed.

Lemma fromMap_inv m hm : minv m -> NoDup (map fst hm) -> minv (fromMap m hm).
Proof.
  intros H Hn. destruct hm as [|[k1 v1] [|[k2 v2] r]]; simpl fromMap; auto.
  - now apply mset_inv.
  - pose proof (fromMap_abs m ((k1, v1) :: (k2, v2) :: r)) as Ha. simpl fromMap in Ha. simpl abs in Ha at 1.
    simpl. rewrite Ha. pose proof (minv_sorted m H) as Hs. split; [now apply ins_all_sorted|].
    assert (Hne : k1 <> k2). { simpl in Hn. inversion Hn as [|x xs Hnin Hnd]; subst. intros ->. apply Hnin. now left. }
    destruct (assoc_last_in k1 ((k1, v1) :: (k2, v2) :: r)) as [a Ha1]; [simpl; auto|].
    destruct (assoc_last_in k2 ((k1, v1) :: (k2, v2) :: r)) as [b Hb1]; [simpl; auto|].
    apply (two_keys_length k1 k2 _ a b); auto; rewrite ins_all_get by auto.
    + now rewrite Ha1.
    + now rewrite Hb1.
Qed.

(* the iteration order of the Go hash map does not matter *)
Lemma fromMap_order_irrelevant m hm hm' : minv m -> NoDup (map fst hm) -> NoDup (map fst hm') ->
  (forall p, In p hm <-> In p hm') -> abs (fromMap m hm) = abs (fromMap m hm').
Proof.
  intros H Hn Hn' Hp. pose proof (minv_sorted m H) as Hs. rewrite !fromMap_abs.
  apply om_ext; try now apply ins_all_sorted. intros k. rewrite !ins_all_get by auto.
  destruct (in_dec (list_eq_dec N.eq_dec) k (map fst hm)) as [Hin|Hnin].
  - apply in_map_iff in Hin. destruct Hin as [[k0 v] [Hf Hin]]. simpl in Hf. subst k0.
    rewrite (assoc_last_nodup k v hm), (assoc_last_nodup k v hm'); auto. now apply Hp.
  - rewrite (assoc_last_notin k hm), (assoc_last_notin k hm'); auto.
    intros Hin. apply Hnin. apply in_map_iff in Hin. destruct Hin as [p [Hf Hin]].
    apply in_map_iff. exists p. split; auto. now apply Hp.
Qed.

Lemma hm_of_list_nodup l : NoDup (map fst (hm_of_list l)).
Proof. apply sorted_nodup. apply ins_all_sorted. exact I. Qed.

(* ---------------------------------------------------------------- MapTxn *)
Lemma mtxn_abs m : mtxn m = abs m.
Proof. destruct m; reflexivity. Qed.

Lemma tcommit_abs t : abs (tcommit t) = t.
Proof. destruct t as [|[k v] [|q r]]; reflexivity. Qed.

Lemma tcommit_inv t : om_sorted t -> minv (tcommit t).
Proof. destruct t as [|[k v] [|q r]]; simpl; auto. intros H. split; [exact H|lia]. Qed.

Inductive txop := TSet (k : bytes) (v : val) | TDel (k : bytes).
(* what the MapTxn method does to the transaction *)
Definition apply_txop (t : maptxn) (o : txop) : maptxn :=
  match o with TSet k v => tset t k v | TDel k => fst (tdelete t k) end.
(* what it means on the mathematical map *)
Definition spec_txop (t : tree) (o : txop) : tree :=
  match o with TSet k v => om_insert k v t | TDel k => om_delete k t end.

Lemma apply_txops_spec ops : forall t, fold_left apply_txop ops t = fold_left spec_txop ops t.
Proof. induction ops as [|[k v|k] r IH]; intros t; simpl; auto. Qed.

Lemma spec_txops_sorted ops : forall t, om_sorted t -> om_sorted (fold_left spec_txop ops t).
Proof.
  induction ops as [|[k v|k] r IH]; intros t H; simpl; auto; apply IH;
    [now apply om_insert_sorted|now apply om_delete_sorted].
Qed.

(* m.Txn(); ops…; Commit() is the fold of the mathematical operations over abs m *)
Lemma txn_commit_abs m ops :
  abs (tcommit (fold_left apply_txop ops (mtxn m))) = fold_left spec_txop ops (abs m).
Proof. now rewrite tcommit_abs, apply_txops_spec, mtxn_abs. Qed.

Lemma txn_commit_inv m ops : minv m -> minv (tcommit (fold_left apply_txop ops (mtxn m))).
Proof.
  intros H. apply tcommit_inv. rewrite apply_txops_spec, mtxn_abs. apply spec_txops_sorted. now apply minv_sorted.
Qed.

(* the transaction used again after a Commit continues from the committed contents *)
Lemma txn_reuse_abs m ops1 ops2 :
  let t1 := fold_left apply_txop ops1 (mtxn m) in
  abs (tcommit (fold_left apply_txop ops2 t1)) = fold_left spec_txop ops2 (abs (tcommit t1)).
Proof. simpl. now rewrite !tcommit_abs, !apply_txops_spec. Qed.

Lemma tdelete_found t k : snd (tdelete t k) = true <-> om_get k t <> None.
Proof. unfold tdelete. simpl. destruct (om_get k t); split; congruence. Qed.

(* ---------------------------------------------------------------- equality predicates *)
Lemma keys_length (t : tree) : length (om_keys t) = length t.
Proof. apply map_length. Qed.

Lemma mequalKeys_spec m o : minv m -> minv o ->
  (mequalKeys m o = true <-> om_keys (abs m) = om_keys (abs o)).
Proof.
  intros Hm Ho. unfold mequalKeys. rewrite !mlen_abs.
  destruct (N.eqb_spec (N.of_nat (length (abs m))) (N.of_nat (length (abs o)))) as [E|E]; simpl.
  - assert (El : length (abs m) = length (abs o)) by lia. clear E.
    destruct m as [|k1 v1|t1], o as [|k2 v2|t2]; simpl in *; try discriminate; try lia; try tauto.
    + rewrite bytes_eqb_spec. split; [now intros ->|congruence].
    + now apply keys_eq_loop_spec.
  - split; [discriminate|]. intros H. exfalso. apply E. f_equal.
    rewrite <- (keys_length (abs m)), <- (keys_length (abs o)). now rewrite H.
Qed.

Lemma mslowEqual_spec m o : minv m -> minv o -> (mslowEqual m o = true <-> abs m = abs o).
Proof.
  intros Hm Ho. unfold mslowEqual. rewrite !mlen_abs.
  destruct (N.eqb_spec (N.of_nat (length (abs m))) (N.of_nat (length (abs o)))) as [E|E]; simpl.
  - assert (El : length (abs m) = length (abs o)) by lia. clear E.
    destruct m as [|k1 v1|t1], o as [|k2 v2|t2]; simpl in *; try discriminate; try lia; try tauto.
    + rewrite andb_true_iff, bytes_eqb_spec, N.eqb_eq. split; [now intros [-> ->]|]. intros H. injection H. auto.
    + now apply kvs_eq_loop_spec.
  - split; [discriminate|]. intros H. exfalso. apply E. now rewrite H.
Qed.

(* under the invariant the abstraction is injective: equal contents = equal representation *)
Lemma abs_inj m o : minv m -> minv o -> abs m = abs o -> m = o.
Proof.
  destruct m as [|k1 v1|t1], o as [|k2 v2|t2]; simpl; intros Hm Ho H; subst; simpl in *;
    try reflexivity; try discriminate; try lia; try (destruct Hm; simpl in *; lia); try (destruct Ho; simpl in *; lia).
  now injection H as -> ->.
Qed.

(* ---------------------------------------------------------------- codecs *)
Lemma mdecode_json_fromMap l : mdecode_json l = fromMap MEmpty l.
Proof. destruct l as [|[k v] [|q r]]; reflexivity. Qed.
Lemma mdecode_yaml_json l : mdecode_yaml l = mdecode_json l.
Proof. reflexivity. Qed.

(* decoding inserts in order: a later duplicate wins *)
Lemma mdecode_abs l : abs (mdecode_json l) = ins_all l [].
Proof. rewrite mdecode_json_fromMap. apply fromMap_abs. Qed.

Lemma mdecode_get l k : mget (mdecode_json l) k = assoc_last k l.
Proof.
  rewrite mdecode_json_fromMap, fromMap_get by exact I. simpl. now destruct (assoc_last k l).
Qed.

Lemma mdecode_weak_inv l : minv_weak (mdecode_json l).
Proof. unfold minv_weak. rewrite mdecode_abs. apply ins_all_sorted. exact I. Qed.

Lemma mdecode_inv l : NoDup (map fst l) -> minv (mdecode_json l).
Proof. intros H. rewrite mdecode_json_fromMap. apply fromMap_inv; auto. exact I. Qed.

(* round trip: decoding the encoding gives back the very same value *)
Lemma mdecode_mencode m : minv m -> mdecode_json (mencode m) = m.
Proof.
  intros H. apply abs_inj; auto.
  - apply mdecode_inv. unfold mencode. rewrite mall_abs. apply sorted_nodup. now apply minv_sorted.
  - rewrite mdecode_abs. unfold mencode. rewrite mall_abs. apply ins_all_sorted_id. now apply minv_sorted.
Qed.

(* even for values outside the strong invariant the contents survive the round trip *)
Lemma mdecode_mencode_abs m : minv_weak m -> abs (mdecode_json (mencode m)) = abs m.
Proof. intros H. rewrite mdecode_abs. unfold mencode. rewrite mall_abs. now apply ins_all_sorted_id. Qed.
