(* DB/Model.v — the commit protocol of statedb at micro-step granularity (L4):
   db.go WriteTxn / registerTable, write_txn.go Commit / Abort, internal/sortable_mutex.go.
   Threads ("actors") are small programs; one `step` executes the code between two of the
   verif hook points of one actor. A schedule is a list of actor indexes. Table contents are
   abstracted to the set of transaction ids that wrote the table (enough for atomic visibility
   and lost-write properties); watch channels and initializer state are explicit. No proofs here. *)
From Coq Require Export List NArith Bool Lia.
Export ListNotations.
Open Scope N_scope.

(* one version of a table entry as reachable from a root *)
Record tver := mkV {
  tv_ids : list N;                 (* ids of the transactions whose writes are in this version *)
  tv_watch : N;                    (* table-wide watch channel of this version (primary index root watch) *)
  tv_init : option (N * list N)    (* tableInitialization: (watch, pending) *)
}.

Inductive pc :=
| PStart
(* writer *)
| PBeforeLock | PLocking (i : nat) | PLocked (i : nat) | PWLocked | PRootLoaded
| PCommitIdx | PRootLocked | PCommitLoaded | PRootStored | PRootUnlocked | PNotified | PTabsUnlocked | PInitClosed
| PAbortBefore | PAbortUnlocked
(* registrar (NewTable) *)
| PRegBefore | PRegLocked | PRegLoaded | PRegStored | PRegUnlocked
| PDone.

Inductive kind :=
| KWriter (tabs : list nat)        (* lock set as given to WriteTxn: any order, duplicates allowed *)
          (writes : list nat)      (* tables it actually writes (subset of tabs) *)
          (commit : bool)
          (reg done : list (nat * N))   (* initializers registered / marked done: (table, name) *)
| KRegistrar.

Record actor := mkA {
  a_id : N;                        (* transaction id written into the tables *)
  a_kind : kind;
  a_pc : pc;
  a_locks : list nat;              (* dedup + sorted lock order (computed at PBeforeLock) *)
  a_entries : list tver;           (* private table entries (clone of the root loaded) *)
  a_notify : list N;               (* watch channels to close at notify *)
  a_initclose : list N;            (* init channels to close after the tables are unlocked *)
  a_cur : list tver                (* the root loaded INSIDE the root lock (Commit: currentRoot := db.root.Load();
                                      registerTable: root := slices.Clone of db.root.Load()); [] until then *)
}.

Record st := mkS {
  s_root : list tver;
  s_tlock : list (option nat);     (* table mutex holder (actor index) *)
  s_rlock : option nat;            (* db.mu holder *)
  s_closed : list N;
  s_nextw : N;
  s_actors : list actor
}.

Fixpoint insert_sorted (x : nat) (l : list nat) : list nat :=
  match l with
  | [] => [x]
  | y :: r => if Nat.eqb x y then l else if Nat.ltb x y then x :: l else y :: insert_sorted x r
  end.
(* db.go WriteTxn de-duplication + SortableMutexes.Lock sort by seq (= table index) *)
Definition lock_order (tabs : list nat) : list nat := fold_left (fun acc x => insert_sorted x acc) tabs [].

Fixpoint upd {A} (n : nat) (f : A -> A) (l : list A) : list A :=
  match l, n with
  | [], _ => []
  | x :: r, O => f x :: r
  | x :: r, S n' => x :: upd n' f r
  end.
Definition memb (x : nat) (l : list nat) : bool := existsb (Nat.eqb x) l.
Fixpoint insert_id (x : N) (l : list N) : list N :=
  match l with
  | [] => [x]
  | y :: r => if x =? y then l else if x <? y then x :: l else y :: insert_id x r
  end.

Definition set_pc (a : actor) (p : pc) : actor :=
  mkA (a_id a) (a_kind a) p (a_locks a) (a_entries a) (a_notify a) (a_initclose a) (a_cur a).
(* the root load inside the root lock: remember the root, move to pc p *)
Definition set_cur (a : actor) (p : pc) (cur : list tver) : actor :=
  mkA (a_id a) (a_kind a) p (a_locks a) (a_entries a) (a_notify a) (a_initclose a) cur.

(* is the next micro-step of actor i enabled? (only lock acquisitions can be disabled) *)
Definition enabled (s : st) (i : nat) : bool :=
  match nth_error (s_actors s) i with
  | None => false
  | Some a =>
    match a_pc a with
    | PDone => false
    | PLocking k => match nth_error (a_locks a) k with
                    | Some t => match nth_error (s_tlock s) t with Some None => true | _ => false end
                    | None => false end
    | PCommitIdx | PRegBefore => match s_rlock s with None => true | Some _ => false end
    | _ => true
    end
  end.

(* the writes of a transaction on its private entries: add the id, fresh watch channel for the new
   tree version (the old one is recorded for notification); initializer registrations / marks *)
Definition apply_writes (id : N) (writes : list nat) (reg done : list (nat * N)) (nextw : N)
    (es : list tver) : list tver * list N * N :=
  let '(es1, notify, nw) :=
    fold_left (fun acc t =>
      let '(es, notify, nw) := acc in
      match nth_error es t with
      | Some v => (upd t (fun _ => mkV (insert_id id (tv_ids v)) nw (tv_init v)) es, tv_watch v :: notify, nw + 1)
      | None => acc
      end) writes (es, [], nextw) in
  let '(es2, nw2) :=
    fold_left (fun acc tn =>
      let '(es, nw) := acc in
      let '(t, name) := tn in
      match nth_error es t with
      | Some v => match tv_init v with
                  | None => (upd t (fun _ => mkV (tv_ids v) (tv_watch v) (Some (nw, [name]))) es, nw + 1)
                  | Some (w, p) => (upd t (fun _ => mkV (tv_ids v) (tv_watch v) (Some (w, p ++ [name]))) es, nw)
                  end
      | None => acc
      end) reg (es1, nw) in
  let es3 :=
    fold_left (fun es tn =>
      let '(t, name) := tn in
      match nth_error es t with
      | Some v => match tv_init v with
                  | Some (w, p) => upd t (fun _ => mkV (tv_ids v) (tv_watch v) (Some (w, filter (fun n => negb (n =? name)) p))) es
                  | None => es
                  end
      | None => es
      end) done es2 in
  (es3, notify, nw2).

Fixpoint merge_root (locks : list nat) (es cur : list tver) (i : nat) : list tver * list N :=
  (* write_txn.go Commit: locked tables take the transaction's entry (pending-empty init is cleared and its
     watch queued for closing), the others the current root's entry; tables registered meanwhile are kept
     (fix 64fe42b) *)
  match cur with
  | [] => ([], [])
  | c :: cr =>
    let '(rest, closing) := merge_root locks (tl es) cr (S i) in
    match es with
    | e :: _ =>
      if memb i locks then
        match tv_init e with
        | Some (w, []) => (mkV (tv_ids e) (tv_watch e) None :: rest, w :: closing)
        | _ => (e :: rest, closing)
        end
      else (c :: rest, closing)
    | [] => (c :: rest, closing)
    end
  end.

Definition set_actor (s : st) (i : nat) (a : actor) : st :=
  mkS (s_root s) (s_tlock s) (s_rlock s) (s_closed s) (s_nextw s) (upd i (fun _ => a) (s_actors s)).

(* one micro-step of actor i (identity when not enabled) *)
Definition step (s : st) (i : nat) : st :=
  if negb (enabled s i) then s else
  match nth_error (s_actors s) i with
  | None => s
  | Some a =>
    match a_kind a, a_pc a with
    | KWriter tabs _ _ _ _, PStart =>
      set_actor s i (mkA (a_id a) (a_kind a) PBeforeLock (lock_order tabs) [] [] [] [])
    | KWriter _ _ _ _ _, PBeforeLock =>
      set_actor s i (set_pc a (match a_locks a with [] => PWLocked | _ => PLocking 0 end))
    | KWriter _ _ _ _ _, PLocking k =>
      match nth_error (a_locks a) k with
      | Some t => let s1 := mkS (s_root s) (upd t (fun _ => Some i) (s_tlock s)) (s_rlock s) (s_closed s) (s_nextw s) (s_actors s) in
                  set_actor s1 i (set_pc a (PLocked k))
      | None => s
      end
    | KWriter _ _ _ _ _, PLocked k =>
      set_actor s i (set_pc a (if Nat.ltb (S k) (length (a_locks a)) then PLocking (S k) else PWLocked))
    | KWriter _ _ _ _ _, PWLocked =>
      (* txn.oldRoot = db.root.Load(); clone *)
      set_actor s i (mkA (a_id a) (a_kind a) PRootLoaded (a_locks a) (s_root s) [] [] (a_cur a))
    | KWriter _ writes commit reg done, PRootLoaded =>
      if commit then
        let '(es, notify, nw) := apply_writes (a_id a) writes reg done (s_nextw s) (a_entries a) in
        let s1 := mkS (s_root s) (s_tlock s) (s_rlock s) (s_closed s) nw (s_actors s) in
        set_actor s1 i (mkA (a_id a) (a_kind a) PCommitIdx (a_locks a) es notify [] (a_cur a))
      else
        (* the writes of an aborted transaction still consume fresh channels but are never published *)
        let '(es, notify, nw) := apply_writes (a_id a) writes reg done (s_nextw s) (a_entries a) in
        let s1 := mkS (s_root s) (s_tlock s) (s_rlock s) (s_closed s) nw (s_actors s) in
        set_actor s1 i (mkA (a_id a) (a_kind a) PAbortBefore (a_locks a) es [] [] (a_cur a))
    | KWriter _ _ _ _ _, PCommitIdx =>
      set_actor (mkS (s_root s) (s_tlock s) (Some i) (s_closed s) (s_nextw s) (s_actors s)) i (set_pc a PRootLocked)
    | KWriter _ _ _ _ _, PRootLocked =>
      (* write_txn.go Commit: currentRoot := db.root.Load(), inside db.mu (hook "commit-root-loaded") *)
      set_actor s i (set_cur a PCommitLoaded (s_root s))
    | KWriter _ _ _ _ _, PCommitLoaded =>
      (* merge into the root LOADED at PRootLocked, db.root.Store *)
      let '(root, closing) := merge_root (a_locks a) (a_entries a) (a_cur a) 0 in
      set_actor (mkS root (s_tlock s) (s_rlock s) (s_closed s) (s_nextw s) (s_actors s)) i
                (mkA (a_id a) (a_kind a) PRootStored (a_locks a) root (a_notify a) closing (a_cur a))   (* a_entries := the ReadTxn Commit returns *)
    | KWriter _ _ _ _ _, PRootStored =>
      set_actor (mkS (s_root s) (s_tlock s) None (s_closed s) (s_nextw s) (s_actors s)) i (set_pc a PRootUnlocked)
    | KWriter _ _ _ _ _, PRootUnlocked =>
      set_actor (mkS (s_root s) (s_tlock s) (s_rlock s) (a_notify a ++ s_closed s) (s_nextw s) (s_actors s)) i (set_pc a PNotified)
    | KWriter _ _ _ _ _, PNotified =>
      let tl' := fold_left (fun l t => upd t (fun _ => None) l) (a_locks a) (s_tlock s) in
      set_actor (mkS (s_root s) tl' (s_rlock s) (s_closed s) (s_nextw s) (s_actors s)) i (set_pc a PTabsUnlocked)
    | KWriter _ _ _ _ _, PTabsUnlocked =>
      set_actor (mkS (s_root s) (s_tlock s) (s_rlock s) (a_initclose a ++ s_closed s) (s_nextw s) (s_actors s)) i (set_pc a PInitClosed)
    | KWriter _ _ _ _ _, PInitClosed => set_actor s i (set_pc a PDone)
    | KWriter _ _ _ _ _, PAbortBefore =>
      let tl' := fold_left (fun l t => upd t (fun _ => None) l) (a_locks a) (s_tlock s) in
      set_actor (mkS (s_root s) tl' (s_rlock s) (s_closed s) (s_nextw s) (s_actors s)) i (set_pc a PAbortUnlocked)
    | KWriter _ _ _ _ _, PAbortUnlocked => set_actor s i (set_pc a PDone)
    | KRegistrar, PStart => set_actor s i (set_pc a PRegBefore)
    | KRegistrar, PRegBefore =>
      set_actor (mkS (s_root s) (s_tlock s) (Some i) (s_closed s) (s_nextw s) (s_actors s)) i (set_pc a PRegLocked)
    | KRegistrar, PRegLocked =>
      (* db.go registerTable: root := slices.Clone of db.root.Load(), inside db.mu (hook "register-root-loaded") *)
      set_actor s i (set_cur a PRegLoaded (s_root s))
    | KRegistrar, PRegLoaded =>
      (* append the new table's entry to the root LOADED at PRegLocked, store *)
      let v := mkV [] (s_nextw s) None in
      set_actor (mkS (a_cur a ++ [v]) (s_tlock s ++ [None]) (s_rlock s) (s_closed s) (s_nextw s + 1) (s_actors s)) i
                (set_pc a PRegStored)
    | KRegistrar, PRegStored =>
      set_actor (mkS (s_root s) (s_tlock s) None (s_closed s) (s_nextw s) (s_actors s)) i (set_pc a PRegUnlocked)
    | KRegistrar, PRegUnlocked => set_actor s i (set_pc a PDone)
    | _, _ => s
    end
  end.

Definition run (s : st) (sched : list nat) : st := fold_left step sched s.

Definition init_st (ntab : nat) (actors : list (N * kind)) : st :=
  mkS (map (fun i => mkV [] (N.of_nat i) None) (seq 0 ntab)) (repeat None ntab) None [] (N.of_nat ntab)
      (map (fun ik => mkA (fst ik) (snd ik) PStart [] [] [] [] []) actors).
