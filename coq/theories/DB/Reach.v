(* DB/Reach.v — the results of DB/Invariants.v, Locks.v, Visibility.v and Watch.v restated for the
   reachable states `run (init_st ntab actors) sched` of arbitrary well-formed actor lists and arbitrary
   schedules (the form quoted by Properties/C02, C05, C06, C10, C19). *)
From Coq Require Import Arith PeanoNat.
From SV Require Import DB.Model DB.Proofs DB.Invariants DB.Locks DB.Visibility DB.Channels DB.Watch.
Open Scope nat_scope.

Definition reach (ntab : nat) (actors : list (N * kind)) (sched : list nat) : st :=
  run (init_st ntab actors) sched.

Lemma reach_app ntab actors s1 s2 : reach ntab actors (s1 ++ s2) = run (reach ntab actors s1) s2.
Proof. unfold reach. apply run_app. Qed.

(* ---------- locks ---------- *)
Theorem lock_invariant_reachable ntab actors sched : wf_actors ntab actors ->
  let s := reach ntab actors sched in
  (forall t i, nth_error (s_tlock s) t = Some (Some i) <->
               exists a, nth_error (s_actors s) i = Some a /\ In t (held a)) /\
  (forall i, s_rlock s = Some i <-> exists a, nth_error (s_actors s) i = Some a /\ rholds a = true) /\
  (forall i a, nth_error (s_actors s) i = Some a -> rholds a = true -> acquiring a = false /\ enabled s i = true).
Proof.
  intros Hwf s. pose proof (Inv_reachable ntab actors sched Hwf) as HI. fold (reach ntab actors sched) in HI. fold s in HI.
  split; [apply (inv_tl _ _ HI)|]. split; [apply (inv_rl _ _ HI)|].
  intros i a Ha Hr. split; [apply root_holder_not_acquiring; exact Hr|eapply rholds_enabled; eauto].
Qed.

Theorem mutual_exclusion_reachable ntab actors sched i j a b t : wf_actors ntab actors ->
  let s := reach ntab actors sched in
  nth_error (s_actors s) i = Some a -> nth_error (s_actors s) j = Some b ->
  In t (held a) -> In t (held b) -> i = j.
Proof. intros Hwf s. apply (mutual_exclusion ntab). apply Inv_reachable. exact Hwf. Qed.

Theorem actor_wf_reachable ntab actors sched i a : wf_actors ntab actors ->
  nth_error (s_actors (reach ntab actors sched)) i = Some a ->
  pc_ok (a_kind a) (a_pc a) = true /\ strictly_inc (a_locks a) /\
  (forall t, In t (a_locks a) -> In t (tabs_of a) /\ t < ntab) /\
  (forall k, a_pc a = PLocking k \/ a_pc a = PLocked k -> k < length (a_locks a)).
Proof.
  intros Hwf Ha. pose proof (inv_ok _ _ (Inv_reachable ntab actors sched Hwf) _ _ Ha) as Hok.
  split; [apply (ok_pc _ _ Hok)|]. split; [eapply actor_ok_inc; eauto|]. split.
  - intros t Ht. split; [eapply locks_sub_tabs; eauto|eapply actor_ok_lt; eauto].
  - intros k Hk. pose proof (ok_idx _ _ Hok) as Hi. unfold idx_ok in Hi. destruct Hk as [Hk|Hk]; rewrite Hk in Hi; exact Hi.
Qed.

Theorem enabled_iff_free_reachable ntab actors sched : wf_actors ntab actors ->
  let s := reach ntab actors sched in
  (forall i a k t, nth_error (s_actors s) i = Some a -> a_pc a = PLocking k -> nth_error (a_locks a) k = Some t ->
     (enabled s i = true <-> forall j, ~ holds (s_actors s) j t)) /\
  (forall i a, nth_error (s_actors s) i = Some a -> a_pc a = PCommitIdx \/ a_pc a = PRegBefore ->
     (enabled s i = true <-> forall j, ~ rholder (s_actors s) j)) /\
  (forall i a, nth_error (s_actors s) i = Some a -> a_pc a <> PDone -> acquiring a = false -> enabled s i = true).
Proof.
  intros Hwf s. pose proof (Inv_reachable ntab actors sched Hwf) as HI. split; [|split].
  - intros i a k t. apply (locking_enabled_iff ntab). exact HI.
  - intros i a. apply (rootlock_enabled_iff ntab). exact HI.
  - intros i a. apply other_pcs_enabled.
Qed.

Theorem blocked_only_by_sharing_reachable ntab actors sched i a : wf_actors ntab actors ->
  let s := reach ntab actors sched in
  nth_error (s_actors s) i = Some a -> a_pc a <> PDone -> enabled s i = false ->
  (exists k t j b, a_pc a = PLocking k /\ nth_error (a_locks a) k = Some t /\ j <> i /\
      nth_error (s_actors s) j = Some b /\ In t (held b) /\ In t (tabs_of a) /\ In t (tabs_of b)) \/
  (exists j b, (a_pc a = PCommitIdx \/ a_pc a = PRegBefore) /\ j <> i /\
      nth_error (s_actors s) j = Some b /\ rholds b = true /\ enabled s j = true).
Proof. intros Hwf s. apply (blocked_only_by_sharing ntab). apply Inv_reachable. exact Hwf. Qed.

Theorem disjoint_never_waits_reachable ntab actors sched i a k : wf_actors ntab actors ->
  let s := reach ntab actors sched in
  nth_error (s_actors s) i = Some a -> a_pc a = PLocking k ->
  (forall j b t, j <> i -> nth_error (s_actors s) j = Some b -> In t (tabs_of a) -> ~ In t (tabs_of b)) ->
  enabled s i = true.
Proof. intros Hwf s. apply (disjoint_never_waits ntab). apply Inv_reachable. exact Hwf. Qed.

Theorem step_takes_only_own_tables_reachable ntab actors sched j t h : wf_actors ntab actors ->
  let s := reach ntab actors sched in
  nth_error (s_tlock (step s j)) t = Some (Some h) -> nth_error (s_tlock s) t <> Some (Some h) ->
  h = j /\ nth_error (s_tlock s) t = Some None /\
  exists b, nth_error (s_actors s) j = Some b /\ In t (a_locks b) /\ In t (tabs_of b).
Proof. intros Hwf s. apply (step_takes_only_own_tables ntab). apply Inv_reachable. exact Hwf. Qed.

Theorem step_decreases_reachable ntab actors sched i : wf_actors ntab actors ->
  let s := reach ntab actors sched in
  enabled s i = true -> S (total (step s i)) = total s.
Proof. intros Hwf s. apply (step_decreases ntab). apply Inv_reachable. exact Hwf. Qed.

Theorem completion_exists_reachable ntab actors sched : wf_actors ntab actors ->
  let s := reach ntab actors sched in
  exists more, all_enabled s more /\ length more = total s /\ all_done (run s more).
Proof. intros Hwf s. apply (completion_exists ntab (total s) s); [apply Inv_reachable; exact Hwf|reflexivity]. Qed.

(* the root read-modify-write inside the root lock: between the load (PRootLocked / PRegLocked step) and the
   store (PCommitLoaded / PRegLoaded step) the loaded root IS the current root, and the actor holds db.mu *)
Theorem loaded_root_is_current_reachable ntab actors sched i a : wf_actors ntab actors ->
  let s := reach ntab actors sched in
  nth_error (s_actors s) i = Some a -> a_pc a = PCommitLoaded \/ a_pc a = PRegLoaded ->
  a_cur a = s_root s /\ s_rlock s = Some i.
Proof. intros Hwf s. apply (loaded_root_is_current ntab). apply Inv_reachable. exact Hwf. Qed.

(* ---------- visibility ---------- *)
Theorem visible_iff_reachable ntab actors sched i a t v : wf_system ntab actors ->
  let s := reach ntab actors sched in
  nth_error (s_actors s) i = Some a -> nth_error (s_root s) t = Some v ->
  (In (a_id a) (tv_ids v) <-> committed a = true /\ In t (writes_of a)).
Proof. intros Hwf s. destruct (reachable_invs ntab actors sched Hwf). apply (visible_iff ntab); assumption. Qed.

Theorem atomic_visibility_reachable ntab actors sched i a : wf_system ntab actors ->
  let s := reach ntab actors sched in
  nth_error (s_actors s) i = Some a ->
  (forall t, In t (writes_of a) -> exists v, nth_error (s_root s) t = Some v /\ In (a_id a) (tv_ids v)) \/
  (forall t v, nth_error (s_root s) t = Some v -> ~ In (a_id a) (tv_ids v)).
Proof. intros Hwf s. destruct (reachable_invs ntab actors sched Hwf). apply (atomic_visibility ntab); assumption. Qed.

Theorem no_lost_write_reachable ntab actors s1 s2 t v x : wf_system ntab actors ->
  nth_error (s_root (reach ntab actors s1)) t = Some v -> In x (tv_ids v) ->
  exists v', nth_error (s_root (reach ntab actors (s1 ++ s2))) t = Some v' /\ In x (tv_ids v').
Proof.
  intros Hwf Hv Hx. rewrite reach_app. destruct (reachable_invs ntab actors s1 Hwf).
  apply (no_lost_write ntab s2 _ t v x); assumption.
Qed.

Theorem abort_no_trace_reachable ntab actors sched i a : wf_system ntab actors ->
  let s := reach ntab actors sched in
  nth_error (s_actors s) i = Some a -> commits a = false ->
  s_closed (step s i) = s_closed s /\
  (a_kind a <> KRegistrar -> s_root (step s i) = s_root s) /\
  (forall t v, nth_error (s_root s) t = Some v -> ~ In (a_id a) (tv_ids v)).
Proof.
  intros Hwf s Ha Hc. destruct (reachable_invs ntab actors sched Hwf) as [HI HV].
  destruct (abort_step_no_trace ntab s i a HI Ha Hc) as [H1 H2]. split; [exact H1|]. split; [exact H2|].
  intros t v Hv. apply (aborted_id_never_visible ntab s i a t v HI HV Ha Hc Hv).
Qed.

Theorem root_step_cases_reachable ntab actors sched i : wf_system ntab actors ->
  let s := reach ntab actors sched in
  s_root (step s i) = s_root s \/
  (exists a, nth_error (s_actors s) i = Some a /\ a_kind a = KRegistrar /\ a_pc a = PRegLoaded /\
             s_root (step s i) = s_root s ++ [mkV [] (s_nextw s) None]) \/
  (exists a, nth_error (s_actors s) i = Some a /\ a_pc a = PCommitLoaded /\ commits a = true /\
     length (s_root (step s i)) = length (s_root s) /\
     (forall t, ~ In t (a_locks a) -> nth_error (s_root (step s i)) t = nth_error (s_root s) t) /\
     (forall t v, In t (a_locks a) -> nth_error (s_root s) t = Some v ->
        exists v', nth_error (s_root (step s i)) t = Some v' /\
                   forall x, In x (tv_ids v') <-> (x = a_id a /\ In t (writes_of a)) \/ In x (tv_ids v))).
Proof. intros Hwf s. destruct (reachable_invs ntab actors sched Hwf). apply (root_step_cases ntab); assumption. Qed.

Theorem held_entry_stable_reachable ntab actors sched i j b t : wf_actors ntab actors ->
  let s := reach ntab actors sched in
  j <> i -> nth_error (s_actors s) j = Some b -> In t (held b) ->
  nth_error (s_root (step s i)) t = nth_error (s_root s) t.
Proof. intros Hwf s. apply (held_entry_stable ntab). apply Inv_reachable. exact Hwf. Qed.

Theorem clone_is_latest_reachable ntab actors sched i a t : wf_system ntab actors ->
  let s := reach ntab actors sched in
  nth_error (s_actors s) i = Some a -> In t (a_locks a) ->
  (a_pc a = PRootLoaded -> nth_error (a_entries a) t = nth_error (s_root s) t) /\
  (a_pc a = PCommitIdx \/ a_pc a = PRootLocked \/ a_pc a = PCommitLoaded \/ a_pc a = PAbortBefore ->
   exists v e, nth_error (s_root s) t = Some v /\ nth_error (a_entries a) t = Some e /\
               forall x, In x (tv_ids e) <-> (x = a_id a /\ In t (writes_of a)) \/ In x (tv_ids v)).
Proof. intros Hwf s. destruct (reachable_invs ntab actors sched Hwf). apply (clone_is_latest ntab); assumption. Qed.

Theorem sees_all_committed_reachable ntab actors sched i a j b t : wf_system ntab actors ->
  let s := reach ntab actors sched in
  nth_error (s_actors s) i = Some a -> In t (a_locks a) ->
  a_pc a = PRootLoaded \/ a_pc a = PCommitIdx \/ a_pc a = PRootLocked \/ a_pc a = PCommitLoaded \/ a_pc a = PAbortBefore ->
  nth_error (s_actors s) j = Some b -> committed b = true -> In t (writes_of b) ->
  exists e, nth_error (a_entries a) t = Some e /\ In (a_id b) (tv_ids e).
Proof. intros Hwf s. destruct (reachable_invs ntab actors sched Hwf). apply (sees_all_committed ntab); assumption. Qed.

(* ---------- watch channels ---------- *)
Theorem published_open_reachable ntab actors sched t v w : wf_system ntab actors ->
  let s := reach ntab actors sched in
  nth_error (s_root s) t = Some v -> In w (s_closed s) ->
  tv_watch v <> w /\ forall p, tv_init v <> Some (w, p).
Proof. intros Hwf s. apply published_open. apply (good_w ntab). apply Good_reachable. exact Hwf. Qed.

Theorem published_distinct_reachable ntab actors sched t1 t2 v1 v2 w : wf_system ntab actors ->
  let s := reach ntab actors sched in
  nth_error (s_root s) t1 = Some v1 -> nth_error (s_root s) t2 = Some v2 ->
  In w (chans v1) -> In w (chans v2) -> t1 = t2.
Proof. intros Hwf s. apply published_distinct. apply (good_w ntab). apply Good_reachable. exact Hwf. Qed.

Theorem close_after_store_reachable ntab actors sched i : wf_system ntab actors ->
  let s := reach ntab actors sched in
  s_closed (step s i) = s_closed s \/
  exists a cl, nth_error (s_actors s) i = Some a /\ committed a = true /\
    s_closed (step s i) = cl ++ s_closed s /\ s_root (step s i) = s_root s /\
    ((a_pc a = PRootUnlocked /\ cl = a_notify a) \/ (a_pc a = PTabsUnlocked /\ cl = a_initclose a)) /\
    forall w, In w cl -> ~ rch (s_root s) w.
Proof.
  intros Hwf s. destruct (Good_reachable ntab actors sched Hwf) as [HI _ HW]. apply (close_after_store ntab); assumption.
Qed.

Theorem wake_sees_newer_reachable ntab actors s1 s2 t v : wf_system ntab actors ->
  nth_error (s_root (reach ntab actors s1)) t = Some v ->
  In (tv_watch v) (s_closed (reach ntab actors (s1 ++ s2))) ->
  exists v', nth_error (s_root (reach ntab actors (s1 ++ s2))) t = Some v' /\ incl (tv_ids v) (tv_ids v') /\
             exists x, In x (tv_ids v') /\ ~ In x (tv_ids v).
Proof.
  intros Hwf Hv. rewrite reach_app. apply (wake_sees_newer ntab); [apply Good_reachable; exact Hwf|exact Hv].
Qed.

Theorem init_closed_after_visible_reachable ntab actors s1 s2 t v w p : wf_system ntab actors ->
  nth_error (s_root (reach ntab actors s1)) t = Some v -> tv_init v = Some (w, p) ->
  In w (s_closed (reach ntab actors (s1 ++ s2))) ->
  exists sa sb v1, s2 = sa ++ sb /\ nth_error (s_root (reach ntab actors (s1 ++ sa))) t = Some v1 /\ tv_init v1 = None.
Proof.
  intros Hwf Hv Hi Hc. rewrite reach_app in Hc.
  destruct (init_closed_after_visible ntab s2 _ t v w p (Good_reachable ntab actors s1 Hwf) Hv Hi Hc) as (sa&sb&v1&E&Hv1&Hn).
  exists sa, sb, v1. rewrite reach_app. auto.
Qed.
