(* DB/Visibility.v — atomic visibility, no lost write, abort leaves no trace, registration keeps
   entries, "the cloned entry is the last committed one": a second invariant VInv on top of the lock
   invariant Inv (DB/Invariants.v), again for arbitrary actor lists and schedules. *)
From Coq Require Import Arith PeanoNat.
From SV Require Import DB.Model DB.Proofs DB.Invariants.
Open Scope nat_scope.

(* ---------- pointwise relations between entry lists ---------- *)
Definition pw (R : nat -> tver -> tver -> Prop) (es es' : list tver) : Prop :=
  forall t, match nth_error es t with
            | None => nth_error es' t = None
            | Some v => exists e, nth_error es' t = Some e /\ R t v e
            end.

Lemma pw_refl (R : nat -> tver -> tver -> Prop) es : (forall t v, R t v v) -> pw R es es.
Proof. intros HR t. destruct (nth_error es t) as [v|] eqn:E; [exists v; auto|reflexivity]. Qed.

Lemma pw_trans (R1 R2 R3 : nat -> tver -> tver -> Prop) x y z :
  (forall t a b c, R1 t a b -> R2 t b c -> R3 t a c) -> pw R1 x y -> pw R2 y z -> pw R3 x z.
Proof.
  intros HR H1 H2 t. specialize (H1 t). specialize (H2 t).
  destruct (nth_error x t) as [v|].
  - destruct H1 as [e [He Hve]]. rewrite He in H2. destruct H2 as [e' [He' Hee']]. exists e'. eauto.
  - rewrite H1 in H2. exact H2.
Qed.

Lemma pw_upd (R : nat -> tver -> tver -> Prop) es t0 v0 f :
  nth_error es t0 = Some v0 -> R t0 v0 (f v0) -> (forall t v, t <> t0 -> R t v v) -> pw R es (upd t0 f es).
Proof.
  intros H0 HR Hrefl t. rewrite nth_error_upd. destruct (Nat.eqb_spec t0 t) as [->|Hne].
  - rewrite H0. cbn [option_map]. exists (f v0). auto.
  - destruct (nth_error es t) as [v|]; [exists v; auto|reflexivity].
Qed.

Lemma pw_refl_except (R : nat -> tver -> tver -> Prop) es t0 :
  nth_error es t0 = None -> (forall t v, t <> t0 -> R t v v) -> pw R es es.
Proof.
  intros H0 HR t. destruct (nth_error es t) as [v|] eqn:E; [|reflexivity].
  exists v. split; [reflexivity|]. apply HR. intros ->. congruence.
Qed.

Lemma pw_weaken (R1 R2 : nat -> tver -> tver -> Prop) x y :
  (forall t a b, R1 t a b -> R2 t a b) -> pw R1 x y -> pw R2 x y.
Proof.
  intros HR H t. specialize (H t). destruct (nth_error x t); [|exact H].
  destruct H as [e [He Hr]]. exists e. auto.
Qed.

Lemma pw_length R x y : pw R x y -> length x = length y.
Proof.
  intros H.
  assert (H1 : forall t, t < length x <-> t < length y).
  { intros t. specialize (H t). rewrite <- !nth_error_Some. destruct (nth_error x t).
    - destruct H as [e [-> _]]. split; discriminate.
    - rewrite H. tauto. }
  destruct (Nat.lt_trichotomy (length x) (length y)) as [Hlt|[He|Hgt]]; [|exact He|].
  - apply H1 in Hlt. lia.
  - apply H1 in Hgt. lia.
Qed.

(* ---------- apply_writes, fold by fold ---------- *)
Definition F1 (tid : N) (acc : list tver * list N * N) (t : nat) : list tver * list N * N :=
  let '(es, notify, nw) := acc in
  match nth_error es t with
  | Some v => (upd t (fun _ => mkV (insert_id tid (tv_ids v)) nw (tv_init v)) es, tv_watch v :: notify, (nw + 1)%N)
  | None => acc
  end.
Definition F2 (acc : list tver * N) (tn : nat * N) : list tver * N :=
  let '(es, nw) := acc in
  let '(t, name) := tn in
  match nth_error es t with
  | Some v => match tv_init v with
              | None => (upd t (fun _ => mkV (tv_ids v) (tv_watch v) (Some (nw, [name]))) es, (nw + 1)%N)
              | Some (w, p) => (upd t (fun _ => mkV (tv_ids v) (tv_watch v) (Some (w, p ++ [name]))) es, nw)
              end
  | None => acc
  end.
Definition F3 (es : list tver) (tn : nat * N) : list tver :=
  let '(t, name) := tn in
  match nth_error es t with
  | Some v => match tv_init v with
              | Some (w, p) => upd t (fun _ => mkV (tv_ids v) (tv_watch v) (Some (w, filter (fun n => negb (n =? name)%N) p))) es
              | None => es
              end
  | None => es
  end.

Lemma apply_writes_unfold tid ws rg dn nextw es :
  apply_writes tid ws rg dn nextw es =
  let '(es1, notify, nw) := fold_left (F1 tid) ws (es, [], nextw) in
  let '(es2, nw2) := fold_left F2 rg (es1, nw) in
  (fold_left F3 dn es2, notify, nw2).
Proof. reflexivity. Qed.

Lemma insert_id_In x y l : In y (insert_id x l) <-> y = x \/ In y l.
Proof.
  induction l as [|z r IH]; cbn [insert_id In]; [intuition|].
  destruct (N.eqb_spec x z); [subst; cbn [In]; intuition|].
  destruct (N.ltb x z); cbn [In]; [intuition|]. rewrite IH. intuition.
Qed.

(* what the write fold does to the tid sets *)
Definition Rids (tid : N) (ws : list nat) (t : nat) (v e : tver) : Prop :=
  forall x, In x (tv_ids e) <-> (x = tid /\ In t ws) \/ In x (tv_ids v).

Lemma F1_ids tid : forall ws acc acc', fold_left (F1 tid) ws acc = acc' ->
  pw (Rids tid ws) (fst (fst acc)) (fst (fst acc')).
Proof.
  induction ws as [|t0 ws IH]; intros acc acc' H; cbn [fold_left] in H.
  - subst acc'. apply pw_refl. intros t v x. cbn [In]. tauto.
  - specialize (IH _ _ H).
    apply (pw_trans (Rids tid [t0]) (Rids tid ws) (Rids tid (t0 :: ws)) _ (fst (fst (F1 tid acc t0)))).
    + intros t a b c H1 H2 x. rewrite (H2 x), (H1 x). cbn [In]. intuition.
    + destruct acc as [[es nt] nw]. cbn [fst F1]. destruct (nth_error es t0) as [v0|] eqn:E0; cbn [fst].
      * apply (pw_upd _ _ _ v0); [exact E0| |].
        -- intros x. cbn [tv_ids In]. rewrite insert_id_In. intuition.
        -- intros t v Hne x. cbn [In]. intuition congruence.
      * apply (pw_refl_except _ _ t0 E0). intros t v Hne x. cbn [In]. intuition congruence.
    + exact IH.
Qed.

(* the initializer folds keep ids and watch of every entry *)
Definition Rkeep (t : nat) (v e : tver) : Prop := tv_ids e = tv_ids v /\ tv_watch e = tv_watch v.

Lemma Rkeep_refl t v : Rkeep t v v.
Proof. split; reflexivity. Qed.
Lemma Rkeep_trans t a b c : Rkeep t a b -> Rkeep t b c -> Rkeep t a c.
Proof. unfold Rkeep. intros [? ?] [? ?]. split; congruence. Qed.

Lemma F2_keep : forall rg acc acc', fold_left F2 rg acc = acc' -> pw Rkeep (fst acc) (fst acc').
Proof.
  induction rg as [|[t0 name] rg IH]; intros acc acc' H; cbn [fold_left] in H.
  - subst acc'. apply pw_refl. apply Rkeep_refl.
  - specialize (IH _ _ H). eapply (pw_trans Rkeep Rkeep Rkeep); [apply Rkeep_trans| |exact IH].
    destruct acc as [es nw]. cbn [F2 fst]. destruct (nth_error es t0) as [v0|] eqn:E0; cbn [fst].
    + destruct (tv_init v0) as [[w p]|]; cbn [fst];
        (apply (pw_upd _ _ _ v0); [exact E0|split; reflexivity|intros; apply Rkeep_refl]).
    + apply pw_refl. apply Rkeep_refl.
Qed.

Lemma F3_keep : forall dn es es', fold_left F3 dn es = es' -> pw Rkeep es es'.
Proof.
  induction dn as [|[t0 name] dn IH]; intros es es' H; cbn [fold_left] in H.
  - subst es'. apply pw_refl. apply Rkeep_refl.
  - specialize (IH _ _ H). eapply (pw_trans Rkeep Rkeep Rkeep); [apply Rkeep_trans| |exact IH].
    cbn [F3]. destruct (nth_error es t0) as [v0|] eqn:E0.
    + destruct (tv_init v0) as [[w p]|].
      * apply (pw_upd _ _ _ v0); [exact E0|split; reflexivity|intros; apply Rkeep_refl].
      * apply pw_refl. apply Rkeep_refl.
    + apply pw_refl. apply Rkeep_refl.
Qed.

Lemma apply_writes_ids tid ws rg dn nextw es es' nt nw :
  apply_writes tid ws rg dn nextw es = (es', nt, nw) -> pw (Rids tid ws) es es'.
Proof.
  rewrite apply_writes_unfold.
  destruct (fold_left (F1 tid) ws (es, [], nextw)) as [[es1 nt1] nw1] eqn:E1.
  destruct (fold_left F2 rg (es1, nw1)) as [es2 nw2] eqn:E2.
  intros H. injection H as <- <- <-.
  pose proof (F1_ids tid ws _ _ E1) as H1. cbn [fst] in H1.
  pose proof (F2_keep rg _ _ E2) as H2. cbn [fst] in H2.
  pose proof (F3_keep dn es2 _ eq_refl) as H3.
  eapply (pw_trans (Rids tid ws) Rkeep (Rids tid ws)); [|exact H1|].
  - intros t a b c Hab [Hbc _] x. rewrite Hbc. apply Hab.
  - eapply (pw_trans Rkeep Rkeep Rkeep); [apply Rkeep_trans|exact H2|exact H3].
Qed.

(* ---------- merge_root, pointwise ---------- *)
Definition clear_init (e : tver) : tver :=
  match tv_init e with
  | Some (w, []) => mkV (tv_ids e) (tv_watch e) None
  | _ => e
  end.

Lemma merge_root_nth : forall cur locks es i p,
  nth_error (fst (merge_root locks es cur i)) p =
  match nth_error cur p with
  | None => None
  | Some c => match nth_error es p with
              | Some e => if memb (i + p) locks then Some (clear_init e) else Some c
              | None => Some c
              end
  end.
Proof.
  induction cur as [|c cr IH]; intros locks es i p; cbn [merge_root].
  - destruct p; reflexivity.
  - specialize (IH locks (tl es) (S i)).
    destruct (merge_root locks (tl es) cr (S i)) as [rest closing]. cbn [fst] in IH.
    destruct p as [|p].
    + rewrite Nat.add_0_r. cbn [nth_error].
      destruct es as [|e es']; [reflexivity|]. cbn [nth_error].
      destruct (memb i locks); [|reflexivity].
      unfold clear_init. destruct (tv_init e) as [[w [|n q]]|]; reflexivity.
    + assert (Hr : nth_error (fst (match es with
                | [] => (c :: rest, closing)
                | e :: _ => if memb i locks then match tv_init e with
                                                | Some (w, []) => (mkV (tv_ids e) (tv_watch e) None :: rest, w :: closing)
                                                | _ => (e :: rest, closing) end
                            else (c :: rest, closing) end)) (S p) = nth_error rest p).
      { destruct es as [|e es']; [reflexivity|]. destruct (memb i locks); [|reflexivity].
        destruct (tv_init e) as [[w [|n q]]|]; reflexivity. }
      rewrite Hr, IH. cbn [nth_error]. rewrite Nat.add_succ_r. cbn [Nat.add].
      destruct es as [|e es']; cbn [tl nth_error]; [destruct p; reflexivity|reflexivity].
Qed.

Lemma clear_init_ids e : tv_ids (clear_init e) = tv_ids e.
Proof. unfold clear_init. destruct (tv_init e) as [[w [|n q]]|]; reflexivity. Qed.
Lemma clear_init_watch e : tv_watch (clear_init e) = tv_watch e.
Proof. unfold clear_init. destruct (tv_init e) as [[w [|n q]]|]; reflexivity. Qed.

(* ---------- the visibility invariant ---------- *)
Definition writes_of (a : actor) : list nat :=
  match a_kind a with KWriter _ ws _ _ _ => ws | KRegistrar => [] end.
Definition commits (a : actor) : bool :=
  match a_kind a with KWriter _ _ c _ _ => c | KRegistrar => false end.

(* the transaction's root store has happened *)
Definition committed (a : actor) : bool :=
  match a_pc a with
  | PRootStored | PRootUnlocked | PNotified | PTabsUnlocked | PInitClosed => true
  | PDone => commits a
  | _ => false
  end.

(* x is the tid of a committed transaction that wrote table t *)
Definition cset (acts : list actor) (t : nat) (x : N) : Prop :=
  exists j b, nth_error acts j = Some b /\ a_id b = x /\ committed b = true /\ In t (writes_of b).

(* relation between the private entries of a writer and the current root, for the tables it holds *)
Definition ents_ok (root : list tver) (a : actor) : Prop :=
  match a_pc a with
  | PRootLoaded => forall t, In t (a_locks a) -> nth_error (a_entries a) t = nth_error root t
  | PCommitIdx | PRootLocked | PCommitLoaded | PAbortBefore =>
    forall t, In t (a_locks a) ->
      exists v e, nth_error root t = Some v /\ nth_error (a_entries a) t = Some e /\
                  Rids (a_id a) (writes_of a) t v e
  | _ => True
  end.

Record VInv (s : st) : Prop := mkVInv {
  v_ids : forall t v, nth_error (s_root s) t = Some v -> forall x, In x (tv_ids v) <-> cset (s_actors s) t x;
  v_ents : forall j b, nth_error (s_actors s) j = Some b -> ents_ok (s_root s) b;
  v_nodup : NoDup (map a_id (s_actors s))
}.

Lemma map_upd_same {A B} (f : A -> B) : forall i (l : list A) a a', nth_error l i = Some a -> f a' = f a ->
  map f (upd i (fun _ => a') l) = map f l.
Proof.
  induction i as [|i IH]; intros [|x r] a a' H E; cbn [nth_error] in H; try discriminate; cbn [upd map].
  - injection H as ->. rewrite E. reflexivity.
  - f_equal. eapply IH; eauto.
Qed.

Lemma Step_same_id s i a a' r tl rl cl nw : Step s i a a' r tl rl cl nw ->
  a_id a' = a_id a /\ a_kind a' = a_kind a.
Proof. intros HS. inversion HS; subst; split; reflexivity. Qed.

(* committed is monotone along steps; it changes exactly at the root store *)
Lemma Step_committed s i a a' r tl rl cl nw : Step s i a a' r tl rl cl nw -> pc_ok (a_kind a) (a_pc a) = true ->
  (committed a' = committed a /\ (a_pc a <> PCommitLoaded)) \/
  (a_pc a = PCommitLoaded /\ committed a = false /\ committed a' = true).
Proof.
  intros HS Hok. inversion HS; subst; unfold committed, commits; step_simpl;
    match goal with Hk : a_kind a = _, Hpc : a_pc a = _ |- _ => rewrite Hpc, Hk in *; try rewrite Hk end;
    cbn [pc_ok negb] in Hok; try subst c;
    try (left; split; [reflexivity|discriminate]); try (right; repeat split; reflexivity).
  - left. split; [destruct (a_locks a); reflexivity|discriminate].
  - left. split; [destruct (Nat.ltb (S k) (length (a_locks a))); reflexivity|discriminate].
  - left. split; [|discriminate]. destruct c; [discriminate|reflexivity].
Qed.

Lemma cset_upd_same acts i a a' t x : nth_error acts i = Some a ->
  a_id a' = a_id a -> a_kind a' = a_kind a -> committed a' = committed a ->
  cset (upd i (fun _ => a') acts) t x <-> cset acts t x.
Proof.
  intros Ha Hid Hk Hc. unfold cset. split.
  - intros (j&b&Hb&Hx&Hcb&Hw). rewrite nth_error_upd in Hb. destruct (Nat.eqb_spec i j) as [->|Hne].
    + rewrite Ha in Hb. cbn [option_map] in Hb. injection Hb as <-.
      exists j, a. unfold writes_of in *. rewrite <- Hk, <- Hc, <- Hid. auto.
    + exists j, b. auto.
  - intros (j&b&Hb&Hx&Hcb&Hw). destruct (Nat.eq_dec i j) as [->|Hne].
    + rewrite Ha in Hb. injection Hb as <-. exists j, a'. rewrite nth_error_upd_same, Ha.
      unfold writes_of in *. rewrite Hk, Hc, Hid. auto.
    + exists j, b. rewrite nth_error_upd_other by exact Hne. auto.
Qed.

Lemma cset_upd_commit acts i a a' t x : nth_error acts i = Some a ->
  a_id a' = a_id a -> a_kind a' = a_kind a -> committed a = false -> committed a' = true ->
  cset (upd i (fun _ => a') acts) t x <-> (x = a_id a /\ In t (writes_of a)) \/ cset acts t x.
Proof.
  intros Ha Hid Hk Hc Hc'. unfold cset. split.
  - intros (j&b&Hb&Hx&Hcb&Hw). rewrite nth_error_upd in Hb. destruct (Nat.eqb_spec i j) as [->|Hne].
    + rewrite Ha in Hb. cbn [option_map] in Hb. injection Hb as <-.
      left. unfold writes_of in *. rewrite <- Hk, <- Hid. auto.
    + right. exists j, b. auto.
  - intros [[Hx Hw]|(j&b&Hb&Hx&Hcb&Hw)].
    + exists i, a'. rewrite nth_error_upd_same, Ha. unfold writes_of in *. rewrite Hk, Hid. auto.
    + destruct (Nat.eq_dec i j) as [->|Hne]; [rewrite Ha in Hb; injection Hb as <-; congruence|].
      exists j, b. rewrite nth_error_upd_other by exact Hne. auto.
Qed.

Lemma writes_sub_locks ntab a t : actor_ok ntab a -> a_pc a <> PStart -> In t (writes_of a) -> In t (a_locks a).
Proof.
  intros [Hw _ Hl _] Hp Ht. unfold locks_ok in Hl. unfold writes_of in Ht.
  destruct (a_kind a) as [tabs ws c rg dn|]; [|destruct Ht].
  destruct Hw as (_&Hsub&_). rewrite Hl. destruct (a_pc a); try (apply lock_order_same_set; apply Hsub; exact Ht).
  elim Hp. reflexivity.
Qed.

Lemma writes_lt ntab a t : actor_ok ntab a -> In t (writes_of a) -> t < ntab.
Proof.
  intros [Hw _ _ _] Ht. unfold writes_of in Ht. destruct (a_kind a) as [tabs ws c rg dn|]; [|destruct Ht].
  destruct Hw as (Hlt&Hsub&_). apply Hlt. apply Hsub. exact Ht.
Qed.

(* pcs at which ents_ok says something are pcs at which all locks are held *)
Lemma ents_ok_frame root root' a :
  (forall t, In t (held a) -> nth_error root' t = nth_error root t) -> ents_ok root a -> ents_ok root' a.
Proof.
  unfold ents_ok, held. intros H. destruct (a_pc a); auto.
  - intros H0 t Ht. rewrite (H t Ht). auto.
  - intros H0 t Ht. rewrite (H t Ht). auto.
  - intros H0 t Ht. rewrite (H t Ht). auto.
  - intros H0 t Ht. rewrite (H t Ht). auto.
  - intros H0 t Ht. rewrite (H t Ht). auto.
Qed.

Lemma Step_root ntab s i a a' r tl rl cl nw : Inv ntab s -> nth_error (s_actors s) i = Some a ->
  Step s i a a' r tl rl cl nw ->
  (a_pc a <> PCommitLoaded /\ r = s_root s) \/
  (a_kind a = KRegistrar /\ a_pc a = PRegLoaded /\ r = s_root s ++ [mkV [] (s_nextw s) None]) \/
  (a_pc a = PCommitLoaded /\ commits a = true /\ length r = length (s_root s) /\
   forall t, nth_error r t = match nth_error (s_root s) t with
                             | None => None
                             | Some c => match nth_error (a_entries a) t with
                                         | Some e => if memb t (a_locks a) then Some (clear_init e) else Some c
                                         | None => Some c end end).
Proof.
  intros HI Ha HS. pose proof (ok_pc _ _ (inv_ok _ _ HI _ _ Ha)) as Hok.
  inversion HS; subst; try (left; split; [congruence|reflexivity]); auto.
  right; right. split; [assumption|]. split.
  - unfold commits. rewrite H in *. rewrite H0 in Hok. exact Hok.
  - pose proof (merge_root_length (s_root s) (a_locks a) (a_entries a) 0) as Hlen.
    pose proof (merge_root_nth (s_root s) (a_locks a) (a_entries a) 0) as Hn.
    rewrite H1 in Hlen, Hn. cbn [fst] in Hlen, Hn. split; [exact Hlen|]. intros t. apply Hn.
Qed.

(* entries of tables held by OTHER actors are not touched by a step of actor i *)
Lemma Step_root_other ntab s i a a' r tl rl cl nw j b t : Inv ntab s -> nth_error (s_actors s) i = Some a ->
  Step s i a a' r tl rl cl nw -> j <> i -> nth_error (s_actors s) j = Some b -> In t (held b) ->
  nth_error r t = nth_error (s_root s) t.
Proof.
  intros HI Ha HS Hji Hb Ht.
  destruct (Step_root _ _ _ _ _ _ _ _ _ _ HI Ha HS) as [[_ ->]|[(_&_&->)|(Hp&_&_&Hn)]]; [reflexivity| |].
  - apply nth_error_app1.
    assert (t < ntab) by (eapply actor_ok_lt; [eapply inv_ok; eauto|apply held_sub; exact Ht]).
    destruct (inv_len _ _ HI). lia.
  - rewrite Hn. destruct (nth_error (s_root s) t) as [c|]; [|reflexivity].
    destruct (nth_error (a_entries a) t) as [e|]; [|reflexivity].
    destruct (memb t (a_locks a)) eqn:Hm; [|reflexivity].
    exfalso. apply Hji. apply memb_In in Hm.
    apply (mutual_exclusion ntab s j i b a t HI Hb Ha Ht). unfold held. rewrite Hp. exact Hm.
Qed.

Lemma Step_ents_self ntab s i a a' r tl rl cl nw : Inv ntab s -> nth_error (s_actors s) i = Some a ->
  Step s i a a' r tl rl cl nw -> ents_ok (s_root s) a -> ents_ok r a'.
Proof.
  intros HI Ha HS He. pose proof (inv_ok _ _ HI _ _ Ha) as Hok.
  assert (Hlt : forall t, In t (a_locks a) -> exists v, nth_error (s_root s) t = Some v).
  { intros t Ht. assert (t < ntab) by (eapply actor_ok_lt; eauto). destruct (inv_len _ _ HI).
    destruct (nth_error (s_root s) t) eqn:E; [eauto|]. apply nth_error_None in E. lia. }
  unfold ents_ok in *.
  inversion HS; subst; step_simpl;
    match goal with Hpc : a_pc a = _ |- _ => rewrite Hpc in He end; try exact I; auto.
  - destruct (a_locks a); exact I.
  - destruct (Nat.ltb (S k) (length (a_locks a))); exact I.
  - (* apply_writes, commit *)
    intros t Ht. destruct (Hlt t Ht) as [v Hv]. pose proof (apply_writes_ids _ _ _ _ _ _ _ _ _ H1 t) as Hpw.
    rewrite (He t Ht), Hv in Hpw. destruct Hpw as [e [Hee Hr]]. exists v, e. split; [exact Hv|]. split; [exact Hee|].
    unfold writes_of. step_simpl. rewrite H. exact Hr.
  - intros t Ht. destruct (Hlt t Ht) as [v Hv]. pose proof (apply_writes_ids _ _ _ _ _ _ _ _ _ H1 t) as Hpw.
    rewrite (He t Ht), Hv in Hpw. destruct Hpw as [e [Hee Hr]]. exists v, e. split; [exact Hv|]. split; [exact Hee|].
    unfold writes_of. step_simpl. rewrite H. exact Hr.
Qed.

Lemma Step_VInv ntab s i a a' r tl rl cl nw : Inv ntab s -> VInv s -> nth_error (s_actors s) i = Some a ->
  Step s i a a' r tl rl cl nw -> VInv (post s i a' r tl rl cl nw).
Proof.
  intros HI HV Ha HS. pose proof (inv_ok _ _ HI _ _ Ha) as Hok.
  destruct (Step_same_id _ _ _ _ _ _ _ _ _ HS) as [Hid Hk].
  unfold post. constructor; cbn [s_root s_actors].
  - (* ids of the root entries *)
    intros t v Hv x.
    destruct (Step_committed _ _ _ _ _ _ _ _ _ HS (ok_pc _ _ Hok)) as [[Hc Hnp]|(Hp&Hc&Hc')].
    + rewrite (cset_upd_same _ _ a) by assumption.
      destruct (Step_root _ _ _ _ _ _ _ _ _ _ HI Ha HS) as [[_ ->]|[(_&_&->)|(Hp&_)]]; [apply (v_ids _ HV); exact Hv| |contradiction].
      destruct (Nat.lt_ge_cases t (length (s_root s))) as [Hlt|Hge].
      * rewrite nth_error_app1 in Hv by exact Hlt. apply (v_ids _ HV); exact Hv.
      * rewrite nth_error_app2 in Hv by exact Hge.
        assert (Hv' : v = mkV [] (s_nextw s) None).
        { destruct (t - length (s_root s)) as [|m]; cbn [nth_error] in Hv; [congruence|destruct m; discriminate]. }
        subst v. cbn [tv_ids In]. split; [tauto|]. intros (j&b&Hb&_&_&Hw). exfalso.
        assert (t < ntab) by (eapply writes_lt; [eapply inv_ok; eauto|exact Hw]).
        destruct (inv_len _ _ HI). lia.
    + rewrite (cset_upd_commit _ _ a) by assumption.
      destruct (Step_root _ _ _ _ _ _ _ _ _ _ HI Ha HS) as [[Hnp _]|[(_&Hp'&_)|(_&_&Hlen&Hn)]]; [contradiction|congruence|].
      rewrite Hn in Hv. destruct (nth_error (s_root s) t) as [c|] eqn:Hc0; [|discriminate].
      pose proof (v_ids _ HV t c Hc0) as Hold.
      pose proof (v_ents _ HV i a Ha) as He. unfold ents_ok in He. rewrite Hp in He.
      destruct (memb t (a_locks a)) eqn:Hm.
      * apply memb_In in Hm. destruct (He t Hm) as (v0&e&Hv0&He0&Hr).
        rewrite He0 in Hv. injection Hv as <-. rewrite clear_init_ids.
        rewrite Hc0 in Hv0. injection Hv0 as <-. rewrite (Hr x), (Hold x). tauto.
      * apply memb_false in Hm.
        assert (Hvc : v = c) by (destruct (nth_error (a_entries a) t); congruence). subst v.
        rewrite (Hold x). split; [tauto|]. intros [[_ Hw]|H]; [|exact H]. exfalso. apply Hm.
        eapply writes_sub_locks; [exact Hok|rewrite Hp; discriminate|exact Hw].
  - (* private entries *)
    intros j b. rewrite nth_error_upd. destruct (Nat.eqb_spec i j) as [->|Hne].
    + rewrite Ha. cbn [option_map]. intros Hb. injection Hb as <-.
      eapply Step_ents_self; eauto. apply (v_ents _ HV j a Ha).
    + intros Hb. apply (ents_ok_frame (s_root s)); [|apply (v_ents _ HV j b Hb)].
      intros t Ht. apply (Step_root_other ntab s i a a' r tl rl cl nw j b t HI Ha HS); auto.
  - rewrite (map_upd_same a_id i (s_actors s) a a' Ha Hid). apply (v_nodup _ HV).
Qed.

Theorem VInv_step ntab s i : Inv ntab s -> VInv s -> VInv (step s i).
Proof.
  intros HI HV. destruct (enabled s i) eqn:He; [|rewrite step_disabled; assumption].
  destruct (Inv_step_spec _ _ _ HI He) as (a&a'&r&tl&rl&cl&nw&Ha&HS&E). rewrite E.
  eapply Step_VInv; eauto.
Qed.

Theorem VInv_init ntab actors : NoDup (map fst actors) -> VInv (init_st ntab actors).
Proof.
  intros Hnd. unfold init_st. constructor; cbn [s_root s_actors].
  - intros t v Hv x. apply nth_error_In in Hv. apply in_map_iff in Hv. destruct Hv as [n [<- _]].
    cbn [tv_ids In]. split; [tauto|]. intros (j&b&Hb&_&Hc&_).
    apply nth_error_In in Hb. apply in_map_iff in Hb. destruct Hb as [[tid k] [<- _]]. discriminate.
  - intros j b Hb. apply nth_error_In in Hb. apply in_map_iff in Hb. destruct Hb as [[tid k] [<- _]]. exact I.
  - rewrite map_map. cbn [a_id]. exact Hnd.
Qed.

(* both invariants along every schedule *)
Definition wf_system (ntab : nat) (actors : list (N * kind)) : Prop :=
  wf_actors ntab actors /\ NoDup (map fst actors).

Theorem VInv_run ntab sched : forall s, Inv ntab s -> VInv s -> VInv (run s sched).
Proof.
  unfold run. induction sched as [|i r IH]; intros s HI HV; cbn [fold_left]; [exact HV|].
  apply IH; [apply Inv_step; exact HI|apply (VInv_step ntab); assumption].
Qed.

Theorem reachable_invs ntab actors sched : wf_system ntab actors ->
  Inv ntab (run (init_st ntab actors) sched) /\ VInv (run (init_st ntab actors) sched).
Proof.
  intros [Hwf Hnd]. split; [apply Inv_reachable; exact Hwf|].
  apply (VInv_run ntab); [apply Inv_init; exact Hwf|apply VInv_init; exact Hnd].
Qed.

(* ---------- consequences ---------- *)
Lemma NoDup_map_nth {A B} (f : A -> B) (l : list A) i j a b : NoDup (map f l) ->
  nth_error l i = Some a -> nth_error l j = Some b -> f a = f b -> i = j.
Proof.
  intros Hnd Ha Hb E. rewrite NoDup_nth_error in Hnd. apply Hnd.
  - rewrite map_length. apply nth_error_Some. congruence.
  - rewrite (map_nth_error f _ _ Ha), (map_nth_error f _ _ Hb). congruence.
Qed.

Lemma committed_commits a : pc_ok (a_kind a) (a_pc a) = true -> committed a = true -> commits a = true.
Proof.
  unfold committed, commits, pc_ok. destruct (a_kind a) as [tabs ws c rg dn|]; destruct (a_pc a); congruence.
Qed.

(* exact visibility: the id of transaction i is in the committed entry of table t iff i wrote t and has
   executed its root store *)
Theorem visible_iff ntab s i a t v : Inv ntab s -> VInv s ->
  nth_error (s_actors s) i = Some a -> nth_error (s_root s) t = Some v ->
  (In (a_id a) (tv_ids v) <-> committed a = true /\ In t (writes_of a)).
Proof.
  intros HI HV Ha Hv. rewrite (v_ids _ HV t v Hv). split.
  - intros (j&b&Hb&Hid&Hc&Hw).
    assert (j = i) by (eapply (NoDup_map_nth a_id); [apply (v_nodup _ HV)|exact Hb|exact Ha|exact Hid]).
    subst j. rewrite Ha in Hb. injection Hb as <-. auto.
  - intros [Hc Hw]. exists i, a. auto.
Qed.

(* atomic visibility: in every reachable state either all or none of the written tables show the id *)
Theorem atomic_visibility ntab s i a : Inv ntab s -> VInv s -> nth_error (s_actors s) i = Some a ->
  (forall t, In t (writes_of a) -> exists v, nth_error (s_root s) t = Some v /\ In (a_id a) (tv_ids v)) \/
  (forall t v, nth_error (s_root s) t = Some v -> ~ In (a_id a) (tv_ids v)).
Proof.
  intros HI HV Ha. destruct (committed a) eqn:Hc.
  - left. intros t Hw.
    assert (Hlt : t < ntab) by (eapply writes_lt; [eapply inv_ok; eauto|exact Hw]).
    destruct (inv_len _ _ HI) as [Hl Hn].
    destruct (nth_error (s_root s) t) as [v|] eqn:Hv; [|apply nth_error_None in Hv; lia].
    exists v. split; [reflexivity|]. apply (visible_iff ntab s i a t v HI HV Ha Hv). auto.
  - right. intros t v Hv Hin. apply (visible_iff ntab s i a t v HI HV Ha Hv) in Hin. destruct Hin. congruence.
Qed.

(* what a micro-step can do to the committed root *)
Theorem root_step_cases ntab s i : Inv ntab s -> VInv s ->
  s_root (step s i) = s_root s \/
  (exists a, nth_error (s_actors s) i = Some a /\ a_kind a = KRegistrar /\ a_pc a = PRegLoaded /\
             s_root (step s i) = s_root s ++ [mkV [] (s_nextw s) None]) \/
  (exists a, nth_error (s_actors s) i = Some a /\ a_pc a = PCommitLoaded /\ commits a = true /\
     length (s_root (step s i)) = length (s_root s) /\
     (forall t, ~ In t (a_locks a) -> nth_error (s_root (step s i)) t = nth_error (s_root s) t) /\
     (forall t v, In t (a_locks a) -> nth_error (s_root s) t = Some v ->
        exists v', nth_error (s_root (step s i)) t = Some v' /\
                   forall x, In x (tv_ids v') <-> (x = a_id a /\ In t (writes_of a)) \/ In x (tv_ids v))).
Proof.
  intros HI HV. destruct (enabled s i) eqn:He; [|rewrite step_disabled by exact He; auto].
  destruct (Inv_step_spec _ _ _ HI He) as (a&a'&r&tl&rl&cl&nw&Ha&HS&E). rewrite E. unfold post. cbn [s_root].
  destruct (Step_root _ _ _ _ _ _ _ _ _ _ HI Ha HS) as [[_ ->]|[(Hk&Hp&->)|(Hp&Hc&Hlen&Hn)]]; [auto| |].
  - right; left. exists a. auto.
  - right; right. exists a. repeat split; auto.
    + intros t Ht. apply memb_false in Ht. rewrite Hn, Ht.
      destruct (nth_error (s_root s) t); [|reflexivity]. destruct (nth_error (a_entries a) t); reflexivity.
    + intros t v Ht Hv. pose proof (v_ents _ HV i a Ha) as Hents. unfold ents_ok in Hents. rewrite Hp in Hents.
      destruct (Hents t Ht) as (v0&e&Hv0&He0&Hr). rewrite Hv in Hv0. injection Hv0 as <-.
      apply memb_In in Ht. rewrite Hn, Hv, He0, Ht. exists (clear_init e). split; [reflexivity|].
      rewrite clear_init_ids. exact Hr.
Qed.

Lemma ids_step ntab s i t v : Inv ntab s -> VInv s -> nth_error (s_root s) t = Some v ->
  exists v', nth_error (s_root (step s i)) t = Some v' /\ incl (tv_ids v) (tv_ids v').
Proof.
  intros HI HV Hv.
  destruct (root_step_cases ntab s i HI HV) as [->|[(a&_&_&_&->)|(a&Ha&Hp&Hc&Hlen&Hout&Hin)]].
  - exists v. split; [exact Hv|apply incl_refl].
  - exists v. split; [|apply incl_refl]. rewrite nth_error_app1; [exact Hv|]. apply nth_error_Some. congruence.
  - destruct (in_dec Nat.eq_dec t (a_locks a)) as [Ht|Ht].
    + destruct (Hin t v Ht Hv) as [v' [Hv' Hx]]. exists v'. split; [exact Hv'|].
      intros x Hxin. apply Hx. right. exact Hxin.
    + exists v. rewrite (Hout t Ht). split; [exact Hv|apply incl_refl].
Qed.

(* no lost write: an id visible in the root of table t stays visible in every later root *)
Theorem no_lost_write ntab sched : forall s t v x, Inv ntab s -> VInv s ->
  nth_error (s_root s) t = Some v -> In x (tv_ids v) ->
  exists v', nth_error (s_root (run s sched)) t = Some v' /\ In x (tv_ids v').
Proof.
  unfold run. induction sched as [|i r IH]; intros s t v x HI HV Hv Hx; cbn [fold_left]; [eauto|].
  destruct (ids_step ntab s i t v HI HV Hv) as [v1 [Hv1 Hincl]].
  apply (IH (step s i) t v1 x); [apply Inv_step; exact HI|apply (VInv_step ntab); assumption|exact Hv1|].
  apply Hincl. exact Hx.
Qed.

(* the root never shrinks *)
Theorem root_length_mono ntab s i : Inv ntab s -> VInv s -> length (s_root s) <= length (s_root (step s i)).
Proof.
  intros HI HV.
  destruct (root_step_cases ntab s i HI HV) as [->|[(a&_&_&_&->)|(a&_&_&_&->&_)]]; [lia| |lia].
  rewrite app_length. cbn [length]. lia.
Qed.

(* Abort leaves no trace: no step of a non-committing actor (aborting writer or registrar) closes a channel,
   and no step of an aborting writer changes the committed root *)
Theorem abort_step_no_trace ntab s i a : Inv ntab s -> nth_error (s_actors s) i = Some a -> commits a = false ->
  s_closed (step s i) = s_closed s /\ (a_kind a <> KRegistrar -> s_root (step s i) = s_root s).
Proof.
  intros HI Ha Hc. destruct (enabled s i) eqn:He; [|rewrite step_disabled by exact He; auto].
  destruct (Inv_step_spec _ _ _ HI He) as (a0&a'&r&tl&rl&cl&nw&Ha0&HS&E). rewrite E. unfold post. cbn [s_root s_closed].
  rewrite Ha in Ha0. injection Ha0 as <-.
  pose proof (ok_pc _ _ (inv_ok _ _ HI _ _ Ha)) as Hok. unfold commits in Hc.
  inversion HS; subst; match goal with Hk : a_kind a = _, Hpc : a_pc a = _ |- _ => rewrite Hk, Hpc in * end;
    cbn [pc_ok negb] in Hok; try subst c; try discriminate; split; try reflexivity; try congruence.
Qed.

Theorem aborted_id_never_visible ntab s i a t v : Inv ntab s -> VInv s ->
  nth_error (s_actors s) i = Some a -> commits a = false -> nth_error (s_root s) t = Some v ->
  ~ In (a_id a) (tv_ids v).
Proof.
  intros HI HV Ha Hc Hv Hin. apply (visible_iff ntab s i a t v HI HV Ha Hv) in Hin. destruct Hin as [Hcm _].
  apply committed_commits in Hcm; [congruence|]. apply (ok_pc ntab). eapply inv_ok; eauto.
Qed.

(* while an actor holds table t, no step of another actor changes the committed entry of t *)
Theorem held_entry_stable ntab s i j b t : Inv ntab s -> j <> i ->
  nth_error (s_actors s) j = Some b -> In t (held b) ->
  nth_error (s_root (step s i)) t = nth_error (s_root s) t.
Proof.
  intros HI Hji Hb Ht. destruct (enabled s i) eqn:He; [|rewrite step_disabled by exact He; auto].
  destruct (Inv_step_spec _ _ _ HI He) as (a&a'&r&tl&rl&cl&nw&Ha&HS&E). rewrite E. unfold post. cbn [s_root].
  eapply Step_root_other; eauto.
Qed.

(* the cloned entry is the latest committed one: between its root load and its root store (or abort), the
   private entry of every table a writer holds is the CURRENT committed entry (before its own writes), resp.
   the current committed id set plus its own id (after them) *)
Theorem clone_is_latest ntab s i a t : Inv ntab s -> VInv s -> nth_error (s_actors s) i = Some a ->
  In t (a_locks a) ->
  (a_pc a = PRootLoaded -> nth_error (a_entries a) t = nth_error (s_root s) t) /\
  (a_pc a = PCommitIdx \/ a_pc a = PRootLocked \/ a_pc a = PCommitLoaded \/ a_pc a = PAbortBefore ->
   exists v e, nth_error (s_root s) t = Some v /\ nth_error (a_entries a) t = Some e /\
               forall x, In x (tv_ids e) <-> (x = a_id a /\ In t (writes_of a)) \/ In x (tv_ids v)).
Proof.
  intros HI HV Ha Ht. pose proof (v_ents _ HV i a Ha) as He. unfold ents_ok in He. split.
  - intros Hp. rewrite Hp in He. auto.
  - intros [Hp|[Hp|[Hp|Hp]]]; rewrite Hp in He; apply (He t Ht).
Qed.

(* ... hence it contains every write committed to that table so far *)
Theorem sees_all_committed ntab s i a j b t : Inv ntab s -> VInv s ->
  nth_error (s_actors s) i = Some a -> In t (a_locks a) ->
  a_pc a = PRootLoaded \/ a_pc a = PCommitIdx \/ a_pc a = PRootLocked \/ a_pc a = PCommitLoaded \/ a_pc a = PAbortBefore ->
  nth_error (s_actors s) j = Some b -> committed b = true -> In t (writes_of b) ->
  exists e, nth_error (a_entries a) t = Some e /\ In (a_id b) (tv_ids e).
Proof.
  intros HI HV Ha Ht Hp Hb Hc Hw.
  assert (Hlt : t < ntab) by (eapply writes_lt; [eapply inv_ok; eauto|exact Hw]).
  destruct (inv_len _ _ HI) as [Hl Hn].
  destruct (nth_error (s_root s) t) as [v|] eqn:Hv; [|apply nth_error_None in Hv; lia].
  assert (Hin : In (a_id b) (tv_ids v)) by (apply (visible_iff ntab s j b t v HI HV Hb Hv); auto).
  destruct (clone_is_latest ntab s i a t HI HV Ha Ht) as [H1 H2].
  destruct Hp as [Hp|Hp].
  - exists v. rewrite (H1 Hp). auto.
  - destruct (H2 Hp) as (v0&e&Hv0&He&Hx). rewrite Hv in Hv0. injection Hv0 as <-.
    exists e. split; [exact He|]. apply Hx. right. exact Hin.
Qed.
