(* DB/Locks.v — liveness-side consequences of the lock invariant (DB/Invariants.v):
   no deadlock, independence of transactions on disjoint tables, termination measure. *)
From Coq Require Import Arith PeanoNat.
From SV Require Import DB.Model DB.Proofs DB.Invariants.
Open Scope nat_scope.

Definition tabs_of (a : actor) : list nat :=
  match a_kind a with KWriter tabs _ _ _ _ => tabs | KRegistrar => [] end.

Definition unfinished (s : st) : Prop := exists i a, nth_error (s_actors s) i = Some a /\ a_pc a <> PDone.
Definition all_done (s : st) : Prop := forall i a, nth_error (s_actors s) i = Some a -> a_pc a = PDone.

Lemma locks_sub_tabs ntab a t : actor_ok ntab a -> In t (a_locks a) -> In t (tabs_of a).
Proof.
  intros Hok Ht. destruct (actor_ok_tabs _ _ _ Hok Ht) as (tabs&wr&c&rg&dn&Hk&Hin&_).
  unfold tabs_of. rewrite Hk. exact Hin.
Qed.

(* ---------- no deadlock ---------- *)
Lemma not_locking_enabled s i a : s_rlock s = None -> nth_error (s_actors s) i = Some a ->
  a_pc a <> PDone -> (forall k, a_pc a <> PLocking k) -> enabled s i = true.
Proof.
  intros Hr Ha Hd Hl. unfold enabled. rewrite Ha, Hr. destruct (a_pc a); try reflexivity; [elim (Hl i0)|elim Hd]; reflexivity.
Qed.

Lemma held_not_done a t : In t (held a) -> a_pc a <> PDone.
Proof. unfold held. intros H E. rewrite E in H. destruct H. Qed.

(* the wait-for chain argument: an actor waiting for table t is either enabled, or t's holder is enabled,
   or t's holder waits for a strictly larger table *)
Lemma chain_enabled ntab s : Inv ntab s -> s_rlock s = None ->
  forall n i a k t, nth_error (s_actors s) i = Some a -> a_pc a = PLocking k ->
    nth_error (a_locks a) k = Some t -> length (s_tlock s) - t <= n -> exists i', enabled s i' = true.
Proof.
  intros HI Hr. induction n as [|n IH]; intros i a k t Ha Hpc Hk Hn.
  - pose proof (inv_ok _ _ HI _ _ Ha) as Hok.
    assert (Hlt : t < ntab) by (eapply actor_ok_lt; [exact Hok|eapply nth_error_In; eauto]).
    destruct (inv_len _ _ HI) as [_ Hge]. lia.
  - pose proof (inv_ok _ _ HI _ _ Ha) as Hok.
    assert (Hlt : t < ntab) by (eapply actor_ok_lt; [exact Hok|eapply nth_error_In; eauto]).
    destruct (inv_len _ _ HI) as [_ Hge].
    destruct (nth_error (s_tlock s) t) as [[j|]|] eqn:Ht.
    + apply (inv_tl _ _ HI) in Ht. destruct Ht as [b [Hb Hin]].
      pose proof (inv_ok _ _ HI _ _ Hb) as Hokb.
      destruct (a_pc b) eqn:Hpb;
        try (exists j; apply (not_locking_enabled s j b Hr Hb); [apply (held_not_done _ _ Hin)|rewrite Hpb; discriminate]).
      (* b is itself waiting, at PLocking i0 *)
      pose proof (ok_idx _ _ Hokb) as Hidx. unfold idx_ok in Hidx. rewrite Hpb in Hidx.
      destruct (nth_error (a_locks b) i0) as [u|] eqn:Hu; [|apply nth_error_None in Hu; lia].
      unfold held in Hin. rewrite Hpb in Hin.
      assert (Htu : t < u) by (eapply strictly_inc_firstn_lt; [eapply actor_ok_inc; exact Hokb|exact Hin|exact Hu]).
      apply (IH j b i0 u Hb Hpb Hu). lia.
    + exists i. unfold enabled. rewrite Ha, Hpc, Hk, Ht. reflexivity.
    + apply nth_error_None in Ht. lia.
Qed.

Theorem no_deadlock_inv ntab s : Inv ntab s -> unfinished s -> exists i, enabled s i = true.
Proof.
  intros HI (i&a&Ha&Hd). destruct (s_rlock s) as [h|] eqn:Hr.
  - apply (inv_rl _ _ HI) in Hr. destruct Hr as [b [Hb Hrb]]. exists h. eapply rholds_enabled; eauto.
  - destruct (a_pc a) eqn:Hp;
      try (exists i; apply (not_locking_enabled s i a Hr Ha); rewrite Hp; [assumption|discriminate]).
    pose proof (inv_ok _ _ HI _ _ Ha) as Hok.
    pose proof (ok_idx _ _ Hok) as Hidx. unfold idx_ok in Hidx. rewrite Hp in Hidx.
    destruct (nth_error (a_locks a) i0) as [t|] eqn:Ht; [|apply nth_error_None in Ht; lia].
    apply (chain_enabled ntab s HI Hr (length (s_tlock s)) i a i0 t Ha Hp Ht). lia.
Qed.

Theorem no_deadlock ntab actors sched : wf_actors ntab actors ->
  let s := run (init_st ntab actors) sched in
  (exists i a, nth_error (s_actors s) i = Some a /\ a_pc a <> PDone) -> exists i, enabled s i = true.
Proof. intros Hwf s Hu. apply (no_deadlock_inv ntab); [apply Inv_reachable; exact Hwf|exact Hu]. Qed.

(* ---------- independence ---------- *)
(* a writer waiting for a table is enabled exactly when nobody holds that table *)
Theorem locking_enabled_iff ntab s i a k t : Inv ntab s ->
  nth_error (s_actors s) i = Some a -> a_pc a = PLocking k -> nth_error (a_locks a) k = Some t ->
  (enabled s i = true <-> forall j, ~ holds (s_actors s) j t).
Proof.
  intros HI Ha Hp Hk. unfold enabled. rewrite Ha, Hp, Hk.
  pose proof (inv_ok _ _ HI _ _ Ha) as Hok.
  assert (Hlt : t < ntab) by (eapply actor_ok_lt; [exact Hok|eapply nth_error_In; eauto]).
  destruct (inv_len _ _ HI) as [_ Hge].
  destruct (nth_error (s_tlock s) t) as [[j|]|] eqn:Ht.
  - split; [discriminate|]. intros H. exfalso. apply (H j). apply (inv_tl _ _ HI). exact Ht.
  - split; [|reflexivity]. intros _ j Hj. apply (inv_tl _ _ HI) in Hj. congruence.
  - apply nth_error_None in Ht. lia.
Qed.

(* an actor waiting for the root lock is enabled exactly when nobody holds it *)
Theorem rootlock_enabled_iff ntab s i a : Inv ntab s ->
  nth_error (s_actors s) i = Some a -> a_pc a = PCommitIdx \/ a_pc a = PRegBefore ->
  (enabled s i = true <-> forall j, ~ rholder (s_actors s) j).
Proof.
  intros HI Ha Hp. unfold enabled. rewrite Ha.
  assert (E : (match a_pc a with
      | PLocking k => match nth_error (a_locks a) k with
          | Some t => match nth_error (s_tlock s) t with Some None => true | _ => false end | None => false end
      | PCommitIdx | PRegBefore => match s_rlock s with Some _ => false | None => true end
      | PDone => false | _ => true end) = match s_rlock s with Some _ => false | None => true end)
    by (destruct Hp as [-> | ->]; reflexivity).
  rewrite E. destruct (s_rlock s) as [h|] eqn:Hr.
  - split; [discriminate|]. intros H. exfalso. apply (H h). apply (inv_rl _ _ HI). exact Hr.
  - split; [|reflexivity]. intros _ j Hj. apply (inv_rl _ _ HI) in Hj. congruence.
Qed.

(* every other pc is always enabled *)
Theorem other_pcs_enabled s i a : nth_error (s_actors s) i = Some a ->
  a_pc a <> PDone -> acquiring a = false -> enabled s i = true.
Proof.
  intros Ha Hd Hq. unfold enabled. rewrite Ha. unfold acquiring in Hq.
  destruct (a_pc a); try reflexivity; try discriminate. elim Hd. reflexivity.
Qed.

(* a blocked, unfinished actor is blocked either on a table that it shares with the (different) writer
   holding it, or on the root lock, whose (different) holder is itself enabled *)
Theorem blocked_only_by_sharing ntab s i a : Inv ntab s ->
  nth_error (s_actors s) i = Some a -> a_pc a <> PDone -> enabled s i = false ->
  (exists k t j b, a_pc a = PLocking k /\ nth_error (a_locks a) k = Some t /\ j <> i /\
      nth_error (s_actors s) j = Some b /\ In t (held b) /\ In t (tabs_of a) /\ In t (tabs_of b)) \/
  (exists j b, (a_pc a = PCommitIdx \/ a_pc a = PRegBefore) /\ j <> i /\
      nth_error (s_actors s) j = Some b /\ rholds b = true /\ enabled s j = true).
Proof.
  intros HI Ha Hd He. pose proof (inv_ok _ _ HI _ _ Ha) as Hok.
  destruct (acquiring a) eqn:Hq; [|rewrite (other_pcs_enabled s i a Ha Hd Hq) in He; discriminate].
  unfold acquiring in Hq. destruct (a_pc a) eqn:Hp; try discriminate.
  - (* PLocking *)
    left. pose proof (ok_idx _ _ Hok) as Hidx. unfold idx_ok in Hidx. rewrite Hp in Hidx.
    destruct (nth_error (a_locks a) i0) as [t|] eqn:Ht; [|apply nth_error_None in Ht; lia].
    assert (Hlt : t < ntab) by (eapply actor_ok_lt; [exact Hok|eapply nth_error_In; eauto]).
    destruct (inv_len _ _ HI) as [_ Hge].
    unfold enabled in He. rewrite Ha, Hp, Ht in He.
    destruct (nth_error (s_tlock s) t) as [[j|]|] eqn:Hl; [|discriminate|apply nth_error_None in Hl; lia].
    apply (inv_tl _ _ HI) in Hl. destruct Hl as [b [Hb Hin]].
    exists i0, t, j, b. repeat split; auto.
    + intros ->. rewrite Ha in Hb. injection Hb as <-. unfold held in Hin. rewrite Hp in Hin.
      pose proof (strictly_inc_firstn_lt _ _ _ _ (actor_ok_inc _ _ Hok) Hin Ht). lia.
    + eapply locks_sub_tabs; [exact Hok|eapply nth_error_In; eauto].
    + eapply locks_sub_tabs; [eapply inv_ok; eauto|apply held_sub; exact Hin].
  - (* PCommitIdx *)
    right. unfold enabled in He. rewrite Ha, Hp in He.
    destruct (s_rlock s) as [j|] eqn:Hr; [|discriminate].
    apply (inv_rl _ _ HI) in Hr. destruct Hr as [b [Hb Hrb]].
    exists j, b. repeat split; auto.
    + intros ->. rewrite Ha in Hb. injection Hb as <-. unfold rholds in Hrb. rewrite Hp in Hrb. discriminate.
    + eapply rholds_enabled; eauto.
  - (* PRegBefore *)
    right. unfold enabled in He. rewrite Ha, Hp in He.
    destruct (s_rlock s) as [j|] eqn:Hr; [|discriminate].
    apply (inv_rl _ _ HI) in Hr. destruct Hr as [b [Hb Hrb]].
    exists j, b. repeat split; auto.
    + intros ->. rewrite Ha in Hb. injection Hb as <-. unfold rholds in Hrb. rewrite Hp in Hrb. discriminate.
    + eapply rholds_enabled; eauto.
Qed.

(* a writer whose table set is disjoint from every other writer's never waits for a table lock *)
Theorem disjoint_never_waits ntab s i a k : Inv ntab s ->
  nth_error (s_actors s) i = Some a -> a_pc a = PLocking k ->
  (forall j b t, j <> i -> nth_error (s_actors s) j = Some b -> In t (tabs_of a) -> ~ In t (tabs_of b)) ->
  enabled s i = true.
Proof.
  intros HI Ha Hp Hdis. destruct (enabled s i) eqn:He; [reflexivity|exfalso].
  assert (Hd : a_pc a <> PDone) by (rewrite Hp; discriminate).
  destruct (blocked_only_by_sharing ntab s i a HI Ha Hd He) as [(k'&t&j&b&_&_&Hji&Hb&_&Hta&Htb)|(j&b&[Hc|Hc]&_)].
  - apply (Hdis j b t Hji Hb Hta Htb).
  - rewrite Hp in Hc. discriminate.
  - rewrite Hp in Hc. discriminate.
Qed.

(* a step of actor j changes the holder of table t only to j itself, and only for a table of j's own
   lock set (and then t was free); it frees only tables that j itself held *)
Theorem step_takes_only_own_tables ntab s j t h : Inv ntab s ->
  nth_error (s_tlock (step s j)) t = Some (Some h) -> nth_error (s_tlock s) t <> Some (Some h) ->
  h = j /\ nth_error (s_tlock s) t = Some None /\
  exists b, nth_error (s_actors s) j = Some b /\ In t (a_locks b) /\ In t (tabs_of b).
Proof.
  intros HI H1 H0. destruct (enabled s j) eqn:He; [|rewrite step_disabled in H1 by exact He; contradiction].
  destruct (Inv_step_spec _ _ _ HI He) as (a&a'&r&tl&rl&cl&nw&Ha&HS&E). rewrite E in H1. unfold post in H1.
  cbn [s_tlock] in H1.
  inversion HS; subst; try contradiction.
  - destruct (Nat.eq_dec t0 t) as [Heq|Hne]; [subst t0|rewrite nth_error_upd_other in H1 by exact Hne; contradiction].
    rewrite nth_error_upd_same in H1.
    rewrite H4 in H1. cbn [option_map] in H1. injection H1 as <-.
    split; [reflexivity|]. split; [exact H4|]. exists a. split; [exact Ha|].
    assert (Hin : In t (a_locks a)) by (eapply nth_error_In; eauto).
    split; [exact Hin|]. eapply locks_sub_tabs; [eapply inv_ok; eauto|exact Hin].
  - unfold unlock_all in H1. rewrite nth_error_unlock in H1. revert H1. destruct (memb t (a_locks a)); [|intros; contradiction].
    destruct (nth_error (s_tlock s) t); discriminate.
  - unfold unlock_all in H1. rewrite nth_error_unlock in H1. revert H1. destruct (memb t (a_locks a)); [|intros; contradiction].
    destruct (nth_error (s_tlock s) t); discriminate.
  - rewrite nth_error_app_none in H1. contradiction.
Qed.

Theorem step_frees_only_own_tables ntab s j t h : Inv ntab s ->
  nth_error (s_tlock s) t = Some (Some h) -> nth_error (s_tlock (step s j)) t <> Some (Some h) ->
  h = j /\ nth_error (s_tlock (step s j)) t = Some None.
Proof.
  intros HI H0 H1. destruct (enabled s j) eqn:He; [|rewrite step_disabled in H1 by exact He; contradiction].
  destruct (Inv_step_spec _ _ _ HI He) as (a&a'&r&tl&rl&cl&nw&Ha&HS&E). rewrite E in *. unfold post in *.
  cbn [s_tlock] in *.
  assert (Hunl : a_locks a = held a ->
    nth_error (unlock_all (a_locks a) (s_tlock s)) t <> Some (Some h) ->
    h = j /\ nth_error (unlock_all (a_locks a) (s_tlock s)) t = Some None).
  { intros Hh. unfold unlock_all. rewrite nth_error_unlock. destruct (memb t (a_locks a)) eqn:Hm; [|contradiction].
    intros _. rewrite H0. cbn [option_map]. split; [|reflexivity].
    apply memb_In in Hm. rewrite Hh in Hm.
    assert (Hj : nth_error (s_tlock s) t = Some (Some j)) by (apply (inv_tl _ _ HI); exists a; auto).
    congruence. }
  inversion HS; subst; try contradiction.
  - destruct (Nat.eq_dec t0 t) as [Heq|Hne]; [subst t0; congruence|rewrite nth_error_upd_other in H1 by exact Hne; contradiction].
  - apply Hunl; [unfold held; match goal with Hpc : a_pc a = _ |- _ => rewrite Hpc end; reflexivity|exact H1].
  - apply Hunl; [unfold held; match goal with Hpc : a_pc a = _ |- _ => rewrite Hpc end; reflexivity|exact H1].
  - exfalso. apply H1. apply nth_error_app_none. exact H0.
Qed.

(* ---------- termination measure: the exact number of remaining micro-steps of an actor ---------- *)
Definition after_lock (a : actor) : nat :=
  match a_kind a with KWriter _ _ true _ _ => 10 | _ => 4 end.

Definition ameasure (a : actor) : nat :=
  let L := length (a_locks a) in
  match a_pc a with
  | PStart => match a_kind a with
              | KWriter tabs _ _ _ _ => 2 + 2 * length (lock_order tabs) + after_lock a
              | KRegistrar => 6 end
  | PBeforeLock => 1 + 2 * L + after_lock a
  | PLocking k => 2 + 2 * (L - S k) + after_lock a
  | PLocked k => 1 + 2 * (L - S k) + after_lock a
  | PWLocked => after_lock a
  | PRootLoaded => after_lock a - 1
  | PCommitIdx => 8 | PRootLocked => 7 | PCommitLoaded => 6 | PRootStored => 5 | PRootUnlocked => 4 | PNotified => 3
  | PTabsUnlocked => 2 | PInitClosed => 1
  | PAbortBefore => 2 | PAbortUnlocked => 1
  | PRegBefore => 5 | PRegLocked => 4 | PRegLoaded => 3 | PRegStored => 2 | PRegUnlocked => 1
  | PDone => 0
  end.

Definition total (s : st) : nat := list_sum (map ameasure (s_actors s)).

Lemma ameasure_zero a : ameasure a = 0 <-> a_pc a = PDone.
Proof.
  unfold ameasure, after_lock. destruct (a_pc a); split; try discriminate; try reflexivity;
    destruct (a_kind a) as [? ? [|] ? ?|]; cbn; lia.
Qed.

Lemma Step_measure ntab s i a a' r tl rl cl nw :
  actor_ok ntab a -> Step s i a a' r tl rl cl nw -> S (ameasure a') = ameasure a.
Proof.
  intros [Hw Hp Hl Hi] HS. unfold locks_ok, idx_ok in *.
  inversion HS; subst; unfold ameasure, after_lock; step_simpl;
    match goal with Hk : a_kind a = _, Hpc : a_pc a = _ |- _ => rewrite Hk, Hpc in *; try rewrite Hk end;
    cbn [pc_ok negb] in *; try subst c; try reflexivity; try (destruct c; reflexivity).
  - destruct (a_locks a); cbn [length]; destruct c; lia.
  - destruct (Nat.ltb_spec (S k) (length (a_locks a))); destruct c; lia.
Qed.

Lemma list_sum_cons x l : list_sum (x :: l) = x + list_sum l.
Proof. reflexivity. Qed.

Lemma list_sum_upd (f : actor -> nat) : forall i l a a', nth_error l i = Some a ->
  list_sum (map f (upd i (fun _ => a') l)) + f a = list_sum (map f l) + f a'.
Proof.
  induction i as [|i IH]; intros [|x r] a a' H; cbn [nth_error] in H; try discriminate.
  - injection H as ->. cbn [upd map list_sum fold_right]. lia.
  - specialize (IH r a a' H). unfold list_sum in *. cbn [upd map fold_right]. lia.
Qed.

Theorem step_decreases ntab s i : Inv ntab s -> enabled s i = true -> S (total (step s i)) = total s.
Proof.
  intros HI He. destruct (Inv_step_spec _ _ _ HI He) as (a&a'&r&tl&rl&cl&nw&Ha&HS&E). rewrite E.
  unfold total, post. cbn [s_actors].
  pose proof (list_sum_upd ameasure i (s_actors s) a a' Ha) as Hs.
  pose proof (Step_measure ntab s i a a' r tl rl cl nw (inv_ok _ _ HI _ _ Ha) HS). lia.
Qed.

Lemma total_zero_iff s : total s = 0 <-> all_done s.
Proof.
  unfold total, all_done. induction (s_actors s) as [|x r IH]; cbn [map]; rewrite ?list_sum_cons.
  - split; [intros _ [|i] a H; discriminate|reflexivity].
  - split.
    + intros H. assert (Hx : ameasure x = 0) by lia. assert (Hr : list_sum (map ameasure r) = 0) by lia.
      intros [|i] a Hi; cbn [nth_error] in Hi.
      * injection Hi as <-. apply ameasure_zero. exact Hx.
      * apply (proj1 IH Hr i a Hi).
    + intros H. assert (Hx : ameasure x = 0) by (apply ameasure_zero; apply (H 0 x); reflexivity).
      assert (Hr : list_sum (map ameasure r) = 0) by (apply IH; intros i a Hi; apply (H (S i) a Hi)).
      lia.
Qed.

(* schedules that only pick enabled actors *)
Fixpoint all_enabled (s : st) (sched : list nat) : Prop :=
  match sched with
  | [] => True
  | i :: r => enabled s i = true /\ all_enabled (step s i) r
  end.

Theorem sched_measure ntab : forall sched s, Inv ntab s -> all_enabled s sched ->
  length sched + total (run s sched) = total s.
Proof.
  induction sched as [|i r IH]; intros s HI Hall; cbn [length run fold_left all_enabled] in *; [reflexivity|].
  destruct Hall as [He Hr]. pose proof (step_decreases _ _ _ HI He) as Hd.
  specialize (IH (step s i) (Inv_step _ _ i HI) Hr). unfold run in IH. lia.
Qed.

Lemma not_all_done_unfinished s : ~ all_done s -> total s <> 0.
Proof. intros H E. apply H. apply total_zero_iff. exact E. Qed.

Lemma total_pos_unfinished s : total s <> 0 -> unfinished s.
Proof.
  unfold total, unfinished. induction (s_actors s) as [|x r IH]; cbn [map]; rewrite ?list_sum_cons; [intros H; elim H; reflexivity|].
  intros H. destruct (ameasure x) eqn:Hx.
  - destruct IH as (i&a&Hi&Hd); [lia|]. exists (S i), a. auto.
  - exists 0, x. split; [reflexivity|]. intros E. apply ameasure_zero in E. congruence.
Qed.

(* from every reachable state the remaining work can be completed: there is a schedule of enabled steps,
   of length exactly `total s`, after which every actor is done *)
Theorem completion_exists ntab : forall n s, Inv ntab s -> total s = n ->
  exists sched, all_enabled s sched /\ length sched = n /\ all_done (run s sched).
Proof.
  induction n as [|n IH]; intros s HI Ht.
  - exists []. cbn. repeat split; auto. apply total_zero_iff. exact Ht.
  - destruct (no_deadlock_inv ntab s HI) as [i He]; [apply total_pos_unfinished; lia|].
    pose proof (step_decreases _ _ _ HI He) as Hd.
    destruct (IH (step s i) (Inv_step _ _ i HI)) as (sched&Hall&Hlen&Hdone); [lia|].
    exists (i :: sched). cbn [all_enabled length run fold_left]. repeat split; auto.
Qed.

Lemma insert_sorted_length x l : length (insert_sorted x l) <= S (length l).
Proof.
  induction l as [|y r IH]; cbn [insert_sorted length]; [lia|].
  destruct (Nat.eqb x y); [cbn [length]; lia|]. destruct (Nat.ltb x y); cbn [length]; lia.
Qed.

Lemma lock_order_length tabs : length (lock_order tabs) <= length tabs.
Proof.
  unfold lock_order.
  assert (H : forall acc, length (fold_left (fun acc x => insert_sorted x acc) tabs acc) <= length tabs + length acc).
  { induction tabs as [|x r IH]; intros acc; cbn [fold_left length]; [lia|].
    specialize (IH (insert_sorted x acc)). pose proof (insert_sorted_length x acc). lia. }
  specialize (H []). cbn [length] in H. lia.
Qed.

(* explicit bound on the total number of micro-steps *)
Definition step_bound (actors : list (N * kind)) : nat :=
  list_sum (map (fun ik => match snd ik with
                           | KWriter tabs _ _ _ _ => 12 + 2 * length tabs
                           | KRegistrar => 6 end) actors).

Lemma total_init_bound ntab actors : total (init_st ntab actors) <= step_bound actors.
Proof.
  unfold total, step_bound, init_st. cbn [s_actors]. rewrite map_map.
  induction actors as [|[id k] r IH]; cbn [map]; rewrite ?list_sum_cons; [lia|].
  assert (H : ameasure (mkA id k PStart [] [] [] [] []) <=
              match k with KWriter tabs _ _ _ _ => 12 + 2 * length tabs | KRegistrar => 6 end).
  { unfold ameasure, after_lock. cbn [a_pc a_kind fst snd]. destruct k as [tabs wr c rg dn|]; [|lia].
    pose proof (lock_order_length tabs). destruct c; lia. }
  cbn [fst snd] in *. lia.
Qed.

(* termination: along any schedule of enabled steps from the initial state, the number of steps plus the
   remaining work is constant; so such a schedule has at most step_bound steps, it can always be extended
   while some actor is unfinished, and it has finished everybody exactly when it has total-many steps *)
Theorem terminates ntab actors sched : wf_actors ntab actors ->
  let s0 := init_st ntab actors in
  all_enabled s0 sched ->
  length sched + total (run s0 sched) = total s0 /\
  length sched <= step_bound actors /\
  (all_done (run s0 sched) <-> length sched = total s0) /\
  (~ all_done (run s0 sched) -> exists i, enabled (run s0 sched) i = true).
Proof.
  intros Hwf s0 Hall.
  pose proof (sched_measure ntab sched s0 (Inv_init _ _ Hwf) Hall) as Hm.
  pose proof (total_init_bound ntab actors) as Hb. fold s0 in Hb.
  repeat split.
  - exact Hm.
  - lia.
  - intros Hd. apply total_zero_iff in Hd. lia.
  - intros Hl. apply total_zero_iff. lia.
  - intros Hnd. apply (no_deadlock_inv ntab); [apply Inv_run; apply Inv_init; exact Hwf|].
    apply total_pos_unfinished. apply not_all_done_unfinished. exact Hnd.
Qed.
