(* DB/Proofs.v — first facts about the commit-protocol model. *)
From Coq Require Import Arith PeanoNat.
From SV Require Import DB.Model.
Open Scope N_scope.

(* a disabled step is the identity; readers have no steps at all (a snapshot is `s_root s`) *)
Lemma step_disabled s i : enabled s i = false -> step s i = s.
Proof. unfold step. intros ->. reflexivity. Qed.

(* lock order: duplicate-free and strictly increasing, whatever order/duplicates WriteTxn was given *)
Fixpoint strictly_inc (l : list nat) : Prop :=
  match l with
  | [] => True
  | x :: r => match r with [] => True | y :: _ => (x < y)%nat end /\ strictly_inc r
  end.

Lemma insert_sorted_inc x l : strictly_inc l -> strictly_inc (insert_sorted x l).
Proof.
  induction l as [|y r IH]; simpl; intros H; [auto|].
  destruct (Nat.eqb_spec x y); [exact H|].
  destruct (Nat.ltb_spec x y); simpl.
  - split; [lia|exact H].
  - destruct H as [Hy Hr]. specialize (IH Hr). split; [|exact IH].
    destruct r as [|z r']; simpl in *.
    + lia.
    + destruct (Nat.eqb_spec x z); [exact Hy|]. destruct (Nat.ltb_spec x z); simpl; lia.
Qed.

Lemma lock_order_inc_gen tabs : forall acc, strictly_inc acc -> strictly_inc (fold_left (fun acc x => insert_sorted x acc) tabs acc).
Proof. induction tabs as [|x r IH]; simpl; intros acc H; auto. apply IH. now apply insert_sorted_inc. Qed.

Theorem lock_order_strictly_increasing tabs : strictly_inc (lock_order tabs).
Proof. apply lock_order_inc_gen. exact I. Qed.

Lemma insert_sorted_In x y l : In y (insert_sorted x l) <-> y = x \/ In y l.
Proof.
  induction l as [|z r IH]; simpl; [intuition|].
  destruct (Nat.eqb_spec x z); [subst; simpl; intuition|].
  destruct (Nat.ltb_spec x z); simpl; [intuition|]. rewrite IH. intuition.
Qed.

Theorem lock_order_same_set tabs t : In t (lock_order tabs) <-> In t tabs.
Proof.
  unfold lock_order.
  assert (H : forall acc, In t (fold_left (fun acc x => insert_sorted x acc) tabs acc) <-> In t tabs \/ In t acc).
  { induction tabs as [|x r IH]; simpl; intros acc; [intuition|]. rewrite IH, insert_sorted_In. intuition. }
  rewrite H. simpl. intuition.
Qed.
