(* DB/NoRootLock.v — what the root lock db.mu is for: a refutation.

   In DB/Model.v the root read-modify-write of Commit (load at pc PRootLocked, store at pc PCommitLoaded) and of
   registerTable (load at PRegLocked, store at PRegLoaded) happens inside ONE shared root lock `s_rlock`; DB/Invariants.v
   proves that therefore the root loaded is still the current root at the store (Inv.inv_cur, loaded_root_is_current),
   and DB/Visibility.v that no committed write is ever lost.

   Here: the variant system in which the root lock excludes nobody (as if db.mu were a field of the DB *handle*, a
   per-handle mutex: every handle finds its own mutex free). `step_norlock` is `step` on the state whose root lock has
   been forgotten; every other part of the protocol (table locks, sorted lock order, private entries, merge_root on the
   loaded root) is unchanged. Two writers on DISJOINT tables then lose a committed write: both load the root, the first
   stores, the second merges into its stale root and stores — the first writer's id is gone from the committed root
   although it has committed. No proofs by axiom: everything is vm_compute on a concrete schedule. *)
From Coq Require Import Arith PeanoNat.
From SV Require Import DB.Model DB.Proofs DB.Invariants DB.Visibility.
Open Scope nat_scope.

(* forget who holds the root lock *)
Definition free_rlock (s : st) : st :=
  mkS (s_root s) (s_tlock s) None (s_closed s) (s_nextw s) (s_actors s).

(* one micro-step when the root lock does not exclude the other actors *)
Definition step_norlock (s : st) (i : nat) : st := step (free_rlock s) i.
Definition enabled_norlock (s : st) (i : nat) : bool := enabled (free_rlock s) i.
Definition run_norlock (s : st) (sched : list nat) : st := fold_left step_norlock sched s.

(* the variant differs from the model ONLY in that: whenever the root lock is free the two systems take the same
   step, and an actor that is not about to take the root lock is enabled in the one iff it is in the other *)
Lemma free_rlock_id s : s_rlock s = None -> free_rlock s = s.
Proof. intros H. unfold free_rlock. rewrite <- H. symmetry. apply st_eta. Qed.

Theorem step_norlock_agrees s i : s_rlock s = None -> step_norlock s i = step s i.
Proof. intros H. unfold step_norlock. rewrite (free_rlock_id s H). reflexivity. Qed.

Theorem enabled_norlock_spec s i a : nth_error (s_actors s) i = Some a ->
  enabled_norlock s i =
  match a_pc a with PCommitIdx | PRegBefore => true | _ => enabled s i end.
Proof.
  intros Ha. unfold enabled_norlock, enabled, free_rlock. cbn [s_actors s_tlock s_rlock]. rewrite Ha.
  destruct (a_pc a); reflexivity.
Qed.

(* ---------- the witness ---------- *)
(* two tables; writer 1 (index 0) locks and writes table 0, writer 2 (index 1) locks and writes table 1 *)
Definition lw_acts : list (N * kind) :=
  [(1%N, KWriter [0] [0] true [] []); (2%N, KWriter [1] [1] true [] [])].

(* 8 steps take a one-table writer from PStart to PCommitLoaded (root loaded inside "its" root lock) *)
Definition lw_both_loaded : list nat := repeat 0 8 ++ repeat 1 8.
(* writer 1 stores, then writer 2 stores; then both run to completion (5 more steps each) *)
Definition lw_sched : list nat := lw_both_loaded ++ [0; 1] ++ repeat 0 5 ++ repeat 1 5.

Lemma lw_wf : wf_system 2 lw_acts.
Proof.
  split.
  - intros ik [<-|[<-|[]]]; cbn; repeat split; try (intros x Hx; cbn in Hx; intuition (subst; cbn; auto)).
  - cbn. repeat constructor; cbn; intuition discriminate.
Qed.

Lemma lw_disjoint : forall t, In t [0] -> ~ In t [1].
Proof. intros t [<-|[]] [E|[]]. discriminate. Qed.

(* without the exclusion both writers are between load and store at the same time, and after the first store the
   root the second one loaded is no longer the current one: loaded_root_is_current fails *)
Theorem loaded_root_stale_without_root_lock :
  exists sched i a, let s := run_norlock (init_st 2 lw_acts) sched in
    nth_error (s_actors s) i = Some a /\ a_pc a = PCommitLoaded /\ a_cur a <> s_root s.
Proof.
  exists (lw_both_loaded ++ [0]), 1. eexists. cbv zeta.
  split; [vm_compute; reflexivity|]. split; [reflexivity|]. vm_compute. discriminate.
Qed.

(* LOST WRITE: after lw_sched both transactions have committed and finished, but the committed entry of table 0
   does not contain the id of writer 1 *)
Theorem lost_write_without_root_lock :
  exists sched, let s := run_norlock (init_st 2 lw_acts) sched in
    (forall i a, nth_error (s_actors s) i = Some a -> a_pc a = PDone /\ committed a = true) /\
    (exists a v, nth_error (s_actors s) 0 = Some a /\ In 0 (writes_of a) /\
                 nth_error (s_root s) 0 = Some v /\ ~ In (a_id a) (tv_ids v)) /\
    map tv_ids (s_root s) = [[]; [2%N]].
Proof.
  exists lw_sched. cbv zeta. split; [|split].
  - intros [|[|i]] a H; vm_compute in H; [| |destruct i; discriminate]; injection H as <-; split; reflexivity.
  - eexists. eexists. split; [vm_compute; reflexivity|]. split; [cbn; auto|]. split; [vm_compute; reflexivity|].
    cbn. tauto.
  - vm_compute. reflexivity.
Qed.

(* the same system WITH the root lock: writer 2's root-lock step is disabled while writer 1 holds db.mu (the step is
   the identity), so along the same schedule it falls three steps behind; three more steps finish it and both ids are
   there *)
Example with_root_lock_nothing_lost :
  let s1 := run (init_st 2 lw_acts) lw_both_loaded in
  let s := run (init_st 2 lw_acts) (lw_sched ++ [1; 1; 1]) in
  enabled s1 1 = false /\ s_rlock s1 = Some 0 /\
  map a_pc (s_actors s1) = [PCommitLoaded; PCommitIdx] /\
  map a_pc (s_actors s) = [PDone; PDone] /\ map tv_ids (s_root s) = [[1%N]; [2%N]].
Proof. vm_compute. repeat split; reflexivity. Qed.

(* registration is lost the same way: a registrar and a writer both load, the registrar stores the longer root, the
   writer stores its merge into the stale (shorter) root: the new table has disappeared from the committed root *)
Definition lr_acts : list (N * kind) := [(1%N, KWriter [0] [0] true [] []); (2%N, KRegistrar)].

Theorem lost_registration_without_root_lock :
  exists sched, let s := run_norlock (init_st 1 lr_acts) sched in
    map a_pc (s_actors s) = [PRootStored; PRegStored] /\ length (s_root s) = 1 /\ length (s_tlock s) = 2.
Proof. exists (repeat 0 8 ++ repeat 1 3 ++ [1; 0]). vm_compute. repeat split; reflexivity. Qed.

Example with_root_lock_registration_kept :
  let s := run (init_st 1 lr_acts) (repeat 0 8 ++ repeat 1 3 ++ [1; 0] ++ [0] ++ repeat 1 3) in
  map a_pc (s_actors s) = [PRootUnlocked; PRegStored] /\ length (s_root s) = 2.
Proof. vm_compute. repeat split; reflexivity. Qed.

(* ---------- non-vacuity of loaded_root_is_current ---------- *)
(* a writer at PCommitLoaded while a registrar has finished meanwhile... cannot happen (the registrar needs db.mu);
   what can: the registrar registered a table AFTER the writer cloned the root (PWLocked step) and BEFORE its
   Commit took db.mu: then a_cur (2 entries) differs from the clone base (1 entry) and equals the current root *)
Example loaded_root_nonvacuous :
  let s := run (init_st 1 lr_acts) (repeat 0 6 ++ repeat 1 5 ++ [0; 0]) in
  exists a, nth_error (s_actors s) 0 = Some a /\ a_pc a = PCommitLoaded /\
    length (a_entries a) = 1 /\ length (a_cur a) = 2 /\ a_cur a = s_root s /\ s_rlock s = Some 0.
Proof. eexists. vm_compute. repeat split; reflexivity. Qed.

Example loaded_root_nonvacuous_reg :
  let s := run (init_st 1 lr_acts) (repeat 1 3) in
  exists a, nth_error (s_actors s) 1 = Some a /\ a_pc a = PRegLoaded /\ a_cur a = s_root s /\ s_rlock s = Some 1.
Proof. eexists. vm_compute. repeat split; reflexivity. Qed.

Print Assumptions step_norlock_agrees.
Print Assumptions enabled_norlock_spec.
Print Assumptions loaded_root_stale_without_root_lock.
Print Assumptions lost_write_without_root_lock.
Print Assumptions lost_registration_without_root_lock.
