(* DB/Invariants.v — the global lock invariant of the commit-protocol model (DB/Model.v), proved for
   init_st and preserved by every micro-step, hence true of `run (init_st ntab actors) sched` for every
   actor list and every schedule:
     * a relational presentation of `step` (Step / step_spec),
     * per-actor well-formedness (kind/pc consistency, lock list, lock index in range),
     * s_tlock[t] = Some i  <->  actor i holds t (t in `held a_i`),
     * s_rlock   = Some i  <->  actor i is at a root-lock-holding pc,
     * mutual exclusion. *)
From Coq Require Import Arith PeanoNat.
From SV Require Import DB.Model DB.Proofs.
Open Scope nat_scope.

(* ---------- list lemmas ---------- *)
Lemma nth_error_upd {A} (f : A -> A) : forall n (l : list A) m,
  nth_error (upd n f l) m = if Nat.eqb n m then option_map f (nth_error l m) else nth_error l m.
Proof.
  induction n as [|n IH]; intros [|x r] [|m]; cbn [upd nth_error Nat.eqb option_map]; auto.
  destruct (Nat.eqb n m); reflexivity.
Qed.

Lemma nth_error_upd_same {A} (f : A -> A) n (l : list A) :
  nth_error (upd n f l) n = option_map f (nth_error l n).
Proof. rewrite nth_error_upd, Nat.eqb_refl. reflexivity. Qed.

Lemma nth_error_upd_other {A} (f : A -> A) n m (l : list A) : n <> m ->
  nth_error (upd n f l) m = nth_error l m.
Proof. intros H. rewrite nth_error_upd. destruct (Nat.eqb_spec n m); [contradiction|reflexivity]. Qed.

Lemma length_upd {A} (f : A -> A) : forall n (l : list A), length (upd n f l) = length l.
Proof. induction n as [|n IH]; intros [|x r]; cbn [upd length]; auto. Qed.

Lemma nth_error_unlock : forall (ts : list nat) (l : list (option nat)) t,
  nth_error (fold_left (fun l t => upd t (fun _ => None) l) ts l) t =
  if memb t ts then option_map (fun _ => None) (nth_error l t) else nth_error l t.
Proof.
  induction ts as [|x r IH]; intros l t; cbn [fold_left memb existsb]; [reflexivity|].
  fold (memb t r). rewrite IH, nth_error_upd. rewrite (Nat.eqb_sym t x).
  destruct (Nat.eqb x t); cbn [orb]; [|reflexivity].
  destruct (memb t r); [|reflexivity]. destruct (nth_error l t); reflexivity.
Qed.

Lemma length_unlock : forall (ts : list nat) (l : list (option nat)),
  length (fold_left (fun l t => upd t (fun _ => None) l) ts l) = length l.
Proof. induction ts as [|x r IH]; intros l; cbn [fold_left]; [reflexivity|]. rewrite IH. apply length_upd. Qed.

Lemma memb_In t l : memb t l = true <-> In t l.
Proof.
  unfold memb. rewrite existsb_exists. split.
  - intros [x [Hx He]]. apply Nat.eqb_eq in He. now subst.
  - intros H. exists t. split; [exact H|apply Nat.eqb_refl].
Qed.

Lemma memb_false t l : memb t l = false <-> ~ In t l.
Proof. rewrite <- memb_In. destruct (memb t l); split; congruence. Qed.

Lemma firstn_S_nth {A} : forall k (l : list A) x, nth_error l k = Some x -> firstn (S k) l = firstn k l ++ [x].
Proof.
  induction k as [|k IH]; intros [|y r] x H; cbn [nth_error] in H; try discriminate.
  - injection H as ->. reflexivity.
  - cbn [firstn app]. f_equal. apply (IH r x H).
Qed.

Lemma In_firstn {A} : forall k (l : list A) x, In x (firstn k l) -> In x l.
Proof.
  induction k as [|k IH]; intros [|y r] x H; cbn [firstn] in H; try contradiction.
  destruct H as [->|H]; [left; reflexivity|right; apply (IH r x H)].
Qed.

Lemma strictly_inc_tail x r : strictly_inc (x :: r) -> strictly_inc r.
Proof. cbn [strictly_inc]. tauto. Qed.

Lemma strictly_inc_head_lt x r y : strictly_inc (x :: r) -> In y r -> x < y.
Proof.
  revert x. induction r as [|z r IH]; intros x H Hy; [destruct Hy|].
  destruct H as [Hxz Hr]. destruct Hy as [->|Hy]; [exact Hxz|].
  specialize (IH z Hr Hy). lia.
Qed.

(* in a strictly increasing list everything before position k is below the element at position k *)
Lemma strictly_inc_firstn_lt : forall k l t u, strictly_inc l ->
  In t (firstn k l) -> nth_error l k = Some u -> t < u.
Proof.
  induction k as [|k IH]; intros [|x r] t u Hs Ht Hu; cbn [firstn nth_error] in *; try contradiction; try discriminate.
  destruct Ht as [->|Ht].
  - apply (strictly_inc_head_lt _ r); [exact Hs|]. eapply nth_error_In; eauto.
  - apply (IH r); auto. eapply strictly_inc_tail; eauto.
Qed.

(* ---------- which locks an actor holds (function of its pc) ---------- *)
Definition held (a : actor) : list nat :=
  match a_pc a with
  | PLocking k => firstn k (a_locks a)
  | PLocked k => firstn (S k) (a_locks a)
  | PWLocked | PRootLoaded | PCommitIdx | PRootLocked | PCommitLoaded | PRootStored | PRootUnlocked | PNotified
  | PAbortBefore => a_locks a
  | _ => []
  end.

Definition rholds (a : actor) : bool :=
  match a_pc a with
  | PRootLocked | PCommitLoaded | PRootStored | PRegLocked | PRegLoaded | PRegStored => true
  | _ => false
  end.

(* the pcs between the root load inside the root lock and the root store *)
Definition loaded (a : actor) : bool :=
  match a_pc a with PCommitLoaded | PRegLoaded => true | _ => false end.

(* the pcs at which an actor tries to acquire a lock *)
Definition acquiring (a : actor) : bool :=
  match a_pc a with PLocking _ | PCommitIdx | PRegBefore => true | _ => false end.

(* ---------- per-actor well-formedness ---------- *)
Definition wf_kind (ntab : nat) (k : kind) : Prop :=
  match k with
  | KRegistrar => True
  | KWriter tabs writes _ reg dn =>
    (forall t, In t tabs -> t < ntab) /\ incl writes tabs /\
    (forall tn, In tn reg -> In (fst tn) tabs) /\ (forall tn, In tn dn -> In (fst tn) tabs)
  end.

Definition pc_ok (k : kind) (p : pc) : bool :=
  match k with
  | KWriter _ _ c _ _ =>
    match p with
    | PStart | PBeforeLock | PLocking _ | PLocked _ | PWLocked | PRootLoaded | PDone => true
    | PCommitIdx | PRootLocked | PCommitLoaded | PRootStored | PRootUnlocked | PNotified | PTabsUnlocked | PInitClosed => c
    | PAbortBefore | PAbortUnlocked => negb c
    | _ => false
    end
  | KRegistrar =>
    match p with PStart | PRegBefore | PRegLocked | PRegLoaded | PRegStored | PRegUnlocked | PDone => true | _ => false end
  end.

Definition locks_ok (a : actor) : Prop :=
  match a_kind a with
  | KWriter tabs _ _ _ _ => a_locks a = match a_pc a with PStart => [] | _ => lock_order tabs end
  | KRegistrar => a_locks a = []
  end.

Definition idx_ok (a : actor) : Prop :=
  match a_pc a with PLocking k | PLocked k => k < length (a_locks a) | _ => True end.

Record actor_ok (ntab : nat) (a : actor) : Prop := mkOk {
  ok_wf : wf_kind ntab (a_kind a);
  ok_pc : pc_ok (a_kind a) (a_pc a) = true;
  ok_locks : locks_ok a;
  ok_idx : idx_ok a
}.

Lemma actor_ok_inc ntab a : actor_ok ntab a -> strictly_inc (a_locks a).
Proof.
  intros [_ _ Hl _]. unfold locks_ok in Hl. destruct (a_kind a); rewrite Hl; [|exact I].
  destruct (a_pc a); try apply lock_order_strictly_increasing. exact I.
Qed.

Lemma actor_ok_tabs ntab a t : actor_ok ntab a -> In t (a_locks a) ->
  exists tabs wr c rg dn, a_kind a = KWriter tabs wr c rg dn /\ In t tabs /\ t < ntab.
Proof.
  intros [Hw _ Hl _] Ht. unfold locks_ok in Hl. destruct (a_kind a) as [tabs wr c rg dn|]; [|rewrite Hl in Ht; destruct Ht].
  exists tabs, wr, c, rg, dn. split; [reflexivity|].
  assert (Hin : In t tabs).
  { rewrite Hl in Ht. destruct (a_pc a); try (apply lock_order_same_set; exact Ht). destruct Ht. }
  split; [exact Hin|]. destruct Hw as [Hw _]. auto.
Qed.

Lemma actor_ok_lt ntab a t : actor_ok ntab a -> In t (a_locks a) -> t < ntab.
Proof. intros H Ht. destruct (actor_ok_tabs _ _ _ H Ht) as (?&?&?&?&?&_&_&Hlt). exact Hlt. Qed.

Lemma held_sub a t : In t (held a) -> In t (a_locks a).
Proof.
  unfold held. destruct (a_pc a); try tauto; intros H; try contradiction; eapply In_firstn; eauto.
Qed.

(* ---------- relational presentation of one enabled micro-step ---------- *)
Definition unlock_all (locks : list nat) (tl : list (option nat)) : list (option nat) :=
  fold_left (fun l t => upd t (fun _ => None) l) locks tl.

(* Step s i a a' root tlock rlock closed nextw: actor i (currently a) becomes a', and the shared fields
   become root ... nextw *)
Inductive Step (s : st) (i : nat) (a : actor) :
  actor -> list tver -> list (option nat) -> option nat -> list N -> N -> Prop :=
| S_wstart tabs wr c rg dn : a_kind a = KWriter tabs wr c rg dn -> a_pc a = PStart ->
    Step s i a (mkA (a_id a) (a_kind a) PBeforeLock (lock_order tabs) [] [] [] [])
         (s_root s) (s_tlock s) (s_rlock s) (s_closed s) (s_nextw s)
| S_wbefore tabs wr c rg dn : a_kind a = KWriter tabs wr c rg dn -> a_pc a = PBeforeLock ->
    Step s i a (set_pc a (match a_locks a with [] => PWLocked | _ => PLocking 0 end))
         (s_root s) (s_tlock s) (s_rlock s) (s_closed s) (s_nextw s)
| S_wlocking tabs wr c rg dn k t : a_kind a = KWriter tabs wr c rg dn -> a_pc a = PLocking k ->
    nth_error (a_locks a) k = Some t -> nth_error (s_tlock s) t = Some None ->
    Step s i a (set_pc a (PLocked k))
         (s_root s) (upd t (fun _ => Some i) (s_tlock s)) (s_rlock s) (s_closed s) (s_nextw s)
| S_wlocked tabs wr c rg dn k : a_kind a = KWriter tabs wr c rg dn -> a_pc a = PLocked k ->
    Step s i a (set_pc a (if Nat.ltb (S k) (length (a_locks a)) then PLocking (S k) else PWLocked))
         (s_root s) (s_tlock s) (s_rlock s) (s_closed s) (s_nextw s)
| S_wload tabs wr c rg dn : a_kind a = KWriter tabs wr c rg dn -> a_pc a = PWLocked ->
    Step s i a (mkA (a_id a) (a_kind a) PRootLoaded (a_locks a) (s_root s) [] [] (a_cur a))
         (s_root s) (s_tlock s) (s_rlock s) (s_closed s) (s_nextw s)
| S_wwrite tabs wr rg dn es nt nw : a_kind a = KWriter tabs wr true rg dn -> a_pc a = PRootLoaded ->
    apply_writes (a_id a) wr rg dn (s_nextw s) (a_entries a) = (es, nt, nw) ->
    Step s i a (mkA (a_id a) (a_kind a) PCommitIdx (a_locks a) es nt [] (a_cur a))
         (s_root s) (s_tlock s) (s_rlock s) (s_closed s) nw
| S_wwrite_abort tabs wr rg dn es nt nw : a_kind a = KWriter tabs wr false rg dn -> a_pc a = PRootLoaded ->
    apply_writes (a_id a) wr rg dn (s_nextw s) (a_entries a) = (es, nt, nw) ->
    Step s i a (mkA (a_id a) (a_kind a) PAbortBefore (a_locks a) es [] [] (a_cur a))
         (s_root s) (s_tlock s) (s_rlock s) (s_closed s) nw
| S_wrlock tabs wr c rg dn : a_kind a = KWriter tabs wr c rg dn -> a_pc a = PCommitIdx -> s_rlock s = None ->
    Step s i a (set_pc a PRootLocked)
         (s_root s) (s_tlock s) (Some i) (s_closed s) (s_nextw s)
| S_wcload tabs wr c rg dn : a_kind a = KWriter tabs wr c rg dn -> a_pc a = PRootLocked ->
    Step s i a (set_cur a PCommitLoaded (s_root s))
         (s_root s) (s_tlock s) (s_rlock s) (s_closed s) (s_nextw s)
(* the root store merges into the root LOADED at the previous step (a_cur); the Step case is stated for the
   states in which that is still the current root (all reachable ones: Inv.inv_cur below) *)
| S_wstore tabs wr c rg dn root closing : a_kind a = KWriter tabs wr c rg dn -> a_pc a = PCommitLoaded ->
    merge_root (a_locks a) (a_entries a) (s_root s) 0 = (root, closing) -> a_cur a = s_root s ->
    Step s i a (mkA (a_id a) (a_kind a) PRootStored (a_locks a) root (a_notify a) closing (a_cur a))
         root (s_tlock s) (s_rlock s) (s_closed s) (s_nextw s)
| S_wrunlock tabs wr c rg dn : a_kind a = KWriter tabs wr c rg dn -> a_pc a = PRootStored ->
    Step s i a (set_pc a PRootUnlocked)
         (s_root s) (s_tlock s) None (s_closed s) (s_nextw s)
| S_wnotify tabs wr c rg dn : a_kind a = KWriter tabs wr c rg dn -> a_pc a = PRootUnlocked ->
    Step s i a (set_pc a PNotified)
         (s_root s) (s_tlock s) (s_rlock s) (a_notify a ++ s_closed s) (s_nextw s)
| S_wtunlock tabs wr c rg dn : a_kind a = KWriter tabs wr c rg dn -> a_pc a = PNotified ->
    Step s i a (set_pc a PTabsUnlocked)
         (s_root s) (unlock_all (a_locks a) (s_tlock s)) (s_rlock s) (s_closed s) (s_nextw s)
| S_winitclose tabs wr c rg dn : a_kind a = KWriter tabs wr c rg dn -> a_pc a = PTabsUnlocked ->
    Step s i a (set_pc a PInitClosed)
         (s_root s) (s_tlock s) (s_rlock s) (a_initclose a ++ s_closed s) (s_nextw s)
| S_wdone tabs wr c rg dn : a_kind a = KWriter tabs wr c rg dn -> a_pc a = PInitClosed ->
    Step s i a (set_pc a PDone)
         (s_root s) (s_tlock s) (s_rlock s) (s_closed s) (s_nextw s)
| S_wabort tabs wr c rg dn : a_kind a = KWriter tabs wr c rg dn -> a_pc a = PAbortBefore ->
    Step s i a (set_pc a PAbortUnlocked)
         (s_root s) (unlock_all (a_locks a) (s_tlock s)) (s_rlock s) (s_closed s) (s_nextw s)
| S_wabortdone tabs wr c rg dn : a_kind a = KWriter tabs wr c rg dn -> a_pc a = PAbortUnlocked ->
    Step s i a (set_pc a PDone)
         (s_root s) (s_tlock s) (s_rlock s) (s_closed s) (s_nextw s)
| S_rstart : a_kind a = KRegistrar -> a_pc a = PStart ->
    Step s i a (set_pc a PRegBefore)
         (s_root s) (s_tlock s) (s_rlock s) (s_closed s) (s_nextw s)
| S_rrlock : a_kind a = KRegistrar -> a_pc a = PRegBefore -> s_rlock s = None ->
    Step s i a (set_pc a PRegLocked)
         (s_root s) (s_tlock s) (Some i) (s_closed s) (s_nextw s)
| S_rcload : a_kind a = KRegistrar -> a_pc a = PRegLocked ->
    Step s i a (set_cur a PRegLoaded (s_root s))
         (s_root s) (s_tlock s) (s_rlock s) (s_closed s) (s_nextw s)
| S_rstore : a_kind a = KRegistrar -> a_pc a = PRegLoaded -> a_cur a = s_root s ->
    Step s i a (set_pc a PRegStored)
         (s_root s ++ [mkV [] (s_nextw s) None]) (s_tlock s ++ [None]) (s_rlock s) (s_closed s) (s_nextw s + 1)%N
| S_rrunlock : a_kind a = KRegistrar -> a_pc a = PRegStored ->
    Step s i a (set_pc a PRegUnlocked)
         (s_root s) (s_tlock s) None (s_closed s) (s_nextw s)
| S_rdone : a_kind a = KRegistrar -> a_pc a = PRegUnlocked ->
    Step s i a (set_pc a PDone)
         (s_root s) (s_tlock s) (s_rlock s) (s_closed s) (s_nextw s).

Definition post (s : st) (i : nat) (a' : actor) root tl rl cl nw : st :=
  mkS root tl rl cl nw (upd i (fun _ => a') (s_actors s)).

Lemma st_eta s : s = mkS (s_root s) (s_tlock s) (s_rlock s) (s_closed s) (s_nextw s) (s_actors s).
Proof. destruct s; reflexivity. Qed.

Lemma step_spec s i a : nth_error (s_actors s) i = Some a -> enabled s i = true ->
  pc_ok (a_kind a) (a_pc a) = true -> (loaded a = true -> a_cur a = s_root s) ->
  exists a' root tl rl cl nw, Step s i a a' root tl rl cl nw /\ step s i = post s i a' root tl rl cl nw.
Proof.
  intros Ha He Hok Hcur. unfold step. rewrite He, Ha. cbn [negb].
  unfold enabled in He. rewrite Ha in He. clear Ha.
  destruct a as [id kd p locks ents nts ics cur]. unfold loaded in Hcur.
  cbn [a_kind a_pc a_locks a_id a_entries a_notify a_initclose a_cur] in *.
  destruct kd as [tabs wr c rg dn|]; destruct p; cbn [pc_ok] in Hok; try discriminate;
    unfold post, set_actor; cbn [s_root s_tlock s_rlock s_closed s_nextw s_actors].
  - do 6 eexists; split; [eapply S_wstart; first [reflexivity|eassumption]|reflexivity].
  - do 6 eexists; split; [eapply S_wbefore; first [reflexivity|eassumption]|reflexivity].
  - destruct (nth_error locks i0) as [t|] eqn:Hn; [|discriminate].
    destruct (nth_error (s_tlock s) t) as [[h|]|] eqn:Ht; try discriminate.
    do 6 eexists; split; [eapply S_wlocking; first [reflexivity|eassumption]|reflexivity].
  - do 6 eexists; split; [eapply S_wlocked; first [reflexivity|eassumption]|reflexivity].
  - do 6 eexists; split; [eapply S_wload; first [reflexivity|eassumption]|reflexivity].
  - destruct c.
    + destruct (apply_writes id wr rg dn (s_nextw s) ents) as [[es nt] nw] eqn:Haw.
      do 6 eexists; split; [eapply S_wwrite; first [reflexivity|eassumption]|reflexivity].
    + destruct (apply_writes id wr rg dn (s_nextw s) ents) as [[es nt] nw] eqn:Haw.
      do 6 eexists; split; [eapply S_wwrite_abort; first [reflexivity|eassumption]|reflexivity].
  - destruct (s_rlock s) eqn:Hr; [discriminate|].
    do 6 eexists; split; [eapply S_wrlock; first [reflexivity|eassumption]|reflexivity].
  - do 6 eexists; split; [eapply S_wcload; first [reflexivity|eassumption]|reflexivity].
  - specialize (Hcur eq_refl). subst cur.
    destruct (merge_root locks ents (s_root s) 0) as [root closing] eqn:Hm.
    do 6 eexists; split; [eapply S_wstore; first [reflexivity|eassumption]|reflexivity].
  - do 6 eexists; split; [eapply S_wrunlock; first [reflexivity|eassumption]|reflexivity].
  - do 6 eexists; split; [eapply S_wnotify; first [reflexivity|eassumption]|reflexivity].
  - do 6 eexists; split; [eapply S_wtunlock; first [reflexivity|eassumption]|reflexivity].
  - do 6 eexists; split; [eapply S_winitclose; first [reflexivity|eassumption]|reflexivity].
  - do 6 eexists; split; [eapply S_wdone; first [reflexivity|eassumption]|reflexivity].
  - do 6 eexists; split; [eapply S_wabort; first [reflexivity|eassumption]|reflexivity].
  - do 6 eexists; split; [eapply S_wabortdone; first [reflexivity|eassumption]|reflexivity].
  - do 6 eexists; split; [eapply S_rstart; first [reflexivity|eassumption]|reflexivity].
  - destruct (s_rlock s) eqn:Hr; [discriminate|].
    do 6 eexists; split; [eapply S_rrlock; first [reflexivity|eassumption]|reflexivity].
  - do 6 eexists; split; [eapply S_rcload; first [reflexivity|eassumption]|reflexivity].
  - specialize (Hcur eq_refl). subst cur.
    do 6 eexists; split; [eapply S_rstore; first [reflexivity|eassumption]|reflexivity].
  - do 6 eexists; split; [eapply S_rrunlock; first [reflexivity|eassumption]|reflexivity].
  - do 6 eexists; split; [eapply S_rdone; first [reflexivity|eassumption]|reflexivity].
Qed.

(* ---------- the global invariant ---------- *)
Definition holds (acts : list actor) (j t : nat) : Prop :=
  exists b, nth_error acts j = Some b /\ In t (held b).
Definition rholder (acts : list actor) (j : nat) : Prop :=
  exists b, nth_error acts j = Some b /\ rholds b = true.

Record Inv (ntab : nat) (s : st) : Prop := mkInv {
  inv_len : length (s_tlock s) = length (s_root s) /\ ntab <= length (s_tlock s);
  inv_ok : forall j b, nth_error (s_actors s) j = Some b -> actor_ok ntab b;
  inv_tl : forall t j, nth_error (s_tlock s) t = Some (Some j) <-> holds (s_actors s) j t;
  inv_rl : forall j, s_rlock s = Some j <-> rholder (s_actors s) j;
  (* the root loaded inside the root lock is still the current root at the store *)
  inv_cur : forall j b, nth_error (s_actors s) j = Some b -> loaded b = true -> a_cur b = s_root s
}.

Lemma holds_upd acts i a a' j t : nth_error acts i = Some a ->
  holds (upd i (fun _ => a') acts) j t <-> (if Nat.eqb j i then In t (held a') else holds acts j t).
Proof.
  intros Ha. unfold holds. rewrite nth_error_upd. rewrite (Nat.eqb_sym i j).
  destruct (Nat.eqb_spec j i) as [->|Hne]; [|reflexivity].
  rewrite Ha. cbn [option_map]. split.
  - intros [b [Hb Hin]]. injection Hb as <-. exact Hin.
  - intros Hin. exists a'. auto.
Qed.

Lemma rholder_upd acts i a a' j : nth_error acts i = Some a ->
  rholder (upd i (fun _ => a') acts) j <-> (if Nat.eqb j i then rholds a' = true else rholder acts j).
Proof.
  intros Ha. unfold rholder. rewrite nth_error_upd. rewrite (Nat.eqb_sym i j).
  destruct (Nat.eqb_spec j i) as [->|Hne]; [|reflexivity].
  rewrite Ha. cbn [option_map]. split.
  - intros [b [Hb Hin]]. injection Hb as <-. exact Hin.
  - intros Hin. exists a'. auto.
Qed.

Lemma merge_root_length : forall cur locks es i, length (fst (merge_root locks es cur i)) = length cur.
Proof.
  induction cur as [|c cr IH]; intros locks es i; cbn [merge_root]; [reflexivity|].
  specialize (IH locks (tl es) (S i)).
  destruct (merge_root locks (tl es) cr (S i)) as [rest closing]. cbn [fst] in IH.
  destruct es as [|e es']; [cbn [fst length]; congruence|].
  destruct (memb i locks); [|cbn [fst length]; congruence].
  destruct (tv_init e) as [[w [|n p]]|]; cbn [fst length]; congruence.
Qed.

Lemma nth_error_app_none (l : list (option nat)) t j :
  nth_error (l ++ [None]) t = Some (Some j) <-> nth_error l t = Some (Some j).
Proof.
  destruct (Nat.lt_ge_cases t (length l)) as [Hlt|Hge].
  - rewrite nth_error_app1 by exact Hlt. reflexivity.
  - rewrite nth_error_app2 by exact Hge.
    assert (Hn : nth_error l t = None) by (apply nth_error_None; exact Hge). rewrite Hn.
    destruct (t - length l) as [|m]; cbn [nth_error]; [split; discriminate|].
    destruct m; cbn [nth_error]; split; discriminate.
Qed.

Ltac step_simpl :=
  cbn [a_kind a_pc a_locks a_id a_entries a_notify a_initclose a_cur set_pc set_cur] in *.

Lemma Step_actor_ok ntab s i a a' r tl rl cl nw :
  Step s i a a' r tl rl cl nw -> actor_ok ntab a -> actor_ok ntab a'.
Proof.
  intros HS [Hw Hp Hl Hi]. unfold locks_ok, idx_ok in *.
  inversion HS; subst; match goal with Hk : a_kind a = _, Hpc : a_pc a = _ |- _ =>
    rewrite Hk, Hpc in *; constructor; unfold locks_ok, idx_ok; step_simpl;
    try rewrite Hk; cbn [pc_ok negb] in *; auto end.
  all: try (destruct (a_locks a) eqn:E; cbn [length]; first [exact I|assumption|lia|(rewrite Hl; reflexivity)]).
  all: try (destruct (Nat.ltb_spec (S k) (length (a_locks a))); first [exact I|assumption]).
Qed.

Lemma held_self acts i a t : nth_error acts i = Some a -> holds acts i t <-> In t (held a).
Proof.
  intros Ha. unfold holds. split.
  - intros [b [Hb Hin]]. rewrite Ha in Hb. injection Hb as <-. exact Hin.
  - intros Hin. exists a. auto.
Qed.

Lemma Step_tl ntab s i a a' r tl rl cl nw :
  Inv ntab s -> nth_error (s_actors s) i = Some a -> Step s i a a' r tl rl cl nw ->
  forall t j, nth_error tl t = Some (Some j) <-> holds (upd i (fun _ => a') (s_actors s)) j t.
Proof.
  intros HI Ha HS t j. rewrite (holds_upd _ _ a) by exact Ha.
  pose proof (inv_tl _ _ HI) as Htl.
  pose proof (inv_ok _ _ HI _ _ Ha) as Hok.
  assert (Hframe : forall b, held b = held a ->
            (nth_error (s_tlock s) t = Some (Some j) <-> (if Nat.eqb j i then In t (held b) else holds (s_actors s) j t))).
  { intros b Hb. rewrite Htl. destruct (Nat.eqb_spec j i) as [->|Hne]; [|reflexivity].
    rewrite Hb. apply held_self. exact Ha. }
  inversion HS; subst;
    try (apply Hframe; unfold held; step_simpl;
         match goal with Hpc : a_pc a = _ |- _ => rewrite Hpc end; reflexivity).
  - (* PBeforeLock *)
    apply Hframe. unfold held; step_simpl. rewrite H0. destruct (a_locks a); reflexivity.
  - (* PLocking k: acquire t0 *)
    rewrite nth_error_upd. unfold held at 1. step_simpl.
    rewrite (firstn_S_nth _ _ _ H1).
    assert (Hha : held a = firstn k (a_locks a)) by (unfold held; rewrite H0; reflexivity).
    destruct (Nat.eqb_spec t0 t) as [->|Hne].
    + rewrite H2. cbn [option_map]. destruct (Nat.eqb_spec j i) as [->|Hji].
      * split; [intros _; apply in_or_app; right; left; reflexivity|reflexivity].
      * split; [intros E; injection E as E; congruence|].
        intros Hh. apply Htl in Hh. congruence.
    + rewrite Htl. destruct (Nat.eqb_spec j i) as [->|Hji]; [|reflexivity].
      rewrite (held_self _ _ _ _ Ha), Hha. rewrite in_app_iff. cbn [In]. intuition congruence.
  - (* PLocked k *)
    apply Hframe. unfold held; step_simpl. rewrite H0.
    destruct (Nat.ltb_spec (S k) (length (a_locks a))); [reflexivity|].
    symmetry. apply firstn_all2. lia.
  - (* unlock after commit *)
    unfold unlock_all. rewrite nth_error_unlock. unfold held at 1; step_simpl.
    assert (Hha : held a = a_locks a) by (unfold held; rewrite H0; reflexivity).
    destruct (memb t (a_locks a)) eqn:Hm.
    + apply memb_In in Hm. destruct (Nat.eqb_spec j i) as [->|Hji].
      * cbn [In]. destruct (nth_error (s_tlock s) t); cbn [option_map]; split; try discriminate; tauto.
      * split; [destruct (nth_error (s_tlock s) t); cbn [option_map]; discriminate|].
        intros Hh. apply Htl in Hh.
        assert (Hi : nth_error (s_tlock s) t = Some (Some i)).
        { apply Htl. apply (held_self _ _ _ _ Ha). rewrite Hha. exact Hm. }
        congruence.
    + apply memb_false in Hm. rewrite Htl. destruct (Nat.eqb_spec j i) as [->|Hji]; [|reflexivity].
      rewrite (held_self _ _ _ _ Ha), Hha. cbn [In]. tauto.
  - (* unlock after abort *)
    unfold unlock_all. rewrite nth_error_unlock. unfold held at 1; step_simpl.
    assert (Hha : held a = a_locks a) by (unfold held; rewrite H0; reflexivity).
    destruct (memb t (a_locks a)) eqn:Hm.
    + apply memb_In in Hm. destruct (Nat.eqb_spec j i) as [->|Hji].
      * cbn [In]. destruct (nth_error (s_tlock s) t); cbn [option_map]; split; try discriminate; tauto.
      * split; [destruct (nth_error (s_tlock s) t); cbn [option_map]; discriminate|].
        intros Hh. apply Htl in Hh.
        assert (Hi : nth_error (s_tlock s) t = Some (Some i)).
        { apply Htl. apply (held_self _ _ _ _ Ha). rewrite Hha. exact Hm. }
        congruence.
    + apply memb_false in Hm. rewrite Htl. destruct (Nat.eqb_spec j i) as [->|Hji]; [|reflexivity].
      rewrite (held_self _ _ _ _ Ha), Hha. cbn [In]. tauto.
  - (* registrar store *)
    rewrite nth_error_app_none. apply Hframe. unfold held; step_simpl. rewrite H0. reflexivity.
Qed.

Lemma rholder_self acts i a : nth_error acts i = Some a -> rholder acts i <-> rholds a = true.
Proof.
  intros Ha. unfold rholder. split.
  - intros [b [Hb Hin]]. rewrite Ha in Hb. injection Hb as <-. exact Hin.
  - intros Hin. exists a. auto.
Qed.

Lemma Step_rl ntab s i a a' r tl rl cl nw :
  Inv ntab s -> nth_error (s_actors s) i = Some a -> Step s i a a' r tl rl cl nw ->
  forall j, rl = Some j <-> rholder (upd i (fun _ => a') (s_actors s)) j.
Proof.
  intros HI Ha HS j. rewrite (rholder_upd _ _ a) by exact Ha.
  pose proof (inv_rl _ _ HI) as Hrl.
  assert (Hframe : forall b, rholds b = rholds a ->
            (s_rlock s = Some j <-> (if Nat.eqb j i then rholds b = true else rholder (s_actors s) j))).
  { intros b Hb. rewrite Hrl. destruct (Nat.eqb_spec j i) as [->|Hne]; [|reflexivity].
    rewrite Hb. apply rholder_self. exact Ha. }
  assert (Hlock : s_rlock s = None -> forall b, rholds b = true ->
            (Some i = Some j <-> (if Nat.eqb j i then rholds b = true else rholder (s_actors s) j))).
  { intros Hn b Hb. destruct (Nat.eqb_spec j i) as [->|Hne]; [tauto|].
    split; [intros E; injection E as E; congruence|]. intros Hh. apply Hrl in Hh. congruence. }
  assert (Hunlock : rholds a = true -> forall b, rholds b = false ->
            (None = Some j <-> (if Nat.eqb j i then rholds b = true else rholder (s_actors s) j))).
  { intros Hh b Hb. destruct (Nat.eqb_spec j i) as [->|Hne]; [rewrite Hb; split; discriminate|].
    split; [discriminate|]. intros Hj. apply Hrl in Hj.
    assert (Hi : s_rlock s = Some i) by (apply Hrl; apply (rholder_self _ _ _ Ha); exact Hh). congruence. }
  inversion HS; subst;
    try (apply Hframe; unfold rholds; step_simpl;
         match goal with Hpc : a_pc a = _ |- _ => rewrite Hpc end; reflexivity);
    try (apply Hlock; [assumption|reflexivity]);
    try (apply Hunlock; [unfold rholds; match goal with Hpc : a_pc a = _ |- _ => rewrite Hpc end; reflexivity|reflexivity]).
  - apply Hframe. unfold rholds; step_simpl. rewrite H0. destruct (a_locks a); reflexivity.
  - apply Hframe. unfold rholds; step_simpl. rewrite H0. destruct (Nat.ltb (S k) (length (a_locks a))); reflexivity.
Qed.

Lemma Step_len ntab s i a a' r tl rl cl nw :
  Inv ntab s -> Step s i a a' r tl rl cl nw ->
  length tl = length r /\ ntab <= length tl.
Proof.
  intros HI HS. destruct (inv_len _ _ HI) as [Hl Hn].
  inversion HS; subst; auto.
  - rewrite length_upd. auto.
  - match goal with Hm : merge_root _ _ _ _ = _ |- _ =>
      pose proof (merge_root_length (s_root s) (a_locks a) (a_entries a) 0) as Hr; rewrite Hm in Hr; cbn [fst] in Hr end.
    rewrite Hr. auto.
  - unfold unlock_all. rewrite length_unlock. auto.
  - unfold unlock_all. rewrite length_unlock. auto.
  - rewrite !app_length. cbn [length]. lia.
Qed.

Lemma loaded_rholds a : loaded a = true -> rholds a = true.
Proof. unfold loaded, rholds. destruct (a_pc a); congruence. Qed.

(* the root loaded inside the root lock stays the current root: the only steps that change the root are the
   stores of the root-lock holder itself *)
Lemma Step_cur ntab s i a a' r tl rl cl nw :
  Inv ntab s -> nth_error (s_actors s) i = Some a -> Step s i a a' r tl rl cl nw ->
  forall j b, nth_error (upd i (fun _ => a') (s_actors s)) j = Some b -> loaded b = true -> a_cur b = r.
Proof.
  intros HI Ha HS j b. rewrite nth_error_upd. destruct (Nat.eqb_spec i j) as [->|Hne].
  - rewrite Ha. cbn [option_map]. intros Hb Hld. injection Hb as <-. revert Hld.
    inversion HS; subst; unfold loaded; step_simpl; try discriminate; try reflexivity.
    + destruct (a_locks a); discriminate.
    + destruct (Nat.ltb (S k) (length (a_locks a))); discriminate.
  - intros Hb Hld. rewrite (inv_cur _ _ HI _ _ Hb Hld).
    assert (Hexcl : rholds a = true -> False).
    { intros Hra. apply Hne.
      assert (H1 : s_rlock s = Some i) by (apply (inv_rl _ _ HI); exists a; auto).
      assert (H2 : s_rlock s = Some j) by (apply (inv_rl _ _ HI); exists b; split; [exact Hb|apply loaded_rholds; exact Hld]).
      congruence. }
    inversion HS; subst; try reflexivity;
      exfalso; apply Hexcl; unfold rholds; match goal with Hpc : a_pc a = _ |- _ => rewrite Hpc end; reflexivity.
Qed.

Lemma enabled_actor s i : enabled s i = true -> exists a, nth_error (s_actors s) i = Some a.
Proof. unfold enabled. destruct (nth_error (s_actors s) i) as [a|]; [eauto|discriminate]. Qed.

(* every enabled micro-step of a state satisfying Inv is one of the Step cases *)
Lemma Inv_step_spec ntab s i : Inv ntab s -> enabled s i = true ->
  exists a a' root tl rl cl nw, nth_error (s_actors s) i = Some a /\
    Step s i a a' root tl rl cl nw /\ step s i = post s i a' root tl rl cl nw.
Proof.
  intros HI He. destruct (enabled_actor _ _ He) as [a Ha].
  destruct (step_spec s i a Ha He (ok_pc _ _ (inv_ok _ _ HI _ _ Ha)) (inv_cur _ _ HI _ _ Ha)) as (a'&r&tl&rl&cl&nw&HS&E).
  exists a, a', r, tl, rl, cl, nw. auto.
Qed.

Theorem Inv_step ntab s i : Inv ntab s -> Inv ntab (step s i).
Proof.
  intros HI. destruct (enabled s i) eqn:He; [|rewrite step_disabled; assumption].
  destruct (Inv_step_spec _ _ _ HI He) as (a&a'&r&tl&rl&cl&nw&Ha&HS&E). rewrite E. unfold post.
  constructor; cbn [s_root s_tlock s_rlock s_closed s_nextw s_actors].
  - eapply Step_len; eauto.
  - intros j b. rewrite nth_error_upd. destruct (Nat.eqb_spec i j) as [->|Hne].
    + rewrite Ha. cbn [option_map]. intros Hb. injection Hb as <-.
      eapply Step_actor_ok; [exact HS|]. eapply inv_ok; eauto.
    + apply (inv_ok _ _ HI).
  - eapply Step_tl; eauto.
  - eapply Step_rl; eauto.
  - eapply Step_cur; eauto.
Qed.

(* well-formed actor lists: every table index a writer mentions exists from the start *)
Definition wf_actors (ntab : nat) (actors : list (N * kind)) : Prop :=
  forall ik, In ik actors -> wf_kind ntab (snd ik).

Lemma nth_error_repeat_none {A} (x : A) n t y : nth_error (repeat x n) t = Some y -> y = x.
Proof. intros H. apply nth_error_In in H. apply repeat_spec in H. exact H. Qed.

Theorem Inv_init ntab actors : wf_actors ntab actors -> Inv ntab (init_st ntab actors).
Proof.
  intros Hwf. unfold init_st. constructor; cbn [s_root s_tlock s_rlock s_closed s_nextw s_actors].
  - rewrite repeat_length, map_length, seq_length. auto.
  - intros j b Hb. apply nth_error_In in Hb. apply in_map_iff in Hb. destruct Hb as [[id k] [<- Hin]].
    constructor; cbn [a_kind a_pc a_locks fst snd].
    + apply (Hwf _ Hin).
    + destruct k; reflexivity.
    + unfold locks_ok. cbn [a_kind a_pc a_locks snd]. destruct k; reflexivity.
    + exact I.
  - intros t j. split.
    + intros H. apply nth_error_repeat_none in H. discriminate.
    + intros [b [Hb Hin]]. apply nth_error_In in Hb. apply in_map_iff in Hb. destruct Hb as [[id k] [<- _]].
      destruct Hin.
  - intros j. split; [discriminate|].
    intros [b [Hb Hr]]. apply nth_error_In in Hb. apply in_map_iff in Hb. destruct Hb as [[id k] [<- _]].
    discriminate.
  - intros j b Hb. apply nth_error_In in Hb. apply in_map_iff in Hb. destruct Hb as [[id k] [<- _]].
    discriminate.
Qed.

Theorem Inv_run ntab sched : forall s, Inv ntab s -> Inv ntab (run s sched).
Proof.
  unfold run. induction sched as [|i r IH]; intros s HI; cbn [fold_left]; [exact HI|].
  apply IH. apply Inv_step. exact HI.
Qed.

Theorem Inv_reachable ntab actors sched : wf_actors ntab actors -> Inv ntab (run (init_st ntab actors) sched).
Proof. intros H. apply Inv_run. apply Inv_init. exact H. Qed.

(* ---------- consequences ---------- *)
(* mutual exclusion: a table is held by at most one actor *)
Theorem mutual_exclusion ntab s i j a b t : Inv ntab s ->
  nth_error (s_actors s) i = Some a -> nth_error (s_actors s) j = Some b ->
  In t (held a) -> In t (held b) -> i = j.
Proof.
  intros HI Ha Hb Hta Htb.
  assert (H1 : nth_error (s_tlock s) t = Some (Some i)) by (apply (inv_tl _ _ HI); exists a; auto).
  assert (H2 : nth_error (s_tlock s) t = Some (Some j)) by (apply (inv_tl _ _ HI); exists b; auto).
  congruence.
Qed.

Theorem root_lock_exclusive ntab s i j a b : Inv ntab s ->
  nth_error (s_actors s) i = Some a -> nth_error (s_actors s) j = Some b ->
  rholds a = true -> rholds b = true -> i = j.
Proof.
  intros HI Ha Hb Hta Htb.
  assert (H1 : s_rlock s = Some i) by (apply (inv_rl _ _ HI); exists a; auto).
  assert (H2 : s_rlock s = Some j) by (apply (inv_rl _ _ HI); exists b; auto).
  congruence.
Qed.

(* an actor holding the root lock is not at a lock-acquiring pc (db.mu is a leaf lock) *)
Theorem root_holder_not_acquiring a : rholds a = true -> acquiring a = false.
Proof. unfold rholds, acquiring. destruct (a_pc a); congruence. Qed.

(* the root-lock holder's next step is always enabled *)
Lemma rholds_enabled s i a : nth_error (s_actors s) i = Some a -> rholds a = true -> enabled s i = true.
Proof. intros Ha Hr. unfold enabled. rewrite Ha. unfold rholds in Hr. destruct (a_pc a); congruence. Qed.

(* while an actor is between its root load inside the root lock and its root store, the root it loaded is the
   current root, and it holds the root lock *)
Theorem loaded_root_is_current ntab s i a : Inv ntab s ->
  nth_error (s_actors s) i = Some a -> a_pc a = PCommitLoaded \/ a_pc a = PRegLoaded ->
  a_cur a = s_root s /\ s_rlock s = Some i.
Proof.
  intros HI Ha Hp.
  assert (Hld : loaded a = true) by (unfold loaded; destruct Hp as [-> | ->]; reflexivity).
  split; [apply (inv_cur _ _ HI _ _ Ha Hld)|].
  apply (inv_rl _ _ HI). exists a. split; [exact Ha|apply loaded_rholds; exact Hld].
Qed.
