(* DB/NotifyLink.v — C06: the link between the notify micro-step of DB/Model.v and Txn.Notify of Part/Model.v.

   DB/Model.v keeps ONE channel per table version, `tv_watch`: the table-wide watch channel, i.e. the channel
   Table.AllWatch returns (table.go AllWatch -> indexTxn.all() on the PRIMARY index -> partIndex.all -> rootWatch()
   -> tree.RootWatch(); the sched engine's `watch <tab>` keeps exactly this channel). Its commit writes, for every
   table t in the actor's `writes`, a new version with a fresh channel and queues the old version's channel on
   `a_notify` (apply_writes / F1); the notify micro-step (pc PRootUnlocked) closes `a_notify`.

   write_txn.go Commit: for every index of every locked table `idx.commit()` (part.Txn.Commit: a fresh root channel iff
   the part.Txn is dirty), the root store, then `txn.notify()` for every index transaction (part.Txn.Notify: closes the
   recorded node channels and, iff dirty, the old root channel).

   THE ABSTRACTION [table_chan T = tr_rw T] maps the tree T of a table's primary index to the table's DB-level channel;
   [abs_notify T cls] maps the per-index closed sets cls of a committing table transaction to the DB-level closed
   set for that table: the table-wide channel if some set contains it, nothing otherwise (node channels and the root
   channels of the other indexes are not DB-level channels).

   PART SIDE (table_commit_refines_db_write): with R v T := (tv_watch v = table_chan T), the Part-level commit of the
   primary index's transaction (operations ops, `wrote` := the part.Txn is dirty = some operation inserted, replaced or
   deleted-while-present a key: C12_dirty_iff_changed) is, through the abstraction, exactly the DB-level write step
   [db_table_step] with `wrote` as "t is in writes": same closed set, R holds again for the new version and the
   committed tree, the new channel is fresh iff wrote and unchanged otherwise.
   DB SIDE (db_apply_writes_notify, for every reachable state): the apply_writes step of a committing writer queues the
   channel of the CURRENT root version of a locked table t iff t is in `writes`, gives t a fresh channel iff t is in
   `writes`; the queue is carried unchanged to the notify step, which closes exactly it.
   Together (table_channel_is_primary_root_channel): under the correspondence "t in writes <-> the primary index's
   part.Txn is dirty", the DB-level notify step closes tv_watch of the old version iff the Part-level Notify closes
   the old primary root channel. *)
From Coq Require Import Arith PeanoNat.
From SV Require Import DB.Model DB.Proofs DB.Invariants DB.Visibility DB.Channels DB.Watch.
Open Scope nat_scope.

(* ==== DB side ====================================================================================================== *)
(* what F1 (the first fold of apply_writes) does to ONE table entry, as a function: `wrote` = t is in writes *)
Definition db_table_step (id : N) (wrote : bool) (nw : N) (v : tver) : tver * list N * N :=
  if wrote then (mkV (insert_id id (tv_ids v)) nw (tv_init v), [tv_watch v], (nw + 1)%N) else (v, [], nw).

Lemma F1_is_db_table_step id es nt nw t v : nth_error es t = Some v ->
  let r := db_table_step id true nw v in
  F1 id (es, nt, nw) t = (upd t (fun _ => fst (fst r)) es, snd (fst r) ++ nt, snd r).
Proof. intros H. cbn [F1 db_table_step fst snd app]. rewrite H. reflexivity. Qed.

Lemma F1_notify_mono id : forall ws acc w, In w (snd (fst acc)) -> In w (snd (fst (fold_left (F1 id) ws acc))).
Proof.
  induction ws as [|t0 ws IH]; intros acc w H; cbn [fold_left]; auto. apply IH.
  destruct acc as [[es nt] nw]. cbn [F1]. destruct (nth_error es t0); cbn [fst snd] in *; auto. now right.
Qed.

(* a written table's channel is queued *)
Lemma F1_written id t : forall ws es nt nw v, nth_error es t = Some v -> In t ws ->
  In (tv_watch v) (snd (fst (fold_left (F1 id) ws (es, nt, nw)))).
Proof.
  induction ws as [|t0 ws IH]; intros es nt nw v Hv Hin; [destruct Hin|]. cbn [fold_left].
  destruct (Nat.eq_dec t0 t) as [->|Hne].
  - cbn [F1]. rewrite Hv. apply F1_notify_mono. cbn [fst snd]. now left.
  - destruct Hin as [E|Hin]; [congruence|]. cbn [F1].
    destruct (nth_error es t0) as [v0|] eqn:E0; [|now apply IH].
    apply IH; auto. rewrite nth_error_upd_other; auto.
Qed.

(* ... and gets a channel allocated by this apply_writes *)
Lemma F1_fresh id t lo : forall ws es nt nw,
  (exists e, nth_error es t = Some e /\ ((lo <= tv_watch e)%N /\ (tv_watch e < nw)%N \/ (In t ws /\ (lo <= nw)%N))) ->
  exists e, nth_error (fst (fst (fold_left (F1 id) ws (es, nt, nw)))) t = Some e /\
            (lo <= tv_watch e)%N /\ (tv_watch e < snd (fold_left (F1 id) ws (es, nt, nw)))%N.
Proof.
  induction ws as [|t0 ws IH]; intros es nt nw [e [He H]]; cbn [fold_left].
  - cbn [fst snd]. exists e. destruct H as [H|[[] _]]. tauto.
  - cbn [F1]. destruct (nth_error es t0) as [v0|] eqn:E0.
    + apply IH. destruct (Nat.eq_dec t0 t) as [->|Hne].
      * rewrite nth_error_upd_same, He. cbn [option_map]. eexists. split; [reflexivity|]. left. cbn [tv_watch].
        destruct H as [H|[_ H]]; lia.
      * rewrite nth_error_upd_other by auto. exists e. split; [exact He|].
        destruct H as [H|[[E|H] L]]; [left; lia|congruence|right; split; [exact H|lia]].
    + apply IH. exists e. split; [exact He|]. destruct H as [H|[[E|H] L]]; [left; exact H| |right; auto].
      subst t0. congruence.
Qed.

(* the whole of apply_writes, on the entry of one table t whose channels are distinct from the other entries' *)
Theorem apply_writes_table (D : nat -> Prop) id ws rg dn nw0 es0 es' nt' nw' t v :
  (forall t, In t ws -> D t) -> (forall tn, In tn rg -> D (fst tn)) -> (forall tn, In tn dn -> D (fst tn)) ->
  chinj D es0 -> (forall t v w, D t -> nth_error es0 t = Some v -> In w (chans v) -> (w < nw0)%N) ->
  apply_writes id ws rg dn nw0 es0 = (es', nt', nw') ->
  D t -> nth_error es0 t = Some v ->
  (In (tv_watch v) nt' <-> In t ws) /\
  exists e, nth_error es' t = Some e /\
    (In t ws -> (nw0 <= tv_watch e)%N /\ (tv_watch e < nw')%N) /\
    (~ In t ws -> tv_watch e = tv_watch v).
Proof.
  intros Hws Hrg Hdn Hinj Hb Haw Dt Hv.
  pose proof (apply_writes_G D es0 nw0 id ws rg dn es' nt' nw' Hws Hrg Hdn Hinj Hb Haw) as HG.
  pose proof (apply_writes_kept id ws rg dn nw0 es0 es' nt' nw' Haw t) as Hk. rewrite Hv in Hk.
  destruct Hk as [e [He [Hkeep _]]].
  rewrite apply_writes_unfold in Haw.
  destruct (fold_left (F1 id) ws (es0, [], nw0)) as [[es1 nt1] nw1] eqn:E1.
  destruct (fold_left F2 rg (es1, nw1)) as [es2 nw2] eqn:E2.
  injection Haw as <- <- <-.
  split.
  - split.
    + intros Hin. destruct (in_dec Nat.eq_dec t ws) as [Y|Nn]; [exact Y|exfalso].
      destruct (g_nt _ _ _ _ _ _ HG _ Hin) as [_ Hno]. apply (Hno t e Dt He). left. exact (Hkeep Nn).
    + intros Hin. pose proof (F1_written id t ws es0 [] nw0 v Hv Hin) as H. rewrite E1 in H. exact H.
  - exists e. split; [exact He|]. split; [|exact Hkeep].
    intros Hin.
    assert (Hf : exists e1, nth_error es1 t = Some e1 /\ (nw0 <= tv_watch e1)%N /\ (tv_watch e1 < nw1)%N).
    { pose proof (F1_fresh id t nw0 ws es0 [] nw0) as H. rewrite E1 in H. cbn [fst snd] in H. apply H.
      exists v. split; [exact Hv|]. right. split; [exact Hin|lia]. }
    destruct Hf as (e1 & He1 & L1 & L2).
    pose proof (F2_keep2 rg _ _ E2 t) as K2. cbn [fst] in K2. rewrite He1 in K2. destruct K2 as [e2 [He2 [W2 _]]].
    pose proof (F3_keep2 dn es2 _ eq_refl t) as K3. rewrite He2 in K3. destruct K3 as [e3 [He3 [W3 _]]].
    assert (Ee : e = e3) by congruence. subst e. rewrite W3, W2.
    pose proof (F2_nw rg _ _ _ _ E2). lia.
Qed.

(* ---- in every reachable state ------------------------------------------------------------------------------------- *)
Lemma actor_after s i a' : i < length (s_actors s) ->
  nth_error (upd i (fun _ => a') (s_actors s)) i = Some a'.
Proof.
  intros Hl. rewrite nth_error_upd_same. destruct (nth_error (s_actors s) i) eqn:E; [reflexivity|].
  apply nth_error_None in E. lia.
Qed.

(* the apply_writes step of a committing writer: for every locked table t, with v its version in the CURRENT root
   (nobody else can replace it while t is locked): v's channel is queued for notification iff t is in `writes`; the
   private entry gets a channel allocated by this step iff t is in `writes`, and keeps v's channel otherwise *)
Theorem db_apply_writes_notify ntab s i a tabs wr rg dn :
  Good ntab s -> nth_error (s_actors s) i = Some a ->
  a_kind a = KWriter tabs wr true rg dn -> a_pc a = PRootLoaded ->
  exists a', nth_error (s_actors (step s i)) i = Some a' /\ a_pc a' = PCommitIdx /\
    a_kind a' = a_kind a /\ a_locks a' = a_locks a /\
    s_root (step s i) = s_root s /\ s_closed (step s i) = s_closed s /\
    forall t v, In t (a_locks a) -> nth_error (s_root s) t = Some v ->
      (In (tv_watch v) (a_notify a') <-> In t wr) /\
      exists e, nth_error (a_entries a') t = Some e /\
        (In t wr -> (s_nextw s <= tv_watch e)%N /\ (tv_watch e < s_nextw (step s i))%N) /\
        (~ In t wr -> tv_watch e = tv_watch v).
Proof.
  intros [HI HV HW] Ha Hk Hpc.
  pose proof (inv_ok _ _ HI _ _ Ha) as Hok.
  assert (He : enabled s i = true) by (unfold enabled; rewrite Ha, Hpc; reflexivity).
  assert (Hl : i < length (s_actors s)) by (apply nth_error_Some; rewrite Ha; discriminate).
  unfold step. rewrite He, Ha, Hk, Hpc. cbn [negb].
  destruct (apply_writes (a_id a) wr rg dn (s_nextw s) (a_entries a)) as [[es nt] nw] eqn:Haw.
  unfold set_actor. cbn [s_root s_closed s_nextw s_actors].
  eexists. split; [apply actor_after; exact Hl|]. cbn [a_pc a_kind a_locks a_notify a_entries].
  split; [reflexivity|]. split; [reflexivity|]. split; [reflexivity|]. split; [reflexivity|]. split; [reflexivity|].
  intros t v Ht Hv.
  assert (Hne : a_pc a <> PStart) by (rewrite Hpc; discriminate).
  destruct (kind_sub_locks ntab a _ _ _ _ _ Hok Hne Hk) as (Hws & Hrg & Hdn).
  pose proof (v_ents _ HV i a Ha) as Hents. unfold ents_ok in Hents. rewrite Hpc in Hents.
  destruct (wi_inj _ _ _ _ HW) as [I1 I2].
  apply (apply_writes_table (fun t => In t (a_locks a)) (a_id a) wr rg dn (s_nextw s) (a_entries a) es nt nw t v); auto.
  - split.
    + intros t1 t2 v1 v2 w D1 D2 E1 E2 W1 W2. rewrite (Hents t1 D1) in E1. rewrite (Hents t2 D2) in E2.
      apply (I1 t1 t2 v1 v2 w I I E1 E2 W1 W2).
    + intros t1 v1 D1 E1. rewrite (Hents t1 D1) in E1. apply (I2 t1 v1 I E1).
  - intros t1 v1 w D1 E1 W1. rewrite (Hents t1 D1) in E1. apply (wi_broot _ _ _ _ HW). exists t1, v1. auto.
  - rewrite (Hents t Ht). exact Hv.
Qed.

(* the queue is carried unchanged through the root lock, root load, root store and root unlock steps ... *)
Lemma a_notify_carried s i a tabs wr c rg dn :
  nth_error (s_actors s) i = Some a -> a_kind a = KWriter tabs wr c rg dn ->
  a_pc a = PCommitIdx \/ a_pc a = PRootLocked \/ a_pc a = PCommitLoaded \/ a_pc a = PRootStored ->
  exists a', nth_error (s_actors (step s i)) i = Some a' /\ a_notify a' = a_notify a /\ a_kind a' = a_kind a /\
             s_closed (step s i) = s_closed s.
Proof.
  intros Ha Hk Hpc.
  assert (Hl : i < length (s_actors s)) by (apply nth_error_Some; rewrite Ha; discriminate).
  destruct (enabled s i) eqn:He.
  2:{ rewrite step_disabled by exact He. exists a. auto. }
  unfold step. rewrite He, Ha, Hk. cbn [negb].
  destruct Hpc as [Hpc|[Hpc|[Hpc|Hpc]]]; rewrite Hpc.
  - unfold set_actor. cbn [s_actors s_closed]. eexists. split; [apply actor_after; exact Hl|]. cbn. auto.
  - unfold set_actor. cbn [s_actors s_closed]. eexists. split; [apply actor_after; exact Hl|]. cbn. auto.
  - destruct (merge_root (a_locks a) (a_entries a) (a_cur a) 0) as [root closing].
    unfold set_actor. cbn [s_actors s_closed]. eexists. split; [apply actor_after; exact Hl|]. cbn. auto.
  - unfold set_actor. cbn [s_actors s_closed]. eexists. split; [apply actor_after; exact Hl|]. cbn. auto.
Qed.

(* ... is untouched by the steps of the other actors ... *)
Lemma other_step_keeps_actor s i j : i <> j -> nth_error (s_actors (step s j)) i = nth_error (s_actors s) i.
Proof.
  intros Hne. unfold step. destruct (enabled s j); cbn [negb]; [|reflexivity].
  destruct (nth_error (s_actors s) j) as [b|]; [|reflexivity].
  assert (U : forall s1 b', s_actors s1 = s_actors s -> nth_error (s_actors (set_actor s1 j b')) i = nth_error (s_actors s) i).
  { intros s1 b' E. unfold set_actor. cbn [s_actors]. rewrite E. apply nth_error_upd_other. auto. }
  destruct (a_kind b) as [tabs wr c rg dn|]; destruct (a_pc b); try reflexivity; try (apply U; reflexivity).
  - destruct (nth_error (a_locks b) i0); [apply U; reflexivity|reflexivity].
  - destruct c; destruct (apply_writes _ _ _ _ _ _) as [[es nt] nw]; apply U; reflexivity.
  - destruct (merge_root _ _ _ _) as [root closing]. apply U; reflexivity.
Qed.

(* ... and the notify micro-step closes exactly it *)
Lemma notify_step_closes s i a tabs wr c rg dn :
  nth_error (s_actors s) i = Some a -> a_kind a = KWriter tabs wr c rg dn -> a_pc a = PRootUnlocked ->
  s_closed (step s i) = a_notify a ++ s_closed s /\ s_root (step s i) = s_root s.
Proof.
  intros Ha Hk Hpc.
  assert (He : enabled s i = true) by (unfold enabled; rewrite Ha, Hpc; reflexivity).
  unfold step. rewrite He, Ha, Hk, Hpc. cbn [negb]. unfold set_actor. cbn [s_closed s_root]. auto.
Qed.

(* ==== Part side ===================================================================================================== *)
From SV Require Import Base.Bytes Base.OrdMap Part.Model Part.Refine Part.Watch Part.Fresh Part.Footprint.
Open Scope N_scope.

(* THE ABSTRACTION: the DB-level channel of a table whose primary index is the tree T *)
Definition table_chan (T : tree) : N := tr_rw T.
(* the DB-level image of the per-index closed sets of a committing table transaction *)
Definition abs_notify (T : tree) (cls : list (list N)) : list N :=
  if existsb (N.eqb (table_chan T)) (concat cls) then [table_chan T] else [].
(* the representation relation between a DB-level table version and the primary index's tree *)
Definition Rtab (v : tver) (T : tree) : Prop := tv_watch v = table_chan T.

Lemma existsb_In w l : existsb (N.eqb w) l = true <-> In w l.
Proof.
  rewrite existsb_exists. split.
  - intros [x [H E]]. apply N.eqb_eq in E. now subst.
  - intros H. exists w. split; [exact H|apply N.eqb_refl].
Qed.

(* T: the committed tree of the table's primary index; ops: the operations of the write transaction's part.Txn on it;
   others: the closed sets of the transaction's other index transactions (they close channels of OTHER trees: none of
   them is T's root channel); wrote: the part.Txn is dirty. The Part-level Commit + Notify is, through the abstraction,
   the DB-level write of the table with `wrote` for "t in writes" and the committed tree's root channel as the fresh
   channel. *)
Theorem table_commit_refines_db_write v T next ops others id :
  tree_inv T next -> Rtab v T ->
  (forall cl, In cl others -> ~ In (table_chan T) cl) ->
  let xe := fold_left wstep ops (tree_txn T next) in
  let T' := snd (txn_commit xe) in
  let cls := snd (txn_notify (fst (txn_commit xe))) :: others in
  let wrote := any_change (abs_tree T) ops in
  let r := db_table_step id wrote (table_chan T') v in
  t_dirty xe = wrote /\
  (In (table_chan T) (snd (txn_notify (fst (txn_commit xe)))) <-> wrote = true) /\
  abs_notify T cls = snd (fst r) /\
  Rtab (fst (fst r)) T' /\
  (wrote = true -> next <= table_chan T' /\ table_chan T' <> table_chan T /\
                   ~ In (table_chan T') (snd (txn_notify (fst (txn_commit xe))))) /\
  (wrote = false -> table_chan T' = table_chan T) /\
  tree_inv T' (s_next (t_st (fst (txn_commit xe)))).
Proof.
  intros HI HR Hoth. cbv zeta. rewrite notify_after_commit.
  pose proof HI as (Hok & Hids & Hnz & Hm & Hck & Hrw).
  destruct (tree_txn_ok T next Hok) as [Tok Ta].
  destruct (dirty_iff_changed ops _ Tok) as [Ed Erw]. rewrite Ta in Ed. cbn [tree_txn t_dirty orb] in Ed.
  pose proof (root_watch_closed_iff_exact T next ops Hok Hck Hnz Hrw) as Hiff.
  pose proof (new_tree_channels_open T next ops Hck Hnz) as Hnew. cbv zeta in Hnew. destruct Hnew as (_ & _ & Hopen & _).
  pose proof (commit_tree_inv T next ops HI) as Hci. cbv zeta in Hci. destruct Hci as (HI' & _ & _).
  set (xe := fold_left wstep ops (tree_txn T next)) in *.
  destruct (commit_root xe) as [_ Ew].
  assert (Hlt : tr_rw T < next) by (apply (h_chan_lt T next HRoot Hck Hrw)).
  assert (Hge : next <= s_next (t_st xe)).
  { pose proof (run_TInv next ops _ (tree_txn_TInv T next Hids Hnz Hm)) as (_ & _ & Hn). exact Hn. }
  split; [exact Ed|]. split; [exact Hiff|].
  unfold abs_notify, Rtab, db_table_step in *. unfold table_chan in *. cbn [concat].
  split; [|split; [|split; [|split; [|exact HI']]]].
  - destruct (any_change (abs_tree T) ops) eqn:W; cbn [fst snd].
    + replace (existsb _ _) with true; [now rewrite HR|]. symmetry. apply existsb_In. apply in_or_app. left.
      now apply Hiff.
    + replace (existsb _ _) with false; [reflexivity|]. symmetry. apply not_true_is_false. intros H.
      apply existsb_In in H. apply in_app_or in H. destruct H as [H|H].
      * apply Hiff in H. discriminate.
      * apply in_concat in H. destruct H as [cl [H1 H2]]. exact (Hoth cl H1 H2).
  - destruct (any_change (abs_tree T) ops) eqn:W; cbn [fst snd tv_watch]; [reflexivity|].
    rewrite Ew, Ed, Erw. exact HR.
  - intros W. rewrite W in Ed. rewrite Ew, Ed. split; [lia|]. split; [lia|].
    rewrite Ew, Ed in Hopen. apply Hopen. lia.
  - intros W. rewrite W in Ed. rewrite Ew, Ed, Erw. reflexivity.
Qed.

(* ==== both sides ===================================================================================================== *)
(* A reachable DB state; actor a: a committing writer about to apply its writes; t: a table it has locked, v its
   version in the current root, represented by the committed primary-index tree T (Rtab v T); ops: the operations of
   the transaction's part.Txn on T. Under the correspondence "t in writes <-> the part.Txn is dirty": the channel
   queued for the DB-level notify step contains tv_watch v  iff  the Part-level Notify closes T's root channel; the new
   DB-level version of t has a fresh channel iff the committed tree has a fresh root channel, and the old one otherwise. *)
Theorem table_channel_is_primary_root_channel ntab s i a tabs wr rg dn t v T next ops :
  Good ntab s -> nth_error (s_actors s) i = Some a ->
  a_kind a = KWriter tabs wr true rg dn -> a_pc a = PRootLoaded ->
  In t (a_locks a) -> nth_error (s_root s) t = Some v ->
  tree_inv T next -> Rtab v T ->
  (In t wr <-> any_change (abs_tree T) ops = true) ->
  let xe := fold_left wstep ops (tree_txn T next) in
  let T' := snd (txn_commit xe) in
  exists a' e, nth_error (s_actors (DB.Model.step s i)) i = Some a' /\ a_pc a' = PCommitIdx /\
    nth_error (a_entries a') t = Some e /\
    (In (tv_watch v) (a_notify a') <-> In (table_chan T) (snd (txn_notify (fst (txn_commit xe))))) /\
    (In (tv_watch v) (a_notify a') <-> In t wr) /\
    (In t wr -> (s_nextw s <= tv_watch e)%N /\ tv_watch e <> tv_watch v /\
                next <= table_chan T' /\ table_chan T' <> table_chan T) /\
    (~ In t wr -> tv_watch e = tv_watch v /\ table_chan T' = table_chan T /\ Rtab e T').
Proof.
  intros HG Ha Hk Hpc Ht Hv HI HR Hcor. cbv zeta.
  destruct (db_apply_writes_notify ntab s i a tabs wr rg dn HG Ha Hk Hpc) as (a' & Ha' & Hpc' & _ & _ & _ & _ & Hall).
  destruct (Hall t v Ht Hv) as (Hq & e & He & Hfresh & Hkeep).
  pose proof (table_commit_refines_db_write v T next ops [] 0 HI HR ltac:(intros cl [])) as P. cbv zeta in P.
  destruct P as (_ & Hiff & _ & _ & Pw & Pn & _).
  exists a', e. split; [exact Ha'|]. split; [exact Hpc'|]. split; [exact He|].
  split; [rewrite Hq, Hiff; exact Hcor|]. split; [exact Hq|]. split.
  - intros Hin. destruct (Hfresh Hin) as [L1 L2]. apply Hcor in Hin. destruct (Pw Hin) as (A & B & _).
    split; [exact L1|]. split; [|split; [exact A|exact B]].
    destruct HG as [_ _ HW]. assert (tv_watch v < s_nextw s)%N; [|lia].
    apply (wi_broot _ _ _ _ HW). exists t, v. split; [exact Hv|]. now left.
  - intros Hn. pose proof (Hkeep Hn) as Ek.
    assert (W : any_change (abs_tree T) ops = false).
    { destruct (any_change (abs_tree T) ops) eqn:E; [|reflexivity]. exfalso. apply Hn. now apply Hcor. }
    pose proof (Pn W) as En. split; [exact Ek|]. split; [exact En|]. unfold Rtab in *. now rewrite Ek, En.
Qed.

(* ---- non-vacuity ----------------------------------------------------------------------------------------------------- *)
(* DB: two tables (channels 0 and 1), one writer locking both and writing table 1 only; after 7 steps it is at
   PRootLoaded. Part: the primary index of table 1: the empty tree whose root channel is the table's channel 1; the
   transaction inserts one key. The DB-level queue is [1]; the Part-level Notify closes [1]; table 0 keeps channel 0. *)
Definition nl_acts : list (N * kind) := [(1%N, KWriter [0%nat; 1%nat] [1%nat] true [] [])].
Definition nl_s : DB.Model.st := DB.Model.run (init_st 2 nl_acts) (repeat 0%nat 7).
Definition nl_T : tree := fst (tree_new false 1).

Lemma nl_wf : wf_system 2 nl_acts.
Proof.
  split.
  - intros ik [<-|[]]; cbn; repeat split; try (intros x Hx; cbn in Hx; intuition (subst; cbn; auto)).
  - cbn. repeat constructor; cbn; intuition discriminate.
Qed.

Example notify_link_nonvacuous :
  exists a, Good 2 nl_s /\ nth_error (s_actors nl_s) 0 = Some a /\
    a_kind a = KWriter [0%nat; 1%nat] [1%nat] true [] [] /\ a_pc a = PRootLoaded /\
    In 1%nat (a_locks a) /\ nth_error (s_root nl_s) 1 = Some (mkV [] 1 None) /\
    tree_inv nl_T 2 /\ Rtab (mkV [] 1 None) nl_T /\
    (In 1%nat [1%nat] <-> any_change (abs_tree nl_T) [WIns [1] 10] = true) /\
    (exists a', nth_error (s_actors (DB.Model.step nl_s 0)) 0 = Some a' /\ a_notify a' = [1] /\
                map tv_watch (a_entries a') = [0; 2]) /\
    snd (txn_notify (fst (txn_commit (fold_left wstep [WIns [1] 10] (tree_txn nl_T 2))))) = [1] /\
    table_chan (snd (txn_commit (fold_left wstep [WIns [1] 10] (tree_txn nl_T 2)))) = 3.
Proof.
  eexists. split; [exact (Good_reachable 2 nl_acts (repeat 0%nat 7) nl_wf)|].
  split; [vm_compute; reflexivity|]. split; [reflexivity|]. split; [reflexivity|].
  split; [cbn; auto|]. split; [reflexivity|]. split; [apply (tree_inv_new false 1); lia|]. split; [reflexivity|].
  split; [split; intros _; [reflexivity|now left]|].
  split; [eexists; split; [vm_compute; reflexivity|split; reflexivity]|]. split; reflexivity.
Qed.

Print Assumptions apply_writes_table.
Print Assumptions db_apply_writes_notify.
Print Assumptions a_notify_carried.
Print Assumptions other_step_keeps_actor.
Print Assumptions notify_step_closes.
Print Assumptions table_commit_refines_db_write.
Print Assumptions table_channel_is_primary_root_channel.
