(* DB/Watch.v — the watch-channel invariant of the commit protocol: channels handed out by the committed
   root are pairwise distinct and open; the channels a committing transaction is going to close
   (a_notify, a_initclose) are no longer handed out by the root once its root store has happened; the
   private entries of transactions that have not yet stored carry channels that are either fresh or
   inherited from the tables they hold. Stated over an abstraction ("views") of the actor list. *)
From Coq Require Import Arith PeanoNat.
From SV Require Import DB.Model DB.Proofs DB.Invariants DB.Visibility DB.Channels.
Open Scope nat_scope.

(* a committing transaction between apply_writes and its root store *)
Definition pending (a : actor) : bool := match a_pc a with PCommitIdx | PRootLocked | PCommitLoaded => true | _ => false end.

Record pv := mkPV { p_locks : list nat; p_writes : list nat; p_ents : list tver; p_nt : list N }.

Definition pview (a : actor) : option pv :=
  if pending a then Some (mkPV (a_locks a) (writes_of a) (a_entries a) (a_notify a)) else None.

(* channels the transaction still has to close, after its root store *)
Definition retired (a : actor) : list N :=
  match a_pc a with
  | PRootStored | PRootUnlocked => a_notify a ++ a_initclose a
  | PNotified | PTabsUnlocked => a_initclose a
  | _ => []
  end.

Definition view : Type := option pv * list N.
Definition wview (a : actor) : view := (pview a, retired a).

Definition pch (p : pv) (w : N) : Prop :=
  exists t e, In t (p_locks p) /\ nth_error (p_ents p) t = Some e /\ In w (chans e).
Definition rch (root : list tver) (w : N) : Prop :=
  exists t v, nth_error root t = Some v /\ In w (chans v).
Definition pall (p : pv) (w : N) : Prop := pch p w \/ In w (p_nt p).

Record pend_ok (root : list tver) (closed : list N) (vs : list view) (p : pv) : Prop := mkPO {
  po_inj : chinj (fun t => In t (p_locks p)) (p_ents p);
  po_own : forall w, pall p w -> forall t v, nth_error root t = Some v -> In w (chans v) -> In t (p_locks p);
  po_nt : forall w, In w (p_nt p) -> ~ pch p w;
  po_open : forall w, pch p w -> ~ In w closed;
  po_ret : forall k q ret, nth_error vs k = Some (q, ret) -> forall w, In w ret -> ~ pch p w;
  po_rel : forall t, In t (p_locks p) ->
             exists v e, nth_error root t = Some v /\ nth_error (p_ents p) t = Some e /\
                         (~ In t (p_writes p) -> tv_watch e = tv_watch v) /\ Rinit t v e
}.

Record WI (root : list tver) (closed : list N) (nextw : N) (vs : list view) : Prop := mkWI {
  wi_broot : forall w, rch root w -> (w < nextw)%N;
  wi_bclosed : forall w, In w closed -> (w < nextw)%N;
  wi_bpend : forall j p ret, nth_error vs j = Some (Some p, ret) -> forall w, pall p w -> (w < nextw)%N;
  wi_bret : forall j q ret, nth_error vs j = Some (q, ret) -> forall w, In w ret -> (w < nextw)%N;
  wi_inj : chinj (fun _ => True) root;
  wi_open : forall w, In w closed -> ~ rch root w;
  wi_ret : forall j q ret, nth_error vs j = Some (q, ret) -> forall w, In w ret -> ~ rch root w;
  wi_pend : forall j p ret, nth_error vs j = Some (Some p, ret) -> pend_ok root closed vs p;
  wi_pair : forall j k p q r1 r2, j <> k ->
              nth_error vs j = Some (Some p, r1) -> nth_error vs k = Some (Some q, r2) ->
              (forall w, pch p w -> ~ pall q w) /\ (forall t, In t (p_locks p) -> ~ In t (p_locks q))
}.

Definition WInv (s : st) : Prop := WI (s_root s) (s_closed s) (s_nextw s) (map wview (s_actors s)).

Lemma upd_cases {A} (vs : list A) i x j y : nth_error (upd i (fun _ => x) vs) j = Some y ->
  (j = i /\ y = x) \/ (j <> i /\ nth_error vs j = Some y).
Proof.
  rewrite nth_error_upd. destruct (Nat.eqb_spec i j) as [->|Hne].
  - destruct (nth_error vs j); cbn [option_map]; [|discriminate]. intros E. injection E as <-. auto.
  - intros E. right. split; [congruence|exact E].
Qed.

(* ---------- nextw only grows ---------- *)
Lemma WI_nextw root closed nw nw' vs : WI root closed nw vs -> (nw <= nw')%N -> WI root closed nw' vs.
Proof.
  intros [H1 H2 H3 H4 H5 H6 H7 H8 H9] Hle. constructor; auto.
  - intros w Hw. specialize (H1 w Hw). lia.
  - intros w Hw. specialize (H2 w Hw). lia.
  - intros j p ret Hj w Hw. specialize (H3 j p ret Hj w Hw). lia.
  - intros j q ret Hj w Hw. specialize (H4 j q ret Hj w Hw). lia.
Qed.

(* ---------- closing some of the retired channels of actor i ---------- *)
Lemma WI_close root closed nw vs i ret cl ret' :
  WI root closed nw vs -> nth_error vs i = Some (None, ret) -> incl cl ret -> incl ret' ret ->
  WI root (cl ++ closed) nw (upd i (fun _ => (None, ret')) vs).
Proof.
  intros [H1 H2 H3 H4 H5 H6 H7 H8 H9] Hi Hcl Hret'. constructor; auto.
  - intros w Hw. apply in_app_or in Hw. destruct Hw as [Hw|Hw]; [|auto]. apply (H4 i None ret Hi w). auto.
  - intros j p r Hj w Hw. destruct (upd_cases _ _ _ _ _ Hj) as [[-> E]|[Hne Hj']]; [discriminate|]. eapply H3; eauto.
  - intros j q r Hj w Hw. destruct (upd_cases _ _ _ _ _ Hj) as [[-> E]|[Hne Hj']].
    + injection E as -> ->. apply (H4 i None ret Hi w). auto.
    + eapply H4; eauto.
  - intros w Hw. apply in_app_or in Hw. destruct Hw as [Hw|Hw]; [|auto]. apply (H7 i None ret Hi w). auto.
  - intros j q r Hj w Hw. destruct (upd_cases _ _ _ _ _ Hj) as [[-> E]|[Hne Hj']].
    + injection E as -> ->. apply (H7 i None ret Hi w). auto.
    + eapply H7; eauto.
  - intros j p r Hj. destruct (upd_cases _ _ _ _ _ Hj) as [[-> E]|[Hne Hj']]; [discriminate|].
    destruct (H8 j p r Hj') as [P1 P2 P3 P4 P5 P6]. constructor; auto.
    + intros w Hw Hin. apply in_app_or in Hin. destruct Hin as [Hin|Hin]; [|apply (P4 w Hw Hin)].
      apply (P5 i None ret Hi w (Hcl w Hin) Hw).
    + intros k q r0 Hk w Hw. destruct (upd_cases _ _ _ _ _ Hk) as [[-> E]|[Hnk Hk']].
      * injection E as -> ->. apply (P5 i None ret Hi w). auto.
      * eapply P5; eauto.
  - intros j k p q r1 r2 Hjk Hj Hk.
    destruct (upd_cases _ _ _ _ _ Hj) as [[-> E]|[Hne Hj']]; [discriminate|].
    destruct (upd_cases _ _ _ _ _ Hk) as [[-> E]|[Hnk Hk']]; [discriminate|].
    apply (H9 j k p q r1 r2 Hjk Hj' Hk').
Qed.

(* ---------- table registration: a fresh entry is appended ---------- *)
Lemma rch_app root v w : rch (root ++ [v]) w <-> rch root w \/ In w (chans v).
Proof.
  unfold rch. split.
  - intros (t&v1&Hv&Hw). destruct (Nat.lt_ge_cases t (length root)) as [Hlt|Hge].
    + rewrite nth_error_app1 in Hv by exact Hlt. left. eauto.
    + rewrite nth_error_app2 in Hv by exact Hge. right.
      destruct (t - length root) as [|m]; cbn [nth_error] in Hv; [injection Hv as <-; exact Hw|destruct m; discriminate].
  - intros [(t&v1&Hv&Hw)|Hw].
    + exists t, v1. split; [|exact Hw]. rewrite nth_error_app1; [exact Hv|]. apply nth_error_Some. congruence.
    + exists (length root), v. split; [|exact Hw]. rewrite nth_error_app2 by lia. rewrite Nat.sub_diag. reflexivity.
Qed.

Lemma nth_error_app_last {A} (l : list A) x t y : nth_error (l ++ [x]) t = Some y ->
  (t < length l /\ nth_error l t = Some y) \/ (t = length l /\ y = x).
Proof.
  intros H. destruct (Nat.lt_ge_cases t (length l)) as [Hlt|Hge].
  - rewrite nth_error_app1 in H by exact Hlt. auto.
  - rewrite nth_error_app2 in H by exact Hge. right.
    destruct (t - length l) as [|m] eqn:E; cbn [nth_error] in H; [|destruct m; discriminate].
    injection H as <-. split; [lia|reflexivity].
Qed.

Lemma WI_reg root closed nw vs :
  WI root closed nw vs ->
  (forall j p ret, nth_error vs j = Some (Some p, ret) -> forall t, In t (p_locks p) -> t < length root) ->
  WI (root ++ [mkV [] nw None]) closed (nw + 1)%N vs.
Proof.
  intros HW Hlt. pose proof (WI_nextw _ _ _ (nw + 1)%N _ HW ltac:(lia)) as [H1 H2 H3 H4 _ _ _ _ _].
  destruct HW as [B1 B2 B3 B4 [I1 I2] H6 H7 H8 H9].
  assert (Hch : forall w, In w (chans (mkV [] nw None)) -> w = nw).
  { unfold chans, initw. cbn [tv_watch tv_init]. intros w [<-|[]]. reflexivity. }
  constructor; auto.
  - intros w Hw. apply rch_app in Hw. destruct Hw as [Hw|Hw]; [auto|]. apply Hch in Hw. lia.
  - split.
    + intros t1 t2 v1 v2 w _ _ Hv1 Hv2 Hw1 Hw2.
      destruct (nth_error_app_last _ _ _ _ Hv1) as [[L1 E1]|[L1 ->]];
        destruct (nth_error_app_last _ _ _ _ Hv2) as [[L2 E2]|[L2 ->]].
      * apply (I1 t1 t2 v1 v2 w I I E1 E2 Hw1 Hw2).
      * apply Hch in Hw2. subst w. assert (nw < nw)%N by (apply B1; exists t1, v1; auto). lia.
      * apply Hch in Hw1. subst w. assert (nw < nw)%N by (apply B1; exists t2, v2; auto). lia.
      * lia.
    + intros t v _ Hv. destruct (nth_error_app_last _ _ _ _ Hv) as [[L1 E1]|[L1 ->]]; [apply (I2 t v I E1)|].
      unfold chans, initw. cbn [tv_watch tv_init]. repeat constructor. intros [].
  - intros w Hw Hr. apply rch_app in Hr. destruct Hr as [Hr|Hr]; [apply (H6 w Hw Hr)|].
    apply Hch in Hr. subst w. specialize (B2 nw Hw). lia.
  - intros j q ret Hj w Hw Hr. apply rch_app in Hr. destruct Hr as [Hr|Hr]; [apply (H7 j q ret Hj w Hw Hr)|].
    apply Hch in Hr. subst w. specialize (B4 j q ret Hj nw Hw). lia.
  - intros j p ret Hj. destruct (H8 j p ret Hj) as [P1 P2 P3 P4 P5 P6]. constructor; auto.
    + intros w Hw t v Hv Hc. destruct (nth_error_app_last _ _ _ _ Hv) as [[L1 E1]|[L1 ->]]; [apply (P2 w Hw t v E1 Hc)|].
      apply Hch in Hc. subst w. specialize (B3 j p ret Hj nw Hw). lia.
    + intros t Ht. destruct (P6 t Ht) as (v&e&Hv&He&Hr). exists v, e. split; [|auto].
      rewrite nth_error_app1; [exact Hv|]. apply (Hlt j p ret Hj t Ht).
Qed.

(* ---------- the root store of the pending transaction i ---------- *)
Lemma WI_store root closed nw vs i p ret0 r closing :
  WI root closed nw vs -> nth_error vs i = Some (Some p, ret0) ->
  (forall t, nth_error r t = match nth_error root t with
                             | None => None
                             | Some c => match nth_error (p_ents p) t with
                                         | Some e => if memb t (p_locks p) then Some (clear_init e) else Some c
                                         | None => Some c end end) ->
  (forall w, In w closing ->
     exists t e, In t (p_locks p) /\ nth_error (p_ents p) t = Some e /\ tv_init e = Some (w, [])) ->
  WI r closed nw (upd i (fun _ => (None, p_nt p ++ closing)) vs).
Proof.
  intros [H1 H2 H3 H4 [I1 I2] H6 H7 H8 H9] Hi Hr Hclosing.
  destruct (H8 i p ret0 Hi) as [[Pinj Pnd] P2 P3 P4 P5 P6].
  assert (Fent : forall t v, nth_error r t = Some v ->
            (In t (p_locks p) /\ exists e, nth_error (p_ents p) t = Some e /\ v = clear_init e) \/
            (~ In t (p_locks p) /\ nth_error root t = Some v)).
  { intros t v Hv. rewrite Hr in Hv. destruct (in_dec Nat.eq_dec t (p_locks p)) as [Ht|Ht].
    - left. split; [exact Ht|]. destruct (P6 t Ht) as (v0&e&Hv0&He&_). rewrite Hv0, He in Hv.
      apply memb_In in Ht. rewrite Ht in Hv. injection Hv as <-. eauto.
    - right. split; [exact Ht|]. apply memb_false in Ht. rewrite Ht in Hv.
      destruct (nth_error root t) as [c|]; [|discriminate]. destruct (nth_error (p_ents p) t); exact Hv. }
  assert (Fout : forall t, ~ In t (p_locks p) -> nth_error r t = nth_error root t).
  { intros t Ht. rewrite Hr. apply memb_false in Ht. rewrite Ht.
    destruct (nth_error root t) as [c|]; [|reflexivity]. destruct (nth_error (p_ents p) t); reflexivity. }
  assert (Frch : forall w, rch r w ->
            (exists t v, ~ In t (p_locks p) /\ nth_error root t = Some v /\ In w (chans v)) \/ pch p w).
  { intros w (t&v&Hv&Hw). destruct (Fent t v Hv) as [[Ht (e&He&->)]|[Ht Hv']].
    - right. exists t, e. split; [exact Ht|]. split; [exact He|]. apply chans_clear_init. exact Hw.
    - left. exists t, v. auto. }
  assert (Hpall : forall w, pch p w -> pall p w) by (intros w Hw; left; exact Hw).
  assert (Hclpch : forall w, In w closing -> pch p w).
  { intros w Hw. destruct (Hclosing w Hw) as (t&e&Ht&He&Hin). exists t, e. split; [exact Ht|]. split; [exact He|].
    unfold chans, initw. rewrite Hin. right. left. reflexivity. }
  constructor; auto.
  - (* bound of the new root *)
    intros w Hw. destruct (Frch w Hw) as [(t&v&_&Hv&Hc)|Hp]; [apply H1; exists t, v; auto|].
    apply (H3 i p ret0 Hi w). left. exact Hp.
  - intros j q ret Hj w Hw. destruct (upd_cases _ _ _ _ _ Hj) as [[-> E]|[Hne Hj']]; [discriminate|]. eapply H3; eauto.
  - intros j q ret Hj w Hw. destruct (upd_cases _ _ _ _ _ Hj) as [[-> E]|[Hne Hj']]; [|eapply H4; eauto].
    injection E as -> ->. apply in_app_or in Hw. destruct Hw as [Hw|Hw].
    + apply (H3 i p ret0 Hi w). right. exact Hw.
    + apply (H3 i p ret0 Hi w). left. apply Hclpch. exact Hw.
  - (* the new root's channels are pairwise distinct *)
    split.
    + intros t1 t2 v1 v2 w _ _ Hv1 Hv2 Hw1 Hw2.
      destruct (Fent t1 v1 Hv1) as [[Ht1 (e1&He1&->)]|[Ht1 Hv1']];
        destruct (Fent t2 v2 Hv2) as [[Ht2 (e2&He2&->)]|[Ht2 Hv2']].
      * apply (Pinj t1 t2 e1 e2 w Ht1 Ht2 He1 He2); apply chans_clear_init; assumption.
      * exfalso. apply Ht2. apply (P2 w) with (v := v2); auto. left. exists t1, e1. split; [exact Ht1|].
        split; [exact He1|]. apply chans_clear_init. exact Hw1.
      * exfalso. apply Ht1. apply (P2 w) with (v := v1); auto. left. exists t2, e2. split; [exact Ht2|].
        split; [exact He2|]. apply chans_clear_init. exact Hw2.
      * apply (I1 t1 t2 v1 v2 w I I Hv1' Hv2' Hw1 Hw2).
    + intros t v _ Hv. destruct (Fent t v Hv) as [[Ht (e&He&->)]|[Ht Hv']].
      * apply NoDup_chans_clear_init. apply (Pnd t e Ht He).
      * apply (I2 t v I Hv').
  - (* closed channels are not handed out by the new root *)
    intros w Hw Hr'. destruct (Frch w Hr') as [(t&v&_&Hv&Hc)|Hp].
    + apply (H6 w Hw). exists t, v. auto.
    + apply (P4 w Hp Hw).
  - (* retired channels are not handed out by the new root *)
    intros j q ret Hj w Hw Hr'. destruct (upd_cases _ _ _ _ _ Hj) as [[-> E]|[Hne Hj']].
    + injection E as -> ->. apply in_app_or in Hw. destruct Hw as [Hw|Hw].
      * destruct (Frch w Hr') as [(t&v&Ht&Hv&Hc)|Hp]; [|apply (P3 w Hw Hp)].
        apply Ht. apply (P2 w) with (v := v); auto. right. exact Hw.
      * destruct (Hclosing w Hw) as (t&e&Ht&He&Hin).
        destruct Hr' as (t2&v2&Hv2&Hw2). destruct (Fent t2 v2 Hv2) as [[Ht2 (e2&He2&->)]|[Ht2 Hv2']].
        -- assert (Hwe : In w (chans e)) by (unfold chans, initw; rewrite Hin; right; left; reflexivity).
           assert (t2 = t) by (apply (Pinj t2 t e2 e w Ht2 Ht He2 He); [apply chans_clear_init; exact Hw2|exact Hwe]).
           subst t2. rewrite He in He2. injection He2 as <-.
           pose proof (Pnd t e Ht He) as Hnd. unfold clear_init in Hw2. rewrite Hin in Hw2.
           unfold chans, initw in Hw2, Hnd. cbn [tv_watch tv_init] in Hw2. rewrite Hin in Hnd.
           destruct Hw2 as [E|[]]. apply NoDup_cons_iff in Hnd. destruct Hnd as [Hnot _]. apply Hnot. left. symmetry. exact E.
        -- apply Ht2. apply (P2 w) with (v := v2); auto.
    + destruct (Frch w Hr') as [(t&v&_&Hv&Hc)|Hp].
      * apply (H7 j q ret Hj' w Hw). exists t, v. auto.
      * apply (P5 j q ret Hj' w Hw Hp).
  - (* the other pending transactions *)
    intros j q ret Hj. destruct (upd_cases _ _ _ _ _ Hj) as [[-> E]|[Hne Hj']]; [discriminate|].
    destruct (H8 j q ret Hj') as [Q1 Q2 Q3 Q4 Q5 Q6].
    destruct (H9 j i q p ret ret0 Hne Hj' Hi) as [Hji Hdis].
    constructor; auto.
    + intros w Hw t v Hv Hc. destruct (Fent t v Hv) as [[Ht (e&He&->)]|[Ht Hv']]; [|apply (Q2 w Hw t v Hv' Hc)].
      exfalso. destruct (H9 i j p q ret0 ret (not_eq_sym Hne) Hi Hj') as [Hij _].
      apply (Hij w); [|exact Hw]. exists t, e. split; [exact Ht|]. split; [exact He|]. apply chans_clear_init. exact Hc.
    + intros k q0 r0 Hk w Hw Hp. destruct (upd_cases _ _ _ _ _ Hk) as [[-> E]|[Hnk Hk']]; [|apply (Q5 k q0 r0 Hk' w Hw Hp)].
      injection E as -> ->. apply (Hji w Hp). apply in_app_or in Hw. destruct Hw as [Hw|Hw]; [right; exact Hw|].
      left. apply Hclpch. exact Hw.
    + intros t Ht. destruct (Q6 t Ht) as (v&e&Hv&He&Hrel). exists v, e. split; [|auto].
      rewrite Fout; [exact Hv|]. intros Hin. apply (Hdis t Ht Hin).
  - intros j k q1 q2 r1 r2 Hjk Hj Hk.
    destruct (upd_cases _ _ _ _ _ Hj) as [[-> E]|[Hne Hj']]; [discriminate|].
    destruct (upd_cases _ _ _ _ _ Hk) as [[-> E]|[Hnk Hk']]; [discriminate|].
    apply (H9 j k q1 q2 r1 r2 Hjk Hj' Hk').
Qed.

(* ---------- apply_writes: actor i becomes pending ---------- *)
Lemma WI_write root closed nw vs i ret0 locks ws es0 es' nt' nw1 :
  WI root closed nw vs -> nth_error vs i = Some (None, ret0) ->
  G (fun t => In t locks) es0 nw es' nt' nw1 ->
  (forall t, In t locks -> exists v, nth_error root t = Some v /\ nth_error es0 t = Some v) ->
  pw (Rkept ws) es0 es' ->
  (forall k q r, k <> i -> nth_error vs k = Some (Some q, r) -> forall t, In t locks -> ~ In t (p_locks q)) ->
  WI root closed nw1 (upd i (fun _ => (Some (mkPV locks ws es' nt'), ret0)) vs).
Proof.
  intros HW Hi HG Heq Hkept Hdisj.
  pose proof (g_le _ _ _ _ _ _ HG) as Hle.
  pose proof (WI_nextw _ _ _ nw1 _ HW Hle) as [M1 M2 M3 M4 _ _ _ _ _].
  destruct HW as [H1 H2 H3 H4 [I1 I2] H6 H7 H8 H9].
  set (p := mkPV locks ws es' nt').
  (* where the channels of the new pending view come from *)
  assert (Hsrc : forall w, pall p w ->
            (nw <= w)%N \/ exists t v, In t locks /\ nth_error root t = Some v /\ In w (chans v)).
  { intros w [(t&e&Ht&He&Hw)|Hw]; unfold p in *; cbn [p_locks p_ents p_nt] in *.
    - destruct (g_src _ _ _ _ _ _ HG t e w Ht He Hw) as [Hf|(v0&Hv0&Hw0)]; [left; exact Hf|].
      right. destruct (Heq t Ht) as (v&Hv&Hv'). rewrite Hv' in Hv0. injection Hv0 as <-. exists t, v. auto.
    - destruct (g_nt _ _ _ _ _ _ HG w Hw) as [[Hf|(t&v0&Ht&Hv0&Hw0)] _]; [left; exact Hf|].
      right. destruct (Heq t Ht) as (v&Hv&Hv'). rewrite Hv' in Hv0. injection Hv0 as <-. exists t, v. auto. }
  assert (Hrlt : forall w, rch root w -> ~ (nw <= w)%N).
  { intros w Hw Hge. specialize (H1 w Hw). lia. }
  assert (POi : pend_ok root closed (upd i (fun _ => (Some p, ret0)) vs) p).
  { constructor; unfold p; cbn [p_locks p_ents p_nt p_writes].
    - apply (g_inj _ _ _ _ _ _ HG).
    - intros w Hw t v Hv Hc. destruct (Hsrc w Hw) as [Hf|(t0&v0&Ht0&Hv0&Hw0)].
      + exfalso. apply (Hrlt w); [exists t, v; auto|exact Hf].
      + assert (t = t0) by (apply (I1 t t0 v v0 w I I Hv Hv0 Hc Hw0)). subst t. exact Ht0.
    - intros w Hw (t&e&Ht&He&Hc). unfold p in *; cbn [p_locks p_ents] in *.
      destruct (g_nt _ _ _ _ _ _ HG w Hw) as [_ Hno]. apply (Hno t e Ht He Hc).
    - intros w Hw Hc. destruct (Hsrc w (or_introl Hw)) as [Hf|(t0&v0&Ht0&Hv0&Hw0)].
      + specialize (H2 w Hc). lia.
      + apply (H6 w Hc). exists t0, v0. auto.
    - intros k q r Hk w Hw Hp. destruct (upd_cases _ _ _ _ _ Hk) as [[-> E]|[Hnk Hk']].
      + injection E as -> ->. destruct (Hsrc w (or_introl Hp)) as [Hf|(t0&v0&Ht0&Hv0&Hw0)].
        * specialize (H4 i None ret0 Hi w Hw). lia.
        * apply (H7 i None ret0 Hi w Hw). exists t0, v0. auto.
      + destruct (Hsrc w (or_introl Hp)) as [Hf|(t0&v0&Ht0&Hv0&Hw0)].
        * specialize (H4 k q r Hk' w Hw). lia.
        * apply (H7 k q r Hk' w Hw). exists t0, v0. auto.
    - intros t Ht. destruct (Heq t Ht) as (v&Hv&Hv'). specialize (Hkept t). rewrite Hv' in Hkept.
      destruct Hkept as (e&He&Hr1&Hr2). exists v, e. auto. }
  constructor; auto.
  - intros j q ret Hj w Hw. destruct (upd_cases _ _ _ _ _ Hj) as [[-> E]|[Hne Hj']]; [|eapply M3; eauto].
    injection E as -> ->. destruct Hw as [(t&e&Ht&He&Hw)|Hw]; cbn [p_locks p_ents p_nt] in *.
    + apply (g_bound _ _ _ _ _ _ HG t e w Ht He Hw).
    + apply (g_ntbound _ _ _ _ _ _ HG w Hw).
  - intros j q ret Hj w Hw. destruct (upd_cases _ _ _ _ _ Hj) as [[-> E]|[Hne Hj']]; [|eapply M4; eauto].
    injection E as -> ->. apply (M4 i None ret0 Hi w Hw).
  - split; assumption.
  - intros j q ret Hj w Hw. destruct (upd_cases _ _ _ _ _ Hj) as [[-> E]|[Hne Hj']]; [|eapply H7; eauto].
    injection E as -> ->. apply (H7 i None ret0 Hi w Hw).
  - intros j q ret Hj. destruct (upd_cases _ _ _ _ _ Hj) as [[-> E]|[Hne Hj']].
    + injection E as -> ->. exact POi.
    + destruct (H8 j q ret Hj') as [Q1 Q2 Q3 Q4 Q5 Q6]. constructor; auto.
      intros k q0 r0 Hk w Hw Hp. destruct (upd_cases _ _ _ _ _ Hk) as [[-> E]|[Hnk Hk']]; [|apply (Q5 k q0 r0 Hk' w Hw Hp)].
      injection E as -> ->. apply (Q5 i None ret0 Hi w Hw Hp).
  - intros j k q1 q2 r1 r2 Hjk Hj Hk.
    destruct (upd_cases _ _ _ _ _ Hj) as [[-> E1]|[Hne Hj']]; destruct (upd_cases _ _ _ _ _ Hk) as [[-> E2]|[Hnk Hk']].
    + contradiction.
    + injection E1 as -> ->. split.
      * intros w Hp Hq. destruct (Hsrc w (or_introl Hp)) as [Hf|(t0&v0&Ht0&Hv0&Hw0)].
        -- specialize (H3 k q2 r2 Hk' w Hq). lia.
        -- destruct (H8 k q2 r2 Hk') as [_ Q2 _ _ _ _].
           apply (Hdisj k q2 r2 Hnk Hk' t0 Ht0). apply (Q2 w Hq t0 v0 Hv0 Hw0).
      * intros t Ht. unfold p in Ht; cbn [p_locks] in Ht. apply (Hdisj k q2 r2 Hnk Hk' t Ht).
    + injection E2 as -> ->. split.
      * intros w Hq Hp. destruct (Hsrc w Hp) as [Hf|(t0&v0&Ht0&Hv0&Hw0)].
        -- specialize (H3 j q1 r1 Hj' w (or_introl Hq)). lia.
        -- destruct (H8 j q1 r1 Hj') as [_ Q2 _ _ _ _].
           apply (Hdisj j q1 r1 Hne Hj' t0 Ht0). apply (Q2 w (or_introl Hq) t0 v0 Hv0 Hw0).
      * intros t Ht Hin. unfold p in Hin; cbn [p_locks] in Hin. apply (Hdisj j q1 r1 Hne Hj' t Hin Ht).
    + apply (H9 j k q1 q2 r1 r2 Hjk Hj' Hk').
Qed.

(* ---------- WInv is preserved by every step ---------- *)
Lemma map_upd {A B} (f : A -> B) x : forall i (l : list A),
  map f (upd i (fun _ => x) l) = upd i (fun _ => f x) (map f l).
Proof. induction i as [|i IH]; intros [|y r]; cbn [upd map]; try reflexivity. f_equal. apply IH. Qed.

Lemma view_actor acts j q r : nth_error (map wview acts) j = Some (Some q, r) ->
  exists b, nth_error acts j = Some b /\ pending b = true /\
            q = mkPV (a_locks b) (writes_of b) (a_entries b) (a_notify b) /\ r = retired b.
Proof.
  rewrite nth_error_map. destruct (nth_error acts j) as [b|]; cbn [option_map]; [|discriminate].
  unfold wview, pview. destruct (pending b) eqn:Hp; [|discriminate].
  intros E. injection E as <- <-. exists b. auto.
Qed.

Lemma pending_held a : pending a = true -> held a = a_locks a.
Proof. unfold pending, held. destruct (a_pc a); try discriminate; reflexivity. Qed.

Lemma F1_nw tid : forall ws es nt nw es' nt' nw', fold_left (F1 tid) ws (es, nt, nw) = (es', nt', nw') -> (nw <= nw')%N.
Proof.
  induction ws as [|t ws IH]; intros es nt nw es' nt' nw' H; cbn [fold_left] in H.
  - injection H as _ _ <-. lia.
  - cbn [F1] in H. destruct (nth_error es t); [|eapply IH; eauto]. apply IH in H. lia.
Qed.

Lemma F2_nw : forall rg es nw es' nw', fold_left F2 rg (es, nw) = (es', nw') -> (nw <= nw')%N.
Proof.
  induction rg as [|[t name] rg IH]; intros es nw es' nw' H; cbn [fold_left] in H.
  - injection H as _ <-. lia.
  - cbn [F2] in H. destruct (nth_error es t) as [v|]; [|eapply IH; eauto].
    destruct (tv_init v) as [[w p]|]; apply IH in H; lia.
Qed.

Lemma apply_writes_nw tid ws rg dn nextw es es' nt nw :
  apply_writes tid ws rg dn nextw es = (es', nt, nw) -> (nextw <= nw)%N.
Proof.
  rewrite apply_writes_unfold.
  destruct (fold_left (F1 tid) ws (es, [], nextw)) as [[es1 nt1] nw1] eqn:E1.
  destruct (fold_left F2 rg (es1, nw1)) as [es2 nw2] eqn:E2.
  intros H. injection H as _ _ <-. apply F1_nw in E1. apply F2_nw in E2. lia.
Qed.

Lemma kind_sub_locks ntab a tabs wr c rg dn : actor_ok ntab a -> a_pc a <> PStart ->
  a_kind a = KWriter tabs wr c rg dn ->
  (forall t, In t wr -> In t (a_locks a)) /\ (forall tn, In tn rg -> In (fst tn) (a_locks a)) /\
  (forall tn, In tn dn -> In (fst tn) (a_locks a)).
Proof.
  intros [Hw _ Hl _] Hp Hk. unfold locks_ok in Hl. rewrite Hk in Hw, Hl. destruct Hw as (_&Hs&Hr&Hd).
  assert (E : a_locks a = lock_order tabs) by (rewrite Hl; destruct (a_pc a); try reflexivity; elim Hp; reflexivity).
  rewrite E. repeat split; intros x Hx; apply lock_order_same_set; auto.
Qed.

Theorem WInv_step ntab s i : Inv ntab s -> VInv s -> WInv s -> WInv (step s i).
Proof.
  intros HI HV HW. destruct (enabled s i) eqn:He; [|rewrite step_disabled; assumption].
  destruct (Inv_step_spec _ _ _ HI He) as (a&a'&r&tl&rl&cl&nw&Ha&HS&E). rewrite E. clear E.
  pose proof (inv_ok _ _ HI _ _ Ha) as Hok.
  destruct (inv_len _ _ HI) as [Hlen Hnt].
  unfold WInv in *. unfold post. cbn [s_root s_closed s_nextw s_actors].
  assert (Hview : nth_error (map wview (s_actors s)) i = Some (wview a)) by (apply map_nth_error; exact Ha).
  assert (Hframe : wview a' = wview a -> map wview (upd i (fun _ => a') (s_actors s)) = map wview (s_actors s)).
  { intros Hv. apply (map_upd_same wview i (s_actors s) a a' Ha Hv). }
  inversion HS; subst;
    try (rewrite Hframe; [exact HW|];
         unfold wview, pview, pending, retired, writes_of; step_simpl;
         match goal with Hpc : a_pc a = _ |- _ => rewrite Hpc end; reflexivity).
  - (* PBeforeLock *)
    rewrite Hframe; [exact HW|]. unfold wview, pview, pending, retired, writes_of; step_simpl. rewrite H0.
    destruct (a_locks a); reflexivity.
  - (* PLocked *)
    rewrite Hframe; [exact HW|]. unfold wview, pview, pending, retired, writes_of; step_simpl. rewrite H0.
    destruct (Nat.ltb (S k) (length (a_locks a))); reflexivity.
  - (* apply_writes of a committing transaction *)
    rewrite map_upd.
    assert (Hva : wview a = (None, [])) by (unfold wview, pview, pending, retired; rewrite H0; reflexivity).
    rewrite Hva in Hview.
    assert (Hva' : wview (mkA (a_id a) (a_kind a) PCommitIdx (a_locks a) es nt [] (a_cur a)) =
                   (Some (mkPV (a_locks a) wr es nt), [])).
    { unfold wview, pview, pending, retired, writes_of. step_simpl. rewrite H. reflexivity. }
    rewrite Hva'.
    assert (Hne : a_pc a <> PStart) by (rewrite H0; discriminate).
    destruct (kind_sub_locks ntab a _ _ _ _ _ Hok Hne H) as (Hws&Hrg&Hdn).
    pose proof (v_ents _ HV i a Ha) as Hents. unfold ents_ok in Hents. rewrite H0 in Hents.
    assert (Heq : forall t, In t (a_locks a) ->
              exists v, nth_error (s_root s) t = Some v /\ nth_error (a_entries a) t = Some v).
    { intros t Ht. assert (t < ntab) by (eapply actor_ok_lt; eauto).
      destruct (nth_error (s_root s) t) as [v|] eqn:Hv; [|apply nth_error_None in Hv; lia].
      exists v. split; [reflexivity|]. rewrite (Hents t Ht). exact Hv. }
    destruct (wi_inj _ _ _ _ HW) as [I1 I2].
    apply (WI_write _ _ _ _ i [] (a_locks a) wr (a_entries a) es nt nw HW Hview).
    + apply (apply_writes_G (fun t => In t (a_locks a)) (a_entries a) (s_nextw s) (a_id a) wr rg dn es nt nw); auto.
      * split.
        -- intros t1 t2 v1 v2 w D1 D2 E1 E2 W1 W2. rewrite (Hents t1 D1) in E1. rewrite (Hents t2 D2) in E2.
           apply (I1 t1 t2 v1 v2 w I I E1 E2 W1 W2).
        -- intros t v D1 E1. rewrite (Hents t D1) in E1. apply (I2 t v I E1).
      * intros t v w D1 E1 W1. rewrite (Hents t D1) in E1. apply (wi_broot _ _ _ _ HW). exists t, v. auto.
    + exact Heq.
    + apply (apply_writes_kept _ _ _ _ _ _ _ _ _ H1).
    + intros k q r0 Hk Hvk t Ht Htq. destruct (view_actor _ _ _ _ Hvk) as (b&Hb&Hpb&->&_). cbn [p_locks] in Htq.
      apply Hk. apply (mutual_exclusion ntab s k i b a t HI Hb Ha).
      * rewrite (pending_held b Hpb). exact Htq.
      * unfold held. rewrite H0. exact Ht.
  - (* apply_writes of an aborting transaction: only the channel counter moves *)
    rewrite Hframe.
    + apply (WI_nextw _ _ _ nw _ HW). apply (apply_writes_nw _ _ _ _ _ _ _ _ _ H1).
    + unfold wview, pview, pending, retired, writes_of; step_simpl. rewrite H0. reflexivity.
  - (* root store *)
    rewrite map_upd.
    assert (Hva : wview a = (Some (mkPV (a_locks a) (writes_of a) (a_entries a) (a_notify a)), [])).
    { unfold wview, pview, pending, retired. rewrite H0. reflexivity. }
    rewrite Hva in Hview.
    assert (Hva' : wview (mkA (a_id a) (a_kind a) PRootStored (a_locks a) r (a_notify a) closing (a_cur a)) =
                   (None, a_notify a ++ closing)).
    { unfold wview, pview, pending, retired. step_simpl. reflexivity. }
    rewrite Hva'.
    apply (WI_store _ _ _ _ i (mkPV (a_locks a) (writes_of a) (a_entries a) (a_notify a)) [] r closing HW Hview);
      cbn [p_locks p_ents p_nt].
    + intros t. pose proof (merge_root_nth (s_root s) (a_locks a) (a_entries a) 0 t) as Hn.
      rewrite H1 in Hn. cbn [fst] in Hn. exact Hn.
    + intros w Hw. pose proof (merge_root_closing (s_root s) (a_locks a) (a_entries a) 0 w) as Hc.
      rewrite H1 in Hc. cbn [snd] in Hc. destruct (Hc Hw) as (p&e&Hp&Hm&Hi&_).
      exists p, e. cbn [Nat.add] in Hm. apply memb_In in Hm. auto.
  - (* notify *)
    rewrite map_upd.
    assert (Hva : wview a = (None, a_notify a ++ a_initclose a)).
    { unfold wview, pview, pending, retired. rewrite H0. reflexivity. }
    rewrite Hva in Hview.
    assert (Hva' : wview (set_pc a PNotified) = (None, a_initclose a)).
    { unfold wview, pview, pending, retired. step_simpl. reflexivity. }
    rewrite Hva'.
    apply (WI_close _ _ _ _ i (a_notify a ++ a_initclose a) (a_notify a) (a_initclose a) HW Hview).
    + apply incl_appl. apply incl_refl.
    + apply incl_appr. apply incl_refl.
  - (* init close *)
    rewrite map_upd.
    assert (Hva : wview a = (None, a_initclose a)).
    { unfold wview, pview, pending, retired. rewrite H0. reflexivity. }
    rewrite Hva in Hview.
    assert (Hva' : wview (set_pc a PInitClosed) = (None, [])).
    { unfold wview, pview, pending, retired. step_simpl. reflexivity. }
    rewrite Hva'.
    apply (WI_close _ _ _ _ i (a_initclose a) (a_initclose a) [] HW Hview).
    + apply incl_refl.
    + intros x [].
  - (* registrar store *)
    rewrite Hframe.
    + apply (WI_reg _ _ _ _ HW). intros j p ret Hj t Ht.
      destruct (view_actor _ _ _ _ Hj) as (b&Hb&Hpb&->&_). cbn [p_locks] in Ht.
      assert (t < ntab) by (eapply actor_ok_lt; [eapply inv_ok; eauto|exact Ht]). lia.
    + unfold wview, pview, pending, retired, writes_of; step_simpl. rewrite H0. reflexivity.
Qed.

Lemma nth_error_seq_map {A} (f : nat -> A) : forall n start t v,
  nth_error (map f (seq start n)) t = Some v -> t < n /\ v = f (start + t).
Proof.
  induction n as [|n IH]; intros start t v H; cbn [seq map] in H; [destruct t; discriminate|].
  destruct t as [|t]; cbn [nth_error] in H.
  - injection H as <-. rewrite Nat.add_0_r. split; [lia|reflexivity].
  - destruct (IH (S start) t v H) as [Hlt ->]. split; [lia|]. f_equal. lia.
Qed.

Theorem WInv_init ntab actors : WInv (init_st ntab actors).
Proof.
  unfold WInv, init_st. cbn [s_root s_closed s_nextw s_actors].
  assert (Hv : forall j q ret, nth_error (map wview (map (fun ik : N * kind => mkA (fst ik) (snd ik) PStart [] [] [] [] []) actors)) j
                               = Some (q, ret) -> q = None /\ ret = []).
  { intros j q ret H. rewrite map_map in H. apply nth_error_In in H. apply in_map_iff in H.
    destruct H as [[tid k] [E _]]. unfold wview, pview, pending, retired in E. cbn [a_pc] in E.
    injection E as <- <-. auto. }
  assert (Hr : forall t v, nth_error (map (fun i => mkV [] (N.of_nat i) None) (seq 0 ntab)) t = Some v ->
                           t < ntab /\ chans v = [N.of_nat t]).
  { intros t v H. apply nth_error_seq_map in H. destruct H as [Hlt ->]. split; [exact Hlt|reflexivity]. }
  constructor.
  - intros w (t&v&Hv'&Hw). destruct (Hr t v Hv') as [Hlt Hc]. rewrite Hc in Hw. destruct Hw as [<-|[]]. lia.
  - intros w [].
  - intros j p ret Hj. destruct (Hv j _ _ Hj) as [E _]. discriminate.
  - intros j q ret Hj w Hw. destruct (Hv j _ _ Hj) as [_ ->]. destruct Hw.
  - split.
    + intros t1 t2 v1 v2 w _ _ H1 H2 W1 W2. destruct (Hr t1 v1 H1) as [_ C1]. destruct (Hr t2 v2 H2) as [_ C2].
      rewrite C1 in W1. rewrite C2 in W2. destruct W1 as [<-|[]]. destruct W2 as [E|[]]. lia.
    + intros t v _ H1. destruct (Hr t v H1) as [_ ->]. repeat constructor. intros [].
  - intros w [].
  - intros j q ret Hj w Hw. destruct (Hv j _ _ Hj) as [_ ->]. destruct Hw.
  - intros j p ret Hj. destruct (Hv j _ _ Hj) as [E _]. discriminate.
  - intros j k p q r1 r2 _ Hj. destruct (Hv j _ _ Hj) as [E _]. discriminate.
Qed.

Theorem WInv_run ntab sched : forall s, Inv ntab s -> VInv s -> WInv s -> WInv (run s sched).
Proof.
  unfold run. induction sched as [|i r IH]; intros s HI HV HW; cbn [fold_left]; [exact HW|].
  apply IH; [apply Inv_step; exact HI|apply (VInv_step ntab); assumption|apply (WInv_step ntab); assumption].
Qed.

(* all three invariants hold in every reachable state *)
Record Good (ntab : nat) (s : st) : Prop := mkGood { good_inv : Inv ntab s; good_v : VInv s; good_w : WInv s }.

Theorem Good_step ntab s i : Good ntab s -> Good ntab (step s i).
Proof.
  intros [HI HV HW]. constructor; [apply Inv_step; exact HI|apply (VInv_step ntab); assumption|
                                   apply (WInv_step ntab); assumption].
Qed.

Theorem Good_run ntab sched : forall s, Good ntab s -> Good ntab (run s sched).
Proof.
  unfold run. induction sched as [|i r IH]; intros s HG; cbn [fold_left]; [exact HG|]. apply IH. apply Good_step. exact HG.
Qed.

Theorem Good_init ntab actors : wf_system ntab actors -> Good ntab (init_st ntab actors).
Proof. intros [Hwf Hnd]. constructor; [apply Inv_init; exact Hwf|apply VInv_init; exact Hnd|apply WInv_init]. Qed.

Theorem Good_reachable ntab actors sched : wf_system ntab actors -> Good ntab (run (init_st ntab actors) sched).
Proof. intros H. apply Good_run. apply Good_init. exact H. Qed.

Lemma run_app s s1 s2 : run s (s1 ++ s2) = run (run s s1) s2.
Proof. unfold run. apply fold_left_app. Qed.

(* ---------- consequences ---------- *)
(* published channels are open: no closed channel is the watch channel, or the pending-initialization
   channel, of an entry of the committed root *)
Theorem published_open s t v w : WInv s -> nth_error (s_root s) t = Some v -> In w (s_closed s) ->
  tv_watch v <> w /\ forall p, tv_init v <> Some (w, p).
Proof.
  intros HW Hv Hw. pose proof (wi_open _ _ _ _ HW w Hw) as Hno. split.
  - intros E. apply Hno. exists t, v. split; [exact Hv|]. left. exact E.
  - intros p E. apply Hno. exists t, v. split; [exact Hv|]. unfold chans, initw. rewrite E. right. left. reflexivity.
Qed.

(* the channels handed out by the committed root are pairwise distinct *)
Theorem published_distinct s t1 t2 v1 v2 w : WInv s ->
  nth_error (s_root s) t1 = Some v1 -> nth_error (s_root s) t2 = Some v2 ->
  In w (chans v1) -> In w (chans v2) -> t1 = t2.
Proof. intros HW H1 H2 W1 W2. apply (proj1 (wi_inj _ _ _ _ HW) t1 t2 v1 v2 w I I H1 H2 W1 W2). Qed.

(* closing happens after the store: a step closes channels only if its actor has executed its root store
   (it is at PRootUnlocked or PTabsUnlocked, committed), the channels closed are its a_notify resp.
   a_initclose, and none of them is handed out by the committed root any more *)
Theorem close_after_store ntab s i : Inv ntab s -> WInv s ->
  s_closed (step s i) = s_closed s \/
  exists a cl, nth_error (s_actors s) i = Some a /\ committed a = true /\
    s_closed (step s i) = cl ++ s_closed s /\ s_root (step s i) = s_root s /\
    ((a_pc a = PRootUnlocked /\ cl = a_notify a) \/ (a_pc a = PTabsUnlocked /\ cl = a_initclose a)) /\
    forall w, In w cl -> ~ rch (s_root s) w.
Proof.
  intros HI HW. destruct (enabled s i) eqn:He; [|rewrite step_disabled by exact He; auto].
  destruct (Inv_step_spec _ _ _ HI He) as (a&a'&r&tl&rl&cl&nw&Ha&HS&E). rewrite E. unfold post. cbn [s_root s_closed].
  assert (Hview : nth_error (map wview (s_actors s)) i = Some (wview a)) by (apply map_nth_error; exact Ha).
  inversion HS; subst; auto; right.
  - exists a, (a_notify a). repeat split; auto.
    + unfold committed. rewrite H0. reflexivity.
    + intros w Hw. apply (wi_ret _ _ _ _ HW i _ _ Hview). unfold retired. rewrite H0. apply in_or_app. left. exact Hw.
  - exists a, (a_initclose a). repeat split; auto.
    + unfold committed. rewrite H0. reflexivity.
    + intros w Hw. apply (wi_ret _ _ _ _ HW i _ _ Hview). unfold retired. rewrite H0. exact Hw.
Qed.

(* what one step does to the entry of table t: the id set only grows, and if the watch channel changes
   the id set grows strictly *)
Theorem entry_step ntab s i t v : Good ntab s -> nth_error (s_root s) t = Some v ->
  exists v', nth_error (s_root (step s i)) t = Some v' /\ incl (tv_ids v) (tv_ids v') /\
    (tv_watch v' = tv_watch v \/ exists x, In x (tv_ids v') /\ ~ In x (tv_ids v)) /\
    (forall w p, tv_init v = Some (w, p) -> tv_init v' = None \/ exists p', tv_init v' = Some (w, p')).
Proof.
  intros [HI HV HW] Hv.
  assert (Hsame : exists v', nth_error (s_root s) t = Some v' /\ incl (tv_ids v) (tv_ids v') /\
    (tv_watch v' = tv_watch v \/ exists x, In x (tv_ids v') /\ ~ In x (tv_ids v)) /\
    (forall w p, tv_init v = Some (w, p) -> tv_init v' = None \/ exists p', tv_init v' = Some (w, p'))).
  { exists v. split; [exact Hv|]. split; [apply incl_refl|]. split; [left; reflexivity|]. intros w p H. right. eauto. }
  destruct (enabled s i) eqn:He; [|rewrite step_disabled by exact He; exact Hsame].
  destruct (Inv_step_spec _ _ _ HI He) as (a&a'&r&tl&rl&cl&nw&Ha&HS&E). rewrite E. unfold post. cbn [s_root].
  destruct (Step_root _ _ _ _ _ _ _ _ _ _ HI Ha HS) as [[_ ->]|[(_&_&->)|(Hp&Hc&Hlen&Hn)]]; [exact Hsame| |].
  - rewrite nth_error_app1; [exact Hsame|]. apply nth_error_Some. congruence.
  - rewrite Hn, Hv. rewrite Hv in Hsame.
    assert (Hview : nth_error (map wview (s_actors s)) i =
                    Some (Some (mkPV (a_locks a) (writes_of a) (a_entries a) (a_notify a)), [])).
    { rewrite (map_nth_error wview _ _ Ha). unfold wview, pview, pending, retired. rewrite Hp. reflexivity. }
    destruct (memb t (a_locks a)) eqn:Hm.
    + apply memb_In in Hm.
      destruct (wi_pend _ _ _ _ HW i _ _ Hview) as [_ _ _ _ _ P6]. cbn [p_locks p_ents p_writes] in P6.
      destruct (P6 t Hm) as (v0&e&Hv0&He0&Hwk&Hinit). rewrite Hv in Hv0. injection Hv0 as <-.
      rewrite He0. exists (clear_init e). split; [reflexivity|].
      pose proof (v_ents _ HV i a Ha) as Hents. unfold ents_ok in Hents. rewrite Hp in Hents.
      destruct (Hents t Hm) as (v1&e1&Hv1&He1&Hr). rewrite Hv in Hv1. injection Hv1 as <-.
      rewrite He0 in He1. injection He1 as <-.
      rewrite clear_init_ids, clear_init_watch. split; [intros x Hx; apply Hr; right; exact Hx|]. split.
      * destruct (in_dec Nat.eq_dec t (writes_of a)) as [Hw|Hw]; [|left; apply Hwk; exact Hw].
        right. exists (a_id a). split; [apply Hr; left; auto|].
        intros Hin. apply (visible_iff ntab s i a t v HI HV Ha Hv) in Hin. destruct Hin as [Hcm _].
        unfold committed in Hcm. rewrite Hp in Hcm. discriminate.
      * intros w p Hi. destruct (Hinit w p Hi) as [p' Hp']. unfold clear_init. rewrite Hp'.
        destruct p' as [|n q]; [left; reflexivity|right; eauto].
    + destruct (nth_error (a_entries a) t); exact Hsame.
Qed.

(* two-state version along any schedule *)
Theorem entry_run ntab sched : forall s t v, Good ntab s -> nth_error (s_root s) t = Some v ->
  exists v', nth_error (s_root (run s sched)) t = Some v' /\ incl (tv_ids v) (tv_ids v') /\
    (tv_watch v' = tv_watch v \/ exists x, In x (tv_ids v') /\ ~ In x (tv_ids v)).
Proof.
  unfold run. induction sched as [|i r IH]; intros s t v HG Hv; cbn [fold_left].
  - exists v. split; [exact Hv|]. split; [apply incl_refl|left; reflexivity].
  - destruct (entry_step ntab s i t v HG Hv) as (v1&Hv1&Hi1&Hw1&_).
    destruct (IH (step s i) t v1 (Good_step _ _ i HG) Hv1) as (v2&Hv2&Hi2&Hw2).
    exists v2. split; [exact Hv2|]. split; [eapply incl_tran; eauto|].
    destruct Hw2 as [Hw2|(x&Hx&Hnx)].
    + destruct Hw1 as [Hw1|(x&Hx&Hnx)]; [left; congruence|]. right. exists x. auto.
    + right. exists x. split; [exact Hx|]. intros Hin. apply Hnx. apply Hi1. exact Hin.
Qed.

(* wake-up sees a newer version: if the watch channel that an earlier committed root handed out for table t
   is closed, the current committed entry of t contains everything the earlier one did plus the id of at
   least one further committed transaction *)
Theorem wake_sees_newer ntab sched s t v : Good ntab s -> nth_error (s_root s) t = Some v ->
  In (tv_watch v) (s_closed (run s sched)) ->
  exists v', nth_error (s_root (run s sched)) t = Some v' /\ incl (tv_ids v) (tv_ids v') /\
             exists x, In x (tv_ids v') /\ ~ In x (tv_ids v).
Proof.
  intros HG Hv Hc. destruct (entry_run ntab sched s t v HG Hv) as (v'&Hv'&Hincl&Hw).
  exists v'. split; [exact Hv'|]. split; [exact Hincl|].
  destruct Hw as [Hw|Hx]; [|exact Hx]. exfalso.
  destruct (published_open (run s sched) t v' (tv_watch v) (good_w _ _ (Good_run ntab sched s HG)) Hv' Hc) as [Hne _].
  congruence.
Qed.

(* initialization: while table t's committed entry has pending initializers under init-watch w, w is open;
   and if w is closed later, a root in which t is initialized (tv_init = None) was stored in between *)
Theorem init_closed_after_visible ntab : forall sched s t v w p, Good ntab s ->
  nth_error (s_root s) t = Some v -> tv_init v = Some (w, p) -> In w (s_closed (run s sched)) ->
  exists s1 s2 v1, sched = s1 ++ s2 /\ nth_error (s_root (run s s1)) t = Some v1 /\ tv_init v1 = None.
Proof.
  induction sched as [|i r IH]; intros s t v w p HG Hv Hi Hc.
  - exfalso. cbn in Hc. destruct (published_open s t v w (good_w _ _ HG) Hv Hc) as [_ Hn]. apply (Hn p Hi).
  - destruct (entry_step ntab s i t v HG Hv) as (v1&Hv1&_&_&Hinit).
    destruct (Hinit w p Hi) as [Hnone|[p' Hp']].
    + exists [i], r, v1. split; [reflexivity|]. split; [exact Hv1|exact Hnone].
    + destruct (IH (step s i) t v1 w p' (Good_step _ _ i HG) Hv1 Hp' Hc) as (s1&s2&v2&->&Hv2&Hn2).
      exists (i :: s1), s2, v2. split; [reflexivity|]. split; [exact Hv2|exact Hn2].
Qed.
