(* DB/Channels.v — channel bookkeeping of apply_writes and merge_root: which watch / init channels
   the private entries of a transaction carry after its writes, where they come from (freshly allocated,
   or inherited from the entry cloned), that they are pairwise distinct, and that the channels queued
   for notification are no longer carried by any private entry. Used by DB/Watch.v. *)
From Coq Require Import Arith PeanoNat.
From SV Require Import DB.Model DB.Proofs DB.Invariants DB.Visibility.
Open Scope nat_scope.

Definition initw (v : tver) : list N := match tv_init v with Some (w, _) => [w] | None => [] end.
(* the channels a table entry hands out *)
Definition chans (v : tver) : list N := tv_watch v :: initw v.

(* channels of the entries of the tables in D are pairwise distinct *)
Definition chinj (D : nat -> Prop) (es : list tver) : Prop :=
  (forall t1 t2 v1 v2 w, D t1 -> D t2 -> nth_error es t1 = Some v1 -> nth_error es t2 = Some v2 ->
     In w (chans v1) -> In w (chans v2) -> t1 = t2) /\
  (forall t v, D t -> nth_error es t = Some v -> NoDup (chans v)).

Record G (D : nat -> Prop) (es0 : list tver) (nw0 : N) (es : list tver) (nt : list N) (nw : N) : Prop := mkG {
  g_le : (nw0 <= nw)%N;
  g_bound : forall t v w, D t -> nth_error es t = Some v -> In w (chans v) -> (w < nw)%N;
  g_ntbound : forall w, In w nt -> (w < nw)%N;
  g_src : forall t v w, D t -> nth_error es t = Some v -> In w (chans v) ->
            (nw0 <= w)%N \/ exists v0, nth_error es0 t = Some v0 /\ In w (chans v0);
  g_inj : chinj D es;
  g_nt : forall w, In w nt ->
            ((nw0 <= w)%N \/ exists t v0, D t /\ nth_error es0 t = Some v0 /\ In w (chans v0)) /\
            (forall t v, D t -> nth_error es t = Some v -> ~ In w (chans v))
}.

(* one elementary update of the entry of table t *)
Lemma G_upd (D : nat -> Prop) es0 nw0 es nt nw t v v' dropped nw' :
  G D es0 nw0 es nt nw -> D t -> nth_error es t = Some v ->
  NoDup (chans v') ->
  (forall w, In w (chans v') -> In w (chans v) \/ (w = nw /\ (nw < nw')%N)) ->
  (forall w, In w dropped -> In w (chans v) /\ ~ In w (chans v')) ->
  (nw <= nw')%N ->
  G D es0 nw0 (upd t (fun _ => v') es) (dropped ++ nt) nw'.
Proof.
  intros [Hle Hb Hnb Hsrc [Hinj Hnd] Hnt] Dt Hv Hnd' Hin' Hdrop Hnw.
  assert (Hcase : forall t1 v1, nth_error (upd t (fun _ => v') es) t1 = Some v1 ->
            (t1 = t /\ v1 = v') \/ (t1 <> t /\ nth_error es t1 = Some v1)).
  { intros t1 v1. rewrite nth_error_upd. destruct (Nat.eqb_spec t t1) as [<-|Hne].
    - rewrite Hv. cbn [option_map]. intros E. injection E as <-. auto.
    - intros E. right. split; [congruence|exact E]. }
  constructor.
  - lia.
  - intros t1 v1 w D1 H1 Hw. destruct (Hcase _ _ H1) as [[-> ->]|[Hne H1']].
    + destruct (Hin' w Hw) as [Hold|[-> Hlt]]; [|exact Hlt]. specialize (Hb t v w Dt Hv Hold). lia.
    + specialize (Hb t1 v1 w D1 H1' Hw). lia.
  - intros w Hw. apply in_app_or in Hw. destruct Hw as [Hw|Hw].
    + destruct (Hdrop w Hw) as [Hold _]. specialize (Hb t v w Dt Hv Hold). lia.
    + specialize (Hnb w Hw). lia.
  - intros t1 v1 w D1 H1 Hw. destruct (Hcase _ _ H1) as [[-> ->]|[Hne H1']].
    + destruct (Hin' w Hw) as [Hold|[-> Hlt]]; [apply (Hsrc t v w Dt Hv Hold)|left; exact Hle].
    + apply (Hsrc t1 v1 w D1 H1' Hw).
  - split.
    + intros t1 t2 v1 v2 w D1 D2 H1 H2 Hw1 Hw2.
      destruct (Hcase _ _ H1) as [[-> ->]|[Hne1 H1']]; destruct (Hcase _ _ H2) as [[-> ->]|[Hne2 H2']]; auto.
      * destruct (Hin' w Hw1) as [Hold|[-> Hlt]].
        -- apply (Hinj t t2 v v2 w Dt D2 Hv H2' Hold Hw2).
        -- specialize (Hb t2 v2 nw D2 H2' Hw2). lia.
      * destruct (Hin' w Hw2) as [Hold|[-> Hlt]].
        -- apply (Hinj t1 t v1 v w D1 Dt H1' Hv Hw1 Hold).
        -- specialize (Hb t1 v1 nw D1 H1' Hw1). lia.
      * apply (Hinj t1 t2 v1 v2 w D1 D2 H1' H2' Hw1 Hw2).
    + intros t1 v1 D1 H1. destruct (Hcase _ _ H1) as [[-> ->]|[Hne H1']]; [exact Hnd'|apply (Hnd t1 v1 D1 H1')].
  - intros w Hw. apply in_app_or in Hw. destruct Hw as [Hw|Hw].
    + destruct (Hdrop w Hw) as [Hold Hnew]. split.
      * destruct (Hsrc t v w Dt Hv Hold) as [Hf|[v0 [H0 Hw0]]]; [left; exact Hf|right; exists t, v0; auto].
      * intros t1 v1 D1 H1 Hw1. destruct (Hcase _ _ H1) as [[-> ->]|[Hne H1']]; [contradiction|].
        apply Hne. apply (Hinj t1 t v1 v w D1 Dt H1' Hv Hw1 Hold).
    + destruct (Hnt w Hw) as [Hs Hno]. split; [exact Hs|].
      intros t1 v1 D1 H1 Hw1. destruct (Hcase _ _ H1) as [[-> ->]|[Hne H1']].
      * destruct (Hin' w Hw1) as [Hold|[-> Hlt]]; [apply (Hno t v Dt Hv Hold)|].
        specialize (Hnb nw Hw). lia.
      * apply (Hno t1 v1 D1 H1' Hw1).
Qed.

Lemma G_nw_mono (D : nat -> Prop) es0 nw0 es nt nw nw' : G D es0 nw0 es nt nw -> (nw <= nw')%N -> G D es0 nw0 es nt nw'.
Proof.
  intros [Hle Hb Hnb Hsrc Hinj Hnt] H. constructor; auto.
  - lia.
  - intros t v w Dt Hv Hw. specialize (Hb t v w Dt Hv Hw). lia.
  - intros w Hw. specialize (Hnb w Hw). lia.
Qed.

Lemma initw_bound v w (nw : N) : (forall x, In x (chans v) -> (x < nw)%N) -> In w (initw v) -> (w < nw)%N.
Proof. intros H Hw. apply H. right. exact Hw. Qed.

Lemma NoDup_initw v : NoDup (initw v).
Proof. unfold initw. destruct (tv_init v) as [[w p]|]; repeat constructor. intros []. Qed.

Lemma G_F1 (D : nat -> Prop) es0 nw0 tid : forall ws es nt nw es' nt' nw', (forall t, In t ws -> D t) ->
  G D es0 nw0 es nt nw -> fold_left (F1 tid) ws (es, nt, nw) = (es', nt', nw') -> G D es0 nw0 es' nt' nw'.
Proof.
  induction ws as [|t ws IH]; intros es nt nw es' nt' nw' HD HG H; cbn [fold_left] in H.
  - injection H as <- <- <-. exact HG.
  - cbn [F1] in H. destruct (nth_error es t) as [v|] eqn:Hv.
    + eapply IH; [intros t1 H1; apply HD; right; exact H1| |exact H].
      assert (Dt : D t) by (apply HD; left; reflexivity).
      change (tv_watch v :: nt) with ([tv_watch v] ++ nt).
      pose proof (g_bound _ _ _ _ _ _ HG t v) as Hb.
      pose proof (proj2 (g_inj _ _ _ _ _ _ HG) t v Dt Hv) as Hnd. unfold chans in Hnd.
      apply (G_upd D es0 nw0 es nt nw t v); auto.
      * unfold chans, initw. cbn [tv_watch tv_init]. fold (initw v). constructor; [|apply NoDup_initw].
        intros Hin. assert (nw < nw)%N by (apply (Hb nw Dt Hv); right; exact Hin). lia.
      * unfold chans at 1, initw at 1. cbn [tv_watch tv_init]. fold (initw v). intros w [<-|Hw].
        -- right. split; [reflexivity|lia].
        -- left. right. exact Hw.
      * intros w [<-|[]]. split; [left; reflexivity|].
        unfold chans, initw. cbn [tv_watch tv_init]. fold (initw v). intros [E|Hin].
        -- assert (tv_watch v < nw)%N by (apply (Hb _ Dt Hv); left; reflexivity). lia.
        -- apply NoDup_cons_iff in Hnd. tauto.
      * lia.
    + eapply IH; [intros t1 H1; apply HD; right; exact H1|exact HG|exact H].
Qed.

Lemma G_F2 (D : nat -> Prop) es0 nw0 nt : forall rg es nw es' nw', (forall tn, In tn rg -> D (fst tn)) ->
  G D es0 nw0 es nt nw -> fold_left F2 rg (es, nw) = (es', nw') -> G D es0 nw0 es' nt nw'.
Proof.
  induction rg as [|[t name] rg IH]; intros es nw es' nw' HD HG H; cbn [fold_left] in H.
  - injection H as <- <-. exact HG.
  - cbn [F2] in H. destruct (nth_error es t) as [v|] eqn:Hv.
    + assert (Dt : D t) by (apply (HD (t, name)); left; reflexivity).
      pose proof (g_bound _ _ _ _ _ _ HG t v) as Hb.
      pose proof (proj2 (g_inj _ _ _ _ _ _ HG) t v Dt Hv) as Hnd.
      destruct (tv_init v) as [[w p]|] eqn:Hi.
      * eapply IH; [intros t1 H1; apply HD; right; exact H1| |exact H].
        change nt with ([] ++ nt).
        apply (G_upd D es0 nw0 es nt nw t v); auto.
        -- unfold chans, initw in *. cbn [tv_watch tv_init]. rewrite Hi in Hnd. exact Hnd.
        -- unfold chans, initw. cbn [tv_watch tv_init]. rewrite Hi. auto.
        -- intros w0 [].
        -- lia.
      * eapply IH; [intros t1 H1; apply HD; right; exact H1| |exact H].
        change nt with ([] ++ nt).
        apply (G_upd D es0 nw0 es nt nw t v); auto.
        -- unfold chans, initw. cbn [tv_watch tv_init]. constructor; [|repeat constructor; intros []].
           intros [E|[]]. assert (tv_watch v < nw)%N by (apply (Hb _ Dt Hv); left; reflexivity). lia.
        -- unfold chans, initw. cbn [tv_watch tv_init]. rewrite Hi. intros w0 [<-|[<-|[]]].
           ++ left. left. reflexivity.
           ++ right. split; [reflexivity|lia].
        -- intros w0 [].
        -- lia.
    + eapply IH; [intros t1 H1; apply HD; right; exact H1|exact HG|exact H].
Qed.

Lemma G_F3 (D : nat -> Prop) es0 nw0 nt nw : forall dn es es', (forall tn, In tn dn -> D (fst tn)) ->
  G D es0 nw0 es nt nw -> fold_left F3 dn es = es' -> G D es0 nw0 es' nt nw.
Proof.
  induction dn as [|[t name] dn IH]; intros es es' HD HG H; cbn [fold_left] in H.
  - subst es'. exact HG.
  - cbn [F3] in H. destruct (nth_error es t) as [v|] eqn:Hv.
    + assert (Dt : D t) by (apply (HD (t, name)); left; reflexivity).
      pose proof (proj2 (g_inj _ _ _ _ _ _ HG) t v Dt Hv) as Hnd.
      destruct (tv_init v) as [[w p]|] eqn:Hi.
      * eapply IH; [intros t1 H1; apply HD; right; exact H1| |exact H].
        change nt with ([] ++ nt).
        apply (G_upd D es0 nw0 es nt nw t v); auto.
        -- unfold chans, initw in *. cbn [tv_watch tv_init]. rewrite Hi in Hnd. exact Hnd.
        -- unfold chans, initw. cbn [tv_watch tv_init]. rewrite Hi. auto.
        -- intros w0 [].
        -- lia.
      * eapply IH; [intros t1 H1; apply HD; right; exact H1|exact HG|exact H].
    + eapply IH; [intros t1 H1; apply HD; right; exact H1|exact HG|exact H].
Qed.

(* channel bookkeeping of the whole of apply_writes *)
Theorem apply_writes_G (D : nat -> Prop) es0 nw0 tid ws rg dn es' nt' nw' :
  (forall t, In t ws -> D t) -> (forall tn, In tn rg -> D (fst tn)) -> (forall tn, In tn dn -> D (fst tn)) ->
  chinj D es0 -> (forall t v w, D t -> nth_error es0 t = Some v -> In w (chans v) -> (w < nw0)%N) ->
  apply_writes tid ws rg dn nw0 es0 = (es', nt', nw') -> G D es0 nw0 es' nt' nw'.
Proof.
  intros Hws Hrg Hdn Hinj Hb. rewrite apply_writes_unfold.
  destruct (fold_left (F1 tid) ws (es0, [], nw0)) as [[es1 nt1] nw1] eqn:E1.
  destruct (fold_left F2 rg (es1, nw1)) as [es2 nw2] eqn:E2.
  intros H. injection H as <- <- <-.
  assert (G0 : G D es0 nw0 es0 [] nw0).
  { constructor; auto.
    - lia.
    - intros w [].
    - intros t v w Dt Hv Hw. right. exists v. auto.
    - intros w []. }
  pose proof (G_F1 D es0 nw0 tid ws _ _ _ _ _ _ Hws G0 E1) as G1.
  pose proof (G_F2 D es0 nw0 nt1 rg _ _ _ _ Hrg G1 E2) as G2.
  apply (G_F3 D es0 nw0 nt1 nw2 dn es2 _ Hdn G2 eq_refl).
Qed.

(* what apply_writes keeps: the watch of tables it does not write; the init watch of tables whose
   initialization is pending *)
Definition Rkeepw (ws : list nat) (t : nat) (v e : tver) : Prop :=
  (~ In t ws -> tv_watch e = tv_watch v) /\ tv_init e = tv_init v.
Definition Rinit (t : nat) (v e : tver) : Prop :=
  forall w p, tv_init v = Some (w, p) -> exists p', tv_init e = Some (w, p').
Definition Rkeep2 (t : nat) (v e : tver) : Prop := tv_watch e = tv_watch v /\ Rinit t v e.

Lemma Rkeep2_refl t v : Rkeep2 t v v.
Proof. split; [reflexivity|]. intros w p H. eauto. Qed.
Lemma Rkeep2_trans t a b c : Rkeep2 t a b -> Rkeep2 t b c -> Rkeep2 t a c.
Proof.
  intros [H1 I1] [H2 I2]. split; [congruence|]. intros w p H. destruct (I1 w p H) as [p' H']. apply (I2 w p' H').
Qed.

Lemma F1_keepw tid : forall ws acc acc', fold_left (F1 tid) ws acc = acc' ->
  pw (Rkeepw ws) (fst (fst acc)) (fst (fst acc')).
Proof.
  induction ws as [|t0 ws IH]; intros acc acc' H; cbn [fold_left] in H.
  - subst acc'. apply pw_refl. intros t v. split; reflexivity.
  - specialize (IH _ _ H).
    apply (pw_trans (Rkeepw [t0]) (Rkeepw ws) (Rkeepw (t0 :: ws)) _ (fst (fst (F1 tid acc t0)))).
    + intros t a b c [H1 I1] [H2 I2]. split; [|congruence]. intros Hn. cbn [In] in *.
      rewrite H2, H1; tauto.
    + destruct acc as [[es nt] nw]. cbn [fst F1]. destruct (nth_error es t0) as [v0|] eqn:E0; cbn [fst].
      * apply (pw_upd _ _ _ v0); [exact E0| |].
        -- split; [|reflexivity]. cbn [In]. tauto.
        -- intros t v Hne. split; reflexivity.
      * apply pw_refl. intros t v. split; reflexivity.
    + exact IH.
Qed.

Lemma F2_keep2 : forall rg acc acc', fold_left F2 rg acc = acc' -> pw Rkeep2 (fst acc) (fst acc').
Proof.
  induction rg as [|[t0 name] rg IH]; intros acc acc' H; cbn [fold_left] in H.
  - subst acc'. apply pw_refl. apply Rkeep2_refl.
  - specialize (IH _ _ H). eapply (pw_trans Rkeep2 Rkeep2 Rkeep2); [apply Rkeep2_trans| |exact IH].
    destruct acc as [es nw]. cbn [F2 fst]. destruct (nth_error es t0) as [v0|] eqn:E0; cbn [fst].
    + destruct (tv_init v0) as [[w p]|] eqn:Hi; cbn [fst];
        (apply (pw_upd _ _ _ v0); [exact E0| |intros; apply Rkeep2_refl]); (split; [reflexivity|]);
        intros w1 p1 H1; rewrite Hi in H1; [injection H1 as <- <-; cbn [tv_init]; eauto|discriminate].
    + apply pw_refl. apply Rkeep2_refl.
Qed.

Lemma F3_keep2 : forall dn es es', fold_left F3 dn es = es' -> pw Rkeep2 es es'.
Proof.
  induction dn as [|[t0 name] dn IH]; intros es es' H; cbn [fold_left] in H.
  - subst es'. apply pw_refl. apply Rkeep2_refl.
  - specialize (IH _ _ H). eapply (pw_trans Rkeep2 Rkeep2 Rkeep2); [apply Rkeep2_trans| |exact IH].
    cbn [F3]. destruct (nth_error es t0) as [v0|] eqn:E0.
    + destruct (tv_init v0) as [[w p]|] eqn:Hi.
      * apply (pw_upd _ _ _ v0); [exact E0| |intros; apply Rkeep2_refl]. split; [reflexivity|].
        intros w1 p1 H1. rewrite Hi in H1. injection H1 as <- <-. cbn [tv_init]. eauto.
      * apply pw_refl. apply Rkeep2_refl.
    + apply pw_refl. apply Rkeep2_refl.
Qed.

Definition Rkept (ws : list nat) (t : nat) (v e : tver) : Prop :=
  (~ In t ws -> tv_watch e = tv_watch v) /\ Rinit t v e.

Theorem apply_writes_kept tid ws rg dn nextw es es' nt nw :
  apply_writes tid ws rg dn nextw es = (es', nt, nw) -> pw (Rkept ws) es es'.
Proof.
  rewrite apply_writes_unfold.
  destruct (fold_left (F1 tid) ws (es, [], nextw)) as [[es1 nt1] nw1] eqn:E1.
  destruct (fold_left F2 rg (es1, nw1)) as [es2 nw2] eqn:E2.
  intros H. injection H as <- <- <-.
  pose proof (F1_keepw tid ws _ _ E1) as H1. cbn [fst] in H1.
  pose proof (F2_keep2 rg _ _ E2) as H2. cbn [fst] in H2.
  pose proof (F3_keep2 dn es2 _ eq_refl) as H3.
  eapply (pw_trans (Rkeepw ws) Rkeep2 (Rkept ws)); [|exact H1|].
  - intros t a b c [Hw Hi] [Hw2 Hi2]. split.
    + intros Hn. rewrite Hw2. apply Hw. exact Hn.
    + intros w p H. rewrite <- Hi in H. apply (Hi2 w p H).
  - eapply (pw_trans Rkeep2 Rkeep2 Rkeep2); [apply Rkeep2_trans|exact H2|exact H3].
Qed.

(* ---------- the channels merge_root queues for closing ---------- *)
Lemma merge_root_closing : forall cur locks es i w,
  In w (snd (merge_root locks es cur i)) ->
  exists p e, nth_error es p = Some e /\ memb (i + p) locks = true /\ tv_init e = Some (w, []) /\ p < length cur.
Proof.
  induction cur as [|c cr IH]; intros locks es i w; cbn [merge_root]; [intros []|].
  specialize (IH locks (tl es) (S i) w).
  destruct (merge_root locks (tl es) cr (S i)) as [rest closing]. cbn [snd] in IH.
  assert (Hrest : In w closing -> exists p e, nth_error es p = Some e /\ memb (i + p) locks = true /\
                                             tv_init e = Some (w, []) /\ p < length (c :: cr)).
  { intros Hin. destruct (IH Hin) as (p&e&Hp&Hm&Hi&Hl). exists (S p), e.
    rewrite Nat.add_succ_r. cbn [length]. repeat split; auto; [|lia].
    destruct es as [|e0 es']; [destruct p; discriminate|exact Hp]. }
  destruct es as [|e es']; [exact Hrest|].
  destruct (memb i locks) eqn:Hm; [|exact Hrest].
  destruct (tv_init e) as [[w0 [|n q]]|] eqn:Hi; cbn [snd]; try exact Hrest.
  intros [<-|Hin]; [|exact (Hrest Hin)].
  exists 0, e. rewrite Nat.add_0_r. cbn [nth_error length]. repeat split; auto. lia.
Qed.

Lemma chans_clear_init e w : In w (chans (clear_init e)) -> In w (chans e).
Proof.
  unfold clear_init. destruct (tv_init e) as [[w0 [|n q]]|] eqn:Hi; auto.
  unfold chans, initw. cbn [tv_watch tv_init]. intros [<-|[]]. left. reflexivity.
Qed.

Lemma NoDup_chans_clear_init e : NoDup (chans e) -> NoDup (chans (clear_init e)).
Proof.
  unfold clear_init. destruct (tv_init e) as [[w0 [|n q]]|] eqn:Hi; auto.
  intros _. unfold chans, initw. cbn [tv_watch tv_init]. repeat constructor. intros [].
Qed.
