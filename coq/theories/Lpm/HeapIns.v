(* Lpm/HeapIns.v — Txn.Insert on the heap (Lpm/Heap.v hins) refines Lpm/Model.v ins, writes in place
   only cells of the transaction's footprint (and the fresh newNode), otherwise appends. *)
From SV Require Import Base.Bytes Lpm.Model Lpm.Cow Lpm.Heap Lpm.HeapBase.
From Coq Require Import ZArith List Bool Lia ZifyN ZifyNat ZifyBool.
Import ListNotations.
Open Scope N_scope.

Definition restamp (tid : N) (t : node) : node :=
  match t with Nil => Nil | Node k v i _ c0 c1 => Node k v i tid c0 c1 end.
Lemma ins_restamp tid kd kpl v ml t : ins tid kd kpl v ml (restamp tid t) = ins tid kd kpl v ml t.
Proof. destruct t; reflexivity. Qed.
Lemma height_restamp tid t : height (restamp tid t) = height t.
Proof. destruct t; reflexivity. Qed.

Lemma agree_ex_weaken_lt h h' W W' : agree_ex h h' W ->
  (forall x, In x W -> (x < length h)%nat -> In x W') -> agree_ex h h' W'.
Proof.
  intros A I a n H Hn. apply A; auto. intros Hi. apply Hn, I; auto. eapply nth_error_lt; eauto.
Qed.

Lemma set_c_set_c n b p q : set_c (set_c n b p) b q = set_c n b q.
Proof. destruct b; reflexivity. Qed.

Section Ins.
Context {P : nat -> Prop}.
Local Notation trep := (@trep P).

(* owned cells have the tr_own shape *)
Lemma trep_own_inv h tid a t F n : trep h tid (Some a) t F -> nth_error h a = Some n -> h_id n = tid ->
  exists c0 c1 F0 F1, t = Node (h_key n) (h_val n) (h_imag n) tid c0 c1 /\ F = a :: F0 ++ F1 /\
    trep h tid (h_c0 n) c0 F0 /\ trep h tid (h_c1 n) c1 F1 /\ ~ In a (F0 ++ F1) /\ disj F0 F1.
Proof.
  intros T Hn Hi.
  inversion T as [|a' n' c0 c1 Hn' Hi' HP' T0 T1|a' n' c0 c1 F0 F1 Hn' Hi' T0 T1 Na Dj]; subst.
  - assert (n' = n) by congruence. subst n'. lia.
  - assert (n' = n) by congruence. subst n'. exists c0, c1, F0, F1. auto 10.
Qed.

(* ---------- Txn.clone ---------- *)
Lemma hclone_spec h tid p t F : trep h tid p t F -> forall h1 c, hclone h tid p = (h1, c) ->
  exists Fc, trep h1 tid c (restamp tid t) Fc /\ agree_ex h h1 [] /\ (length h <= length h1)%nat /\
    (forall a1, c = Some a1 -> In a1 Fc) /\ (forall x, In x Fc -> In x F \/ x = length h) /\
    (c = None <-> p = None).
Proof.
  intros T h1 c E. destruct p as [a|].
  - unfold hclone, hclone_a in E.
    inversion T as [|a' n c0 c1 Hn Hi HP T0 T1|a' n c0 c1 F0 F1 Hn Hi T0 T1 Na Dj]; subst.
    + rewrite (hget_some _ _ _ Hn) in E. destruct (h_id n =? tid) eqn:Ei; [lia|].
      injection E as <- <-. exists [length h]. split.
      * cbn [restamp]. apply (tr_own _ _ (length h) (set_id n tid) c0 c1 [] []).
        -- apply nth_error_app_new.
        -- reflexivity.
        -- cbn [set_id h_c0]. now apply trep_app.
        -- cbn [set_id h_c1]. now apply trep_app.
        -- intros [].
        -- intros x [].
      * split; [apply agree_ex_app|]. split; [rewrite app_length; lia|].
        split; [intros a1 [= <-]; now left|]. split; [intros x [<-|[]]; auto|].
        split; discriminate.
    + rewrite (hget_some _ _ _ Hn) in E. rewrite N.eqb_refl in E. injection E as <- <-.
      exists (a :: F0 ++ F1). cbn [restamp]. split; [exact T|]. split; [apply agree_ex_refl|].
      split; [lia|]. split; [intros a1 [= <-]; now left|]. split; [auto|]. split; discriminate.
  - cbn [hclone] in E. injection E as <- <-. inversion T; subst. exists []. cbn [restamp].
    split; [constructor|]. split; [apply agree_ex_refl|]. split; [lia|].
    split; [discriminate|]. split; [intros x []|]. split; auto.
Qed.

(* ---------- *nodep = p ---------- *)
Definition slot_ok (h : heap) (tid : N) (root : option nat) (s : slot) (node : option nat) (W : list nat) : Prop :=
  match s with
  | SRoot => root = node
  | SChild ap b => ~ In ap W /\ exists np, nth_error h ap = Some np /\ h_id np = tid /\ get_c np b = node
  end.
Definition slot_post (h h' : heap) (root r' : option nat) (s : slot) (p' : option nat) (W : list nat) : Prop :=
  match s with
  | SRoot => r' = p' /\ agree_ex h h' W
  | SChild ap b => r' = root /\ agree_ex h h' (ap :: W) /\
                   exists np, nth_error h ap = Some np /\ nth_error h' ap = Some (set_c np b p')
  end.

Lemma wslot_spec h hx tid root s node W p' t' F' :
  trep hx tid p' t' F' -> agree_ex h hx W -> (length h <= length hx)%nat ->
  slot_ok h tid root s node W ->
  (forall ap b, s = SChild ap b -> ~ In ap F') ->
  forall h' r', wslot hx root s p' = (h', r') ->
  trep h' tid p' t' F' /\ (length h <= length h')%nat /\ slot_post h h' root r' s p' W.
Proof.
  intros T A L S NF h' r' E. destruct s as [|ap b]; cbn [wslot] in E; injection E as <- <-.
  - cbn [slot_post]. auto.
  - destruct S as (NW & np & Hp & Hi & Hg). specialize (NF ap b eq_refl).
    assert (Hx : nth_error hx ap = Some np) by (apply A; auto).
    rewrite (hget_some _ _ _ Hx).
    assert (Lp : (ap < length hx)%nat) by (eapply nth_error_lt; eauto).
    split.
    + eapply (trep_frame_W _ _ _ _ _ _ [ap]); [exact T|apply agree_ex_upd| |].
      * intros x [<-|[]] Hx'. auto.
      * intros w n [<-|[]] Hw. congruence.
    + split; [rewrite upd_length; lia|]. cbn [slot_post]. split; [reflexivity|]. split.
      * eapply agree_ex_weaken_lt; [eapply agree_ex_trans; [exact A|apply agree_ex_upd]|].
        intros x Hx' _. apply in_app_or in Hx' as [Hx'|[<-|[]]]; [now right|now left].
      * exists np. split; [exact Hp|]. now apply nth_error_upd_eq.
Qed.

(* ---------- the code after the loop (node != nil) ---------- *)
Lemma hins_fin_spec tid kd kpl v nn h root s a ml0 n c0 c1 F0 F1 :
  nth_error h a = Some n -> h_id n = tid ->
  trep h tid (h_c0 n) c0 F0 -> trep h tid (h_c1 n) c1 F1 -> ~ In a (F0 ++ F1) -> disj F0 F1 ->
  nth_error h nn = Some (mkH (kd, kpl) v false tid None None) -> ~ In nn (a :: F0 ++ F1) ->
  slot_ok h tid root s (Some a) (nn :: a :: F0 ++ F1) ->
  let m := longestMatch ml0 (h_key n) kd kpl in
  (m =? kpl) || negb (m =? kplen (h_key n)) = true ->
  forall h' r' inc, hins_fin tid kd kpl nn h root s a m = (h', r', inc) ->
  let res := ins tid kd kpl v ml0 (Node (h_key n) (h_val n) (h_imag n) tid c0 c1) in
  exists p' F', inc = snd res /\ trep h' tid p' (fst res) F' /\
    (forall x, In x F' -> In x (a :: F0 ++ F1) \/ x = nn \/ (length h <= x)%nat) /\
    (length h <= length h')%nat /\ slot_post h h' root r' s p' (nn :: a :: F0 ++ F1).
Proof.
  intros Hn Hi T0 T1 Na Dj Hnn Nn S m Hb h' r' inc E res.
  assert (Ta : trep h tid (Some a) (Node (h_key n) (h_val n) (h_imag n) tid c0 c1) (a :: F0 ++ F1))
    by (apply tr_own; auto).
  assert (Lnn : (nn < length h)%nat) by (eapply nth_error_lt; eauto).
  assert (Ann : a <> nn) by (intros ->; apply Nn; now left).
  assert (SN : forall ap b, s = SChild ap b -> ap <> nn /\ ap <> a /\ ~ In ap (F0 ++ F1)).
  { intros ap b ->. destruct S as (NW & _).
    split; [intros ->; apply NW; now left|]. split; [intros ->; apply NW; right; now left|].
    intros Hx. apply NW. right. now right. }
  subst res. cbn [ins]. fold m. rewrite Hb.
  unfold hins_fin in E. rewrite (hget_some _ _ _ Hn), (hget_some _ _ _ Hnn) in E.
  destruct (m =? kpl) eqn:E1.
  - destruct (m =? kplen (h_key n)) eqn:E2.
    + (* replace the node *)
      cbn [h_key h_val h_imag h_id] in E.
      set (hx := upd h nn (mkH (kd, kpl) v false tid (h_c0 n) (h_c1 n))) in E.
      destruct (wslot hx root s (Some nn)) as [h2 r2] eqn:Ew. injection E as <- <- <-.
      assert (Ax : agree_ex h hx (nn :: a :: F0 ++ F1)).
      { eapply agree_ex_weaken; [apply agree_ex_upd|]. intros x [<-|[]]. now left. }
      assert (Fr : forall p t F, trep h tid p t F -> ~ In nn F -> trep hx tid p t F).
      { intros p t F T NF. eapply (trep_frame_W _ _ _ _ _ _ [nn]); [exact T|apply agree_ex_upd| |].
        - intros x [<-|[]] Hx. auto.
        - intros w n' [<-|[]] Hw. rewrite Hnn in Hw. injection Hw as <-. reflexivity. }
      assert (Tx : trep hx tid (Some nn) (Node (kd, kpl) v false tid c0 c1) (nn :: F0 ++ F1)).
      { apply (tr_own _ _ nn (mkH (kd, kpl) v false tid (h_c0 n) (h_c1 n)) c0 c1 F0 F1).
        - apply nth_error_upd_eq. exact Lnn.
        - reflexivity.
        - cbn [h_c0]. apply Fr; auto. intros Hx. apply Nn. right. apply in_or_app. auto.
        - cbn [h_c1]. apply Fr; auto. intros Hx. apply Nn. right. apply in_or_app. auto.
        - intros Hx. apply Nn. now right.
        - exact Dj. }
      destruct (wslot_spec h hx tid root s (Some a) _ _ _ _ Tx Ax ltac:(unfold hx; rewrite upd_length; lia) S) with (h' := h2) (r' := r2)
        as (T' & L' & P'); [|exact Ew|].
      { intros ap b Es. destruct (SN ap b Es) as (N1 & N2 & N3). intros [Hx|Hx]; auto. }
      exists (Some nn), (nn :: F0 ++ F1). cbn [fst snd]. split; [reflexivity|]. split; [exact T'|].
      split; [|auto]. intros x [<-|Hx]; cbn [In]; auto.
    + (* the new node becomes the parent of node *)
      set (idx := getBitAt (key_bytes (h_key n)) m) in *.
      set (hx := upd h nn (set_c (mkH (kd, kpl) v false tid None None) idx (Some a))) in E.
      destruct (wslot hx root s (Some nn)) as [h2 r2] eqn:Ew. injection E as <- <- <-.
      assert (Ax : agree_ex h hx (nn :: a :: F0 ++ F1)).
      { eapply agree_ex_weaken; [apply agree_ex_upd|]. intros x [<-|[]]. now left. }
      assert (Tax : trep hx tid (Some a) (Node (h_key n) (h_val n) (h_imag n) tid c0 c1) (a :: F0 ++ F1)).
      { eapply (trep_frame_W _ _ _ _ _ _ [nn]); [exact Ta|apply agree_ex_upd| |].
        - intros x [<-|[]] Hx. auto.
        - intros w n' [<-|[]] Hw. rewrite Hnn in Hw. injection Hw as <-. reflexivity. }
      assert (Hxn : nth_error hx nn = Some (set_c (mkH (kd, kpl) v false tid None None) idx (Some a)))
        by (apply nth_error_upd_eq; exact Lnn).
      assert (Lx : (length h <= length hx)%nat) by (unfold hx; rewrite upd_length; lia).
      assert (SF : forall F', (forall x, In x F' -> x = nn \/ In x (a :: F0 ++ F1)) ->
                    forall ap b, s = SChild ap b -> ~ In ap F').
      { intros F' HF ap b Es Hx. destruct (SN ap b Es) as (N1 & N2 & N3).
        destruct (HF _ Hx) as [->|[->|Hy]]; auto. }
      destruct idx.
      * assert (Tx : trep hx tid (Some nn) (Node (kd, kpl) v false tid Nil (Node (h_key n) (h_val n) (h_imag n) tid c0 c1))
                       (nn :: [] ++ (a :: F0 ++ F1))).
        { apply (tr_own _ _ nn _ Nil _ [] (a :: F0 ++ F1) Hxn); [reflexivity|constructor|exact Tax|exact Nn|intros x []]. }
        destruct (wslot_spec h hx tid root s (Some a) _ _ _ _ Tx Ax Lx S) with (h' := h2) (r' := r2)
          as (T' & L' & P'); [|exact Ew|].
        { apply SF. intros x [<-|Hx]; cbn [In]; auto. }
        eexists (Some nn), _. cbn [fst snd]. split; [reflexivity|]. split; [exact T'|].
        split; [|auto]. intros x [<-|Hx]; cbn [In]; auto.
      * assert (Tx : trep hx tid (Some nn) (Node (kd, kpl) v false tid (Node (h_key n) (h_val n) (h_imag n) tid c0 c1) Nil)
                       (nn :: (a :: F0 ++ F1) ++ [])).
        { apply (tr_own _ _ nn _ _ Nil (a :: F0 ++ F1) [] Hxn); [reflexivity|exact Tax|constructor| |intros x _ []].
          rewrite app_nil_r. exact Nn. }
        destruct (wslot_spec h hx tid root s (Some a) _ _ _ _ Tx Ax Lx S) with (h' := h2) (r' := r2)
          as (T' & L' & P'); [|exact Ew|].
        { apply SF. intros x [<-|Hx]; cbn [In]; auto. rewrite app_nil_r in Hx. auto. }
        eexists (Some nn), _. cbn [fst snd]. split; [reflexivity|]. split; [exact T'|].
        split; [|auto]. intros x [<-|Hx]; cbn [In]; auto. rewrite app_nil_r in Hx. auto.
  - (* fork with an imaginary node *)
    set (bit := getBitAt kd m) in *.
    set (ik := encodeKey (key_bytes (h_key n)) m) in *.
    set (im := set_c (set_c (mkH ik 0 true tid None None) bit (Some nn)) (negb bit) (Some a)) in E.
    set (hx := h ++ [im]) in E.
    destruct (wslot hx root s (Some (length h))) as [h2 r2] eqn:Ew. injection E as <- <- <-.
    assert (Ax : agree_ex h hx (nn :: a :: F0 ++ F1)) by apply agree_ex_app.
    assert (Lx : (length h <= length hx)%nat) by (unfold hx; rewrite app_length; lia).
    assert (Tax : trep hx tid (Some a) (Node (h_key n) (h_val n) (h_imag n) tid c0 c1) (a :: F0 ++ F1))
      by (apply trep_app; exact Ta).
    assert (Tnx : trep hx tid (Some nn) (Node (kd, kpl) v false tid Nil Nil) (nn :: [] ++ [])).
    { apply (tr_own _ _ nn (mkH (kd, kpl) v false tid None None) Nil Nil [] []);
        [apply nth_error_app_old; exact Hnn|reflexivity|constructor|constructor|intros []|intros x []]. }
    assert (Hxi : nth_error hx (length h) = Some im) by apply nth_error_app_new.
    assert (La : (a < length h)%nat) by (eapply nth_error_lt; eauto).
    assert (LF : forall x, In x (F0 ++ F1) -> (x < length h)%nat).
    { intros x Hx. destruct (trep_F_cell _ _ _ _ _ Ta x (or_intror Hx)) as (n' & Hn' & _). eapply nth_error_lt; eauto. }
    assert (SF : forall F', (forall x, In x F' -> x = length h \/ x = nn \/ In x (a :: F0 ++ F1)) ->
                  forall ap b, s = SChild ap b -> ~ In ap F').
    { intros F' HF ap b Es Hx. destruct (SN ap b Es) as (N1 & N2 & N3). subst s. destruct S as (_ & np & Hp & _).
      apply nth_error_lt in Hp.
      destruct (HF _ Hx) as [->|[->|[->|Hy]]]; auto. lia. }
    destruct bit.
    + assert (Tx : trep hx tid (Some (length h))
                     (Node ik 0 true tid (Node (h_key n) (h_val n) (h_imag n) tid c0 c1) (Node (kd, kpl) v false tid Nil Nil))
                     (length h :: (a :: F0 ++ F1) ++ (nn :: [] ++ []))).
      { apply (tr_own _ _ (length h) im _ _ _ _ Hxi); [reflexivity|exact Tax|exact Tnx| |].
        - intros Hx. apply in_app_or in Hx as [[Hx|Hx]|[Hx|[]]]; try lia. specialize (LF _ Hx). lia.
        - intros x Hx [<-|[]]. apply Nn. exact Hx. }
      destruct (wslot_spec h hx tid root s (Some a) _ _ _ _ Tx Ax Lx S) with (h' := h2) (r' := r2)
        as (T' & L' & P'); [|exact Ew|].
      { apply SF. intros x [<-|Hx]; cbn [In]; auto. apply in_app_or in Hx as [Hx|[<-|[]]]; auto. }
      eexists (Some (length h)), _. cbn [fst snd]. split; [reflexivity|]. split; [exact T'|].
      split; [|auto]. intros x [<-|Hx]; [right; right; lia|]. apply in_app_or in Hx as [Hx|[<-|[]]]; cbn [In]; auto.
    + assert (Tx : trep hx tid (Some (length h))
                     (Node ik 0 true tid (Node (kd, kpl) v false tid Nil Nil) (Node (h_key n) (h_val n) (h_imag n) tid c0 c1))
                     (length h :: (nn :: [] ++ []) ++ (a :: F0 ++ F1))).
      { apply (tr_own _ _ (length h) im _ _ _ _ Hxi); [reflexivity|exact Tnx|exact Tax| |].
        - intros Hx. apply in_app_or in Hx as [[Hx|[]]|[Hx|Hx]]; try lia. specialize (LF _ Hx). lia.
        - intros x [<-|[]] Hx. apply Nn. exact Hx. }
      destruct (wslot_spec h hx tid root s (Some a) _ _ _ _ Tx Ax Lx S) with (h' := h2) (r' := r2)
        as (T' & L' & P'); [|exact Ew|].
      { apply SF. intros x [<-|Hx]; cbn [In]; auto. apply in_app_or in Hx as [[<-|[]]|Hx]; auto. }
      eexists (Some (length h)), _. cbn [fst snd]. split; [reflexivity|]. split; [exact T'|].
      split; [|auto]. intros x [<-|Hx]; [right; right; lia|]. apply in_app_or in Hx as [[<-|[]]|Hx]; cbn [In]; auto.
Qed.

(* rebuilding an owned cell around a changed child *)
Lemma trep_rebuild h tid a n b p' tb' F' to Fo :
  nth_error h a = Some (set_c n b p') -> h_id n = tid ->
  trep h tid p' tb' F' -> trep h tid (get_c n (negb b)) to Fo ->
  ~ In a F' -> ~ In a Fo -> disj F' Fo ->
  exists F'', trep h tid (Some a) (Node (h_key n) (h_val n) (h_imag n) tid (if b then to else tb') (if b then tb' else to)) F'' /\
    (forall x, In x F'' <-> x = a \/ In x F' \/ In x Fo).
Proof.
  intros Hn Hi T' To N1 N2 Dj. destruct b; cbn [negb get_c] in To.
  - exists (a :: Fo ++ F'). split.
    + apply (tr_own _ _ a (set_c n true p') to tb' Fo F' Hn); [exact Hi|exact To|exact T'| |].
      * intros Hx. apply in_app_or in Hx as [Hx|Hx]; auto.
      * intros x H1 H2. exact (Dj x H2 H1).
    + intros x. cbn [In]. rewrite in_app_iff. split; [intros [<-|[H|H]]; auto|intros [->|[H|H]]; auto].
  - exists (a :: F' ++ Fo). split.
    + apply (tr_own _ _ a (set_c n false p') tb' to F' Fo Hn); [exact Hi|exact T'|exact To| |exact Dj].
      intros Hx. apply in_app_or in Hx as [Hx|Hx]; auto.
    + intros x. cbn [In]. rewrite in_app_iff. split; [intros [<-|[H|H]]; auto|intros [->|[H|H]]; auto].
Qed.

Lemma ins_descend_eq tid kd kpl v m nk nv ni (b : bool) c0 c1 :
  (if b then let (c, inc) := ins tid kd kpl v m c1 in (Node nk nv ni tid c0 c, inc)
   else let (c, inc) := ins tid kd kpl v m c0 in (Node nk nv ni tid c c1, inc)) =
  (Node nk nv ni tid (if b then child (negb b) c0 c1 else fst (ins tid kd kpl v m (child b c0 c1)))
                     (if b then fst (ins tid kd kpl v m (child b c0 c1)) else child (negb b) c0 c1),
   snd (ins tid kd kpl v m (child b c0 c1))).
Proof. destruct b; cbn [child negb]; destruct (ins tid kd kpl v m _); reflexivity. Qed.

Lemma trep_children_b h tid n c0 c1 F0 F1 (b : bool) :
  trep h tid (h_c0 n) c0 F0 -> trep h tid (h_c1 n) c1 F1 ->
  trep h tid (get_c n b) (child b c0 c1) (if b then F1 else F0).
Proof. destruct b; auto. Qed.

(* ---------- the loop ---------- *)
Lemma hins_loop_nil tid kd kpl v nn h root s ml :
  nth_error h nn = Some (mkH (kd, kpl) v false tid None None) ->
  slot_ok h tid root s None [nn] ->
  forall h' r' inc, hins_loop 0 tid kd kpl nn h root s None ml = (h', r', inc) ->
  exists p' F', inc = snd (ins tid kd kpl v ml Nil) /\ trep h' tid p' (fst (ins tid kd kpl v ml Nil)) F' /\
    (forall x, In x F' -> In x [] \/ x = nn \/ (length h <= x)%nat) /\
    (length h <= length h')%nat /\ slot_post h h' root r' s p' [nn].
Proof.
  intros Hnn S h' r' inc E. cbn [hins_loop] in E.
  destruct (wslot h root s (Some nn)) as [h2 r2] eqn:Ew. injection E as <- <- <-.
  assert (Tx : trep h tid (Some nn) (Node (kd, kpl) v false tid Nil Nil) (nn :: [] ++ [])).
  { apply (tr_own _ _ nn _ Nil Nil [] [] Hnn); [reflexivity|constructor|constructor|intros []|intros x []]. }
  destruct (wslot_spec h h tid root s None [nn] _ _ _ Tx (agree_ex_refl _ _) (le_n _) S) with (h' := h2) (r' := r2)
    as (T' & L' & P'); [|exact Ew|].
  { intros ap b ->. destruct S as (NW & _). exact NW. }
  exists (Some nn), (nn :: [] ++ []). cbn [ins fst snd]. split; [reflexivity|]. split; [exact T'|].
  split; [|auto]. intros x [<-|[]]. auto.
Qed.

Lemma hins_loop_fuel0 f tid kd kpl nn h root s ml :
  hins_loop f tid kd kpl nn h root s None ml = hins_loop 0 tid kd kpl nn h root s None ml.
Proof. destruct f; reflexivity. Qed.

Lemma hins_loop_spec tid kd kpl v nn : forall fuel h root s node ml t F,
  trep h tid node t F -> (height t <= fuel)%nat ->
  (forall a, node = Some a -> In a F) ->
  nth_error h nn = Some (mkH (kd, kpl) v false tid None None) -> ~ In nn F ->
  slot_ok h tid root s node (nn :: F) ->
  forall h' r' inc, hins_loop fuel tid kd kpl nn h root s node ml = (h', r', inc) ->
  exists p' F', inc = snd (ins tid kd kpl v ml t) /\ trep h' tid p' (fst (ins tid kd kpl v ml t)) F' /\
    (forall x, In x F' -> In x F \/ x = nn \/ (length h <= x)%nat) /\
    (length h <= length h')%nat /\ slot_post h h' root r' s p' (nn :: F).
Proof.
  induction fuel as [|f IH]; intros h root s node ml t F T Hh Ho Hnn Nn S h' r' inc E.
  - destruct t; [|simpl in Hh; lia]. inversion T; subst. eapply hins_loop_nil; eauto.
  - destruct node as [a|].
    2:{ inversion T; subst. rewrite hins_loop_fuel0 in E. eapply hins_loop_nil; eauto. }
    destruct (trep_F_cell _ _ _ _ _ T a (Ho a eq_refl)) as (n & Hn & Hi).
    destruct (trep_own_inv _ _ _ _ _ _ T Hn Hi) as (c0 & c1 & F0 & F1 & -> & -> & T0 & T1 & Na & Dj).
    cbn [hins_loop] in E. rewrite (hget_some _ _ _ Hn) in E.
    set (m := longestMatch ml (h_key n) kd kpl) in *.
    destruct ((m =? kpl) || negb (m =? kplen (h_key n)))%bool eqn:Hb.
    + eapply hins_fin_spec; eauto.
    + cbn [ins]. fold m. rewrite Hb. rewrite ins_descend_eq.
      set (b := getBitAt kd (kplen (h_key n))) in *.
      pose proof (trep_children_b _ _ _ _ _ _ _ b T0 T1) as Tb.
      pose proof (trep_children_b _ _ _ _ _ _ _ (negb b) T0 T1) as To.
      set (tb := child b c0 c1) in *. set (Fb := if b then F1 else F0) in *.
      set (to := child (negb b) c0 c1) in *. set (Fo := if negb b then F1 else F0) in *.
      assert (Sub : (forall x, In x Fb -> In x (F0 ++ F1)) /\ (forall x, In x Fo -> In x (F0 ++ F1)) /\ disj Fb Fo).
      { subst Fb Fo. destruct b; cbn [negb]; (split; [|split]); intros x Hx; try (apply in_or_app; auto).
        - intros Hy. exact (Dj x Hy Hx).
        - intros Hy. exact (Dj x Hx Hy). }
      destruct Sub as (SubB & SubO & DjB).
      destruct (hclone h tid (get_c n b)) as [h1 c] eqn:Ec.
      destruct (hclone_spec _ _ _ _ _ Tb _ _ Ec) as (Fc & Tc & A1 & L1 & Oc & SubC & _).
      assert (La : (a < length h)%nat) by (eapply nth_error_lt; eauto).
      assert (Lnn : (nn < length h)%nat) by (eapply nth_error_lt; eauto).
      assert (Ann : a <> nn) by (intros ->; apply Nn; now left).
      assert (Hn1 : nth_error h1 a = Some n) by (apply A1; auto).
      rewrite (hget_some _ _ _ Hn1) in E.
      set (h2 := upd h1 a (set_c n b c)) in *.
      assert (NaC : ~ In a Fc).
      { intros Hx. destruct (SubC _ Hx) as [Hy|Hy]; [apply Na; auto|lia]. }
      assert (NnC : ~ In nn Fc).
      { intros Hx. destruct (SubC _ Hx) as [Hy|Hy]; [apply Nn; right; auto|lia]. }
      assert (A2 : agree_ex h1 h2 [a]) by apply agree_ex_upd.
      assert (Hn2 : nth_error h2 a = Some (set_c n b c)) by (apply nth_error_upd_eq; lia).
      assert (Tc2 : trep h2 tid c (restamp tid tb) Fc).
      { eapply (trep_frame_W _ _ _ _ _ _ [a]); [exact Tc|exact A2| |].
        - intros x [<-|[]]. exact NaC.
        - intros w n' [<-|[]] Hw. congruence. }
      assert (L2 : length h2 = length h1) by (unfold h2; apply upd_length).
      destruct (IH h2 root (SChild a b) c m (restamp tid tb) Fc Tc2) with (h' := h') (r' := r') (inc := inc)
        as (p' & F' & Ei & T' & SubF & L' & P'); auto.
      * rewrite height_restamp. subst tb. destruct b; cbn [child height] in *; lia.
      * apply A2; [apply A1; auto|]. intros [Hx|[]]. auto.
      * cbn [slot_ok]. split; [intros [Hx|Hx]; auto|]. exists (set_c n b c). split; [exact Hn2|].
        split; [destruct b; exact Hi|apply get_set_c_same].
      * rewrite ins_restamp in Ei, T'. destruct P' as (-> & A3 & np & Hnp & Hnp').
        rewrite Hn2 in Hnp. injection Hnp as <-. rewrite set_c_set_c in Hnp'.
        assert (A03 : agree_ex h h' (a :: nn :: Fc)).
        { eapply agree_ex_weaken; [eapply agree_ex_trans; [exact A1|eapply agree_ex_trans; [exact A2|exact A3]]|].
          intros x Hx. cbn [app] in Hx. destruct Hx as [<-|Hx]; [now left|exact Hx]. }
        assert (To' : trep h' tid (get_c n (negb b)) to Fo).
        { eapply (trep_frame_W _ _ _ _ _ _ (a :: nn :: Fc)); [exact To|exact A03| |].
          - intros x [<-|[<-|Hx]] Hy.
            + apply Na. auto.
            + apply Nn. right. auto.
            + destruct (SubC _ Hx) as [Hz|Hz]; [exact (DjB x Hz Hy)|].
              destruct (trep_F_cell _ _ _ _ _ To x Hy) as (n' & Hn' & _). apply nth_error_lt in Hn'. lia.
          - intros w n' [<-|[<-|Hx]] Hw; [congruence|rewrite Hnn in Hw; injection Hw as <-; reflexivity|].
            destruct (SubC _ Hx) as [Hz|Hz].
            + destruct (trep_F_cell _ _ _ _ _ Tb w Hz) as (n'' & Hn'' & Hi''). congruence.
            + apply nth_error_lt in Hw. lia. }
        assert (NaF' : ~ In a F').
        { intros Hx. destruct (SubF _ Hx) as [Hy|[Hy|Hy]]; auto. lia. }
        assert (DjF : disj F' Fo).
        { intros x Hx Hy. destruct (trep_F_cell _ _ _ _ _ To x Hy) as (n' & Hn' & _). apply nth_error_lt in Hn'.
          destruct (SubF _ Hx) as [Hz|[Hz|Hz]].
          - destruct (SubC _ Hz) as [Hw|Hw]; [exact (DjB x Hw Hy)|lia].
          - subst x. apply Nn. right. auto.
          - lia. }
        destruct (trep_rebuild h' tid a n b p' _ F' to Fo Hnp' Hi T' To' NaF') as (F'' & T'' & HF''); auto.
        exists (Some a), F''. cbn [fst snd]. split; [exact Ei|]. split; [exact T''|].
        split.
        { intros x Hx. apply HF'' in Hx as [->|[Hx|Hx]]; [left; now left| |left; right; auto].
          destruct (SubF _ Hx) as [Hy|[Hy|Hy]]; [|auto|right; right; lia].
          destruct (SubC _ Hy) as [Hz|Hz]; [left; right; auto|right; right; lia]. }
        split; [lia|].
        assert (A0 : agree_ex h h' (nn :: a :: F0 ++ F1)).
        { eapply agree_ex_weaken_lt; [exact A03|]. intros x [<-|[<-|Hx]] Lx; cbn [In]; auto.
          destruct (SubC _ Hx) as [Hz|Hz]; [right; right; auto|lia]. }
        destruct s as [|ap bs]; cbn [slot_post slot_ok] in *.
        -- split; [exact S|exact A0].
        -- destruct S as (NW & np & Hp & Hip & Hg). split; [reflexivity|]. split.
           ++ eapply agree_ex_weaken; [exact A0|]. intros x Hx. now right.
           ++ exists np. split; [exact Hp|]. rewrite <- Hg, set_c_get. apply A0; auto.
Qed.

(* ---------- Txn.Insert ---------- *)
Theorem hins_spec tid kd kpl v h root t F : trep h tid root t F ->
  forall h' r' inc, hins tid kd kpl v h root = (h', r', inc) ->
  exists F', ins tid kd kpl v 0 t = (fst (ins tid kd kpl v 0 t), inc) /\
    trep h' tid r' (fst (ins tid kd kpl v 0 t)) F' /\
    (forall x, In x F' -> In x F \/ (length h <= x)%nat) /\
    (length h <= length h')%nat /\ agree_ex h h' F.
Proof.
  intros T h' r' inc E. unfold hins in E.
  set (nw := mkH (kd, kpl) v false tid None None) in *.
  set (h0 := h ++ [nw]) in *.
  destruct (hclone h0 tid root) as [h1 r1] eqn:Ec.
  assert (T0 : trep h0 tid root t F) by (apply trep_app; exact T).
  assert (L0 : length h0 = S (length h)) by (unfold h0; rewrite app_length; simpl; lia).
  destruct (hclone_spec _ _ _ _ _ T0 _ _ Ec) as (Fc & Tc & A1 & L1 & Oc & SubC & _).
  assert (LF : forall x, In x F -> (x < length h)%nat).
  { intros x Hx. destruct (trep_F_cell _ _ _ _ _ T x Hx) as (n' & Hn' & _). eapply nth_error_lt; eauto. }
  assert (Hnn : nth_error h1 (length h) = Some nw) by (apply A1; [apply nth_error_app_new|intros []]).
  assert (Nn : ~ In (length h) Fc).
  { intros Hx. destruct (SubC _ Hx) as [Hy|Hy]; [specialize (LF _ Hy)|]; lia. }
  destruct (hins_loop_spec tid kd kpl v (length h) (length h) h1 r1 SRoot r1 0 (restamp tid t) Fc Tc)
    with (h' := h') (r' := r') (inc := inc) as (p' & F' & Ei & T' & SubF & L' & P'); auto.
  - rewrite height_restamp. eapply rep_height, trep_rep; eauto.
  - reflexivity.
  - rewrite ins_restamp in Ei, T'. destruct P' as (-> & A2). exists F'.
    split; [rewrite Ei; apply surjective_pairing|]. split; [exact T'|]. split.
    + intros x Hx. destruct (SubF _ Hx) as [Hy|[Hy|Hy]]; [|right; lia|right; lia].
      destruct (SubC _ Hy) as [Hz|Hz]; [auto|right; lia].
    + split; [lia|]. eapply agree_ex_weaken_lt.
      * eapply agree_ex_trans; [apply (agree_ex_app h [nw] [])|]. fold h0.
        eapply agree_ex_trans; [exact A1|exact A2].
      * intros x Hx Lx. cbn [app] in Hx. destruct Hx as [<-|Hx]; [lia|].
        destruct (SubC _ Hx) as [Hz|Hz]; [exact Hz|lia].
Qed.
End Ins.
