(* Lpm/MapThm.v — transaction-level statements: the invariant is preserved and
   Insert / Delete / LookupExact / Len agree with the finite map abs. *)
From SV Require Import Base.Bytes Lpm.Model Lpm.Bits Lpm.Inv Lpm.Insert Lpm.Delete Lpm.Order.
From Coq Require Import ZArith ZifyN ZifyNat ZifyBool.
Open Scope N_scope.

(* well-formed root: the invariant from the empty bit string *)
Definition wf_root (r : node) : Prop := inv [] r.
(* size = number of real nodes *)
Definition wf_txn (x : txn) : Prop := wf_root (t_root x) /\ t_size x = N.of_nat (length (entries (t_root x))).
Definition wf_trie (t : trie) : Prop := wf_root (r_root t) /\ r_size t = N.of_nat (length (entries (r_root t))).

Lemma wf_new : wf_trie trie_new.
Proof. split; [exact I|reflexivity]. Qed.
Lemma wf_trie_txn t : wf_trie t -> wf_txn (trie_txn t).
Proof. auto. Qed.
Lemma wf_commit x : wf_txn x -> wf_trie (txn_commit x).
Proof. auto. Qed.
Lemma wf_reuse x t : wf_trie t -> wf_txn (txn_reuse x t).
Proof. auto. Qed.
Lemma wf_clear x : wf_txn (txn_clear x).
Proof. split; [exact I|reflexivity]. Qed.
Lemma wf_freeze x : wf_txn x -> wf_txn (txn_freeze x).
Proof. unfold txn_freeze. destruct (t_root x) eqn:E; auto. unfold wf_txn. simpl. rewrite E. auto. Qed.

Lemma insert_spec x k v : canon k -> wf_txn x ->
  wf_txn (txn_insert x k v) /\
  (forall k' w, In (k', w) (entries (t_root (txn_insert x k v))) <->
                (k' = k /\ w = v) \/ (k' <> k /\ In (k', w) (entries (t_root x)))).
Proof.
  intros Ck [I Sz]. unfold txn_insert. destruct k as [kd kpl]. cbn [fst snd].
  destruct (ins (t_id x) kd kpl v 0 (t_root x)) as [r inc] eqn:E.
  destruct (ins_spec (t_id x) kd kpl v Ck (t_root x) [] 0 r inc I (is_pre_nil _) ltac:(simpl; lia) E) as (J1 & J2 & J3 & J4).
  split; [|exact J3]. split; [exact J1|]. cbn [t_root t_size]. rewrite J4, Sz. destruct inc; simpl; lia.
Qed.

Lemma delete_spec x k : canon k -> wf_txn x ->
  let '(x', (v, found)) := txn_delete x k in
  wf_txn x' /\ t_id x' = t_id x /\
  (found = true -> In (k, v) (entries (t_root x))) /\
  (found = false -> v = 0 /\ x' = x /\ forall w, ~ In (k, w) (entries (t_root x))) /\
  (forall k' w, In (k', w) (entries (t_root x')) <-> k' <> k /\ In (k', w) (entries (t_root x))).
Proof.
  intros Ck [I Sz]. unfold txn_delete. destruct k as [kd kpl]. cbn [fst snd].
  pose proof (del_spec (t_id x) kd kpl Ck (t_root x) [] 0 I (is_pre_nil _) ltac:(simpl; lia) _ eq_refl) as D.
  destruct (del (t_id x) kd kpl 0 (t_root x)) as [[[r v] st]|].
  - destruct D as (D1 & D2 & D3 & D4).
    assert (R : inv [] (if st then r else compress r) /\ entries (if st then r else compress r) = entries r).
    { destruct st; [split; [tauto|reflexivity]|apply compress_spec; exact D4]. }
    destruct R as [R1 R2]. cbn [t_root t_size t_id]. rewrite R2.
    split; [split; [exact R1|cbn [t_root t_size]; rewrite R2; lia]|]. split; [reflexivity|]. split; [auto|]. split; [discriminate|exact D2].
  - split; [split; auto|]. split; [reflexivity|]. split; [discriminate|]. split; [auto|].
    intros k' w. split; [|tauto]. intros Hin. split; [|exact Hin]. intros ->. eapply D; eauto.
Qed.

(* ---------- (b) agreement with the finite map ---------- *)
Lemma lookupExact_abs r k : canon k -> wf_root r ->
  lookupExact r k = match abs r k with Some v => (v, true) | None => (0, false) end.
Proof.
  intros Ck I. unfold lookupExact, abs. destruct k as [kd kpl]. cbn [fst snd].
  pose proof (lookupExact_spec kd kpl Ck r [] 0 I (is_pre_nil _) ltac:(simpl; lia) _ eq_refl) as L.
  pose proof (entries_ascending r [] I) as A.
  destruct (lookupExact_go kd kpl 0 r) as [v [|]].
  - apply (assoc_some _ _ _ A) in L. now rewrite L.
  - destruct L as [-> L]. apply assoc_none in L. now rewrite L.
Qed.

Lemma abs_insert x k v k' : canon k -> wf_txn x ->
  abs (t_root (txn_insert x k v)) k' = if lkey_eqb k' k then Some v else abs (t_root x) k'.
Proof.
  intros Ck W. destruct (insert_spec x k v Ck W) as [[I' _] H]. destruct W as [I _].
  pose proof (entries_ascending _ _ I) as A. pose proof (entries_ascending _ _ I') as A'.
  unfold abs. destruct (lkey_eqb k' k) eqn:E.
  - apply lkey_eqb_spec in E. subst k'. apply assoc_some; auto. apply H. auto.
  - assert (Hne : k' <> k) by (intros ->; rewrite (proj2 (lkey_eqb_spec k k) eq_refl) in E; discriminate).
    apply assoc_eq; auto. intros w. rewrite H. tauto.
Qed.

Lemma abs_delete x k k' : canon k -> wf_txn x ->
  abs (t_root (fst (txn_delete x k))) k' = (if lkey_eqb k' k then None else abs (t_root x) k') /\
  snd (txn_delete x k) = match abs (t_root x) k with Some v => (v, true) | None => (0, false) end.
Proof.
  intros Ck W. pose proof (delete_spec x k Ck W) as D. destruct W as [I _].
  destruct (txn_delete x k) as [x' [v found]]. destruct D as ([I' _] & _ & D1 & D2 & D3). cbn [fst snd].
  pose proof (entries_ascending _ _ I) as A. pose proof (entries_ascending _ _ I') as A'.
  unfold abs. split.
  - destruct (lkey_eqb k' k) eqn:E.
    + apply lkey_eqb_spec in E. subst k'. apply assoc_none. intros w Hw. apply D3 in Hw. tauto.
    + assert (Hne : k' <> k) by (intros ->; rewrite (proj2 (lkey_eqb_spec k k) eq_refl) in E; discriminate).
      apply assoc_eq; auto. intros w. rewrite D3. tauto.
  - destruct found.
    + specialize (D1 eq_refl). apply (assoc_some _ _ _ A) in D1. now rewrite D1.
    + destruct (D2 eq_refl) as (-> & _ & D4). apply assoc_none in D4. now rewrite D4.
Qed.

(* Len = number of keys of the map (the entry list has no duplicate key: it is ascending) *)
Lemma len_spec x : wf_txn x -> txn_len x = N.of_nat (length (entries (t_root x))) /\ ascending (entries (t_root x)).
Proof. intros [I Sz]. split; [exact Sz|eapply entries_ascending; eauto]. Qed.

(* bookkeeping of transaction ids (which calls bump them) *)
Lemma txn_ids x t k v q :
  t_id (txn_insert x k v) = t_id x /\ t_id (fst (txn_delete x k)) = t_id x /\
  t_id (trie_txn (txn_commit x)) = t_id x + 1 /\ t_id (txn_reuse x t) = r_prev t + 1 /\
  (t_root x <> Nil -> t_id (fst (txn_all x)) = t_id x + 1 /\ t_id (fst (txn_prefix x q)) = t_id x + 1 /\
                      t_id (fst (txn_lowerBound x q)) = t_id x + 1) /\
  (t_root x = Nil -> fst (txn_all x) = x /\ snd (txn_all x) = []).
Proof.
  split; [unfold txn_insert; destruct (ins _ _ _ _ _ _); reflexivity|].
  split; [unfold txn_delete; destruct (del _ _ _ _ _) as [[[? ?] ?]|]; reflexivity|].
  split; [reflexivity|]. split; [reflexivity|]. split.
  - intros H. unfold txn_all, txn_prefix, txn_lowerBound, txn_freeze. cbn [fst].
    destruct (t_root x); [congruence|]. auto.
  - intros H. unfold txn_all, txn_freeze. rewrite H. auto.
Qed.
