(* Lpm/Refuted.v — Txn.Prefix without the divergence guard (the code before fix 7b6a21e,
   seeded/D2) is wrong: on the trie {10/8} the query 11/8 yields 10/8, which 11/8 does not cover. *)
From SV Require Import Base.Bytes Lpm.Model Lpm.Bits Lpm.Inv.
Open Scope N_scope.

Definition t10 : node := Node ([10], 8) 1 false 1 Nil Nil.

Theorem lpm_prefix_unguarded_refuted :
  exists (r : node) (q : lkey), inv [] r /\ canon q /\
    it_entries (prefix_unguarded r q) = [(([10], 8), 1)] /\
    ~ is_pre (bits q) (bits ([10], 8)) /\
    it_entries (prefix r q) = [].
Proof.
  exists t10, ([11], 8). split; [|split; [|split; [|split]]].
  - simpl. split; [|split; [apply is_pre_nil|split; [discriminate|tauto]]].
    unfold canon. simpl. split; [repeat constructor; reflexivity|split; [reflexivity|constructor]].
  - unfold canon. simpl. split; [repeat constructor; reflexivity|split; [reflexivity|constructor]].
  - vm_compute. reflexivity.
  - intros [r H]. vm_compute in H. discriminate.
  - vm_compute. reflexivity.
Qed.
