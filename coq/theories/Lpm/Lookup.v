(* Lpm/Lookup.v — lpmLookup returns the value of the longest stored prefix covering the key,
   for keys that are stored or at least as long as every stored prefix ("full-length"). *)
From SV Require Import Base.Bytes Lpm.Model Lpm.Bits Lpm.Inv Lpm.Delete.
From Coq Require Import ZArith ZifyN ZifyNat ZifyBool.
Open Scope N_scope.

(* k covers q: the bits of k are a prefix of the bits of q *)
Definition covers (k q : lkey) : Prop := is_pre (bits k) (bits q).

(* r is the longest-prefix-match answer for q in the entry list l *)
Definition lpm_answer (l : list (lkey * N)) (q : lkey) (r : N * bool) : Prop :=
  match r with
  | (v, true) => exists k, In (k, v) l /\ covers k q /\
                 forall k' w, In (k', w) l -> covers k' q -> (length (bits k') <= length (bits k))%nat
  | (v, false) => v = 0 /\ forall k' w, In (k', w) l -> ~ covers k' q
  end.

(* the guard: q is stored, or no stored prefix is longer than q *)
Definition lookup_guard (l : list (lkey * N)) (q : lkey) : Prop :=
  (exists v, In (q, v) l) \/ (forall k w, In (k, w) l -> (length (bits k) <= length (bits q))%nat).

Lemma entries_nonempty n : forall p, inv p n -> n <> Nil -> exists k w, In (k, w) (entries n).
Proof.
  induction n as [|nk nv ni nt c0 IH0 c1 IH1]; intros p I Hn; [congruence|].
  destruct I as (Ck & Pk & Him & I0 & I1). destruct ni.
  - destruct (Him eq_refl) as (H0 & _ & _). destruct (IH0 _ I0 H0) as (k & w & Hin).
    exists k, w. cbn [entries app]. apply in_app_iff. auto.
  - exists nk, nv. simpl. auto.
Qed.

Lemma lookup_go_spec kd kpl : let q := (kd, kpl) in canon q -> forall n p cur closest,
  inv p n -> is_pre p (bits q) -> (N.to_nat cur <= length p)%nat -> lookup_guard (entries n) q ->
  forall r, lookup_go kd kpl cur closest n = r ->
  (exists k v, In (k, v) (entries n) /\ covers k q /\
     (forall k' w, In (k', w) (entries n) -> covers k' q -> (length (bits k') <= length (bits k))%nat) /\
     r = (v, true)) \/
  ((forall k' w, In (k', w) (entries n) -> ~ covers k' q) /\
   r = match closest with Some v => (v, true) | None => (0, false) end).
Proof.
  intros q Cq. induction n as [|nk nv ni nt c0 IH0 c1 IH1]; intros p cur closest I Pq Hml G r E.
  - simpl in E. right. split; [intros ? ? []|]. subst r. destruct closest; reflexivity.
  - pose proof I as (Ck & Pk & Him & I0 & I1).
    destruct (node_facts p nk q cur Ck Cq Pk Pq Hml) as (LM & Hnpl & Hkpl & HpL).
    change (fst q) with kd in LM. change (snd q) with kpl in *.
    cbn [lookup_go] in E. rewrite LM in E. clear LM.
    set (K := bits nk) in *. set (Q := bits q) in *. set (L := lcp K Q) in *.
    assert (Hlong : forall k w, In (k, w) (entries c0 ++ entries c1) -> (length K < length (bits k))%nat).
    { intros k w Hin. apply in_app_iff in Hin. destruct Hin as [Hin|Hin].
      - eapply (entries_pre c0) in Hin as [_ Hin]; eauto. apply is_pre_len in Hin. rewrite app_length in Hin. simpl in Hin. lia.
      - eapply (entries_pre c1) in Hin as [_ Hin]; eauto. apply is_pre_len in Hin. rewrite app_length in Hin. simpl in Hin. lia. }
    destruct (lcp_cases K Q) as [(A1 & A2 & A3)|[(A1 & A2 & A3)|[(A1 & A2 & A3)|(A1 & A2 & A3)]]]; fold L in A1, A2, A3.
    + (* the node's prefix is the key *)
      assert (nk = q) by (apply canon_bits_inj; auto). subst nk.
      decide_conds E. subst r. left.
      assert (Hni : ni = false).
      { destruct ni; [|reflexivity]. exfalso. destruct (Him eq_refl) as (H0 & _ & _).
        destruct (entries_nonempty c0 _ I0 H0) as (k & w & Hin).
        assert (Hin' : In (k, w) (entries c0 ++ entries c1)) by (apply in_app_iff; auto).
        destruct G as [[v G]|G].
        - cbn [entries app] in G. apply Hlong in G. fold Q K in G. lia.
        - specialize (G k w). cbn [entries app] in G. specialize (G Hin'). apply Hlong in Hin'. fold Q in G. lia. }
      subst ni. exists q, nv. split; [simpl; auto|]. split; [apply is_pre_refl|]. split; [|reflexivity].
      intros k' w _ Hc. apply is_pre_len in Hc. exact Hc.
    + (* the key is a proper prefix of the node's prefix: excluded by the guard *)
      exfalso. destruct G as [[v G]|G].
      * eapply (entries_ext p) in G as [_ G]; [|exact I]. apply is_pre_len in G. fold K Q in G. lia.
      * destruct (entries_nonempty _ _ I ltac:(discriminate)) as (k & w & Hin).
        pose proof (G _ _ Hin) as G1. eapply (entries_ext p) in Hin as [_ Hin]; [|exact I].
        apply is_pre_len in Hin. fold K Q in Hin, G1. lia.
    + (* descend *)
      decide_conds E.
      assert (Hbit : getBitAt kd (kplen nk) = nth (length K) Q false).
      { rewrite Hnpl. apply (getBitAt_bits q); auto. fold Q. lia. }
      rewrite Hbit in E.
      destruct (fresh_other _ _ _ _ _ _ _ q _ I A3 ltac:(fold K Q; lia) eq_refl) as [Fs Fo]. fold K Q in Fo.
      assert (Hpre : is_pre (K ++ [nth (length K) Q false]) Q) by (apply is_pre_snoc_intro; auto; lia).
      (* the other child covers nothing *)
      assert (Hoth : forall k w, In (k, w) (entries (child (negb (nth (length K) Q false)) c0 c1)) -> ~ covers k q).
      { intros k w Hin Hc. unfold covers in Hc. fold Q in Hc.
        assert (Hk : is_pre (K ++ [negb (nth (length K) Q false)]) (bits k)).
        { destruct (nth (length K) Q false); cbn [child negb] in Hin |- *;
            [eapply (entries_pre c0); eauto|eapply (entries_pre c1); eauto]. }
        pose proof (is_pre_trans _ _ _ Hk Hc) as Hx. apply is_pre_snoc in Hx as (_ & Hx & _).
        destruct (nth (length K) Q false); discriminate. }
      assert (Gc : lookup_guard (entries (child (nth (length K) Q false) c0 c1)) q).
      { destruct G as [[v G]|G].
        - left. exists v. cbn [entries] in G. rewrite !in_app_iff in G.
          destruct G as [G|[G|G]].
          + destruct ni; [destruct G|]. destruct G as [G|[]]. injection G as G _. congruence.
          + destruct (nth (length K) Q false) eqn:Eb; cbn [child negb] in *; [exfalso; eapply Fo; eauto|exact G].
          + destruct (nth (length K) Q false) eqn:Eb; cbn [child negb] in *; [exact G|exfalso; eapply Fo; eauto].
        - right. intros k w Hin. apply (G k w). cbn [entries]. rewrite !in_app_iff.
          destruct (nth (length K) Q false); cbn [child] in Hin; auto. }
      set (cl := if ni then closest else Some nv) in *.
      assert (IH : (exists k v, In (k, v) (entries (child (nth (length K) Q false) c0 c1)) /\ covers k q /\
          (forall k' w, In (k', w) (entries (child (nth (length K) Q false) c0 c1)) -> covers k' q ->
             (length (bits k') <= length (bits k))%nat) /\ r = (v, true)) \/
          ((forall k' w, In (k', w) (entries (child (nth (length K) Q false) c0 c1)) -> ~ covers k' q) /\
           r = match cl with Some v => (v, true) | None => (0, false) end)).
      { destruct (nth (length K) Q false); cbn [child] in *.
        - eapply (IH1 (K ++ [true])); eauto. rewrite app_length. simpl. lia.
        - eapply (IH0 (K ++ [false])); eauto. rewrite app_length. simpl. lia. }
      (* membership in the whole node, by parts *)
      assert (Hsplit : forall k w, In (k, w) (entries (Node nk nv ni nt c0 c1)) ->
                (ni = false /\ k = nk /\ w = nv) \/
                In (k, w) (entries (child (nth (length K) Q false) c0 c1)) \/
                In (k, w) (entries (child (negb (nth (length K) Q false)) c0 c1))).
      { intros k w Hin. cbn [entries] in Hin. rewrite !in_app_iff in Hin. destruct Hin as [Hin|[Hin|Hin]].
        - destruct ni; [destruct Hin|]. destruct Hin as [Hin|[]]. injection Hin as <- <-. auto.
        - destruct (nth (length K) Q false); cbn [child negb]; auto.
        - destruct (nth (length K) Q false); cbn [child negb]; auto. }
      assert (Hsub : forall k w, In (k, w) (entries (child (nth (length K) Q false) c0 c1)) ->
                In (k, w) (entries (Node nk nv ni nt c0 c1)) /\ (length K < length (bits k))%nat).
      { intros k w Hin. assert (Hin' : In (k, w) (entries c0 ++ entries c1)).
        { apply in_app_iff. destruct (nth (length K) Q false); cbn [child] in Hin; auto. }
        split; [|eapply Hlong; eauto]. cbn [entries]. apply in_app_iff. auto. }
      destruct IH as [(k & v & H1 & H2 & H3 & H4)|[H1 H2]].
      * left. exists k, v. destruct (Hsub _ _ H1) as [Hin Hlen]. split; [exact Hin|]. split; [exact H2|]. split; [|exact H4].
        intros k' w Hin' Hc. destruct (Hsplit _ _ Hin') as [(_ & -> & _)|[Hx|Hx]].
        -- fold K. lia.
        -- eapply H3; eauto.
        -- exfalso. eapply Hoth; eauto.
      * destruct ni; subst cl.
        -- right. split; [|exact H2]. intros k' w Hin' Hc. destruct (Hsplit _ _ Hin') as [(Hx & _)|[Hx|Hx]];
             [discriminate|eapply H1; eauto|eapply Hoth; eauto].
        -- left. exists nk, nv. split; [simpl; auto|]. split; [exact A3|]. split; [|exact H2].
           intros k' w Hin' Hc. destruct (Hsplit _ _ Hin') as [(_ & -> & _)|[Hx|Hx]];
             [lia|exfalso; eapply H1; eauto|exfalso; eapply Hoth; eauto].
    + (* divergence: nothing below covers the key *)
      decide_conds E. right. split; [|subst r; destruct closest; reflexivity].
      intros k' w Hin Hc. eapply (entries_ext p) in Hin as [_ Hin]; [|exact I].
      pose proof (is_pre_trans _ _ _ Hin Hc) as Hx. apply lcp_pre in Hx. fold K Q L in Hx. lia.
Qed.

Lemma lookup_spec r q : canon q -> inv [] r -> lookup_guard (entries r) q ->
  lpm_answer (entries r) q (lookup r q).
Proof.
  intros Cq I G. unfold lookup. destruct q as [kd kpl]. cbn [fst snd].
  destruct (lookup_go_spec kd kpl Cq r [] 0 None I (is_pre_nil _) ltac:(simpl; lia) G _ eq_refl)
    as [(k & v & H1 & H2 & H3 & H4)|[H1 H2]]; rewrite ?H4, ?H2; simpl.
  - exists k. auto.
  - split; [reflexivity|exact H1].
Qed.
