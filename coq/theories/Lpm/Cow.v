(* Lpm/Cow.v — the txn-id (copy-on-write) discipline of lpm.Txn.
   In the Go code Txn.clone(n) returns n itself, which is then written in place, exactly when
   n.txnID = txn.txnID; otherwise it copies n and stamps the copy with txn.txnID. In the model
   every node that Insert/Delete visit for writing is rebuilt with txnID := tid (Model.v ins, del);
   [clone_inplace] below is the test of Txn.clone. The theorems:
   (1) ids_ok: every node of a txn's tree has id <= the txn id and no child has a larger id than
       its parent (lpm/validate.go) — preserved by Insert and Delete, including Delete's early exit,
       which relies on the parent/child clause;
   (2) every root handed out (All, Prefix, LowerBound: txnID++; Commit followed by Txn/Reuse:
       prevTxnID+1) reaches only ids strictly below the txn id from then on;
   (3) consequently Txn.clone never takes the in-place branch on a node of a handed-out root. *)
From SV Require Import Base.Bytes Lpm.Model.
From Coq Require Import ZArith ZifyN ZifyNat ZifyBool.
Open Scope N_scope.

Definition node_id (n : node) : N := match n with Nil => 0 | Node _ _ _ t _ _ => t end.

(* ids bounded by T, and children never above their parent *)
Fixpoint ids_ok (T : N) (n : node) : Prop :=
  match n with
  | Nil => True
  | Node _ _ _ t c0 c1 => t <= T /\ ids_ok t c0 /\ ids_ok t c1
  end.

Lemma ids_ok_mono T T' n : T <= T' -> ids_ok T n -> ids_ok T' n.
Proof. destruct n; simpl; auto. intros H (H1 & H2 & H3). repeat split; auto; lia. Qed.

Lemma ids_ok_node_id T n : ids_ok T n -> node_id n <= T.
Proof. destruct n; simpl; [lia|tauto]. Qed.

Lemma ids_ok_compress T n : ids_ok T n -> ids_ok T (compress n).
Proof.
  destruct n as [|k v i t c0 c1]; simpl; auto. intros (H1 & H2 & H3).
  destruct i; [|simpl; auto]. destruct c0, c1; simpl in *; auto; repeat split; try tauto; lia.
Qed.

(* ---- Insert ---- *)
Lemma ins_ids tid kd kpl v : forall n ml, ids_ok tid n ->
  ids_ok tid (fst (ins tid kd kpl v ml n)) /\ node_id (fst (ins tid kd kpl v ml n)) = tid.
Proof.
  induction n as [|nk nv ni nt c0 IH0 c1 IH1]; intros ml H.
  - simpl. repeat split; lia.
  - destruct H as (H1 & H2 & H3).
    assert (G0 : ids_ok tid c0) by (eapply ids_ok_mono; eauto).
    assert (G1 : ids_ok tid c1) by (eapply ids_ok_mono; eauto).
    cbn [ins]. set (m := longestMatch ml nk kd kpl).
    destruct ((m =? kpl) || negb (m =? kplen nk))%bool.
    + destruct (m =? kpl).
      * destruct (m =? kplen nk); [|destruct (getBitAt (key_bytes nk) m)]; simpl; repeat split; auto; lia.
      * destruct (getBitAt kd m); simpl; repeat split; auto; lia.
    + destruct (getBitAt kd (kplen nk)).
      * destruct (IH1 m G1) as [J1 J2]. destruct (ins tid kd kpl v m c1) as [c inc]. simpl in *. repeat split; auto; lia.
      * destruct (IH0 m G0) as [J1 J2]. destruct (ins tid kd kpl v m c0) as [c inc]. simpl in *. repeat split; auto; lia.
Qed.

(* ---- Delete: B is the bound inherited from the parent (the parent's id, or the txn id at the root) ---- *)
Lemma del_ids tid kd kpl : forall n B ml, ids_ok B n -> B <= tid ->
  match del tid kd kpl ml n with
  | None => True
  | Some (n', _, true) => ids_ok B n'       (* early exit: the nodes above are not touched *)
  | Some (n', _, false) => ids_ok tid n'
  end.
Proof.
  induction n as [|nk nv ni nt c0 IH0 c1 IH1]; intros B ml H HB; [exact I|].
  destruct H as (H1 & H2 & H3).
  assert (G0 : ids_ok tid c0) by (eapply ids_ok_mono; [|exact H2]; lia).
  assert (G1 : ids_ok tid c1) by (eapply ids_ok_mono; [|exact H3]; lia).
  cbn [del]. set (m := longestMatch ml nk kd kpl).
  destruct ((m =? kpl) && (m =? kplen nk))%bool.
  - destruct ni; [exact I|]. simpl. repeat split; auto; lia.
  - destruct (m <? kplen nk); [exact I|].
    destruct (getBitAt kd m); cbn [child set_child].
    + specialize (IH1 nt m H3 ltac:(lia)).
      destruct (del tid kd kpl m c1) as [[[c v'] [|]]|]; [| |exact I].
      * simpl. repeat split; auto.
      * pose proof (ids_ok_compress _ _ IH1) as Hc.
        destruct ((nt =? tid) && ni && negb (is_nil c0) && negb (is_nil (compress c)))%bool eqn:Es.
        -- apply andb_true_iff in Es as [Es _]. apply andb_true_iff in Es as [Es _]. apply andb_true_iff in Es as [Es _].
           apply N.eqb_eq in Es. simpl. repeat split; auto; lia.
        -- simpl. repeat split; auto; lia.
    + specialize (IH0 nt m H2 ltac:(lia)).
      destruct (del tid kd kpl m c0) as [[[c v'] [|]]|]; [| |exact I].
      * simpl. repeat split; auto.
      * pose proof (ids_ok_compress _ _ IH0) as Hc.
        destruct ((nt =? tid) && ni && negb (is_nil (compress c)) && negb (is_nil c1))%bool eqn:Es.
        -- apply andb_true_iff in Es as [Es _]. apply andb_true_iff in Es as [Es _]. apply andb_true_iff in Es as [Es _].
           apply N.eqb_eq in Es. simpl. repeat split; auto; lia.
        -- simpl. repeat split; auto; lia.
Qed.

(* the early exit of Delete is taken only below nodes that the txn owns: every node above the
   point of exit has id = tid, so leaving them as they are is what cloning them would have done *)
Lemma del_stop_owned tid kd kpl : forall n B ml, ids_ok B n -> B <= tid ->
  match del tid kd kpl ml n with
  | Some (n', _, true) => node_id n = tid /\ node_id n' = tid
  | _ => True
  end.
Proof.
  induction n as [|nk nv ni nt c0 IH0 c1 IH1]; intros B ml H HB; [exact I|].
  destruct H as (H1 & H2 & H3).
  cbn [del]. set (m := longestMatch ml nk kd kpl).
  destruct ((m =? kpl) && (m =? kplen nk))%bool; [destruct ni; exact I|].
  destruct (m <? kplen nk); [exact I|].
  destruct (getBitAt kd m); cbn [child set_child].
  - specialize (IH1 nt m H3 ltac:(lia)).
    destruct (del tid kd kpl m c1) as [[[c v'] [|]]|]; [| |exact I].
    + destruct IH1 as [E _]. pose proof (ids_ok_node_id _ _ H3). simpl. lia.
    + destruct ((nt =? tid) && ni && negb (is_nil c0) && negb (is_nil (compress c)))%bool eqn:Es; [|exact I].
      apply andb_true_iff in Es as [Es _]. apply andb_true_iff in Es as [Es _]. apply andb_true_iff in Es as [Es _].
      apply N.eqb_eq in Es. simpl. auto.
  - specialize (IH0 nt m H2 ltac:(lia)).
    destruct (del tid kd kpl m c0) as [[[c v'] [|]]|]; [| |exact I].
    + destruct IH0 as [E _]. pose proof (ids_ok_node_id _ _ H2). simpl. lia.
    + destruct ((nt =? tid) && ni && negb (is_nil (compress c)) && negb (is_nil c1))%bool eqn:Es; [|exact I].
      apply andb_true_iff in Es as [Es _]. apply andb_true_iff in Es as [Es _]. apply andb_true_iff in Es as [Es _].
      apply N.eqb_eq in Es. simpl. auto.
Qed.

(* ---- transaction level ---- *)
Definition txn_ids_ok (x : txn) : Prop := ids_ok (t_id x) (t_root x).
(* every node of a committed trie has id <= prevTxnID < the id of any txn begun from it *)
Definition trie_ids_ok (t : trie) : Prop := ids_ok (r_prev t) (r_root t).

Lemma txn_insert_ids x k v : txn_ids_ok x -> txn_ids_ok (txn_insert x k v) /\ t_id (txn_insert x k v) = t_id x.
Proof.
  unfold txn_ids_ok, txn_insert. intros H.
  pose proof (ins_ids (t_id x) (fst k) (snd k) v (t_root x) 0 H) as [J _].
  destruct (ins (t_id x) (fst k) (snd k) v 0 (t_root x)) as [r inc]. simpl in *. auto.
Qed.

Lemma txn_delete_ids x k : txn_ids_ok x -> txn_ids_ok (fst (txn_delete x k)) /\ t_id (fst (txn_delete x k)) = t_id x.
Proof.
  unfold txn_ids_ok, txn_delete. intros H.
  pose proof (del_ids (t_id x) (fst k) (snd k) (t_root x) (t_id x) 0 H ltac:(lia)) as J.
  destruct (del (t_id x) (fst k) (snd k) 0 (t_root x)) as [[[r v] [|]]|]; simpl; auto.
  split; auto. now apply ids_ok_compress.
Qed.

(* a root (or iterator stack) handed out: all ids strictly below the txn id *)
Definition below (T : N) (n : node) : Prop := n = Nil \/ (0 < T /\ ids_ok (T - 1) n).
Definition published (x : txn) (it : iterator) : Prop := Forall (below (t_id x)) it.

Lemma below_mono T T' n : T <= T' -> below T n -> below T' n.
Proof. intros H [->|[H1 H2]]; [left; auto|right]. split; [lia|]. eapply ids_ok_mono; [|exact H2]. lia. Qed.
Lemma published_mono x x' it : t_id x <= t_id x' -> published x it -> published x' it.
Proof. intros H. apply Forall_impl. intros n. now apply below_mono. Qed.

Lemma ids_ok_children T k v i t c0 c1 : ids_ok T (Node k v i t c0 c1) -> ids_ok T c0 /\ ids_ok T c1.
Proof. intros (H1 & H2 & H3). split; eapply ids_ok_mono; eauto. Qed.

(* iterators only hold nodes of the tree they were taken from *)
Lemma prefix_go_ids g T kd kpl : forall n ml, ids_ok T n -> Forall (ids_ok T) (prefix_go g kd kpl ml n).
Proof.
  induction n as [|nk nv ni nt c0 IH0 c1 IH1]; intros ml H; [constructor|].
  destruct (ids_ok_children _ _ _ _ _ _ _ H) as [G0 G1]. cbn [prefix_go].
  set (m := longestMatch ml nk kd kpl).
  destruct ((m =? kpl) || (m <? kplen nk))%bool.
  - destruct (g && (m <? kpl))%bool; [constructor|constructor; [exact H|constructor]].
  - destruct (getBitAt kd (kplen nk)); cbn [child]; auto.
Qed.
Lemma lowerBound_go_ids T kd kpl : forall n ml st, ids_ok T n -> Forall (ids_ok T) st ->
  Forall (ids_ok T) (lowerBound_go kd kpl ml st n).
Proof.
  induction n as [|nk nv ni nt c0 IH0 c1 IH1]; intros ml st H Hs; [exact Hs|].
  destruct (ids_ok_children _ _ _ _ _ _ _ H) as [G0 G1]. cbn [lowerBound_go].
  set (m := longestMatch ml nk kd kpl).
  destruct (m =? kpl); [constructor; auto|].
  destruct (m <? kplen nk); [destruct (bytes_ltb (key_bytes nk) kd); [auto|constructor; auto]|].
  destruct (getBitAt kd (kplen nk)); [auto|]. apply IH0; auto. destruct (is_nil c1); auto.
Qed.

Lemma freeze_below x n : txn_ids_ok x -> t_root x <> Nil -> ids_ok (t_id x) n -> below (t_id (txn_freeze x)) n.
Proof.
  intros _ Hr H. right. unfold txn_freeze. destruct (t_root x); [congruence|]. simpl.
  split; [lia|]. replace (t_id x + 1 - 1) with (t_id x) by lia. exact H.
Qed.

(* All / Prefix / LowerBound on a txn: the iterator is published by the id bump, the txn stays ok *)
Lemma txn_iter_publishes x q : txn_ids_ok x ->
  (published (fst (txn_all x)) (snd (txn_all x)) /\ txn_ids_ok (fst (txn_all x))) /\
  (published (fst (txn_prefix x q)) (snd (txn_prefix x q)) /\ txn_ids_ok (fst (txn_prefix x q))) /\
  (published (fst (txn_lowerBound x q)) (snd (txn_lowerBound x q)) /\ txn_ids_ok (fst (txn_lowerBound x q))).
Proof.
  intros H. unfold txn_all, txn_prefix, txn_lowerBound, published. cbn [fst snd].
  assert (Hf : txn_ids_ok (txn_freeze x)).
  { unfold txn_ids_ok, txn_freeze in *. destruct (t_root x) eqn:E; [rewrite E; exact I|]. cbn [t_root t_id].
    eapply ids_ok_mono; [|exact H]. lia. }
  destruct (t_root x) as [|k v i t c0 c1] eqn:Er.
  - unfold all, prefix, lowerBound. simpl. repeat split; auto; constructor.
  - assert (Hn : t_root x <> Nil) by (rewrite Er; discriminate).
    unfold txn_ids_ok in H. rewrite Er in H.
    assert (G : forall st, Forall (ids_ok (t_id x)) st -> Forall (below (t_id (txn_freeze x))) st).
    { intros st. apply Forall_impl. intros n Hn'. apply freeze_below; auto. unfold txn_ids_ok. now rewrite Er. }
    repeat split; auto; apply G.
    + unfold all. constructor; [exact H|constructor].
    + apply prefix_go_ids; auto.
    + apply lowerBound_go_ids; auto.
Qed.

(* Commit, then Txn() or Reuse: the new txn starts above every id of the committed trie *)
Lemma commit_ids x : txn_ids_ok x -> trie_ids_ok (txn_commit x).
Proof. auto. Qed.
Lemma trie_txn_ids t : trie_ids_ok t ->
  txn_ids_ok (trie_txn t) /\ below (t_id (trie_txn t)) (r_root t) /\
  (forall x, txn_ids_ok (txn_reuse x t) /\ below (t_id (txn_reuse x t)) (r_root t)).
Proof.
  unfold trie_ids_ok, txn_ids_ok, txn_reuse, trie_txn. simpl. intros H.
  assert (A : ids_ok (r_prev t + 1) (r_root t)) by (eapply ids_ok_mono; [|exact H]; lia).
  assert (B : below (r_prev t + 1) (r_root t)).
  { right. split; [lia|]. now replace (r_prev t + 1 - 1) with (r_prev t) by lia. }
  auto.
Qed.
Lemma new_clear_ids x : trie_ids_ok trie_new /\ txn_ids_ok (txn_clear x).
Proof. split; exact I. Qed.

(* Txn.clone(n) returns n itself (to be written in place) iff n.txnID = txn.txnID *)
Definition clone_inplace (tid : N) (n : node) : bool :=
  match n with Nil => false | Node _ _ _ t _ _ => t =? tid end.
(* no node of the subtree would be written in place by a txn with id tid *)
Fixpoint no_inplace (tid : N) (n : node) : Prop :=
  match n with
  | Nil => True
  | Node _ _ _ _ c0 c1 => clone_inplace tid n = false /\ no_inplace tid c0 /\ no_inplace tid c1
  end.

Lemma ids_lt_no_inplace tid : forall n T, T < tid -> ids_ok T n -> no_inplace tid n.
Proof.
  induction n as [|k v i t c0 IH0 c1 IH1]; intros T HT H; [exact I|].
  destruct H as (H1 & H2 & H3). cbn [no_inplace clone_inplace].
  split; [apply N.eqb_neq; lia|]. split; [eapply IH0; [|exact H2]; lia|eapply IH1; [|exact H3]; lia].
Qed.

Theorem published_never_mutated x it : published x it -> Forall (no_inplace (t_id x)) it.
Proof.
  apply Forall_impl. intros n [->|[H1 H2]]; [exact I|]. eapply ids_lt_no_inplace; [|exact H2]. lia.
Qed.


(* ---- histories of one transaction ---- *)
Inductive step : txn -> txn -> Prop :=
| step_insert x k v : step x (txn_insert x k v)
| step_delete x k : step x (fst (txn_delete x k))
| step_all x : step x (fst (txn_all x))
| step_prefix x q : step x (fst (txn_prefix x q))
| step_lowerBound x q : step x (fst (txn_lowerBound x q)).
Inductive steps : txn -> txn -> Prop :=
| steps_refl x : steps x x
| steps_cons x y z : step x y -> steps y z -> steps x z.

Lemma freeze_id x : t_id x <= t_id (txn_freeze x).
Proof. unfold txn_freeze. destruct (t_root x); simpl; lia. Qed.

Lemma step_ids x y : step x y -> txn_ids_ok x -> txn_ids_ok y /\ t_id x <= t_id y.
Proof.
  intros S H. destruct S.
  - destruct (txn_insert_ids x k v H) as [A B]. split; [exact A|lia].
  - destruct (txn_delete_ids x k H) as [A B]. split; [exact A|lia].
  - split; [apply (txn_iter_publishes x ([], 0) H)|apply freeze_id].
  - split; [apply (txn_iter_publishes x q H)|apply freeze_id].
  - split; [apply (txn_iter_publishes x q H)|apply freeze_id].
Qed.

Lemma steps_ids x z : steps x z -> txn_ids_ok x -> txn_ids_ok z /\ t_id x <= t_id z.
Proof.
  induction 1 as [x|x y z S _ IH]; intros H; [split; [exact H|lia]|].
  destruct (step_ids _ _ S H) as [A B]. destruct (IH A) as [C D]. split; [exact C|lia].
Qed.

(* whatever a transaction does after handing out an iterator, it never writes one of its nodes in place *)
Theorem iterator_never_mutated x it z : txn_ids_ok x -> published x it -> steps x z ->
  txn_ids_ok z /\ Forall (no_inplace (t_id z)) it.
Proof.
  intros H P S. destruct (steps_ids _ _ S H) as [A B]. split; [exact A|].
  apply published_never_mutated. eapply published_mono; eauto.
Qed.

(* a transaction begun (Txn or Reuse) from a committed trie never writes one of the trie's nodes in place *)
Theorem committed_never_mutated t x0 z : trie_ids_ok t -> (x0 = trie_txn t \/ exists x, x0 = txn_reuse x t) ->
  steps x0 z -> txn_ids_ok z /\ no_inplace (t_id z) (r_root t).
Proof.
  intros H E S. destruct (trie_txn_ids t H) as (A & B & C).
  assert (G : txn_ids_ok x0 /\ below (t_id x0) (r_root t)).
  { destruct E as [->|[x ->]]; [auto|apply C]. }
  destruct G as [G1 G2]. destruct (steps_ids _ _ S G1) as [Z1 Z2]. split; [exact Z1|].
  assert (P : published z [r_root t]).
  { eapply (published_mono x0); [exact Z2|]. constructor; [exact G2|constructor]. }
  apply published_never_mutated in P. inversion P; auto.
Qed.
