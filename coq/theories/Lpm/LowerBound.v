(* Lpm/LowerBound.v — LowerBound(q) yields exactly the entries not below q, relative to one
   byte-level fact that is not proved here (see lowerBound_exact_partial). *)
From SV Require Import Base.Bytes KeyEnc.Model Lpm.Model Lpm.Bits Lpm.Inv Lpm.Delete Lpm.Order Lpm.Iter.
From Coq Require Import ZArith ZifyN ZifyNat ZifyBool.
Open Scope N_scope.

Fixpoint bltb (a b : list bool) : bool :=
  match a, b with
  | [], _ :: _ => true
  | false :: _, true :: _ => true
  | x :: a', y :: b' => Bool.eqb x y && bltb a' b'
  | _, _ => false
  end.
Lemma bltb_spec a : forall b, bltb a b = true <-> blt a b.
Proof.
  induction a as [|x a IH]; intros [|y b]; simpl.
  - split; [discriminate|inversion 1].
  - split; [constructor|reflexivity].
  - destruct x; split; try discriminate; inversion 1.
  - destruct x, y; simpl; rewrite ?IH; split; intros H; try discriminate; try constructor; auto; inversion H; subst; auto.
Qed.

(* the entry e is not below q *)
Definition not_below (q : lkey) (e : lkey * N) : bool := negb (bltb (bits (fst e)) (bits q)).

Lemma blt_asym a b : blt a b -> ~ blt b a.
Proof. intros H1 H2. eapply blt_irrefl. eapply blt_trans; eauto. Qed.
Lemma pre_not_below a b : is_pre a b -> ~ blt b a.
Proof.
  intros H Hb. destruct (Nat.eq_dec (length a) (length b)) as [E|E].
  - apply is_pre_eq_len in H; auto. subst. eapply blt_irrefl; eauto.
  - eapply blt_asym; [apply blt_pre; eauto|exact Hb].
Qed.

(* the byte comparison of LowerBound at a node whose key diverges from the query:
   bytes.Compare(node.key, data) < 0 iff the query has the 1 bit at the divergence *)
Definition cmp_at_divergence (q : lkey) : Prop :=
  forall nk, canon nk ->
    (lcp (bits nk) (bits q) < length (bits nk))%nat -> (lcp (bits nk) (bits q) < length (bits q))%nat ->
    bytes_ltb (key_bytes nk) (fst q) = nth (lcp (bits nk) (bits q)) (bits q) false.

Lemma lowerBound_go_spec kd kpl : let q := (kd, kpl) in canon q -> cmp_at_divergence q -> forall n p ml0 stack,
  inv p n -> is_pre p (bits q) -> (N.to_nat ml0 <= length p)%nat -> no_nil stack ->
  no_nil (lowerBound_go kd kpl ml0 stack n) /\
  flat_map entries (lowerBound_go kd kpl ml0 stack n) = filter (not_below q) (entries n) ++ flat_map entries stack.
Proof.
  intros q Cq Hcmp. induction n as [|nk nv ni nt c0 IH0 c1 IH1]; intros p ml0 stack I Pq Hml NS.
  - simpl. auto.
  - pose proof I as (Ck & Pk & Him & I0 & I1).
    destruct (node_facts p nk q ml0 Ck Cq Pk Pq Hml) as (LM & Hnpl & Hkpl & HpL).
    change (fst q) with kd in LM. change (snd q) with kpl in *.
    remember (lowerBound_go kd kpl ml0 stack (Node nk nv ni nt c0 c1)) as r eqn:E. symmetry in E.
    cbn [lowerBound_go] in E. rewrite LM in E. clear LM.
    specialize (Hcmp nk Ck). change (fst q) with kd in Hcmp.
    set (K := bits nk) in *. set (Q := bits q) in *. set (L := lcp K Q) in *.
    assert (Hext : forall e, In e (entries (Node nk nv ni nt c0 c1)) -> is_pre K (bits (fst e))).
    { intros [k w] Hin. eapply (entries_ext p) in Hin as [_ Hin]; [exact Hin|exact I]. }
    assert (Hall : (forall e, In e (entries (Node nk nv ni nt c0 c1)) -> ~ blt (bits (fst e)) Q) ->
       r = Node nk nv ni nt c0 c1 :: stack ->
       no_nil r /\ flat_map entries r = filter (not_below q) (entries (Node nk nv ni nt c0 c1)) ++ flat_map entries stack).
    { intros Hnb ->. split; [constructor; [discriminate|exact NS]|].
      rewrite filter_all; [reflexivity|]. intros e Hin. unfold not_below. fold Q.
      destruct (bltb (bits (fst e)) Q) eqn:Eb; [|reflexivity]. apply bltb_spec in Eb. exfalso. eapply Hnb; eauto. }
    assert (Hnone : (forall e, In e (entries (Node nk nv ni nt c0 c1)) -> blt (bits (fst e)) Q) ->
       r = stack ->
       no_nil r /\ flat_map entries r = filter (not_below q) (entries (Node nk nv ni nt c0 c1)) ++ flat_map entries stack).
    { intros Hb ->. split; [exact NS|]. rewrite filter_none; [reflexivity|]. intros e Hin. unfold not_below. fold Q.
      apply Hb in Hin. apply bltb_spec in Hin. now rewrite Hin. }
    destruct (lcp_cases K Q) as [(A1 & A2 & A3)|[(A1 & A2 & A3)|[(A1 & A2 & A3)|(A1 & A2 & A3)]]]; fold L in A1, A2, A3.
    + decide_conds E. apply Hall; auto. intros ent Hin. apply pre_not_below. rewrite <- A3. auto.
    + decide_conds E. apply Hall; auto. intros ent Hin. apply pre_not_below. eapply is_pre_trans; [exact A3|auto].
    + decide_conds E.
      assert (Hbit : getBitAt kd (kplen nk) = nth (length K) Q false).
      { rewrite Hnpl. apply (getBitAt_bits q); auto. fold Q. lia. }
      rewrite Hbit in E.
      assert (Hpre : is_pre (K ++ [nth (length K) Q false]) Q) by (apply is_pre_snoc_intro; auto; lia).
      assert (Hself : filter (not_below q) (if ni then [] else [(nk, nv)]) = []).
      { apply filter_none. intros e Hin. destruct ni; [destruct Hin|]. destruct Hin as [<-|[]].
        unfold not_below. cbn [fst]. fold K Q. assert (Hb : blt K Q) by (apply blt_pre; auto; lia).
        apply bltb_spec in Hb. now rewrite Hb. }
      cbn [entries]. rewrite !filter_app, Hself. cbn [app].
      destruct (nth (length K) Q false) eqn:Eb; subst r.
      * assert (H0 : filter (not_below q) (entries c0) = []).
        { apply filter_none. intros [k w] Hin. unfold not_below. cbn [fst]. fold Q.
          eapply (entries_pre c0) in Hin as [_ Hin]; eauto.
          assert (Hb : blt (bits k) Q) by (eapply blt_fork; eauto). apply bltb_spec in Hb. now rewrite Hb. }
        rewrite H0. cbn [app]. eapply (IH1 (K ++ [true])); eauto. rewrite app_length. simpl. lia.
      * assert (H1 : filter (not_below q) (entries c1) = entries c1).
        { apply filter_all. intros [k w] Hin. unfold not_below. cbn [fst]. fold Q.
          eapply (entries_pre c1) in Hin as [_ Hin]; eauto.
          assert (Hb : blt Q (bits k)) by (eapply blt_fork; eauto).
          destruct (bltb (bits k) Q) eqn:Ec; [|reflexivity]. apply bltb_spec in Ec. exfalso. eapply blt_asym; eauto. }
        rewrite H1.
        set (st' := if is_nil c1 then stack else c1 :: stack).
        assert (Hst : no_nil st' /\ flat_map entries st' = entries c1 ++ flat_map entries stack).
        { subst st'. destruct c1; simpl; split; auto. constructor; [discriminate|auto]. }
        destruct Hst as [N' F']. rewrite <- app_assoc, <- F'.
        eapply (IH0 (K ++ [false])); eauto. rewrite app_length. simpl. lia.
    + decide_conds E. specialize (Hcmp ltac:(lia) ltac:(lia)). rewrite Hcmp in E.
      assert (HlenF : length (firstn L K) = L) by (rewrite firstn_length; lia).
      assert (HpK : is_pre (firstn L K ++ [nth L K false]) K).
      { rewrite <- HlenF at 2. apply is_pre_snoc_intro; [apply is_pre_firstn|lia]. }
      assert (HpQ : is_pre (firstn L K ++ [nth L Q false]) Q).
      { unfold L at 1. rewrite lcp_firstn_eq. fold L.
        assert (HlenQ : length (firstn L Q) = L) by (rewrite firstn_length; lia).
        rewrite <- HlenQ at 2. apply is_pre_snoc_intro; [apply is_pre_firstn|lia]. }
      destruct (nth L Q false) eqn:Eb.
      * assert (Ekb : nth L K false = false) by (destruct (nth L K false); congruence). rewrite Ekb in HpK.
        apply Hnone; auto. intros ent Hin. apply Hext in Hin.
        eapply blt_fork; [eapply is_pre_trans; [exact HpK|exact Hin]|exact HpQ].
      * assert (Ekb : nth L K false = true) by (destruct (nth L K false); congruence). rewrite Ekb in HpK.
        apply Hall; auto. intros ent Hin. apply Hext in Hin. apply blt_asym.
        eapply blt_fork; [exact HpQ|eapply is_pre_trans; [exact HpK|exact Hin]].
Qed.

Lemma lowerBound_exact_partial r q : canon q -> cmp_at_divergence q -> inv [] r ->
  it_entries (lowerBound r q) = filter (not_below q) (entries r).
Proof.
  intros Cq Hc I. unfold lowerBound. destruct q as [kd kpl]. cbn [fst snd].
  destruct (lowerBound_go_spec kd kpl Cq Hc r [] 0 [] I (is_pre_nil _) ltac:(simpl; lia) ltac:(constructor)) as [N E].
  rewrite it_entries_spec; auto. rewrite E. cbn [flat_map]. now rewrite app_nil_r.
Qed.

(* ---------- the byte comparison agrees with the bit-string order ---------- *)
Definition ltb_ok (a b : N) : bool := implb (a <? b) (bltb (byte_bits a) (byte_bits b)).
Lemma ltb_table : forallb (fun a => forallb (ltb_ok a) range256) range256 = true.
Proof. vm_compute. reflexivity. Qed.

Lemma byte_lt_bits a b : a < 256 -> b < 256 -> a < b -> blt (byte_bits a) (byte_bits b).
Proof.
  intros Ha Hb Hlt. pose proof ltb_table as T. rewrite forallb_forall in T.
  specialize (T a (in_range256 a Ha)). rewrite forallb_forall in T.
  specialize (T b (in_range256 b Hb)). unfold ltb_ok in T.
  apply N.ltb_lt in Hlt. rewrite Hlt in T. simpl in T. now apply bltb_spec.
Qed.

Lemma blt_app_lt a : forall b x y, length a = length b -> blt a b -> blt (a ++ x) (b ++ y).
Proof.
  induction a as [|c a IH]; intros b x y Hl H; inversion H; subst; simpl in *; try discriminate.
  - constructor.
  - constructor. apply IH; auto.
Qed.
Lemma blt_app_inv p : forall a b, blt (p ++ a) (p ++ b) -> blt a b.
Proof. induction p as [|c p IH]; simpl; auto. intros a b H. inversion H; subst; auto. Qed.

Lemma bytes_ltb_bits a : forall b, is_bytes a -> is_bytes b ->
  (bytes_ltb a b = true <-> blt (bytes_bits a) (bytes_bits b)).
Proof.
  induction a as [|x a IH]; intros [|y b] Ha Hb; cbn [bytes_ltb bytes_bits].
  - split; [discriminate|inversion 1].
  - split; [intros _; unfold byte_bits; simpl; constructor|reflexivity].
  - split; [discriminate|]. unfold byte_bits. simpl. inversion 1.
  - inversion Ha; inversion Hb; subst.
    destruct (N.ltb_spec x y) as [Hlt|Hge].
    + split; [intros _|reflexivity]. apply blt_app_lt; [reflexivity|]. now apply byte_lt_bits.
    + destruct (N.eqb_spec x y) as [->|Hne].
      * rewrite IH by assumption. split; [apply blt_app|apply blt_app_inv].
      * split; [discriminate|]. intros H. exfalso.
        assert (Hgt : y < x) by lia.
        eapply blt_asym; [exact H|]. apply blt_app_lt; [reflexivity|]. now apply byte_lt_bits.
Qed.

(* at the first differing position, the order is decided by the bit there *)
Lemma blt_at_lcp a : forall b, (lcp a b < length a)%nat -> (lcp a b < length b)%nat ->
  (blt a b <-> nth (lcp a b) b false = true).
Proof.
  induction a as [|x a IH]; intros [|y b]; simpl; try lia.
  destruct (Bool.eqb x y) eqn:E; intros H1 H2.
  - apply eqb_prop in E. subst y. simpl. rewrite <- IH by lia. split; [inversion 1; subst; auto|apply blt_tl].
  - simpl. destruct x, y; simpl in E; try discriminate.
    + split; [inversion 1|discriminate].
    + split; [reflexivity|constructor].
Qed.

Lemma cmp_at_divergence_holds q : canon q -> cmp_at_divergence q.
Proof.
  intros Cq nk Cn H1 H2.
  pose proof (canon_len nk Cn) as Ln. pose proof (canon_len q Cq) as Lq.
  destruct Cn as (Bn & Lnd & _). destruct Cq as (Bq & Lqd & _).
  unfold bits in *. rewrite lcp_firstn in *.
  pose proof (bytes_bits_length (fst nk)) as LBn. pose proof (bytes_bits_length (fst q)) as LBq.
  set (Bn' := bytes_bits (fst nk)) in *. set (Bq' := bytes_bits (fst q)) in *.
  set (L := lcp Bn' Bq') in *.
  assert (HL : Nat.min (Nat.min (N.to_nat (snd nk)) (N.to_nat (snd q))) L = L) by lia.
  rewrite HL in *.
  rewrite nth_firstn_lt by lia.
  assert (HB : is_bytes (key_bytes nk)) by (apply Forall_app; split; [exact Bn|apply be16_bytes]).
  pose proof (bytes_ltb_bits (key_bytes nk) (fst q) HB Bq) as Hiff.
  unfold key_bytes in Hiff. rewrite bytes_bits_app in Hiff. fold Bn' Bq' in Hiff.
  assert (Hl : lcp (Bn' ++ bytes_bits (be16 (snd nk))) Bq' = L) by (apply lcp_app_l; fold L; lia).
  pose proof (blt_at_lcp (Bn' ++ bytes_bits (be16 (snd nk))) Bq') as Hat. rewrite Hl in Hat.
  specialize (Hat ltac:(rewrite app_length; lia) ltac:(lia)).
  unfold key_bytes. destruct (bytes_ltb (fst nk ++ be16 (snd nk)) (fst q)) eqn:Eb.
  - symmetry. apply Hat. apply Hiff. reflexivity.
  - destruct (nth L Bq' false) eqn:En; [|reflexivity]. exfalso.
    assert (Ht : true = true) by reflexivity. apply Hat in Ht. apply Hiff in Ht. congruence.
Qed.

Theorem lowerBound_exact r q : canon q -> inv [] r ->
  it_entries (lowerBound r q) = filter (not_below q) (entries r).
Proof. intros Cq I. apply lowerBound_exact_partial; auto. now apply cmp_at_divergence_holds. Qed.
