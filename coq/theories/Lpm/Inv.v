(* Lpm/Inv.v — the trie invariant, the abstraction to a list of (prefix, value) entries,
   and the lemmas shared by the per-operation proofs. *)
From SV Require Import Base.Bytes Lpm.Model Lpm.Bits.
From Coq Require Import ZArith ZifyN ZifyNat ZifyBool.
Open Scope N_scope.

(* pre-order list of the real (non-imaginary) nodes: what Iterator.All yields from the root *)
Fixpoint entries (n : node) : list (lkey * N) :=
  match n with
  | Nil => []
  | Node k v i _ c0 c1 => (if i then [] else [(k, v)]) ++ entries c0 ++ entries c1
  end.

(* invariant of a subtree whose keys must extend the bit string p:
   canonical keys, children extend the parent's prefix by the branching bit,
   imaginary nodes have two children and the zero value *)
Fixpoint inv (p : list bool) (n : node) : Prop :=
  match n with
  | Nil => True
  | Node k v i _ c0 c1 =>
    canon k /\ is_pre p (bits k) /\ (i = true -> c0 <> Nil /\ c1 <> Nil /\ v = 0) /\
    inv (bits k ++ [false]) c0 /\ inv (bits k ++ [true]) c1
  end.

Definition b2n (b : bool) : nat := if b then 1%nat else 0%nat.

(* ---------- is_pre ---------- *)
Lemma is_pre_refl a : is_pre a a.
Proof. exists []. now rewrite app_nil_r. Qed.
Lemma is_pre_nil a : is_pre [] a.
Proof. now exists a. Qed.
Lemma is_pre_trans a b c : is_pre a b -> is_pre b c -> is_pre a c.
Proof. intros [r ->] [s ->]. exists (r ++ s). now rewrite app_assoc. Qed.
Lemma is_pre_len a b : is_pre a b -> (length a <= length b)%nat.
Proof. intros [r ->]. rewrite app_length. lia. Qed.
Lemma is_pre_app a r : is_pre a (a ++ r).
Proof. now exists r. Qed.
Lemma is_pre_snoc a x b : is_pre (a ++ [x]) b ->
  is_pre a b /\ nth (length a) b false = x /\ (length a < length b)%nat.
Proof.
  intros [r ->]. rewrite <- app_assoc. split; [apply is_pre_app|]. split.
  - rewrite app_nth2, Nat.sub_diag by lia. reflexivity.
  - rewrite !app_length. simpl. lia.
Qed.
Lemma is_pre_snoc_intro a b : is_pre a b -> (length a < length b)%nat ->
  is_pre (a ++ [nth (length a) b false]) b.
Proof.
  intros [r ->] H. rewrite app_length in H. destruct r as [|x r]; [simpl in H; lia|].
  rewrite app_nth2, Nat.sub_diag by lia. simpl. exists r. now rewrite <- app_assoc.
Qed.
Lemma is_pre_eq_len a b : is_pre a b -> length a = length b -> a = b.
Proof.
  intros [r ->] H. rewrite app_length in H. destruct r; [now rewrite app_nil_r|simpl in H; lia].
Qed.
Lemma lcp_ge_pre p a b : is_pre p a -> is_pre p b -> (length p <= lcp a b)%nat.
Proof. intros [r ->] [s ->]. rewrite lcp_app_same. lia. Qed.
Lemma is_pre_firstn n a : is_pre (firstn n a) a.
Proof. exists (skipn n a). now rewrite firstn_skipn. Qed.
Lemma is_pre_both p a n : is_pre p a -> (length p <= n)%nat -> is_pre p (firstn n a).
Proof.
  intros [r ->] H. rewrite firstn_app. exists (firstn (n - length p) r).
  now rewrite (firstn_all2 p) by lia.
Qed.

(* the four ways a node key K and a query Q relate, by L = lcp K Q *)
Lemma lcp_cases K Q :
  (lcp K Q = length K /\ lcp K Q = length Q /\ K = Q) \/
  (lcp K Q = length Q /\ (lcp K Q < length K)%nat /\ is_pre Q K) \/
  (lcp K Q = length K /\ (lcp K Q < length Q)%nat /\ is_pre K Q) \/
  ((lcp K Q < length K)%nat /\ (lcp K Q < length Q)%nat /\
   nth (lcp K Q) K false <> nth (lcp K Q) Q false).
Proof.
  pose proof (lcp_le_l K Q) as H1. pose proof (lcp_le_r K Q) as H2.
  destruct (Nat.eq_dec (lcp K Q) (length K)) as [E1|E1], (Nat.eq_dec (lcp K Q) (length Q)) as [E2|E2].
  - left. repeat split; auto. pose proof E1 as E3. apply lcp_pre in E3. apply is_pre_eq_len; auto. lia.
  - right; right; left. repeat split; auto; [lia|now apply lcp_pre].
  - right; left. repeat split; auto; [lia|]. rewrite lcp_comm in E2. now apply lcp_pre in E2.
  - right; right; right. repeat split; try lia. apply lcp_diverge; lia.
Qed.

(* ---------- inv / entries ---------- *)
Lemma inv_weaken p p' n : is_pre p' p -> inv p n -> inv p' n.
Proof.
  destruct n as [|k v i t c0 c1]; simpl; auto.
  intros Hp (C & P & R). split; [exact C|]. split; [eapply is_pre_trans; eauto|exact R].
Qed.

Lemma entries_pre n : forall p k w, inv p n -> In (k, w) (entries n) -> canon k /\ is_pre p (bits k).
Proof.
  induction n as [|nk nv ni nt c0 IH0 c1 IH1]; intros p k w H Hin; simpl in *; [tauto|].
  destruct H as (C & P & _ & I0 & I1). rewrite !in_app_iff in Hin. destruct Hin as [Hs|[H0|H1]].
  - destruct ni; simpl in Hs; [tauto|]. destruct Hs as [Hs|[]]. injection Hs as <- <-. auto.
  - destruct (IH0 _ _ _ I0 H0) as [Ck Pk]. split; auto.
    eapply is_pre_trans; [exact P|]. eapply is_pre_trans; [apply is_pre_app|exact Pk].
  - destruct (IH1 _ _ _ I1 H1) as [Ck Pk]. split; auto.
    eapply is_pre_trans; [exact P|]. eapply is_pre_trans; [apply is_pre_app|exact Pk].
Qed.

(* every entry of a subtree extends the key of its root node *)
Lemma entries_ext p nk nv ni nt c0 c1 k w : inv p (Node nk nv ni nt c0 c1) ->
  In (k, w) (entries (Node nk nv ni nt c0 c1)) -> canon k /\ is_pre (bits nk) (bits k).
Proof.
  intros H. apply entries_pre. simpl in *. destruct H as (C & P & R).
  split; [exact C|]. split; [apply is_pre_refl|exact R].
Qed.

(* the resumed longestMatch at a node below p, for a query below p *)
Lemma lm_step p nk q ml0 : canon nk -> canon q -> is_pre p (bits nk) -> is_pre p (bits q) ->
  (N.to_nat ml0 <= length p)%nat ->
  longestMatch ml0 nk (fst q) (snd q) = N.of_nat (lcp (bits nk) (bits q)).
Proof.
  intros Cn Cq Pn Pq H. apply longestMatch_spec; auto.
  pose proof (lcp_ge_pre _ _ _ Pn Pq). lia.
Qed.

Lemma snd_bits q : canon q -> snd q = N.of_nat (length (bits q)).
Proof. intros C. rewrite canon_len by assumption. lia. Qed.

(* keys below a child slot are strictly longer than the parent's key *)
Lemma below_child_ne K b k q : is_pre (K ++ [b]) (bits k) -> (length (bits q) <= length K)%nat -> k <> q.
Proof. intros H Hl ->. apply is_pre_len in H. rewrite app_length in H. simpl in H. lia. Qed.

(* keys below the other child differ from a query that takes this branch *)
Lemma other_child_ne K b k q : is_pre (K ++ [b]) (bits k) -> is_pre K (bits q) ->
  (length K < length (bits q))%nat -> nth (length K) (bits q) false <> b -> k <> q.
Proof. intros H Hq Hl Hb ->. apply is_pre_snoc in H as (_ & H & _). congruence. Qed.

(* ---------- tactics shared by the per-operation proofs ---------- *)
Ltac inv_pair := repeat match goal with
  | H : (_, _) = (?a, ?b) |- _ => injection H as ? ?; try subst a; try subst b
  end.

Ltac decide_conds E := repeat (match type of E with
  | (if ?c then _ else _) = _ =>
    match c with
    | context [N.eqb ?a ?b] => destruct (N.eqb_spec a b); try lia
    | context [N.ltb ?a ?b] => destruct (N.ltb_spec a b); try lia
    end
  end; cbn [orb andb negb] in E).

(* the common prelude at a node: rewrite the resumed longestMatch to the lcp of the bit views *)
Lemma node_facts p nk q ml0 : canon nk -> canon q -> is_pre p (bits nk) -> is_pre p (bits q) ->
  (N.to_nat ml0 <= length p)%nat ->
  longestMatch ml0 nk (fst q) (snd q) = N.of_nat (lcp (bits nk) (bits q)) /\
  kplen nk = N.of_nat (length (bits nk)) /\ snd q = N.of_nat (length (bits q)) /\
  (length p <= lcp (bits nk) (bits q))%nat.
Proof.
  intros Cn Cq Pn Pq H. split; [eapply lm_step; eauto|]. split; [now apply kplen_bits|].
  split; [now apply snd_bits|now apply lcp_ge_pre].
Qed.

(* strict lexicographic order on bit strings (false < true, a proper prefix is smaller):
   the order "(bits padded with zeros, length)" of the property *)
Inductive blt : list bool -> list bool -> Prop :=
| blt_nil : forall y ys, blt [] (y :: ys)
| blt_hd : forall xs ys, blt (false :: xs) (true :: ys)
| blt_tl : forall x xs ys, blt xs ys -> blt (x :: xs) (x :: ys).

Lemma blt_irrefl a : ~ blt a a.
Proof. induction a as [|x a IH]; inversion 1; subst; auto. Qed.
Lemma blt_app p : forall a b, blt a b -> blt (p ++ a) (p ++ b).
Proof. induction p; simpl; auto using blt_tl. Qed.
Lemma blt_pre a b : is_pre a b -> length a <> length b -> blt a b.
Proof.
  intros [r ->] H. rewrite <- (app_nil_r a) at 1. apply blt_app. destruct r; [rewrite app_nil_r in H; congruence|constructor].
Qed.
Lemma blt_fork p a b : is_pre (p ++ [false]) a -> is_pre (p ++ [true]) b -> blt a b.
Proof. intros [r ->] [s ->]. rewrite <- !app_assoc. apply blt_app. simpl. constructor. Qed.
Lemma blt_trans a : forall b c, blt a b -> blt b c -> blt a c.
Proof.
  induction a as [|x a IH]; intros b c H1 H2; inversion H1; subst; inversion H2; subst; try constructor; eauto.
Qed.
Lemma blt_total a : forall b, blt a b \/ a = b \/ blt b a.
Proof.
  induction a as [|x a IH]; intros [|y b]; auto using blt_nil.
  destruct x, y; auto using blt_hd; destruct (IH b) as [H|[->|H]]; auto using blt_tl.
Qed.
