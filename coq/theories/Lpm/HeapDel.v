(* Lpm/HeapDel.v — Txn.Delete on the heap (Lpm/Heap.v hdel: find loop, clone + mark, parents loop with
   compression and the early return) refines Lpm/Model.v del / txn_delete, writes in place only cells of
   the transaction's footprint, otherwise appends. *)
From SV Require Import Base.Bytes Lpm.Model Lpm.Cow Lpm.Heap Lpm.HeapBase Lpm.HeapIns.
From Coq Require Import ZArith List Bool Lia ZifyN ZifyNat ZifyBool.
Import ListNotations.
Open Scope N_scope.

Section Del.
Context {P : nat -> Prop}.
Local Notation trep := (@trep P).

Lemma trep_none_inv h tid t F : trep h tid None t F -> t = Nil /\ F = [].
Proof. intros T. inversion T. auto. Qed.
Lemma trep_some_inv h tid a t F : trep h tid (Some a) t F -> exists k v i d c0 c1, t = Node k v i d c0 c1.
Proof. intros T. inversion T; subst; eauto 10. Qed.
Lemma trep_is_some h tid p t F : trep h tid p t F -> is_some p = negb (is_nil t).
Proof. intros T. inversion T; reflexivity. Qed.

(* cell-level view of a node under trep: frozen or owned *)
Lemma trep_cell_inv h tid a t F : trep h tid (Some a) t F ->
  exists n c0 c1 F0 F1, nth_error h a = Some n /\
    t = Node (h_key n) (h_val n) (h_imag n) (h_id n) c0 c1 /\
    trep h tid (h_c0 n) c0 F0 /\ trep h tid (h_c1 n) c1 F1 /\ disj F0 F1 /\
    ((h_id n < tid /\ F = [] /\ F0 = [] /\ F1 = []) \/
     (h_id n = tid /\ F = a :: F0 ++ F1 /\ ~ In a (F0 ++ F1))).
Proof.
  intros T. inversion T as [|a' n c0 c1 Hn Hi HP T0 T1|a' n c0 c1 F0 F1 Hn Hi T0 T1 Na Dj]; subst.
  - exists n, c0, c1, [], []. repeat split; auto. intros x [].
  - exists n, c0, c1, F0, F1. repeat split; auto.
Qed.

Lemma hclone_a_cell h tid a n : nth_error h a = Some n -> forall h1 a1, hclone_a h tid a = (h1, a1) ->
  (h_id n = tid /\ h1 = h /\ a1 = a) \/ (h_id n <> tid /\ h1 = h ++ [set_id n tid] /\ a1 = length h).
Proof.
  intros Hn h1 a1 E. unfold hclone_a in E. rewrite (hget_some _ _ _ Hn) in E.
  destruct (h_id n =? tid) eqn:Ei; injection E as <- <-; [left|right]; repeat split; auto; lia.
Qed.

(* the switch on an imaginary node *)
Lemma hcompress_spec h tid a t F : trep h tid (Some a) t F ->
  exists F', trep h tid (hcompress h a) (compress t) F' /\ (forall x, In x F' -> In x F).
Proof.
  intros T. destruct (trep_cell_inv _ _ _ _ _ T) as (n & c0 & c1 & F0 & F1 & Hn & -> & T0 & T1 & Dj & Hc).
  unfold hcompress. rewrite (hget_some _ _ _ Hn). cbn [compress].
  destruct (h_imag n); [|exists F; auto].
  assert (S0 : forall x, In x F0 -> In x F).
  { intros x Hx. destruct Hc as [(_ & _ & -> & _)|(_ & -> & _)]; [destruct Hx|right; apply in_or_app; auto]. }
  assert (S1 : forall x, In x F1 -> In x F).
  { intros x Hx. destruct Hc as [(_ & _ & _ & ->)|(_ & -> & _)]; [destruct Hx|right; apply in_or_app; auto]. }
  destruct (h_c0 n) as [p0|], (h_c1 n) as [p1|].
  - destruct (trep_some_inv _ _ _ _ _ T0) as (k0 & v0 & i0 & d0 & c00 & c01 & ->).
    destruct (trep_some_inv _ _ _ _ _ T1) as (k1 & v1 & i1 & d1 & c10 & c11 & ->).
    exists F. auto.
  - destruct (trep_some_inv _ _ _ _ _ T0) as (k0 & v0 & i0 & d0 & c00 & c01 & ->).
    destruct (trep_none_inv _ _ _ _ T1) as (-> & ->). exists F0. auto.
  - destruct (trep_none_inv _ _ _ _ T0) as (-> & ->).
    destruct (trep_some_inv _ _ _ _ _ T1) as (k1 & v1 & i1 & d1 & c10 & c11 & ->). exists F1. auto.
  - destruct (trep_none_inv _ _ _ _ T0) as (-> & ->). destruct (trep_none_inv _ _ _ _ T1) as (-> & ->).
    exists []. split; [constructor|intros x []].
Qed.

(* Delete's early return is never taken inside a frozen subtree *)
Lemma del_frozen_nostop h tid kd kpl p t F : trep h tid p t F -> F = [] -> forall ml,
  match del tid kd kpl ml t with Some (_, _, true) => False | _ => True end.
Proof.
  induction 1 as [|a n c0 c1 Hn Hi HP _ IH0 _ IH1|a n c0 c1 F0 F1 Hn Hi _ IH0 _ IH1 Na Dj]; intros EF ml;
    [exact I| |discriminate].
  cbn [del]. set (m := longestMatch ml (h_key n) kd kpl).
  destruct ((m =? kpl) && (m =? kplen (h_key n)))%bool; [destruct (h_imag n); exact I|].
  destruct (m <? kplen (h_key n)); [exact I|].
  destruct (getBitAt kd m); cbn [child set_child].
  - specialize (IH1 eq_refl m). destruct (del tid kd kpl m c1) as [[[c v'] [|]]|]; [exact IH1| |exact I].
    replace (h_id n =? tid) with false by lia. exact I.
  - specialize (IH0 eq_refl m). destruct (del tid kd kpl m c0) as [[[c v'] [|]]|]; [exact IH0| |exact I].
    replace (h_id n =? tid) with false by lia. exact I.
Qed.

(* Model.del, descending case, in child/other form *)
Lemma del_descend_eq tid kd kpl m nk nv ni nt (idx : bool) c0 c1 :
  match del tid kd kpl m (child idx c0 c1) with
  | None => None
  | Some (c, v, true) =>
    let (d0, d1) := set_child idx c c0 c1 in Some (Node nk nv ni nt d0 d1, v, true)
  | Some (c, v, false) =>
    let (d0, d1) := set_child idx (compress c) c0 c1 in
    Some (Node nk nv ni tid d0 d1, v, (nt =? tid) && ni && negb (is_nil d0) && negb (is_nil d1))
  end =
  let to := child (negb idx) c0 c1 in
  match del tid kd kpl m (child idx c0 c1) with
  | None => None
  | Some (c, v, true) => Some (Node nk nv ni nt (if idx then to else c) (if idx then c else to), v, true)
  | Some (c, v, false) =>
    Some (Node nk nv ni tid (if idx then to else compress c) (if idx then compress c else to), v,
          (nt =? tid) && ni && negb (is_nil (if idx then to else compress c)) && negb (is_nil (if idx then compress c else to)))
  end.
Proof. destruct idx; cbn [child negb set_child]; reflexivity. Qed.

(* what a sub-run establishes for the subtree with footprint F of the original heap h *)
Definition dpost (h : heap) (tid : N) (F : list nat) (h' : heap) (q : option nat) (t' : node) : Prop :=
  exists F', trep h' tid q t' F' /\ (forall x, In x F' -> In x F \/ (length h <= x)%nat) /\
             (length h <= length h')%nat /\ agree_ex h h' F.

(* one round of the parents loop *)
Lemma hdel_step h tid a n idx tb Fb to Fo Fa h' node' c' :
  nth_error h a = Some n -> h_id n <= tid ->
  trep h tid (get_c n idx) tb Fb -> trep h tid (get_c n (negb idx)) to Fo -> disj Fb Fo ->
  (forall x, In x Fb -> In x Fa) -> (forall x, In x Fo -> In x Fa) -> ~ In a Fb -> ~ In a Fo ->
  (h_id n = tid -> In a Fa) ->
  dpost h tid Fb h' (Some node') c' ->
  forall root ps, exists h'' parent,
    let d := compress c' in
    let t'' := Node (h_key n) (h_val n) (h_imag n) tid (if idx then to else d) (if idx then d else to) in
    let stop := (h_id n =? tid) && h_imag n && negb (is_nil (if idx then to else d)) && negb (is_nil (if idx then d else to)) in
    hdel_up tid h' root node' ((a, idx) :: ps) = (if stop then (h'', root) else hdel_up tid h'' root parent ps) /\
    (stop = true -> parent = a) /\ dpost h tid Fa h'' (Some parent) t''.
Proof.
  intros Hn Hle Tb To Dj SubB SubO NaB NaO OwnA (F' & T' & SubF & L' & A') root ps.
  assert (La : (a < length h)%nat) by (eapply nth_error_lt; eauto).
  assert (Hn' : nth_error h' a = Some n) by (apply A'; auto).
  assert (LFo : forall x, In x Fo -> (x < length h)%nat).
  { intros x Hx. destruct (trep_F_cell _ _ _ _ _ To x Hx) as (n' & Hn'' & _). eapply nth_error_lt; eauto. }
  assert (NaF' : ~ In a F').
  { intros Hx. destruct (SubF _ Hx) as [Hy|Hy]; [auto|lia]. }
  cbn [hdel_up]. rewrite (hget_some _ _ _ Hn').
  destruct (hclone_a h' tid a) as [h1 parent] eqn:Ec.
  assert (Par : exists npar, nth_error h1 parent = Some npar /\ h_id npar = tid /\
            h_key npar = h_key n /\ h_val npar = h_val n /\ h_imag npar = h_imag n /\
            h_c0 npar = h_c0 n /\ h_c1 npar = h_c1 n /\ agree_ex h' h1 [] /\ (length h' <= length h1)%nat /\
            ~ In parent F' /\ ~ In parent Fo /\ (In parent Fa \/ (length h <= parent)%nat) /\
            (h_id n = tid -> parent = a) /\ (parent = a \/ (length h <= parent)%nat)).
  { destruct (hclone_a_cell _ _ _ _ Hn' _ _ Ec) as [(Hi & -> & ->)|(Hi & -> & ->)].
    - exists n. repeat split; auto using agree_ex_refl.
    - exists (set_id n tid). rewrite app_length. cbn [length].
      repeat split; auto using agree_ex_app, nth_error_app_new; try lia.
      + intros Hx. destruct (trep_F_cell _ _ _ _ _ T' _ Hx) as (n' & Hn'' & _). apply nth_error_lt in Hn''. lia.
      + intros Hx. specialize (LFo _ Hx). lia. }
  destruct Par as (npar & Hp & Hip & Ek & Ev & Ei & E0 & E1 & A1 & L1 & NpF' & NpO & PFa & POwn & Pwhere).
  rewrite (hget_some _ _ _ Hp).
  assert (T1 : trep h1 tid (Some node') c' F').
  { eapply (trep_frame_W _ _ _ _ _ _ []); [exact T'|exact A1|intros x []|intros w n' []]. }
  destruct (hcompress_spec _ _ _ _ _ T1) as (Fd & Td & SubD).
  set (c := hcompress h1 node') in *.
  set (h2 := upd h1 parent (set_c npar idx c)).
  assert (Lp : (parent < length h1)%nat) by (eapply nth_error_lt; eauto).
  assert (Hp2 : nth_error h2 parent = Some (set_c npar idx c)) by (apply nth_error_upd_eq; exact Lp).
  rewrite (hget_some _ _ _ Hp2).
  assert (A2 : agree_ex h1 h2 [parent]) by apply agree_ex_upd.
  assert (Td2 : trep h2 tid c (compress c') Fd).
  { eapply (trep_frame_W _ _ _ _ _ _ [parent]); [exact Td|exact A2| |].
    - intros x [<-|[]] Hx. auto.
    - intros w n' [<-|[]] Hw. congruence. }
  assert (A02 : agree_ex h h2 (Fb ++ [] ++ [parent])).
  { eapply agree_ex_trans; [exact A'|eapply agree_ex_trans; [exact A1|exact A2]]. }
  assert (To2 : trep h2 tid (get_c npar (negb idx)) to Fo).
  { replace (get_c npar (negb idx)) with (get_c n (negb idx)) by (destruct idx; cbn [negb get_c]; congruence).
    eapply (trep_frame_W _ _ _ _ _ _ _ To A02).
    - intros x Hx Hy. apply in_app_or in Hx as [Hx|[Hx|[]]]; [exact (Dj x Hx Hy)|subst x; auto].
    - intros w n' Hx Hw. apply in_app_or in Hx as [Hx|[Hx|[]]].
      + destruct (trep_F_cell _ _ _ _ _ Tb w Hx) as (n'' & Hn'' & Hi''). congruence.
      + subst w. destruct Pwhere as [->|Hl]; [|apply nth_error_lt in Hw; lia].
        assert (n' = n) by congruence. subst n'.
        destruct (hclone_a_cell _ _ _ _ Hn' _ _ Ec) as [(Hi & _)|(_ & _ & Hl)]; [exact Hi|lia]. }
  assert (DjD : disj Fd Fo).
  { intros x Hx Hy. destruct (SubF _ (SubD _ Hx)) as [Hz|Hz]; [exact (Dj x Hz Hy)|specialize (LFo _ Hy); lia]. }
  destruct (trep_rebuild h2 tid parent npar idx c (compress c') Fd to Fo Hp2 Hip Td2 To2) as (F'' & T'' & HF''); auto.
  rewrite Ek, Ev, Ei in T''.
  exists h2, parent. cbn zeta. split; [|split].
  - replace (h_imag (set_c npar idx c)) with (h_imag n) by (destruct idx; cbn [set_c h_imag]; congruence).
    replace (is_some (h_c0 (set_c npar idx c))) with (negb (is_nil (if idx then to else compress c'))).
    2:{ destruct idx; cbn [set_c h_c0 negb get_c] in *.
        - symmetry. eapply trep_is_some; eauto.
        - symmetry. eapply trep_is_some; eauto. }
    replace (is_some (h_c1 (set_c npar idx c))) with (negb (is_nil (if idx then compress c' else to))).
    2:{ destruct idx; cbn [set_c h_c1 negb get_c] in *.
        - symmetry. eapply trep_is_some; eauto.
        - symmetry. eapply trep_is_some; eauto. }
    reflexivity.
  - intros Hs. apply POwn. destruct (h_id n =? tid) eqn:Eid; [lia|discriminate].
  - exists F''. split; [exact T''|]. split; [|split].
    + intros x Hx. apply HF'' in Hx as [->|[Hx|Hx]]; [exact PFa| |left; auto].
      destruct (SubF _ (SubD _ Hx)) as [Hz|Hz]; auto.
    + unfold h2. rewrite upd_length. lia.
    + eapply agree_ex_weaken_lt; [exact A02|]. intros x Hx Lx.
      apply in_app_or in Hx as [Hx|[Hx|[]]]; [auto|]. subst x.
      destruct PFa as [H|H]; [exact H|lia].
Qed.

(* node = txn.clone(node); node.value = zero; node.imaginary = true *)
Definition hmark (h : heap) (tid : N) (a : nat) : heap * nat :=
  let (h1, a1) := hclone_a h tid a in
  let n1 := hget h1 a1 in
  (upd h1 a1 (mkH (h_key n1) 0 true (h_id n1) (h_c0 n1) (h_c1 n1)), a1).

Lemma hdel_unfold tid kd kpl h root :
  hdel tid kd kpl h root =
  match hdel_find (length h) kd kpl h root 0 [] with
  | None => None
  | Some (a, parents) =>
    let (h2, a1) := hmark h tid a in
    let (h3, r) := hdel_up tid h2 root a1 parents in Some (h3, r, h_val (hget h a))
  end.
Proof.
  unfold hdel, hmark. destruct (hdel_find (length h) kd kpl h root 0 []) as [[a ps]|]; [|reflexivity].
  destruct (hclone_a h tid a) as [h1 a1]. reflexivity.
Qed.

Lemma hmark_spec h tid a n c0 c1 F0 F1 F :
  nth_error h a = Some n -> trep h tid (h_c0 n) c0 F0 -> trep h tid (h_c1 n) c1 F1 -> disj F0 F1 ->
  ((h_id n < tid /\ F = [] /\ F0 = [] /\ F1 = []) \/ (h_id n = tid /\ F = a :: F0 ++ F1 /\ ~ In a (F0 ++ F1))) ->
  forall h2 a1, hmark h tid a = (h2, a1) ->
  dpost h tid F h2 (Some a1) (Node (h_key n) 0 true tid c0 c1).
Proof.
  intros Hn T0 T1 Dj Hc h2 a1 E. unfold hmark in E.
  destruct (hclone_a h tid a) as [h1 a1'] eqn:Ec.
  assert (La : (a < length h)%nat) by (eapply nth_error_lt; eauto).
  destruct (hclone_a_cell _ _ _ _ Hn _ _ Ec) as [(Hi & -> & ->)|(Hi & -> & ->)].
  - destruct Hc as [(Hlt & _)|(_ & -> & Na)]; [lia|].
    rewrite (hget_some _ _ _ Hn) in E. injection E as <- <-.
    set (n' := mkH (h_key n) 0 true (h_id n) (h_c0 n) (h_c1 n)).
    assert (Fr : forall p t F, trep h tid p t F -> ~ In a F -> trep (upd h a n') tid p t F).
    { intros p t F T NF. eapply (trep_frame_W _ _ _ _ _ _ [a]); [exact T|apply agree_ex_upd| |].
      - intros x [<-|[]] Hx. auto.
      - intros w m [<-|[]] Hw. congruence. }
    exists (a :: F0 ++ F1). split.
    + apply (tr_own _ _ a n' c0 c1 F0 F1); [apply nth_error_upd_eq; exact La|exact Hi| | |exact Na|exact Dj].
      * cbn [n' h_c0]. apply Fr; auto. intros Hx. apply Na, in_or_app. auto.
      * cbn [n' h_c1]. apply Fr; auto. intros Hx. apply Na, in_or_app. auto.
    + split; [auto|]. split; [rewrite upd_length; lia|].
      eapply agree_ex_weaken; [apply agree_ex_upd|]. intros x [<-|[]]. now left.
  - destruct Hc as [(Hlt & -> & -> & ->)|(Hi' & _)]; [|congruence].
    rewrite (hget_some _ _ _ (nth_error_app_new h (set_id n tid))) in E. cbn [set_id h_key h_id h_c0 h_c1] in E.
    injection E as <- <-.
    set (n' := mkH (h_key n) 0 true tid (h_c0 n) (h_c1 n)).
    set (h1 := h ++ [set_id n tid]).
    assert (L1 : length h1 = S (length h)) by (unfold h1; rewrite app_length; simpl; lia).
    assert (Fr : forall p t, trep h tid p t [] -> trep (upd h1 (length h) n') tid p t []).
    { intros p t T. eapply (trep_frame_W _ _ _ _ _ _ [length h]); [apply trep_app; exact T|apply agree_ex_upd| |].
      - intros x _ [].
      - intros w m [<-|[]] Hw. unfold h1 in Hw. rewrite nth_error_app_new in Hw. injection Hw as <-. reflexivity. }
    exists (length h :: [] ++ []). split.
    + apply (tr_own _ _ (length h) n' c0 c1 [] []); [apply nth_error_upd_eq; lia|reflexivity| | |intros []|intros x []].
      * cbn [n' h_c0]. apply Fr; auto.
      * cbn [n' h_c1]. apply Fr; auto.
    + split; [intros x [<-|[]]; right; lia|]. split; [rewrite upd_length; lia|].
      intros x m Hx _. rewrite nth_error_upd_neq; [now apply nth_error_app_old|].
      apply nth_error_lt in Hx. lia.
Qed.

Lemma hdel_find_none f kd kpl h ml ps : hdel_find f kd kpl h None ml ps = None.
Proof. destruct f; reflexivity. Qed.

(* the find loop and the parents loop against Model.del, by induction on the tree *)
Lemma hdel_main h tid kd kpl : forall t p F fuel ml ps, trep h tid p t F -> (height t <= fuel)%nat ->
  match del tid kd kpl ml t with
  | None => hdel_find fuel kd kpl h p ml ps = None
  | Some (t', v, stopped) =>
    exists tgt ps' ntg, hdel_find fuel kd kpl h p ml ps = Some (tgt, ps' ++ ps) /\
      nth_error h tgt = Some ntg /\ h_val ntg = v /\
      forall root h2 a1, hmark h tid tgt = (h2, a1) ->
        if stopped then exists h', hdel_up tid h2 root a1 (ps' ++ ps) = (h', root) /\ dpost h tid F h' p t'
        else exists h' node', hdel_up tid h2 root a1 (ps' ++ ps) = hdel_up tid h' root node' ps /\
                              dpost h tid F h' (Some node') t'
  end.
Proof.
  induction t as [|nk nv ni nt c0 IH0 c1 IH1]; intros p F fuel ml ps T Hh.
  - inversion T; subst. cbn [del]. apply hdel_find_none.
  - destruct p as [a|]; [|inversion T].
    destruct fuel as [|f]; [simpl in Hh; lia|].
    destruct (trep_cell_inv _ _ _ _ _ T) as (n & c0' & c1' & F0 & F1 & Hn & Et & T0 & T1 & Dj & Hc).
    injection Et as Ek Ev Ei Ed E0 E1. subst nk nv ni nt c0' c1'.
    cbn [del hdel_find]. rewrite (hget_some _ _ _ Hn).
    set (m := longestMatch ml (h_key n) kd kpl).
    destruct ((m =? kpl) && (m =? kplen (h_key n)))%bool.
    { destruct (h_imag n); [reflexivity|].
      exists a, [], n. cbn [app]. split; [reflexivity|]. split; [exact Hn|]. split; [reflexivity|].
      intros root h2 a1 Em. exists h2, a1. split; [reflexivity|].
      eapply hmark_spec; eauto. }
    destruct (m <? kplen (h_key n)); [reflexivity|].
    set (idx := getBitAt kd m).
    rewrite (del_descend_eq tid kd kpl m (h_key n) (h_val n) (h_imag n) (h_id n) idx c0 c1). cbn zeta.
    pose proof (trep_children_b _ _ _ _ _ _ _ idx T0 T1) as Tb.
    pose proof (trep_children_b _ _ _ _ _ _ _ (negb idx) T0 T1) as To.
    set (tb := child idx c0 c1) in *. set (Fb := if idx then F1 else F0) in *.
    set (to := child (negb idx) c0 c1) in *. set (Fo := if negb idx then F1 else F0) in *.
    assert (Facts : h_id n <= tid /\ disj Fb Fo /\ (forall x, In x Fb -> In x F) /\ (forall x, In x Fo -> In x F) /\
                    ~ In a Fb /\ ~ In a Fo /\ (h_id n = tid -> In a F) /\ (h_id n < tid -> Fb = [])).
    { split; [destruct Hc as [(H & _)|(H & _)]; lia|]. split.
      { subst Fb Fo. destruct idx; cbn [negb]; intros x Hx Hy; [exact (Dj x Hy Hx)|exact (Dj x Hx Hy)]. }
      destruct Hc as [(Hlt & -> & -> & ->)|(Hi & -> & Na)].
      - subst Fb Fo. destruct idx; cbn [negb]; repeat split; auto; lia.
      - subst Fb Fo. destruct idx; cbn [negb]; (split; [|split; [|split; [|split; [|split]]]]);
          try (intros x Hx; right; apply in_or_app; auto); try (intros Hx; apply Na, in_or_app; auto);
          try (intros _; now left); try (intros; lia). }
    destruct Facts as (Hle & DjB & SubB & SubO & NaB & NaO & OwnA & OldB).
    assert (IHc : forall p F fuel ml ps, trep h tid p tb F -> (height tb <= fuel)%nat ->
      match del tid kd kpl ml tb with
      | None => hdel_find fuel kd kpl h p ml ps = None
      | Some (t', v, stopped) =>
        exists tgt ps' ntg, hdel_find fuel kd kpl h p ml ps = Some (tgt, ps' ++ ps) /\
          nth_error h tgt = Some ntg /\ h_val ntg = v /\
          forall root h2 a1, hmark h tid tgt = (h2, a1) ->
            if stopped then exists h', hdel_up tid h2 root a1 (ps' ++ ps) = (h', root) /\ dpost h tid F h' p t'
            else exists h' node', hdel_up tid h2 root a1 (ps' ++ ps) = hdel_up tid h' root node' ps /\
                                  dpost h tid F h' (Some node') t'
      end) by (subst tb; destruct idx; assumption).
    assert (Hhb : (height tb <= f)%nat) by (subst tb; destruct idx; cbn [child height] in *; lia).
    specialize (IHc (get_c n idx) Fb f m ((a, idx) :: ps) Tb Hhb).
    pose proof (fun E => del_frozen_nostop h tid kd kpl _ _ _ Tb E m) as NoStop.
    destruct (del tid kd kpl m tb) as [[[c' v'] st]|]; [|exact IHc].
    destruct IHc as (tgt & ps' & ntg & Ef & Hntg & Hv & Hup).
    destruct st.
    + (* early return taken below: this node is owned and stays as it is *)
      exists tgt, (ps' ++ [(a, idx)]), ntg. rewrite <- app_assoc. cbn [app].
      split; [exact Ef|]. split; [exact Hntg|].
      split; [exact Hv|]. intros root h2 a1 Em.
      destruct (Hup root h2 a1 Em) as (h' & Eup & (F' & T' & SubF & L' & A')).
      exists h'. split; [exact Eup|].
      assert (Hi : h_id n = tid).
      { destruct (N.eq_dec (h_id n) tid) as [H|H]; [exact H|]. exfalso. apply NoStop, OldB. lia. }
      rewrite Hi.
      assert (La : (a < length h)%nat) by (eapply nth_error_lt; eauto).
      assert (Hn' : nth_error h' a = Some (set_c n idx (get_c n idx))) by (rewrite set_c_get; apply A'; auto).
      assert (LFo : forall x, In x Fo -> (x < length h)%nat).
      { intros x Hx. destruct (trep_F_cell _ _ _ _ _ To x Hx) as (n' & Hn'' & _). eapply nth_error_lt; eauto. }
      assert (To' : trep h' tid (get_c n (negb idx)) to Fo).
      { eapply (trep_frame_W _ _ _ _ _ _ _ To A').
        - exact DjB.
        - intros w n' Hx Hw. destruct (trep_F_cell _ _ _ _ _ Tb w Hx) as (n'' & Hn'' & Hi''). congruence. }
      destruct (trep_rebuild h' tid a n idx (get_c n idx) c' F' to Fo Hn' Hi T' To') as (F'' & T'' & HF''); auto.
      * intros Hx. destruct (SubF _ Hx) as [Hy|Hy]; [auto|lia].
      * intros x Hx Hy. destruct (SubF _ Hx) as [Hz|Hz]; [exact (DjB x Hz Hy)|specialize (LFo _ Hy); lia].
      * exists F''. split; [exact T''|]. split; [|split; [lia|]].
        -- intros x Hx. apply HF'' in Hx as [->|[Hx|Hx]]; [left; auto| |left; auto].
           destruct (SubF _ Hx) as [Hz|Hz]; auto.
        -- eapply agree_ex_weaken; [exact A'|]. exact SubB.
    + exists tgt, (ps' ++ [(a, idx)]), ntg. rewrite <- app_assoc. cbn [app].
      split; [exact Ef|]. split; [exact Hntg|].
      split; [exact Hv|]. intros root h2 a1 Em.
      destruct (Hup root h2 a1 Em) as (h' & node' & Eup & Dp).
      destruct (hdel_step h tid a n idx tb Fb to Fo F h' node' c' Hn Hle Tb To DjB SubB SubO NaB NaO OwnA Dp root ps)
        as (h'' & parent & Estep & Pa & Dp'').
      cbn zeta in Estep, Pa, Dp''. rewrite Eup, Estep.
      destruct ((h_id n =? tid) && h_imag n && negb (is_nil (if idx then to else compress c')) &&
                negb (is_nil (if idx then compress c' else to)))%bool.
      * exists h''. split; [reflexivity|]. rewrite <- (Pa eq_refl). exact Dp''.
      * exists h'', parent. split; [reflexivity|exact Dp''].
Qed.

(* ---------- Txn.Delete ---------- *)
Theorem hdel_spec tid kd kpl h root t F : trep h tid root t F ->
  match del tid kd kpl 0 t with
  | None => hdel tid kd kpl h root = None
  | Some (t', v, stopped) =>
    exists h' r', hdel tid kd kpl h root = Some (h', r', v) /\
                  dpost h tid F h' r' (if stopped then t' else compress t')
  end.
Proof.
  intros T. rewrite hdel_unfold.
  assert (Hh : (height t <= length h)%nat) by (eapply rep_height, trep_rep; eauto).
  pose proof (hdel_main h tid kd kpl t root F (length h) 0 [] T Hh) as M.
  destruct (del tid kd kpl 0 t) as [[[t' v] st]|]; [|rewrite M; reflexivity].
  destruct M as (tgt & ps' & ntg & Ef & Hntg & Hv & Hup). rewrite Ef.
  destruct (hmark h tid tgt) as [h2 a1] eqn:Em. specialize (Hup root h2 a1 eq_refl).
  rewrite (hget_some _ _ _ Hntg), Hv. destruct st.
  - destruct Hup as (h' & Eup & Dp). rewrite Eup. exists h', root. auto.
  - destruct Hup as (h' & node' & Eup & (F' & T' & SubF & L' & A')). rewrite Eup. cbn [hdel_up].
    destruct (hcompress_spec _ _ _ _ _ T') as (Fd & Td & SubD).
    exists h', (hcompress h' node'). split; [reflexivity|]. exists Fd. auto.
Qed.
End Del.
