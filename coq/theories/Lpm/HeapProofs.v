(* Lpm/HeapProofs.v — transaction-level theorems about the heap model Lpm/Heap.v:
   (a) refinement: Insert / Delete on the heap compute what Lpm/Model.v computes on the denoted tree;
   (b) ownership: reachable cells carrying the txn id are exactly the cells the txn allocated since
       its last id bump; in-place writes hit only those; everything else is append;
   (c) persistence: whatever is reachable outside the own-sets of the live transactions denotes the
       same tree after any interleaving of operations of two transactions on the same heap;
   (d) refutation of the variants without the id bump. *)
From SV Require Import Base.Bytes Lpm.Model Lpm.Cow Lpm.Heap Lpm.HeapBase Lpm.HeapIns Lpm.HeapDel Lpm.HeapIds.
From Coq Require Import ZArith List Bool Lia ZifyN ZifyNat ZifyBool.
Import ListNotations.
Open Scope N_scope.

(* ---------- the invariant of one transaction ---------- *)
Definition own_cell (h : heap) (tid : N) (a : nat) : Prop :=
  exists n, nth_error h a = Some n /\ h_id n = tid.

(* P: a predicate satisfied by the frozen cells under the root (cells of other owners excluded) *)
Definition hinv (P : nat -> Prop) (h : heap) (x : htxn) : Prop :=
  exists t F, @trep P h (x_id x) (x_root x) t F /\ (forall a, In a F -> In a (x_own x)) /\
              (forall a, In a (x_own x) -> own_cell h (x_id x) a).

(* what an operation of transaction x does to the heap *)
Definition frame (h h' : heap) (own : list nat) : Prop :=
  (length h <= length h')%nat /\
  forall a, (a < length h)%nat -> ~ In a own -> nth_error h' a = nth_error h a.

Lemma in_fresh h h' a : In a (fresh h h') <-> (length h <= a < length h')%nat.
Proof. unfold fresh. rewrite in_seq. lia. Qed.

Lemma hinv_den P h x : hinv P h x -> exists t F, @trep P h (x_id x) (x_root x) t F /\ den h (x_root x) = t.
Proof. intros (t & F & T & _). exists t, F. split; [exact T|]. eapply rep_den, trep_rep; eauto. Qed.

Lemma op_finish P h tid root t F own h' r' t' F' sz :
  @trep P h tid root t F -> (forall a, In a F -> In a own) -> (forall a, In a own -> own_cell h tid a) ->
  @trep P h' tid r' t' F' -> (forall x, In x F' -> In x F \/ (length h <= x)%nat) ->
  (length h <= length h')%nat -> agree_ex h h' F -> ids_pres tid h h' ->
  hinv P h' (mkHTxn r' sz tid (own ++ fresh h h')) /\ frame h h' own.
Proof.
  intros T SubO OC T' SubF L A (_ & I2 & I3). split.
  - exists t', F'. cbn [x_id x_root x_own]. split; [exact T'|]. split.
    + intros a Ha. apply in_or_app. destruct (SubF _ Ha) as [H|H]; [left; auto|right].
      apply in_fresh. destruct (trep_F_cell _ _ _ _ _ T' a Ha) as (n & Hn & _). apply nth_error_lt in Hn. lia.
    + intros a Ha. apply in_app_or in Ha as [Ha|Ha].
      * destruct (OC _ Ha) as (n & Hn & Hi). destruct (I2 _ _ Hn) as (n' & Hn' & Hi'). exists n'. split; [auto|congruence].
      * apply in_fresh in Ha. destruct (nth_error h' a) as [n'|] eqn:E; [|apply nth_error_None in E; lia].
        exists n'. split; [exact E|]. eapply I3; eauto. lia.
  - split; [exact L|]. intros a La Na. eapply agree_ex_length; eauto.
Qed.

(* ---------- (a) refinement and (b) frame, Insert ---------- *)
Theorem htxn_insert_spec P h x k v : hinv P h x ->
  hinv P (fst (htxn_insert h x k v)) (snd (htxn_insert h x k v)) /\
  habs (fst (htxn_insert h x k v)) (snd (htxn_insert h x k v)) = txn_insert (habs h x) k v /\
  frame h (fst (htxn_insert h x k v)) (x_own x) /\
  x_id (snd (htxn_insert h x k v)) = x_id x /\
  x_own (snd (htxn_insert h x k v)) = x_own x ++ fresh h (fst (htxn_insert h x k v)).
Proof.
  intros (t & F & T & SubO & OC). unfold htxn_insert.
  pose proof (hins_ids (x_id x) (fst k) (snd k) v h (x_root x)) as Ids.
  destruct (hins (x_id x) (fst k) (snd k) v h (x_root x)) as [[h' r'] inc] eqn:E. cbn [fst snd] in *.
  destruct (hins_spec _ _ _ _ _ _ _ _ T _ _ _ E) as (F' & Ei & T' & SubF & L & A).
  destruct (op_finish P h (x_id x) (x_root x) t F (x_own x) h' r' _ F' (if inc then x_size x + 1 else x_size x)
              T SubO OC T' SubF L A Ids) as (HI & FR).
  split; [exact HI|]. split; [|auto].
  unfold habs, txn_insert. cbn [x_root x_size x_id t_root t_size t_id].
  rewrite (rep_den _ _ _ (trep_rep _ _ _ _ _ T)), (rep_den _ _ _ (trep_rep _ _ _ _ _ T')).
  rewrite Ei. reflexivity.
Qed.

(* ---------- Delete ---------- *)
Theorem htxn_delete_spec P h x k : hinv P h x ->
  hinv P (fst (fst (htxn_delete h x k))) (snd (fst (htxn_delete h x k))) /\
  (habs (fst (fst (htxn_delete h x k))) (snd (fst (htxn_delete h x k))), snd (htxn_delete h x k)) = txn_delete (habs h x) k /\
  frame h (fst (fst (htxn_delete h x k))) (x_own x) /\
  x_id (snd (fst (htxn_delete h x k))) = x_id x /\
  x_own (snd (fst (htxn_delete h x k))) = x_own x ++ fresh h (fst (fst (htxn_delete h x k))).
Proof.
  intros HI. pose proof HI as (t & F & T & SubO & OC). unfold htxn_delete.
  pose proof (hdel_ids (x_id x) (fst k) (snd k) h (x_root x)) as Ids.
  pose proof (hdel_spec (P := P) (x_id x) (fst k) (snd k) h (x_root x) t F T) as S.
  unfold habs at 2, txn_delete. cbn [t_root t_size t_id].
  rewrite (rep_den _ _ _ (trep_rep _ _ _ _ _ T)).
  destruct (del (x_id x) (fst k) (snd k) 0 t) as [[[t' v] st]|].
  - destruct S as (h' & r' & E & (F' & T' & SubF & L & A)). rewrite E in *. cbn [fst snd].
    destruct (op_finish P h (x_id x) (x_root x) t F (x_own x) h' r' _ F' (x_size x - 1)
                T SubO OC T' SubF L A Ids) as (HI' & FR).
    split; [exact HI'|]. split; [|auto].
    unfold habs. cbn [x_root x_size x_id]. rewrite (rep_den _ _ _ (trep_rep _ _ _ _ _ T')). reflexivity.
  - rewrite S. cbn [fst snd]. split; [exact HI|]. split.
    + unfold habs. rewrite (rep_den _ _ _ (trep_rep _ _ _ _ _ T)). destruct x; reflexivity.
    + split; [split; [lia|auto]|]. split; [reflexivity|].
      unfold fresh. rewrite Nat.sub_diag. cbn [seq]. now rewrite app_nil_r.
Qed.

(* ---------- (b) ownership: id = txn id <-> allocated by the txn since the last bump ---------- *)
Theorem owned_iff_id P h x : hinv P h x -> forall a, reach h (x_root x) a ->
  (h_id (hget h a) = x_id x <-> In a (x_own x)).
Proof.
  intros (t & F & T & SubO & OC) a R. split.
  - intros Hi. destruct (trep_reach _ _ _ _ _ T a R) as [H|(_ & n & Hn & Hlt)]; [auto|].
    rewrite (hget_some _ _ _ Hn) in Hi. lia.
  - intros Ha. destruct (OC _ Ha) as (n & Hn & Hi). now rewrite (hget_some _ _ _ Hn).
Qed.

(* at the start of a transaction (Trie.Txn / Reuse on a trie whose ids are bounded by prevTxnID,
   Cow.v trie_ids_ok) nothing is owned and everything reachable is below the txn id *)
Theorem htrie_txn_inv (P : nat -> Prop) h t tr : rep h (hr_root t) tr -> ids_ok (hr_prev t) tr ->
  (forall a, reach h (hr_root t) a -> P a) -> hinv P h (htrie_txn t).
Proof.
  intros R I HP. exists tr, []. cbn [htrie_txn x_id x_root x_own]. split; [|split; intros a []].
  eapply frozen_intro; [exact R|exact HP|apply ids_ok_le; exact I|lia].
Qed.

(* ---------- persistence of anything outside own, one operation ---------- *)
Lemma frame_rep h h' own p t : frame h h' own -> rep h p t -> (forall a, reach h p a -> ~ In a own) ->
  rep h' p t /\ (forall a, reach h' p a -> reach h p a).
Proof.
  intros (L & Fr) R S.
  assert (E : forall a, reach h p a -> nth_error h' a = nth_error h a).
  { intros a Ha. apply Fr; [eapply reach_lt; eauto|auto]. }
  split; [eapply rep_frame; eauto|eapply reach_frame; eauto].
Qed.

(* ---------- two transactions and any number of handed-out roots on one heap ---------- *)
(* s_pubs: every root handed out so far: committed tries (root, size, prevTxnID) and the roots
   held by iterators (recorded with the txn id at hand-out); transactions may begin from any of them *)
Record sys := mkSys { s_heap : heap; s_a : htxn; s_b : htxn; s_pubs : list htrie }.

(* what one transaction can do; Commit is followed by Reuse/Txn on any handed-out trie (contract:
   a Txn is not used after Commit until Reuse/Clear); ts_begin = abandon, then Reuse/Txn *)
Inductive tstep : heap -> htxn -> list htrie -> heap -> htxn -> list htrie -> Prop :=
| ts_insert h x ps k v : tstep h x ps (fst (htxn_insert h x k v)) (snd (htxn_insert h x k v)) ps
| ts_delete h x ps k : tstep h x ps (fst (fst (htxn_delete h x k))) (snd (fst (htxn_delete h x k))) ps
| ts_iter h x ps : tstep h x ps h (htxn_freeze x) (htxn_commit x :: ps)        (* All / Prefix / LowerBound *)
| ts_commit h x ps t : In t (htxn_commit x :: ps) -> tstep h x ps h (htrie_txn t) (htxn_commit x :: ps)
| ts_begin h x ps t : In t ps -> tstep h x ps h (htrie_txn t) ps
| ts_clear h x ps : tstep h x ps h (htxn_clear x) ps.                           (* abandon, then Clear *)

Inductive sstep : sys -> sys -> Prop :=
| ss_a h a b ps h' a' ps' : tstep h a ps h' a' ps' -> sstep (mkSys h a b ps) (mkSys h' a' b ps')
| ss_b h a b ps h' b' ps' : tstep h b ps h' b' ps' -> sstep (mkSys h a b ps) (mkSys h' a b' ps').
Inductive ssteps : sys -> sys -> Prop :=
| ssteps_refl s : ssteps s s
| ssteps_cons s1 s2 s3 : sstep s1 s2 -> ssteps s2 s3 -> ssteps s1 s3.

Definition notin (l : list nat) (a : nat) : Prop := ~ In a l.
Definition notin2 (l1 l2 : list nat) (a : nat) : Prop := ~ In a l1 /\ ~ In a l2.
Definition pub_ok (h : heap) (oa ob : list nat) (t : htrie) : Prop :=
  exists tr, @trep (notin2 oa ob) h (hr_prev t + 1) (hr_root t) tr [].

Definition SInv (s : sys) : Prop :=
  hinv (notin (x_own (s_b s))) (s_heap s) (s_a s) /\
  hinv (notin (x_own (s_a s))) (s_heap s) (s_b s) /\
  disj (x_own (s_a s)) (x_own (s_b s)) /\
  Forall (pub_ok (s_heap s) (x_own (s_a s)) (x_own (s_b s))) (s_pubs s).

Lemma frame_refl h own : frame h h own.
Proof. split; [lia|auto]. Qed.

Lemma trep_survive (P Q : nat -> Prop) h h' own tid p t F :
  @trep P h tid p t F -> frame h h' own -> (forall x, reach h p x -> ~ In x own) ->
  (forall x, reach h p x -> (x < length h)%nat -> P x -> Q x) -> @trep Q h' tid p t F.
Proof.
  intros T (L & Fr) S PQ. pose proof (trep_rep _ _ _ _ _ T) as R.
  assert (E : forall a, reach h p a -> nth_error h' a = nth_error h a).
  { intros a Ha. apply Fr; [eapply reach_lt; eauto|auto]. }
  eapply trep_P_impl; [eapply trep_frame_reach; eauto|].
  intros a Ha HP. pose proof (reach_frame _ _ _ _ R E a Ha) as Ha'.
  apply PQ; auto. eapply reach_lt; eauto.
Qed.

Lemma hinv_reach_notin own h x : hinv (notin own) h x -> disj (x_own x) own ->
  forall a, reach h (x_root x) a -> ~ In a own.
Proof.
  intros (t & F & T & SubO & _) D a R. destruct (trep_reach _ _ _ _ _ T a R) as [H|(H & _)]; [|exact H].
  intros Hi. exact (D a (SubO _ H) Hi).
Qed.

Lemma hinv_other own own' h h' x : hinv (notin own) h x -> disj (x_own x) own -> frame h h' own ->
  (forall y, In y own' -> In y own \/ (length h <= y)%nat) -> hinv (notin own') h' x.
Proof.
  intros HI D Fr Sub. pose proof (hinv_reach_notin _ _ _ HI D) as S.
  destruct HI as (t & F & T & SubO & OC). exists t, F. split; [|split; [exact SubO|]].
  - eapply trep_survive; eauto. intros a Ha La Pa Hi. destruct (Sub _ Hi); [auto|lia].
  - intros a Ha. destruct (OC _ Ha) as (n & Hn & Hi). exists n. split; [|exact Hi].
    destruct Fr as (_ & Fr). rewrite Fr; [exact Hn|eapply nth_error_lt; eauto|].
    intros Hx. exact (D a Ha Hx).
Qed.

Lemma pub_other oa oa' ob h h' t : pub_ok h oa ob t -> frame h h' oa ->
  (forall y, In y oa' -> In y oa \/ (length h <= y)%nat) -> pub_ok h' oa' ob t.
Proof.
  intros (tr & T) Fr Sub. exists tr.
  assert (S : forall a, reach h (hr_root t) a -> notin2 oa ob a).
  { intros a R. destruct (trep_reach _ _ _ _ _ T a R) as [[]|(H & _)]. exact H. }
  eapply trep_survive; eauto.
  - intros a Ha. apply S. exact Ha.
  - intros a Ha La (P1 & P2). split; [|exact P2]. intros Hi. destruct (Sub _ Hi); [auto|lia].
Qed.

Lemma disj_sym A B : disj A B -> disj B A.
Proof. intros D x H1 H2. exact (D x H2 H1). Qed.

Lemma pub_swap h oa ob t : pub_ok h oa ob t -> pub_ok h ob oa t.
Proof. intros (tr & T). exists tr. eapply trep_P_impl; [exact T|]. intros a _ (H1 & H2). split; auto. Qed.

(* handing out the current root of a: legal for every later owner set [] of a *)
Lemma publish_ok h a ob : hinv (notin ob) h a -> disj (x_own a) ob -> pub_ok h [] ob (htxn_commit a).
Proof.
  intros (t & F & T & SubO & _) D. exists t. cbn [htxn_commit hr_prev hr_root].
  eapply trep_bump; [exact T| | |lia].
  - intros x Hx. split; [intros []|]. intros Hi. exact (D x (SubO _ Hx) Hi).
  - intros x _ Hx. split; [intros []|exact Hx].
Qed.

Lemma pub_reset h oa ob t : pub_ok h oa ob t -> pub_ok h [] ob t.
Proof. intros (tr & T). exists tr. eapply trep_P_impl; [exact T|]. intros a _ (H1 & H2). split; [intros []|exact H2]. Qed.

Lemma begin_ok h ob t : pub_ok h [] ob t -> hinv (notin ob) h (htrie_txn t).
Proof.
  intros (tr & T). exists tr, []. cbn [htrie_txn x_id x_root x_own]. split; [|split; intros a []].
  eapply trep_P_impl; [exact T|]. intros a _ (_ & H). exact H.
Qed.

Lemma hinv_P_impl (P Q : nat -> Prop) h x : hinv P h x -> (forall a, P a -> Q a) -> hinv Q h x.
Proof.
  intros (t & F & T & R) PQ. exists t, F. split; [|exact R]. eapply trep_P_impl; [exact T|]. intros a _. apply PQ.
Qed.

(* one step of transaction a, seen from a, the other transaction b and the handed-out roots *)
Lemma tstep_inv h a b ps h' a' ps' :
  hinv (notin (x_own b)) h a -> hinv (notin (x_own a)) h b -> disj (x_own a) (x_own b) ->
  Forall (pub_ok h (x_own a) (x_own b)) ps -> tstep h a ps h' a' ps' ->
  (hinv (notin (x_own b)) h' a' /\ hinv (notin (x_own a')) h' b /\ disj (x_own a') (x_own b) /\
   Forall (pub_ok h' (x_own a') (x_own b)) ps') /\
  frame h h' (x_own a) /\ (forall y, In y (x_own a') -> In y (x_own a) \/ (length h <= y)%nat) /\
  (forall t, In t ps -> In t ps').
Proof.
  intros HA HB D PS St.
  assert (OB : forall y, In y (x_own b) -> (y < length h)%nat).
  { intros y Hy. destruct HB as (_ & _ & _ & _ & OC). destruct (OC _ Hy) as (n & Hn & _). eapply nth_error_lt; eauto. }
  assert (Mut : forall h1 a1, hinv (notin (x_own b)) h1 a1 -> frame h h1 (x_own a) ->
            x_own a1 = x_own a ++ fresh h h1 ->
            (hinv (notin (x_own b)) h1 a1 /\ hinv (notin (x_own a1)) h1 b /\ disj (x_own a1) (x_own b) /\
             Forall (pub_ok h1 (x_own a1) (x_own b)) ps) /\
            frame h h1 (x_own a) /\ (forall y, In y (x_own a1) -> In y (x_own a) \/ (length h <= y)%nat) /\
            (forall t, In t ps -> In t ps)).
  { intros h1 a1 HA1 Fr Eo.
    assert (Sub : forall y, In y (x_own a1) -> In y (x_own a) \/ (length h <= y)%nat).
    { intros y Hy. rewrite Eo in Hy. apply in_app_or in Hy as [Hy|Hy]; [auto|]. apply in_fresh in Hy. lia. }
    split; [|auto]. split; [exact HA1|]. split; [|split].
    - eapply hinv_other; eauto. apply disj_sym. exact D.
    - intros y Hy Hb. destruct (Sub _ Hy) as [H|H]; [exact (D y H Hb)|]. specialize (OB _ Hb). lia.
    - eapply Forall_impl; [|exact PS]. intros t Ht. eapply pub_other; eauto. }
  assert (Reset : Forall (pub_ok h [] (x_own b)) (htxn_commit a :: ps)).
  { constructor; [apply publish_ok; auto|]. eapply Forall_impl; [|exact PS]. intros t. apply pub_reset. }
  assert (HB0 : hinv (notin []) h b) by (eapply hinv_P_impl; [exact HB|intros y _ []]).
  inversion St; subst.
  - destruct (htxn_insert_spec _ _ _ k v HA) as (H1 & _ & H3 & _ & H5). apply Mut; auto.
  - destruct (htxn_delete_spec _ _ _ k HA) as (H1 & _ & H3 & _ & H5). apply Mut; auto.
  - (* iterator handed out *)
    unfold htxn_freeze. destruct (x_root a) as [r|] eqn:Er.
    + cbn [x_own]. split; [|split; [apply frame_refl|split; [intros y []|intros t Ht; now right]]].
      split; [|split; [exact HB0|split; [intros y []|exact Reset]]].
      destruct HA as (t & F & T & SubO & _). exists t, []. cbn [x_id x_root x_own]. rewrite <- Er.
      split; [|split; intros y []]. eapply trep_bump; [exact T| |auto|lia].
      intros y Hy Hb. exact (D y (SubO _ Hy) Hb).
    + split; [|split; [apply frame_refl|split; [auto|intros t Ht; now right]]].
      split; [exact HA|]. split; [exact HB|]. split; [exact D|]. constructor; [|exact PS].
      exists Nil. cbn [htxn_commit hr_root hr_prev]. rewrite Er. constructor.
  - (* commit, then Txn/Reuse on a handed-out trie *)
    cbn [htrie_txn x_own]. split; [|split; [apply frame_refl|split; [intros y []|intros t' Ht; now right]]].
    split; [|split; [exact HB0|split; [intros y []|exact Reset]]].
    apply begin_ok. rewrite Forall_forall in Reset. apply Reset. assumption.
  - (* abandon, then Txn/Reuse *)
    cbn [htrie_txn x_own]. split; [|split; [apply frame_refl|split; [intros y []|auto]]].
    assert (Reset' : Forall (pub_ok h' [] (x_own b)) ps') by (inversion Reset; assumption).
    split; [|split; [exact HB0|split; [intros y []|exact Reset']]].
    apply begin_ok. rewrite Forall_forall in Reset'. apply Reset'. assumption.
  - (* abandon, then Clear *)
    cbn [htxn_clear x_own]. split; [|split; [apply frame_refl|split; [intros y []|auto]]].
    assert (Reset' : Forall (pub_ok h' [] (x_own b)) ps') by (inversion Reset; assumption).
    split; [|split; [exact HB0|split; [intros y []|exact Reset']]].
    exists Nil, []. cbn [x_id x_root x_own]. split; [constructor|split; intros y []].
Qed.

Theorem sstep_inv s s' : SInv s -> sstep s s' -> SInv s'.
Proof.
  intros (HA & HB & D & PS) St. destruct St as [h a b ps h' a' ps' St|h a b ps h' b' ps' St]; cbn [s_heap s_a s_b s_pubs] in *.
  - destruct (tstep_inv _ _ _ _ _ _ _ HA HB D PS St) as ((H1 & H2 & H3 & H4) & _). repeat split; auto.
  - assert (PS' : Forall (pub_ok h (x_own b) (x_own a)) ps).
    { eapply Forall_impl; [|exact PS]. intros t. apply pub_swap. }
    destruct (tstep_inv _ _ _ _ _ _ _ HB HA (disj_sym _ _ D) PS' St) as ((H1 & H2 & H3 & H4) & _).
    repeat split; auto; [apply disj_sym; exact H3|]. eapply Forall_impl; [|exact H4]. intros t. apply pub_swap.
Qed.

(* r is outside what the two live transactions own *)
Definition safe (s : sys) (r : option nat) : Prop :=
  forall x, reach (s_heap s) r x -> ~ In x (x_own (s_a s)) /\ ~ In x (x_own (s_b s)).

Theorem sstep_persist s s' : SInv s -> sstep s s' -> forall r t, rep (s_heap s) r t -> safe s r ->
  rep (s_heap s') r t /\ safe s' r.
Proof.
  intros (HA & HB & D & PS) St r t R S.
  destruct St as [h a b ps h' a' ps' St|h a b ps h' b' ps' St]; unfold safe in *; cbn [s_heap s_a s_b s_pubs] in *.
  - destruct (tstep_inv _ _ _ _ _ _ _ HA HB D PS St) as (_ & Fr & Sub & _).
    destruct (frame_rep _ _ _ _ _ Fr R (fun x Hx => proj1 (S x Hx))) as (R' & Rb).
    split; [exact R'|]. intros x Hx. specialize (Rb _ Hx). destruct (S _ Rb) as (S1 & S2). split; [|exact S2].
    intros Hi. destruct (Sub _ Hi) as [H|H]; [auto|]. pose proof (reach_lt _ _ _ R _ Rb). lia.
  - assert (PS' : Forall (pub_ok h (x_own b) (x_own a)) ps).
    { eapply Forall_impl; [|exact PS]. intros t0. apply pub_swap. }
    destruct (tstep_inv _ _ _ _ _ _ _ HB HA (disj_sym _ _ D) PS' St) as (_ & Fr & Sub & _).
    destruct (frame_rep _ _ _ _ _ Fr R (fun x Hx => proj2 (S x Hx))) as (R' & Rb).
    split; [exact R'|]. intros x Hx. specialize (Rb _ Hx). destruct (S _ Rb) as (S1 & S2). split; [exact S1|].
    intros Hi. destruct (Sub _ Hi) as [H|H]; [auto|]. pose proof (reach_lt _ _ _ R _ Rb). lia.
Qed.

Lemma sstep_pubs s s' : SInv s -> sstep s s' -> forall t, In t (s_pubs s) -> In t (s_pubs s').
Proof.
  intros (HA & HB & D & PS) St.
  destruct St as [h a b ps h' a' ps' St|h a b ps h' b' ps' St]; cbn [s_heap s_a s_b s_pubs] in *.
  - destruct (tstep_inv _ _ _ _ _ _ _ HA HB D PS St) as (_ & _ & _ & Hp). exact Hp.
  - assert (PS' : Forall (pub_ok h (x_own b) (x_own a)) ps).
    { eapply Forall_impl; [|exact PS]. intros t0. apply pub_swap. }
    destruct (tstep_inv _ _ _ _ _ _ _ HB HA (disj_sym _ _ D) PS' St) as (_ & _ & _ & Hp). exact Hp.
Qed.

(* (c) PERSISTENCE over arbitrary interleavings *)
Theorem ssteps_persist s s' : SInv s -> ssteps s s' ->
  SInv s' /\
  (forall r t, rep (s_heap s) r t -> safe s r -> den (s_heap s') r = den (s_heap s) r /\ safe s' r) /\
  (forall t, In t (s_pubs s) -> In t (s_pubs s')).
Proof.
  intros I St. induction St as [s|s1 s2 s3 S1 _ IH].
  - split; [exact I|]. split; [intros r t R S; split; [reflexivity|exact S]|auto].
  - pose proof (sstep_inv _ _ I S1) as I2. destruct (IH I2) as (I3 & P3 & Q3).
    split; [exact I3|]. split.
    + intros r t R S. destruct (sstep_persist _ _ I S1 r t R S) as (R2 & S2).
      destruct (P3 r t R2 S2) as (E & S3). split; [|exact S3].
      rewrite E. rewrite (rep_den _ _ _ R), (rep_den _ _ _ R2). reflexivity.
    + intros t Ht. apply Q3. exact (sstep_pubs _ _ I S1 t Ht).
Qed.

(* every handed-out root, and every node below it (iterator stacks), is safe *)
Theorem pubs_safe s t : SInv s -> In t (s_pubs s) ->
  forall r, reach (s_heap s) (hr_root t) r -> exists tr, rep (s_heap s) (Some r) tr /\ safe s (Some r).
Proof.
  intros (_ & _ & _ & PS) Ht r Hr. rewrite Forall_forall in PS. destruct (PS _ Ht) as (tr & T).
  destruct (rep_reach _ _ _ (trep_rep _ _ _ _ _ T) _ Hr) as (tr' & R'). exists tr'. split; [exact R'|].
  intros x Hx. pose proof (reach_trans _ _ _ Hr _ Hx) as Hx'.
  destruct (trep_reach _ _ _ _ _ T x Hx') as [[]|(H & _)]. exact H.
Qed.

Theorem pubs_root_safe s t : SInv s -> In t (s_pubs s) ->
  exists tr, rep (s_heap s) (hr_root t) tr /\ safe s (hr_root t).
Proof.
  intros (_ & _ & _ & PS) Ht. rewrite Forall_forall in PS. destruct (PS _ Ht) as (tr & T).
  exists tr. split; [eapply trep_rep; eauto|].
  intros x Hx. destruct (trep_reach _ _ _ _ _ T x Hx) as [[]|(H & _)]. exact H.
Qed.

(* the other live transaction is not disturbed either *)
Theorem other_txn_isolated h a b ps h' a' ps' : SInv (mkSys h a b ps) -> tstep h a ps h' a' ps' ->
  habs h' b = habs h b.
Proof.
  intros (HA & HB & D & PS) St. cbn [s_heap s_a s_b s_pubs] in *.
  destruct (tstep_inv _ _ _ _ _ _ _ HA HB D PS St) as (_ & Fr & _).
  pose proof (hinv_reach_notin _ _ _ HB (disj_sym _ _ D)) as S.
  destruct HB as (t & F & T & _). pose proof (trep_rep _ _ _ _ _ T) as R.
  destruct (frame_rep _ _ _ _ _ Fr R S) as (R' & _).
  unfold habs. now rewrite (rep_den _ _ _ R), (rep_den _ _ _ R').
Qed.

(* the initial system: empty heap, New(), two transactions begun from it *)
Definition sys0 : sys := mkSys [] (htrie_txn htrie_new) (htrie_txn htrie_new) [htrie_new].
Lemma SInv_sys0 : SInv sys0.
Proof.
  unfold sys0, SInv. cbn [s_heap s_a s_b s_pubs htrie_txn htrie_new x_own hr_root hr_size hr_prev].
  split; [|split; [|split; [intros x []|]]].
  - exists Nil, []. cbn [x_id x_root x_own]. split; [constructor|split; intros a []].
  - exists Nil, []. cbn [x_id x_root x_own]. split; [constructor|split; intros a []].
  - constructor; [|constructor]. exists Nil. constructor.
Qed.

Lemma ssteps_trans s1 s2 s3 : ssteps s1 s2 -> ssteps s2 s3 -> ssteps s1 s3.
Proof. induction 1; auto. intros H'. econstructor; eauto. Qed.

Theorem reachable_SInv s : ssteps sys0 s -> SInv s.
Proof. intros St. exact (proj1 (ssteps_persist _ _ SInv_sys0 St)). Qed.

(* ---------- the statements collected for Properties/C13.v ---------- *)
Theorem heap_refines_tree (P : nat -> Prop) h x k v : hinv P h x ->
  (let h' := fst (htxn_insert h x k v) in let x' := snd (htxn_insert h x k v) in
   hinv P h' x' /\ habs h' x' = txn_insert (habs h x) k v) /\
  (let h' := fst (fst (htxn_delete h x k)) in let x' := snd (fst (htxn_delete h x k)) in
   hinv P h' x' /\ (habs h' x', snd (htxn_delete h x k)) = txn_delete (habs h x) k).
Proof.
  intros HI. destruct (htxn_insert_spec P h x k v HI) as (A1 & A2 & _).
  destruct (htxn_delete_spec P h x k HI) as (B1 & B2 & _). cbn zeta. auto.
Qed.

Theorem inplace_writes_only_owned (P : nat -> Prop) h x k v : hinv P h x ->
  (forall a, reach h (x_root x) a -> (h_id (hget h a) = x_id x <-> In a (x_own x))) /\
  (let h' := fst (htxn_insert h x k v) in let x' := snd (htxn_insert h x k v) in
   (length h <= length h')%nat /\ x_own x' = x_own x ++ fresh h h' /\ x_id x' = x_id x /\
   forall a, (a < length h)%nat -> ~ In a (x_own x) -> nth_error h' a = nth_error h a) /\
  (let h' := fst (fst (htxn_delete h x k)) in let x' := snd (fst (htxn_delete h x k)) in
   (length h <= length h')%nat /\ x_own x' = x_own x ++ fresh h h' /\ x_id x' = x_id x /\
   forall a, (a < length h)%nat -> ~ In a (x_own x) -> nth_error h' a = nth_error h a).
Proof.
  intros HI. split; [apply (owned_iff_id P); exact HI|].
  destruct (htxn_insert_spec P h x k v HI) as (_ & _ & (A3 & A3') & A4 & A5).
  destruct (htxn_delete_spec P h x k HI) as (_ & _ & (B3 & B3') & B4 & B5). cbn zeta. auto 10.
Qed.

Theorem persistence_all_tries s s' : SInv s -> ssteps s s' ->
  SInv s' /\
  (forall t, In t (s_pubs s) -> In t (s_pubs s') /\ habs_trie (s_heap s') t = habs_trie (s_heap s) t /\
     forall r, reach (s_heap s) (hr_root t) r -> den (s_heap s') (Some r) = den (s_heap s) (Some r)) /\
  (forall r t, rep (s_heap s) r t -> safe s r -> den (s_heap s') r = den (s_heap s) r).
Proof.
  intros I St. destruct (ssteps_persist _ _ I St) as (I' & Pp & Q). split; [exact I'|]. split.
  - intros t Ht. split; [auto|]. split.
    + destruct (pubs_root_safe _ _ I Ht) as (tr & R & S). unfold habs_trie. now rewrite (proj1 (Pp _ _ R S)).
    + intros r Hr. destruct (pubs_safe _ _ I Ht r Hr) as (tr & R & S). exact (proj1 (Pp _ _ R S)).
  - intros r t R S. exact (proj1 (Pp _ _ R S)).
Qed.

(* ---------- an executable driver for the two-transaction system (examples) ---------- *)
Inductive act := AIns (k : lkey) (v : N) | ADel (k : lkey) | AIter | ACommit (i : nat) | ABegin (i : nat) | AClear.

Definition tact (h : heap) (x : htxn) (ps : list htrie) (c : act) : heap * htxn * list htrie :=
  match c with
  | AIns k v => (fst (htxn_insert h x k v), snd (htxn_insert h x k v), ps)
  | ADel k => (fst (fst (htxn_delete h x k)), snd (fst (htxn_delete h x k)), ps)
  | AIter => (h, htxn_freeze x, htxn_commit x :: ps)
  | ACommit i => let ps' := htxn_commit x :: ps in (h, htrie_txn (nth i ps' (htxn_commit x)), ps')
  | ABegin i => match nth_error ps i with Some t => (h, htrie_txn t, ps) | None => (h, htxn_freeze x, htxn_commit x :: ps) end
  | AClear => (h, htxn_clear x, ps)
  end.

Lemma tact_tstep h x ps c : let '(h', x', ps') := tact h x ps c in tstep h x ps h' x' ps'.
Proof.
  destruct c as [k v|k|  |i|i| ]; cbn [tact]; try constructor.
  - destruct (Nat.lt_ge_cases i (length (htxn_commit x :: ps))) as [H|H].
    + now apply nth_In.
    + rewrite nth_overflow by exact H. now left.
  - destruct (nth_error ps i) as [t|] eqn:E; [|constructor]. constructor. eapply nth_error_In; eauto.
Qed.

(* who = false: transaction a, true: transaction b *)
Definition sact (s : sys) (wc : bool * act) : sys :=
  let (who, c) := wc in
  if who then let '(h', b', ps') := tact (s_heap s) (s_b s) (s_pubs s) c in mkSys h' (s_a s) b' ps'
  else let '(h', a', ps') := tact (s_heap s) (s_a s) (s_pubs s) c in mkSys h' a' (s_b s) ps'.
Definition srun (ops : list (bool * act)) (s : sys) : sys := fold_left sact ops s.

Lemma sact_sstep s wc : sstep s (sact s wc).
Proof.
  destruct s as [h a b ps], wc as [[|] c]; cbn [sact s_heap s_a s_b s_pubs].
  - pose proof (tact_tstep h b ps c) as T. destruct (tact h b ps c) as [[h' b'] ps']. now constructor.
  - pose proof (tact_tstep h a ps c) as T. destruct (tact h a ps c) as [[h' a'] ps']. now constructor.
Qed.

Lemma srun_ssteps ops : forall s, ssteps s (srun ops s).
Proof.
  induction ops as [|wc ops IH]; intros s; [constructor|]. cbn [srun fold_left].
  econstructor; [apply sact_sstep|apply IH].
Qed.

(* computable reachability (for examples) *)
Fixpoint addrs (f : nat) (h : heap) (p : option nat) : list nat :=
  match f with
  | O => []
  | S f' => match p with
            | None => []
            | Some a => match nth_error h a with
                        | None => [a]
                        | Some n => a :: addrs f' h (h_c0 n) ++ addrs f' h (h_c1 n)
                        end
            end
  end.
Lemma addrs_reach f : forall h p a, In a (addrs f h p) -> reach h p a.
Proof.
  induction f as [|f IH]; intros h p a Ha; [destruct Ha|]. cbn [addrs] in Ha.
  destruct p as [b|]; [|destruct Ha]. destruct (nth_error h b) as [n|] eqn:E.
  - destruct Ha as [<-|Ha]; [constructor|]. apply in_app_or in Ha as [Ha|Ha].
    + apply (reach_child _ _ _ false _ E). cbn [get_c]. auto.
    + apply (reach_child _ _ _ true _ E). cbn [get_c]. auto.
  - destruct Ha as [<-|[]]. constructor.
Qed.

(* ---------- (d) refutations: the id test of Txn.clone alone is not enough ---------- *)
Definition rk1 : lkey := ([10], 8).
Definition rk2 : lkey := ([10; 128], 9).

(* Txn.All/Prefix/LowerBound WITHOUT `txn.txnID++`: a later Insert of the same transaction writes the
   iterator's root in place, so what the iterator's root denotes changes; with the bump it does not *)
Theorem iterator_nobump_refuted :
  exists (h : heap) (x : htxn) (k : lkey) (v : N),
    hinv (fun _ => True) h x /\
    let it := x_root x in                         (* Iterator{start: txn.root} *)
    den (fst (htxn_insert h (htxn_freeze_nobump x) k v)) it <> den h it /\
    den (fst (htxn_insert h (htxn_freeze x) k v)) it = den h it.
Proof.
  exists (fst (htxn_insert [] (htrie_txn htrie_new) rk1 1)), (snd (htxn_insert [] (htrie_txn htrie_new) rk1 1)), rk2, 2.
  split.
  - apply htxn_insert_spec. exists Nil, []. split; [constructor|split; intros a []].
  - cbn zeta. split; [vm_compute; discriminate|vm_compute; reflexivity].
Qed.

(* Txn.Commit does not bump the id either: the contract "a Txn is not used after Commit until
   Reuse/Clear" is necessary: continuing with the same Txn changes the committed trie *)
Theorem use_after_commit_refuted :
  exists (h : heap) (x : htxn) (k : lkey) (v : N),
    hinv (fun _ => True) h x /\
    let t := htxn_commit x in
    habs_trie (fst (htxn_insert h x k v)) t <> habs_trie h t /\
    habs_trie (fst (htxn_insert h (htxn_reuse x t) k v)) t = habs_trie h t.
Proof.
  exists (fst (htxn_insert [] (htrie_txn htrie_new) rk1 1)), (snd (htxn_insert [] (htrie_txn htrie_new) rk1 1)), rk2, 2.
  split.
  - apply htxn_insert_spec. exists Nil, []. split; [constructor|split; intros a []].
  - cbn zeta. split; [vm_compute; discriminate|vm_compute; reflexivity].
Qed.

(* ---------- non-vacuity: a branching history with shared cells ---------- *)
Module HeapExample.
Import HeapSanity.
(* a: three inserts, commit (trie 0 of the list after the step) and continue from it; b begins from
   that trie; both write; a hands out an iterator, deletes, commits; b commits and restarts from a's trie *)
Definition ops : list (bool * act) :=
  [(false, AIns k1 1); (false, AIns k2 2); (false, AIns k3 3); (false, ACommit 0);
   (true, ABegin 0); (false, AIns k4 4); (true, AIns k5 5); (true, ADel k2); (false, AIter);
   (false, ADel k1); (false, AIns k2 22); (false, ACommit 0); (true, ACommit 1); (true, AIns k1 11)].
Definition s_mid : sys := srun (firstn 5 ops) sys0.
Definition s_end : sys := srun ops sys0.

Example reachable_mid_end : ssteps sys0 s_mid /\ ssteps s_mid s_end /\ SInv s_mid /\ SInv s_end.
Proof.
  assert (A : ssteps sys0 s_mid) by apply srun_ssteps.
  assert (B : ssteps s_mid s_end).
  { unfold s_end, s_mid. rewrite <- (firstn_skipn 5 ops) at 2. unfold srun. rewrite fold_left_app. apply srun_ssteps. }
  split; [exact A|]. split; [exact B|]. split; apply reachable_SInv; [exact A|eapply ssteps_trans; eauto].
Qed.

(* the tries handed out up to s_mid read the same in s_end although cells are shared and both
   transactions wrote in place in between *)
Example tries_persist_computed :
  map (fun t => habs_trie (s_heap s_end) t) (s_pubs s_mid) = map (fun t => habs_trie (s_heap s_mid) t) (s_pubs s_mid) /\
  length (s_heap s_mid) = 4%nat /\ length (s_heap s_end) = 18%nat /\ length (s_pubs s_end) = 5%nat.
Proof. vm_compute. repeat split; reflexivity. Qed.

(* two different handed-out tries of s_end share a cell; the two live transactions belong to
   different lineages and carry the same id number *)
Example tries_share_cells :
  exists t1 t2 a, In t1 (s_pubs s_end) /\ In t2 (s_pubs s_end) /\ hr_root t1 <> hr_root t2 /\
    reach (s_heap s_end) (hr_root t1) a /\ reach (s_heap s_end) (hr_root t2) a.
Proof.
  exists (nth 0 (s_pubs s_end) htrie_new), (nth 3 (s_pubs s_end) htrie_new), 0%nat.
  split; [apply nth_In; vm_compute; lia|]. split; [apply nth_In; vm_compute; lia|].
  split; [vm_compute; discriminate|].
  split; apply (addrs_reach 20); vm_compute; tauto.
Qed.
Example lineages_same_id :
  x_id (s_a s_end) = x_id (s_b s_end) /\ x_root (s_a s_end) <> x_root (s_b s_end) /\ x_own (s_b s_end) <> [].
Proof. vm_compute. repeat split; discriminate. Qed.
End HeapExample.
