(* Lpm/HeapBase.v — basic lemmas about the heap model Lpm/Heap.v: cells, the relational denotation
   rep (deterministic; acyclic, so den with fuel = heap size computes it), reachability, frame lemmas,
   and trep: the representation invariant of a transaction (frozen cells below the txn id, owned
   cells carrying the txn id forming an unshared tree with footprint F). *)
From SV Require Import Base.Bytes Lpm.Model Lpm.Cow Lpm.Heap.
From Coq Require Import ZArith List Bool Lia ZifyN ZifyNat ZifyBool.
Import ListNotations.
Open Scope N_scope.

(* ---------- cells ---------- *)
Lemma upd_length h : forall a n, length (upd h a n) = length h.
Proof. induction h as [|x h IH]; intros [|a] n; simpl; auto. Qed.

Lemma nth_error_upd_eq h : forall a n, (a < length h)%nat -> nth_error (upd h a n) a = Some n.
Proof. induction h as [|x h IH]; intros [|a] n H; simpl in *; try lia; auto. apply IH. lia. Qed.

Lemma nth_error_upd_neq h : forall a b n, a <> b -> nth_error (upd h a n) b = nth_error h b.
Proof.
  induction h as [|x h IH]; intros [|a] [|b] n H; simpl; auto; try congruence.
Qed.

Lemma upd_same h : forall a n, nth_error h a = Some n -> upd h a n = h.
Proof.
  induction h as [|x h IH]; intros [|a] n H; simpl in *; try discriminate; [congruence|].
  f_equal. now apply IH.
Qed.

Lemma hget_some h a n : nth_error h a = Some n -> hget h a = n.
Proof. intros H. unfold hget. now apply nth_error_nth. Qed.

Lemma nth_error_lt (h : heap) a n : nth_error h a = Some n -> (a < length h)%nat.
Proof. intros H. apply nth_error_Some. congruence. Qed.

Lemma nth_error_app_old (h l : heap) a n : nth_error h a = Some n -> nth_error (h ++ l) a = Some n.
Proof. intros H. rewrite nth_error_app1; [exact H|]. eapply nth_error_lt; eauto. Qed.

Lemma nth_error_app_new (h : heap) n : nth_error (h ++ [n]) (length h) = Some n.
Proof. rewrite nth_error_app2 by lia. now rewrite Nat.sub_diag. Qed.

Lemma get_set_c_same n b p : get_c (set_c n b p) b = p.
Proof. destruct b; reflexivity. Qed.
Lemma get_set_c_other n b p : get_c (set_c n b p) (negb b) = get_c n (negb b).
Proof. destruct b; reflexivity. Qed.
Lemma set_c_get n b : set_c n b (get_c n b) = n.
Proof. destruct n, b; reflexivity. Qed.

(* ---------- rep: determinism, height bound, den ---------- *)
Lemma rep_det h p t : rep h p t -> forall t', rep h p t' -> t = t'.
Proof.
  induction 1 as [|a n c0 c1 Hn _ IH0 _ IH1]; intros t' H'; inversion H'; subst; auto.
  assert (n0 = n) by congruence. subst n0. f_equal; auto.
Qed.

Fixpoint height (t : node) : nat :=
  match t with Nil => O | Node _ _ _ _ c0 c1 => S (Nat.max (height c0) (height c1)) end.

Lemma denf_rep h p t : rep h p t -> forall f, (height t <= f)%nat -> denf f h p = t.
Proof.
  induction 1 as [|a n c0 c1 Hn _ IH0 _ IH1]; intros f Hf.
  - destruct f; reflexivity.
  - destruct f as [|f]; [simpl in Hf; lia|]. cbn [denf height] in *. rewrite Hn.
    rewrite IH0, IH1 by lia. reflexivity.
Qed.

Lemma nodes_child_lt k v i t c0 c1 : (nodes c0 < nodes (Node k v i t c0 c1) /\ nodes c1 < nodes (Node k v i t c0 c1))%nat.
Proof. simpl. lia. Qed.

(* pigeonhole: a chain of distinct ancestor cells plus the height below fits in the heap *)
Lemma rep_height_aux h p t : rep h p t -> forall l, NoDup l -> (forall a, In a l -> (a < length h)%nat) ->
  (forall a t', In a l -> rep h (Some a) t' -> (nodes t < nodes t')%nat) ->
  (height t + length l <= length h)%nat.
Proof.
  induction 1 as [|a n c0 c1 Hn R0 IH0 R1 IH1]; intros l ND Hb Hs.
  - simpl. replace (length h) with (length (seq 0 (length h))) by apply seq_length.
    apply NoDup_incl_length; [exact ND|]. intros x Hx. apply in_seq. specialize (Hb x Hx). lia.
  - set (t := Node (h_key n) (h_val n) (h_imag n) (h_id n) c0 c1) in *.
    assert (Rt : rep h (Some a) t) by (constructor; auto).
    assert (Na : ~ In a l). { intros Hi. specialize (Hs a t Hi Rt). lia. }
    assert (ND' : NoDup (a :: l)) by (constructor; auto).
    assert (Hb' : forall x, In x (a :: l) -> (x < length h)%nat).
    { intros x [<-|Hx]; [eapply nth_error_lt; eauto|auto]. }
    assert (Hs' : forall c, (nodes c < nodes t)%nat -> forall x t', In x (a :: l) -> rep h (Some x) t' -> (nodes c < nodes t')%nat).
    { intros c Hc x t' [<-|Hx] Rx.
      - rewrite <- (rep_det _ _ _ Rt _ Rx). exact Hc.
      - specialize (Hs x t' Hx Rx). lia. }
    specialize (IH0 (a :: l) ND' Hb' (Hs' c0 ltac:(subst t; simpl; lia))).
    specialize (IH1 (a :: l) ND' Hb' (Hs' c1 ltac:(subst t; simpl; lia))).
    subst t. cbn [height length] in *. lia.
Qed.

Lemma rep_height h p t : rep h p t -> (height t <= length h)%nat.
Proof.
  intros R. pose proof (rep_height_aux h p t R [] (NoDup_nil _)) as H. simpl in H.
  specialize (H ltac:(intros a []) ltac:(intros a t' [])). lia.
Qed.

Theorem rep_den h p t : rep h p t -> den h p = t.
Proof. intros R. apply denf_rep; [exact R|]. eapply rep_height; eauto. Qed.

(* ---------- reach ---------- *)
Lemma reach_lt h p t : rep h p t -> forall a, reach h p a -> (a < length h)%nat.
Proof.
  induction 1 as [|a n c0 c1 Hn _ IH0 _ IH1]; intros x Hx; inversion Hx; subst.
  - eapply nth_error_lt; eauto.
  - assert (n0 = n) by congruence. subst n0. destruct b; cbn [get_c] in *; auto.
Qed.

Lemma reach_trans h p a : reach h p a -> forall b, reach h (Some a) b -> reach h p b.
Proof.
  induction 1 as [a|a n b x Hn _ IH]; intros y Hy; [exact Hy|].
  eapply reach_child; [exact Hn|]. apply IH. exact Hy.
Qed.

(* a sub-pointer of a represented pointer is represented *)
Lemma rep_reach h p t : rep h p t -> forall a, reach h p a -> exists t', rep h (Some a) t'.
Proof.
  induction 1 as [|a n c0 c1 Hn R0 IH0 R1 IH1]; intros x Hx; inversion Hx; subst.
  - eexists. econstructor; eauto.
  - assert (n0 = n) by congruence. subst n0. destruct b; cbn [get_c] in *; auto.
Qed.

(* frame: a represented pointer is not affected by changes outside what it reaches *)
Lemma rep_frame h h' p t : rep h p t -> (forall a, reach h p a -> nth_error h' a = nth_error h a) -> rep h' p t.
Proof.
  induction 1 as [|a n c0 c1 Hn _ IH0 _ IH1]; intros Hf; [constructor|].
  constructor.
  - rewrite Hf; [exact Hn|constructor].
  - apply IH0. intros x Hx. apply Hf. eapply (reach_child _ _ _ false); eauto.
  - apply IH1. intros x Hx. apply Hf. eapply (reach_child _ _ _ true); eauto.
Qed.

Lemma reach_frame h h' p t : rep h p t -> (forall a, reach h p a -> nth_error h' a = nth_error h a) ->
  forall a, reach h' p a -> reach h p a.
Proof.
  induction 1 as [|a n c0 c1 Hn _ IH0 _ IH1]; intros Hf x Hx.
  - inversion Hx.
  - inversion Hx as [|a' n0 b x' Hn0 Hr]; subst; [constructor|].
    rewrite Hf in Hn0 by constructor. assert (n0 = n) by congruence. subst n0.
    apply (reach_child _ _ _ b _ Hn). destruct b; cbn [get_c] in *.
    + apply IH1; [|exact Hr]. intros y Hy. apply Hf. eapply (reach_child _ _ _ true); eauto.
    + apply IH0; [|exact Hr]. intros y Hy. apply Hf. eapply (reach_child _ _ _ false); eauto.
Qed.

(* ---------- agreement of heaps outside a write set ---------- *)
Definition agree_ex (h h' : heap) (W : list nat) : Prop :=
  forall a n, nth_error h a = Some n -> ~ In a W -> nth_error h' a = Some n.

Lemma agree_ex_refl h W : agree_ex h h W.
Proof. intros a n H _. exact H. Qed.
Lemma agree_ex_trans h h1 h2 W1 W2 : agree_ex h h1 W1 -> agree_ex h1 h2 W2 -> agree_ex h h2 (W1 ++ W2).
Proof. intros A B a n H Hn. apply B; [apply A; auto|]; intros Hi; apply Hn, in_or_app; auto. Qed.
Lemma agree_ex_weaken h h' W W' : agree_ex h h' W -> incl W W' -> agree_ex h h' W'.
Proof. intros A I a n H Hn. apply A; auto. Qed.
Lemma agree_ex_app h l W : agree_ex h (h ++ l) W.
Proof. intros a n H _. now apply nth_error_app_old. Qed.
Lemma agree_ex_upd h a n : agree_ex h (upd h a n) [a].
Proof. intros b m H Hn. rewrite nth_error_upd_neq; [exact H|]. intros ->. apply Hn. now left. Qed.
Lemma agree_ex_length h h' W : agree_ex h h' W -> (length h <= length h')%nat -> forall a,
  (a < length h)%nat -> ~ In a W -> nth_error h' a = nth_error h a.
Proof.
  intros A _ a Ha Hn. destruct (nth_error h a) as [n|] eqn:E; [now apply A|].
  apply nth_error_None in E. lia.
Qed.

(* ---------- trep: the representation invariant of a transaction ---------- *)
Definition disj (A B : list nat) : Prop := forall x, In x A -> In x B -> False.

(* P: a predicate on addresses that every frozen cell under the root satisfies (used to record
   that a transaction's frozen part stays outside the cells owned by other transactions) *)
Section TRep.
Context {P : nat -> Prop}.

Inductive trep (h : heap) (tid : N) : option nat -> node -> list nat -> Prop :=
| tr_nil : trep h tid None Nil []
| tr_old a n c0 c1 : nth_error h a = Some n -> h_id n < tid -> P a ->
    trep h tid (h_c0 n) c0 [] -> trep h tid (h_c1 n) c1 [] ->
    trep h tid (Some a) (Node (h_key n) (h_val n) (h_imag n) (h_id n) c0 c1) []
| tr_own a n c0 c1 F0 F1 : nth_error h a = Some n -> h_id n = tid ->
    trep h tid (h_c0 n) c0 F0 -> trep h tid (h_c1 n) c1 F1 ->
    ~ In a (F0 ++ F1) -> disj F0 F1 ->
    trep h tid (Some a) (Node (h_key n) (h_val n) (h_imag n) tid c0 c1) (a :: F0 ++ F1).

Lemma trep_rep h tid p t F : trep h tid p t F -> rep h p t.
Proof.
  induction 1 as [|a n c0 c1 Hn Hi HP _ IH0 _ IH1|a n c0 c1 F0 F1 Hn Hi _ IH0 _ IH1 Na Dj].
  - constructor.
  - constructor; auto.
  - rewrite <- Hi. constructor; auto.
Qed.

Lemma trep_F_cell h tid p t F : trep h tid p t F -> forall a, In a F -> exists n, nth_error h a = Some n /\ h_id n = tid.
Proof.
  induction 1 as [|a n c0 c1 Hn Hi HP _ IH0 _ IH1|a n c0 c1 F0 F1 Hn Hi _ IH0 _ IH1 Na Dj]; intros x Hx.
  - destruct Hx.
  - destruct Hx.
  - destruct Hx as [<-|Hx]; [eauto|]. apply in_app_or in Hx as [Hx|Hx]; auto.
Qed.

Lemma trep_F_reach h tid p t F : trep h tid p t F -> forall a, In a F -> reach h p a.
Proof.
  induction 1 as [|a n c0 c1 Hn Hi HP _ IH0 _ IH1|a n c0 c1 F0 F1 Hn Hi _ IH0 _ IH1 Na Dj]; intros x Hx.
  - destruct Hx.
  - destruct Hx.
  - destruct Hx as [<-|Hx]; [constructor|]. apply in_app_or in Hx as [Hx|Hx].
    + apply (reach_child _ _ _ false _ Hn). cbn [get_c]. auto.
    + apply (reach_child _ _ _ true _ Hn). cbn [get_c]. auto.
Qed.

(* every reachable cell is either owned (in the footprint, id = tid) or frozen (id < tid) *)
Lemma trep_reach h tid p t F : trep h tid p t F -> forall a, reach h p a ->
  In a F \/ (P a /\ exists n, nth_error h a = Some n /\ h_id n < tid).
Proof.
  induction 1 as [|a n c0 c1 Hn Hi HP _ IH0 _ IH1|a n c0 c1 F0 F1 Hn Hi _ IH0 _ IH1 Na Dj]; intros x Hx.
  - inversion Hx.
  - inversion Hx as [|a' n0 b x' Hn0 Hr]; subst; [right; eauto|].
    assert (n0 = n) by congruence. subst n0. destruct b; cbn [get_c] in Hr; auto.
  - inversion Hx as [|a' n0 b x' Hn0 Hr]; subst; [left; now left|].
    assert (n0 = n) by congruence. subst n0. destruct b; cbn [get_c] in Hr.
    + destruct (IH1 _ Hr) as [H|H]; [left; right; apply in_or_app; auto|auto].
    + destruct (IH0 _ Hr) as [H|H]; [left; right; apply in_or_app; auto|auto].
Qed.

Lemma trep_frame h h' tid p t F : trep h tid p t F ->
  (forall a n, nth_error h a = Some n -> h_id n < tid \/ In a F -> nth_error h' a = Some n) ->
  trep h' tid p t F.
Proof.
  induction 1 as [|a n c0 c1 Hn Hi HP _ IH0 _ IH1|a n c0 c1 F0 F1 Hn Hi _ IH0 _ IH1 Na Dj]; intros Hf.
  - constructor.
  - apply tr_old; auto.
  - apply tr_own; auto.
    + apply Hf; auto. right. now left.
    + apply IH0. intros x m Hx [H|H]; apply Hf; auto. right. right. apply in_or_app; auto.
    + apply IH1. intros x m Hx [H|H]; apply Hf; auto. right. right. apply in_or_app; auto.
Qed.

(* writes to cells W that carry the txn id and lie outside the footprint do not matter *)
Lemma trep_frame_W h h' tid p t F W : trep h tid p t F -> agree_ex h h' W -> disj W F ->
  (forall w n, In w W -> nth_error h w = Some n -> h_id n = tid) -> trep h' tid p t F.
Proof.
  intros T A D Hw. eapply trep_frame; [exact T|]. intros a n Hn Hc. apply A; [exact Hn|].
  intros Hi. destruct Hc as [Hc|Hc]; [|exact (D a Hi Hc)]. specialize (Hw a n Hi Hn). lia.
Qed.

Lemma trep_app h l tid p t F : trep h tid p t F -> trep (h ++ l) tid p t F.
Proof. intros T. eapply trep_frame; [exact T|]. intros a n Hn _. now apply nth_error_app_old. Qed.

(* all ids at most T *)
Fixpoint ids_le (T : N) (t : node) : Prop :=
  match t with Nil => True | Node _ _ _ i c0 c1 => i <= T /\ ids_le T c0 /\ ids_le T c1 end.

Lemma ids_ok_le T t : ids_ok T t -> ids_le T t.
Proof.
  revert T. induction t as [|k v i t0 c0 IH0 c1 IH1]; intros T H; [exact I|].
  destruct H as (H1 & H2 & H3). cbn [ids_le]. split; [exact H1|].
  split; [apply IH0|apply IH1]; (eapply ids_ok_mono; [|eassumption]); lia.
Qed.

Lemma trep_ids_le h tid p t F : trep h tid p t F -> ids_le tid t.
Proof.
  induction 1 as [|a n c0 c1 Hn Hi HP _ IH0 _ IH1|a n c0 c1 F0 F1 Hn Hi _ IH0 _ IH1 Na Dj]; cbn [ids_le]; auto.
  - repeat split; auto. lia.
  - repeat split; auto. lia.
Qed.

(* a represented tree whose ids are all below tid is frozen for tid *)
Lemma frozen_intro h p t : rep h p t -> forall T tid, (forall a, reach h p a -> P a) ->
  ids_le T t -> T < tid -> trep h tid p t [].
Proof.
  induction 1 as [|a n c0 c1 Hn _ IH0 _ IH1]; intros T tid HP Hl Ht; [constructor|].
  destruct Hl as (H1 & H2 & H3). apply tr_old; auto; try lia.
  - apply HP. constructor.
  - eapply IH0; eauto. intros x Hx. apply HP. apply (reach_child _ _ _ false _ Hn). exact Hx.
  - eapply IH1; eauto. intros x Hx. apply HP. apply (reach_child _ _ _ true _ Hn). exact Hx.
Qed.

Lemma trep_frozen_F h tid p t F : trep h tid p t F -> forall a n, p = Some a -> nth_error h a = Some n ->
  h_id n <> tid -> F = [].
Proof.
  intros T a n -> Hn Hi. inversion T as [|a' n' c0 c1 Hn' Hi' HP' T0 T1|a' n' c0 c1 F0 F1 Hn' Hi' T0 T1 Na Dj]; subst; auto.
  congruence.
Qed.

(* reach-based frame *)
Lemma trep_frame_reach h h' tid p t F : trep h tid p t F ->
  (forall a, reach h p a -> nth_error h' a = nth_error h a) -> trep h' tid p t F.
Proof.
  induction 1 as [|a n c0 c1 Hn Hi HP _ IH0 _ IH1|a n c0 c1 F0 F1 Hn Hi _ IH0 _ IH1 Na Dj]; intros Hf.
  - constructor.
  - apply tr_old; auto.
    + rewrite Hf; [exact Hn|constructor].
    + apply IH0. intros x Hx. apply Hf. apply (reach_child _ _ _ false _ Hn). exact Hx.
    + apply IH1. intros x Hx. apply Hf. apply (reach_child _ _ _ true _ Hn). exact Hx.
  - apply tr_own; auto.
    + rewrite Hf; [exact Hn|constructor].
    + apply IH0. intros x Hx. apply Hf. apply (reach_child _ _ _ false _ Hn). exact Hx.
    + apply IH1. intros x Hx. apply Hf. apply (reach_child _ _ _ true _ Hn). exact Hx.
Qed.
End TRep.

(* changing the predicate on frozen cells *)
Lemma trep_P_impl (P Q : nat -> Prop) h tid p t F : @trep P h tid p t F ->
  (forall a, reach h p a -> P a -> Q a) -> @trep Q h tid p t F.
Proof.
  induction 1 as [|a n c0 c1 Hn Hi HP _ IH0 _ IH1|a n c0 c1 F0 F1 Hn Hi _ IH0 _ IH1 Na Dj]; intros HQ.
  - constructor.
  - apply tr_old; auto.
    + apply HQ; [constructor|exact HP].
    + apply IH0. intros x Hx. apply HQ. apply (reach_child _ _ _ false _ Hn). exact Hx.
    + apply IH1. intros x Hx. apply HQ. apply (reach_child _ _ _ true _ Hn). exact Hx.
  - apply tr_own; auto.
    + apply IH0. intros x Hx. apply HQ. apply (reach_child _ _ _ false _ Hn). exact Hx.
    + apply IH1. intros x Hx. apply HQ. apply (reach_child _ _ _ true _ Hn). exact Hx.
Qed.

(* the id bump freezes everything *)
Lemma trep_bump (P Q : nat -> Prop) h tid p t F : @trep P h tid p t F ->
  (forall a, In a F -> Q a) -> (forall a, reach h p a -> P a -> Q a) ->
  forall tid', tid < tid' -> @trep Q h tid' p t [].
Proof.
  induction 1 as [|a n c0 c1 Hn Hi HP _ IH0 _ IH1|a n c0 c1 F0 F1 Hn Hi _ IH0 _ IH1 Na Dj]; intros HF HQ tid' Ht.
  - constructor.
  - apply tr_old; auto; try lia.
    + apply HQ; [constructor|exact HP].
    + apply IH0; auto. intros x Hx. apply HQ. apply (reach_child _ _ _ false _ Hn). exact Hx.
    + apply IH1; auto. intros x Hx. apply HQ. apply (reach_child _ _ _ true _ Hn). exact Hx.
  - rewrite <- Hi. apply tr_old; auto; try lia.
    + apply HF. now left.
    + apply IH0; auto.
      * intros x Hx. apply HF. right. apply in_or_app. auto.
      * intros x Hx. apply HQ. apply (reach_child _ _ _ false _ Hn). exact Hx.
    + apply IH1; auto.
      * intros x Hx. apply HF. right. apply in_or_app. auto.
      * intros x Hx. apply HQ. apply (reach_child _ _ _ true _ Hn). exact Hx.
Qed.
