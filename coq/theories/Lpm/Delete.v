(* Lpm/Delete.v — LookupExact reads the entry list; Txn.Delete preserves the invariant
   and acts as a map removal. *)
From SV Require Import Base.Bytes Lpm.Model Lpm.Bits Lpm.Inv.
From Coq Require Import ZArith ZifyN ZifyNat ZifyBool.
Open Scope N_scope.

(* freshness facts at a node (K = bits nk), for a query q *)
Lemma fresh_children p nk nv ni nt c0 c1 q : inv p (Node nk nv ni nt c0 c1) ->
  (length (bits q) <= length (bits nk))%nat ->
  forall k w, In (k, w) (entries c0 ++ entries c1) -> k <> q.
Proof.
  intros (Ck & Pk & Him & I0 & I1) Hl k w Hin. apply in_app_iff in Hin. destruct Hin as [Hin|Hin].
  - eapply below_child_ne; [eapply (entries_pre c0); eauto|exact Hl].
  - eapply below_child_ne; [eapply (entries_pre c1); eauto|exact Hl].
Qed.

Lemma fresh_diverge p nk nv ni nt c0 c1 q : inv p (Node nk nv ni nt c0 c1) ->
  (lcp (bits nk) (bits q) < length (bits nk))%nat ->
  forall k w, In (k, w) (entries (Node nk nv ni nt c0 c1)) -> k <> q.
Proof.
  intros I Hl k w Hin ->. eapply entries_ext in Hin as [_ Hin]; [|exact I]. apply lcp_pre in Hin. lia.
Qed.

Lemma fresh_other p nk nv ni nt c0 c1 q (b : bool) : inv p (Node nk nv ni nt c0 c1) ->
  is_pre (bits nk) (bits q) -> (length (bits nk) < length (bits q))%nat ->
  nth (length (bits nk)) (bits q) false = b ->
  nk <> q /\ forall k w, In (k, w) (entries (child (negb b) c0 c1)) -> k <> q.
Proof.
  intros (Ck & Pk & Him & I0 & I1) Hp Hl Hb. split; [intros ->; lia|]. intros k w Hin.
  destruct b; cbn [child negb] in Hin.
  - eapply (other_child_ne (bits nk) false); [eapply (entries_pre c0); eauto|exact Hp|exact Hl|congruence].
  - eapply (other_child_ne (bits nk) true); [eapply (entries_pre c1); eauto|exact Hp|exact Hl|congruence].
Qed.

Lemma lookupExact_spec kd kpl : let q := (kd, kpl) in canon q -> forall n p ml0,
  inv p n -> is_pre p (bits q) -> (N.to_nat ml0 <= length p)%nat ->
  forall r, lookupExact_go kd kpl ml0 n = r ->
  match r with
  | (v, true) => In (q, v) (entries n)
  | (v, false) => v = 0 /\ forall w, ~ In (q, w) (entries n)
  end.
Proof.
  intros q Cq. induction n as [|nk nv ni nt c0 IH0 c1 IH1]; intros p ml0 I Pq Hml r E.
  - simpl in E. subst r. simpl. auto.
  - pose proof I as (Ck & Pk & Him & I0 & I1).
    destruct (node_facts p nk q ml0 Ck Cq Pk Pq Hml) as (LM & Hnpl & Hkpl & HpL).
    change (fst q) with kd in LM. change (snd q) with kpl in *.
    cbn [lookupExact_go] in E. rewrite LM in E. clear LM.
    set (K := bits nk) in *. set (Q := bits q) in *. set (L := lcp K Q) in *.
    destruct (lcp_cases K Q) as [(A1 & A2 & A3)|[(A1 & A2 & A3)|[(A1 & A2 & A3)|(A1 & A2 & A3)]]]; fold L in A1, A2, A3.
    + assert (nk = q) by (apply canon_bits_inj; auto). subst nk.
      decide_conds E. symmetry in E. pose proof (fresh_children _ _ _ _ _ _ _ q I ltac:(lia)) as F.
      destruct ni; subst r.
      * split; [reflexivity|]. intros w Hin. cbn [entries app] in Hin. eapply F; eauto.
      * cbn [entries app]. left. reflexivity.
    + decide_conds E. subst r. split; [reflexivity|]. intros w Hin.
      eapply (fresh_diverge _ _ _ _ _ _ _ q I); eauto.
    + decide_conds E.
      assert (Hbit : getBitAt kd (kplen nk) = nth (length K) Q false).
      { rewrite Hnpl. apply (getBitAt_bits q); auto. fold Q. lia. }
      rewrite Hbit in E.
      destruct (fresh_other _ _ _ _ _ _ _ q _ I A3 ltac:(fold K Q; lia) eq_refl) as [Fs Fo]. fold K Q in Fo.
      assert (Hpre : is_pre (K ++ [nth (length K) Q false]) Q) by (apply is_pre_snoc_intro; auto; lia).
      destruct (nth (length K) Q false) eqn:Eb; cbn [child negb] in *.
      * specialize (IH1 (K ++ [true]) (N.of_nat L) I1 Hpre ltac:(rewrite app_length; simpl; lia) _ E).
        destruct r as [v [|]].
        -- cbn [entries]. rewrite !in_app_iff. auto.
        -- destruct IH1 as [-> IH1]. split; [reflexivity|]. intros w. cbn [entries]. rewrite !in_app_iff.
           intros [Hin|[Hin|Hin]]; [|eapply Fo; eauto|eapply IH1; eauto].
           destruct ni; cbn [In] in Hin; [tauto|]. destruct Hin as [Hin|[]]. injection Hin as ? ?. auto.
      * specialize (IH0 (K ++ [false]) (N.of_nat L) I0 Hpre ltac:(rewrite app_length; simpl; lia) _ E).
        destruct r as [v [|]].
        -- cbn [entries]. rewrite !in_app_iff. auto.
        -- destruct IH0 as [-> IH0]. split; [reflexivity|]. intros w. cbn [entries]. rewrite !in_app_iff.
           intros [Hin|[Hin|Hin]]; [|eapply IH0; eauto|eapply Fo; eauto].
           destruct ni; cbn [In] in Hin; [tauto|]. destruct Hin as [Hin|[]]. injection Hin as ? ?. auto.
    + decide_conds E. subst r. split; [reflexivity|]. intros w Hin.
      eapply (fresh_diverge _ _ _ _ _ _ _ q I); eauto.
Qed.

(* the invariant without the two-children requirement at the root node: what Delete has in
   hand while it walks back up *)
Definition winv (p : list bool) (n : node) : Prop :=
  match n with
  | Nil => True
  | Node k v i _ c0 c1 => canon k /\ is_pre p (bits k) /\ (i = true -> v = 0) /\
                          inv (bits k ++ [false]) c0 /\ inv (bits k ++ [true]) c1
  end.

Lemma inv_winv p n : inv p n -> winv p n.
Proof. destruct n; simpl; auto. intros (C & P & Him & I0 & I1). repeat (split; auto). intros Hi. apply Him in Hi. tauto. Qed.

Lemma compress_spec p n : winv p n -> inv p (compress n) /\ entries (compress n) = entries n.
Proof.
  destruct n as [|k v i t c0 c1]; [simpl; auto|]. intros (C & P & Hv & I0 & I1).
  assert (P0 : is_pre p (bits k ++ [false])) by (eapply is_pre_trans; [exact P|apply is_pre_app]).
  assert (P1 : is_pre p (bits k ++ [true])) by (eapply is_pre_trans; [exact P|apply is_pre_app]).
  destruct i; [|simpl; split; [|reflexivity]; split; [exact C|]; split; [exact P|]; split; [discriminate|tauto]].
  destruct c0 as [|k0 v0 i0 t0 a0 b0], c1 as [|k1 v1 i1 t1 a1 b1]; cbn [compress].
  - simpl. auto.
  - split; [eapply inv_weaken; [exact P1|exact I1]|reflexivity].
  - split; [eapply inv_weaken; [exact P0|exact I0]|]. cbn [entries app]. now rewrite app_nil_r.
  - split; [|reflexivity]. cbn [inv]. split; [exact C|]. split; [exact P|].
    split; [intros _; split; [discriminate|split; [discriminate|auto]]|]. split; [exact I0|exact I1].
Qed.

Lemma del_spec tid kd kpl : let q := (kd, kpl) in canon q -> forall n p ml0,
  inv p n -> is_pre p (bits q) -> (N.to_nat ml0 <= length p)%nat ->
  forall r, del tid kd kpl ml0 n = r ->
  match r with
  | None => forall w, ~ In (q, w) (entries n)
  | Some (n', v, stopped) =>
    In (q, v) (entries n) /\
    (forall k w, In (k, w) (entries n') <-> k <> q /\ In (k, w) (entries n)) /\
    length (entries n) = S (length (entries n')) /\
    (if stopped then inv p n' /\ n' <> Nil else winv p n')
  end.
Proof.
  intros q Cq. induction n as [|nk nv ni nt c0 IH0 c1 IH1]; intros p ml0 I Pq Hml r E.
  - simpl in E. subst r. simpl. auto.
  - pose proof I as (Ck & Pk & Him & I0 & I1).
    destruct (node_facts p nk q ml0 Ck Cq Pk Pq Hml) as (LM & Hnpl & Hkpl & HpL).
    change (fst q) with kd in LM. change (snd q) with kpl in *.
    cbn [del] in E. rewrite LM in E. clear LM.
    set (K := bits nk) in *. set (Q := bits q) in *. set (L := lcp K Q) in *.
    destruct (lcp_cases K Q) as [(A1 & A2 & A3)|[(A1 & A2 & A3)|[(A1 & A2 & A3)|(A1 & A2 & A3)]]]; fold L in A1, A2, A3.
    + assert (nk = q) by (apply canon_bits_inj; auto). subst nk.
      decide_conds E. symmetry in E. pose proof (fresh_children _ _ _ _ _ _ _ q I ltac:(lia)) as F.
      destruct ni; subst r.
      * intros w Hin. cbn [entries app] in Hin. eapply F; eauto.
      * cbn [entries app]. split; [left; reflexivity|]. split; [|split; [reflexivity|]].
        -- intros k w. specialize (F k w). cbn [In]. intuition (inv_pair; auto; try congruence).
        -- cbn [winv]. fold K. split; [exact Ck|]. split; [exact Pk|]. split; [reflexivity|]. split; [exact I0|exact I1].
    + decide_conds E. subst r. intros w Hin.
      eapply (fresh_diverge _ _ _ _ _ _ _ q I); eauto.
    + decide_conds E.
      assert (Hbit : getBitAt kd (N.of_nat L) = nth (length K) Q false).
      { replace L with (length K) by lia. apply (getBitAt_bits q); auto. fold Q. lia. }
      rewrite Hbit in E.
      destruct (fresh_other _ _ _ _ _ _ _ q _ I A3 ltac:(fold K Q; lia) eq_refl) as [Fs Fo]. fold K Q in Fo.
      assert (Hpre : is_pre (K ++ [nth (length K) Q false]) Q) by (apply is_pre_snoc_intro; auto; lia).
      assert (Hnv : ni = true -> nv = 0) by (intros Hi; apply Him in Hi; tauto).
      destruct (nth (length K) Q false) eqn:Eb; cbn [child negb set_child] in *.
      * specialize (IH1 (K ++ [true]) (N.of_nat L) I1 Hpre ltac:(rewrite app_length; simpl; lia) _ eq_refl).
        destruct (del tid kd kpl (N.of_nat L) c1) as [[[c v'] [|]]|]; subst r.
        -- destruct IH1 as (J1 & J2 & J3 & J4 & J5).
           split; [cbn [entries]; rewrite !in_app_iff; auto|]. split; [|split].
           ++ intros k w. cbn [entries]. rewrite !in_app_iff, J2. specialize (Fo k w).
              destruct ni; cbn [In]; intuition (inv_pair; auto; try congruence).
           ++ cbn [entries]. rewrite !app_length, J3. lia.
           ++ split; [|discriminate]. cbn [inv]. fold K. split; [exact Ck|]. split; [exact Pk|].
              split; [|tauto]. intros Hi. destruct (Him Hi) as (? & ? & ?). auto.
        -- destruct IH1 as (J1 & J2 & J3 & J4).
           destruct (compress_spec _ _ J4) as [X1 X2].
           split; [cbn [entries]; rewrite !in_app_iff; auto|]. split; [|split].
           ++ intros k w. cbn [entries]. rewrite X2, !in_app_iff, J2. specialize (Fo k w).
              destruct ni; cbn [In]; intuition (inv_pair; auto; try congruence).
           ++ cbn [entries]. rewrite X2, !app_length, J3. lia.
           ++ destruct ((nt =? tid) && ni && negb (is_nil c0) && negb (is_nil (compress c)))%bool eqn:Es.
              ** split; [|discriminate]. apply andb_true_iff in Es as [Es Es3]. apply andb_true_iff in Es as [Es Es2].
                 apply andb_true_iff in Es as [Es0 Es1].
                 cbn [inv]. fold K. split; [exact Ck|]. split; [exact Pk|]. split; [|tauto].
                 intros Hi. split; [destruct c0; [discriminate|discriminate]|]. split; [destruct (compress c); [discriminate|discriminate]|auto].
              ** cbn [winv]. fold K. split; [exact Ck|]. split; [exact Pk|]. split; [exact Hnv|]. split; [exact I0|exact X1].
        -- intros w. cbn [entries]. rewrite !in_app_iff.
           intros [Hin|[Hin|Hin]]; [|eapply Fo; eauto|eapply IH1; eauto].
           destruct ni; cbn [In] in Hin; [tauto|]. destruct Hin as [Hin|[]]. injection Hin as ? ?. auto.
      * specialize (IH0 (K ++ [false]) (N.of_nat L) I0 Hpre ltac:(rewrite app_length; simpl; lia) _ eq_refl).
        destruct (del tid kd kpl (N.of_nat L) c0) as [[[c v'] [|]]|]; subst r.
        -- destruct IH0 as (J1 & J2 & J3 & J4 & J5).
           split; [cbn [entries]; rewrite !in_app_iff; auto|]. split; [|split].
           ++ intros k w. cbn [entries]. rewrite !in_app_iff, J2. specialize (Fo k w).
              destruct ni; cbn [In]; intuition (inv_pair; auto; try congruence).
           ++ cbn [entries]. rewrite !app_length, J3. lia.
           ++ split; [|discriminate]. cbn [inv]. fold K. split; [exact Ck|]. split; [exact Pk|].
              split; [|tauto]. intros Hi. destruct (Him Hi) as (? & ? & ?). auto.
        -- destruct IH0 as (J1 & J2 & J3 & J4).
           destruct (compress_spec _ _ J4) as [X1 X2].
           split; [cbn [entries]; rewrite !in_app_iff; auto|]. split; [|split].
           ++ intros k w. cbn [entries]. rewrite X2, !in_app_iff, J2. specialize (Fo k w).
              destruct ni; cbn [In]; intuition (inv_pair; auto; try congruence).
           ++ cbn [entries]. rewrite X2, !app_length, J3. lia.
           ++ destruct ((nt =? tid) && ni && negb (is_nil (compress c)) && negb (is_nil c1))%bool eqn:Es.
              ** split; [|discriminate]. apply andb_true_iff in Es as [Es Es3]. apply andb_true_iff in Es as [Es Es2].
                 apply andb_true_iff in Es as [Es0 Es1].
                 cbn [inv]. fold K. split; [exact Ck|]. split; [exact Pk|]. split; [|tauto].
                 intros Hi. split; [destruct (compress c); [discriminate|discriminate]|]. split; [destruct c1; [discriminate|discriminate]|auto].
              ** cbn [winv]. fold K. split; [exact Ck|]. split; [exact Pk|]. split; [exact Hnv|]. split; [exact X1|exact I1].
        -- intros w. cbn [entries]. rewrite !in_app_iff.
           intros [Hin|[Hin|Hin]]; [|eapply IH0; eauto|eapply Fo; eauto].
           destruct ni; cbn [In] in Hin; [tauto|]. destruct Hin as [Hin|[]]. injection Hin as ? ?. auto.
    + decide_conds E. subst r. intros w Hin.
      eapply (fresh_diverge _ _ _ _ _ _ _ q I); eauto.
Qed.
