(* Lpm/Insert.v — Txn.Insert preserves the invariant and acts as a map update. *)
From SV Require Import Base.Bytes Lpm.Model Lpm.Bits Lpm.Inv.
From Coq Require Import ZArith ZifyN ZifyNat ZifyBool.
Open Scope N_scope.

Lemma ins_spec tid kd kpl v : let q := (kd, kpl) in canon q -> forall n p ml0 n' inc,
  inv p n -> is_pre p (bits q) -> (N.to_nat ml0 <= length p)%nat ->
  ins tid kd kpl v ml0 n = (n', inc) ->
  inv p n' /\ n' <> Nil /\
  (forall k w, In (k, w) (entries n') <-> (k = q /\ w = v) \/ (k <> q /\ In (k, w) (entries n))) /\
  length (entries n') = (length (entries n) + b2n inc)%nat.
Proof.
  intros q Cq. induction n as [|nk nv ni nt c0 IH0 c1 IH1]; intros p ml0 n' inc I Pq Hml E.
  - cbn [ins] in E. inv_pair. fold q. split; [|split; [discriminate|split]].
    + simpl. split; [exact Cq|]. split; [exact Pq|]. split; [discriminate|tauto].
    + intros k w. simpl. intuition (inv_pair; auto; congruence).
    + reflexivity.
  - destruct I as (Ck & Pk & Him & I0 & I1).
    pose proof (lm_step p nk q ml0 Ck Cq Pk Pq Hml) as LM. change (fst q) with kd in LM. change (snd q) with kpl in LM.
    pose proof (kplen_bits nk Ck) as Hnpl. pose proof (snd_bits q Cq) as Hkpl. change (snd q) with kpl in Hkpl.
    cbn [ins] in E. rewrite LM in E. clear LM.
    pose proof (lcp_ge_pre _ _ _ Pk Pq) as HpL.
    set (K := bits nk) in *. set (Q := bits q) in *. set (L := lcp K Q) in *.
    assert (Iold : forall t' p', is_pre p' K -> inv p' (Node nk nv ni t' c0 c1)).
    { intros t' p' Hp'. simpl. fold K. tauto. }
    assert (Fext : forall k w, In (k, w) (entries (Node nk nv ni nt c0 c1)) -> is_pre K (bits k)).
    { intros k w Hin. eapply (entries_ext p); [|exact Hin]. simpl. fold K. tauto. }
    destruct (lcp_cases K Q) as [(A1 & A2 & A3)|[(A1 & A2 & A3)|[(A1 & A2 & A3)|(A1 & A2 & A3)]]]; fold L in A1, A2, A3.
    + (* same prefix: replace *)
      assert (nk = q) by (apply canon_bits_inj; auto). subst nk.
      decide_conds E. inv_pair. fold q.
      assert (F0 : forall k w, In (k, w) (entries c0) -> k <> q).
      { intros k w Hin. eapply below_child_ne; [eapply (entries_pre c0); eauto|fold Q; fold K; lia]. }
      assert (F1 : forall k w, In (k, w) (entries c1) -> k <> q).
      { intros k w Hin. eapply below_child_ne; [eapply (entries_pre c1); eauto|fold Q; fold K; lia]. }
      split; [|split; [discriminate|split]].
      * simpl. fold K. split; [exact Cq|]. split; [exact Pq|]. split; [discriminate|tauto].
      * intros k w. cbn [entries]. rewrite !in_app_iff. destruct ni; cbn [In].
        -- specialize (F0 k w). specialize (F1 k w). intuition (inv_pair; auto; try congruence).
        -- specialize (F0 k w). specialize (F1 k w). intuition (inv_pair; auto; try congruence).
      * cbn [entries]. rewrite !app_length. destruct ni; simpl; lia.
    + (* the new key is a proper prefix of the node's key: new parent *)
      decide_conds E.
      assert (Hbit : getBitAt (key_bytes nk) (N.of_nat L) = nth L K false) by (apply getBitAt_key_bits; auto).
      rewrite Hbit in E.
      assert (F : forall k w, In (k, w) (entries (Node nk nv ni nt c0 c1)) -> k <> q).
      { intros k w Hin ->. apply Fext in Hin. apply is_pre_len in Hin. fold Q in Hin. lia. }
      assert (Hc : inv (Q ++ [nth L K false]) (Node nk nv ni tid c0 c1)).
      { apply Iold. replace L with (length Q) by lia. apply is_pre_snoc_intro; auto. lia. }
      remember (Node nk nv ni tid c0 c1) as old eqn:Eold.
      remember (Node nk nv ni nt c0 c1) as orig eqn:Eorig.
      assert (Hold : entries old = entries orig) by (subst old orig; reflexivity).
      destruct (nth L K false) eqn:Eb; inv_pair; fold q.
      * split; [|split; [discriminate|split]].
        -- cbn [inv]. fold Q. split; [exact Cq|]. split; [exact Pq|]. split; [discriminate|]. split; [exact I|exact Hc].
        -- intros k w. cbn [entries app In]. rewrite Hold. specialize (F k w).
           intuition (inv_pair; auto; try congruence).
        -- cbn [entries app]. rewrite Hold. simpl. lia.
      * split; [|split; [discriminate|split]].
        -- cbn [inv]. fold Q. split; [exact Cq|]. split; [exact Pq|]. split; [discriminate|]. split; [exact Hc|exact I].
        -- intros k w. cbn [entries app]. rewrite Hold, app_nil_r. cbn [In]. specialize (F k w).
           intuition (inv_pair; auto; try congruence).
        -- cbn [entries app]. rewrite Hold, app_nil_r. simpl. lia.
    + (* the node's key is a proper prefix of the new key: descend *)
      decide_conds E.
      assert (Hbit : getBitAt kd (kplen nk) = nth L Q false).
      { rewrite Hnpl. fold K. replace (length K) with L by lia. apply (getBitAt_bits q); auto. }
      rewrite Hbit in E.
      assert (Hpre : is_pre (K ++ [nth L Q false]) Q).
      { replace L with (length K) by lia. apply is_pre_snoc_intro; auto. lia. }
      assert (Fs : nk <> q).
      { intros ->. fold Q in K. subst K. lia. }
      destruct (nth L Q false) eqn:Eb.
      * destruct (ins tid kd kpl v (N.of_nat L) c1) as [c inc'] eqn:E1. inv_pair.
        destruct (IH1 (K ++ [true]) (N.of_nat L) c inc' I1 Hpre) as (J1 & J2 & J3 & J4); [rewrite app_length; simpl; lia|exact E1|].
        assert (F0 : forall k w, In (k, w) (entries c0) -> k <> q).
        { intros k w Hin. eapply (other_child_ne K false); [eapply (entries_pre c0); eauto|exact A3|fold Q; lia|].
          replace (length K) with L by lia. fold Q. congruence. }
        split; [|split; [discriminate|split]].
        -- cbn [inv]. fold K. split; [exact Ck|]. split; [exact Pk|]. split; [|tauto].
           intros Hi. destruct (Him Hi) as (? & ? & ?). auto.
        -- intros k w. cbn [entries]. rewrite !in_app_iff. rewrite J3. specialize (F0 k w).
           destruct ni; cbn [In]; intuition (inv_pair; auto; try congruence).
        -- cbn [entries]. rewrite !app_length, J4. lia.
      * destruct (ins tid kd kpl v (N.of_nat L) c0) as [c inc'] eqn:E0. inv_pair.
        destruct (IH0 (K ++ [false]) (N.of_nat L) c inc' I0 Hpre) as (J1 & J2 & J3 & J4); [rewrite app_length; simpl; lia|exact E0|].
        assert (F1 : forall k w, In (k, w) (entries c1) -> k <> q).
        { intros k w Hin. eapply (other_child_ne K true); [eapply (entries_pre c1); eauto|exact A3|fold Q; lia|].
          replace (length K) with L by lia. fold Q. congruence. }
        split; [|split; [discriminate|split]].
        -- cbn [inv]. fold K. split; [exact Ck|]. split; [exact Pk|]. split; [|tauto].
           intros Hi. destruct (Him Hi) as (? & ? & ?). auto.
        -- intros k w. cbn [entries]. rewrite !in_app_iff. rewrite J3. specialize (F1 k w).
           destruct ni; cbn [In]; intuition (inv_pair; auto; try congruence).
        -- cbn [entries]. rewrite !app_length, J4. lia.
    + (* divergence inside both keys: fork with an imaginary node *)
      decide_conds E.
      destruct (encodeKey_spec nk L Ck) as [Cik Bik]; [fold K; lia|]. fold K in Bik.
      set (ik := encodeKey (key_bytes nk) (N.of_nat L)) in *.
      assert (Hbit : getBitAt kd (N.of_nat L) = nth L Q false) by (apply (getBitAt_bits q); auto).
      rewrite Hbit in E.
      assert (F : forall k w, In (k, w) (entries (Node nk nv ni nt c0 c1)) -> k <> q).
      { intros k w Hin ->. apply Fext in Hin. fold Q in Hin. apply lcp_pre in Hin. fold L in Hin. lia. }
      assert (HlenF : length (firstn L K) = L) by (rewrite firstn_length; lia).
      assert (HpK : is_pre (firstn L K ++ [nth L K false]) K).
      { rewrite <- HlenF at 2. apply is_pre_snoc_intro; [apply is_pre_firstn|lia]. }
      assert (HpQ : is_pre (firstn L K ++ [nth L Q false]) Q).
      { unfold L at 1. rewrite lcp_firstn_eq. fold L.
        assert (HlenQ : length (firstn L Q) = L) by (rewrite firstn_length; lia).
        rewrite <- HlenQ at 2. apply is_pre_snoc_intro; [apply is_pre_firstn|lia]. }
      assert (Hpi : is_pre p (firstn L K)) by (apply is_pre_both; auto).
      assert (Inw : forall p', is_pre p' Q -> inv p' (Node q v false tid Nil Nil)).
      { intros p' Hp'. simpl. fold Q. split; [exact Cq|]. split; [exact Hp'|]. split; [discriminate|tauto]. }
      remember (Node nk nv ni tid c0 c1) as old eqn:Eold.
      remember (Node nk nv ni nt c0 c1) as orig eqn:Eorig.
      assert (Hold : entries old = entries orig) by (subst old orig; reflexivity).
      assert (Iold' : forall p', is_pre p' K -> inv p' old) by (subst old; apply Iold).
      destruct (nth L Q false) eqn:Eb; inv_pair; fold q.
      * assert (Ekb : nth L K false = false) by (destruct (nth L K false); congruence).
        rewrite Ekb in HpK.
        split; [|split; [discriminate|split]].
        -- cbn [inv]. rewrite Bik. split; [exact Cik|]. split; [exact Hpi|]. split; [intros _; rewrite Eold; split; [discriminate|split; [discriminate|reflexivity]]|].
           split; [apply Iold'; exact HpK|apply Inw; exact HpQ].
        -- intros k w. cbn [entries app]. rewrite Hold. rewrite in_app_iff. cbn [In]. specialize (F k w).
           intuition (inv_pair; auto; try congruence).
        -- cbn [entries app]. rewrite Hold, app_length. simpl. lia.
      * assert (Ekb : nth L K false = true) by (destruct (nth L K false); congruence).
        rewrite Ekb in HpK.
        split; [|split; [discriminate|split]].
        -- cbn [inv]. rewrite Bik. split; [exact Cik|]. split; [exact Hpi|]. split; [intros _; rewrite Eold; split; [discriminate|split; [discriminate|reflexivity]]|].
           split; [apply Inw; exact HpQ|apply Iold'; exact HpK].
        -- intros k w. cbn [entries app]. rewrite Hold. cbn [In]. specialize (F k w).
           intuition (inv_pair; auto; try congruence).
        -- cbn [entries app]. rewrite Hold. simpl. lia.
Qed.
