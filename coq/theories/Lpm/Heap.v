(* Lpm/Heap.v — heap-level (pointer) model of lpm/trie.go: nodes live at addresses of a heap,
   Txn.clone(n) returns n itself (then WRITTEN IN PLACE) iff n.txnID = txn.txnID, otherwise it
   appends a copy stamped with txn.txnID. Insert / Delete mirror the Go code line by line
   (Go statements are quoted next to the definitions). No proofs here except computed sanity
   examples; the theorems (refinement of Lpm/Model.v, ownership, persistence) are in HeapProofs.v.

   What is modelled in addition to Lpm/Model.v: node identity, allocation (append-only), aliasing
   between tries / iterators / transactions of any lineage that live on the same heap. *)
From SV Require Import Base.Bytes Lpm.Model.
From Coq Require Import ZArith List.
Import ListNotations.
Open Scope N_scope.

(* lpmNode[T]; a pointer is [option nat] (None = nil), an address is an index of the heap *)
Record hnode := mkH {
  h_key : lkey; h_val : N; h_imag : bool; h_id : N; h_c0 : option nat; h_c1 : option nat }.
Definition heap := list hnode.

Definition hdflt : hnode := mkH ([], 0) 0 false 0 None None.
Definition hget (h : heap) (a : nat) : hnode := nth a h hdflt.

(* *addr = n (in-place write) *)
Fixpoint upd (h : heap) (a : nat) (n : hnode) : heap :=
  match h, a with
  | [], _ => []
  | _ :: h', O => n :: h'
  | x :: h', S a' => x :: upd h' a' n
  end.

Definition get_c (n : hnode) (b : bool) : option nat := if b then h_c1 n else h_c0 n.
(* n.children[b] = p *)
Definition set_c (n : hnode) (b : bool) (p : option nat) : hnode :=
  if b then mkH (h_key n) (h_val n) (h_imag n) (h_id n) (h_c0 n) p
  else mkH (h_key n) (h_val n) (h_imag n) (h_id n) p (h_c1 n).
Definition set_id (n : hnode) (t : N) : hnode :=
  mkH (h_key n) (h_val n) (h_imag n) t (h_c0 n) (h_c1 n).

(* ---- denotation into the tree type of Lpm/Model.v ---- *)
Fixpoint denf (f : nat) (h : heap) (p : option nat) : node :=
  match f with
  | O => Nil
  | S f' =>
    match p with
    | None => Nil
    | Some a =>
      match nth_error h a with
      | None => Nil
      | Some n => Node (h_key n) (h_val n) (h_imag n) (h_id n) (denf f' h (h_c0 n)) (denf f' h (h_c1 n))
      end
    end
  end.
(* fuel = number of cells: enough for every acyclic pointer structure (HeapProofs.v rep_den) *)
Definition den (h : heap) (p : option nat) : node := denf (length h) h p.

(* the relational denotation: p represents the tree t in h (existence = acyclic, no dangling pointer) *)
Inductive rep (h : heap) : option nat -> node -> Prop :=
| rep_nil : rep h None Nil
| rep_node a n c0 c1 : nth_error h a = Some n -> rep h (h_c0 n) c0 -> rep h (h_c1 n) c1 ->
    rep h (Some a) (Node (h_key n) (h_val n) (h_imag n) (h_id n) c0 c1).

(* addresses reachable from a pointer *)
Inductive reach (h : heap) : option nat -> nat -> Prop :=
| reach_here a : reach h (Some a) a
| reach_child a n b x : nth_error h a = Some n -> reach h (get_c n b) x -> reach h (Some a) x.

(* ---- Txn.clone ----
     if n.txnID == txn.txnID { return n }; n2 := *n; n = &n2; n.txnID = txn.txnID; return n *)
Definition hclone_a (h : heap) (tid : N) (a : nat) : heap * nat :=
  let n := hget h a in
  if h_id n =? tid then (h, a) else (h ++ [set_id n tid], length h).
(*   if n == nil { return nil } *)
Definition hclone (h : heap) (tid : N) (p : option nat) : heap * option nat :=
  match p with
  | None => (h, None)
  | Some a => let (h', a') := hclone_a h tid a in (h', Some a')
  end.

(* nodep: &txn.root or &node.children[b] *)
Inductive slot := SRoot | SChild (a : nat) (b : bool).
(* *nodep = p; returns the heap and txn.root *)
Definition wslot (h : heap) (root : option nat) (s : slot) (p : option nat) : heap * option nat :=
  match s with
  | SRoot => (h, p)
  | SChild a b => (upd h a (set_c (hget h a) b p), root)
  end.

(* ---- Txn.Insert ---- *)
(* the code after the loop when node != nil; nn = address of newNode, a = node, ml = matchLen.
   Returns heap, txn.root, "txn.size++ executed" *)
Definition hins_fin (tid : N) (kd : bytes) (kpl : N) (nn : nat)
    (h : heap) (root : option nat) (s : slot) (a : nat) (ml : N) : heap * option nat * bool :=
  let n := hget h a in
  let npl := kplen (h_key n) in
  if ml =? kpl then
    if ml =? npl then
      (* if node.imaginary { txn.size++ }; newNode.children = node.children; *nodep = newNode *)
      let nw := hget h nn in
      let h1 := upd h nn (mkH (h_key nw) (h_val nw) (h_imag nw) (h_id nw) (h_c0 n) (h_c1 n)) in
      let (h2, r) := wslot h1 root s (Some nn) in (h2, r, h_imag n)
    else
      (* txn.size++; index := getBitAt(node.key, matchLen); newNode.children[index] = node; *nodep = newNode *)
      let idx := getBitAt (key_bytes (h_key n)) ml in
      let h1 := upd h nn (set_c (hget h nn) idx (Some a)) in
      let (h2, r) := wslot h1 root s (Some nn) in (h2, r, true)
  else
    (* txn.size++; imaginary := &lpmNode{key: EncodeLPMKey(node.key, matchLen), imaginary: true, txnID};
       bit := getBitAt(data, matchLen); imaginary.children[bit] = newNode; imaginary.children[bit^1] = node;
       *nodep = imaginary *)
    let bit := getBitAt kd ml in
    let im0 := mkH (encodeKey (key_bytes (h_key n)) ml) 0 true tid None None in
    let im := set_c (set_c im0 bit (Some nn)) (negb bit) (Some a) in
    let ia := length h in
    let h1 := h ++ [im] in
    let (h2, r) := wslot h1 root s (Some ia) in (h2, r, true).

(* the loop `for node != nil { ... }` and what follows it. [fuel] bounds the number of rounds
   (the loop descends one level per round; it is never exhausted on an acyclic structure). *)
Fixpoint hins_loop (fuel : nat) (tid : N) (kd : bytes) (kpl : N) (nn : nat)
    (h : heap) (root : option nat) (s : slot) (node : option nat) (ml : N) : heap * option nat * bool :=
  match node with
  | None =>
    (* if node == nil { *nodep = newNode; txn.size++; return } *)
    let (h', r) := wslot h root s (Some nn) in (h', r, true)
  | Some a =>
    let n := hget h a in
    (* matchLen = longestMatch(matchLen, node, data, prefixLen); nodePrefixLen := node.prefixLen() *)
    let ml' := longestMatch ml (h_key n) kd kpl in
    let npl := kplen (h_key n) in
    (* if matchLen == prefixLen || matchLen != nodePrefixLen { break } *)
    if (ml' =? kpl) || negb (ml' =? npl) then hins_fin tid kd kpl nn h root s a ml'
    else
      match fuel with
      | O => (h, root, false)
      | S f =>
        (* nodep = &node.children[getBitAt(data, nodePrefixLen)]; child := txn.clone(node.children[..]); node.children[..] = child; node = child *)
        let b := getBitAt kd npl in
        let (h1, c) := hclone h tid (get_c n b) in
        let h2 := upd h1 a (set_c (hget h1 a) b c) in
        hins_loop f tid kd kpl nn h2 root (SChild a b) c ml'
      end
  end.

(* Txn.Insert: newNode := &lpmNode{key, value, txnID}; txn.root = txn.clone(txn.root); nodep := &txn.root *)
Definition hins (tid : N) (kd : bytes) (kpl : N) (v : N) (h : heap) (root : option nat) : heap * option nat * bool :=
  let nn := length h in
  let h0 := h ++ [mkH (kd, kpl) v false tid None None] in
  let (h1, r1) := hclone h0 tid root in
  hins_loop (length h) tid kd kpl nn h1 r1 SRoot r1 0.

(* ---- Txn.Delete ---- *)
(* the first loop: find the node, collecting parents (head = last appended). Read-only. *)
Fixpoint hdel_find (fuel : nat) (kd : bytes) (kpl : N) (h : heap) (node : option nat) (ml : N)
    (parents : list (nat * bool)) : option (nat * list (nat * bool)) :=
  match node with
  | None => None                                     (* if node == nil { return } *)
  | Some a =>
    let n := hget h a in
    let ml' := longestMatch ml (h_key n) kd kpl in
    let npl := kplen (h_key n) in
    if (ml' =? kpl) && (ml' =? npl) then
      (if h_imag n then None else Some (a, parents))  (* imaginary: return; else break *)
    else if ml' <? npl then None                      (* mismatching prefix: return *)
    else
      match fuel with
      | O => None
      | S f =>
        (* index = getBitAt(data, matchLen); parents = append(parents, {node, index}); node = node.children[index] *)
        let idx := getBitAt kd ml' in
        hdel_find f kd kpl h (get_c n idx) ml' ((a, idx) :: parents)
      end
  end.

(* the switch on an imaginary node: nil / promote the single child / keep *)
Definition hcompress (h : heap) (a : nat) : option nat :=
  let n := hget h a in
  if h_imag n then
    match h_c0 n, h_c1 n with
    | None, None => None
    | Some c, None => Some c
    | None, Some c => Some c
    | Some _, Some _ => Some a
    end
  else Some a.

Definition is_some {A} (o : option A) : bool := match o with Some _ => true | None => false end.

(* the second loop `for i := len(parents)-1; i >= 0; i--`, then the root compression and
   `txn.root = node`. [node] is never nil at the head of a round. Returns heap and txn.root. *)
Fixpoint hdel_up (tid : N) (h : heap) (root : option nat) (node : nat) (parents : list (nat * bool))
    : heap * option nat :=
  match parents with
  | [] => (h, hcompress h node)
  | (op, idx) :: ps =>
    (* oldParent := parents[i].node; parent := txn.clone(oldParent) *)
    let oldid := h_id (hget h op) in
    let (h1, parent) := hclone_a h tid op in
    (* if node.imaginary { switch ... } ; parent.children[index] = node; node = parent *)
    let c := hcompress h1 node in
    let h2 := upd h1 parent (set_c (hget h1 parent) idx c) in
    let pn := hget h2 parent in
    (* if oldParent.txnID == txn.txnID && parent.imaginary && both children != nil { return value, true } *)
    if (oldid =? tid) && h_imag pn && is_some (h_c0 pn) && is_some (h_c1 pn) then (h2, root)
    else hdel_up tid h2 root parent ps
  end.

(* Txn.Delete. None = not found (nothing written). Otherwise heap, txn.root, value *)
Definition hdel (tid : N) (kd : bytes) (kpl : N) (h : heap) (root : option nat) : option (heap * option nat * N) :=
  match hdel_find (length h) kd kpl h root 0 [] with
  | None => None
  | Some (a, parents) =>
    (* txn.size--; value = node.value; node = txn.clone(node); node.value = zero; node.imaginary = true *)
    let v := h_val (hget h a) in
    let (h1, a1) := hclone_a h tid a in
    let n1 := hget h1 a1 in
    let h2 := upd h1 a1 (mkH (h_key n1) 0 true (h_id n1) (h_c0 n1) (h_c1 n1)) in
    let (h3, r) := hdel_up tid h2 root a1 parents in
    Some (h3, r, v)
  end.

(* ---- Trie / Txn records on the heap ---- *)
Record htrie := mkHTrie { hr_root : option nat; hr_size : N; hr_prev : N }.
(* x_own: the addresses this transaction allocated since its id was last set/bumped *)
Record htxn := mkHTxn { x_root : option nat; x_size : N; x_id : N; x_own : list nat }.

Definition htrie_new : htrie := mkHTrie None 0 0.                                         (* New *)
(* Trie.Txn / Txn.Reuse: txnID := prevTxnID + 1 *)
Definition htrie_txn (t : htrie) : htxn := mkHTxn (hr_root t) (hr_size t) (hr_prev t + 1) [].
Definition htxn_reuse (_ : htxn) (t : htrie) : htxn := htrie_txn t.
Definition htxn_clear (_ : htxn) : htxn := mkHTxn None 0 0 [].                          (* Txn.Clear *)
(* Txn.Commit: the Txn itself is left as it is (no bump) *)
Definition htxn_commit (x : htxn) : htrie := mkHTrie (x_root x) (x_size x) (x_id x).

(* the cells appended between two heaps *)
Definition fresh (h h' : heap) : list nat := seq (length h) (length h' - length h).

Definition htxn_insert (h : heap) (x : htxn) (k : lkey) (v : N) : heap * htxn :=
  let '(h', r, inc) := hins (x_id x) (fst k) (snd k) v h (x_root x) in
  (h', mkHTxn r (if inc then x_size x + 1 else x_size x) (x_id x) (x_own x ++ fresh h h')).

Definition htxn_delete (h : heap) (x : htxn) (k : lkey) : heap * htxn * (N * bool) :=
  match hdel (x_id x) (fst k) (snd k) h (x_root x) with
  | None => (h, x, (0, false))
  | Some (h', r, v) => (h', mkHTxn r (x_size x - 1) (x_id x) (x_own x ++ fresh h h'), (v, true))
  end.

(* Txn.All / Prefix / LowerBound: `if txn.root == nil { return nil }; txn.txnID++`; the iterator
   holds txn.root (All) or nodes reachable from it (Prefix, LowerBound); nothing is written *)
Definition htxn_freeze (x : htxn) : htxn :=
  match x_root x with
  | None => x
  | Some _ => mkHTxn (x_root x) (x_size x) (x_id x + 1) []
  end.
(* the variant WITHOUT the bump (refuted in HeapProofs.v) *)
Definition htxn_freeze_nobump (x : htxn) : htxn := x.

(* abstraction of a heap transaction / trie to the tree-level records of Lpm/Model.v *)
Definition habs (h : heap) (x : htxn) : txn := mkTxn (den h (x_root x)) (x_size x) (x_id x).
Definition habs_trie (h : heap) (t : htrie) : trie := mkTrie (den h (hr_root t)) (hr_size t) (hr_prev t).

(* ---- computed sanity check: a branching history on one heap against the tree model ---- *)
Module HeapSanity.
Definition k1 : lkey := ([10; 128], 9).
Definition k2 : lkey := ([10; 0; 64], 18).
Definition k3 : lkey := ([10], 8).
Definition k4 : lkey := ([10; 0], 16).
Definition k5 : lkey := ([11; 0], 16).

Definition run_h (ops : list (bool * lkey * N)) (h : heap) (x : htxn) : heap * htxn :=
  fold_left (fun (s : heap * htxn) (o : bool * lkey * N) =>
               let '(ins, k, v) := o in
               if ins then htxn_insert (fst s) (snd s) k v
               else fst (htxn_delete (fst s) (snd s) k)) ops (h, x).
Definition run_m (ops : list (bool * lkey * N)) (x : txn) : txn :=
  fold_left (fun (s : txn) (o : bool * lkey * N) =>
               let '(ins, k, v) := o in
               if ins then txn_insert s k v else fst (txn_delete s k)) ops x.

Definition ops1 := [(true, k1, 1); (true, k2, 2); (true, k3, 3); (false, k1, 0); (true, k4, 4);
                    (true, k5, 5); (false, k3, 0); (false, k2, 0); (true, k1, 7); (false, k5, 0)].
Definition ops2 := [(false, k4, 0); (true, k3, 9); (true, k2, 8); (false, k1, 0); (false, k5, 0); (false, k2, 0)].

Example sanity_single :
  let '(h, x) := run_h ops1 [] (htrie_txn htrie_new) in
  habs h x = run_m ops1 (trie_txn trie_new).
Proof. vm_compute. reflexivity. Qed.

(* commit, then a second transaction from the committed trie, with a freeze in the middle *)
Example sanity_two :
  let '(h, x) := run_h ops1 [] (htrie_txn htrie_new) in
  let t := htxn_commit x in
  let '(h1, y) := run_h ops2 h (htrie_txn t) in
  let y' := htxn_freeze y in
  let '(h2, z) := run_h ops1 h1 y' in
  let m := run_m ops1 (trie_txn trie_new) in
  let m1 := run_m ops2 (trie_txn (txn_commit m)) in
  let m2 := run_m ops1 (txn_freeze m1) in
  habs h1 y = m1 /\ habs h2 z = m2 /\
  habs_trie h2 t = txn_commit m /\ den h2 (x_root y') = t_root m1.
Proof. vm_compute. repeat split; reflexivity. Qed.
End HeapSanity.
