(* Lpm/Order.v — entries are strictly ascending in the bit-string order; the entry list
   as a finite map (abs). *)
From SV Require Import Base.Bytes Lpm.Model Lpm.Bits Lpm.Inv.
From Coq Require Import ZArith ZifyN ZifyNat ZifyBool.
Open Scope N_scope.

Definition key_lt (e1 e2 : lkey * N) : Prop := blt (bits (fst e1)) (bits (fst e2)).
(* strictly ascending: every earlier entry is below every later one *)
Definition ascending (l : list (lkey * N)) : Prop := ForallOrdPairs key_lt l.

Lemma FOP_app {A} (R : A -> A -> Prop) a : forall b, ForallOrdPairs R a -> ForallOrdPairs R b ->
  (forall x y, In x a -> In y b -> R x y) -> ForallOrdPairs R (a ++ b).
Proof.
  induction a as [|x a IH]; intros b Ha Hb H; simpl; auto.
  inversion Ha; subst. constructor.
  - apply Forall_app. split; auto. apply Forall_forall. intros y Hy. apply H; simpl; auto.
  - apply IH; auto. intros; apply H; simpl; auto.
Qed.

Lemma FOP_app_inv {A} (R : A -> A -> Prop) a : forall b, ForallOrdPairs R (a ++ b) ->
  ForallOrdPairs R a /\ ForallOrdPairs R b /\ (forall x y, In x a -> In y b -> R x y).
Proof.
  induction a as [|x a IH]; intros b H; simpl in *.
  - split; [constructor|]. split; auto. intros ? ? [].
  - inversion H; subst. apply IH in H3 as (H3 & H4 & H5). apply Forall_app in H2 as [F1 F2].
    split; [constructor; auto|]. split; auto. intros u y [<-|Hu] Hy; auto.
    rewrite Forall_forall in F2. auto.
Qed.

Lemma entries_ascending n : forall p, inv p n -> ascending (entries n).
Proof.
  unfold ascending.
  induction n as [|nk nv ni nt c0 IH0 c1 IH1]; intros p I; cbn [entries]; [constructor|].
  destruct I as (Ck & Pk & Him & I0 & I1).
  assert (H01 : ForallOrdPairs key_lt (entries c0 ++ entries c1)).
  { apply FOP_app; eauto. intros [k w] [k' w'] Hx Hy. unfold key_lt. cbn [fst].
    apply (blt_fork (bits nk)); [eapply (entries_pre c0); eauto|eapply (entries_pre c1); eauto]. }
  destruct ni; [exact H01|]. apply FOP_app; [repeat constructor|exact H01|].
  intros x [k' w'] [<-|[]] Hy. unfold key_lt. cbn [fst].
  apply in_app_iff in Hy.
  assert (Hp : exists b, is_pre (bits nk ++ [b]) (bits k')).
  { destruct Hy as [Hy|Hy]; [exists false; eapply (entries_pre c0); eauto|exists true; eapply (entries_pre c1); eauto]. }
  destruct Hp as [b Hp]. apply blt_pre.
  - eapply is_pre_trans; [apply is_pre_app|exact Hp].
  - apply is_pre_len in Hp. rewrite app_length in Hp. simpl in Hp. lia.
Qed.

(* ---------- the entry list as a finite map ---------- *)
Lemma lkey_eqb_spec a b : lkey_eqb a b = true <-> a = b.
Proof.
  destruct a as [da pa], b as [db pb]. unfold lkey_eqb. cbn [fst snd].
  rewrite andb_true_iff, bytes_eqb_spec, N.eqb_eq. split; [intros [-> ->]; reflexivity|intros H; injection H; auto].
Qed.

Fixpoint assoc (l : list (lkey * N)) (k : lkey) : option N :=
  match l with
  | [] => None
  | (k', v) :: r => if lkey_eqb k' k then Some v else assoc r k
  end.

(* abs : trie -> finite map from prefixes to values *)
Definition abs (r : node) (k : lkey) : option N := assoc (entries r) k.

Lemma assoc_none l k : assoc l k = None <-> forall w, ~ In (k, w) l.
Proof.
  induction l as [|[k' v] l IH]; simpl; [split; auto|].
  destruct (lkey_eqb k' k) eqn:E.
  - apply lkey_eqb_spec in E. subst. split; [discriminate|]. intros H. exfalso. apply (H v). auto.
  - rewrite IH. split.
    + intros H w [Hw|Hw]; [injection Hw as -> _; rewrite (proj2 (lkey_eqb_spec k k) eq_refl) in E; discriminate|eapply H; eauto].
    + intros H w Hw. apply (H w). auto.
Qed.

Lemma ascending_key_unique l k v w : ascending l -> In (k, v) l -> In (k, w) l -> v = w.
Proof.
  induction l as [|e l IH]; intros A Hv Hw; [destruct Hv|]. inversion A; subst.
  rewrite Forall_forall in H1.
  destruct Hv as [->|Hv], Hw as [Hw|Hw].
  - congruence.
  - apply H1 in Hw. unfold key_lt in Hw. simpl in Hw. exfalso. eapply blt_irrefl; eauto.
  - subst e. apply H1 in Hv. unfold key_lt in Hv. simpl in Hv. exfalso. eapply blt_irrefl; eauto.
  - auto.
Qed.

Lemma assoc_some l k v : ascending l -> (assoc l k = Some v <-> In (k, v) l).
Proof.
  intros A. split.
  - clear A. induction l as [|[k' v'] l IH]; simpl; [discriminate|].
    destruct (lkey_eqb k' k) eqn:E; [|auto]. apply lkey_eqb_spec in E. intros H. injection H as ->. subst. auto.
  - intros Hin. destruct (assoc l k) as [w|] eqn:E.
    + f_equal. eapply ascending_key_unique; eauto.
      clear - E. induction l as [|[k' v'] l IH]; simpl in *; [discriminate|].
      destruct (lkey_eqb k' k) eqn:E'; [|auto]. apply lkey_eqb_spec in E'. injection E as ->. subst. auto.
    + exfalso. rewrite assoc_none in E. eapply E; eauto.
Qed.

(* two ascending lists that hold the same values under k / k2 agree as maps there *)
Lemma assoc_eq l l' k k2 : ascending l -> ascending l' ->
  (forall v, In (k, v) l <-> In (k2, v) l') -> assoc l k = assoc l' k2.
Proof.
  intros A A' H. destruct (assoc l k) as [v|] eqn:E.
  - symmetry. apply assoc_some; auto. apply H. apply assoc_some in E; auto.
  - symmetry. apply assoc_none. intros w Hw. apply H in Hw. rewrite assoc_none in E. eapply E; eauto.
Qed.
