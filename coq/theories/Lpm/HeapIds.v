(* Lpm/HeapIds.v — what Insert / Delete do to the txnID fields, proved directly on the heap functions
   (no invariant needed): an in-place write never changes the id of a cell, and every appended
   cell carries the transaction's id. *)
From SV Require Import Base.Bytes Lpm.Model Lpm.Heap Lpm.HeapBase.
From Coq Require Import ZArith List Bool Lia ZifyN ZifyNat ZifyBool.
Import ListNotations.
Open Scope N_scope.

Definition ids_pres (tid : N) (h h' : heap) : Prop :=
  (length h <= length h')%nat /\
  (forall a n, nth_error h a = Some n -> exists n', nth_error h' a = Some n' /\ h_id n' = h_id n) /\
  (forall a n', nth_error h' a = Some n' -> (length h <= a)%nat -> h_id n' = tid).

Lemma ids_pres_refl tid h : ids_pres tid h h.
Proof.
  split; [lia|]. split; [eauto|]. intros a n' H L. apply nth_error_lt in H. lia.
Qed.

Lemma ids_pres_trans tid h h1 h2 : ids_pres tid h h1 -> ids_pres tid h1 h2 -> ids_pres tid h h2.
Proof.
  intros (L1 & A1 & B1) (L2 & A2 & B2). split; [lia|]. split.
  - intros a n H. destruct (A1 _ _ H) as (n1 & H1 & E1). destruct (A2 _ _ H1) as (n2 & H2 & E2).
    exists n2. split; [exact H2|congruence].
  - intros a n2 H2 L. destruct (nth_error h1 a) as [n1|] eqn:E.
    + destruct (A2 _ _ E) as (n2' & H2' & E2). assert (n2' = n2) by congruence. subst n2'.
      rewrite E2. eapply B1; eauto.
    + apply nth_error_None in E. eapply B2; eauto.
Qed.

Lemma ids_pres_app tid h n : h_id n = tid -> ids_pres tid h (h ++ [n]).
Proof.
  intros Hi. split; [rewrite app_length; lia|]. split.
  - intros a m H. exists m. split; [now apply nth_error_app_old|reflexivity].
  - intros a n' H L. assert (La : (a < length (h ++ [n]))%nat) by (eapply nth_error_lt; eauto).
    rewrite app_length in La. cbn [length] in La. assert (a = length h) by lia. subst a.
    rewrite nth_error_app_new in H. congruence.
Qed.

Lemma ids_pres_upd tid h a n' : h_id n' = h_id (hget h a) -> ids_pres tid h (upd h a n').
Proof.
  intros Hi. split; [rewrite upd_length; lia|]. split.
  - intros b m H. destruct (Nat.eq_dec a b) as [<-|Hne].
    + exists n'. split; [apply nth_error_upd_eq; eapply nth_error_lt; eauto|].
      rewrite Hi. now rewrite (hget_some _ _ _ H).
    + exists m. split; [rewrite nth_error_upd_neq; auto|reflexivity].
  - intros b m H L. apply nth_error_lt in H. rewrite upd_length in H. lia.
Qed.

Lemma h_id_set_c n b p : h_id (set_c n b p) = h_id n.
Proof. destruct b; reflexivity. Qed.

Lemma hclone_a_ids tid h a : ids_pres tid h (fst (hclone_a h tid a)).
Proof.
  unfold hclone_a. destruct (h_id (hget h a) =? tid); cbn [fst]; [apply ids_pres_refl|].
  apply ids_pres_app. reflexivity.
Qed.

Lemma hclone_ids tid h p : ids_pres tid h (fst (hclone h tid p)).
Proof.
  destruct p as [a|]; cbn [hclone]; [|apply ids_pres_refl].
  pose proof (hclone_a_ids tid h a) as H. destruct (hclone_a h tid a). exact H.
Qed.

Lemma wslot_ids tid h root s p : ids_pres tid h (fst (wslot h root s p)).
Proof.
  destruct s as [|a b]; cbn [wslot fst]; [apply ids_pres_refl|]. apply ids_pres_upd, h_id_set_c.
Qed.

Lemma hins_fin_ids tid kd kpl nn h root s a ml : ids_pres tid h (fst (fst (hins_fin tid kd kpl nn h root s a ml))).
Proof.
  unfold hins_fin. destruct (ml =? kpl).
  - destruct (ml =? kplen (h_key (hget h a))).
    + match goal with |- context [wslot ?hx root s ?p] =>
        pose proof (wslot_ids tid hx root s p) as W; destruct (wslot hx root s p) as [h2 r] end.
      cbn [fst] in *. eapply ids_pres_trans; [|exact W]. apply ids_pres_upd. reflexivity.
    + match goal with |- context [wslot ?hx root s ?p] =>
        pose proof (wslot_ids tid hx root s p) as W; destruct (wslot hx root s p) as [h2 r] end.
      cbn [fst] in *. eapply ids_pres_trans; [|exact W]. apply ids_pres_upd, h_id_set_c.
  - match goal with |- context [wslot ?hx root s ?p] =>
      pose proof (wslot_ids tid hx root s p) as W; destruct (wslot hx root s p) as [h2 r] end.
    cbn [fst] in *. eapply ids_pres_trans; [|exact W]. apply ids_pres_app.
    rewrite !h_id_set_c. reflexivity.
Qed.

Lemma hins_loop_ids tid kd kpl nn : forall fuel h root s node ml,
  ids_pres tid h (fst (fst (hins_loop fuel tid kd kpl nn h root s node ml))).
Proof.
  induction fuel as [|f IH]; intros h root s node ml; destruct node as [a|]; cbn [hins_loop].
  - destruct (_ || _)%bool; [apply hins_fin_ids|apply ids_pres_refl].
  - pose proof (wslot_ids tid h root s (Some nn)) as W. destruct (wslot h root s (Some nn)). exact W.
  - destruct (_ || _)%bool; [apply hins_fin_ids|].
    match goal with |- context [hclone h tid ?p] =>
      pose proof (hclone_ids tid h p) as C; destruct (hclone h tid p) as [h1 c] end.
    cbn [fst] in C. eapply ids_pres_trans; [exact C|]. eapply ids_pres_trans; [|apply IH].
    apply ids_pres_upd, h_id_set_c.
  - pose proof (wslot_ids tid h root s (Some nn)) as W. destruct (wslot h root s (Some nn)). exact W.
Qed.

Lemma hins_ids tid kd kpl v h root : ids_pres tid h (fst (fst (hins tid kd kpl v h root))).
Proof.
  unfold hins.
  match goal with |- context [hclone ?h0 tid root] =>
    pose proof (hclone_ids tid h0 root) as C; destruct (hclone h0 tid root) as [h1 r1] end.
  cbn [fst] in C. eapply ids_pres_trans; [apply (ids_pres_app tid h (mkH (kd, kpl) v false tid None None)); reflexivity|].
  eapply ids_pres_trans; [exact C|apply hins_loop_ids].
Qed.

Lemma hdel_up_ids tid root : forall parents h node, ids_pres tid h (fst (hdel_up tid h root node parents)).
Proof.
  induction parents as [|[op idx] ps IH]; intros h node; cbn [hdel_up fst]; [apply ids_pres_refl|].
  pose proof (hclone_a_ids tid h op) as C. destruct (hclone_a h tid op) as [h1 parent]. cbn [fst] in C.
  match goal with |- context [upd h1 parent ?x] =>
    assert (U : ids_pres tid h1 (upd h1 parent x)) by apply ids_pres_upd, h_id_set_c;
    set (h2 := upd h1 parent x) in * end.
  destruct (_ && _)%bool; cbn [fst].
  - eapply ids_pres_trans; eauto.
  - eapply ids_pres_trans; [exact C|]. eapply ids_pres_trans; [exact U|apply IH].
Qed.

Lemma hdel_ids tid kd kpl h root :
  match hdel tid kd kpl h root with Some (h', _, _) => ids_pres tid h h' | None => True end.
Proof.
  unfold hdel. destruct (hdel_find (length h) kd kpl h root 0 []) as [[a ps]|]; [|exact I].
  pose proof (hclone_a_ids tid h a) as C. destruct (hclone_a h tid a) as [h1 a1]. cbn [fst] in C.
  match goal with |- context [upd h1 a1 ?x] =>
    assert (U : ids_pres tid h1 (upd h1 a1 x)) by (apply ids_pres_upd; reflexivity);
    set (h2 := upd h1 a1 x) in * end.
  pose proof (hdel_up_ids tid root ps h2 a1) as D. destruct (hdel_up tid h2 root a1 ps) as [h3 r].
  cbn [fst] in D. eapply ids_pres_trans; [exact C|]. eapply ids_pres_trans; eauto.
Qed.
