(* Lpm/Model.v — executable mechanism-level model of lpm/trie.go, lpm/iterator.go (C13).
   Go counterparts are named next to each definition. No proofs here.

   Representation choices (see lib/props.d/C13.json, trusted base):
   * an index.Key k of the trie is held decoded, as DecodeLPMKey(k) = (data, prefixLen);
     [key_bytes] gives back the Go byte slice where the code uses the undecoded key
     (longestMatch's keySize, getBitAt(node.key, _), bytes.Compare(node.key, data),
     EncodeLPMKey(node.key, _)).
   * PrefixLen is uint16 in Go; the model computes in N without wrap-around, i.e. it is
     the code's behaviour for prefix lengths <= 65528 (every key the engine generates).
   * *lpmNode is a tree value; nil = [Nil]. In-place mutation of nodes owned by the
     transaction (clone returning its argument) is rendered as rebuilding the path; the
     txnID field of every node is modelled and compared with the implementation
     (engine op "dump"), so which nodes are cloned and which are reused is observable. *)
From SV Require Export Base.Bytes.
From SV Require Import KeyEnc.Model.
From Coq Require Import ZArith.
Open Scope N_scope.

Definition lkey := (bytes * N)%type.          (* DecodeLPMKey(key) *)
Definition kdata (k : lkey) : bytes := fst k.
Definition kplen (k : lkey) : N := snd k.
(* the undecoded index.Key: data ++ BigEndian.AppendUint16(prefixLen) *)
Definition key_bytes (k : lkey) : bytes := fst k ++ be16 (snd k).

Definition lkey_eqb (a b : lkey) : bool := bytes_eqb (fst a) (fst b) && (snd a =? snd b).

(* lpm/key.go EncodeLPMKey(data, prefixLen), decoded; mask_data is the copy + mask of the
   last byte (KeyEnc/Model.v). The "data too short" panic is not reachable from the trie. *)
Definition encodeKey (data : bytes) (plen : N) : lkey :=
  (mask_data data (N.to_nat ((plen + 7) / 8)) (plen mod 8), plen).

(* math/bits.LeadingZeros8 *)
Definition lz8 (x : N) : N := if x =? 0 then 8 else 7 - N.log2 x.

(* trie.go getBitAt(data, index) = int(data[index/8] >> (7 - index%8)) & 1; true = 1.
   (index out of range panics in Go; unreachable for well-formed keys, default byte 0) *)
Definition getBitAt (data : bytes) (index : N) : bool :=
  N.testbit (nth (N.to_nat (index / 8)) data 0) (7 - index mod 8).

(* the loop of longestMatch from byte i on: nk = node.key[i:], kd = keyData[i:]
   (both cut at keySize = min of the lengths: the zip stops at the shorter list) *)
Fixpoint lm_loop (nk kd : bytes) (prefixLen minPrefixLen : N) : N :=
  match nk, kd with
  | a :: nk', b :: kd' =>
    let m := lz8 (N.lxor a b) in
    let p := prefixLen + m in
    if minPrefixLen <=? p then minPrefixLen
    else if m <? 8 then p
    else lm_loop nk' kd' p minPrefixLen
  | _, _ => prefixLen
  end.

(* trie.go longestMatch(startLen, node, keyData, keyPrefixLen) *)
Definition longestMatch (startLen : N) (nk : lkey) (keyData : bytes) (keyPrefixLen : N) : N :=
  let startLenBytes := startLen / 8 in
  lm_loop (skipn (N.to_nat startLenBytes) (key_bytes nk)) (skipn (N.to_nat startLenBytes) keyData)
          (8 * startLenBytes) (N.min (kplen nk) keyPrefixLen).

(* lpmNode[T] with T = uint64 (value 0 = the zero value); Nil = nil pointer *)
Inductive node :=
| Nil
| Node (key : lkey) (value : N) (imaginary : bool) (txnID : N) (c0 c1 : node).

Definition is_nil (n : node) : bool := match n with Nil => true | _ => false end.
Definition child (b : bool) (c0 c1 : node) : node := if b then c1 else c0.
(* node with children[b] = c *)
Definition set_child (b : bool) (c c0 c1 : node) : node * node := if b then (c0, c) else (c, c1).

(* Txn.Insert below the root: n is *nodep after txn.clone, i.e. every visited node gets
   txnID := tid. Returns the new *nodep and whether txn.size is incremented. *)
Fixpoint ins (tid : N) (kd : bytes) (kpl : N) (v : N) (matchLen : N) (n : node) : node * bool :=
  match n with
  | Nil => (Node (kd, kpl) v false tid Nil Nil, true)     (* free slot / empty trie *)
  | Node nk nv ni _ c0 c1 =>
    let ml := longestMatch matchLen nk kd kpl in
    let npl := kplen nk in
    if (ml =? kpl) || negb (ml =? npl) then
      if ml =? kpl then
        if ml =? npl then
          (* replace; size++ only when the old node was imaginary *)
          (Node (kd, kpl) v false tid c0 c1, ni)
        else
          (* the new node becomes the parent of node *)
          let old := Node nk nv ni tid c0 c1 in
          if getBitAt (key_bytes nk) ml
          then (Node (kd, kpl) v false tid Nil old, true)
          else (Node (kd, kpl) v false tid old Nil, true)
      else
        (* fork with an imaginary node at the point of divergence *)
        let old := Node nk nv ni tid c0 c1 in
        let nw := Node (kd, kpl) v false tid Nil Nil in
        let ik := encodeKey (key_bytes nk) ml in
        if getBitAt kd ml
        then (Node ik 0 true tid old nw, true)
        else (Node ik 0 true tid nw old, true)
    else
      if getBitAt kd npl
      then let (c, inc) := ins tid kd kpl v ml c1 in (Node nk nv ni tid c0 c, inc)
      else let (c, inc) := ins tid kd kpl v ml c0 in (Node nk nv ni tid c c1, inc)
  end.

(* the switch that drops an imaginary node with fewer than two children (Txn.Delete) *)
Definition compress (n : node) : node :=
  match n with
  | Node _ _ true _ Nil Nil => Nil
  | Node _ _ true _ c0 Nil => c0
  | Node _ _ true _ Nil c1 => c1
  | _ => n
  end.

(* Txn.Delete below the root. None = key not found (nothing changes). Otherwise
   (new subtree, deleted value, stopped): [stopped] = the early "return value, true"
   was taken below: the nodes above are owned by the txn and stay as they are, except
   that the (in place modified) node below is seen through them. *)
Fixpoint del (tid : N) (kd : bytes) (kpl : N) (matchLen : N) (n : node) : option (node * N * bool) :=
  match n with
  | Nil => None
  | Node nk nv ni nt c0 c1 =>
    let ml := longestMatch matchLen nk kd kpl in
    let npl := kplen nk in
    if (ml =? kpl) && (ml =? npl) then
      if ni then None else Some (Node nk 0 true tid c0 c1, nv, false)
    else if ml <? npl then None
    else
      let idx := getBitAt kd ml in
      match del tid kd kpl ml (child idx c0 c1) with
      | None => None
      | Some (c, v, true) =>
        let (d0, d1) := set_child idx c c0 c1 in Some (Node nk nv ni nt d0 d1, v, true)
      | Some (c, v, false) =>
        let (d0, d1) := set_child idx (compress c) c0 c1 in
        let stop := (nt =? tid) && ni && negb (is_nil d0) && negb (is_nil d1) in
        Some (Node nk nv ni tid d0 d1, v, stop)
      end
  end.

(* lpmLookup(root, key); closest = value of the last non-imaginary node passed *)
Fixpoint lookup_go (kd : bytes) (kpl : N) (currentLen : N) (closest : option N) (n : node) : N * bool :=
  let miss := match closest with Some v => (v, true) | None => (0, false) end in
  match n with
  | Nil => miss
  | Node nk nv ni _ c0 c1 =>
    let npl := kplen nk in
    let ml := longestMatch currentLen nk kd kpl in
    if ml =? kpl then (nv, negb ni)
    else if ml <? npl then miss
    else lookup_go kd kpl npl (if ni then closest else Some nv) (child (getBitAt kd npl) c0 c1)
  end.

(* lpmLookupExact(root, key) *)
Fixpoint lookupExact_go (kd : bytes) (kpl : N) (matchLen : N) (n : node) : N * bool :=
  match n with
  | Nil => (0, false)
  | Node nk nv ni _ c0 c1 =>
    let npl := kplen nk in
    let ml := longestMatch matchLen nk kd kpl in
    if (ml =? kpl) && (ml =? npl) then (if ni then (0, false) else (nv, true))
    else if ml <? npl then (0, false)
    else lookupExact_go kd kpl ml (child (getBitAt kd npl) c0 c1)
  end.

(* Iterator[T]: a stack of nodes, head = top (Go: last element). {start: n} = [n]; nil = [] *)
Definition iterator := list node.

(* the loop of Txn.Prefix; [guard] = the `matchLen < prefixLen -> nil` test of fix 7b6a21e *)
Fixpoint prefix_go (guard : bool) (kd : bytes) (kpl : N) (matchLen : N) (n : node) : iterator :=
  match n with
  | Nil => []
  | Node nk _ _ _ c0 c1 =>
    let ml := longestMatch matchLen nk kd kpl in
    if (ml =? kpl) || (ml <? kplen nk) then
      (if guard && (ml <? kpl) then [] else [n])
    else prefix_go guard kd kpl ml (child (getBitAt kd (kplen nk)) c0 c1)
  end.

(* the loop of Txn.LowerBound; stack grows at the head *)
Fixpoint lowerBound_go (kd : bytes) (kpl : N) (matchLen : N) (stack : iterator) (n : node) : iterator :=
  match n with
  | Nil => stack
  | Node nk _ _ _ c0 c1 =>
    let ml := longestMatch matchLen nk kd kpl in
    if ml =? kpl then n :: stack
    else if ml <? kplen nk then
      (* bytes.Compare(node.key, data) >= 0 *)
      (if bytes_ltb (key_bytes nk) kd then stack else n :: stack)
    else if getBitAt kd (kplen nk)
      then lowerBound_go kd kpl ml stack c1
      else lowerBound_go kd kpl ml (if is_nil c1 then stack else c1 :: stack) c0
  end.

(* one round of the loop in Iterator.Next / Iterator.All: pop, push children[1] then [0] *)
Definition it_pop (st : iterator) : option (option (lkey * N) * iterator) :=
  match st with
  | [] => None
  | Nil :: st' => Some (None, st')          (* never pushed by the code *)
  | Node k v i _ c0 c1 :: st' =>
    let st1 := if is_nil c1 then st' else c1 :: st' in
    let st0 := if is_nil c0 then st1 else c0 :: st1 in
    Some (if i then None else Some (k, v), st0)
  end.

(* Iterator.Next: the first yielded entry and the remaining iterator *)
Fixpoint it_next (fuel : nat) (st : iterator) : option (lkey * N) * iterator :=
  match fuel with
  | O => (None, st)
  | S f => match it_pop st with
           | None => (None, [])
           | Some (Some e, st') => (Some e, st')
           | Some (None, st') => it_next f st'
           end
  end.

(* Iterator.All with a consumer that never stops *)
Fixpoint it_all (fuel : nat) (st : iterator) : list (lkey * N) :=
  match fuel with
  | O => []
  | S f => match it_pop st with
           | None => []
           | Some (Some e, st') => e :: it_all f st'
           | Some (None, st') => it_all f st'
           end
  end.

Fixpoint nodes (n : node) : nat :=
  match n with Nil => 0%nat | Node _ _ _ _ c0 c1 => S (nodes c0 + nodes c1) end.
(* enough fuel for a stack *)
Definition it_fuel (st : iterator) : nat := S (fold_right (fun n a => (nodes n + a)%nat) 0%nat st).

(* Trie[T] / Txn[T] (deletedParentsCache is an allocation cache, not modelled) *)
Record trie := mkTrie { r_root : node; r_size : N; r_prev : N }.
Record txn := mkTxn { t_root : node; t_size : N; t_id : N }.

Definition trie_new : trie := mkTrie Nil 0 0.                                   (* New *)
Definition trie_txn (t : trie) : txn := mkTxn (r_root t) (r_size t) (r_prev t + 1).  (* Trie.Txn *)
Definition txn_reuse (_ : txn) (t : trie) : txn := trie_txn t.                   (* Txn.Reuse *)
Definition txn_clear (_ : txn) : txn := mkTxn Nil 0 0.                           (* Txn.Clear *)
Definition txn_commit (x : txn) : trie := mkTrie (t_root x) (t_size x) (t_id x).  (* Txn.Commit *)
Definition txn_len (x : txn) : N := t_size x.
Definition trie_len (t : trie) : N := r_size t.

(* Txn.Insert *)
Definition txn_insert (x : txn) (k : lkey) (v : N) : txn :=
  let (r, inc) := ins (t_id x) (fst k) (snd k) v 0 (t_root x) in
  mkTxn r (if inc then t_size x + 1 else t_size x) (t_id x).

(* Txn.Delete *)
Definition txn_delete (x : txn) (k : lkey) : txn * (N * bool) :=
  match del (t_id x) (fst k) (snd k) 0 (t_root x) with
  | None => (x, (0, false))
  | Some (r, v, stopped) =>
    (mkTxn (if stopped then r else compress r) (t_size x - 1) (t_id x), (v, true))
  end.

Definition lookup (r : node) (k : lkey) : N * bool := lookup_go (fst k) (snd k) 0 None r.
Definition lookupExact (r : node) (k : lkey) : N * bool := lookupExact_go (fst k) (snd k) 0 r.
Definition prefix (r : node) (k : lkey) : iterator := prefix_go true (fst k) (snd k) 0 r.
(* Txn.Prefix before fix 7b6a21e (seeded/D2): refuted in Lpm/Refuted.v *)
Definition prefix_unguarded (r : node) (k : lkey) : iterator := prefix_go false (fst k) (snd k) 0 r.
Definition lowerBound (r : node) (k : lkey) : iterator := lowerBound_go (fst k) (snd k) 0 [] r.
Definition all (r : node) : iterator := match r with Nil => [] | _ => [r] end.

(* Txn.All / Txn.Prefix / Txn.LowerBound: nil on an empty trie, otherwise txnID++ *)
Definition txn_freeze (x : txn) : txn :=
  match t_root x with Nil => x | _ => mkTxn (t_root x) (t_size x) (t_id x + 1) end.
Definition txn_all (x : txn) : txn * iterator := (txn_freeze x, all (t_root x)).
Definition txn_prefix (x : txn) (k : lkey) : txn * iterator := (txn_freeze x, prefix (t_root x) k).
Definition txn_lowerBound (x : txn) (k : lkey) : txn * iterator := (txn_freeze x, lowerBound (t_root x) k).

(* entries of an iterator, as Iterator.All yields them *)
Definition it_entries (st : iterator) : list (lkey * N) := it_all (it_fuel st) st.
