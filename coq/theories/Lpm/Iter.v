(* Lpm/Iter.v — the iterator stack machine yields the pre-order entries; Prefix(q) yields
   exactly the stored prefixes covered by q. *)
From SV Require Import Base.Bytes Lpm.Model Lpm.Bits Lpm.Inv Lpm.Delete Lpm.Order.
From Coq Require Import ZArith ZifyN ZifyNat ZifyBool.
Open Scope N_scope.

Definition stack_nodes (st : iterator) : nat := fold_right (fun n a => (nodes n + a)%nat) 0%nat st.
Definition no_nil (st : iterator) : Prop := Forall (fun n => n <> Nil) st.

Lemma it_all_spec fuel : forall st, no_nil st -> (stack_nodes st < fuel)%nat ->
  it_all fuel st = flat_map entries st.
Proof.
  induction fuel as [|f IH]; intros st NF H; [lia|].
  destruct st as [|[|k v i t c0 c1] st']; cbn [it_all it_pop]; [reflexivity|inversion NF; congruence|].
  inversion NF as [|? ? _ NF']; subst.
  set (st1 := if is_nil c1 then st' else c1 :: st').
  set (st0 := if is_nil c0 then st1 else c0 :: st1).
  assert (E1 : flat_map entries st1 = entries c1 ++ flat_map entries st' /\ stack_nodes st1 = (nodes c1 + stack_nodes st')%nat /\ no_nil st1).
  { subst st1. destruct c1; simpl; repeat split; auto; constructor; [discriminate|auto]. }
  destruct E1 as (E1 & M1 & N1).
  assert (E0 : flat_map entries st0 = entries c0 ++ flat_map entries st1 /\ stack_nodes st0 = (nodes c0 + stack_nodes st1)%nat /\ no_nil st0).
  { subst st0. destruct c0; simpl; repeat split; auto; constructor; [discriminate|auto]. }
  destruct E0 as (E0 & M0 & N0).
  assert (Hf : (stack_nodes st0 < f)%nat) by (simpl in H; lia).
  cbn [flat_map entries]. rewrite <- !app_assoc, <- E1, <- E0.
  destruct i; cbn [app]; rewrite IH; auto.
Qed.

Lemma it_entries_spec st : no_nil st -> it_entries st = flat_map entries st.
Proof. intros NF. unfold it_entries. apply it_all_spec; auto. Qed.

Lemma all_entries r : it_entries (all r) = entries r.
Proof.
  destruct r as [|k v i t c0 c1]; [reflexivity|]. unfold all. rewrite it_entries_spec.
  - cbn [flat_map]. now rewrite app_nil_r.
  - constructor; [discriminate|constructor].
Qed.

(* ---------- Prefix ---------- *)
Fixpoint bpre (a b : list bool) : bool :=
  match a, b with
  | [], _ => true
  | x :: a', y :: b' => Bool.eqb x y && bpre a' b'
  | _ :: _, [] => false
  end.
Lemma bpre_spec a : forall b, bpre a b = true <-> is_pre a b.
Proof.
  induction a as [|x a IH]; intros b; simpl; [split; auto using is_pre_nil|].
  destruct b as [|y b]; [split; [discriminate|intros [r H]; discriminate]|].
  rewrite andb_true_iff, eqb_true_iff, IH. split.
  - intros [-> [r ->]]. now exists r.
  - intros [r H]. injection H as -> ->. split; auto. now exists r.
Qed.
(* q covers the entry e *)
Definition covered_by (q : lkey) (e : lkey * N) : bool := bpre (bits q) (bits (fst e)).

Lemma filter_all {A} (f : A -> bool) l : (forall x, In x l -> f x = true) -> filter f l = l.
Proof. induction l as [|x l IH]; intros H; simpl; auto. rewrite H, IH; simpl; auto. intros; apply H; simpl; auto. Qed.
Lemma filter_none {A} (f : A -> bool) l : (forall x, In x l -> f x = false) -> filter f l = [].
Proof. induction l as [|x l IH]; intros H; simpl; auto. rewrite H, IH; simpl; auto. intros; apply H; simpl; auto. Qed.

Lemma is_pre_comparable a b c : is_pre a c -> is_pre b c -> is_pre a b \/ is_pre b a.
Proof.
  intros Ha Hb. pose proof (is_pre_len _ _ Ha) as La. pose proof (is_pre_len _ _ Hb) as Lb.
  assert (Ea : a = firstn (length a) c) by (destruct Ha as [r ->]; now rewrite firstn_app, Nat.sub_diag, firstn_all, firstn_O, app_nil_r).
  assert (Eb : b = firstn (length b) c) by (destruct Hb as [r ->]; now rewrite firstn_app, Nat.sub_diag, firstn_all, firstn_O, app_nil_r).
  pose proof (lcp_firstn (length a) (length b) c c) as H. rewrite <- Ea, <- Eb, lcp_refl in H.
  destruct (Nat.le_ge_cases (length a) (length b)).
  - left. apply lcp_pre. lia.
  - right. apply lcp_pre. rewrite lcp_comm. lia.
Qed.

Lemma prefix_go_spec kd kpl : let q := (kd, kpl) in canon q -> forall n p ml0,
  inv p n -> is_pre p (bits q) -> (N.to_nat ml0 <= length p)%nat ->
  no_nil (prefix_go true kd kpl ml0 n) /\
  flat_map entries (prefix_go true kd kpl ml0 n) = filter (covered_by q) (entries n).
Proof.
  intros q Cq. induction n as [|nk nv ni nt c0 IH0 c1 IH1]; intros p ml0 I Pq Hml.
  - simpl. split; [constructor|reflexivity].
  - pose proof I as (Ck & Pk & Him & I0 & I1).
    destruct (node_facts p nk q ml0 Ck Cq Pk Pq Hml) as (LM & Hnpl & Hkpl & HpL).
    change (fst q) with kd in LM. change (snd q) with kpl in *.
    remember (prefix_go true kd kpl ml0 (Node nk nv ni nt c0 c1)) as r eqn:E. symmetry in E.
    cbn [prefix_go] in E. rewrite LM in E. clear LM.
    set (K := bits nk) in *. set (Q := bits q) in *. set (L := lcp K Q) in *.
    assert (Hext : forall e, In e (entries (Node nk nv ni nt c0 c1)) -> is_pre K (bits (fst e))).
    { intros [k w] Hin. eapply (entries_ext p) in Hin as [_ Hin]; [exact Hin|exact I]. }
    assert (Hwhole : is_pre Q K -> r = [Node nk nv ni nt c0 c1] ->
       no_nil r /\ flat_map entries r = filter (covered_by q) (entries (Node nk nv ni nt c0 c1))).
    { intros HQK ->. split; [constructor; [discriminate|constructor]|].
      rewrite filter_all; [cbn [flat_map]; now rewrite app_nil_r|].
      intros e Hin. apply bpre_spec. eapply is_pre_trans; [exact HQK|apply Hext; exact Hin]. }
    destruct (lcp_cases K Q) as [(A1 & A2 & A3)|[(A1 & A2 & A3)|[(A1 & A2 & A3)|(A1 & A2 & A3)]]]; fold L in A1, A2, A3.
    + decide_conds E. cbn [andb] in E. apply Hwhole; auto. rewrite A3. apply is_pre_refl.
    + decide_conds E. cbn [andb] in E. apply Hwhole; auto.
    + decide_conds E.
      assert (Hbit : getBitAt kd (kplen nk) = nth (length K) Q false).
      { rewrite Hnpl. apply (getBitAt_bits q); auto. fold Q. lia. }
      rewrite Hbit in E.
      assert (Hpre : is_pre (K ++ [nth (length K) Q false]) Q) by (apply is_pre_snoc_intro; auto; lia).
      assert (Hself : filter (covered_by q) (if ni then [] else [(nk, nv)]) = []).
      { apply filter_none. intros e Hin. destruct ni; [destruct Hin|]. destruct Hin as [<-|[]].
        destruct (covered_by q (nk, nv)) eqn:Ec; [|reflexivity]. apply bpre_spec in Ec. apply is_pre_len in Ec.
        cbn [fst] in Ec. fold K Q in Ec. lia. }
      assert (Hoth : forall b c, inv (K ++ [b]) c -> nth (length K) Q false <> b -> filter (covered_by q) (entries c) = []).
      { intros b c Ic Hb. apply filter_none. intros [k w] Hin.
        destruct (covered_by q (k, w)) eqn:Ec; [|reflexivity]. exfalso. apply bpre_spec in Ec. cbn [fst] in Ec. fold Q in Ec.
        eapply (entries_pre c) in Hin as [_ Hin]; eauto.
        pose proof (is_pre_trans _ _ _ Hpre Ec) as Hx. apply is_pre_snoc in Hx as (_ & Hx & _).
        apply is_pre_snoc in Hin as (_ & Hin & _). congruence. }
      cbn [entries]. rewrite !filter_app, Hself. cbn [app].
      destruct (nth (length K) Q false) eqn:Eb; cbn [child] in E; subst r.
      * rewrite (Hoth false c0 I0) by congruence. cbn [app].
        eapply (IH1 (K ++ [true])); eauto. rewrite app_length. simpl. lia.
      * rewrite (Hoth true c1 I1) by congruence. rewrite app_nil_r.
        eapply (IH0 (K ++ [false])); eauto. rewrite app_length. simpl. lia.
    + decide_conds E. cbn [andb] in E. subst r. split; [constructor|]. cbn [flat_map]. symmetry. apply filter_none.
      intros e Hin. destruct (covered_by q e) eqn:Ec; [|reflexivity]. exfalso. apply bpre_spec in Ec. fold Q in Ec.
      apply Hext in Hin. destruct (is_pre_comparable _ _ _ Hin Ec) as [Hx|Hx].
      * apply lcp_pre in Hx. fold L in Hx. lia.
      * apply lcp_pre in Hx. rewrite lcp_comm in Hx. fold L in Hx. lia.
Qed.

Lemma prefix_exact r q : canon q -> inv [] r ->
  it_entries (prefix r q) = filter (covered_by q) (entries r).
Proof.
  intros Cq I. unfold prefix. destruct q as [kd kpl]. cbn [fst snd].
  destruct (prefix_go_spec kd kpl Cq r [] 0 I (is_pre_nil _) ltac:(simpl; lia)) as [N E].
  rewrite it_entries_spec; auto.
Qed.
