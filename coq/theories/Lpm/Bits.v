(* Lpm/Bits.v — the bit-list view of LPM keys and the bridge from the byte-level
   longestMatch / getBitAt / EncodeLPMKey of the model to it. *)
From SV Require Import Base.Bytes KeyEnc.Model Lpm.Model.
From Coq Require Import ZArith ZifyN ZifyNat ZifyBool.
Open Scope N_scope.
Ltac Zify.zify_post_hook ::= Z.div_mod_to_equations.

(* ---------- bit lists ---------- *)
Definition byte_bits (b : N) : list bool := map (N.testbit b) [7; 6; 5; 4; 3; 2; 1; 0].
Fixpoint bytes_bits (l : bytes) : list bool :=
  match l with [] => [] | b :: r => byte_bits b ++ bytes_bits r end.
(* the prefix denoted by a key: its first prefixLen bits *)
Definition bits (k : lkey) : list bool := firstn (N.to_nat (snd k)) (bytes_bits (fst k)).

(* canonical key = what EncodeLPMKey produces: exactly ceil(plen/8) data bytes, bits beyond plen zero *)
Definition canon (k : lkey) : Prop :=
  is_bytes (fst k) /\ length (fst k) = N.to_nat ((snd k + 7) / 8) /\
  Forall (fun b => b = false) (skipn (N.to_nat (snd k)) (bytes_bits (fst k))).

(* length of the longest common prefix *)
Fixpoint lcp (a b : list bool) : nat :=
  match a, b with
  | x :: a', y :: b' => if Bool.eqb x y then S (lcp a' b') else O
  | _, _ => O
  end.

Definition is_pre (a b : list bool) : Prop := exists r, b = a ++ r.

(* ---------- lcp facts ---------- *)
Lemma lcp_le_l a : forall b, (lcp a b <= length a)%nat.
Proof. induction a as [|x a IH]; intros [|y b]; simpl; try lia. destruct (Bool.eqb x y); [specialize (IH b)|]; lia. Qed.
Lemma lcp_le_r a : forall b, (lcp a b <= length b)%nat.
Proof. induction a as [|x a IH]; intros [|y b]; simpl; try lia. destruct (Bool.eqb x y); [specialize (IH b)|]; lia. Qed.
Lemma lcp_comm a : forall b, lcp a b = lcp b a.
Proof. induction a as [|x a IH]; intros [|y b]; simpl; auto. rewrite (IH b). destruct x, y; reflexivity. Qed.
Lemma lcp_refl a : lcp a a = length a.
Proof. induction a as [|x a IH]; simpl; auto. rewrite eqb_reflx, IH; reflexivity. Qed.

Lemma lcp_firstn_eq a : forall b, firstn (lcp a b) a = firstn (lcp a b) b.
Proof.
  induction a as [|x a IH]; intros [|y b]; simpl; auto.
  destruct (Bool.eqb x y) eqn:E; simpl; auto. apply eqb_prop in E. subst. now rewrite IH.
Qed.

Lemma lcp_app_same p : forall a b, lcp (p ++ a) (p ++ b) = (length p + lcp a b)%nat.
Proof. induction p as [|x p IH]; intros; simpl; auto. now rewrite eqb_reflx, IH. Qed.

Lemma lcp_pre a : forall b, lcp a b = length a <-> is_pre a b.
Proof.
  induction a as [|x a IH]; intros b; simpl.
  - split; [intros _; now exists b|reflexivity].
  - destruct b as [|y b]; [split; [discriminate|intros [r H]; discriminate]|].
    destruct (Bool.eqb x y) eqn:E.
    + apply eqb_prop in E; subst. split.
      * intros H. injection H as H. apply IH in H as [r ->]. now exists r.
      * intros [r H]. injection H as ->. f_equal. apply IH. now exists r.
    + split; [discriminate|]. intros [r H]. injection H as -> _. now rewrite eqb_reflx in E.
Qed.

(* the first position after the common prefix differs (when inside both) *)
Lemma lcp_diverge a : forall b, (lcp a b < length a)%nat -> (lcp a b < length b)%nat ->
  nth (lcp a b) a false <> nth (lcp a b) b false.
Proof.
  induction a as [|x a IH]; intros [|y b]; simpl; try lia.
  destruct (Bool.eqb x y) eqn:E; simpl.
  - intros; apply IH; lia.
  - intros _ _ ->. now rewrite eqb_reflx in E.
Qed.

Lemma lcp_firstn n : forall m a b, lcp (firstn n a) (firstn m b) = Nat.min (Nat.min n m) (lcp a b).
Proof.
  induction n as [|n IH]; intros m a b; [reflexivity|].
  destruct m as [|m]; [destruct a; simpl; lia|].
  destruct a as [|x a]; [simpl; lia|]. destruct b as [|y b]; [simpl; lia|].
  cbn [firstn lcp]. destruct (Bool.eqb x y); [rewrite IH|]; lia.
Qed.

Lemma lcp_skipn k : forall a b, (k <= lcp a b)%nat -> lcp a b = (k + lcp (skipn k a) (skipn k b))%nat.
Proof.
  induction k as [|k IH]; intros a b H; [reflexivity|].
  destruct a as [|x a], b as [|y b]; simpl in *; try lia.
  destruct (Bool.eqb x y); [|lia]. rewrite <- IH; lia.
Qed.

(* extending the left list beyond the common prefix does not matter below its length *)
Lemma lcp_app_l a : forall x b, (lcp a b < length a)%nat -> lcp (a ++ x) b = lcp a b.
Proof.
  induction a as [|c a IH]; intros x b H; simpl in *; [lia|].
  destruct b as [|y b]; auto. destruct (Bool.eqb c y); auto. rewrite IH; auto; lia.
Qed.
Lemma lcp_app_l_ge a : forall x b, (lcp a b <= lcp (a ++ x) b)%nat.
Proof.
  induction a as [|c a IH]; intros x b; simpl; [lia|].
  destruct b as [|y b]; auto. destruct (Bool.eqb c y); auto. specialize (IH x b); lia.
Qed.

Lemma lcp_app_blocks a : forall b x y, length a = length b ->
  lcp (a ++ x) (b ++ y) = if (lcp a b =? length a)%nat then (length a + lcp x y)%nat else lcp a b.
Proof.
  induction a as [|c a IH]; intros [|d b] x y H; simpl in *; try lia; auto.
  destruct (Bool.eqb c d); auto. rewrite IH by lia.
  destruct (Nat.eqb_spec (lcp a b) (length a)), (Nat.eqb_spec (S (lcp a b)) (S (length a))); lia.
Qed.

(* ---------- bytes: brute force over the 2^16 pairs ---------- *)
Definition range256 : list N := map N.of_nat (seq 0 256).
Lemma in_range256 a : a < 256 -> In a range256.
Proof. intros H. unfold range256. rewrite <- (N2Nat.id a). apply in_map, in_seq. lia. Qed.

Definition lz8_ok (a b : N) : bool := lz8 (N.lxor a b) =? N.of_nat (lcp (byte_bits a) (byte_bits b)).
Lemma lz8_table : forallb (fun a => forallb (lz8_ok a) range256) range256 = true.
Proof. vm_compute. reflexivity. Qed.

Lemma lz8_spec a b : a < 256 -> b < 256 -> lz8 (N.lxor a b) = N.of_nat (lcp (byte_bits a) (byte_bits b)).
Proof.
  intros Ha Hb. pose proof lz8_table as T. rewrite forallb_forall in T.
  specialize (T a (in_range256 a Ha)). rewrite forallb_forall in T.
  specialize (T b (in_range256 b Hb)). now apply N.eqb_eq in T.
Qed.

Lemma byte_bits_length b : length (byte_bits b) = 8%nat.
Proof. reflexivity. Qed.
Lemma bytes_bits_length l : length (bytes_bits l) = (8 * length l)%nat.
Proof. induction l as [|b l IH]; cbn [bytes_bits]; [reflexivity|]. rewrite app_length, IH, byte_bits_length. simpl length; lia. Qed.

Lemma byte_bits_inj a b : a < 256 -> b < 256 -> byte_bits a = byte_bits b -> a = b.
Proof.
  intros Ha Hb H. pose proof (lz8_spec a b Ha Hb) as L. rewrite H, lcp_refl, byte_bits_length in L.
  unfold lz8 in L. destruct (N.eqb_spec (N.lxor a b) 0) as [E|E]; [now apply N.lxor_eq|]. lia.
Qed.

Lemma app_inv_len {A} (a : list A) : forall b x y, length a = length b -> a ++ x = b ++ y -> a = b /\ x = y.
Proof.
  induction a as [|c a IH]; intros [|d b] x y Hl H; simpl in *; try lia; auto.
  injection H as -> H. destruct (IH b x y) as [-> ->]; auto.
Qed.

Lemma bytes_bits_inj a : forall b, is_bytes a -> is_bytes b -> bytes_bits a = bytes_bits b -> a = b.
Proof.
  induction a as [|x a IH]; intros [|y b] Ha Hb H; cbn [bytes_bits] in H; auto.
  - apply (f_equal (@length bool)) in H. rewrite app_length, byte_bits_length in H. simpl in H. lia.
  - apply (f_equal (@length bool)) in H. rewrite app_length, byte_bits_length in H. simpl in H. lia.
  - inversion Ha; inversion Hb; subst.
    apply app_inv_len in H as [E1 E2]; [|reflexivity].
    f_equal; [apply byte_bits_inj; auto|apply IH; auto].
Qed.

(* ---------- lm_loop ---------- *)
Lemma lm_loop_spec nk : forall kd p m, is_bytes nk -> is_bytes kd -> p <= m ->
  lm_loop nk kd p m = N.min m (p + N.of_nat (lcp (bytes_bits nk) (bytes_bits kd))).
Proof.
  induction nk as [|a nk IH]; intros [|b kd] p m Hn Hk Hp; cbn [lm_loop bytes_bits].
  - cbn [lcp N.of_nat]. lia.
  - cbn [lcp N.of_nat]. lia.
  - rewrite lcp_comm. cbn [lcp N.of_nat]. lia.
  - inversion Hn; inversion Hk; subst.
    rewrite lcp_app_blocks by reflexivity. rewrite byte_bits_length.
    rewrite lz8_spec by assumption.
    pose proof (lcp_le_l (byte_bits a) (byte_bits b)) as Hle. rewrite byte_bits_length in Hle.
    set (c := lcp (byte_bits a) (byte_bits b)) in *.
    destruct (N.leb_spec m (p + N.of_nat c)) as [G1|G1].
    + destruct (Nat.eqb_spec c 8); lia.
    + destruct (N.ltb_spec (N.of_nat c) 8) as [G2|G2].
      * destruct (Nat.eqb_spec c 8); lia.
      * destruct (Nat.eqb_spec c 8); [|lia]. rewrite IH by (auto; lia). lia.
Qed.

Lemma bytes_bits_app a b : bytes_bits (a ++ b) = bytes_bits a ++ bytes_bits b.
Proof. induction a as [|x a IH]; cbn [bytes_bits app]; auto. now rewrite IH, app_assoc. Qed.


Lemma bytes_bits_skipn n : forall l, bytes_bits (skipn n l) = skipn (8 * n) (bytes_bits l).
Proof.
  induction n as [|n IH]; intros l; [reflexivity|].
  destruct l as [|b l]; [cbn [skipn bytes_bits]; now rewrite skipn_nil|].
  cbn [skipn bytes_bits]. rewrite IH, skipn_app, byte_bits_length.
  rewrite (skipn_all2 (byte_bits b)) by (rewrite byte_bits_length; lia).
  replace (8 * S n - 8)%nat with (8 * n)%nat by lia. reflexivity.
Qed.

Lemma is_bytes_skipn n l : is_bytes l -> is_bytes (skipn n l).
Proof.
  unfold is_bytes. revert l. induction n as [|n IH]; intros l H; [exact H|].
  destruct l; [constructor|]. inversion H; subst. simpl. auto.
Qed.

Lemma be16_bytes n : is_bytes (be16 n).
Proof. unfold be16, is_bytes, is_byte. repeat constructor; lia. Qed.

Lemma canon_len k : canon k -> length (bits k) = N.to_nat (snd k).
Proof.
  intros (_ & Hl & _). unfold bits. rewrite firstn_length, bytes_bits_length, Hl. lia.
Qed.

Lemma kplen_bits k : canon k -> kplen k = N.of_nat (length (bits k)).
Proof. intros H. rewrite canon_len by assumption. unfold kplen. lia. Qed.

(* longestMatch computes the length of the common bit prefix, when resumed from a
   start length that is indeed common *)
Lemma longestMatch_spec s nk q : canon nk -> canon q -> (N.to_nat s <= lcp (bits nk) (bits q))%nat ->
  longestMatch s nk (fst q) (snd q) = N.of_nat (lcp (bits nk) (bits q)).
Proof.
  intros (Bn & Ln & _) (Bq & Lq & _) Hs. unfold longestMatch.
  rewrite lm_loop_spec.
  2:{ apply is_bytes_skipn. unfold key_bytes, is_bytes. apply Forall_app. split; [exact Bn|apply be16_bytes]. }
  2:{ now apply is_bytes_skipn. }
  2:{ unfold bits in Hs. rewrite lcp_firstn in Hs. unfold kplen. lia. }
  rewrite !bytes_bits_skipn. unfold bits in *. rewrite lcp_firstn in *.
  unfold key_bytes, kplen. rewrite bytes_bits_app.
  pose proof (bytes_bits_length (fst nk)) as LBn.
  set (Bn' := bytes_bits (fst nk)) in *. set (Bq' := bytes_bits (fst q)) in *.
  set (S' := bytes_bits (be16 (snd nk))).
  pose proof (lcp_app_l_ge Bn' S' Bq') as Hge.
  assert (E : (8 * N.to_nat (s / 8) <= lcp (Bn' ++ S') Bq')%nat) by lia.
  apply lcp_skipn in E.
  replace (8 * (s / 8) + N.of_nat (lcp (skipn (8 * N.to_nat (s / 8)) (Bn' ++ S')) (skipn (8 * N.to_nat (s / 8)) Bq')))
    with (N.of_nat (lcp (Bn' ++ S') Bq')) by lia.
  destruct (Nat.lt_ge_cases (lcp Bn' Bq') (length Bn')) as [Hlt|Hge2].
  - rewrite lcp_app_l by assumption. lia.
  - pose proof (lcp_le_l Bn' Bq'). lia.
Qed.

(* ---------- getBitAt ---------- *)
Lemma nth_byte_bits b r : (r < 8)%nat -> nth r (byte_bits b) false = N.testbit b (7 - N.of_nat r).
Proof. intros H. do 8 (destruct r as [|r]; [reflexivity|]). lia. Qed.

Lemma getBitAt_spec data : forall i, (i < 8 * length data)%nat ->
  getBitAt data (N.of_nat i) = nth i (bytes_bits data) false.
Proof.
  unfold getBitAt. induction data as [|b l IH]; intros i H; [simpl in H; lia|].
  cbn [bytes_bits]. destruct (Nat.lt_ge_cases i 8) as [Hi|Hi].
  - rewrite app_nth1 by (rewrite byte_bits_length; lia). rewrite nth_byte_bits by lia.
    replace (N.to_nat (N.of_nat i / 8)) with 0%nat by lia. cbn [nth]. f_equal. lia.
  - rewrite app_nth2 by (rewrite byte_bits_length; lia). rewrite byte_bits_length.
    rewrite <- IH by (simpl in H; lia).
    replace (N.to_nat (N.of_nat i / 8)) with (S (N.to_nat (N.of_nat (i - 8) / 8))) by lia. cbn [nth].
    f_equal. lia.
Qed.

Lemma nth_firstn_lt {A} (d : A) n : forall i l, (i < n)%nat -> nth i (firstn n l) d = nth i l d.
Proof.
  induction n as [|n IH]; intros i l H; [lia|]. destruct l as [|x l]; [reflexivity|].
  destruct i as [|i]; [reflexivity|]. simpl. apply IH. lia.
Qed.

Lemma getBitAt_bits q i : canon q -> (i < length (bits q))%nat ->
  getBitAt (fst q) (N.of_nat i) = nth i (bits q) false.
Proof.
  intros C H. pose proof (canon_len q C) as L. destruct C as (_ & Hl & _).
  rewrite getBitAt_spec by lia. unfold bits. rewrite nth_firstn_lt by lia. reflexivity.
Qed.

Lemma getBitAt_key_bits q i : canon q -> (i < length (bits q))%nat ->
  getBitAt (key_bytes q) (N.of_nat i) = nth i (bits q) false.
Proof.
  intros C H. rewrite <- getBitAt_bits by assumption.
  pose proof (canon_len q C) as L. destruct C as (_ & Hl & _).
  unfold getBitAt, key_bytes. rewrite app_nth1 by lia. reflexivity.
Qed.

(* ---------- EncodeLPMKey ---------- *)
Definition mask_ok (b rem : N) : bool :=
  let m := mask_last b rem in
  (m <? 256) &&
  (if list_eq_dec Bool.bool_dec (byte_bits m) (firstn (N.to_nat rem) (byte_bits b) ++ repeat false (8 - N.to_nat rem))
   then true else false).
Lemma mask_table : forallb (fun b => forallb (mask_ok b) [1; 2; 3; 4; 5; 6; 7]) range256 = true.
Proof. vm_compute. reflexivity. Qed.

Lemma mask_last_spec b rem : b < 256 -> 0 < rem < 8 ->
  mask_last b rem < 256 /\
  byte_bits (mask_last b rem) = firstn (N.to_nat rem) (byte_bits b) ++ repeat false (8 - N.to_nat rem).
Proof.
  intros Hb Hr. pose proof mask_table as T. rewrite forallb_forall in T.
  specialize (T b (in_range256 b Hb)). rewrite forallb_forall in T.
  assert (Hin : In rem [1; 2; 3; 4; 5; 6; 7]) by (simpl; lia).
  specialize (T rem Hin). unfold mask_ok in T. apply andb_true_iff in T as [T1 T2].
  split; [now apply N.ltb_lt|]. destruct (list_eq_dec _ _ _) as [E|E]; [exact E|discriminate].
Qed.

(* mask_data keeps the first 8k + r bits of d and zeroes the rest of the last byte (r = rem, or 8 if rem = 0) *)
Lemma mask_data_bits k : forall d rem, (k < length d)%nat -> is_bytes d -> rem < 8 ->
  let r := if rem =? 0 then 8%nat else N.to_nat rem in
  is_bytes (mask_data d (S k) rem) /\
  bytes_bits (mask_data d (S k) rem) = firstn (8 * k + r) (bytes_bits d) ++ repeat false (8 - r).
Proof.
  induction k as [|k IH]; intros d rem Hk Hd Hr r.
  - destruct d as [|b d]; [simpl in Hk; lia|]. inversion Hd; subst.
    cbn [mask_data bytes_bits]. rewrite app_nil_r. subst r.
    destruct (N.eqb_spec rem 0) as [->|Hne].
    + split; [repeat constructor; assumption|].
      rewrite firstn_app, byte_bits_length. replace (8 * 0 + 8 - 8)%nat with 0%nat by lia.
      rewrite firstn_O, app_nil_r. rewrite firstn_all2 by (rewrite byte_bits_length; lia).
      replace (8 - 8)%nat with 0%nat by lia. cbn [repeat]. now rewrite app_nil_r.
    + destruct (mask_last_spec b rem) as [M1 M2]; [assumption|lia|].
      split; [repeat constructor; assumption|]. rewrite M2.
      rewrite firstn_app, byte_bits_length.
      replace (8 * 0 + N.to_nat rem - 8)%nat with 0%nat by lia. rewrite firstn_O, app_nil_r.
      reflexivity.
  - destruct d as [|b d]; [simpl in Hk; lia|]. inversion Hd; subst.
    change (mask_data (b :: d) (S (S k)) rem) with (b :: mask_data d (S k) rem).
    destruct (IH d rem) as [I1 I2]; [simpl in Hk; lia|assumption|assumption|].
    split; [constructor; assumption|]. cbn [bytes_bits]. rewrite I2. fold r.
    rewrite firstn_app, byte_bits_length.
    rewrite (firstn_all2 (byte_bits b)) by (rewrite byte_bits_length; lia).
    replace (8 * S k + r - 8)%nat with (8 * k + r)%nat by lia. now rewrite app_assoc.
Qed.

Lemma all_false_repeat l : Forall (fun b => b = false) l -> l = repeat false (length l).
Proof. induction 1 as [|x l Hx _ IH]; simpl; [reflexivity|]. now rewrite Hx, <- IH. Qed.
Lemma repeat_all_false n : Forall (fun b => b = false) (repeat false n).
Proof. induction n; simpl; constructor; auto. Qed.

(* the imaginary node's key: EncodeLPMKey(node.key, matchLen) denotes the first matchLen bits *)
Lemma encodeKey_spec nk ml : canon nk -> (ml <= length (bits nk))%nat ->
  canon (encodeKey (key_bytes nk) (N.of_nat ml)) /\
  bits (encodeKey (key_bytes nk) (N.of_nat ml)) = firstn ml (bits nk).
Proof.
  intros C Hml. pose proof (canon_len nk C) as L. destruct C as (Bn & Ln & _).
  unfold encodeKey, canon, bits. cbn [fst snd]. rewrite Nat2N.id.
  destruct ml as [|ml'].
  - change (N.of_nat 0) with 0. change (N.to_nat ((0 + 7) / 8)) with 0%nat.
    assert (E : forall d r, mask_data d 0 r = []) by (intros [|? ?] ?; reflexivity).
    rewrite E. simpl. repeat split; constructor.
  - set (ml := S ml') in *.
    assert (HB : is_bytes (key_bytes nk)) by (apply Forall_app; split; [exact Bn|apply be16_bytes]).
    assert (Hk : N.to_nat ((N.of_nat ml + 7) / 8) = S ((ml - 1) / 8)).
    { pose proof (Nat.div_mod (ml - 1) 8). subst ml. zify. lia. }
    rewrite Hk.
    destruct (mask_data_bits ((ml - 1) / 8) (key_bytes nk) (N.of_nat ml mod 8)) as [M1 M2].
    { unfold key_bytes. rewrite app_length. pose proof (Nat.div_mod (ml - 1) 8). lia. }
    { exact HB. } { lia. }
    set (r := if N.of_nat ml mod 8 =? 0 then 8%nat else N.to_nat (N.of_nat ml mod 8)) in *.
    assert (Hr : (8 * ((ml - 1) / 8) + r = ml)%nat).
    { subst r. pose proof (Nat.div_mod (ml - 1) 8). destruct (N.eqb_spec (N.of_nat ml mod 8) 0); subst ml; zify; lia. }
    rewrite Hr in M2.
    assert (Hf : firstn ml (bytes_bits (key_bytes nk)) = firstn ml (bits nk)).
    { unfold key_bytes. rewrite bytes_bits_app, firstn_app, bytes_bits_length.
      replace (ml - 8 * length (fst nk))%nat with 0%nat by lia. rewrite firstn_O, app_nil_r.
      unfold bits. rewrite firstn_firstn. f_equal. lia. }
    assert (Hlen : length (firstn ml (bits nk)) = ml) by (rewrite firstn_length; lia).
    repeat split.
    + exact M1.
    + apply (f_equal (@length bool)) in M2. rewrite bytes_bits_length, app_length, repeat_length, Hf, Hlen in M2.
      subst r. destruct (N.eqb_spec (N.of_nat ml mod 8) 0); lia.
    + rewrite M2, Hf, skipn_app, Hlen, skipn_all2 by lia. rewrite Nat.sub_diag. simpl. apply repeat_all_false.
    + rewrite M2, Hf, firstn_app, Hlen, Nat.sub_diag, firstn_O, app_nil_r. rewrite firstn_all2 by lia. reflexivity.
Qed.

Lemma canon_bits_inj a b : canon a -> canon b -> bits a = bits b -> a = b.
Proof.
  intros Ca Cb H.
  assert (Hp : snd a = snd b).
  { apply (f_equal (@length bool)) in H. rewrite !canon_len in H by assumption. lia. }
  destruct a as [da pa], b as [db pb]. cbn [snd] in Hp. subst pb. f_equal.
  destruct Ca as (Ba & La & Za), Cb as (Bb & Lb & Zb). unfold bits in H. cbn [fst snd] in *.
  apply bytes_bits_inj; [assumption|assumption|].
  rewrite <- (firstn_skipn (N.to_nat pa) (bytes_bits da)), <- (firstn_skipn (N.to_nat pa) (bytes_bits db)).
  f_equal; [exact H|].
  rewrite (all_false_repeat _ Za), (all_false_repeat _ Zb). f_equal.
  rewrite !skipn_length, !bytes_bits_length. lia.
Qed.
