(* WatchSet/Loop.v — the settle loop of WatchSet.Wait select by select, and the proof that the
   set-level description used by Model.wait_outcomes (members closed strictly before the settle
   context ends are gathered for sure, those closing at that very instant optionally) covers
   every run of the loop.

       for len(cases) >= 1 {
           chosen, _, _ := reflect.Select(cases)
           if chosen == 0 /* settleCtx.Done() */ { break }
           closedChannels = append(closedChannels, cases[chosen]...)
           cases[chosen] = cases[len(cases)-1]; cases = cases[:len(cases)-1]
       }

   reflect.Select returns some ready case; when none is ready it blocks, i.e. the clock advances. *)
From Coq Require Import List Arith Bool PeanoNat Lia.
From SV Require Import WatchSet.Model WatchSet.Proofs.
Import ListNotations.

Section Loop.
Variable ec : chan -> option time.   (* instant from which a channel is observably closed *)
Variable t2 : time.                  (* instant at which settleCtx.Done() is closed *)

(* settle_run cases closedChannels now result return-instant *)
Inductive settle_run : list chan -> list chan -> time -> list chan -> time -> Prop :=
| sr_done : forall cs acc now,             (* case 0 is ready and chosen: break *)
    t2 <= now -> settle_run cs acc now acc now
| sr_pick : forall cs acc now c tc r rt,   (* a ready member is chosen and shifted out *)
    In c cs -> ec c = Some tc -> tc <= now ->
    settle_run (ws_remove cs [c]) (acc ++ [c]) now r rt -> settle_run cs acc now r rt
| sr_block : forall cs acc now r rt,       (* nothing is ready: Select blocks, time passes *)
    now < t2 -> (forall c tc, In c cs -> ec c = Some tc -> now < tc) ->
    settle_run cs acc (S now) r rt -> settle_run cs acc now r rt.

Lemma settle_run_spec : forall cs acc now r rt, settle_run cs acc now r rt ->
  NoDup cs -> NoDup acc -> (forall x, In x acc -> ~ In x cs) ->
  (forall x tx, In x cs -> ec x = Some tx -> now <= tx) -> now <= t2 ->
  rt = t2 /\ NoDup r /\
  (forall x, In x r -> In x acc \/ (In x cs /\ exists tx, ec x = Some tx /\ tx <= t2)) /\
  (forall x, In x acc -> In x r) /\
  (forall x tx, In x cs -> ec x = Some tx -> tx < t2 -> In x r).
Proof.
  intros cs acc now r rt Hrun.
  induction Hrun as [cs acc now Hd | cs acc now c tc r rt Hc Hec Htc Hrun IH | cs acc now r rt Hlt Hnone Hrun IH];
    intros Hcs Hacc Hdisj Hinv Hle.
  - split; [lia|]. split; [exact Hacc|]. split; [intros x Hx; left; exact Hx|]. split; [intros x Hx; exact Hx|].
    intros x tx Hx Hex Hlt. specialize (Hinv x tx Hx Hex). lia.
  - assert (Hrm : forall x, In x (ws_remove cs [c]) <-> In x cs /\ x <> c).
    { intros x. rewrite ws_remove_In. simpl. split; intros [H1 H2]; (split; [exact H1|]); intuition. }
    destruct IH as [I1 [I2 [I3 [I4 I5]]]].
    + apply ws_remove_NoDup, Hcs.
    + apply NoDup_app_disj; [exact Hacc | repeat constructor; intros [] |].
      intros x Hx [E | []]. subst x. exact (Hdisj c Hx Hc).
    + intros x Hx Hx'. rewrite Hrm in Hx'. destruct Hx' as [Hx1 Hx2]. rewrite in_app_iff in Hx.
      destruct Hx as [Hx | [E | []]]; [exact (Hdisj x Hx Hx1) | apply Hx2; symmetry; exact E].
    + intros x tx Hx Hex. rewrite Hrm in Hx. exact (Hinv x tx (proj1 Hx) Hex).
    + exact Hle.
    + split; [exact I1|]. split; [exact I2|]. split; [|split].
      * intros x Hx. destruct (I3 x Hx) as [Ha | [Hx' Ht]].
        -- rewrite in_app_iff in Ha. destruct Ha as [Ha | [E | []]]; [left; exact Ha|].
           subst x. right. split; [exact Hc|]. exists tc. split; [exact Hec | lia].
        -- right. rewrite Hrm in Hx'. split; [exact (proj1 Hx') | exact Ht].
      * intros x Hx. apply I4. rewrite in_app_iff. left. exact Hx.
      * intros x tx Hx Hex Hlt. destruct (Nat.eq_dec x c) as [E | Hne].
        -- subst x. apply I4. rewrite in_app_iff. right. left. reflexivity.
        -- apply (I5 x tx); [rewrite Hrm; tauto | exact Hex | exact Hlt].
  - apply IH; [exact Hcs | exact Hacc | exact Hdisj | | lia].
    intros x tx Hx Hex. specialize (Hnone x tx Hx Hex). lia.
Qed.
End Loop.

(* ------------------------------------------------------------------ tie to wait_outcomes *)
Lemma filter_in_sublists : forall (f : chan -> bool) l, In (filter f l) (sublists l).
Proof.
  intros f. induction l as [|h l IH]; simpl; [left; reflexivity|].
  rewrite in_app_iff. destruct (f h); [right; apply in_map; exact IH | left; exact IH].
Qed.

Lemma wait_intro_settle : forall evs t0 settle ms t1 c sub e,
  ms <> [] -> first_time evs t0 ms = Some t1 -> In c ms -> eclose evs t0 c = Some t1 -> settle <> 0 ->
  In sub (sublists (opt_of evs t0 ms c (settle_end evs t0 t1 settle))) ->
  In e (settle_errs evs t0 t1 settle) ->
  In (mk ms (c :: sure_of evs t0 ms c (settle_end evs t0 t1 settle) ++ sub) e (settle_end evs t0 t1 settle))
     (wait_outcomes evs t0 settle ms).
Proof.
  intros evs t0 settle ms t1 c sub e Hne Hft Hc Hec Hs Hsub He.
  unfold wait_outcomes. destruct ms as [|m0 ms']; [exfalso; apply Hne; reflexivity|].
  set (ms := m0 :: ms') in *. rewrite Hft. rewrite in_app_iff. right.
  rewrite in_flat_map. exists c. split; [rewrite filter_In, otime_eqb_spec; tauto|].
  unfold after_first. apply Nat.eqb_neq in Hs. rewrite Hs.
  rewrite in_flat_map. exists sub. split; [exact Hsub|]. rewrite in_map_iff. exists e. split; [reflexivity | exact He].
Qed.

(* Every run of the settle loop, started as the code starts it (after the first select chose the
   member c at t1: cases = the other members, closedChannels = [c]), ends at the instant the model
   says and with a set of channels the model allows: some allowed outcome has the same return
   instant, the same error, the same returned channels and the same remaining set (as sets). *)
Lemma settle_loop_refines : forall evs t0 settle ms t1 c e r rt,
  NoDup ms -> first_time evs t0 ms = Some t1 -> In c ms -> eclose evs t0 c = Some t1 -> settle <> 0 ->
  In e (settle_errs evs t0 t1 settle) ->
  settle_run (eclose evs t0) (settle_end evs t0 t1 settle) (ws_remove ms [c]) [c] t1 r rt ->
  exists o, In o (wait_outcomes evs t0 settle ms) /\ o_time o = rt /\ o_err o = e /\
            (forall x, In x (o_ret o) <-> In x r) /\
            (forall x, In x (o_rem o) <-> In x ms /\ ~ In x r).
Proof.
  intros evs t0 settle ms t1 c e r rt Hnd Hft Hc Hec Hs He Hrun.
  set (t2 := settle_end evs t0 t1 settle) in *.
  destruct (first_time_spec _ _ _ _ Hft) as [Fm _].
  destruct (settle_end_spec evs t0 ms t1 settle Hft) as [[Slo _] _]. fold t2 in Slo.
  assert (Hrm : forall x, In x (ws_remove ms [c]) <-> In x ms /\ x <> c).
  { intros x. rewrite ws_remove_In. simpl. split; intros [H1 H2]; (split; [exact H1|]); intuition. }
  destruct (settle_run_spec _ _ _ _ _ _ _ Hrun) as [R1 [R2 [R3 [R4 R5]]]].
  - apply ws_remove_NoDup, Hnd.
  - repeat constructor. intros [].
  - intros x [E | []] Hx. subst x. rewrite Hrm in Hx. apply (proj2 Hx). reflexivity.
  - intros x tx Hx Hex. rewrite Hrm in Hx. exact (Fm x tx (proj1 Hx) Hex).
  - exact Slo.
  - set (sub := filter (fun m => ws_has r m) (opt_of evs t0 ms c t2)).
    assert (Hms : ms <> []) by (intros E; rewrite E in Hc; exact Hc).
    exists (mk ms (c :: sure_of evs t0 ms c t2 ++ sub) e t2).
    split; [apply (wait_intro_settle _ _ _ _ _ _ _ _ Hms Hft Hc Hec Hs (filter_in_sublists _ _) He)|].
    split; [simpl; symmetry; exact R1|]. split; [reflexivity|].
    assert (Hret : forall x, In x (c :: sure_of evs t0 ms c t2 ++ sub) <-> In x r).
    { intros x. simpl. rewrite in_app_iff. unfold sub, sure_of, opt_of.
      rewrite !filter_In, otime_ltb_spec, otime_eqb_spec, ws_has_In, Hrm. split.
      - intros [E | [[[Hm Hne] [tx [Hex Hlt]]] | [_ Hr]]].
        + subst x. apply R4. left. reflexivity.
        + apply (R5 x tx); [rewrite Hrm; tauto | exact Hex | exact Hlt].
        + exact Hr.
      - intros Hr. destruct (R3 x Hr) as [[E | []] | [Hx [tx [Hex Hle]]]]; [left; exact E|].
        rewrite Hrm in Hx. right. destruct (Nat.eq_dec tx t2) as [E | Hne].
        + subst tx. right. tauto.
        + left. split; [exact Hx|]. exists tx. split; [exact Hex | lia]. }
    split; [exact Hret|]. intros x. unfold mk. cbn [o_rem o_ret]. rewrite ws_remove_In, Hret. tauto.
Qed.
