(* WatchSet/Model.v — executable relational model of statedb.WatchSet (watchset.go).

   Channels are natural-number ids, time is a natural-number virtual clock.
   A scenario for Wait is: the member set, a timeline of events (close c @ t,
   cancel @ t), the time t0 at which Wait is called and the settle time.
   reflect.Select picks among several ready cases nondeterministically and events
   at the same instant are unordered, so the model computes the finite LIST of
   allowed outcomes (returned channels, error, remaining set, return time).
   Returned channels are a set (order of the list is irrelevant).  No proofs here. *)
From Coq Require Import List Arith Bool PeanoNat.
Import ListNotations.

Definition chan := nat.
Definition time := nat.

(* ctx.Err(): context.DeadlineExceeded | context.Canceled *)
Inductive ctxerr := Deadline | Canceled.

Inductive event :=
| Close (c : chan) (t : time)          (* close(ch) at time t *)
| Cancel (k : ctxerr) (t : time).      (* ctx ends at time t with error k *)

(* ---- the member set: WatchSet.chans (map[<-chan struct{}]struct{}) = duplicate-free list ---- *)
Definition wset := list chan.

(* WatchSet.Has *)
Definition ws_has (s : wset) (c : chan) : bool := existsb (Nat.eqb c) s.
(* one iteration of the loop in WatchSet.Add: ws.chans[ch] = struct{}{} *)
Definition ws_add1 (s : wset) (c : chan) : wset := if ws_has s c then s else s ++ [c].
(* WatchSet.Add(chans...) *)
Definition ws_add (s : wset) (cs : list chan) : wset := fold_left ws_add1 cs s.
(* WatchSet.Merge(other): for ch := range other.chans { ws.chans[ch] = struct{}{} } *)
Definition ws_merge (s other : wset) : wset := ws_add s other.
(* WatchSet.Clear *)
Definition ws_clear (s : wset) : wset := [].
(* WatchSet.HasAny *)
Definition ws_hasany (s : wset) (cs : list chan) : bool := existsb (ws_has s) cs.
(* the deferred loop in Wait: for _, ch := range closedChannels { delete(ws.chans, ch) } *)
Definition ws_remove (s : wset) (rs : list chan) : wset := filter (fun c => negb (ws_has rs c)) s.

(* ---- timeline ---- *)
Definition omin (a b : option nat) : option nat :=
  match a, b with
  | None, x => x
  | x, None => x
  | Some x, Some y => Some (Nat.min x y)
  end.

(* the instant at which channel c becomes closed (earliest close event), None = never *)
Fixpoint close_time (evs : list event) (c : chan) : option time :=
  match evs with
  | [] => None
  | Close c' t :: r => if c =? c' then omin (Some t) (close_time r c) else close_time r c
  | Cancel _ _ :: r => close_time r c
  end.

(* the instant at which ctx.Done() is closed and the error ctx.Err() reports from then on
   (earliest cancel event; the first listed one among simultaneous ones) *)
Fixpoint cancel_of (evs : list event) : option (time * ctxerr) :=
  match evs with
  | [] => None
  | Cancel k t :: r =>
      match cancel_of r with
      | Some (t', k') => if t' <? t then Some (t', k') else Some (t, k)
      | None => Some (t, k)
      end
  | Close _ _ :: r => cancel_of r
  end.

(* as seen by a Wait called at t0: everything that happened earlier is "ready at t0" *)
Definition eclose (evs : list event) (t0 : time) (c : chan) : option time :=
  option_map (Nat.max t0) (close_time evs c).
Definition ecancel (evs : list event) (t0 : time) : option time :=
  option_map (fun p => Nat.max t0 (fst p)) (cancel_of evs).

Definition otime_ltb (a : option time) (t : time) : bool :=
  match a with Some x => x <? t | None => false end.
Definition otime_eqb (a : option time) (t : time) : bool :=
  match a with Some x => x =? t | None => false end.

(* ---- outcomes of Wait ---- *)
Record outcome := mkOutcome {
  o_ret : list chan;          (* closedChannels (as a set) *)
  o_err : option ctxerr;      (* returned error: None = nil *)
  o_rem : wset;               (* ws.chans after the deferred deletes *)
  o_time : time               (* instant at which Wait returns *)
}.

Definition mk (members : wset) (ret : list chan) (err : option ctxerr) (t : time) : outcome :=
  mkOutcome ret err (ws_remove members ret) t.

(* all sub-lists (order preserving): which of the members that close exactly at the instant
   the settle context ends are still picked by reflect.Select before case 0 is chosen *)
Fixpoint sublists (l : list chan) : list (list chan) :=
  match l with
  | [] => [[]]
  | x :: r => let s := sublists r in s ++ map (cons x) s
  end.

(* the first reflect.Select(cases) returns at the earliest instant at which case 0
   (ctx.Done()) or a member is ready; None = it blocks forever *)
Definition first_time (evs : list event) (t0 : time) (members : wset) : option time :=
  fold_right (fun c acc => omin (eclose evs t0 c) acc) (ecancel evs t0) members.

(* settleCtx, cancel := context.WithTimeout(ctx, settleTime): done at min(t1+settle, cancel) *)
Definition settle_end (evs : list event) (t0 t1 settle : time) : time :=
  match ecancel evs t0 with
  | Some tc => Nat.min (t1 + settle) tc
  | None => t1 + settle
  end.

(* "return closedChannels, ctx.Err()" after the settle loop: the error is the context's iff
   the context ended before the settle timer; both when they expire at the same instant *)
Definition settle_errs (evs : list event) (t0 t1 settle : time) : list (option ctxerr) :=
  match cancel_of evs with
  | None => [None]
  | Some (tc, k) =>
      let tc := Nat.max t0 tc in
      if tc <? t1 + settle then [Some k]
      else if tc =? t1 + settle then [None; Some k]
      else [None]
  end.

(* after the first select chose member c at t1 *)
Definition after_first (evs : list event) (t0 settle : time) (members : wset) (t1 : time) (c : chan)
  : list outcome :=
  if settle =? 0 then
    (* "if settleTime == 0 { return closedChannels, nil }" *)
    [mk members [c] None t1]
  else
    (* the settle loop: every member closed strictly before settleCtx ends is selected (the
       loop only stops by choosing case 0, which is not ready before); those closing exactly
       at that instant may or may not be *)
    let t2 := settle_end evs t0 t1 settle in
    let rest := ws_remove members [c] in
    let sure := filter (fun m => otime_ltb (eclose evs t0 m) t2) rest in
    let opt := filter (fun m => otime_eqb (eclose evs t0 m) t2) rest in
    flat_map (fun sub => map (fun e => mk members (c :: sure ++ sub) e t2) (settle_errs evs t0 t1 settle))
             (sublists opt).

(* WatchSet.Wait(ctx, settle) called at t0 *)
Definition wait_outcomes (evs : list event) (t0 settle : time) (members : wset) : list outcome :=
  match members with
  | [] =>
      (* "if len(ws.chans) == 0 { <-ctx.Done(); return nil, ctx.Err() }" *)
      match cancel_of evs with
      | None => []
      | Some (tc, k) => [mk [] [] (Some k) (Nat.max t0 tc)]
      end
  | _ =>
      match first_time evs t0 members with
      | None => []
      | Some t1 =>
          (* "if chosen == 0 { return nil, ctx.Err() }" *)
          (match cancel_of evs with
           | Some (tc, k) => if Nat.max t0 tc =? t1 then [mk members [] (Some k) t1] else []
           | None => []
           end)
          ++ flat_map (after_first evs t0 settle members t1)
               (filter (fun m => otime_eqb (eclose evs t0 m) t1) members)
      end
  end.
