(* WatchSet/Proofs.v — every allowed outcome of the Wait model meets the contract C20. *)
From Coq Require Import List Arith Bool PeanoNat Lia.
From SV Require Import WatchSet.Model.
Import ListNotations.

(* ------------------------------------------------------------------ lists *)
Lemma NoDup_app_disj : forall (a b : list nat),
  NoDup a -> NoDup b -> (forall x, In x a -> ~ In x b) -> NoDup (a ++ b).
Proof.
  induction a as [|h a IH]; intros b Ha Hb Hd; simpl; [exact Hb|].
  inversion Ha as [|h' a' Hnin Ha']; subst. constructor.
  - rewrite in_app_iff. intros [H | H]; [exact (Hnin H) | exact (Hd h (or_introl eq_refl) H)].
  - apply IH; [exact Ha' | exact Hb | intros x Hx; apply Hd; right; exact Hx].
Qed.

Lemma NoDup_filter : forall (f : nat -> bool) l, NoDup l -> NoDup (filter f l).
Proof.
  intros f l Hnd. induction Hnd as [|h l Hnin Hnd IH]; simpl; [constructor|].
  destruct (f h); [constructor; [rewrite filter_In; tauto | exact IH] | exact IH].
Qed.

Lemma in_not_nil : forall (A : Type) (x : A) l, In x l -> l <> [].
Proof. intros A x l Hin Heq. subst. exact Hin. Qed.

(* ------------------------------------------------------------------ sets *)
Lemma ws_has_In : forall s c, ws_has s c = true <-> In c s.
Proof.
  intros s c. unfold ws_has. rewrite existsb_exists. split.
  - intros [x [Hin Heq]]. apply Nat.eqb_eq in Heq. subst. exact Hin.
  - intros Hin. exists c. split; [exact Hin | apply Nat.eqb_refl].
Qed.

Lemma ws_has_false : forall s c, ws_has s c = false <-> ~ In c s.
Proof.
  intros s c. rewrite <- ws_has_In. destruct (ws_has s c); split; congruence.
Qed.

Lemma ws_add1_In : forall s c x, In x (ws_add1 s c) <-> In x s \/ x = c.
Proof.
  intros s c x. unfold ws_add1. destruct (ws_has s c) eqn:Hh.
  - apply ws_has_In in Hh. split; [tauto | intros [H | H]; [exact H | subst; exact Hh]].
  - rewrite in_app_iff. simpl. intuition.
Qed.

Lemma ws_add1_NoDup : forall s c, NoDup s -> NoDup (ws_add1 s c).
Proof.
  intros s c Hnd. unfold ws_add1. destruct (ws_has s c) eqn:Hh; [exact Hnd|].
  apply ws_has_false in Hh. apply NoDup_app_disj; [exact Hnd | repeat constructor; intros [] |].
  intros x Hx [Hc | []]. subst. exact (Hh Hx).
Qed.

Lemma ws_add_In : forall cs s x, In x (ws_add s cs) <-> In x s \/ In x cs.
Proof.
  unfold ws_add. induction cs as [|c cs IH]; intros s x; simpl; [tauto|].
  rewrite IH, ws_add1_In. intuition.
Qed.

Lemma ws_add_NoDup : forall cs s, NoDup s -> NoDup (ws_add s cs).
Proof.
  unfold ws_add. induction cs as [|c cs IH]; intros s Hnd; simpl; [exact Hnd|].
  apply IH, ws_add1_NoDup, Hnd.
Qed.

Lemma ws_remove_In : forall s rs x, In x (ws_remove s rs) <-> In x s /\ ~ In x rs.
Proof.
  intros s rs x. unfold ws_remove. rewrite filter_In, negb_true_iff, ws_has_false. tauto.
Qed.

Lemma ws_remove_NoDup : forall s rs, NoDup s -> NoDup (ws_remove s rs).
Proof. intros s rs. apply NoDup_filter. Qed.

Lemma ws_hasany_spec : forall s cs, ws_hasany s cs = true <-> exists c, In c cs /\ In c s.
Proof.
  intros s cs. unfold ws_hasany. rewrite existsb_exists.
  split; intros [c [H1 H2]]; exists c; (split; [exact H1 | apply ws_has_In; exact H2]).
Qed.

(* the set operations of the API as a whole *)
Lemma ws_ops_spec :
  (forall s c, ws_has s c = true <-> In c s) /\
  (forall s cs x, In x (ws_add s cs) <-> In x s \/ In x cs) /\
  (forall s o x, In x (ws_merge s o) <-> In x s \/ In x o) /\
  (forall s x, ~ In x (ws_clear s)) /\
  (forall s cs, ws_hasany s cs = true <-> exists c, In c cs /\ In c s) /\
  (forall s cs, NoDup s -> NoDup (ws_add s cs)) /\
  (forall s o, NoDup s -> NoDup (ws_merge s o)) /\
  (forall s, NoDup (ws_clear s)).
Proof.
  repeat split; try apply ws_has_In; try apply ws_hasany_spec.
  - apply ws_add_In.
  - apply ws_add_In.
  - apply ws_add_In.
  - apply ws_add_In.
  - intros s x [].
  - intros s cs. apply ws_add_NoDup.
  - intros s o. apply ws_add_NoDup.
  - intros s. constructor.
Qed.

(* ------------------------------------------------------------------ timeline *)
Lemma otime_eqb_spec : forall a t, otime_eqb a t = true <-> a = Some t.
Proof.
  intros [x|] t; simpl; [rewrite Nat.eqb_eq; split; [intros; subst; reflexivity | congruence] | split; discriminate].
Qed.

Lemma otime_ltb_spec : forall a t, otime_ltb a t = true <-> exists x, a = Some x /\ x < t.
Proof.
  intros [x|] t; simpl.
  - rewrite Nat.ltb_lt. split; [intros; exists x; tauto | intros [y [Hy Hlt]]; inversion Hy; subst; exact Hlt].
  - split; [discriminate | intros [y [Hy _]]; discriminate].
Qed.

Lemma eclose_inv : forall evs t0 c t, eclose evs t0 c = Some t ->
  exists tc, close_time evs c = Some tc /\ t = Nat.max t0 tc.
Proof.
  intros evs t0 c t. unfold eclose. destruct (close_time evs c) as [tc|]; simpl; [|discriminate].
  intros H. inversion H. exists tc. tauto.
Qed.

Lemma eclose_of : forall evs t0 c tc, close_time evs c = Some tc -> eclose evs t0 c = Some (Nat.max t0 tc).
Proof. intros evs t0 c tc H. unfold eclose. rewrite H. reflexivity. Qed.

Lemma ecancel_of : forall evs t0 tc k, cancel_of evs = Some (tc, k) -> ecancel evs t0 = Some (Nat.max t0 tc).
Proof. intros evs t0 tc k H. unfold ecancel. rewrite H. reflexivity. Qed.

Lemma ecancel_none : forall evs t0, cancel_of evs = None -> ecancel evs t0 = None.
Proof. intros evs t0 H. unfold ecancel. rewrite H. reflexivity. Qed.

Lemma omin_some_le : forall a b t, omin a b = Some t ->
  (forall x, a = Some x -> t <= x) /\ (forall y, b = Some y -> t <= y) /\ (a = Some t \/ b = Some t).
Proof.
  intros [x|] [y|] t H; simpl in H; inversion H; subst; clear H.
  - repeat split.
    + intros x' Hx. inversion Hx. lia.
    + intros y' Hy. inversion Hy. lia.
    + destruct (Nat.min_spec x y) as [[_ E] | [_ E]]; rewrite E; tauto.
  - repeat split; [intros x' Hx; inversion Hx; lia | discriminate | tauto].
  - repeat split; [discriminate | intros y' Hy; inversion Hy; lia | tauto].
Qed.

Lemma omin_none : forall a b, omin a b = None -> a = None /\ b = None.
Proof. intros [x|] [y|] H; simpl in H; try discriminate; tauto. Qed.

Lemma first_time_none : forall evs t0 ms, first_time evs t0 ms = None ->
  ecancel evs t0 = None /\ (forall m, In m ms -> eclose evs t0 m = None).
Proof.
  intros evs t0. unfold first_time. induction ms as [|h ms IH]; intros H; simpl in H.
  - split; [exact H | intros m []].
  - apply omin_none in H. destruct H as [Hh Hr]. destruct (IH Hr) as [I1 I2].
    split; [exact I1 | intros m [Hm | Hm]; [subst; exact Hh | exact (I2 m Hm)]].
Qed.

(* first_time is the minimum of the effective close instants of the members and of the
   effective cancellation instant *)
Lemma first_time_spec : forall evs t0 ms t1, first_time evs t0 ms = Some t1 ->
  (forall m tm, In m ms -> eclose evs t0 m = Some tm -> t1 <= tm) /\
  (forall tc, ecancel evs t0 = Some tc -> t1 <= tc) /\
  (ecancel evs t0 = Some t1 \/ exists m, In m ms /\ eclose evs t0 m = Some t1).
Proof.
  intros evs t0. unfold first_time. induction ms as [|h ms IH]; intros t1 H; simpl in H.
  - repeat split.
    + intros m tm [].
    + intros tc Htc. rewrite Htc in H. inversion H. lia.
    + left. exact H.
  - destruct (fold_right (fun c acc => omin (eclose evs t0 c) acc) (ecancel evs t0) ms) as [r|] eqn:Hr.
    + destruct (omin_some_le _ _ _ H) as [Ha [Hb Hc]].
      destruct (IH r eq_refl) as [I1 [I2 I3]].
      pose proof (Hb r eq_refl) as Hle.
      repeat split.
      * intros m tm [Hm | Hm] Hec; [subst; exact (Ha _ Hec) | specialize (I1 m tm Hm Hec); lia].
      * intros tc Htc. specialize (I2 tc Htc). lia.
      * destruct Hc as [Hc | Hc].
        -- right. exists h. split; [left; reflexivity | exact Hc].
        -- inversion Hc; subst. destruct I3 as [I3 | [m [Hm Hec]]]; [left; exact I3|].
           right. exists m. split; [right; exact Hm | exact Hec].
    + destruct (eclose evs t0 h) as [x|] eqn:Hx; simpl in H; [|discriminate].
      inversion H; subst. destruct (first_time_none evs t0 ms Hr) as [N1 N2].
      repeat split.
      * intros m tm [Hm | Hm] Hec; [subst; rewrite Hx in Hec; inversion Hec; lia | rewrite (N2 m Hm) in Hec; discriminate].
      * intros tc Htc. rewrite N1 in Htc. discriminate.
      * right. exists h. split; [left; reflexivity | exact Hx].
Qed.

(* ------------------------------------------------------------------ sublists, settle *)
Lemma sublists_incl : forall l s, In s (sublists l) -> forall x, In x s -> In x l.
Proof.
  induction l as [|h l IH]; intros s Hs x Hx; simpl in Hs.
  - destruct Hs as [Hs | []]. subst. exact Hx.
  - rewrite in_app_iff, in_map_iff in Hs. destruct Hs as [Hs | [s' [Heq Hs']]].
    + right. exact (IH s Hs x Hx).
    + subst. destruct Hx as [Hx | Hx]; [left; exact Hx | right; exact (IH s' Hs' x Hx)].
Qed.

Lemma sublists_NoDup : forall l s, NoDup l -> In s (sublists l) -> NoDup s.
Proof.
  induction l as [|h l IH]; intros s Hnd Hs; simpl in Hs.
  - destruct Hs as [Hs | []]. subst. constructor.
  - inversion Hnd as [|h' l' Hnin Hnd']; subst.
    rewrite in_app_iff, in_map_iff in Hs. destruct Hs as [Hs | [s' [Heq Hs']]].
    + exact (IH s Hnd' Hs).
    + subst. constructor; [intros Hin; exact (Hnin (sublists_incl l s' Hs' h Hin)) | exact (IH s' Hnd' Hs')].
Qed.

Lemma sublists_nil : forall l, In [] (sublists l).
Proof. induction l as [|h l IH]; simpl; [left; reflexivity | rewrite in_app_iff; left; exact IH]. Qed.

(* the error after the settle loop is the context's error only if the context ended no later than
   the settle timer, and nil only if it did not end earlier *)
Lemma settle_errs_spec : forall evs t0 t1 settle e, In e (settle_errs evs t0 t1 settle) ->
  (forall k, e = Some k -> exists tc, cancel_of evs = Some (tc, k) /\ Nat.max t0 tc <= t1 + settle) /\
  (e = None -> forall tc k, cancel_of evs = Some (tc, k) -> t1 + settle <= Nat.max t0 tc).
Proof.
  intros evs t0 t1 settle e. unfold settle_errs. destruct (cancel_of evs) as [[tc k]|].
  - destruct (Nat.max t0 tc <? t1 + settle) eqn:Hlt.
    + apply Nat.ltb_lt in Hlt. intros [He | []]. subst. split.
      * intros k' Hk. inversion Hk; subst. exists tc. split; [reflexivity | lia].
      * discriminate.
    + apply Nat.ltb_ge in Hlt. destruct (Nat.max t0 tc =? t1 + settle) eqn:Heq.
      * apply Nat.eqb_eq in Heq. intros [He | [He | []]]; subst; split.
        -- discriminate.
        -- intros _ tc' k' H. inversion H; subst. lia.
        -- intros k' Hk. inversion Hk; subst. exists tc. split; [reflexivity | lia].
        -- discriminate.
      * intros [He | []]. subst. split; [discriminate | intros _ tc' k' H; inversion H; subst; exact Hlt].
  - intros [He | []]. subst. split; [discriminate | intros _ tc k H; discriminate].
Qed.

Lemma settle_errs_nonempty : forall evs t0 t1 settle, settle_errs evs t0 t1 settle <> [].
Proof.
  intros evs t0 t1 settle. unfold settle_errs. destruct (cancel_of evs) as [[tc k]|]; [|discriminate].
  destruct (Nat.max t0 tc <? t1 + settle); [discriminate|].
  destruct (Nat.max t0 tc =? t1 + settle); discriminate.
Qed.

(* settleCtx ends between t1 and t1 + settle, and not after the parent context *)
Lemma settle_end_spec : forall evs t0 ms t1 settle, first_time evs t0 ms = Some t1 ->
  t1 <= settle_end evs t0 t1 settle <= t1 + settle /\
  (forall tc k, cancel_of evs = Some (tc, k) -> settle_end evs t0 t1 settle = Nat.min (t1 + settle) (Nat.max t0 tc)) /\
  (cancel_of evs = None -> settle_end evs t0 t1 settle = t1 + settle).
Proof.
  intros evs t0 ms t1 settle Hft. destruct (first_time_spec _ _ _ _ Hft) as [_ [Hc _]].
  unfold settle_end. destruct (cancel_of evs) as [[tc k]|] eqn:Hco.
  - rewrite (ecancel_of _ t0 _ _ Hco) in *. specialize (Hc _ eq_refl).
    split; [lia|]. split; [intros tc' k' H; inversion H; subst; reflexivity | discriminate].
  - rewrite (ecancel_none _ t0 Hco). split; [lia|]. split; [intros tc k H; discriminate | reflexivity].
Qed.

(* ------------------------------------------------------------------ inversion of wait_outcomes *)
Definition sure_of evs t0 ms c t2 := filter (fun m => otime_ltb (eclose evs t0 m) t2) (ws_remove ms [c]).
Definition opt_of evs t0 ms c t2 := filter (fun m => otime_eqb (eclose evs t0 m) t2) (ws_remove ms [c]).

Definition shape (evs : list event) (t0 settle : time) (ms : wset) (o : outcome) : Prop :=
  (ms = [] /\ exists tc k, cancel_of evs = Some (tc, k) /\ o = mk [] [] (Some k) (Nat.max t0 tc))
  \/ (ms <> [] /\ exists t1, first_time evs t0 ms = Some t1 /\
      ((exists tc k, cancel_of evs = Some (tc, k) /\ Nat.max t0 tc = t1 /\ o = mk ms [] (Some k) t1)
       \/ (exists c, In c ms /\ eclose evs t0 c = Some t1 /\
            ((settle = 0 /\ o = mk ms [c] None t1)
             \/ (settle <> 0 /\ exists sub e,
                   In sub (sublists (opt_of evs t0 ms c (settle_end evs t0 t1 settle))) /\
                   In e (settle_errs evs t0 t1 settle) /\
                   o = mk ms (c :: sure_of evs t0 ms c (settle_end evs t0 t1 settle) ++ sub) e
                          (settle_end evs t0 t1 settle)))))).

Lemma after_first_inv : forall evs t0 settle ms t1 c o, In o (after_first evs t0 settle ms t1 c) ->
  (settle = 0 /\ o = mk ms [c] None t1)
  \/ (settle <> 0 /\ exists sub e,
        In sub (sublists (opt_of evs t0 ms c (settle_end evs t0 t1 settle))) /\
        In e (settle_errs evs t0 t1 settle) /\
        o = mk ms (c :: sure_of evs t0 ms c (settle_end evs t0 t1 settle) ++ sub) e (settle_end evs t0 t1 settle)).
Proof.
  intros evs t0 settle ms t1 c o. unfold after_first. destruct (settle =? 0) eqn:Hs.
  - apply Nat.eqb_eq in Hs. intros [Ho | []]. left. split; [exact Hs | symmetry; exact Ho].
  - apply Nat.eqb_neq in Hs. rewrite in_flat_map. intros [sub [Hsub Hin]].
    rewrite in_map_iff in Hin. destruct Hin as [e [Ho He]].
    right. split; [exact Hs|]. exists sub, e. split; [exact Hsub|]. split; [exact He | symmetry; exact Ho].
Qed.

Lemma wait_inv : forall evs t0 settle ms o, In o (wait_outcomes evs t0 settle ms) -> shape evs t0 settle ms o.
Proof.
  intros evs t0 settle ms o. unfold wait_outcomes, shape. destruct ms as [|m0 ms'].
  - destruct (cancel_of evs) as [[tc k]|]; [|intros []].
    intros [Ho | []]. left. split; [reflexivity|]. exists tc, k. split; [reflexivity | symmetry; exact Ho].
  - set (ms := m0 :: ms'). destruct (first_time evs t0 ms) as [t1|] eqn:Hft; [|intros []].
    intros Hin. right. split; [discriminate|]. exists t1. split; [reflexivity|].
    rewrite in_app_iff in Hin. destruct Hin as [Hin | Hin].
    + left. destruct (cancel_of evs) as [[tc k]|]; [|destruct Hin].
      destruct (Nat.max t0 tc =? t1) eqn:Heq; [|destruct Hin].
      apply Nat.eqb_eq in Heq. destruct Hin as [Ho | []].
      exists tc, k. split; [reflexivity|]. split; [exact Heq | symmetry; exact Ho].
    + right. rewrite in_flat_map in Hin. destruct Hin as [c [Hc Ho]].
      rewrite filter_In, otime_eqb_spec in Hc. destruct Hc as [Hcm Hce].
      exists c. split; [exact Hcm|]. split; [exact Hce|]. exact (after_first_inv _ _ _ _ _ _ _ Ho).
Qed.

(* ------------------------------------------------------------------ the settle phase *)
Lemma settle_ret_facts : forall evs t0 settle ms t1 c sub,
  NoDup ms -> first_time evs t0 ms = Some t1 -> In c ms -> eclose evs t0 c = Some t1 ->
  In sub (sublists (opt_of evs t0 ms c (settle_end evs t0 t1 settle))) ->
  let t2 := settle_end evs t0 t1 settle in
  let ret := c :: sure_of evs t0 ms c t2 ++ sub in
  (forall x, In x ret -> In x ms /\ exists tx, eclose evs t0 x = Some tx /\ tx <= t2) /\
  NoDup ret /\
  (forall m tm, In m ms -> eclose evs t0 m = Some tm -> tm < t2 -> In m ret).
Proof.
  intros evs t0 settle ms t1 c sub Hnd Hft Hc Hec Hsub t2 ret.
  destruct (settle_end_spec evs t0 ms t1 settle Hft) as [[Hlo Hhi] _]. fold t2 in Hlo, Hhi, Hsub.
  assert (Hsure : forall x, In x (sure_of evs t0 ms c t2) ->
            In x ms /\ x <> c /\ exists tx, eclose evs t0 x = Some tx /\ tx < t2).
  { intros x Hx. unfold sure_of in Hx. rewrite filter_In, ws_remove_In, otime_ltb_spec in Hx.
    destruct Hx as [[Hm Hne] Hlt]. split; [exact Hm|]. split; [|exact Hlt].
    intros E. apply Hne. left. symmetry. exact E. }
  assert (Hopt : forall x, In x sub -> In x ms /\ x <> c /\ eclose evs t0 x = Some t2).
  { intros x Hx. pose proof (sublists_incl _ _ Hsub x Hx) as Hx'.
    unfold opt_of in Hx'. rewrite filter_In, ws_remove_In, otime_eqb_spec in Hx'.
    destruct Hx' as [[Hm Hne] Heq]. split; [exact Hm|]. split; [|exact Heq].
    intros E. apply Hne. left. symmetry. exact E. }
  split; [|split].
  - intros x [Hx | Hx].
    + subst x. split; [exact Hc|]. exists t1. split; [exact Hec | exact Hlo].
    + rewrite in_app_iff in Hx. destruct Hx as [Hx | Hx].
      * destruct (Hsure x Hx) as [Hm [_ [tx [Htx Hlt]]]]. split; [exact Hm|]. exists tx. split; [exact Htx | lia].
      * destruct (Hopt x Hx) as [Hm [_ Heq]]. split; [exact Hm|]. exists t2. split; [exact Heq | lia].
  - constructor.
    + rewrite in_app_iff. intros [Hx | Hx]; [destruct (Hsure c Hx) as [_ [Hne _]] | destruct (Hopt c Hx) as [_ [Hne _]]]; apply Hne; reflexivity.
    + apply NoDup_app_disj.
      * apply NoDup_filter, ws_remove_NoDup, Hnd.
      * apply (sublists_NoDup _ _ (NoDup_filter _ _ (ws_remove_NoDup ms [c] Hnd)) Hsub).
      * intros x Hx Hx'. destruct (Hsure x Hx) as [_ [_ [tx [Htx Hlt]]]]. destruct (Hopt x Hx') as [_ [_ Heq]].
        rewrite Heq in Htx. inversion Htx. lia.
  - intros m tm Hm Hem Hlt. destruct (Nat.eq_dec m c) as [E | Hne]; [left; symmetry; exact E|].
    right. rewrite in_app_iff. left. unfold sure_of. rewrite filter_In, ws_remove_In, otime_ltb_spec.
    split; [split; [exact Hm | intros [E | []]; apply Hne; symmetry; exact E] | exists tm; tauto].
Qed.

(* ------------------------------------------------------------------ C20 on the model *)
Section Contract.
Variables (evs : list event) (t0 settle : time) (ms : wset) (o : outcome).
Hypothesis Hnd : NoDup ms.
Hypothesis Hin : In o (wait_outcomes evs t0 settle ms).

(* returned channels are members, closed no later than the return instant *)
Lemma ret_members_closed : forall c, In c (o_ret o) ->
  In c ms /\ exists t, close_time evs c = Some t /\ t <= o_time o.
Proof.
  intros x Hx. destruct (wait_inv _ _ _ _ _ Hin) as [[_ [tc [k [_ Ho]]]] | [_ [t1 [Hft [[tc [k [_ [_ Ho]]]] | [c [Hc [Hec [[_ Ho] | [_ [sub [e [Hsub [_ Ho]]]]]]]]]]]]]];
    subst o; simpl in Hx |- *; try (destruct Hx; fail).
  - destruct Hx as [Hx | []]. subst x. split; [exact Hc|].
    destruct (eclose_inv _ _ _ _ Hec) as [tc [Hct Ht1]]. exists tc. split; [exact Hct | lia].
  - destruct (settle_ret_facts _ _ settle _ _ _ _ Hnd Hft Hc Hec Hsub) as [F _].
    destruct (F x Hx) as [Hm [tx [Htx Hle]]]. split; [exact Hm|].
    destruct (eclose_inv _ _ _ _ Htx) as [tc [Hct Hmax]]. exists tc. split; [exact Hct | lia].
Qed.

Lemma ret_NoDup : NoDup (o_ret o).
Proof.
  destruct (wait_inv _ _ _ _ _ Hin) as [[_ [tc [k [_ Ho]]]] | [_ [t1 [Hft [[tc [k [_ [_ Ho]]]] | [c [Hc [Hec [[_ Ho] | [_ [sub [e [Hsub [_ Ho]]]]]]]]]]]]]];
    subst o; simpl.
  - constructor.
  - constructor.
  - constructor; [intros [] | constructor].
  - destruct (settle_ret_facts _ _ settle _ _ _ _ Hnd Hft Hc Hec Hsub) as [_ [F _]]. exact F.
Qed.

(* the set afterwards is exactly the members that were not returned *)
Lemma rem_spec : (forall x, In x (o_rem o) <-> In x ms /\ ~ In x (o_ret o)) /\ NoDup (o_rem o).
Proof.
  assert (Hrem : o_rem o = ws_remove ms (o_ret o)).
  { destruct (wait_inv _ _ _ _ _ Hin) as [[Hms [tc [k [_ Ho]]]] | [_ [t1 [Hft [[tc [k [_ [_ Ho]]]] | [c [Hc [Hec [[_ Ho] | [_ [sub [e [Hsub [_ Ho]]]]]]]]]]]]]];
      subst o; try subst ms; reflexivity. }
  rewrite Hrem. split; [intros x; apply ws_remove_In | apply ws_remove_NoDup, Hnd].
Qed.

(* no result without a closed member unless the context ended; the error is the context's error *)
Lemma err_spec :
  (o_ret o = [] -> o_err o <> None) /\
  (o_err o = None -> o_ret o <> []) /\
  (forall k, o_err o = Some k -> exists tc, cancel_of evs = Some (tc, k) /\ tc <= o_time o).
Proof.
  destruct (wait_inv _ _ _ _ _ Hin) as [[_ [tc [k [Hco Ho]]]] | [_ [t1 [Hft [[tc [k [Hco [Ht1 Ho]]]] | [c [Hc [Hec [[_ Ho] | [_ [sub [e [Hsub [He Ho]]]]]]]]]]]]]];
    subst o; simpl.
  - split; [discriminate|]. split; [discriminate|]. intros k' Hk. inversion Hk; subst. exists tc. split; [exact Hco | lia].
  - split; [discriminate|]. split; [discriminate|]. intros k' Hk. inversion Hk; subst. exists tc. split; [exact Hco | lia].
  - split; [discriminate|]. split; [discriminate|]. discriminate.
  - split; [discriminate|]. split; [discriminate|]. intros k Hk.
    destruct (settle_errs_spec _ _ _ _ _ He) as [S1 _]. destruct (S1 k Hk) as [tc [Hco Hle]].
    exists tc. split; [exact Hco|].
    destruct (settle_end_spec evs t0 ms t1 settle Hft) as [_ [S2 _]]. rewrite (S2 _ _ Hco). lia.
Qed.

(* Wait does not outlast first-close + settle nor the context, and never returns before the call *)
Lemma time_spec :
  t0 <= o_time o /\
  (forall m tm, In m ms -> close_time evs m = Some tm -> o_time o <= Nat.max t0 tm + settle) /\
  (forall tc k, cancel_of evs = Some (tc, k) -> o_time o <= Nat.max t0 tc).
Proof.
  destruct (wait_inv _ _ _ _ _ Hin) as [[Hms [tc [k [Hco Ho]]]] | [_ [t1 [Hft Hsh]]]].
  - subst o ms. simpl. split; [lia|]. split; [intros m tm []|]. intros tc' k' H. rewrite Hco in H. inversion H. lia.
  - destruct (first_time_spec _ _ _ _ Hft) as [Fm [Fc Fa]].
    destruct (settle_end_spec evs t0 ms t1 settle Hft) as [[Slo Shi] [Sc _]].
    assert (Ht0 : t0 <= t1).
    { destruct Fa as [Fa | [m [_ Fa]]].
      - unfold ecancel in Fa. destruct (cancel_of evs) as [[tc k]|]; simpl in Fa; inversion Fa. lia.
      - destruct (eclose_inv _ _ _ _ Fa) as [tc [_ E]]. lia. }
    assert (Hm : forall m tm, In m ms -> close_time evs m = Some tm -> t1 <= Nat.max t0 tm).
    { intros m tm Hmm Hct. apply (Fm m _ Hmm). apply eclose_of. exact Hct. }
    assert (Hc : forall tc k, cancel_of evs = Some (tc, k) -> t1 <= Nat.max t0 tc).
    { intros tc k Hco. apply Fc. apply (ecancel_of _ _ _ _ Hco). }
    destruct Hsh as [[tc [k [_ [_ Ho]]]] | [c [_ [_ [[Hs Ho] | [_ [sub [e [_ [_ Ho]]]]]]]]]]; subst o; simpl.
    + split; [exact Ht0|]. split; [intros m tm Hmm Hct; specialize (Hm m tm Hmm Hct); lia | exact Hc].
    + split; [exact Ht0|]. split; [intros m tm Hmm Hct; specialize (Hm m tm Hmm Hct); lia | exact Hc].
    + split; [lia|]. split; [intros m tm Hmm Hct; specialize (Hm m tm Hmm Hct); lia|].
      intros tc k Hco. rewrite (Sc _ _ Hco). lia.
Qed.

(* with a settle time, every member closed before the return instant is reported *)
Lemma gather_spec : settle <> 0 -> o_ret o <> [] ->
  forall m tm, In m ms -> close_time evs m = Some tm -> Nat.max t0 tm < o_time o -> In m (o_ret o).
Proof.
  intros Hs Hne m tm Hm Hct Hlt.
  destruct (wait_inv _ _ _ _ _ Hin) as [[_ [tc [k [_ Ho]]]] | [_ [t1 [Hft [[tc [k [_ [_ Ho]]]] | [c [Hc [Hec [[Hs0 Ho] | [_ [sub [e [Hsub [_ Ho]]]]]]]]]]]]]];
    subst o; simpl in *; try (exfalso; apply Hne; reflexivity); try (exfalso; exact (Hs Hs0)).
  destruct (settle_ret_facts _ _ settle _ _ _ _ Hnd Hft Hc Hec Hsub) as [_ [_ F]].
  apply (F m _ Hm (eclose_of _ t0 _ _ Hct) Hlt).
Qed.
End Contract.

(* the model never blocks where the code would not: some outcome is allowed as soon as a member
   is closed at some time or the context ends *)
Lemma wait_nonempty : forall evs t0 settle ms,
  (exists m, In m ms /\ close_time evs m <> None) \/ cancel_of evs <> None ->
  wait_outcomes evs t0 settle ms <> [].
Proof.
  intros evs t0 settle ms H. unfold wait_outcomes. destruct ms as [|m0 ms'].
  - destruct H as [[m [[] _]] | H]. destruct (cancel_of evs) as [[tc k]|]; [discriminate | exfalso; apply H; reflexivity].
  - set (ms := m0 :: ms') in *. destruct (first_time evs t0 ms) as [t1|] eqn:Hft.
    + destruct (first_time_spec _ _ _ _ Hft) as [_ [_ [Fa | [m [Hm Hem]]]]].
      * unfold ecancel in Fa. destruct (cancel_of evs) as [[tc k]|]; simpl in Fa; [|discriminate].
        inversion Fa as [E]. rewrite E. rewrite Nat.eqb_refl. simpl. discriminate.
      * intros Habs. apply app_eq_nil in Habs. destruct Habs as [_ Habs].
        assert (Hf : In m (filter (fun m => otime_eqb (eclose evs t0 m) t1) ms)).
        { rewrite filter_In, otime_eqb_spec. tauto. }
        assert (Hex : exists x, In x (after_first evs t0 settle ms t1 m)).
        { unfold after_first. destruct (settle =? 0); [eexists; left; reflexivity|].
          destruct (settle_errs evs t0 t1 settle) as [|e es] eqn:He; [exfalso; exact (settle_errs_nonempty _ _ _ _ He)|].
          eexists. rewrite in_flat_map. exists []. split; [apply sublists_nil | left; reflexivity]. }
        destruct Hex as [x Hx].
        assert (Hxx : In x (flat_map (after_first evs t0 settle ms t1) (filter (fun m => otime_eqb (eclose evs t0 m) t1) ms))).
        { rewrite in_flat_map. exists m. tauto. }
        rewrite Habs in Hxx. exact Hxx.
    + exfalso. destruct (first_time_none _ _ _ Hft) as [N1 N2]. destruct H as [[m [Hm Hct]] | H].
      * specialize (N2 m Hm). unfold eclose in N2. destruct (close_time evs m); [discriminate | apply Hct; reflexivity].
      * unfold ecancel in N1. destruct (cancel_of evs); [discriminate | apply H; reflexivity].
Qed.

(* and it blocks (no outcome) when nothing ever becomes ready *)
Lemma wait_blocks : forall evs t0 settle ms,
  (forall m, In m ms -> close_time evs m = None) -> cancel_of evs = None ->
  wait_outcomes evs t0 settle ms = [].
Proof.
  intros evs t0 settle ms Hm Hc. unfold wait_outcomes. destruct ms as [|m0 ms']; [rewrite Hc; reflexivity|].
  set (ms := m0 :: ms') in *. destruct (first_time evs t0 ms) as [t1|] eqn:Hft; [|reflexivity].
  exfalso. destruct (first_time_spec _ _ _ _ Hft) as [_ [_ [Fa | [m [Hmm Hem]]]]].
  - rewrite (ecancel_none _ _ Hc) in Fa. discriminate.
  - unfold eclose in Hem. rewrite (Hm m Hmm) in Hem. discriminate.
Qed.
