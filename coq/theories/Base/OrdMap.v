(* Base/OrdMap.v — the abstract ordered-map specification: a strictly sorted association
   list keyed by byte strings (bytewise lexicographic order). All tree-like structures
   (part.Tree, part.Map, table indexes) are specified by refinement to this. *)
From SV Require Import Base.Bytes.
Open Scope N_scope.

Section OrdMap.
Context {V : Type}.
Definition omap := list (bytes * V).

Fixpoint om_get (k : bytes) (m : omap) : option V :=
  match m with
  | [] => None
  | (k', v) :: r => if bytes_eqb k k' then Some v else if bytes_ltb k k' then None else om_get k r
  end.

Fixpoint om_insert (k : bytes) (v : V) (m : omap) : omap :=
  match m with
  | [] => [(k, v)]
  | (k', v') :: r => if bytes_eqb k k' then (k, v) :: r
                     else if bytes_ltb k k' then (k, v) :: (k', v') :: r
                     else (k', v') :: om_insert k v r
  end.

Fixpoint om_delete (k : bytes) (m : omap) : omap :=
  match m with
  | [] => []
  | (k', v') :: r => if bytes_eqb k k' then r
                     else if bytes_ltb k k' then (k', v') :: r
                     else (k', v') :: om_delete k r
  end.

Definition om_prefix (p : bytes) (m : omap) : omap := filter (fun kv => has_prefix (fst kv) p) m.

(* entries with key >= k *)
Fixpoint om_lower_bound (k : bytes) (m : omap) : omap :=
  match m with
  | [] => []
  | (k', v') :: r => if bytes_ltb k' k then om_lower_bound k r else (k', v') :: r
  end.

Definition om_keys (m : omap) : list bytes := map fst m.

(* every key of m is greater than k *)
Definition om_above (k : bytes) (m : omap) : Prop := Forall (fun kv => lex_lt k (fst kv)) m.

Fixpoint om_sorted (m : omap) : Prop :=
  match m with
  | [] => True
  | (k, _) :: r => om_above k r /\ om_sorted r
  end.

Lemma om_above_weaken k k' m : lex_lt k k' -> om_above k' m -> om_above k m.
Proof.
  unfold om_above. intros H. apply Forall_impl. intros a Ha. eapply lex_lt_trans; eauto.
Qed.

Lemma bytes_ltb_irrefl k : bytes_ltb k k = false.
Proof.
  destruct (bytes_ltb k k) eqn:E; auto. apply bytes_ltb_spec in E. now apply lex_lt_irrefl in E.
Qed.

Lemma bytes_cmp_cases k k' :
  (bytes_eqb k k' = true /\ k = k') \/
  (bytes_eqb k k' = false /\ bytes_ltb k k' = true /\ lex_lt k k') \/
  (bytes_eqb k k' = false /\ bytes_ltb k k' = false /\ lex_lt k' k).
Proof.
  destruct (lex_lt_total k k') as [H|[->|H]].
  - right; left. repeat split; auto.
    + destruct (bytes_eqb k k') eqn:E; auto. apply bytes_eqb_spec in E. subst. now apply lex_lt_irrefl in H.
    + now apply bytes_ltb_spec.
  - left. split; auto. apply bytes_eqb_refl.
  - right; right. repeat split; auto.
    + destruct (bytes_eqb k k') eqn:E; auto. apply bytes_eqb_spec in E. subst. now apply lex_lt_irrefl in H.
    + destruct (bytes_ltb k k') eqn:E; auto. apply bytes_ltb_spec in E. exfalso. eapply lex_lt_asym; eauto.
Qed.

Lemma om_get_above k m : om_above k m -> om_get k m = None.
Proof.
  destruct m as [|[k' v] r]; simpl; auto. intros H. inversion H; subst. simpl in *.
  destruct (bytes_cmp_cases k k') as [[E ->]|[[E [L _]]|[E [L Hl]]]]; rewrite E.
  - now apply lex_lt_irrefl in H2.
  - now rewrite L.
  - exfalso. eapply lex_lt_asym; eauto.
Qed.

Lemma om_above_insert k0 k v m : lex_lt k0 k -> om_above k0 m -> om_above k0 (om_insert k v m).
Proof.
  intros Hk. induction m as [|[k' v'] r IH]; simpl; intros H.
  - repeat constructor; auto.
  - inversion H; subst. destruct (bytes_eqb k k'); [constructor; auto|].
    destruct (bytes_ltb k k'); constructor; auto. now apply IH.
Qed.

Lemma om_insert_sorted k v m : om_sorted m -> om_sorted (om_insert k v m).
Proof.
  induction m as [|[k' v'] r IH]; simpl; intros H.
  - split; [constructor|exact I].
  - destruct H as [Ha Hs].
    destruct (bytes_cmp_cases k k') as [[E ->]|[[E [L Hl]]|[E [L Hl]]]]; rewrite E; try rewrite L; simpl.
    + auto.
    + split; auto. constructor; auto. eapply om_above_weaken; eauto.
    + split; auto. now apply om_above_insert.
Qed.

Lemma om_above_delete k0 k m : om_above k0 m -> om_above k0 (om_delete k m).
Proof.
  induction m as [|[k' v'] r IH]; simpl; intros H; auto. inversion H; subst.
  destruct (bytes_eqb k k'); auto. destruct (bytes_ltb k k'); constructor; auto. now apply IH.
Qed.

Lemma om_delete_sorted k m : om_sorted m -> om_sorted (om_delete k m).
Proof.
  induction m as [|[k' v'] r IH]; simpl; intros H; auto. destruct H as [Ha Hs].
  destruct (bytes_eqb k k'); auto. destruct (bytes_ltb k k'); simpl; auto.
  split; auto. now apply om_above_delete.
Qed.

Lemma om_get_insert_same k v m : om_get k (om_insert k v m) = Some v.
Proof.
  induction m as [|[k' v'] r IH]; simpl.
  - now rewrite bytes_eqb_refl.
  - destruct (bytes_eqb k k') eqn:E; simpl; [now rewrite bytes_eqb_refl|].
    destruct (bytes_ltb k k') eqn:L; simpl; [now rewrite bytes_eqb_refl|]. now rewrite E, L.
Qed.

Lemma om_get_insert_other k k2 v m : k2 <> k -> om_sorted m -> om_get k2 (om_insert k v m) = om_get k2 m.
Proof.
  intros Hne. induction m as [|[k' v'] r IH]; simpl; intros Hs.
  - destruct (bytes_cmp_cases k2 k) as [[E ->]|[[E [L _]]|[E [L _]]]]; try congruence; rewrite E, L; auto.
  - destruct Hs as [Ha Hs].
    destruct (bytes_cmp_cases k k') as [[E ->]|[[E [L Hl]]|[E [L Hl]]]]; rewrite E; try rewrite L; simpl.
    + destruct (bytes_cmp_cases k2 k') as [[E2 ->]|[[E2 [L2 _]]|[E2 [L2 _]]]]; try congruence; rewrite E2, L2; auto.
    + destruct (bytes_cmp_cases k2 k) as [[E2 ->]|[[E2 [L2 H2]]|[E2 [L2 H2]]]]; try congruence; rewrite E2, L2; auto.
      destruct (bytes_cmp_cases k2 k') as [[E3 ->]|[[E3 [L3 _]]|[E3 [L3 H3]]]]; rewrite E3; try rewrite L3; auto.
      * exfalso. exact (lex_lt_irrefl _ (lex_lt_trans _ _ _ H2 Hl)).
      * exfalso. exact (lex_lt_asym _ _ (lex_lt_trans _ _ _ H2 Hl) H3).
    + destruct (bytes_eqb k2 k'); auto. destruct (bytes_ltb k2 k'); auto.
Qed.

Lemma om_get_delete_same k m : om_sorted m -> om_get k (om_delete k m) = None.
Proof.
  induction m as [|[k' v'] r IH]; simpl; intros Hs; auto. destruct Hs as [Ha Hs].
  destruct (bytes_cmp_cases k k') as [[E ->]|[[E [L Hl]]|[E [L Hl]]]]; rewrite E; try rewrite L; simpl.
  - now apply om_get_above.
  - now rewrite E, L.
  - rewrite E, L. auto.
Qed.

Lemma om_get_delete_other k k2 m : k2 <> k -> om_sorted m -> om_get k2 (om_delete k m) = om_get k2 m.
Proof.
  intros Hne. induction m as [|[k' v'] r IH]; simpl; intros Hs; auto. destruct Hs as [Ha Hs].
  destruct (bytes_cmp_cases k k') as [[E ->]|[[E [L Hl]]|[E [L Hl]]]]; rewrite E; try rewrite L; simpl; auto.
  - destruct (bytes_cmp_cases k2 k') as [[E2 ->]|[[E2 [L2 H2]]|[E2 [L2 H2]]]]; try congruence; rewrite E2, L2; auto.
    apply om_get_above. eapply om_above_weaken; eauto.
  - destruct (bytes_eqb k2 k'); auto. destruct (bytes_ltb k2 k'); auto.
Qed.

(* two sorted maps with the same lookups are equal *)
Lemma om_ext m1 : forall m2, om_sorted m1 -> om_sorted m2 -> (forall k, om_get k m1 = om_get k m2) -> m1 = m2.
Proof.
  induction m1 as [|[k1 v1] r1 IH]; intros [|[k2 v2] r2] H1 H2 Hg; auto.
  - specialize (Hg k2). simpl in Hg. now rewrite bytes_eqb_refl in Hg.
  - specialize (Hg k1). simpl in Hg. now rewrite bytes_eqb_refl in Hg.
  - destruct H1 as [A1 S1], H2 as [A2 S2].
    assert (k1 = k2 /\ v1 = v2) as [-> ->].
    { pose proof (Hg k1) as G1. pose proof (Hg k2) as G2. simpl in G1, G2. rewrite bytes_eqb_refl in G1, G2.
      destruct (bytes_cmp_cases k1 k2) as [[E ->]|[[E [L Hl]]|[E [L Hl]]]].
      - rewrite bytes_eqb_refl in G1. split; congruence.
      - rewrite E, L in G1. discriminate.
      - destruct (bytes_cmp_cases k2 k1) as [[E' ->]|[[E' [L' Hl']]|[E' [L' Hl']]]].
        + now apply lex_lt_irrefl in Hl.
        + rewrite E', L' in G2. discriminate.
        + exfalso. eapply lex_lt_asym; eauto. }
    f_equal. apply IH; auto. intros k. specialize (Hg k). simpl in Hg.
    destruct (bytes_cmp_cases k k2) as [[E ->]|[[E [L Hl]]|[E [L Hl]]]]; rewrite E in Hg; try rewrite L in Hg; auto.
    + rewrite !om_get_above; auto.
    + rewrite !om_get_above; auto; eapply om_above_weaken; eauto.
Qed.

Lemma om_keys_sorted_above k m : om_above k m -> Forall (lex_lt k) (om_keys m).
Proof. unfold om_above, om_keys. intros H. now apply Forall_map. Qed.

Lemma om_prefix_sorted p m : om_sorted m -> om_sorted (om_prefix p m).
Proof.
  induction m as [|[k v] r IH]; simpl; auto. intros [Ha Hs].
  destruct (has_prefix k p); simpl; auto. split; auto.
  unfold om_above, om_prefix in *. rewrite Forall_forall in *. intros x Hx. apply filter_In in Hx. now apply Ha.
Qed.

Lemma om_lower_bound_sorted k m : om_sorted m -> om_sorted (om_lower_bound k m).
Proof.
  induction m as [|[k' v] r IH]; simpl; auto. intros [Ha Hs]. destruct (bytes_ltb k' k); simpl; auto.
Qed.

Lemma om_lower_bound_spec k m : om_sorted m ->
  forall kv, In kv (om_lower_bound k m) <-> In kv m /\ bytes_ltb (fst kv) k = false.
Proof.
  induction m as [|[k' v] r IH]; simpl; intros Hs kv; [tauto|]. destruct Hs as [Ha Hs].
  destruct (bytes_ltb k' k) eqn:L.
  - rewrite IH by auto. split; [tauto|]. intros [[<-|H] H2]; [simpl in H2; congruence|auto].
  - simpl. split.
    + intros [<-|H]; [auto|]. split; auto. unfold om_above in Ha. rewrite Forall_forall in Ha.
      specialize (Ha _ H). destruct (bytes_ltb (fst kv) k) eqn:L2; auto.
      apply bytes_ltb_spec in L2. assert (Hk : lex_lt k' k) by (eapply lex_lt_trans; eauto).
      apply bytes_ltb_spec in Hk. congruence.
    + intros [H _]. exact H.
Qed.
End OrdMap.
Arguments omap : clear implicits.
