(* Base/Slice.v — a small memory model of Go slices (property C01: the places where the Go
   code shares backing arrays between snapshots).

   heap   = the backing arrays allocated so far (array id = position in the list); the length
            of an array never changes, only its cells are written.
   slice  = a Go slice header (array, offset of element 0 in the array, len, cap).
   sl_den = the elements a reader of that slice header sees in a given heap.

   Operations mirror the Go semantics: in-place operations write cells of the EXISTING array
   (so every other slice header that covers those cells sees the write), allocating operations
   add a fresh array and leave every existing one untouched. The growth policy of append /
   slices.Clone is abstracted to "a fresh array with `extra` spare cells" (extra arbitrary).
   Out-of-range indices (a Go panic) are modelled as no-ops; the theorems carry the bounds as
   hypotheses. Stdlib only. *)
From Coq Require Import List Arith Bool Lia.
Import ListNotations.

Section Slice.
Context {A : Type}.
Variable zero : A.                 (* the zero value of the element type *)

Definition heap := list (list A).
Record slice := mkS { s_arr : nat; s_off : nat; s_len : nat; s_cap : nat }.

Definition arr_of (h : heap) (a : nat) : list A := nth a h [].
Definition cell (h : heap) (a i : nat) : option A := nth_error (arr_of h a) i.

(* what `for _, x := range s` sees *)
Definition sl_den (h : heap) (s : slice) : list A :=
  firstn (s_len s) (skipn (s_off s) (arr_of h (s_arr s))).

(* a slice header that exists in heap h: len <= cap and the capacity lies inside its array.
   (A header whose array id is not allocated is forced to be the nil slice: len = cap = 0.) *)
Definition sl_wf (h : heap) (s : slice) : Prop :=
  s_len s <= s_cap s /\ s_off s + s_cap s <= length (arr_of h (s_arr s)).

Definition sl_nil : slice := mkS 0 0 0 0.

(* ---- primitive writes --------------------------------------------------------------- *)
(* write `data` into l starting at position o (truncated at the end of l; length preserved) *)
Fixpoint write_list (l : list A) (o : nat) (data : list A) : list A :=
  match l with
  | [] => []
  | x :: r => match o with
              | S o' => x :: write_list r o' data
              | O => match data with [] => x :: r | d :: ds => d :: write_list r 0 ds end
              end
  end.

Fixpoint heap_upd (h : heap) (a : nat) (f : list A -> list A) : heap :=
  match h with
  | [] => []
  | x :: r => match a with O => f x :: r | S a' => x :: heap_upd r a' f end
  end.

(* the only way an existing array is ever modified *)
Definition write_range (h : heap) (a o : nat) (data : list A) : heap :=
  heap_upd h a (fun l => write_list l o data).

(* the cells [o, o+n) of array a intersect the cells covered by s *)
Definition overlapb (s : slice) (a o n : nat) : bool :=
  (s_arr s =? a) && (Nat.max (s_off s) o <? Nat.min (s_off s + s_len s) (o + n)).

(* ---- the Go operations ---------------------------------------------------------------- *)
(* s[i] *)
Definition sl_get (h : heap) (s : slice) (i : nat) : A := nth i (sl_den h s) zero.
(* s[i] = x : in place *)
Definition sl_index_set (h : heap) (s : slice) (i : nat) (x : A) : heap :=
  if i <? s_len s then write_range h (s_arr s) (s_off s + i) [x] else h.
(* s[lo:hi] : shares the array (lo <= hi <= cap) *)
Definition sl_reslice (s : slice) (lo hi : nat) : slice :=
  mkS (s_arr s) (s_off s + lo) (hi - lo) (s_cap s - lo).
(* make([]T, n, n+extra) *)
Definition sl_make (h : heap) (n extra : nat) : heap * slice :=
  (h ++ [repeat zero (n + extra)], mkS (length h) 0 n (n + extra)).
(* slices.Clone(s) / append(s[:0:0], s...) *)
Definition sl_clone (h : heap) (s : slice) (extra : nat) : heap * slice :=
  (h ++ [sl_den h s ++ repeat zero extra], mkS (length h) 0 (s_len s) (s_len s + extra)).
(* append(s, xs...) : in place (beyond len, inside the shared array) when the capacity
   suffices, else a fresh array *)
Definition sl_append_list (h : heap) (s : slice) (xs : list A) (extra : nat) : heap * slice :=
  if s_len s + length xs <=? s_cap s
  then (write_range h (s_arr s) (s_off s + s_len s) xs,
        mkS (s_arr s) (s_off s) (s_len s + length xs) (s_cap s))
  else (h ++ [sl_den h s ++ xs ++ repeat zero extra],
        mkS (length h) 0 (s_len s + length xs) (s_len s + length xs + extra)).
Definition sl_append (h : heap) (s : slice) (x : A) (extra : nat) : heap * slice :=
  sl_append_list h s [x] extra.
(* copy(dst, src) : min(len dst, len src) elements, memmove semantics *)
Definition sl_copy (h : heap) (dst src : slice) : heap :=
  write_range h (s_arr dst) (s_off dst) (firstn (Nat.min (s_len dst) (s_len src)) (sl_den h src)).
(* slices.Delete(s, i, j) : shifts s[j:] down to i inside the shared array, zeroes the
   vacated tail, returns s[:len-(j-i)] *)
Definition sl_delete_inplace (h : heap) (s : slice) (i j : nat) : heap * slice :=
  let d := sl_den h s in
  (write_range h (s_arr s) (s_off s + i) (skipn j d ++ repeat zero (j - i)),
   mkS (s_arr s) (s_off s) (s_len s - (j - i)) (s_cap s)).
(* slices.DeleteFunc(s, del) : compacts the kept elements in place, zeroes the rest
   (cells before the first deleted element are rewritten with their own value) *)
Definition sl_deletefunc_inplace (h : heap) (s : slice) (del : A -> bool) : heap * slice :=
  let d := sl_den h s in
  let kept := filter (fun x => negb (del x)) d in
  (write_range h (s_arr s) (s_off s) (kept ++ repeat zero (s_len s - length kept)),
   mkS (s_arr s) (s_off s) (length kept) (s_cap s)).

(* ======================================================================================= *)
(* list facts *)
Lemma list_ext (l1 : list A) : forall l2, (forall i, nth_error l1 i = nth_error l2 i) -> l1 = l2.
Proof.
  induction l1 as [|x l1 IH]; intros [|y l2] H; auto.
  - specialize (H 0); discriminate.
  - specialize (H 0); discriminate.
  - pose proof (H 0) as H0. cbn in H0. injection H0 as ->. f_equal. apply IH.
    intros i. exact (H (S i)).
Qed.

Lemma nth_error_firstn' (l : list A) : forall n i,
  nth_error (firstn n l) i = if i <? n then nth_error l i else None.
Proof.
  induction l as [|x l IH]; intros [|n] [|i]; cbn [firstn nth_error]; auto.
  - destruct (S i <? S n); auto.
  - change (S i <? S n) with (i <? n). apply IH.
Qed.

Lemma nth_error_skipn' (l : list A) : forall n i, nth_error (skipn n l) i = nth_error l (n + i).
Proof.
  induction l as [|x l IH]; intros [|n] i; cbn [skipn Nat.add nth_error]; auto.
  - now destruct i.
Qed.

Lemma nth_error_repeat' (x : A) n i : nth_error (repeat x n) i = if i <? n then Some x else None.
Proof.
  destruct (Nat.ltb_spec i n) as [H|H].
  - now apply nth_error_repeat.
  - apply nth_error_None. now rewrite repeat_length.
Qed.

Lemma nth_error_app' (l1 l2 : list A) i :
  nth_error (l1 ++ l2) i = if i <? length l1 then nth_error l1 i else nth_error l2 (i - length l1).
Proof.
  destruct (Nat.ltb_spec i (length l1)) as [H|H];
    [now apply nth_error_app1|now apply nth_error_app2].
Qed.

Lemma write_list_length (l : list A) : forall o data, length (write_list l o data) = length l.
Proof.
  induction l as [|x l IH]; intros [|o] [|d ds]; cbn [write_list length]; auto.
Qed.

Lemma write_list_nth (l : list A) : forall o data i,
  nth_error (write_list l o data) i =
  if (o <=? i) && (i <? o + length data) && (i <? length l)
  then nth_error data (i - o) else nth_error l i.
Proof.
  induction l as [|x l IH]; intros o data i.
  - cbn [write_list length]. rewrite Nat.ltb_irrefl || idtac.
    replace (i <? 0) with false by (symmetry; apply Nat.ltb_ge; lia).
    now rewrite andb_false_r.
  - destruct o as [|o]; cbn [write_list].
    + destruct data as [|d ds].
      * cbn [length]. replace (i <? 0 + 0) with false by (symmetry; apply Nat.ltb_ge; lia).
        now rewrite andb_false_r.
      * destruct i as [|i]; cbn [nth_error length]; [reflexivity|].
        rewrite IH. rewrite Nat.sub_0_r. cbn [Nat.leb Nat.add Nat.sub nth_error].
        change (S i <? S (length ds)) with (i <? length ds).
        change (S i <? S (length l)) with (i <? length l). reflexivity.
    + destruct i as [|i]; cbn [nth_error]; [reflexivity|].
      rewrite IH. cbn [length]. reflexivity.
Qed.

(* ---- heap facts ------------------------------------------------------------------------ *)
Lemma heap_upd_length h : forall a f, length (heap_upd h a f) = length h.
Proof. induction h as [|x h IH]; intros [|a] f; cbn [heap_upd length]; auto. Qed.

Lemma arr_of_heap_upd h : forall a f a', f [] = [] ->
  arr_of (heap_upd h a f) a' = if a' =? a then f (arr_of h a) else arr_of h a'.
Proof.
  unfold arr_of. induction h as [|x h IH]; intros a f a' Hf.
  - cbn [heap_upd]. destruct a, a'; cbn [nth Nat.eqb]; auto; now destruct (_ =? _).
  - destruct a as [|a], a' as [|a']; cbn [heap_upd nth Nat.eqb]; auto.
Qed.

Lemma arr_of_write_range h a o data a' :
  arr_of (write_range h a o data) a' = if a' =? a then write_list (arr_of h a) o data else arr_of h a'.
Proof. unfold write_range. now rewrite arr_of_heap_upd. Qed.

Lemma write_range_length h a o data : length (write_range h a o data) = length h.
Proof. apply heap_upd_length. Qed.

Lemma arr_length_write_range h a o data a' :
  length (arr_of (write_range h a o data) a') = length (arr_of h a').
Proof.
  rewrite arr_of_write_range. destruct (Nat.eqb_spec a' a) as [->|]; auto. apply write_list_length.
Qed.

(* the exact effect of a write on every cell of the heap *)
Lemma cell_write_range h a o data a' i :
  cell (write_range h a o data) a' i =
  if (a' =? a) && ((o <=? i) && (i <? o + length data) && (i <? length (arr_of h a)))
  then nth_error data (i - o) else cell h a' i.
Proof.
  unfold cell. rewrite arr_of_write_range. destruct (Nat.eqb_spec a' a) as [->|]; cbn [andb]; auto.
  apply write_list_nth.
Qed.

Lemma arr_of_alloc h arr a : a <> length h -> arr_of (h ++ [arr]) a = arr_of h a.
Proof.
  unfold arr_of. intros H. destruct (Nat.lt_ge_cases a (length h)) as [L|L].
  - now apply app_nth1.
  - rewrite app_nth2 by lia. rewrite (nth_overflow h) by lia.
    destruct (a - length h) as [|k] eqn:E; [lia|]. cbn [nth]. now destruct k.
Qed.

Lemma arr_of_alloc_new h arr : arr_of (h ++ [arr]) (length h) = arr.
Proof. unfold arr_of. rewrite app_nth2 by lia. now rewrite Nat.sub_diag. Qed.

(* ---- denotation facts --------------------------------------------------------------------- *)
Lemma sl_den_nth h s i :
  nth_error (sl_den h s) i = if i <? s_len s then cell h (s_arr s) (s_off s + i) else None.
Proof. unfold sl_den, cell. now rewrite nth_error_firstn', nth_error_skipn'. Qed.

Lemma sl_den_length h s : sl_wf h s -> length (sl_den h s) = s_len s.
Proof. intros [H1 H2]. unfold sl_den. rewrite firstn_length, skipn_length. lia. Qed.

Lemma sl_den_ext h h' s :
  (forall i, i < s_len s -> cell h' (s_arr s) (s_off s + i) = cell h (s_arr s) (s_off s + i)) ->
  sl_den h' s = sl_den h s.
Proof.
  intros H. apply list_ext. intros i. rewrite !sl_den_nth.
  destruct (Nat.ltb_spec i (s_len s)); auto.
Qed.

Lemma sl_den_nil h s : s_len s = 0 -> sl_den h s = [].
Proof. unfold sl_den. now intros ->. Qed.

Lemma sl_wf_unallocated h s : sl_wf h s -> length h <= s_arr s -> s_len s = 0 /\ s_cap s = 0.
Proof.
  intros [H1 H2] L. unfold arr_of in H2. rewrite nth_overflow in H2 by lia. cbn in H2. lia.
Qed.

(* ======================================================================================= *)
(* FRAME 1: allocation. A fresh array leaves every existing slice header unchanged.        *)
Lemma alloc_frame h arr s : sl_wf h s -> sl_den (h ++ [arr]) s = sl_den h s.
Proof.
  intros W. destruct (Nat.eq_dec (s_arr s) (length h)) as [E|E].
  - destruct (sl_wf_unallocated h s W) as [L _]; [lia|]. now rewrite !sl_den_nil.
  - unfold sl_den. now rewrite arr_of_alloc.
Qed.

Lemma alloc_wf h arr s : sl_wf h s -> sl_wf (h ++ [arr]) s.
Proof.
  intros W. destruct (Nat.eq_dec (s_arr s) (length h)) as [E|E].
  - destruct (sl_wf_unallocated h s W) as [L C]; [lia|]. destruct W as [W1 W2].
    split; [lia|]. rewrite E, arr_of_alloc_new. rewrite C in *.
    unfold arr_of in W2. rewrite nth_overflow in W2 by lia. cbn in W2. lia.
  - destruct W as [W1 W2]. split; auto. now rewrite arr_of_alloc.
Qed.

Lemma alloc_new_den h arr n c : n <= length arr ->
  sl_den (h ++ [arr]) (mkS (length h) 0 n c) = firstn n arr.
Proof. intros _. unfold sl_den. cbn [s_arr s_off s_len]. now rewrite arr_of_alloc_new. Qed.

Lemma alloc_new_wf h arr n c : n <= c -> c <= length arr -> sl_wf (h ++ [arr]) (mkS (length h) 0 n c).
Proof. intros H1 H2. split; cbn [s_arr s_off s_len s_cap]; auto. now rewrite arr_of_alloc_new. Qed.

Theorem sl_make_frame h n extra s : sl_wf h s -> sl_den (fst (sl_make h n extra)) s = sl_den h s.
Proof. apply alloc_frame. Qed.
Theorem sl_clone_frame h t extra s : sl_wf h s -> sl_den (fst (sl_clone h t extra)) s = sl_den h s.
Proof. apply alloc_frame. Qed.
Theorem sl_append_realloc_frame h t xs extra s : sl_wf h s -> s_cap t < s_len t + length xs ->
  sl_den (fst (sl_append_list h t xs extra)) s = sl_den h s.
Proof.
  intros W C. unfold sl_append_list. destruct (Nat.leb_spec (s_len t + length xs) (s_cap t)); [lia|].
  now apply alloc_frame.
Qed.
Theorem sl_append_full_frame h t x extra s : sl_wf h s -> s_len t = s_cap t ->
  sl_den (fst (sl_append h t x extra)) s = sl_den h s.
Proof. intros W C. apply sl_append_realloc_frame; auto. cbn [length]. lia. Qed.

(* results of the allocating operations *)
Lemma sl_make_den h n extra : sl_den (fst (sl_make h n extra)) (snd (sl_make h n extra)) = repeat zero n.
Proof.
  unfold sl_make. cbn [fst snd]. rewrite alloc_new_den by (rewrite repeat_length; lia).
  rewrite repeat_app. rewrite firstn_app, repeat_length, Nat.sub_diag. cbn [firstn].
  rewrite app_nil_r. rewrite <- (repeat_length zero n) at 1. apply firstn_all.
Qed.
Lemma sl_make_wf h n extra : sl_wf (fst (sl_make h n extra)) (snd (sl_make h n extra)).
Proof. apply alloc_new_wf; [lia|]. now rewrite repeat_length. Qed.

Lemma sl_clone_den h s extra : sl_wf h s ->
  sl_den (fst (sl_clone h s extra)) (snd (sl_clone h s extra)) = sl_den h s.
Proof.
  intros W. unfold sl_clone. cbn [fst snd].
  rewrite alloc_new_den by (rewrite app_length, sl_den_length; auto; lia).
  rewrite firstn_app, sl_den_length by auto. rewrite Nat.sub_diag. cbn [firstn]. rewrite app_nil_r.
  rewrite <- (sl_den_length h s W) at 1. apply firstn_all.
Qed.
Lemma sl_clone_wf h s extra : sl_wf h s -> sl_wf (fst (sl_clone h s extra)) (snd (sl_clone h s extra)).
Proof.
  intros W. apply alloc_new_wf; [lia|]. rewrite app_length, repeat_length, sl_den_length; auto.
Qed.

(* ======================================================================================= *)
(* FRAME 2: in-place writes. Exact pointwise effect, frame for the slices that do not
   overlap the written cells, and change for those that do (when a written value differs). *)
Theorem write_range_den_nth h a o data s i : sl_wf h s ->
  nth_error (sl_den (write_range h a o data) s) i =
  if (i <? s_len s) && (s_arr s =? a) && (o <=? s_off s + i) && (s_off s + i <? o + length data)
  then nth_error data (s_off s + i - o) else nth_error (sl_den h s) i.
Proof.
  intros [W1 W2]. rewrite !sl_den_nth, cell_write_range.
  destruct (Nat.ltb_spec i (s_len s)) as [L|L]; cbn [andb]; auto.
  destruct (s_arr s =? a) eqn:E; cbn [andb]; auto. apply Nat.eqb_eq in E. subst a.
  destruct (o <=? s_off s + i); cbn [andb]; auto.
  destruct (s_off s + i <? o + length data); cbn [andb]; auto.
  replace (s_off s + i <? length (arr_of h (s_arr s))) with true; auto.
  symmetry. apply Nat.ltb_lt. lia.
Qed.

Theorem write_range_frame h a o data s :
  overlapb s a o (length data) = false -> sl_den (write_range h a o data) s = sl_den h s.
Proof.
  intros Ho. apply sl_den_ext. intros i Hi. rewrite cell_write_range.
  unfold overlapb in Ho. destruct (Nat.eqb_spec (s_arr s) a) as [E|E]; cbn [andb] in *; auto.
  apply Nat.ltb_ge in Ho.
  destruct (Nat.leb_spec o (s_off s + i)); cbn [andb]; auto.
  destruct (Nat.ltb_spec (s_off s + i) (o + length data)); cbn [andb]; auto. lia.
Qed.

Theorem write_range_wf h a o data s : sl_wf h s -> sl_wf (write_range h a o data) s.
Proof. intros [W1 W2]. split; auto. now rewrite arr_length_write_range. Qed.

(* a slice whose denotation changed overlaps the written cells *)
Theorem write_range_changed_overlaps h a o data s :
  sl_den (write_range h a o data) s <> sl_den h s -> overlapb s a o (length data) = true.
Proof.
  intros H. destruct (overlapb s a o (length data)) eqn:E; auto.
  exfalso. apply H. now apply write_range_frame.
Qed.

(* and an overlapping slice does change as soon as one written value differs from the old one *)
Theorem write_range_changes h a o data s i : sl_wf h s ->
  i < s_len s -> s_arr s = a -> o <= s_off s + i < o + length data ->
  nth_error data (s_off s + i - o) <> nth_error (sl_den h s) i ->
  sl_den (write_range h a o data) s <> sl_den h s.
Proof.
  intros W L E [B1 B2] Hd Heq. apply Hd. rewrite <- Heq. rewrite write_range_den_nth by auto.
  replace (i <? s_len s) with true by (symmetry; apply Nat.ltb_lt; lia).
  replace (s_arr s =? a) with true by (symmetry; apply Nat.eqb_eq; lia).
  replace (o <=? s_off s + i) with true by (symmetry; apply Nat.leb_le; lia).
  replace (s_off s + i <? o + length data) with true by (symmetry; apply Nat.ltb_lt; lia).
  reflexivity.
Qed.

(* the writing slice's own view: a write at relative position p inside its length *)
Lemma write_range_self h s p data : sl_wf h s -> p + length data <= s_len s ->
  sl_den (write_range h (s_arr s) (s_off s + p) data) s = write_list (sl_den h s) p data.
Proof.
  intros W L. apply list_ext. intros i. rewrite write_range_den_nth, write_list_nth by auto.
  rewrite sl_den_length by auto. rewrite Nat.eqb_refl.
  destruct (Nat.ltb_spec i (s_len s)) as [Hi|Hi]; cbn [andb].
  - replace (s_off s + p <=? s_off s + i) with (p <=? i)
      by (destruct (Nat.leb_spec p i), (Nat.leb_spec (s_off s + p) (s_off s + i)); auto; lia).
    replace (s_off s + i <? s_off s + p + length data) with (i <? p + length data)
      by (destruct (Nat.ltb_spec i (p + length data)),
                   (Nat.ltb_spec (s_off s + i) (s_off s + p + length data)); auto; lia).
    rewrite andb_true_r. replace (s_off s + i - (s_off s + p)) with (i - p) by lia. reflexivity.
  - rewrite andb_false_r. reflexivity.
Qed.

(* ---- list-level facts used to compute the writer's own view ------------------------------ *)
Lemma write_list_suffix (l : list A) : forall i data, i + length data = length l ->
  write_list l i data = firstn i l ++ data.
Proof.
  induction l as [|x l IH]; intros [|i] [|d ds] H; cbn [write_list firstn app length] in *;
    try reflexivity; try lia.
  - f_equal. rewrite IH by lia. reflexivity.
  - f_equal. apply IH. cbn [length]. lia.
  - f_equal. apply IH. cbn [length]. lia.
Qed.

Lemma write_list_full (l data : list A) : length data = length l -> write_list l 0 data = data.
Proof. intros H. now rewrite write_list_suffix. Qed.

Lemma sl_den_shrink h s n c : n <= s_len s ->
  sl_den h (mkS (s_arr s) (s_off s) n c) = firstn n (sl_den h s).
Proof.
  intros H. unfold sl_den. cbn [s_arr s_off s_len]. rewrite firstn_firstn. now rewrite Nat.min_l.
Qed.

Ltac bdestr := repeat match goal with
  | |- context[?a <? ?b] => destruct (Nat.ltb_spec a b)
  | |- context[?a <=? ?b] => destruct (Nat.leb_spec a b)
  | |- context[?a =? ?b] => destruct (Nat.eqb_spec a b)
  end; cbn [andb orb negb].

(* ---- s[lo:hi] ------------------------------------------------------------------------------ *)
Lemma sl_reslice_wf h s lo hi : sl_wf h s -> lo <= hi -> hi <= s_cap s -> sl_wf h (sl_reslice s lo hi).
Proof. intros [W1 W2] H1 H2. split; cbn [sl_reslice s_arr s_off s_len s_cap]; lia. Qed.

Lemma sl_reslice_den h s lo hi : lo <= hi -> hi <= s_len s ->
  sl_den h (sl_reslice s lo hi) = firstn (hi - lo) (skipn lo (sl_den h s)).
Proof.
  intros H1 H2. apply list_ext. intros i.
  rewrite nth_error_firstn', nth_error_skipn', !sl_den_nth. cbn [sl_reslice s_arr s_off s_len].
  bdestr; try lia; auto. now rewrite Nat.add_assoc.
Qed.

(* ---- s[i] = x ------------------------------------------------------------------------------ *)
Theorem sl_index_set_wf h s i x t : sl_wf h t -> sl_wf (sl_index_set h s i x) t.
Proof. intros W. unfold sl_index_set. destruct (i <? s_len s); auto. now apply write_range_wf. Qed.

(* exact: the slices covering the written cell see the element replaced, all others nothing *)
Theorem sl_index_set_den h s i x t : sl_wf h t -> i < s_len s ->
  sl_den (sl_index_set h s i x) t =
  if overlapb t (s_arr s) (s_off s + i) 1
  then write_list (sl_den h t) (s_off s + i - s_off t) [x] else sl_den h t.
Proof.
  intros W L. unfold sl_index_set. replace (i <? s_len s) with true by (symmetry; apply Nat.ltb_lt; lia).
  destruct (overlapb t (s_arr s) (s_off s + i) 1) eqn:E.
  - unfold overlapb in E. apply andb_true_iff in E. destruct E as [E1 E2].
    apply Nat.eqb_eq in E1. apply Nat.ltb_lt in E2. rewrite <- E1.
    replace (s_off s + i) with (s_off t + (s_off s + i - s_off t)) at 1 by lia.
    apply write_range_self; auto. cbn [length]. lia.
  - now apply write_range_frame.
Qed.

Theorem sl_index_set_frame h s i x t :
  overlapb t (s_arr s) (s_off s + i) 1 = false -> sl_den (sl_index_set h s i x) t = sl_den h t.
Proof.
  intros E. unfold sl_index_set. destruct (i <? s_len s); auto. now apply write_range_frame.
Qed.

Theorem sl_index_set_self h s i x : sl_wf h s -> i < s_len s ->
  sl_den (sl_index_set h s i x) s = write_list (sl_den h s) i [x].
Proof.
  intros W L. unfold sl_index_set. replace (i <? s_len s) with true by (symmetry; apply Nat.ltb_lt; lia).
  apply write_range_self; auto. cbn [length]. lia.
Qed.

(* ---- append --------------------------------------------------------------------------------- *)
Theorem sl_append_list_den h s xs extra : sl_wf h s ->
  sl_den (fst (sl_append_list h s xs extra)) (snd (sl_append_list h s xs extra)) = sl_den h s ++ xs.
Proof.
  intros W. unfold sl_append_list. destruct (Nat.leb_spec (s_len s + length xs) (s_cap s)) as [C|C]; cbn [fst snd].
  - set (s' := mkS (s_arr s) (s_off s) (s_len s + length xs) (s_cap s)).
    assert (W' : sl_wf h s') by (destruct W; split; cbn [s' s_arr s_off s_len s_cap]; lia).
    change (s_arr s) with (s_arr s') at 1. change (s_off s) with (s_off s') at 1.
    rewrite write_range_self by (auto; cbn [s' s_len]; lia).
    rewrite write_list_suffix by (rewrite sl_den_length by auto; reflexivity).
    f_equal. unfold s'. rewrite <- (sl_den_shrink h (mkS (s_arr s) (s_off s) (s_len s + length xs) (s_cap s)) (s_len s) (s_cap s))
      by (cbn [s_len]; lia). cbn [s_arr s_off]. now destruct s.
  - rewrite alloc_new_den by (rewrite !app_length, sl_den_length by auto; lia).
    rewrite app_assoc, firstn_app, app_length, sl_den_length by auto.
    rewrite Nat.sub_diag. cbn [firstn]. rewrite app_nil_r.
    rewrite <- (sl_den_length h s W) at 1. rewrite <- app_length. apply firstn_all.
Qed.

Theorem sl_append_list_wf h s xs extra : sl_wf h s ->
  sl_wf (fst (sl_append_list h s xs extra)) (snd (sl_append_list h s xs extra)).
Proof.
  intros W. unfold sl_append_list. destruct (Nat.leb_spec (s_len s + length xs) (s_cap s)) as [C|C]; cbn [fst snd].
  - apply write_range_wf. destruct W; split; cbn [s_arr s_off s_len s_cap]; lia.
  - apply alloc_new_wf; [lia|]. rewrite !app_length, repeat_length, sl_den_length by auto. lia.
Qed.

Theorem sl_append_list_wf_other h s xs extra t : sl_wf h t -> sl_wf (fst (sl_append_list h s xs extra)) t.
Proof.
  intros W. unfold sl_append_list. destruct (_ <=? _); cbn [fst]; [now apply write_range_wf|now apply alloc_wf].
Qed.

(* append with spare capacity writes the cells [off+len, off+len+n) of the SHARED array *)
Theorem sl_append_inplace_frame h s xs extra t : s_len s + length xs <= s_cap s ->
  overlapb t (s_arr s) (s_off s + s_len s) (length xs) = false ->
  sl_den (fst (sl_append_list h s xs extra)) t = sl_den h t.
Proof.
  intros C E. unfold sl_append_list. replace (_ <=? _) with true by (symmetry; apply Nat.leb_le; lia).
  now apply write_range_frame.
Qed.

Theorem sl_append_inplace_changes h s xs extra t i : sl_wf h t -> s_len s + length xs <= s_cap s ->
  i < s_len t -> s_arr t = s_arr s -> s_off s + s_len s <= s_off t + i < s_off s + s_len s + length xs ->
  nth_error xs (s_off t + i - (s_off s + s_len s)) <> nth_error (sl_den h t) i ->
  sl_den (fst (sl_append_list h s xs extra)) t <> sl_den h t.
Proof.
  intros W C L E B D. unfold sl_append_list. replace (_ <=? _) with true by (symmetry; apply Nat.leb_le; lia).
  now apply (write_range_changes h (s_arr s) (s_off s + s_len s) xs t i).
Qed.

(* ---- copy(dst, src) ------------------------------------------------------------------------- *)
Lemma sl_copy_data_length h dst src : sl_wf h src ->
  length (firstn (Nat.min (s_len dst) (s_len src)) (sl_den h src)) = Nat.min (s_len dst) (s_len src).
Proof. intros W. rewrite firstn_length, sl_den_length by auto. lia. Qed.

Theorem sl_copy_wf h dst src t : sl_wf h t -> sl_wf (sl_copy h dst src) t.
Proof. apply write_range_wf. Qed.

Theorem sl_copy_frame h dst src t : sl_wf h src ->
  overlapb t (s_arr dst) (s_off dst) (Nat.min (s_len dst) (s_len src)) = false ->
  sl_den (sl_copy h dst src) t = sl_den h t.
Proof. intros W E. apply write_range_frame. now rewrite sl_copy_data_length. Qed.

Theorem sl_copy_self h dst src : sl_wf h dst -> sl_wf h src ->
  sl_den (sl_copy h dst src) dst =
  write_list (sl_den h dst) 0 (firstn (Nat.min (s_len dst) (s_len src)) (sl_den h src)).
Proof.
  intros Wd Ws. unfold sl_copy. rewrite <- (Nat.add_0_r (s_off dst)) at 1.
  apply write_range_self; auto. rewrite sl_copy_data_length by auto. lia.
Qed.

Corollary sl_copy_self_full h dst src : sl_wf h dst -> sl_wf h src -> s_len dst = s_len src ->
  sl_den (sl_copy h dst src) dst = sl_den h src.
Proof.
  intros Wd Ws E. rewrite sl_copy_self by auto. rewrite E, Nat.min_id.
  rewrite <- (sl_den_length h src Ws) at 1. rewrite firstn_all.
  apply write_list_full. now rewrite !sl_den_length.
Qed.

(* ---- slices.Delete(s, i, j) in place --------------------------------------------------------- *)
Lemma sl_delete_data_length h s i j : sl_wf h s -> i <= j -> j <= s_len s ->
  length (skipn j (sl_den h s) ++ repeat zero (j - i)) = s_len s - i.
Proof. intros W H1 H2. rewrite app_length, skipn_length, repeat_length, sl_den_length by auto. lia. Qed.

Theorem sl_delete_inplace_frame h s i j t : sl_wf h s -> i <= j -> j <= s_len s ->
  overlapb t (s_arr s) (s_off s + i) (s_len s - i) = false ->
  sl_den (fst (sl_delete_inplace h s i j)) t = sl_den h t.
Proof. intros W H1 H2 E. apply write_range_frame. now rewrite sl_delete_data_length. Qed.

Theorem sl_delete_inplace_wf_other h s i j t : sl_wf h t -> sl_wf (fst (sl_delete_inplace h s i j)) t.
Proof. apply write_range_wf. Qed.

(* the old header (same len as before) now reads: prefix, shifted suffix, zeroes *)
Theorem sl_delete_inplace_old_view h s i j : sl_wf h s -> i <= j -> j <= s_len s ->
  sl_den (fst (sl_delete_inplace h s i j)) s =
  firstn i (sl_den h s) ++ skipn j (sl_den h s) ++ repeat zero (j - i).
Proof.
  intros W H1 H2. unfold sl_delete_inplace. cbn [fst].
  rewrite write_range_self by (auto; rewrite sl_delete_data_length by auto; lia).
  apply write_list_suffix. rewrite sl_delete_data_length, sl_den_length by auto. lia.
Qed.

Theorem sl_delete_inplace_den h s i j : sl_wf h s -> i <= j -> j <= s_len s ->
  sl_den (fst (sl_delete_inplace h s i j)) (snd (sl_delete_inplace h s i j)) =
  firstn i (sl_den h s) ++ skipn j (sl_den h s).
Proof.
  intros W H1 H2. cbn [sl_delete_inplace snd]. rewrite sl_den_shrink by lia.
  rewrite sl_delete_inplace_old_view by auto. rewrite app_assoc, firstn_app.
  assert (L : length (firstn i (sl_den h s) ++ skipn j (sl_den h s)) = s_len s - (j - i))
    by (rewrite app_length, firstn_length, skipn_length, sl_den_length by auto; lia).
  rewrite L, Nat.sub_diag. cbn [firstn]. rewrite app_nil_r. rewrite <- L. apply firstn_all.
Qed.

(* ---- slices.DeleteFunc(s, del) in place ------------------------------------------------------- *)
Lemma filter_length_le (f : A -> bool) l : length (filter f l) <= length l.
Proof. induction l as [|x l IH]; cbn [filter length]; [lia|]. destruct (f x); cbn [length]; lia. Qed.

Theorem sl_deletefunc_inplace_frame h s del t : sl_wf h s ->
  overlapb t (s_arr s) (s_off s) (s_len s) = false ->
  sl_den (fst (sl_deletefunc_inplace h s del)) t = sl_den h t.
Proof.
  intros W E. apply write_range_frame. rewrite app_length, repeat_length.
  pose proof (filter_length_le (fun x => negb (del x)) (sl_den h s)) as F.
  rewrite sl_den_length in F by auto. replace (_ + _) with (s_len s) by lia. exact E.
Qed.

Theorem sl_deletefunc_inplace_den h s del : sl_wf h s ->
  sl_den (fst (sl_deletefunc_inplace h s del)) (snd (sl_deletefunc_inplace h s del)) =
  filter (fun x => negb (del x)) (sl_den h s).
Proof.
  intros W. pose proof (filter_length_le (fun x => negb (del x)) (sl_den h s)) as F.
  rewrite sl_den_length in F by auto.
  cbn [sl_deletefunc_inplace snd fst]. rewrite sl_den_shrink by lia.
  rewrite <- (Nat.add_0_r (s_off s)) at 1.
  rewrite write_range_self by (auto; rewrite app_length, repeat_length; lia).
  rewrite write_list_full by (rewrite app_length, repeat_length, sl_den_length by auto; lia).
  rewrite firstn_app, Nat.sub_diag. cbn [firstn]. rewrite app_nil_r. apply firstn_all.
Qed.

(* ---- computing with write_list on structured lists ---------------------------------------- *)
Lemma write_list_nil_data (l : list A) p : write_list l p [] = l.
Proof. revert p. induction l as [|x l IH]; intros [|p]; cbn [write_list]; auto. now rewrite IH. Qed.

Lemma write_list_app_r (l1 l2 : list A) p data :
  write_list (l1 ++ l2) (length l1 + p) data = l1 ++ write_list l2 p data.
Proof. induction l1 as [|x l1 IH]; cbn [app length Nat.add write_list]; auto. now rewrite IH. Qed.

Lemma write_list_app_0 (l1 l2 data : list A) : length data = length l1 ->
  write_list (l1 ++ l2) 0 data = data ++ l2.
Proof.
  revert data. induction l1 as [|x l1 IH]; intros [|d ds] H; cbn [length] in H; try discriminate.
  - cbn [app]. apply write_list_nil_data.
  - cbn [app write_list]. f_equal. apply IH. lia.
Qed.

End Slice.
