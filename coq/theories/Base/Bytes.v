(* Base/Bytes.v — byte strings as lists of N (< 256), bytewise lexicographic order
   (the order of Go's bytes.Compare), prefixes. Stdlib only. *)
From Coq Require Export List NArith ZArith Bool Lia.
From Coq Require Import ZifyN ZifyNat ZifyBool.
Export ListNotations.
Open Scope N_scope.

Definition byte := N.
Definition bytes := list N.

Definition is_byte (b : N) : Prop := b < 256.
Definition is_bytes (s : bytes) : Prop := Forall is_byte s.

(* bytes.Compare(a,b) < 0 *)
Fixpoint bytes_ltb (a b : bytes) : bool :=
  match a, b with
  | [], [] => false
  | [], _ :: _ => true
  | _ :: _, [] => false
  | x :: xs, y :: ys => if x <? y then true else if x =? y then bytes_ltb xs ys else false
  end.

Fixpoint bytes_eqb (a b : bytes) : bool :=
  match a, b with
  | [], [] => true
  | x :: xs, y :: ys => (x =? y) && bytes_eqb xs ys
  | _, _ => false
  end.

Definition bytes_leb (a b : bytes) : bool := negb (bytes_ltb b a).

(* bytes.HasPrefix(s, p) *)
Fixpoint has_prefix (s p : bytes) : bool :=
  match p, s with
  | [], _ => true
  | y :: ys, x :: xs => (x =? y) && has_prefix xs ys
  | _ :: _, [] => false
  end.

Inductive lex_lt : bytes -> bytes -> Prop :=
| lex_nil : forall y ys, lex_lt [] (y :: ys)
| lex_hd : forall x y xs ys, x < y -> lex_lt (x :: xs) (y :: ys)
| lex_tl : forall x xs ys, lex_lt xs ys -> lex_lt (x :: xs) (x :: ys).

Lemma bytes_ltb_spec a : forall b, bytes_ltb a b = true <-> lex_lt a b.
Proof.
  induction a as [|x xs IH]; intros [|y ys]; simpl.
  - split; [discriminate|inversion 1].
  - split; [constructor|reflexivity].
  - split; [discriminate|inversion 1].
  - destruct (N.ltb_spec x y) as [Hlt|Hge].
    + split; [intros _; now constructor|reflexivity].
    + destruct (N.eqb_spec x y) as [->|Hne].
      * rewrite IH. split; [now constructor|].
        inversion 1; subst; [lia|assumption].
      * split; [discriminate|]. inversion 1; subst; [lia|congruence].
Qed.

Lemma bytes_eqb_spec a : forall b, bytes_eqb a b = true <-> a = b.
Proof.
  induction a as [|x xs IH]; intros [|y ys]; simpl; try (split; [discriminate|congruence]); [tauto|].
  rewrite andb_true_iff, N.eqb_eq, IH. split; [intros [-> ->]; reflexivity|injection 1; auto].
Qed.

Lemma bytes_eqb_refl a : bytes_eqb a a = true.
Proof. now apply bytes_eqb_spec. Qed.

Lemma lex_lt_irrefl a : ~ lex_lt a a.
Proof. induction a as [|x xs IH]; inversion 1; subst; [lia|auto]. Qed.

Lemma lex_lt_trans a : forall b c, lex_lt a b -> lex_lt b c -> lex_lt a c.
Proof.
  induction a as [|x xs IH]; intros b c H1 H2.
  - inversion H1; subst; inversion H2; subst; constructor.
  - inversion H1; subst; inversion H2; subst.
    + apply lex_hd; lia.
    + now apply lex_hd.
    + now apply lex_hd.
    + apply lex_tl; eauto.
Qed.

Lemma lex_lt_total a : forall b, lex_lt a b \/ a = b \/ lex_lt b a.
Proof.
  induction a as [|x xs IH]; intros [|y ys].
  - auto.
  - left; constructor.
  - right; right; constructor.
  - destruct (N.lt_trichotomy x y) as [H|[->|H]].
    + left; now constructor.
    + destruct (IH ys) as [H|[->|H]]; [left|right;left|right;right]; auto using lex_tl.
    + right; right; now constructor.
Qed.

Lemma lex_lt_asym a b : lex_lt a b -> ~ lex_lt b a.
Proof. intros H1 H2. exact (lex_lt_irrefl _ (lex_lt_trans _ _ _ H1 H2)). Qed.

Lemma has_prefix_spec s : forall p, has_prefix s p = true <-> exists r, s = p ++ r.
Proof.
  induction s as [|x xs IH]; intros [|y ys]; simpl.
  - split; [exists []; reflexivity|reflexivity].
  - split; [discriminate|intros [r H]; discriminate].
  - split; [eexists; reflexivity|reflexivity].
  - rewrite andb_true_iff, N.eqb_eq, IH. split.
    + intros [-> [r ->]]; now exists r.
    + intros [r H]; injection H as -> ->; split; eauto.
Qed.

(* appending on the left preserves order *)
Lemma lex_lt_app_l p : forall a b, lex_lt a b <-> lex_lt (p ++ a) (p ++ b).
Proof.
  induction p as [|x p IH]; intros a b; simpl; [tauto|].
  rewrite IH. split; [apply lex_tl|]. inversion 1; subst; [lia|assumption].
Qed.

(* a proper prefix is smaller *)
Lemma lex_lt_prefix a : forall y r, lex_lt a (a ++ y :: r).
Proof. induction a as [|x xs IH]; intros; simpl; [apply lex_nil|apply lex_tl; auto]. Qed.

(* Comparison of x ++ a with y ++ b when x, y are already ordered and neither is
   a prefix of the other: decided inside x / y. *)
Inductive lex_diverge : bytes -> bytes -> Prop :=
| ld_hd : forall x y xs ys, x < y -> lex_diverge (x :: xs) (y :: ys)
| ld_tl : forall x xs ys, lex_diverge xs ys -> lex_diverge (x :: xs) (x :: ys).

Lemma lex_diverge_app x : forall y a b, lex_diverge x y -> lex_lt (x ++ a) (y ++ b).
Proof. induction x as [|c x IH]; intros y a b H; inversion H; subst; simpl; [now apply lex_hd|apply lex_tl; auto]. Qed.

Lemma lex_lt_cases a : forall b, lex_lt a b -> (exists y r, b = a ++ y :: r) \/ lex_diverge a b.
Proof.
  induction a as [|x xs IH]; intros b H; inversion H; subst.
  - left; exists y, ys; reflexivity.
  - right; now constructor.
  - match goal with Hx : lex_lt xs _ |- _ => destruct (IH _ Hx) as [[y [r ->]]|Hd] end;
      [left; exists y, r; reflexivity|right; now constructor].
Qed.

(* keeps N, Z, positive and nat present in every extraction (ocaml/util.ml relies on them) *)
Definition keep_types : N * Z * nat := (0, 0%Z, O).
