(* Table/ClientsProofs2.v — part D: the loop invariant of a MIRROR Derive, on the flattened operations of a
   run (Table/ClientsProofs.v crun_is_run), composed with the C07 convergence theorem; part E (leg level):
   what one leg of the observer is handed. *)
From Coq Require Import List NArith Bool Lia.
Import ListNotations.
From SV Require Import Base.Bytes Base.OrdMap KeyEnc.Model Table.Model Table.Proofs Table.InvDefs Table.Inv Table.Inv2
                       Table.ChangesStream Table.ChangesIter Table.ChangesProofs Table.ChangesRet Table.ChangesHist
                       Table.ChangesFromInit Table.Clients Table.ClientsProofs.
Local Open Scope N_scope.

(* ---- delivered, along appended runs ---------------------------------------------------------------------- *)
Lemma delivered_app iid l1 : forall d l2,
  delivered iid d (l1 ++ l2) = delivered iid d l1 ++ delivered iid (fst (run d l1)) l2.
Proof.
  induction l1 as [|o r IH]; intros d l2; cbn [app delivered run fst]; [reflexivity|].
  rewrite IH, app_assoc. destruct (step d o) as [d1 x]. cbn [fst]. destruct (run d1 r) as [d2 xs]. reflexivity.
Qed.

Lemma delivered_untouched iid ops : forall d,
  forallb (fun o => negb (touches iid o)) ops = true -> delivered iid d ops = [].
Proof.
  induction ops as [|o r IH]; intros d H; cbn [delivered]; [reflexivity|].
  cbn [forallb] in H. apply andb_true_iff in H. destruct H as [Ho Hr]. rewrite (IH _ Hr), app_nil_r.
  destruct o; cbn [touches] in Ho; try reflexivity; apply negb_true_iff in Ho; rewrite Ho; reflexivity.
Qed.

Lemma dwrite_untouched iid out ops :
  forallb (dwrite out) ops = true -> forallb (fun o => negb (touches iid o)) ops = true.
Proof.
  intros H. rewrite forallb_forall in *. intros o Ho. specialize (H o Ho). destruct o; try discriminate; reflexivity.
Qed.

(* ---- projecting the replay of a change stream on (key, value) ------------------------------------------- *)
Definition cproj (m : absmap) : list (bytes * N) := map (fun kv => (fst kv, fst (snd kv))) m.

Lemma cproj_apply_change m c : cproj (apply_change m c) = apply_c (cproj m) c.
Proof.
  unfold apply_change, apply_c, cproj. destruct (snd c).
  - apply (mapv_delete (fun v : N * N => fst v)).
  - apply (mapv_insert (fun v : N * N => fst v)).
Qed.

Lemma cproj_fold l : forall m, cproj (fold_left apply_change l m) = fold_left apply_c l (cproj m).
Proof. induction l as [|c r IH]; intros m; cbn [fold_left]; [reflexivity|]. now rewrite IH, cproj_apply_change. Qed.

Lemma cproj_abs_of t : cproj (abs_of t) = contents t.
Proof. unfold cproj, abs_of, contents. rewrite map_map. reflexivity. Qed.

Lemma replay_app l1 l2 : replay (l1 ++ l2) = fold_left apply_change l2 (replay l1).
Proof. unfold replay. apply fold_left_app. Qed.

(* ---- what one iteration of the loop is handed ------------------------------------------------------------ *)
Lemma derive_iter_delivered tr ds d d' ds' ops :
  derive_iter tr ds d = (d', ds', ops) ->
  delivered (dv_iid ds) d ops =
    match ops with
    | [] => []
    | _ => out_changes (snd (step (fst (step d (OBegin [dv_out ds]))) (ONext (dv_iid ds) STxn None)))
    end /\
  (ops <> [] -> exists l w rest,
     snd (step (fst (step d (OBegin [dv_out ds]))) (ONext (dv_iid ds) STxn None)) = OutChanges l w /\
     ops = [OBegin [dv_out ds]; ONext (dv_iid ds) STxn None] ++ rest /\
     forallb (fun o => negb (touches (dv_iid ds) o)) rest = true).
Proof.
  intros H. destruct (derive_iter_shape _ _ _ _ _ _ H) as [[_ [_ [-> _]]]|
    [x [l [w [d2 [o2 [o3 [marked [initw [H1 [H2 [H3 [H4 [H5 H6]]]]]]]]]]]]]].
  { split; [reflexivity|congruence]. }
  assert (Hl : snd (step (fst (step d (OBegin [dv_out ds]))) (ONext (dv_iid ds) STxn None)) = OutChanges l w).
  { pose proof (run_two_outs d (OBegin [dv_out ds]) (ONext (dv_iid ds) STxn None)) as R.
    rewrite H1 in R. cbn [snd] in R. injection R as _ R. symmetry. exact R. }
  assert (Hrest : forallb (fun o => negb (touches (dv_iid ds) o)) (o2 ++ o3 ++ [OCommit (dv_sid ds)]) = true).
  { rewrite !forallb_app. pose proof (apply_changes_dwrite tr (dv_out ds) l
      (fst (run d [OBegin [dv_out ds]; ONext (dv_iid ds) STxn None]))) as Hw. rewrite H2 in Hw. cbn [snd] in Hw.
    rewrite (dwrite_untouched _ _ _ Hw). cbn [andb].
    destruct (init_ops_cases _ _ _ _ _ H3) as [[_ [_ ->]]|[[_ [_ ->]]|[_ [_ [-> _]]]]]; reflexivity. }
  split.
  - subst ops. rewrite delivered_app, (delivered_untouched _ _ _ Hrest), app_nil_r.
    cbn [app delivered]. rewrite N.eqb_refl, app_nil_r. cbn [app]. reflexivity.
  - intros _. exists l, w, (o2 ++ o3 ++ [OCommit (dv_sid ds)]). auto.
Qed.

(* ==== D. the loop invariant of a mirror Derive: the derived table is the (key, value) projection of the
        replay of everything the loop's iterator has been handed =========================================== *)
Section MirrorLoop.
Variables (ds : dstate) (d0 : db) (ops : list op).
Let iid := dv_iid ds.
Let out := dv_out ds.
Let d := fst (run d0 ops).

Theorem derive_mirror_step tout d' ds' ops_i :
  d_txn d = None ->
  nth_error (d_root d) out = Some tout -> om_sorted (t_primary tout) ->
  contents tout = cproj (replay (delivered iid d0 ops)) ->
  derive_iter (tr_std 0) ds d = (d', ds', ops_i) ->
  d' = fst (run d0 (ops ++ ops_i)) /\ d_txn d' = None /\
  (exists tout', nth_error (d_root d') out = Some tout' /\ om_sorted (t_primary tout') /\
                 contents tout' = cproj (replay (delivered iid d0 (ops ++ ops_i)))) /\
  (forall i, i <> out -> nth_error (d_root d') i = nth_error (d_root d) i).
Proof.
  intros Hn Hout Hs Hc H.
  split; [rewrite run_app; fold d; eapply derive_iter_run; eauto|].
  destruct (derive_iter_delivered _ _ _ _ _ _ H) as [Hd Hne].
  destruct ops_i as [|a r].
  - destruct (derive_iter_shape _ _ _ _ _ _ H) as [[-> _]|
      [x [l [w [d2 [o2 [o3 [marked [initw [_ [_ [_ [_ [_ C]]]]]]]]]]]]]]; [|discriminate].
    rewrite app_nil_r. split; [exact Hn|]. split; [exists tout; auto|auto].
  - destruct (Hne ltac:(discriminate)) as [l [w [rest [Hl _]]]].
    destruct (derive_mirror_iter ds d d' ds' (a :: r) tout l w Hn Hout Hs H Hl) as [[tout' [A [B C]]] [F T]].
    split; [exact T|]. split; [|exact F].
    exists tout'. split; [exact A|]. split; [exact B|].
    rewrite C, Hc, delivered_app, replay_app, cproj_fold. fold d. fold iid in Hd. rewrite Hd.
    cbv iota. unfold iid, out. rewrite Hl. reflexivity.
Qed.
End MirrorLoop.

(* composed with C07 (Table/ChangesFromInit.v init_converge_next): an iteration whose Next refreshes from the
   committed table S leaves the derived table with exactly the contents of S; S is the input table of the
   root the iteration started from (next_source_begin below), which the iteration does not change *)
Theorem derive_mirror_converges n pre t0 ops ds tout d' ds' ops_i S :
  let iid := dv_iid ds in let out := dv_out ds in
  let dc := fst (run (init_db n) pre) in
  let d0 := fst (step dc (OChanges iid (dv_in ds))) in
  let d := fst (run d0 ops) in
  (* the loop invariant so far *)
  d_txn d = None ->
  nth_error (d_root d) out = Some tout -> om_sorted (t_primary tout) ->
  contents tout = cproj (replay (delivered iid d0 ops)) ->
  (* this iteration *)
  derive_iter (tr_std 0) ds d = (d', ds', ops_i) ->
  next_source (fst (step d (OBegin [out]))) iid STxn = Some S ->
  (* the hypotheses of C07_from_init_converges, on the flattened operations *)
  room_run (init_db n) (pre ++ OChanges iid (dv_in ds) :: (ops ++ [OBegin [out]]) ++ [ONext iid STxn None]) ->
  created dc iid (dv_in ds) t0 ->
  (forall cur, nth_error (d_root dc) (dv_in ds) = Some cur -> ~ reg iid cur) ->
  friendly_run iid (dv_in ds) d0 ((ops ++ [OBegin [out]]) ++ [ONext iid STxn None]) ->
  exists tout', nth_error (d_root d') out = Some tout' /\ contents tout' = contents S.
Proof.
  intros iid out dc d0 d Hn Hout Hs Hc H HS Hroom Hcr Hfresh Hfr.
  destruct (derive_mirror_step ds d0 ops tout d' ds' ops_i Hn Hout Hs Hc H) as [_ [_ [[tout' [A [_ C]]] _]]].
  exists tout'. split; [exact A|]. rewrite C. fold iid.
  assert (HdB : fst (run d0 (ops ++ [OBegin [out]])) = fst (step d (OBegin [out]))) by (now rewrite run_app, run_single).
  pose proof (init_converge_next n pre iid (dv_in ds) t0 (ops ++ [OBegin [out]]) STxn S Hroom Hcr Hfresh Hfr) as Hconv.
  cbv zeta in Hconv. fold dc d0 in Hconv. rewrite HdB in Hconv. specialize (Hconv HS).
  (* what this iteration was handed is what that Next delivered *)
  destruct (derive_iter_delivered _ _ _ _ _ _ H) as [Hd Hne].
  assert (Hops : ops_i <> []).
  { intros ->. destruct (derive_iter_shape _ _ _ _ _ _ H) as [[_ [_ [_ C']]]|
      [x [l [w [d2 [o2 [o3 [marked [initw [_ [_ [_ [_ [_ C']]]]]]]]]]]]]]; [|discriminate].
    rewrite run_two_outs in C'. change (dv_iid ds) with iid in C'. change (dv_out ds) with out in C'.
    assert (exists it, assoc iid (d_iters (fst (step d (OBegin [out])))) = Some it) as [it Hit].
    { unfold next_source in HS. destruct (assoc iid (d_iters (fst (step d (OBegin [out]))))) as [it|]; [eauto|discriminate]. }
    destruct (next_iter_pending S it) as [l2 Hl2].
    rewrite (step_next_some _ _ _ None it S Hit HS l2 Hl2) in C'.
    destruct (consume None l2 (next_iter S it) (fst (step d (OBegin [out]))) iid) as [[o i2] dd2].
    cbn [snd] in C'. eapply C'. reflexivity. }
  assert (Hdel : delivered iid d0 (ops ++ ops_i) = delivered iid d0 ((ops ++ [OBegin [out]]) ++ [ONext iid STxn None])).
  { rewrite <- app_assoc. rewrite !delivered_app, run_single. f_equal. fold d. fold iid in Hd. rewrite Hd.
    destruct ops_i; [congruence|]. cbn [app delivered]. rewrite N.eqb_refl, !app_nil_r. reflexivity. }
  rewrite Hdel, Hconv. apply cproj_abs_of.
Qed.

(* the table that Next refreshes from inside the iteration's transaction is the committed root's *)
Lemma next_source_begin d tabs iid S : d_txn d = None ->
  next_source (fst (step d (OBegin tabs))) iid STxn = Some S ->
  exists it, assoc iid (d_iters d) = Some it /\ nth_error (d_root d) (it_tab it) = Some S.
Proof.
  intros Hn. cbn [step]. rewrite Hn. cbn [fst]. unfold next_source. cbn [set_txn d_iters src_committed d_txn d_root].
  destruct (assoc iid (d_iters d)) as [it|]; [|discriminate].
  destruct (nth_error (d_root d) (it_tab it)) as [t|] eqn:Et; [|discriminate].
  match goal with |- context [if ?c then _ else _] => destruct c end; [discriminate|].
  intros E. injection E as <-. exists it. auto.
Qed.

Corollary derive_mirror_equals_input n pre t0 ops ds tout d' ds' ops_i S it :
  let iid := dv_iid ds in let out := dv_out ds in
  let dc := fst (run (init_db n) pre) in
  let d0 := fst (step dc (OChanges iid (dv_in ds))) in
  let d := fst (run d0 ops) in
  d_txn d = None ->
  nth_error (d_root d) out = Some tout -> om_sorted (t_primary tout) ->
  contents tout = cproj (replay (delivered iid d0 ops)) ->
  derive_iter (tr_std 0) ds d = (d', ds', ops_i) ->
  next_source (fst (step d (OBegin [out]))) iid STxn = Some S ->
  assoc iid (d_iters d) = Some it -> it_tab it = dv_in ds -> dv_in ds <> dv_out ds ->
  room_run (init_db n) (pre ++ OChanges iid (dv_in ds) :: (ops ++ [OBegin [out]]) ++ [ONext iid STxn None]) ->
  created dc iid (dv_in ds) t0 ->
  (forall cur, nth_error (d_root dc) (dv_in ds) = Some cur -> ~ reg iid cur) ->
  friendly_run iid (dv_in ds) d0 ((ops ++ [OBegin [out]]) ++ [ONext iid STxn None]) ->
  exists tin' tout', nth_error (d_root d') (dv_in ds) = Some tin' /\ nth_error (d_root d') out = Some tout' /\
                     contents tout' = contents tin'.
Proof.
  intros iid out dc d0 d Hn Hout Hs Hc H HS Hit Htab Hio Hroom Hcr Hfresh Hfr.
  destruct (derive_mirror_converges n pre t0 ops ds tout d' ds' ops_i S Hn Hout Hs Hc H HS Hroom Hcr Hfresh Hfr)
    as [tout' [A B]].
  destruct (derive_mirror_step ds d0 ops tout d' ds' ops_i Hn Hout Hs Hc H) as [_ [_ [_ F]]].
  destruct (next_source_begin d [out] iid S Hn HS) as [it' [Hit' HS']].
  fold d in Hit. rewrite Hit in Hit'. injection Hit' as <-. rewrite Htab in HS'.
  exists S, tout'. split; [|split; auto]. rewrite F by exact Hio. exact HS'.
Qed.

(* the hypotheses of derive_mirror_equals_input are satisfiable: the run cx_pre of Table/ClientsProofs.v, flattened
   (crun_is_run) and split at the loop's OChanges; the iteration about to run mirrors an insert and a delete *)
Example derive_mirror_converges_nonvacuous :
  let flat := snd (crun (init_csys 2 0) cx_pre) in
  let pre := firstn 8 flat in let ops := skipn 9 flat in
  let dc := fst (run (init_db 2) pre) in
  let d0 := fst (step dc (OChanges derive_iid 0)) in
  let d := fst (run d0 ops) in
  flat = pre ++ OChanges derive_iid 0 :: ops /\ d = cs_db cx_s /\ d_txn d = None /\
  (exists tout, nth_error (d_root d) 1 = Some tout /\ om_sorted (t_primary tout) /\
                contents tout = cproj (replay (delivered derive_iid d0 ops)) /\ contents tout = [([97], 1)]) /\
  (exists S, next_source (fst (step d (OBegin [1%nat]))) derive_iid STxn = Some S /\ contents S = [([98], 2)]) /\
  (exists it, assoc derive_iid (d_iters d) = Some it /\ it_tab it = 0%nat) /\
  room_run (init_db 2) (pre ++ OChanges derive_iid 0 :: (ops ++ [OBegin [1%nat]]) ++ [ONext derive_iid STxn None]) /\
  (exists t0, created dc derive_iid 0 t0) /\
  (forall cur, nth_error (d_root dc) 0 = Some cur -> ~ reg derive_iid cur) /\
  friendly_run derive_iid 0 d0 ((ops ++ [OBegin [1%nat]]) ++ [ONext derive_iid STxn None]).
Proof.
  cbv zeta. split; [vm_compute; reflexivity|]. split; [vm_compute; reflexivity|]. split; [vm_compute; reflexivity|].
  split; [eexists; split; [vm_compute; reflexivity|]; split; [cbn; repeat constructor|split; vm_compute; reflexivity]|].
  split; [eexists; split; vm_compute; reflexivity|].
  split; [eexists; split; vm_compute; reflexivity|].
  split; [apply room_runb_ok; vm_compute; reflexivity|].
  split; [vm_compute; do 4 eexists; split; [reflexivity|split; reflexivity]|].
  split; [intros cur H; vm_compute in H; injection H as <-; vm_compute; tauto|].
  apply friendly_runb_ok; vm_compute; reflexivity.
Qed.

(* ==== E (leg level). what one run of the observer goroutine is handed ===================================== *)
Lemma consume_take1 l it d iid : (length (fst (fst (consume (Some 1%nat) l it d iid))) <= 1)%nat.
Proof. destruct l as [|[o del] r]; cbn [consume fst length]; lia. Qed.

Lemma step_next_take1 d iid s : (length (out_changes (snd (step d (ONext iid s (Some 1%nat))))) <= 1)%nat.
Proof.
  cbn [step]. destruct (assoc iid (d_iters d)) as [it|]; [|cbn; lia].
  destruct (src_committed d s) as [r|]; [|cbn; lia].
  destruct (nth_error r (it_tab it)) as [t|]; [|cbn; lia].
  destruct (nth_error (d_root d) (it_tab it)) as [cur|]; [|cbn; lia].
  match goal with |- context [if ?c then _ else _] => destruct c end; [cbn; lia|].
  match goal with |- context [consume ?a ?b ?c ?dd ?e] =>
    pose proof (consume_take1 b c dd e) as Hc; destruct (consume a b c dd e) as [[x y] z] end.
  cbn [fst snd out_changes] in *. exact Hc.
Qed.

Lemma step_resume_take1 d iid : (length (out_changes (snd (step d (OResume iid (Some 1%nat))))) <= 1)%nat.
Proof.
  cbn [step]. destruct (assoc iid (d_iters d)) as [it|]; [|cbn; lia].
  destruct (it_pending it) as [l|]; [|cbn; lia]. destruct (it_seq it); [|cbn; lia].
  match goal with |- context [consume ?a ?b ?c ?dd ?e] =>
    pose proof (consume_take1 b c dd e) as Hc; destruct (consume a b c dd e) as [[x y] z] end.
  cbn [fst snd out_changes] in *. exact Hc.
Qed.

(* one run of the goroutine (from "callback returned" to the next callback / the select): it is handed at most
   one change, the one it then holds in its callback; otherwise nothing, and it is in the select or where it was *)
Lemma observe_run_delivered fuel : forall os d acc,
  exists ops1, snd (observe_run fuel os d acc) = acc ++ ops1 /\
    let os' := snd (fst (observe_run fuel os d acc)) in
    (exists c, os' = oset os (OHold c) /\ delivered (ov_iid os) d ops1 = [c]) \/
    (delivered (ov_iid os) d ops1 = [] /\ (os' = os \/ exists wr, os' = oset os (OWait wr))).
Proof.
  induction fuel as [|f IH]; intros os d acc; cbn [observe_run].
  - exists []. rewrite app_nil_r. split; [reflexivity|]. right. cbn. auto.
  - set (b := match assoc (ov_iid os) (d_iters d) with
              | Some it => it_seq it && match it_pending it with Some _ => true | None => false end
              | None => false end).
    set (o := if b then OResume (ov_iid os) (Some 1%nat) else ONext (ov_iid os) SFresh (Some 1%nat)).
    assert (Hlen : (length (out_changes (snd (step d o))) <= 1)%nat).
    { unfold o. destruct b; [apply step_resume_take1|apply step_next_take1]. }
    assert (Hdel : forall r, delivered (ov_iid os) d (o :: r) =
                             out_changes (snd (step d o)) ++ delivered (ov_iid os) (fst (step d o)) r).
    { intros r. unfold o. destruct b; cbn [delivered]; rewrite N.eqb_refl; reflexivity. }
    destruct (step d o) as [d1 out] eqn:E. cbn [fst snd] in Hlen, Hdel.
    assert (Hdef : out_changes out = [] -> exists ops1, snd (d1, os, acc ++ [o]) = acc ++ ops1 /\
              let os' := snd (fst (d1, os, acc ++ [o])) in
              (exists c, os' = oset os (OHold c) /\ delivered (ov_iid os) d ops1 = [c]) \/
              (delivered (ov_iid os) d ops1 = [] /\ (os' = os \/ exists wr, os' = oset os (OWait wr)))).
    { intros Hoc. exists [o]. split; [reflexivity|]. right. rewrite Hdel, Hoc. cbn. auto. }
    destruct out; try (apply Hdef; reflexivity).
    cbn [out_changes] in Hlen, Hdel.
    destruct l as [|c l].
    + destruct watch_closed.
      * destruct (IH os d1 (acc ++ [o])) as [ops1 [H1 H2]]. exists (o :: ops1).
        rewrite H1, <- app_assoc. split; [reflexivity|]. rewrite Hdel. cbn [app]. exact H2.
      * exists [o]. split; [reflexivity|]. right. rewrite Hdel. cbn. eauto.
    + exists [o]. split; [reflexivity|]. left. exists c. split; [reflexivity|]. rewrite Hdel.
      destruct l; [reflexivity|cbn in Hlen; lia].
Qed.
