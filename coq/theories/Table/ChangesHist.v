(* Table/ChangesHist.v — database histories (C07 + C08): structural invariants of the single-
   goroutine database model (wf), and the retention invariant of one change iterator (RInv): from
   the creation of the iterator on, whatever the iterator may still need stays in the graveyard of
   the committed root and of the open write transaction, across writes, commits, other iterators,
   closes and collection runs (scan and apply arbitrarily far apart). It discharges the per-Next
   hypotheses of Table/ChangesProofs.v for iterators advanced with fresh read transactions. *)
From SV Require Import Base.Bytes Base.OrdMap KeyEnc.Model KeyEnc.Proofs
                       Table.Model Table.InvDefs Table.Proofs Table.GcProofs Table.Inv
                       Table.ChangesStream Table.ChangesIter Table.ChangesProofs Table.ChangesRet.
From Coq Require Import ZifyN ZifyNat ZifyBool.
Open Scope N_scope.
#[local] Opaque rev_key.

(* ---- lists ------------------------------------------------------------------------------------------ *)
Lemma upd_nth_length {A} (f : A -> A) l : forall n, length (upd_nth n f l) = length l.
Proof. induction l as [|x r IH]; intros [|n]; simpl; auto. Qed.

Lemma nth_error_upd_nth_same {A} (f : A -> A) l : forall n x,
  nth_error l n = Some x -> nth_error (upd_nth n f l) n = Some (f x).
Proof. induction l as [|y r IH]; intros [|n] x H; simpl in *; try discriminate; [congruence|auto]. Qed.

Lemma nth_error_upd_nth_other {A} (f : A -> A) l : forall n m,
  n <> m -> nth_error (upd_nth n f l) m = nth_error l m.
Proof. induction l as [|y r IH]; intros [|n] [|m] H; simpl in *; auto; congruence. Qed.

Lemma nth_error_zip_with {A B C} (f : A -> B -> C) l1 : forall l2 n,
  nth_error (zip_with f l1 l2) n =
  match nth_error l1 n, nth_error l2 n with Some a, Some b => Some (f a b) | _, _ => None end.
Proof.
  induction l1 as [|a r1 IH]; intros [|b r2] [|n]; simpl; auto.
  - destruct (nth_error r1 n); reflexivity.
Qed.

Lemma zip_with_length {A B C} (f : A -> B -> C) l1 : forall l2,
  length l1 = length l2 -> length (zip_with f l1 l2) = length l2.
Proof. induction l1 as [|a r1 IH]; intros [|b r2] H; simpl in *; auto; try discriminate. Qed.

Lemma nth_error_some_length {A} (l : list A) n x : nth_error l n = Some x -> (n < length l)%nat.
Proof. intros H. apply nth_error_Some. congruence. Qed.

Lemma nth_error_same_length {A B} (l1 : list A) (l2 : list B) n x :
  length l1 = length l2 -> nth_error l1 n = Some x -> exists y, nth_error l2 n = Some y.
Proof.
  intros Hl H. apply nth_error_some_length in H. rewrite Hl in H.
  destruct (nth_error l2 n) eqn:E; eauto. apply nth_error_None in E. lia.
Qed.

(* OBegin's entries: the root tables with lock flags *)
Lemma begin_entries tabs : forall (es : list (table * bool)) n,
  nth_error (fold_left (fun es i => upd_nth i (fun e => (fst e, true)) es) tabs es) n =
  match nth_error es n with
  | Some (t, b) => Some (t, b || existsb (Nat.eqb n) tabs)
  | None => None
  end.
Proof.
  induction tabs as [|i r IH]; intros es n; cbn [fold_left existsb].
  - destruct (nth_error es n) as [[t b]|]; auto. now rewrite orb_false_r.
  - rewrite IH. destruct (Nat.eqb_spec n i) as [->|Hne].
    + destruct (nth_error es i) as [[t b]|] eqn:E.
      * rewrite (nth_error_upd_nth_same _ _ _ _ E). cbn [fst orb]. now rewrite orb_true_r.
      * assert (nth_error (upd_nth i (fun e => (fst e, true)) es) i = None) as ->; auto.
        apply nth_error_None. rewrite upd_nth_length. now apply nth_error_None.
    + rewrite nth_error_upd_nth_other by auto. cbn [orb]. reflexivity.
Qed.

Lemma begin_length tabs : forall (es : list (table * bool)),
  length (fold_left (fun es i => upd_nth i (fun e => (fst e, true)) es) tabs es) = length es.
Proof. induction tabs as [|i r IH]; intros es; cbn [fold_left]; auto. now rewrite IH, upd_nth_length. Qed.

(* ---- all reachable tables satisfy the table invariant and have revision room --------------------------- *)
Definition tables_ok (d : db) : Prop := all_tables TInv d /\ all_tables rev_room d.

Lemma ok_root d n t : tables_ok d -> nth_error (d_root d) n = Some t -> TInv t /\ rev_room t.
Proof.
  intros [[H1 _] [H2 _]] Hn. apply nth_error_In in Hn. rewrite Forall_forall in H1, H2. auto.
Qed.

Lemma ok_entry d es old n te b : tables_ok d -> d_txn d = Some (es, old) ->
  nth_error es n = Some (te, b) -> TInv te /\ rev_room te.
Proof.
  intros [[_ [H1 _]] [_ [H2 _]]] Ht Hn. apply nth_error_In in Hn.
  destruct (H1 _ _ Ht) as [F1 _], (H2 _ _ Ht) as [F2 _]. rewrite Forall_forall in F1, F2.
  split; [apply (F1 _ Hn)|apply (F2 _ Hn)].
Qed.

(* ---- structural invariant of the database model ---------------------------------------------------------- *)
Record wf (d : db) : Prop := mkWf {
  wf_txn : forall es old, d_txn d = Some (es, old) ->
           old = d_root d /\ length es = length (d_root d) /\
           forall n te b cur, nth_error es n = Some (te, b) -> nth_error (d_root d) n = Some cur ->
                              t_rev cur <= t_rev te;
  wf_gc : forall keys, d_gc d = GGate2 keys ->
          length keys = length (d_root d) /\
          forall n ks cur, nth_error keys n = Some ks -> nth_error (d_root d) n = Some cur ->
                           forall k, In k ks -> exists r, r < B64 /\ k = rev_key r /\ r <= t_rev cur
}.

Lemma wf_init n : wf (init_db n).
Proof. constructor; cbn; intros; discriminate. Qed.

(* ---- what a write operation of the open transaction does --------------------------------------------------- *)
Definition is_write (o : op) : bool :=
  match o with
  | OInsert _ _ | OModify _ _ | OCas _ _ _ | ODelete _ _ | OCad _ _ _ | ODeleteAll _
  | ORegInit _ _ | OInitDone _ _ => true
  | _ => false
  end.

(* relation between a locked entry before and after one write operation *)
Definition wrel (t t' : table) : Prop :=
  t_rev t <= t_rev t' /\ (TInv t -> rev_bound t' -> tstep t t').

Lemma wrel_tstep t t' : t_rev t <= t_rev t' -> (TInv t -> tstep t t') -> wrel t t'.
Proof. intros H1 H2. split; auto. Qed.

Lemma with_locked_spec d tab f a b :
  let d' := fst (with_locked d tab f a b) in
  d' = d \/
  exists es old t, d_txn d = Some (es, old) /\ nth_error es tab = Some (t, true) /\
                   d' = set_txn d (Some (upd_nth tab (fun _ => (fst (f t), true)) es, old)).
Proof.
  unfold with_locked. destruct (d_txn d) as [[es old]|] eqn:E; auto.
  destruct (nth_error es tab) as [[t [|]]|] eqn:E2; auto.
  right. exists es, old, t. destruct (f t) as [t' x]. auto.
Qed.

Definition txn_step (d d' : db) : Prop :=
  d_txn d' = d_txn d \/
  exists tab es old t t', d_txn d = Some (es, old) /\ nth_error es tab = Some (t, true) /\
                          d_txn d' = Some (upd_nth tab (fun _ => (t', true)) es, old) /\ wrel t t'.

Lemma wrel_sem t t' : sem_eq t t' -> t_trackers t' = t_trackers t -> wrel t t'.
Proof. intros Hs Ht. split; [destruct Hs as [-> _]; lia|]. intros _ _. now apply tstep_sem. Qed.

Lemma step_write_spec d o : is_write o = true ->
  let d' := fst (step d o) in
  d_root d' = d_root d /\ d_iters d' = d_iters d /\ d_wm d' = d_wm d /\ d_gc d' = d_gc d /\
  d_snaps d' = d_snaps d /\ txn_step d d'.
Proof.
  assert (Hgen : forall tab f a b, (forall t, wrel t (fst (f t))) ->
            let d' := fst (with_locked d tab f a b) in
            d_root d' = d_root d /\ d_iters d' = d_iters d /\ d_wm d' = d_wm d /\ d_gc d' = d_gc d /\
            d_snaps d' = d_snaps d /\ txn_step d d').
  { intros tab f a b Hf. destruct (with_locked_spec d tab f a b) as [->|[es [old [t [E1 [E2 ->]]]]]].
    - repeat split; auto; now left.
    - cbn. repeat split; auto. right. exists tab, es, old, t, (fst (f t)). auto. }
  destruct o; cbn [is_write]; try discriminate; intros _; cbn [step].
  - apply Hgen. intros t. destruct (modify 0 false p t) as [t' [old e]] eqn:E. cbn [wr fst].
    change t' with (fst (t', (old, e))). rewrite <- E.
    apply wrel_tstep; [apply modify_rev_mono|apply tstep_modify].
  - apply Hgen. intros t. destruct (modify 0 true p t) as [t' [old e]] eqn:E. cbn [wr fst].
    change t' with (fst (t', (old, e))). rewrite <- E.
    apply wrel_tstep; [apply modify_rev_mono|apply tstep_modify].
  - apply Hgen. intros t. destruct (modify guard false p t) as [t' [old e]] eqn:E. cbn [wr fst].
    change t' with (fst (t', (old, e))). rewrite <- E.
    apply wrel_tstep; [apply modify_rev_mono|apply tstep_modify].
  - apply Hgen. intros t. destruct (delete 0 id t) as [t' [old e]] eqn:E. cbn [wr fst].
    change t' with (fst (t', (old, e))). rewrite <- E.
    apply wrel_tstep; [apply delete_rev_mono|apply tstep_delete].
  - apply Hgen. intros t. destruct (delete guard id t) as [t' [old e]] eqn:E. cbn [wr fst].
    change t' with (fst (t', (old, e))). rewrite <- E.
    apply wrel_tstep; [apply delete_rev_mono|apply tstep_delete].
  - (* ODeleteAll *)
    destruct (d_txn d) as [[es old]|] eqn:E; [|repeat split; auto; now left].
    destruct (nth_error es tab) as [[t [|]]|] eqn:E2.
    + apply Hgen. intros t0. cbn [fst]. split; [apply delete_all_rev_mono|apply tstep_delete_all].
    + destruct (t_primary t); repeat split; auto; now left.
    + apply Hgen. intros t0. cbn [fst]. split; [apply delete_all_rev_mono|apply tstep_delete_all].
  - (* ORegInit *)
    match goal with |- context [with_locked d tab ?f ?a ?b] =>
      pose proof (Hgen tab f a b) as Hw; destruct (with_locked d tab f a b) as [d' x] end.
    cbn [fst d_root d_iters d_wm d_gc d_snaps] in *.
    assert (Hx : txn_step d d' -> txn_step d (mkD (d_root d') (d_txn d') (d_snaps d') (d_iters d') (d_wm d')
                   (d_gcchan d') (d_gc d') (d_closedw d') (d_nextw d' + 1))) by (unfold txn_step; cbn; auto).
    destruct Hw as [A [B [C [D [E F]]]]]; [|repeat split; auto].
    intros t. destruct (t_init t) as [[w p]|]; [destruct (existsb (N.eqb name) p)|]; cbn [fst];
      (apply wrel_sem; [repeat split|reflexivity]).
  - (* OInitDone *)
    apply Hgen. intros t. destruct (t_init t) as [[w p]|]; cbn [fst];
      (apply wrel_sem; [repeat split|reflexivity]).
Qed.

(* ---- the collector state only leaves GGate2 through OGcApply ------------------------------------------------ *)
Lemma gc_trigger_gate2 d keys : d_gc (gc_trigger d) = GGate2 keys -> d_gc d = GGate2 keys.
Proof. unfold gc_trigger, gc_settle. cbn. destruct (d_gc d); cbn; auto; discriminate. Qed.

Lemma consume_gate2 l : forall take it d iid keys,
  d_gc (snd (consume take l it d iid)) = GGate2 keys -> d_gc d = GGate2 keys.
Proof.
  induction l as [|[o del] r IH]; intros take it d iid keys; [cbn; auto|].
  rewrite consume_cons. cbv zeta.
  set (d1 := if del then gc_trigger (set_wm d (assoc_set iid (o_rev o) (d_wm d))) else d).
  assert (H1 : d_gc d1 = GGate2 keys -> d_gc d = GGate2 keys).
  { unfold d1. destruct del; auto. intros H. apply gc_trigger_gate2 in H. exact H. }
  destruct take as [[|[|n]]|]; cbn [snd]; auto.
  - specialize (IH (Some (S n)) (advance it (o, del) r) d1 iid keys).
    destruct (consume (Some (S n)) r (advance it (o, del) r) d1 iid) as [[x y] z]. cbn [snd] in *. auto.
  - specialize (IH None (advance it (o, del) r) d1 iid keys).
    destruct (consume None r (advance it (o, del) r) d1 iid) as [[x y] z]. cbn [snd] in *. auto.
Qed.

Lemma wf_frame d d' : d_root d' = d_root d -> d_txn d' = d_txn d ->
  (forall keys, d_gc d' = GGate2 keys -> d_gc d = GGate2 keys) -> wf d -> wf d'.
Proof.
  intros E1 E2 E3 [W1 W2]. constructor.
  - intros es old H. rewrite E2 in H. rewrite E1. auto.
  - intros keys H. rewrite E1. auto.
Qed.

Lemma fin_rev (t : table) :
  t_rev (match t_init t with
         | Some (w, []) => mkT (t_rev t) (t_primary t) (t_revidx t) (t_grave t) (t_graverev t)
                               (t_u t) (t_n t) (t_lu t) (t_ln t) (t_trackers t) None
         | _ => t end) = t_rev t.
Proof. destruct (t_init t) as [[w [|]]|]; reflexivity. Qed.

Lemma wf_step d o : wf d -> tables_ok d -> wf (fst (step d o)).
Proof.
  intros HW HOK. pose proof HW as [W1 W2].
  destruct (is_write o) eqn:Hw.
  { destruct (step_write_spec d o Hw) as [A [_ [_ [B [_ C]]]]]. cbv zeta in *.
    constructor.
    - intros es' old' H. rewrite A.
      destruct C as [C|[tab [es [old [t [t' [E1 [E2 [E3 [Hr _]]]]]]]]]].
      + rewrite C in H. auto.
      + rewrite E3 in H. injection H as <- <-. destruct (W1 _ _ E1) as [Ho [Hl Hn]].
        split; auto. split; [now rewrite upd_nth_length|].
        intros n te b cur Hn1 Hn2. destruct (Nat.eq_dec tab n) as [->|Hne].
        * rewrite (nth_error_upd_nth_same _ _ _ _ E2) in Hn1. injection Hn1 as <- <-.
          specialize (Hn _ _ _ _ E2 Hn2). lia.
        * rewrite nth_error_upd_nth_other in Hn1 by auto. eauto.
    - intros keys H. rewrite B in H. rewrite A. auto. }
  destruct o; cbn [is_write] in Hw; try discriminate; cbn [step].
  - (* OBegin *)
    destruct (d_txn d) eqn:Et; [exact HW|]. cbn [fst]. constructor; cbn [set_txn d_txn d_root d_gc].
    + intros es old H. injection H as <- <-. split; auto.
      split; [now rewrite begin_length, map_length|].
      intros n te b cur H1 H2. rewrite begin_entries in H1.
      rewrite nth_error_map, H2 in H1. cbn in H1. injection H1 as <- _. lia.
    + exact W2.
  - (* OCommit *)
    destruct (d_txn d) as [[es old]|] eqn:Et; [|exact HW]. cbn [fst].
    destruct (W1 _ _ eq_refl) as [Ho [Hl Hn]].
    constructor; cbn [d_txn d_root d_gc]; [discriminate|].
    intros keys H. destruct (W2 _ H) as [Hk1 Hk2]. split; [now rewrite zip_with_length|].
    intros n ks cur' H1 H2 k Hk. rewrite nth_error_zip_with in H2.
    destruct (nth_error es n) as [[te b]|] eqn:En; [|discriminate].
    destruct (nth_error (d_root d) n) as [cur|] eqn:Ec; [|discriminate].
    destruct (Hk2 _ _ _ H1 Ec _ Hk) as [r [R1 [R2 R3]]]. exists r. repeat split; auto.
    injection H2 as <-. destruct b; [|exact R3]. rewrite fin_rev. specialize (Hn _ _ _ _ En Ec). lia.
  - (* OAbort *)
    destruct (d_txn d) eqn:Et; [|exact HW]. cbn [fst]. constructor; cbn; [discriminate|exact W2].
  - (* OSnap *) cbn [fst]. apply (wf_frame d); auto.
  - (* OQuery *)
    destruct (src_root d s); [|exact HW]. destruct (nth_error l tab); exact HW.
  - (* OChanges *)
    destruct (d_txn d) as [[es old]|] eqn:Et; [|exact HW].
    destruct (nth_error es tab) as [[t [|]]|] eqn:E2; try exact HW.
    destruct (nth_error old tab) as [told|]; [|exact HW]. cbn [fst].
    destruct (W1 _ _ eq_refl) as [Ho [Hl Hn]].
    constructor; cbn [set_iters set_wm set_txn d_txn d_root d_gc]; [|exact W2].
    intros es' old' H. injection H as <- <-. split; auto. split; [now rewrite upd_nth_length|].
    intros n te b cur Hn1 Hn2. destruct (Nat.eq_dec tab n) as [->|Hne].
    + rewrite (nth_error_upd_nth_same _ _ _ _ E2) in Hn1. injection Hn1 as <- <-. cbn. eauto.
    + rewrite nth_error_upd_nth_other in Hn1 by auto. eauto.
  - (* ONext *)
    destruct (assoc iid (d_iters d)) as [it|]; [|exact HW].
    destruct (src_committed d s) as [rt|]; [|exact HW].
    destruct (nth_error rt (it_tab it)) as [t|]; [|exact HW].
    destruct (nth_error (d_root d) (it_tab it)) as [cur|]; [|exact HW].
    match goal with |- context [if ?c then _ else _] => destruct c end; [exact HW|].
    match goal with |- context [consume ?a ?b ?c ?dd ?e] =>
      pose proof (consume_frame b a c dd e) as Hc; pose proof (consume_gate2 b a c dd e) as Hg;
      destruct (consume a b c dd e) as [[x y] z] end.
    cbn [snd fst] in *. destruct Hc as [A [B _]]. apply (wf_frame d); auto.
  - (* OResume *)
    destruct (assoc iid (d_iters d)) as [it|]; [|exact HW].
    destruct (it_pending it) as [l|]; [|exact HW]. destruct (it_seq it); [|exact HW].
    match goal with |- context [consume ?a ?b ?c ?dd ?e] =>
      pose proof (consume_frame b a c dd e) as Hc; pose proof (consume_gate2 b a c dd e) as Hg;
      destruct (consume a b c dd e) as [[x y] z] end.
    cbn [snd fst] in *. destruct Hc as [A [B _]]. apply (wf_frame d); auto.
  - (* OClose *)
    destruct (assoc iid (d_iters d)) as [it|]; [|exact HW]. destruct (d_txn d) eqn:Et; [exact HW|].
    cbn [fst].
    match goal with |- wf (gc_trigger ?x) => destruct (gc_trigger_frame x) as [A [B _]];
      pose proof (gc_trigger_gate2 x) as Hg; set (dx := x) in * end.
    constructor.
    + intros es old H. rewrite B in H. cbn in H. congruence.
    + intros keys H. apply Hg in H. cbn in H. destruct (W2 _ H) as [Hk1 Hk2]. rewrite A. cbn [dx set_iters set_root d_root].
      split; [now rewrite upd_nth_length|].
      intros n ks cur' H1 H2 k Hk.
      destruct (Nat.eq_dec (it_tab it) n) as [<-|Hne].
      * destruct (nth_error (d_root d) (it_tab it)) as [cur|] eqn:Ec.
        -- rewrite (nth_error_upd_nth_same _ _ _ _ Ec) in H2. injection H2 as <-. cbn. eauto.
        -- exfalso. assert (Hx : nth_error (upd_nth (it_tab it) (fun t => mkT (t_rev t) (t_primary t) (t_revidx t) (t_grave t) (t_graverev t)
                 (t_u t) (t_n t) (t_lu t) (t_ln t) (filter (fun x => negb (x =? iid)) (t_trackers t)) (t_init t)) (d_root d)) (it_tab it) = None).
           { apply nth_error_None. rewrite upd_nth_length. now apply nth_error_None. }
           congruence.
      * rewrite nth_error_upd_nth_other in H2 by auto. eauto.
  - (* OGcScan *)
    destruct (d_gc d) eqn:Eg; try exact HW. cbn [fst]. constructor; cbn [set_gc d_txn d_gc d_root]; [exact W1|].
    intros keys H. injection H as <-. split; [now rewrite map_length|].
    intros n ks cur H1 H2 k Hk. rewrite nth_error_map, H2 in H1. cbn in H1. injection H1 as <-.
    destruct (ok_root _ _ _ HOK H2) as [HI HR].
    destruct (gc_scan_only_observed _ _ _ Hk) as [o [Hin [Hle _]]].
    apply (ti_graverev cur HI) in Hin. destruct Hin as [-> Hd]. exists (o_rev o). repeat split; auto.
    unfold rev_room, B64 in *. lia.
  - (* OGcApply *)
    destruct (d_gc d) eqn:Eg; try exact HW. destruct (d_txn d) eqn:Et; [exact HW|]. cbn [fst].
    constructor.
    + intros es old H. unfold gc_settle in H. cbn in H. destruct (d_gcchan d); cbn in H; congruence.
    + intros keys0 H. unfold gc_settle in H. cbn in H. destruct (d_gcchan d); cbn in H; discriminate.
Qed.

(* ---- the retention invariant of iterator iid on table tab ----------------------------------------------------- *)
Section Ret.
Variables (iid : N) (tab : nat).

Definition reg (t : table) : Prop := In iid (t_trackers t).

(* G: the table the iterator last refreshed from (at creation: the creating transaction's table);
   cur: the committed root's table; D = the tracker's watermark = the iterator's delete cursor *)
Record rinv (G : table) (d : db) (it : iter) (cur : table) : Prop := mkRinv {
  ri_tab : it_tab it = tab;
  ri_wm : assoc iid (d_wm d) = Some (it_delrev it);
  ri_dle : it_delrev it <= t_rev G;
  ri_tinv : TInv G;
  (* a pending collection (scanned, not yet applied) only holds keys at or below the watermark *)
  ri_gc : forall keys ks, d_gc d = GGate2 keys -> nth_error keys tab = Some ks ->
          forall k, In k ks -> exists r, r < B64 /\ k = rev_key r /\ r <= it_delrev it;
  ri_phase :
    (* the tracker is registered in the committed root *)
    (reg cur /\ tab_le G cur /\ retained G cur (it_delrev it) /\
     forall es old te, d_txn d = Some (es, old) -> nth_error es tab = Some (te, true) ->
                       reg te /\ tab_le cur te /\ retained cur te (it_delrev it))
    \/
    (* the creating transaction is still open *)
    (~ reg cur /\ it_seq it = false /\ t_rev cur <= it_delrev it /\
     exists es old te, d_txn d = Some (es, old) /\ nth_error es tab = Some (te, true) /\
                       reg te /\ tab_le G te /\ retained G te (it_delrev it))
}.

Definition RInv (G : table) (d : db) : Prop :=
  forall it, assoc iid (d_iters d) = Some it ->
  exists cur, nth_error (d_root d) tab = Some cur /\ rinv G d it cur.

(* a locked entry before / after, as far as the iterator is concerned *)
Definition tev (t t' : table) : Prop :=
  reg t -> reg t' /\ tab_le t t' /\ forall A D, D <= t_rev t -> retained A t D -> retained A t' D.

Lemma tev_of_tstep t t' : tstep t t' -> tev t t'.
Proof.
  intros [E [L R]] Hr. split; [unfold reg; now rewrite E|]. split; auto.
  intros A D HD. apply R; auto. intros Hn. unfold reg in Hr. rewrite Hn in Hr. destruct Hr.
Qed.

Definition txn_ev (d d' : db) : Prop :=
  d_txn d' = d_txn d \/
  exists tab' es old t t', d_txn d = Some (es, old) /\ nth_error es tab' = Some (t, true) /\
                           d_txn d' = Some (upd_nth tab' (fun _ => (t', true)) es, old) /\ tev t t'.

(* operations confined to the open transaction, other iterators, snapshots, queries *)
Lemma RInv_frame G d d' :
  d_root d' = d_root d ->
  assoc iid (d_iters d') = assoc iid (d_iters d) -> assoc iid (d_wm d') = assoc iid (d_wm d) ->
  (forall keys, d_gc d' = GGate2 keys -> d_gc d = GGate2 keys) ->
  txn_ev d d' -> tables_ok d -> RInv G d -> RInv G d'.
Proof.
  intros Er Ei Ew Eg Et HOK HR it Hi. rewrite Ei in Hi. destruct (HR it Hi) as [cur [Hc [R1 R2 R3 R3' R4 R5]]].
  exists cur. split; [now rewrite Er|]. constructor; auto; [now rewrite Ew|eauto|].
  destruct (ok_root _ _ _ HOK Hc) as [HIc _].
  destruct R5 as [[P1 [P2 [P3 P4]]]|[P1 [P2 [P3 [es [old [te [Q1 [Q2 [Q3 [Q4 Q5]]]]]]]]]]].
  - left. split; [exact P1|]. split; [exact P2|]. split; [exact P3|]. intros es' old' te' H H0.
    destruct Et as [Et|[tab' [es [old [t [t' [E1 [E2 [E3 Hev]]]]]]]]].
    + rewrite Et in H. exact (P4 _ _ _ H H0).
    + rewrite E3 in H. injection H as <- <-.
      destruct (Nat.eq_dec tab' tab) as [->|Hne].
      * rewrite (nth_error_upd_nth_same _ _ _ _ E2) in H0. injection H0 as <-.
        destruct (P4 _ _ _ E1 E2) as [A [B C]]. destruct (Hev A) as [A' [L Rr]].
        split; [exact A'|]. split; [eapply tab_le_trans; eauto|].
        apply Rr; auto. destruct P2 as [X _], B as [Y _]. lia.
      * rewrite nth_error_upd_nth_other in H0 by auto. exact (P4 _ _ _ E1 H0).
  - right. split; [exact P1|]. split; [exact P2|]. split; [exact P3|].
    destruct Et as [Et|[tab' [es0 [old0 [t [t' [E1 [E2 [E3 Hev]]]]]]]]].
    + exists es, old, te. rewrite Et. split; [|split; [|split; [|split]]]; auto.
    + rewrite Q1 in E1. injection E1 as <- <-.
      destruct (Nat.eq_dec tab' tab) as [->|Hne].
      * rewrite Q2 in E2. injection E2 as <-. destruct (Hev Q3) as [A [B C]].
        exists (upd_nth tab (fun _ => (t', true)) es), old, t'. rewrite E3.
        rewrite (nth_error_upd_nth_same _ _ _ _ Q2). split; [|split; [|split; [|split]]]; auto.
        -- eapply tab_le_trans; eauto.
        -- apply C; auto. destruct Q4 as [X _]. lia.
      * exists (upd_nth tab' (fun _ => (t', true)) es), old, te. rewrite E3.
        rewrite nth_error_upd_nth_other by auto. split; [|split; [|split; [|split]]]; auto.
Qed.

(* consume moves only the watermark of its own tracker, to the iterator's delete cursor *)
Lemma consume_wm l j : forall take it d out it' d',
  consume take l it d j = (out, it', d') ->
  (forall i, i <> j -> assoc i (d_wm d') = assoc i (d_wm d)) /\
  (assoc j (d_wm d) = Some (it_delrev it) -> assoc j (d_wm d') = Some (it_delrev it')).
Proof.
  induction l as [|[o del] r IH]; intros take it d out it' d' Hc.
  - cbn in Hc. injection Hc as _ <- <-. split; auto.
  - rewrite consume_cons in Hc. cbv zeta in Hc.
    set (it1 := advance it (o, del) r) in *.
    set (d1 := if del then gc_trigger (set_wm d (assoc_set j (o_rev o) (d_wm d))) else d) in *.
    assert (H1 : (forall i, i <> j -> assoc i (d_wm d1) = assoc i (d_wm d)) /\
                 (assoc j (d_wm d) = Some (it_delrev it) -> assoc j (d_wm d1) = Some (it_delrev it1))).
    { unfold d1, it1, advance. cbn [snd fst]. destruct del; [|split; auto].
      destruct (gc_trigger_frame (set_wm d (assoc_set j (o_rev o) (d_wm d)))) as [_ [_ [_ [_ [-> _]]]]].
      cbn [set_wm d_wm it_delrev]. split.
      - intros i Hi. now apply assoc_set_other.
      - intros _. apply assoc_set_same. }
    destruct H1 as [A1 B1].
    destruct take as [[|[|n]]|].
    + injection Hc as _ <- <-. split; auto.
    + injection Hc as _ <- <-. split; auto.
    + destruct (consume (Some (S n)) r it1 d1 j) as [[out2 it2] d2] eqn:E. injection Hc as _ <- <-.
      destruct (IH _ _ _ _ _ _ E) as [A2 B2]. split; [intros i Hi; rewrite A2, A1; auto|auto].
    + destruct (consume None r it1 d1 j) as [[out2 it2] d2] eqn:E. injection Hc as _ <- <-.
      destruct (IH _ _ _ _ _ _ E) as [A2 B2]. split; [intros i Hi; rewrite A2, A1; auto|auto].
Qed.

Definition fin (t : table) : table :=
  match t_init t with
  | Some (w, []) => mkT (t_rev t) (t_primary t) (t_revidx t) (t_grave t) (t_graverev t)
                        (t_u t) (t_n t) (t_lu t) (t_ln t) (t_trackers t) None
  | _ => t
  end.

Lemma fin_sem t : sem_eq t (fin t) /\ t_trackers (fin t) = t_trackers t.
Proof. unfold fin. destruct (t_init t) as [[w [|]]|]; repeat split. Qed.

Lemma in_filter_neq j (l : list N) : iid <> j -> (In iid (filter (fun x => negb (x =? j)) l) <-> In iid l).
Proof.
  intros Hne. rewrite filter_In. split; [tauto|]. intros H. split; auto.
  destruct (N.eqb_spec iid j); [congruence|reflexivity].
Qed.

Lemma txn_ev_of_step d d' : txn_step d d' -> tables_ok d -> tables_ok d' -> txn_ev d d'.
Proof.
  intros [H|[tab' [es [old [t [t' [E1 [E2 [E3 [_ Hw]]]]]]]]]] HOK HOK'; [now left|].
  right. exists tab', es, old, t, t'. split; [|split; [|split]]; auto. apply tev_of_tstep. apply Hw.
  - exact (proj1 (ok_entry _ _ _ _ _ _ HOK E1 E2)).
  - apply rev_room_bound.
    exact (proj2 (ok_entry _ _ _ _ _ _ HOK' E3 (nth_error_upd_nth_same _ _ _ _ E2))).
Qed.

(* what the user of iterator iid owes for the discharged theorems: the id is not re-used, Next is
   called with a fresh read transaction (or the current write transaction) and only once the
   creating transaction has committed, and the creating transaction is not aborted *)
Definition reg_root (d : db) : Prop := exists cur, nth_error (d_root d) tab = Some cur /\ reg cur.
Definition friendly (d : db) (o : op) : Prop :=
  match o with
  | OChanges i _ => i <> iid
  | ONext i s _ => i = iid -> (s = SFresh \/ s = STxn) /\ reg_root d
  | OAbort => assoc iid (d_iters d) <> None -> reg_root d
  | _ => True
  end.

Lemma gstep_other g d o : touches iid o = false -> gstep iid g d o = g.
Proof. destruct o; cbn [gstep touches]; auto; intros ->; reflexivity. Qed.

(* ---- RInv, operation by operation -------------------------------------------------------------------------------- *)
Lemma RInv_write G d o : is_write o = true -> tables_ok d -> tables_ok (fst (step d o)) ->
  RInv G d -> RInv G (fst (step d o)).
Proof.
  intros Hw HOK HOK'. destruct (step_write_spec d o Hw) as [A [B [C [D [_ E]]]]]. cbv zeta in *.
  apply RInv_frame; auto; [now rewrite B|now rewrite C|intros keys; now rewrite D|].
  apply txn_ev_of_step; auto.
Qed.

Lemma RInv_begin G d tabs : RInv G d -> RInv G (fst (step d (OBegin tabs))).
Proof.
  intros HR. cbn [step]. destruct (d_txn d) eqn:Et; [exact HR|]. cbn [fst].
  intros it Hi. cbn [set_txn d_iters] in Hi. destruct (HR it Hi) as [cur [Hc [R1 R2 R3 R3' R4 R5]]].
  exists cur. split; [exact Hc|]. constructor; auto.
  destruct R5 as [[P1 [P2 [P3 P4]]]|[_ [_ [_ [es [old [te [Q1 _]]]]]]]]; [|congruence].
  left. split; [exact P1|]. split; [exact P2|]. split; [exact P3|].
  intros es old te H H0. cbn [set_txn d_txn] in H. injection H as <- <-.
  rewrite begin_entries, nth_error_map, Hc in H0. cbn in H0. injection H0 as <- _.
  split; [exact P1|]. split; [apply tab_le_refl|apply retained_refl].
Qed.

Lemma RInv_commit G d sid : wf d -> tables_ok d -> RInv G d -> RInv G (fst (step d (OCommit sid))).
Proof.
  intros [W1 _] HOK HR. cbn [step]. destruct (d_txn d) as [[es old]|] eqn:Et; [|exact HR]. cbn [fst].
  destruct (W1 _ _ eq_refl) as [_ [Hl _]].
  intros it Hi. cbn [d_iters] in Hi. destruct (HR it Hi) as [cur [Hc [R1 R2 R3 R3' R4 R5]]].
  destruct (nth_error_same_length _ es _ _ (eq_sym Hl) Hc) as [[te b] He].
  destruct (ok_root _ _ _ HOK Hc) as [HIc _].
  fold fin. cbn [d_root]. rewrite nth_error_zip_with, He, Hc.
  destruct R5 as [[P1 [P2 [P3 P4]]]|[P1 [P2 [P3 [es0 [old0 [te0 [Q1 [Q2 [Q3 [Q4 Q5]]]]]]]]]]].
  - destruct b.
    + destruct (P4 _ _ _ Et He) as [A [B C]]. destruct (fin_sem te) as [Hs Htr].
      exists (fin te). split; [reflexivity|]. constructor; auto. left.
      split; [unfold reg; now rewrite Htr|].
      split; [eapply tab_le_sem_r; eauto; eapply tab_le_trans; eauto|].
      split; [eapply retained_sem_r; eauto; eapply retained_trans; eauto|].
      intros ? ? ? H. cbn in H. discriminate.
    + exists cur. split; [reflexivity|]. constructor; auto. left.
      split; [exact P1|]. split; [exact P2|]. split; [exact P3|]. intros ? ? ? H. cbn in H. discriminate.
  - rewrite Et in Q1. injection Q1 as <- <-. rewrite He in Q2. injection Q2 as <- ->. destruct (fin_sem te) as [Hs Htr].
    exists (fin te). split; [reflexivity|]. constructor; auto. left.
    split; [unfold reg; now rewrite Htr|].
    split; [eapply tab_le_sem_r; eauto|]. split; [eapply retained_sem_r; eauto|].
    intros ? ? ? H. cbn in H. discriminate.
Qed.

Lemma RInv_abort G d : friendly d OAbort -> RInv G d -> RInv G (fst (step d OAbort)).
Proof.
  intros Hf HR. cbn [step]. destruct (d_txn d) eqn:Et; [|exact HR]. cbn [fst].
  intros it Hi. cbn [set_txn d_iters] in Hi. destruct (HR it Hi) as [cur [Hc [R1 R2 R3 R3' R4 R5]]].
  exists cur. split; [exact Hc|]. constructor; auto.
  destruct R5 as [[P1 [P2 [P3 P4]]]|[P1 _]].
  - left. split; [exact P1|]. split; [exact P2|]. split; [exact P3|]. intros ? ? ? H. cbn in H. discriminate.
  - exfalso. cbn [friendly] in Hf. destruct Hf as [cur' [Hc' Hr]]; [congruence|]. congruence.
Qed.

Lemma RInv_changes G d j tab' : j <> iid -> tables_ok d -> RInv G d -> RInv G (fst (step d (OChanges j tab'))).
Proof.
  intros Hne HOK HR. cbn [step].
  destruct (d_txn d) as [[es old]|] eqn:Et; [|exact HR].
  destruct (nth_error es tab') as [[t [|]]|] eqn:E2; try exact HR.
  destruct (nth_error old tab') as [told|]; [|exact HR]. cbn [fst].
  apply (RInv_frame G d); auto; cbn [set_iters set_wm set_txn d_root d_iters d_wm d_gc d_txn].
  - apply assoc_set_other. congruence.
  - apply assoc_set_other. congruence.
  - right. exists tab', es, old, t. eexists. split; [exact Et|]. split; [exact E2|]. split; [reflexivity|].
    intros Hr. split; [unfold reg; cbn; apply in_or_app; now left|].
    split; [apply (tab_le_sem_r t t); [repeat split|apply tab_le_refl]|].
    intros A D _ H. eapply retained_sem_r; eauto. repeat split.
Qed.

Lemma RInv_other G d o : touches iid o = false ->
  match o with ONext _ _ _ | OResume _ _ => True | _ => False end ->
  tables_ok d -> RInv G d -> RInv G (fst (step d o)).
Proof.
  intros Ht Hk HOK HR. pose proof (step_iters_frame d o iid Ht) as Hit.
  destruct o; try contradiction; cbn [touches] in Ht; cbn [step] in *.
  - (* ONext *)
    destruct (assoc iid0 (d_iters d)) as [it|]; [|exact HR].
    destruct (src_committed d s) as [rt|]; [|exact HR].
    destruct (nth_error rt (it_tab it)) as [t|]; [|exact HR].
    destruct (nth_error (d_root d) (it_tab it)) as [cur|]; [|exact HR].
    match goal with |- context [if ?c then _ else _] => destruct c end; [exact HR|].
    match goal with |- context [consume ?a ?b ?c ?dd ?e] =>
      pose proof (consume_frame b a c dd e) as Hc; pose proof (consume_gate2 b a c dd e) as Hg;
      pose proof (consume_wm b e a c dd) as Hw;
      destruct (consume a b c dd e) as [[x y] z] end.
    cbn [snd fst] in *. destruct Hc as [A [B _]]. destruct (Hw _ _ _ eq_refl) as [Hw1 _].
    apply (RInv_frame G d); auto; cbn [set_iters d_root d_wm d_gc d_txn]; auto.
    + apply Hw1. intros ->. now rewrite N.eqb_refl in Ht.
    + left. exact B.
  - (* OResume *)
    destruct (assoc iid0 (d_iters d)) as [it|]; [|exact HR].
    destruct (it_pending it) as [l|]; [|exact HR]. destruct (it_seq it); [|exact HR].
    match goal with |- context [consume ?a ?b ?c ?dd ?e] =>
      pose proof (consume_frame b a c dd e) as Hc; pose proof (consume_gate2 b a c dd e) as Hg;
      pose proof (consume_wm b e a c dd) as Hw;
      destruct (consume a b c dd e) as [[x y] z] end.
    cbn [snd fst] in *. destruct Hc as [A [B _]]. destruct (Hw _ _ _ eq_refl) as [Hw1 _].
    apply (RInv_frame G d); auto; cbn [set_iters d_root d_wm d_gc d_txn]; auto.
    + apply Hw1. intros ->. now rewrite N.eqb_refl in Ht.
    + left. exact B.
Qed.

Lemma RInv_close G d j : j <> iid -> RInv G d -> RInv G (fst (step d (OClose j))).
Proof.
  intros Hne HR. assert (Ht : touches iid (OClose j) = false) by (cbn; now apply N.eqb_neq).
  pose proof (step_iters_frame d _ iid Ht) as Hit. cbn [step] in *.
  destruct (assoc j (d_iters d)) as [itj|]; [|exact HR]. destruct (d_txn d) eqn:Et; [exact HR|].
  cbn [fst] in *.
  match goal with |- RInv G (gc_trigger ?x) => destruct (gc_trigger_frame x) as [A [B [_ [_ [C _]]]]];
    pose proof (gc_trigger_gate2 x) as Hg; set (dx := x) in * end.
  intros it Hi. rewrite Hit in Hi. destruct (HR it Hi) as [cur [Hc [R1 R2 R3 R3' R4 R5]]].
  set (mt := fun t => mkT (t_rev t) (t_primary t) (t_revidx t) (t_grave t) (t_graverev t) (t_u t) (t_n t) (t_lu t) (t_ln t)
                         (filter (fun x => negb (x =? j)) (t_trackers t)) (t_init t)) in *.
  assert (Hcur : exists cur', nth_error (d_root (gc_trigger dx)) tab = Some cur' /\ sem_eq cur cur' /\ (reg cur' <-> reg cur)).
  { rewrite A. cbn [dx set_iters set_root d_root]. destruct (Nat.eq_dec (it_tab itj) tab) as [E|E].
    - rewrite E. rewrite (nth_error_upd_nth_same _ _ _ _ Hc). exists (mt cur). split; auto. split; [repeat split|].
      unfold reg, mt. cbn [t_trackers]. apply in_filter_neq. congruence.
    - rewrite nth_error_upd_nth_other by auto. exists cur. split; auto. split; [apply sem_eq_refl|tauto]. }
  destruct Hcur as [cur' [Hc' [Hs Hr]]]. exists cur'. split; [exact Hc'|].
  constructor; auto.
  - rewrite C. exact R2.
  - intros keys ks H. apply Hg in H. cbn in H. eauto.
  - destruct R5 as [[P1 [P2 [P3 P4]]]|[_ [_ [_ [es [old [te [Q1 _]]]]]]]]; [|congruence].
    left. split; [now apply Hr|]. split; [eapply tab_le_sem_r; eauto|]. split; [eapply retained_sem_r; eauto|].
    intros ? ? ? H. rewrite B in H. cbn in H. congruence.
Qed.

Lemma RInv_scan G d : tables_ok d -> RInv G d -> RInv G (fst (step d OGcScan)).
Proof.
  intros HOK HR. cbn [step]. destruct (d_gc d) eqn:Eg; try exact HR. cbn [fst].
  intros it Hi. cbn [set_gc d_iters] in Hi. destruct (HR it Hi) as [cur [Hc [R1 R2 R3 R3' R4 R5]]].
  exists cur. split; [exact Hc|]. constructor; auto.
  intros keys ks H H1 k Hk. cbn [set_gc d_gc] in H. injection H as <-.
  rewrite nth_error_map, Hc in H1. cbn in H1. injection H1 as <-.
  destruct (ok_root _ _ _ HOK Hc) as [HI HRm].
  destruct (gc_scan_only_observed _ _ _ Hk) as [o [Hin [Hle Hall]]].
  apply (ti_graverev cur HI) in Hin. destruct Hin as [-> Hd]. exists (o_rev o).
  split; [unfold rev_room, B64 in *; lia|]. split; [reflexivity|].
  destruct R5 as [[P1 _]|[_ [_ [P3 _]]]]; [|lia].
  exact (Hall iid _ P1 R2).
Qed.

Lemma RInv_apply G d : wf d -> tables_ok d -> RInv G d -> RInv G (fst (step d OGcApply)).
Proof.
  intros [_ W2] HOK HR. cbn [step]. destruct (d_gc d) eqn:Eg; try exact HR.
  destruct (d_txn d) eqn:Et; [exact HR|]. cbn [fst].
  destruct (W2 _ eq_refl) as [Hl _].
  intros it Hi.
  assert (Hi0 : assoc iid (d_iters d) = Some it).
  { revert Hi. unfold gc_settle. cbn. destruct (d_gcchan d); cbn; auto. }
  destruct (HR it Hi0) as [cur [Hc [R1 R2 R3 R3' R4 R5]]].
  destruct (nth_error_same_length _ keys _ _ (eq_sym Hl) Hc) as [ks Hk].
  destruct (ok_root _ _ _ HOK Hc) as [HI HRm].
  exists (gc_apply_table ks cur). split.
  { unfold gc_settle. cbn. destruct (d_gcchan d); cbn; rewrite nth_error_zip_with, Hk, Hc; reflexivity. }
  assert (Hwm : d_wm (gc_settle (set_gc (set_root d (zip_with gc_apply_table keys (d_root d))) GIdle)) = d_wm d).
  { unfold gc_settle. cbn. destruct (d_gcchan d); reflexivity. }
  assert (Htx : d_txn (gc_settle (set_gc (set_root d (zip_with gc_apply_table keys (d_root d))) GIdle)) = None).
  { unfold gc_settle. cbn. destruct (d_gcchan d); cbn; exact Et. }
  constructor; auto.
  - now rewrite Hwm.
  - intros keys0 ks0 H. exfalso. revert H. unfold gc_settle. cbn. destruct (d_gcchan d); cbn; discriminate.
  - destruct R5 as [[P1 [P2 [P3 P4]]]|[_ [_ [_ [es [old [te [Q1 _]]]]]]]]; [|congruence].
    left. split; [unfold reg; now rewrite (proj2 (proj2 (gc_apply_sem_live ks cur)))|].
    split; [now apply tab_le_gc_apply|].
    split; [apply retained_gc_apply; auto; [now apply rev_room_bound|]; intros k Hin; eapply R4; eauto|].
    intros ? ? ? H. rewrite Htx in H. discriminate.
Qed.

(* Next / Resume of iid itself: the watermark moves to the new delete cursor *)
Lemma RInv_resume_self G d take it acc : tables_ok d ->
  assoc iid (d_iters d) = Some it -> oinv G it acc ->
  RInv G d -> RInv G (fst (step d (OResume iid take))).
Proof.
  intros HOK Hi HO HR. cbn [step]. rewrite Hi.
  destruct (it_pending it) as [l|] eqn:Hp; [|exact HR]. destruct (it_seq it) eqn:Hs; [|exact HR].
  destruct (consume take l it d iid) as [[out it2] d2] eqn:Ec. cbn [fst].
  destruct (consume_inv G l take it d iid acc out it2 d2 HO Hp Hs Ec) as [HO2 [_ [Htab [_ Hmono]]]].
  pose proof (consume_frame l take it d iid) as Hf. pose proof (consume_gate2 l take it d iid) as Hg.
  destruct (consume_wm l iid take it d out it2 d2 Ec) as [_ Hw]. rewrite Ec in Hf, Hg. cbn [snd] in Hf, Hg.
  destruct Hf as [F1 [F2 _]].
  intros it' Hi'. cbn [set_iters d_iters] in Hi'. rewrite assoc_set_same in Hi'. injection Hi' as <-.
  destruct (HR it Hi) as [cur [Hc [R1 R2 R3 R3' R4 R5]]].
  destruct (ok_root _ _ _ HOK Hc) as [HIc _].
  pose proof (oi_dle _ _ _ HO2) as Hdle.
  exists cur. split; [cbn [set_iters d_root]; now rewrite F1|].
  constructor; cbn [set_iters d_wm d_gc d_txn]; auto.
  - congruence.
  - intros keys ks H H1 k Hk. apply Hg in H. destruct (R4 _ _ H H1 _ Hk) as [r [A [B C]]]. exists r. repeat split; auto. lia.
  - destruct R5 as [[P1 [P2 [P3 P4]]]|[_ [Q _]]]; [|congruence].
    left. split; [exact P1|]. split; [exact P2|].
    split; [apply (retained_raise G cur (it_delrev it)); auto|].
    intros es old te H H0. rewrite F2 in H. destruct (P4 _ _ _ H H0) as [A [B C]].
    split; [exact A|]. split; [exact B|].
    apply (retained_raise cur te (it_delrev it)); auto. destruct P2 as [X _]. lia.
Qed.

Lemma RInv_next_self G d s take it acc : wf d -> tables_ok d ->
  assoc iid (d_iters d) = Some it -> oinv G it acc -> friendly d (ONext iid s take) ->
  RInv G d ->
  RInv (match next_source d iid s with Some T => T | None => G end) (fst (step d (ONext iid s take))) /\
  (forall T, next_source d iid s = Some T ->
     tab_le G T /\ TInv T /\ rev_room T /\ retained G T (it_delrev it)).
Proof.
  intros [W1 _] HOK Hi HO Hf HR. cbn [friendly] in Hf. destruct (Hf eq_refl) as [Hs [cur0 [Hc0 Hreg]]].
  destruct (next_source d iid s) as [T|] eqn:Hn.
  2:{ destruct (step_next_none d iid s take Hn) as [-> _]. split; [exact HR|discriminate]. }
  destruct (HR it Hi) as [cur [Hc [R1 R2 R3 R3' R4 R5]]].
  assert (cur0 = cur) by congruence. subst cur0.
  destruct R5 as [[P1 [P2 [P3 P4]]]|[Q _]]; [|contradiction].
  destruct (ok_root _ _ _ HOK Hc) as [HIc HRc].
  assert (HT : T = cur).
  { unfold next_source in Hn. rewrite Hi in Hn.
    assert (Hsc : src_committed d s = Some (d_root d) \/ src_committed d s = None).
    { destruct Hs as [->| ->]; cbn; auto. destruct (d_txn d) as [[es old]|] eqn:Et; auto.
      destruct (W1 _ _ eq_refl) as [-> _]. auto. }
    destruct Hsc as [Hsc|Hsc]; rewrite Hsc in Hn; [|discriminate].
    rewrite R1, Hc in Hn.
    match type of Hn with (if ?c then _ else _) = _ => destruct c end; congruence. }
  subst T. split; [|intros T HT; injection HT as <-; auto].
  destruct (next_iter_pending cur it) as [l Hl].
  rewrite (step_next_some d iid s take it cur Hi Hn l Hl).
  pose proof (oinv_refresh _ _ _ _ HO P2 HIc HRc) as HO1.
  destruct (consume take l (next_iter cur it) d iid) as [[out it2] d2] eqn:Ec. cbn [fst].
  destruct (consume_inv cur l take _ d iid acc out it2 d2 HO1 Hl eq_refl Ec) as [HO2 [_ [Htab [_ Hmono]]]].
  pose proof (consume_frame l take (next_iter cur it) d iid) as Hfr.
  pose proof (consume_gate2 l take (next_iter cur it) d iid) as Hg.
  destruct (consume_wm l iid take _ d out it2 d2 Ec) as [_ Hw]. rewrite Ec in Hfr, Hg. cbn [snd] in Hfr, Hg.
  destruct Hfr as [F1 [F2 _]]. cbn [next_iter it_delrev it_tab] in Hmono, Hw, Htab.
  pose proof (oi_dle _ _ _ HO2) as Hdle.
  intros it' Hi'. cbn [set_iters d_iters] in Hi'. rewrite assoc_set_same in Hi'. injection Hi' as <-.
  exists cur. split; [cbn [set_iters d_root]; now rewrite F1|].
  constructor; cbn [set_iters d_wm d_gc d_txn]; auto.
  - congruence.
  - intros keys ks H H1 k Hk. apply Hg in H. destruct (R4 _ _ H H1 _ Hk) as [r [A [B C]]]. exists r. repeat split; auto. lia.
  - left. split; [exact P1|]. split; [apply tab_le_refl|]. split; [apply retained_refl|].
    intros es old te H H0. rewrite F2 in H. destruct (P4 _ _ _ H H0) as [A [B C]].
    split; [exact A|]. split; [exact B|].
    apply (retained_raise cur te (it_delrev it)); auto.
Qed.

(* ---- one step, any operation ---------------------------------------------------------------------------------------- *)
Lemma RInv_step g d o : wf d -> tables_ok d -> tables_ok (fst (step d o)) ->
  sinv true iid g d -> RInv (fst g) d -> friendly d o ->
  RInv (fst (gstep iid g d o)) (fst (step d o)) /\ good_step true iid (fst g) d o.
Proof.
  intros HW HOK HOK' [_ HS] HR Hf.
  destruct (is_write o) eqn:Hw.
  { assert (Ht : touches iid o = false) by (destruct o; try discriminate; reflexivity).
    rewrite gstep_other by auto. split; [now apply RInv_write|]. destruct o; try discriminate; exact I. }
  destruct o; cbn [is_write] in Hw; try discriminate.
  - split; [apply RInv_begin; auto|exact I].
  - split; [apply RInv_commit; auto|exact I].
  - split; [apply RInv_abort; auto|exact I].
  - split; [|exact I]. cbn [gstep step fst]. apply (RInv_frame (fst g) d); auto. now left.
  - split; [|exact I]. cbn [gstep step]. destruct (src_root d s); [|exact HR]. destruct (nth_error l tab0); exact HR.
  - cbn [friendly] in Hf. split; [apply RInv_changes; auto|exact Hf].
  - (* ONext *)
    destruct (N.eqb_spec iid0 iid) as [->|Hne].
    + destruct (assoc iid (d_iters d)) as [it|] eqn:Hi.
      * destruct (HS it eq_refl) as [HO _].
        destruct (RInv_next_self (fst g) d s take it (snd g) HW HOK Hi HO Hf HR) as [H1 H2].
        split.
        -- cbn [gstep]. rewrite N.eqb_refl. cbn [fst]. exact H1.
        -- cbn [good_step]. intros _ T it' Hn Hi'. rewrite Hi in Hi'. injection Hi' as <-. destruct (H2 T Hn) as [A [B [C D]]]. auto.
      * assert (Hn : next_source d iid s = None) by (unfold next_source; now rewrite Hi).
        cbn [gstep]. rewrite N.eqb_refl, Hn. cbn [fst].
        destruct (step_next_none d iid s take Hn) as [-> _]. split; [exact HR|].
        cbn [good_step]. intros _ T it' Hn'. congruence.
    + assert (Ht : touches iid (ONext iid0 s take) = false) by (cbn; now apply N.eqb_neq).
      rewrite gstep_other by auto. split; [apply RInv_other; auto; exact I|].
      cbn [good_step]. intros E. congruence.
  - (* OResume *)
    split; [|exact I]. destruct (N.eqb_spec iid0 iid) as [->|Hne].
    + cbn [gstep]. rewrite N.eqb_refl. cbn [fst].
      destruct (assoc iid (d_iters d)) as [it|] eqn:Hi.
      * destruct (HS it eq_refl) as [HO _]. eapply RInv_resume_self; eauto.
      * cbn [step]. rewrite Hi. exact HR.
    + assert (Ht : touches iid (OResume iid0 take) = false) by (cbn; now apply N.eqb_neq).
      rewrite gstep_other by auto. apply RInv_other; auto.
  - (* OClose *)
    split; [|exact I]. cbn [gstep]. destruct (N.eqb_spec iid0 iid) as [->|Hne]; [|now apply RInv_close].
    cbn [step]. destruct (assoc iid (d_iters d)) as [it|] eqn:Hi; [|exact HR].
    destruct (d_txn d); [exact HR|]. cbn [fst]. intros it' Hi'. exfalso.
    match type of Hi' with context [gc_trigger ?x] => destruct (gc_trigger_frame x) as [_ [_ [_ [Hc _]]]] end.
    rewrite Hc in Hi'. cbn [set_iters d_iters set_root] in Hi'. rewrite assoc_filter_same in Hi'. discriminate.
  - split; [apply RInv_scan; auto|exact I].
  - split; [apply RInv_apply; auto|exact I].
Qed.

(* ---- runs ------------------------------------------------------------------------------------------------------------- *)
Fixpoint friendly_run (d : db) (ops : list op) : Prop :=
  match ops with
  | [] => True
  | o :: r => friendly d o /\ friendly_run (fst (step d o)) r
  end.
(* Hinv: every table reachable in every state of the run satisfies TInv and has revision room
   (TInv preservation: Table/Inv.v) *)
Fixpoint ok_run (d : db) (ops : list op) : Prop :=
  tables_ok d /\ match ops with [] => True | o :: r => ok_run (fst (step d o)) r end.

Lemma ok_run_head d ops : ok_run d ops -> tables_ok d.
Proof. destruct ops; cbn; tauto. Qed.

Theorem ret_run ops : forall g d,
  wf d -> sinv true iid g d -> RInv (fst g) d -> ok_run d ops -> friendly_run d ops ->
  good_run true iid g d ops /\ RInv (fst (grun iid g d ops)) (fst (run d ops)) /\ wf (fst (run d ops)).
Proof.
  induction ops as [|o r IH]; intros g d HW HS HR HOK HF; cbn [good_run grun run]; [auto|].
  destruct HOK as [HOK HOKr], HF as [HF HFr].
  destruct (RInv_step g d o HW HOK (ok_run_head _ _ HOKr) HS HR HF) as [HR1 HG].
  pose proof (sinv_step true iid g d o HS HG) as HS1.
  pose proof (wf_step d o HW HOK) as HW1.
  destruct (IH _ _ HW1 HS1 HR1 HOKr HFr) as [A [B C]].
  destruct (step d o) as [d1 x]. cbn [fst] in *. destruct (run d1 r) as [d2 xs]. cbn [fst] in *. auto.
Qed.

(* ---- creation ----------------------------------------------------------------------------------------------------------- *)
Lemma RInv_created d t0 : created d iid tab t0 -> wf d -> tables_ok d ->
  (forall cur, nth_error (d_root d) tab = Some cur -> ~ reg cur) ->
  RInv t0 (fst (step d (OChanges iid tab))).
Proof.
  intros [es [old [told [Ht [He Ho]]]]] [W1 W2] HOK Hfresh. cbn [step]. rewrite Ht, He, Ho. cbn [fst].
  destruct (W1 _ _ Ht) as [Hold [Hl Hrev]].
  destruct (nth_error_same_length _ (d_root d) _ _ Hl He) as [cur Hc].
  destruct (ok_entry _ _ _ _ _ _ HOK Ht He) as [HI0 HR0].
  intros it Hi. cbn [set_iters d_iters] in Hi. rewrite assoc_set_same in Hi. injection Hi as <-.
  exists cur. split; [exact Hc|].
  constructor; cbn [refresh it_tab it_delrev it_seq set_iters set_wm set_txn d_wm d_gc d_txn]; auto.
  - apply assoc_set_same.
  - lia.
  - intros keys ks H H1 k Hk. destruct (W2 _ H) as [_ Hb]. destruct (Hb _ _ _ H1 Hc _ Hk) as [r [A [B C]]].
    exists r. repeat split; auto. specialize (Hrev _ _ _ _ He Hc). lia.
  - right. split; [now apply Hfresh|]. split; [reflexivity|]. split; [exact (Hrev _ _ _ _ He Hc)|].
    set (t0' := mkT (t_rev t0) (t_primary t0) (t_revidx t0) (t_grave t0) (t_graverev t0) (t_u t0) (t_n t0)
                    (t_lu t0) (t_ln t0) (t_trackers t0 ++ [iid]) (t_init t0)).
    exists (upd_nth tab (fun _ => (t0', true)) es), old, t0'. split; [reflexivity|].
    split; [apply (nth_error_upd_nth_same (fun _ => (t0', true)) _ _ _ He)|].
    split; [unfold reg; cbn; apply in_or_app; right; now left|].
    split; [apply (tab_le_sem_r t0 t0); [repeat split|apply tab_le_refl]|].
    apply (retained_sem_r t0 t0); [repeat split|apply retained_refl].
Qed.

(* ---- C07 / C08, discharged: iterators advanced with fresh read transactions ------------------------------------------- *)
Section Discharged.
Variables (d : db) (t0 : table) (ops : list op).
Hypothesis Hcreated : created d iid tab t0.
Hypothesis Hwf : wf d.
Hypothesis Hfresh : forall cur, nth_error (d_root d) tab = Some cur -> ~ reg cur.
Let d0 := fst (step d (OChanges iid tab)).
Hypothesis Hok : tables_ok d /\ ok_run d0 ops.
Hypothesis Hfriendly : friendly_run d0 ops.

Lemma discharged_facts :
  good_run true iid (t0, []) d0 ops /\ RInv (fst (grun iid (t0, []) d0 ops)) (fst (run d0 ops)) /\
  TInv t0 /\ rev_room t0.
Proof.
  destruct Hok as [HOK HOKr]. destruct Hcreated as [es [old [told [Ht [He Ho]]]]].
  destruct (ok_entry _ _ _ _ _ _ HOK Ht He) as [HI0 HR0].
  assert (Hc : created d iid tab t0) by (exists es, old, told; auto).
  destruct (ret_run ops (t0, []) d0 (wf_step d _ Hwf HOK) (sinv_created true d iid tab t0 Hc HI0 HR0)
                    (RInv_created d t0 Hc Hwf HOK Hfresh) HOKr Hfriendly) as [A [B _]].
  auto.
Qed.

Theorem fresh_strictly_increasing : asc (map crev (delivered iid d0 ops)).
Proof.
  destruct discharged_facts as [A [_ [B C]]].
  apply (changes_strictly_increasing d iid tab t0 ops Hcreated B C). now apply good_run_weaken.
Qed.

Theorem fresh_converge : forall it,
  assoc iid (d_iters (fst (run d0 ops))) = Some it -> it_pending it = None ->
  replay (delivered iid d0 ops) = abs_of (fst (grun iid (t0, []) d0 ops)).
Proof.
  destruct discharged_facts as [A [_ [B C]]]. exact (changes_converge d iid tab t0 ops Hcreated B C A).
Qed.

(* C08: at every point of the run, every key the iterator may hold that is no longer live in the
   committed root has a deletion above the iterator's delete cursor retained in its graveyard *)
Theorem fresh_retention : forall it cur,
  assoc iid (d_iters (fst (run d0 ops))) = Some it ->
  nth_error (d_root (fst (run d0 ops))) tab = Some cur -> reg cur ->
  retained (fst (grun iid (t0, []) d0 ops)) cur (it_delrev it) /\
  assoc iid (d_wm (fst (run d0 ops))) = Some (it_delrev it).
Proof.
  destruct discharged_facts as [_ [R _]]. intros it cur Hi Hc Hr.
  destruct (R it Hi) as [cur' [Hc' [R1 R2 R3 R3' R4 R5]]]. assert (cur' = cur) by congruence. subst cur'.
  split; auto. destruct R5 as [[_ [_ [P3 _]]]|[Q _]]; [exact P3|contradiction].
Qed.
End Discharged.
End Ret.

(* the run ends with a Next(fresh read transaction) consumed to completion: replay = the committed table *)
Theorem fresh_converge_next iid tab d t0 ops s S :
  created d iid tab t0 -> wf d ->
  (forall cur, nth_error (d_root d) tab = Some cur -> ~ reg iid cur) ->
  let d0 := fst (step d (OChanges iid tab)) in
  tables_ok d /\ ok_run d0 (ops ++ [ONext iid s None]) ->
  friendly_run iid tab d0 (ops ++ [ONext iid s None]) ->
  next_source (fst (run d0 ops)) iid s = Some S ->
  replay (delivered iid d0 (ops ++ [ONext iid s None])) = abs_of S.
Proof.
  intros Hc Hw Hf d0 Hok Hfr Hn.
  destruct (discharged_facts iid tab d t0 _ Hc Hw Hf Hok Hfr) as [A [_ [B C]]].
  exact (changes_converge_next d iid tab t0 ops s S Hc B C A Hn).
Qed.

(* the structural invariant holds in every state reachable from the initial database *)
Theorem wf_run ops : forall d, wf d -> ok_run d ops -> wf (fst (run d ops)).
Proof.
  induction ops as [|o r IH]; intros d HW HOK; cbn [run]; auto.
  destruct HOK as [HOK HOKr]. pose proof (wf_step d o HW HOK) as HW1. specialize (IH _ HW1 HOKr).
  destruct (step d o) as [d1 x]. cbn [fst] in *. destruct (run d1 r) as [d2 xs]. exact IH.
Qed.

(* ---- C08: collectable ------------------------------------------------------------------------------------------- *)
(* one collection round (scan, then apply) on a table where every registered tracker has been handed
   every retained deletion (watermark >= its revision) — in particular when no tracker is registered —
   discards the whole graveyard and leaves the live contents alone *)
Theorem gc_round_collects d tab cur :
  d_gc d = GGate1 -> d_txn d = None -> nth_error (d_root d) tab = Some cur ->
  TInv cur -> rev_bound cur ->
  (forall o id r, dead cur o -> In id (t_trackers cur) -> assoc id (d_wm d) = Some r -> o_rev o <= r) ->
  exists cur', nth_error (d_root (fst (run d [OGcScan; OGcApply]))) tab = Some cur' /\
               t_grave cur' = [] /\ t_graverev cur' = [] /\
               t_primary cur' = t_primary cur /\ t_rev cur' = t_rev cur.
Proof.
  intros Hg Ht Hc HI HB Hall.
  destruct (gc_collects_caught_up (d_wm d) cur HI HB Hall) as [G1 G2].
  destruct (gc_apply_sem_live (gc_scan_table (d_wm d) cur) cur) as [E1 [E2 _]].
  exists (gc_apply_table (gc_scan_table (d_wm d) cur) cur). split; [|auto].
  cbn [run step]. rewrite Hg. cbn [set_gc d_gc d_txn fst]. rewrite Ht. cbn [fst].
  unfold gc_settle. cbn. destruct (d_gcchan d); cbn; rewrite nth_error_zip_with, nth_error_map, Hc; reflexivity.
Qed.
