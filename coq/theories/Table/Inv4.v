(* Table/Inv4.v — write operations at the level of histories (C03): a transaction reads its
   own writes; writes without the table lock / without an open transaction are rejected and
   change nothing; the primary contents evolve as the keyed-map specification under any list
   of write operations (refinement to Base/OrdMap). *)
From SV Require Import Base.Bytes Base.OrdMap KeyEnc.Model Table.Model Table.InvDefs
                       Table.Proofs Table.GcProofs Table.Inv Table.Inv2.
From Coq Require Import ZifyN ZifyNat ZifyBool.
Open Scope N_scope.

(* ---- the write operations of `step` ------------------------------------------------------------- *)
Definition write_op (o : op) : option (nat * N * bool * payload) :=
  match o with
  | OInsert tab p => Some (tab, 0, false, p)
  | OModify tab p => Some (tab, 0, true, p)
  | OCas tab g p => Some (tab, g, false, p)
  | _ => None
  end.
Definition write_tab (o : op) : option nat :=
  match o with
  | OInsert tab _ | OModify tab _ | OCas tab _ _ | ODelete tab _ | OCad tab _ _ => Some tab
  | _ => None
  end.

Lemma step_write_locked d o tab g m p es old t : write_op o = Some (tab, g, m, p) ->
  d_txn d = Some (es, old) -> nth_error es tab = Some (t, true) ->
  step d o = (set_txn d (Some (upd_nth tab (fun _ => (fst (modify g m p t), true)) es, old)),
              OutWrite (fst (snd (modify g m p t))) (snd (snd (modify g m p t)))).
Proof.
  destruct o; simpl; try discriminate; intros H; injection H as <- <- <- <-; intros E1 E2;
    unfold with_locked; rewrite E1, E2;
    match goal with |- context [modify ?a ?b ?c ?d] => destruct (modify a b c d) as [t' [old' e]] end; reflexivity.
Qed.

Theorem write_not_locked d o tab es old t : write_tab o = Some tab ->
  d_txn d = Some (es, old) -> nth_error es tab = Some (t, false) -> step d o = (d, OutWrite None ENotLocked).
Proof.
  destruct o; simpl; try discriminate; intros H; injection H as <-; intros E1 E2;
    unfold with_locked; rewrite E1, E2; reflexivity.
Qed.

Theorem write_closed d o tab : write_tab o = Some tab -> d_txn d = None -> step d o = (d, OutWrite None EClosed).
Proof.
  destruct o; simpl; try discriminate; intros _ E1; unfold with_locked; rewrite E1; reflexivity.
Qed.

(* ---- read your own writes ----------------------------------------------------------------------- *)
Lemma query_txn d es old tab t q : d_txn d = Some (es, old) -> nth_error es tab = Some (t, true) ->
  step d (OQuery STxn tab q) = (d, run_query d tab q t).
Proof.
  intros E1 E2. simpl. rewrite E1. rewrite nth_error_map, E2. reflexivity.
Qed.

Theorem read_own_write d o tab g m p es old t prev : write_op o = Some (tab, g, m, p) ->
  d_txn d = Some (es, old) -> nth_error es tab = Some (t, true) ->
  snd (step d o) = OutWrite prev EOk ->
  let d' := fst (step d o) in
  let obj := new_object m p t in
  prev = om_get (p_id p) (t_primary t) /\
  o_rev obj = t_rev t + 1 /\
  snd (step d' (OQuery STxn tab (QGet IPrimary (p_id p)))) = OutGet (Some obj) /\
  snd (step d' (OQuery STxn tab QRev)) = OutNum (o_rev obj) /\
  d_root d' = d_root d.
Proof.
  intros Hw E1 E2 Ho. rewrite (step_write_locked _ _ _ _ _ _ _ _ _ Hw E1 E2) in *. cbn [fst snd] in *.
  destruct (modify g m p t) as [t' [old' e]] eqn:Hm. cbn [fst snd] in *. injection Ho as -> ->.
  destruct (modify_ok_spec _ _ _ _ _ _ _ Hm eq_refl) as [R1 [R2 [R3 _]]].
  destruct (modify_result _ _ _ _ _ _ _ Hm) as [Hp|[Hc _]]; [|discriminate].
  assert (E2' : nth_error (upd_nth tab (fun _ => (t', true)) es) tab = Some (t', true))
    by (apply (nth_error_upd_nth_same (fun _ => (t', true)) _ _ _ E2)).
  repeat split; auto.
  - rewrite R3. auto.
  - erewrite query_txn; [|reflexivity|exact E2']. simpl. unfold q_get. simpl. rewrite R2. now rewrite om_get_insert_same.
  - erewrite query_txn; [|reflexivity|exact E2']. simpl. now rewrite R3.
Qed.

(* Insert always succeeds on a locked table: the object read back is the one written *)
Corollary insert_then_get d tab p es old t :
  d_txn d = Some (es, old) -> nth_error es tab = Some (t, true) ->
  snd (step (fst (step d (OInsert tab p))) (OQuery STxn tab (QGet IPrimary (p_id p)))) = OutGet (Some (mkO p (t_rev t + 1))).
Proof.
  intros E1 E2.
  assert (Ho : exists prev, snd (step d (OInsert tab p)) = OutWrite prev EOk).
  { rewrite (step_write_locked d (OInsert tab p) tab 0 false p es old t eq_refl E1 E2). cbn [snd].
    unfold modify, modify_with. simpl.
    destruct (om_get (p_id p) (t_primary t)); [|destruct (om_get (p_id p) (t_grave t))]; eexists; reflexivity. }
  destruct Ho as [prev Ho].
  destruct (read_own_write d (OInsert tab p) tab 0 false p es old t prev eq_refl E1 E2 Ho) as [_ [_ [H _]]].
  exact H.
Qed.

(* ... and every other key reads as before the write (sorted primary index: from TInv) *)
Theorem write_frames_other_keys d o tab g m p es old t k : write_op o = Some (tab, g, m, p) ->
  d_txn d = Some (es, old) -> nth_error es tab = Some (t, true) -> om_sorted (t_primary t) -> k <> p_id p ->
  snd (step (fst (step d o)) (OQuery STxn tab (QGet IPrimary k))) = snd (step d (OQuery STxn tab (QGet IPrimary k))).
Proof.
  intros Hw E1 E2 Hs Hk. rewrite (step_write_locked _ _ _ _ _ _ _ _ _ Hw E1 E2). cbn [fst].
  destruct (modify g m p t) as [t' [old' e]] eqn:Hm. cbn [fst].
  assert (E2' : nth_error (upd_nth tab (fun _ => (t', true)) es) tab = Some (t', true))
    by (apply (nth_error_upd_nth_same (fun _ => (t', true)) _ _ _ E2)).
  erewrite query_txn; [|reflexivity|exact E2']. erewrite query_txn; [|exact E1|exact E2]. simpl.
  unfold q_get. simpl. f_equal.
  destruct e; try (rewrite (modify_rejected_identity _ _ _ _ _ _ _ Hm); [reflexivity|discriminate]).
  destruct (modify_ok_spec _ _ _ _ _ _ _ Hm eq_refl) as [_ [R2 _]]. rewrite R2. now apply om_get_insert_other.
Qed.

(* ---- refinement to the keyed-map specification ---------------------------------------------------- *)
Definition absobj (o : object) : N * N := (p_val (o_data o), o_rev o).
Definition abs_table (t : table) : omap (N * N) :=
  map (fun kv => (fst kv, (p_val (o_data (snd kv)), o_rev (snd kv)))) (t_primary t).

Section MapAbs.
Context {V W : Type} (f : V -> W).
Definition om_map (m : omap V) : omap W := map (fun kv => (fst kv, f (snd kv))) m.
Lemma om_map_get k m : om_get k (om_map m) = option_map f (om_get k m).
Proof.
  induction m as [|[k' v] r IH]; simpl; auto. destruct (bytes_eqb k k'); auto. destruct (bytes_ltb k k'); auto.
Qed.
Lemma om_map_insert k v m : om_map (om_insert k v m) = om_insert k (f v) (om_map m).
Proof.
  induction m as [|[k' v'] r IH]; simpl; auto. destruct (bytes_eqb k k'); auto. destruct (bytes_ltb k k'); simpl; auto.
  now rewrite IH.
Qed.
Lemma om_map_delete k m : om_map (om_delete k m) = om_delete k (om_map m).
Proof.
  induction m as [|[k' v'] r IH]; simpl; auto. destruct (bytes_eqb k k'); auto. destruct (bytes_ltb k k'); simpl; auto.
  now rewrite IH.
Qed.
End MapAbs.

Lemma abs_table_eq t : abs_table t = om_map absobj (t_primary t).
Proof. reflexivity. Qed.

(* the specification: a keyed map id -> (value, revision) with a revision counter *)
Definition sstate := (N * omap (N * N))%type.
Definition sres := (option (N * N) * werr)%type.

Definition spec_put (g : N) (merge : bool) (id : bytes) (v : N) (s : sstate) : sstate * sres :=
  let '(rev, m) := s in
  let old := om_get id m in
  let nv := match merge, old with true, Some (ov, _) => ov + v | _, _ => v end in
  let ok := ((rev + 1, om_insert id (nv, rev + 1) m), (old, EOk)) in
  if 0 <? g then
    match old with
    | None => (s, (None, ENotFound))
    | Some (ov, orev) => if orev =? g then ok else (s, (old, ERevMismatch))
    end
  else ok.
Definition spec_del (g : N) (id : bytes) (s : sstate) : sstate * sres :=
  let '(rev, m) := s in
  match om_get id m with
  | None => (s, (None, EOk))
  | Some (ov, orev) => if (0 <? g) && negb (orev =? g) then (s, (Some (ov, orev), ERevMismatch))
                       else ((rev + 1, om_delete id m), (Some (ov, orev), EOk))
  end.
(* DeleteAll: one revision per deleted object *)
Definition spec_del_all (s : sstate) : sstate * sres :=
  let '(rev, m) := s in ((rev + N.of_nat (length m), []), (None, EOk)).

Inductive wop := WInsert (p : payload) | WModify (p : payload) | WCas (g : N) (p : payload)
               | WDelete (id : bytes) | WCad (g : N) (id : bytes) | WDeleteAll.
Definition apply_wop (w : wop) (t : table) : table * (option object * werr) :=
  match w with
  | WInsert p => modify 0 false p t
  | WModify p => modify 0 true p t
  | WCas g p => modify g false p t
  | WDelete id => delete 0 id t
  | WCad g id => delete g id t
  | WDeleteAll => (delete_all t, (None, EOk))
  end.
Definition spec_wop (w : wop) (s : sstate) : sstate * sres :=
  match w with
  | WInsert p => spec_put 0 false (p_id p) (p_val p) s
  | WModify p => spec_put 0 true (p_id p) (p_val p) s
  | WCas g p => spec_put g false (p_id p) (p_val p) s
  | WDelete id => spec_del 0 id s
  | WCad g id => spec_del g id s
  | WDeleteAll => spec_del_all s
  end.
Fixpoint run_wops (t : table) (ws : list wop) : table * list (option object * werr) :=
  match ws with
  | [] => (t, [])
  | w :: r => let '(t1, x) := apply_wop w t in let '(t2, xs) := run_wops t1 r in (t2, x :: xs)
  end.
Fixpoint spec_run (s : sstate) (ws : list wop) : sstate * list sres :=
  match ws with
  | [] => (s, [])
  | w :: r => let '(s1, x) := spec_wop w s in let '(s2, xs) := spec_run s1 r in (s2, x :: xs)
  end.

Definition abs_state (t : table) : sstate := (t_rev t, abs_table t).
Definition abs_res (x : option object * werr) : sres := (option_map absobj (fst x), snd x).

(* primary entries are keyed by the object's own key (part of TInv; all DeleteAll needs) *)
Definition keys_ok (t : table) : Prop := forall k o, In (k, o) (t_primary t) -> k = p_id (o_data o).

Lemma TInv_keys_ok t : TInv t -> keys_ok t.
Proof. intros HI k o H. now destruct (ti_primary t HI k o H). Qed.

Lemma om_insert_in_weak {V} k (v : V) x m : In x (om_insert k v m) -> x = (k, v) \/ In x m.
Proof.
  induction m as [|[k' v'] r IH]; simpl.
  - intros [H|[]]; auto.
  - destruct (bytes_eqb k k'); [simpl; intros [H|H]; auto|].
    destruct (bytes_ltb k k'); simpl; intros [H|H]; auto. destruct (IH H); auto.
Qed.

Lemma om_delete_in_weak {V} k (x : bytes * V) m : In x (om_delete k m) -> In x m.
Proof.
  induction m as [|[k' v'] r IH]; simpl; auto.
  destruct (bytes_eqb k k'); auto. destruct (bytes_ltb k k'); simpl; auto. intros [H|H]; auto.
Qed.

Lemma modify_refines g m p t :
  spec_put g m (p_id p) (p_val p) (abs_state t) =
  (abs_state (fst (modify g m p t)), abs_res (snd (modify g m p t))).
Proof.
  unfold modify, modify_with, spec_put, abs_state, abs_res. rewrite abs_table_eq, om_map_get.
  destruct (0 <? g).
  - destruct (om_get (p_id p) (t_primary t)) as [o|] eqn:E; simpl; auto.
    destruct (o_rev o =? g); simpl; auto.
    rewrite abs_table_eq. simpl. rewrite om_map_insert. destruct m; reflexivity.
  - destruct (om_get (p_id p) (t_primary t)) as [o|] eqn:E; simpl.
    + rewrite abs_table_eq. simpl. rewrite om_map_insert. destruct m; reflexivity.
    + destruct (om_get (p_id p) (t_grave t)); simpl; rewrite abs_table_eq; simpl; rewrite om_map_insert;
        destruct m; reflexivity.
Qed.

Lemma delete_refines g id t :
  spec_del g id (abs_state t) = (abs_state (fst (delete g id t)), abs_res (snd (delete g id t))).
Proof.
  unfold delete, delete_with, spec_del, abs_state, abs_res. rewrite abs_table_eq, om_map_get.
  destruct (om_get id (t_primary t)) as [o|] eqn:E; simpl; auto.
  destruct ((0 <? g) && negb (o_rev o =? g)); simpl; auto.
  rewrite abs_table_eq. simpl. now rewrite om_map_delete.
Qed.

Lemma modify_keys_ok g m p t : keys_ok t -> keys_ok (fst (modify g m p t)).
Proof.
  intros HK. destruct (modify g m p t) as [t' [old e]] eqn:Hm. simpl.
  destruct e; try (rewrite (modify_rejected_identity _ _ _ _ _ _ _ Hm); [exact HK|discriminate]).
  destruct (modify_ok_spec _ _ _ _ _ _ _ Hm eq_refl) as [_ [R2 _]]. intros k o. rewrite R2. intros H.
  apply om_insert_in_weak in H. destruct H as [H|H]; auto. injection H as -> ->. now rewrite new_object_id.
Qed.

Lemma delete_keys_ok g id t : keys_ok t -> keys_ok (fst (delete g id t)).
Proof.
  intros HK. destruct (delete_cases g id t) as [->|[o [Ho Hc]]]; auto.
  destruct (delete g id t) as [t' [old e]] eqn:H. simpl.
  destruct (delete_ok_core _ _ _ _ _ _ _ H Ho Hc) as [_ [_ [_ [E2 _]]]].
  intros k o'. rewrite E2. intros Hin. apply om_delete_in_weak in Hin. auto.
Qed.

Lemma fold_delete_all (l : list (bytes * object)) : forall t, t_primary t = l -> keys_ok t ->
  let t' := fold_left (fun t kv => fst (delete 0 (p_id (o_data (snd kv))) t)) l t in
  t_primary t' = [] /\ t_rev t' = t_rev t + N.of_nat (length l).
Proof.
  induction l as [|[k o] r IH]; intros t Hp HK; cbn zeta.
  - simpl. split; auto. lia.
  - cbn [fold_left snd].
    assert (Hk : k = p_id (o_data o)) by (apply HK; rewrite Hp; left; reflexivity). subst k.
    assert (Hg : om_get (p_id (o_data o)) (t_primary t) = Some o) by (rewrite Hp; simpl; now rewrite bytes_eqb_refl).
    destruct (delete 0 (p_id (o_data o)) t) as [t1 [old e]] eqn:Hd.
    destruct (delete_ok_core _ _ _ _ _ _ _ Hd Hg eq_refl) as [_ [_ [E1 [E2 _]]]]. cbn [fst].
    assert (Hp1 : t_primary t1 = r) by (rewrite E2, Hp; simpl; now rewrite bytes_eqb_refl).
    assert (HK1 : keys_ok t1).
    { intros k' o' Hin. apply HK. rewrite Hp. right. now rewrite <- Hp1. }
    destruct (IH t1 Hp1 HK1) as [I1 I2]. split; auto. rewrite I2, E1. cbn [length]. lia.
Qed.

Lemma delete_all_spec t : keys_ok t ->
  t_primary (delete_all t) = [] /\ t_rev (delete_all t) = t_rev t + N.of_nat (length (t_primary t)).
Proof. intros HK. unfold delete_all. now apply fold_delete_all. Qed.

Lemma apply_wop_keys_ok w t : keys_ok t -> keys_ok (fst (apply_wop w t)).
Proof.
  intros HK. destruct w; simpl; auto using modify_keys_ok, delete_keys_ok.
  intros k o. rewrite (proj1 (delete_all_spec t HK)). intros [].
Qed.

Theorem wop_refines w t : keys_ok t ->
  spec_wop w (abs_state t) = (abs_state (fst (apply_wop w t)), abs_res (snd (apply_wop w t))).
Proof.
  intros HK. destruct w; cbn [spec_wop apply_wop fst snd]; try apply modify_refines; try apply delete_refines.
  destruct (delete_all_spec t HK) as [E1 E2]. unfold spec_del_all, abs_state, abs_res, abs_table. cbn [fst snd option_map].
  rewrite E1, E2, map_length. reflexivity.
Qed.

Theorem wops_refine ws : forall t, keys_ok t ->
  spec_run (abs_state t) ws = (abs_state (fst (run_wops t ws)), map abs_res (snd (run_wops t ws))).
Proof.
  induction ws as [|w r IH]; intros t HK; simpl; auto.
  rewrite (wop_refines w t HK). pose proof (apply_wop_keys_ok w t HK) as HK1.
  destruct (apply_wop w t) as [t1 x]. cbn [fst snd] in *. rewrite (IH t1 HK1).
  destruct (run_wops t1 r) as [t2 xs]. reflexivity.
Qed.

(* ---- the same for the operations of a write transaction on one of its locked tables --------------- *)
Definition op_of_wop (tab : nat) (w : wop) : op :=
  match w with
  | WInsert p => OInsert tab p | WModify p => OModify tab p | WCas g p => OCas tab g p
  | WDelete id => ODelete tab id | WCad g id => OCad tab g id | WDeleteAll => ODeleteAll tab
  end.
Definition out_of_wop (w : wop) (x : option object * werr) : out :=
  match w with WDeleteAll => OutErr (snd x) | _ => OutWrite (fst x) (snd x) end.

Lemma step_wop d tab w es old t : d_txn d = Some (es, old) -> nth_error es tab = Some (t, true) ->
  step d (op_of_wop tab w) =
  (set_txn d (Some (upd_nth tab (fun _ => (fst (apply_wop w t), true)) es, old)), out_of_wop w (snd (apply_wop w t))).
Proof.
  intros E1 E2. destruct w; simpl; try rewrite E1, E2; unfold with_locked; rewrite E1, E2;
    try match goal with |- context [modify ?a ?b ?c ?d] => destruct (modify a b c d) as [t' [old' e]] end;
    try match goal with |- context [delete ?a ?b ?c] => destruct (delete a b c) as [t' [old' e]] end; reflexivity.
Qed.

Theorem txn_wops ws : forall d tab es old t, d_txn d = Some (es, old) -> nth_error es tab = Some (t, true) ->
  let t' := fst (run_wops t ws) in
  let d' := fst (run d (map (op_of_wop tab) ws)) in
  exists es', d_txn d' = Some (es', old) /\ nth_error es' tab = Some (t', true) /\
    (forall i, i <> tab -> nth_error es' i = nth_error es i) /\ d_root d' = d_root d /\
    snd (run d (map (op_of_wop tab) ws)) = map (fun wx => out_of_wop (fst wx) (snd wx)) (combine ws (snd (run_wops t ws))).
Proof.
  induction ws as [|w r IH]; intros d tab es old t E1 E2; cbn zeta.
  - simpl. exists es. auto.
  - cbn [map run run_wops]. rewrite (step_wop d tab w es old t E1 E2).
    destruct (apply_wop w t) as [t1 x] eqn:Ha. cbn [fst snd].
    set (d1 := set_txn d (Some (upd_nth tab (fun _ => (t1, true)) es, old))).
    assert (E1' : d_txn d1 = Some (upd_nth tab (fun _ => (t1, true)) es, old)) by reflexivity.
    assert (E2' : nth_error (upd_nth tab (fun _ => (t1, true)) es) tab = Some (t1, true))
      by (apply (nth_error_upd_nth_same (fun _ => (t1, true)) _ _ _ E2)).
    destruct (IH d1 tab _ old t1 E1' E2') as [es' [H1 [H2 [H3 [H4 H5]]]]].
    destruct (run d1 (map (op_of_wop tab) r)) as [d2 xs]. destruct (run_wops t1 r) as [t2 ys].
    cbn [fst snd] in *. exists es'. repeat split; auto.
    + intros i Hi. rewrite (H3 i Hi). apply nth_error_upd_nth_other. congruence.
    + simpl. now rewrite H5.
Qed.

(* ---- deletes: read back, and the revision of the retained object --------------------------------- *)
Theorem read_own_delete d tab id es old t : d_txn d = Some (es, old) -> nth_error es tab = Some (t, true) ->
  om_sorted (t_primary t) ->
  snd (step d (ODelete tab id)) = OutWrite (om_get id (t_primary t)) EOk /\
  snd (step (fst (step d (ODelete tab id))) (OQuery STxn tab (QGet IPrimary id))) = OutGet None.
Proof.
  intros E1 E2 Hs. change (ODelete tab id) with (op_of_wop tab (WDelete id)).
  rewrite (step_wop d tab (WDelete id) es old t E1 E2). cbn [fst snd apply_wop out_of_wop].
  destruct (delete 0 id t) as [t' [prev e]] eqn:Hd. cbn [fst snd].
  assert (E2' : nth_error (upd_nth tab (fun _ => (t', true)) es) tab = Some (t', true))
    by (apply (nth_error_upd_nth_same (fun _ => (t', true)) _ _ _ E2)).
  erewrite query_txn; [|reflexivity|exact E2']. simpl. unfold q_get. simpl.
  destruct (delete_spec _ _ _ _ _ _ Hd) as [-> H].
  destruct (om_get id (t_primary t)) as [o|] eqn:Eg.
  - simpl in H. destruct H as [-> [_ ->]]. split; auto. f_equal. now apply om_get_delete_same.
  - destruct H as [-> ->]. split; auto. now rewrite Eg.
Qed.

(* a successful Delete / CompareAndDelete on a table with delete trackers retains the object in the
   graveyard under exactly the new table revision *)
Theorem delete_retains_at_table_revision g id t o : om_get id (t_primary t) = Some o ->
  (0 <? g) && negb (o_rev o =? g) = false -> t_trackers t <> [] ->
  let t' := fst (delete g id t) in
  t_rev t' = t_rev t + 1 /\ om_get id (t_grave t') = Some (mkO (o_data o) (t_rev t')) /\
  om_get (rev_key (t_rev t')) (t_graverev t') = Some (mkO (o_data o) (t_rev t')).
Proof.
  intros Ho Hc Hn. destruct (delete g id t) as [t' [prev e]] eqn:Hd. cbn [fst].
  destruct (delete_ok_core _ _ _ _ _ _ _ Hd Ho Hc) as [_ [_ [E1 [_ [_ [E4 [E5 _]]]]]]].
  assert (Ht : has_trackers t = true) by (unfold has_trackers; destruct (t_trackers t); congruence).
  rewrite Ht in E4, E5. rewrite E1, E4, E5. repeat split; apply om_get_insert_same.
Qed.
