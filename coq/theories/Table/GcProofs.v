(* Table/GcProofs.v — graveyard collection: what a scan may select (C08 safety). *)
From SV Require Import Base.Bytes Base.OrdMap Table.Model.
From Coq Require Import ZifyN ZifyNat ZifyBool.
Open Scope N_scope.

Lemma gc_low_fold_le wm ids : forall low,
  fold_left (fun low id => match assoc id wm with Some r => N.min low r | None => low end) ids low <= low.
Proof.
  induction ids as [|id r IH]; intros low; simpl; [lia|].
  etransitivity; [apply IH|]. destruct (assoc id wm); lia.
Qed.

Lemma gc_low_fold_tracker wm ids : forall low id r, In id ids -> assoc id wm = Some r ->
  fold_left (fun low id => match assoc id wm with Some r => N.min low r | None => low end) ids low <= r.
Proof.
  induction ids as [|i l IH]; intros low id r Hin Ha; simpl; [inversion Hin|].
  destruct Hin as [->|Hin].
  - rewrite Ha. etransitivity; [apply gc_low_fold_le|]. lia.
  - eapply IH; eauto.
Qed.

(* the low watermark never exceeds the table revision nor the watermark of any registered tracker *)
Theorem gc_low_bounds wm t :
  gc_low wm t <= t_rev t /\
  forall id r, In id (t_trackers t) -> assoc id wm = Some r -> gc_low wm t <= r.
Proof.
  unfold gc_low. split; [apply gc_low_fold_le|]. intros. eapply gc_low_fold_tracker; eauto.
Qed.

Lemma take_while_rev_spec low l k : In k (take_while_rev low l) ->
  exists o, In (k, o) l /\ o_rev o <= low.
Proof.
  induction l as [|[k' o] r IH]; simpl; [tauto|].
  destruct (N.ltb_spec low (o_rev o)); simpl; [tauto|].
  intros [<-|Hin]; [exists o; split; auto|].
  destruct (IH Hin) as [o' [H1 H2]]. exists o'; auto.
Qed.

(* a scan selects only graveyard entries whose deletion revision is at or below the watermark of
   every tracker registered in the scanned snapshot *)
Theorem gc_scan_only_observed wm t k : In k (gc_scan_table wm t) ->
  exists o, In (k, o) (t_graverev t) /\ o_rev o <= t_rev t /\
            forall id r, In id (t_trackers t) -> assoc id wm = Some r -> o_rev o <= r.
Proof.
  unfold gc_scan_table. intros H. destruct (take_while_rev_spec _ _ _ H) as [o [Hin Hle]].
  destruct (gc_low_bounds wm t) as [H1 H2].
  exists o. repeat split; auto; [lia|]. intros id r Hi Ha. specialize (H2 id r Hi Ha). lia.
Qed.

(* applying a key list only removes graveyard entries; live indexes, revision, trackers are untouched *)
Lemma gc_apply_frame keys : forall t,
  let t' := gc_apply_table keys t in
  t_rev t' = t_rev t /\ t_primary t' = t_primary t /\ t_revidx t' = t_revidx t /\
  t_u t' = t_u t /\ t_n t' = t_n t /\ t_lu t' = t_lu t /\ t_ln t' = t_ln t /\
  t_trackers t' = t_trackers t /\ t_init t' = t_init t.
Proof.
  unfold gc_apply_table. induction keys as [|k r IH]; intros t; simpl; [repeat split|].
  destruct (om_get k (t_graverev t)) as [old|]; [|apply IH].
  match goal with |- context [fold_left _ r ?t0] => specialize (IH t0) end. simpl in IH. exact IH.
Qed.
