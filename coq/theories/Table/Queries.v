(* Table/Queries.v — exactness of the queries through the secondary part indexes, derived from
   the agreement invariants (Table/InvDefs.v): Get / List / Prefix / LowerBound through the
   non-unique index (composite keys, the de-duplicating iterators of part_index.go) and
   through the unique index. *)
From SV Require Import Base.Bytes Base.OrdMap KeyEnc.Model KeyEnc.Proofs
  Table.Model Table.InvDefs Table.AgreeDefs Table.AgreeLpm Table.AgreeN.
From Coq Require Import Sorted ZifyN ZifyNat ZifyBool.
Open Scope N_scope.

(* ---- strictly sorted lists ------------------------------------------------------------------ *)
Section SSorted.
Context {A : Type} (R : A -> A -> Prop).

Lemma ssorted_filter (f : A -> bool) l : StronglySorted R l -> StronglySorted R (filter f l).
Proof.
  induction 1 as [|a l Hs IH Hf]; simpl; [constructor|].
  destruct (f a); auto. constructor; auto.
  rewrite Forall_forall in *. intros x Hx. apply filter_In in Hx. apply Hf. tauto.
Qed.

Lemma ssorted_map_impl {B} (R' : B -> B -> Prop) (g : A -> B) l :
  StronglySorted R l -> (forall x y, In x l -> In y l -> R x y -> R' (g x) (g y)) ->
  StronglySorted R' (map g l).
Proof.
  induction 1 as [|a l Hs IH Hf]; intros Himp; simpl; constructor.
  - apply IH. intros x y Hx Hy. apply Himp; simpl; auto.
  - rewrite Forall_forall in *. intros y Hy. apply in_map_iff in Hy. destruct Hy as [x [<- Hx]].
    apply Himp; simpl; auto.
Qed.

(* two strictly sorted lists with the same elements are the same list *)
Lemma ssorted_ext (Hasym : forall a b, R a b -> R b a -> False) l1 : forall l2,
  StronglySorted R l1 -> StronglySorted R l2 -> (forall x, In x l1 <-> In x l2) -> l1 = l2.
Proof.
  induction l1 as [|a l1 IH]; intros [|b l2] H1 H2 Hin; auto.
  - exfalso. apply (Hin b). simpl; auto.
  - exfalso. apply (Hin a). simpl; auto.
  - apply StronglySorted_inv in H1, H2. destruct H1 as [S1 F1], H2 as [S2 F2].
    rewrite Forall_forall in F1, F2.
    assert (a = b) as ->.
    { destruct (proj1 (Hin a) (or_introl eq_refl)) as [E|Ha]; auto.
      destruct (proj2 (Hin b) (or_introl eq_refl)) as [E|Hb]; auto.
      exfalso. eapply Hasym; [apply (F1 _ Hb)|apply (F2 _ Ha)]. }
    f_equal. apply IH; auto. intros x. split; intros Hx.
    + destruct (proj1 (Hin x) (or_intror Hx)) as [E|H]; auto. subst x. exfalso. exact (Hasym _ _ (F1 _ Hx) (F1 _ Hx)).
    + destruct (proj2 (Hin x) (or_intror Hx)) as [E|H]; auto. subst x. exfalso. exact (Hasym _ _ (F2 _ Hx) (F2 _ Hx)).
Qed.
End SSorted.

Definition key_lt {V} (a b : bytes * V) : Prop := lex_lt (fst a) (fst b).

Lemma om_sorted_ssorted {V} (m : omap V) : om_sorted m <-> StronglySorted key_lt m.
Proof.
  induction m as [|[k v] r IH]; simpl.
  - split; [constructor|auto].
  - rewrite IH. split.
    + intros [Ha Hs]. constructor; auto.
    + intros H. apply StronglySorted_inv in H. destruct H as [Hs Hf]. split; auto.
Qed.

Lemma om_filter_sorted {V} (f : bytes * V -> bool) (m : omap V) : om_sorted m -> om_sorted (filter f m).
Proof. rewrite !om_sorted_ssorted. apply ssorted_filter. Qed.

Lemma om_prefix_In {V} p (m : omap V) kv : In kv (om_prefix p m) <-> In kv m /\ has_prefix (fst kv) p = true.
Proof. unfold om_prefix. apply filter_In. Qed.

(* ---- objects in primary-key order ------------------------------------------------------------ *)
(* by_pk (Table/AgreeLpm.v): objects compared by primary key *)
Lemma by_pk_asym a b : by_pk a b -> by_pk b a -> False.
Proof. unfold by_pk. intros H1 H2. exact (lex_lt_asym _ _ H1 H2). Qed.

Lemma vals_In t o : TInv t -> (In o (vals (t_primary t)) <-> live t o).
Proof.
  intros I. unfold vals, live. rewrite in_map_iff. split.
  - intros [[k o'] [E H]]. simpl in E. subst o'. destruct (ti_primary _ I _ _ H) as [-> _]. exact H.
  - intros H. exists (p_id (o_data o), o). auto.
Qed.

Lemma vals_primary_sorted t : TInv t -> StronglySorted by_pk (vals (t_primary t)).
Proof.
  intros I. unfold vals. apply ssorted_map_impl with (R := key_lt).
  - apply om_sorted_ssorted. apply (ti_sorted_primary _ I).
  - intros [k1 o1] [k2 o2] H1 H2 Hlt. unfold key_lt, by_pk in *. simpl in *.
    destruct (ti_primary _ I _ _ H1) as [<- _]. destruct (ti_primary _ I _ _ H2) as [<- _]. exact Hlt.
Qed.

Lemma live_same_id t o1 o2 : TInv t -> live t o1 -> live t o2 ->
  p_id (o_data o1) = p_id (o_data o2) -> o1 = o2.
Proof.
  intros I H1 H2 E. apply (live_get _ _ I) in H1, H2. rewrite E in H1. congruence.
Qed.

(* ---- byte-string lemmas ------------------------------------------------------------------------ *)
Lemma has_prefix_length s : forall p, has_prefix s p = true -> (length p <= length s)%nat.
Proof.
  induction s as [|x s IH]; intros [|y p]; simpl; intros H; try lia; try discriminate.
  apply andb_true_iff in H. destruct H as [_ H]. apply IH in H. lia.
Qed.

Lemma has_prefix_app_long a : forall b x, (length b <= length a)%nat -> has_prefix (a ++ x) b = has_prefix a b.
Proof.
  induction a as [|c a IH]; intros [|d b] x Hl; simpl in *; auto; try lia.
  - destruct x; reflexivity.
  - f_equal. apply IH. lia.
Qed.

Lemma has_prefix_same_length a : forall b, has_prefix a b = true -> length a = length b -> a = b.
Proof.
  induction a as [|c a IH]; intros [|d b]; simpl; intros H Hl; auto; try discriminate.
  apply andb_true_iff in H. destruct H as [E H]. apply N.eqb_eq in E. subst. f_equal. apply IH; auto.
Qed.

Lemma has_prefix_refl a : has_prefix a a = true.
Proof. induction a as [|c a IH]; simpl; auto. now rewrite N.eqb_refl. Qed.

(* the escape code is a prefix code: prefixes are preserved and reflected *)
Ltac eqb_simp := repeat match goal with
  | |- context [?x =? ?x] => rewrite (N.eqb_refl x)
  | H : ?x <> ?y |- context [?x =? ?y] => rewrite (proj2 (N.eqb_neq x y) H)
  | H : ?x <> ?y |- context [?y =? ?x] => rewrite (proj2 (N.eqb_neq y x) (not_eq_sym H))
  end.

Lemma enc_has_prefix k : forall p, has_prefix (enc k) (enc p) = has_prefix k p.
Proof.
  induction k as [|c k IH]; intros [|d p]; cbn [enc has_prefix].
  - reflexivity.
  - destruct (d =? 0); [reflexivity|]. destruct (d =? 1); reflexivity.
  - destruct (c =? 0); [reflexivity|]. destruct (c =? 1); reflexivity.
  - assert (H01 : 0 <> 1) by lia. assert (H12 : 1 <> 2) by lia.
    destruct (N.eqb_spec c 0) as [->|Hc0]; [|destruct (N.eqb_spec c 1) as [->|Hc1]];
      (destruct (N.eqb_spec d 0) as [->|Hd0]; [|destruct (N.eqb_spec d 1) as [->|Hd1]]);
      cbn [has_prefix]; eqb_simp; cbn [andb]; rewrite ?IH; reflexivity.
Qed.

Lemma lex_lt_app_inv a x b : lex_lt (a ++ x) b -> lex_lt a b.
Proof.
  destruct x as [|y r]; [now rewrite app_nil_r|]. intros H.
  eapply lex_lt_trans; [apply lex_lt_prefix|exact H].
Qed.

Lemma bytes_ltb_false a b : bytes_ltb a b = false <-> ~ lex_lt a b.
Proof.
  rewrite <- bytes_ltb_spec. destruct (bytes_ltb a b); split; intros H; auto; try discriminate. exfalso; auto.
Qed.

Lemma existsb_eqb_In key ks : existsb (bytes_eqb key) ks = true <-> In key ks.
Proof. apply ks_exists_In. Qed.

(* ---- entries of an agreeing non-unique index --------------------------------------------------- *)
Lemma n_entry t K o : n_agree t -> pk_short t -> In (K, o) (t_n t) ->
  exists k, In k (p_n (o_data o)) /\ K = nuk (p_id (o_data o)) k /\ live t o /\
            len (enc (p_id (o_data o))) < 256 /\
            secondaryLen K = Z.of_nat (length (enc k)) /\
            encodedSecondary K = Some (enc k) /\
            encodedPrimary K = Some (enc (p_id (o_data o))).
Proof.
  intros [_ Ha] Hsh Hin. apply Ha in Hin. destruct Hin as [k [Hk [-> HL]]].
  pose proof (Hsh _ HL) as Hlen.
  destruct (nuk_split (p_id (o_data o)) k) as [H1 [H2 H3]]; [lia|].
  exists k. repeat split; auto.
Qed.

Lemma n_entry_conv t o k : n_agree t -> live t o -> In k (p_n (o_data o)) ->
  In (nuk (p_id (o_data o)) k, o) (t_n t).
Proof. intros [_ Ha] HL Hk. apply Ha. eauto. Qed.

(* keys of entries of the same index compare as (secondary, primary) pairs *)
Lemma n_entries_order t K1 o1 K2 o2 k1 k2 : pk_short t -> live t o1 -> live t o2 ->
  K1 = nuk (p_id (o_data o1)) k1 -> K2 = nuk (p_id (o_data o2)) k2 ->
  (lex_lt K1 K2 <-> nuk_lt (p_id (o_data o1)) k1 (p_id (o_data o2)) k2).
Proof. intros Hsh H1 H2 -> ->. apply nuk_order; apply Hsh; auto. Qed.

(* ---- List / Get through the non-unique index ------------------------------------------------------ *)
Definition has_key (key : bytes) (o : object) : bool := existsb (bytes_eqb key) (p_n (o_data o)).

Theorem q_list_n_exact t key : TInv t -> n_agree t -> pk_short t ->
  q_list INn key t = filter (has_key key) (vals (t_primary t)).
Proof.
  intros I A Hsh. unfold q_list. cbn [is_unique index_of]. unfold vals at 1.
  set (E := filter _ (om_prefix (enc key) (t_n t))).
  assert (HE : forall K o, In (K, o) E <-> K = nuk (p_id (o_data o)) key /\ In key (p_n (o_data o)) /\ live t o).
  { intros K o. unfold E. rewrite filter_In, om_prefix_In. cbn [fst]. split.
    - intros [[Hin Hp] Hl]. destruct (n_entry _ _ _ A Hsh Hin) as [k [Hk [-> [HL [_ [Hsl _]]]]]].
      rewrite Hsl in Hl. apply Z.eqb_eq in Hl. unfold zlen in Hl. apply Nat2Z.inj in Hl.
      unfold nuk in Hp. rewrite has_prefix_app_long in Hp by lia.
      apply has_prefix_same_length in Hp; auto. apply enc_inj in Hp. subst k. auto.
    - intros [-> [Hk HL]]. pose proof (n_entry_conv _ _ _ A HL Hk) as Hin. split; [split; auto|].
      + unfold nuk. rewrite has_prefix_app_long by lia. apply has_prefix_refl.
      + destruct (n_entry _ _ _ A Hsh Hin) as [k [_ [E2 [_ [_ [Hsl _]]]]]].
        apply nuk_inj in E2. destruct E2 as [_ <-]. rewrite Hsl. apply Z.eqb_eq. reflexivity. }
  apply (ssorted_ext by_pk by_pk_asym).
  - apply ssorted_map_impl with (R := key_lt).
    + apply om_sorted_ssorted. unfold E. apply om_filter_sorted, om_prefix_sorted. apply A.
    + intros [K1 o1] [K2 o2] H1 H2 Hlt. apply HE in H1, H2. destruct H1 as [E1 [_ L1]], H2 as [E2 [_ L2]].
      unfold key_lt in Hlt. cbn [fst snd] in *.
      apply (n_entries_order t _ _ _ _ _ _ Hsh L1 L2 E1 E2) in Hlt.
      destruct Hlt as [Hc|[_ Hlt]]; [now apply lex_lt_irrefl in Hc|exact Hlt].
  - apply ssorted_filter. now apply vals_primary_sorted.
  - intros o. rewrite filter_In, (vals_In _ _ I). unfold has_key. rewrite existsb_eqb_In.
    rewrite in_map_iff. split.
    + intros [[K o'] [Eo Hin]]. simpl in Eo. subst o'. apply HE in Hin. tauto.
    + intros [HL Hk]. exists (nuk (p_id (o_data o)) key, o). split; auto. apply HE. auto.
Qed.

Theorem q_get_n_exact t key : TInv t -> n_agree t -> pk_short t ->
  q_get INn key t = hd_error (filter (has_key key) (vals (t_primary t))).
Proof.
  intros I A Hsh. rewrite <- q_list_n_exact by assumption.
  unfold q_get, q_list. cbn [is_unique index_of]. unfold vals.
  destruct (filter _ (om_prefix (enc key) (t_n t))); reflexivity.
Qed.

(* membership form: exactly the live objects having the key, each once *)
Corollary q_list_n_members t key : TInv t -> n_agree t -> pk_short t ->
  NoDup (q_list INn key t) /\ StronglySorted by_pk (q_list INn key t) /\
  forall o, In o (q_list INn key t) <-> live t o /\ In key (p_n (o_data o)).
Proof.
  intros I A Hsh. rewrite q_list_n_exact by assumption.
  assert (Hs : StronglySorted by_pk (filter (has_key key) (vals (t_primary t)))).
  { apply ssorted_filter. now apply vals_primary_sorted. }
  split; [|split; auto].
  - clear -Hs. induction Hs as [|a l Hs IH Hf]; constructor; auto.
    intros Hin. rewrite Forall_forall in Hf. apply Hf in Hin. exact (by_pk_asym _ _ Hin Hin).
  - intros o. rewrite filter_In, (vals_In _ _ I). unfold has_key. rewrite existsb_eqb_In. tauto.
Qed.

(* ---- first-occurrence de-duplication (the `visited` set of the non-unique iterators) -------------- *)
Section Dedup.
Context {A : Type} (f : A -> bytes).

Fixpoint dedup_by (seen : list bytes) (l : list A) : list A :=
  match l with
  | [] => []
  | x :: r => if existsb (bytes_eqb (f x)) seen then dedup_by seen r
              else x :: dedup_by (f x :: seen) r
  end.

Lemma dedup_by_In l : forall seen x, In x (dedup_by seen l) -> In x l /\ ~ In (f x) seen.
Proof.
  induction l as [|a r IH]; intros seen x; simpl; [tauto|].
  destruct (existsb (bytes_eqb (f a)) seen) eqn:E.
  - intros H. apply IH in H. tauto.
  - intros [<-|H].
    + split; auto. intros Hc. apply existsb_eqb_In in Hc. congruence.
    + apply IH in H. simpl in H. tauto.
Qed.

(* every element not yet seen is represented *)
Lemma dedup_by_complete l : forall seen x, In x l -> ~ In (f x) seen ->
  exists y, In y (dedup_by seen l) /\ f y = f x.
Proof.
  induction l as [|a r IH]; intros seen x; simpl; [tauto|].
  destruct (existsb (bytes_eqb (f a)) seen) eqn:E.
  - intros [->|H] Hn; [apply existsb_eqb_In in E; contradiction|]. now apply IH.
  - intros [->|H] Hn; [exists x; simpl; auto|].
    destruct (bytes_cmp_cases (f x) (f a)) as [[_ Eq]|[[Ne _]|[Ne _]]].
    + exists a. simpl; auto.
    + destruct (IH (f a :: seen) x H) as [y [Hy Ey]]; [|exists y; simpl; auto].
      intros [Hc|Hc]; [|contradiction]. rewrite Hc, bytes_eqb_refl in Ne. discriminate.
    + destruct (IH (f a :: seen) x H) as [y [Hy Ey]]; [|exists y; simpl; auto].
      intros [Hc|Hc]; [|contradiction]. rewrite Hc, bytes_eqb_refl in Ne. discriminate.
Qed.

Lemma dedup_by_NoDup l : forall seen, NoDup (map f (dedup_by seen l)).
Proof.
  induction l as [|a r IH]; intros seen; simpl; [constructor|].
  destruct (existsb (bytes_eqb (f a)) seen); auto. simpl. constructor; auto.
  intros Hc. apply in_map_iff in Hc. destruct Hc as [y [Ey Hy]]. apply dedup_by_In in Hy.
  destruct Hy as [_ Hy]. apply Hy. simpl. auto.
Qed.

Lemma dedup_by_sorted (R : A -> A -> Prop) l : forall seen,
  StronglySorted R l -> StronglySorted R (dedup_by seen l).
Proof.
  induction l as [|a r IH]; intros seen Hs; simpl; [constructor|].
  apply StronglySorted_inv in Hs. destruct Hs as [Hs Hf].
  destruct (existsb (bytes_eqb (f a)) seen); auto. constructor; auto.
  rewrite Forall_forall in *. intros x Hx. apply dedup_by_In in Hx. apply Hf. tauto.
Qed.

(* the representative kept is the first one in list order *)
Lemma dedup_by_first (R : A -> A -> Prop) l : forall seen x, StronglySorted R l ->
  In x (dedup_by seen l) -> forall y, In y l -> f y = f x -> y = x \/ R x y.
Proof.
  induction l as [|a r IH]; intros seen x Hs; simpl; [tauto|].
  apply StronglySorted_inv in Hs. destruct Hs as [Hs Hf]. rewrite Forall_forall in Hf.
  destruct (existsb (bytes_eqb (f a)) seen) eqn:E.
  - intros Hx y [<-|Hy] Ey.
    + apply dedup_by_In in Hx. destruct Hx as [_ Hx]. apply existsb_eqb_In in E. rewrite Ey in E. contradiction.
    + eapply IH; eauto.
  - intros [<-|Hx] y [<-|Hy] Ey; auto.
    + apply dedup_by_In in Hx. destruct Hx as [_ Hx]. exfalso. apply Hx. simpl. auto.
    + eapply IH; eauto.
Qed.
End Dedup.

(* on well-formed composite keys the model's dedup_primary is first-occurrence de-duplication
   on the (escaped) primary key *)
Definition epk (kv : bytes * object) : bytes := enc (p_id (o_data (snd kv))).

Lemma dedup_primary_by l : forall seen,
  (forall K o, In (K, o) l -> encodedPrimary K = Some (enc (p_id (o_data o)))) ->
  dedup_primary seen l = dedup_by epk seen l.
Proof.
  induction l as [|[K o] r IH]; intros seen H; simpl; auto.
  rewrite (H K o) by (simpl; auto). unfold epk at 1. cbn [snd].
  destruct (existsb (bytes_eqb (enc (p_id (o_data o)))) seen); [|f_equal]; apply IH; intros; apply H; simpl; auto.
Qed.

(* ---- Prefix / LowerBound through the non-unique index ---------------------------------------------- *)
(* k is the smallest key of the object that satisfies the query *)
Definition least_key (Q : bytes -> Prop) (ks : list bytes) (k : bytes) : Prop :=
  In k ks /\ Q k /\ forall k', In k' ks -> Q k' -> ~ lex_lt k' k.

Lemma least_key_unique Q ks k1 k2 : least_key Q ks k1 -> least_key Q ks k2 -> k1 = k2.
Proof.
  intros [I1 [Q1 M1]] [I2 [Q2 M2]]. destruct (lex_lt_total k1 k2) as [H|[H|H]]; auto.
  - exfalso. exact (M2 _ I1 Q1 H).
  - exfalso. exact (M1 _ I2 Q2 H).
Qed.

(* (query key of the entry, object): ascending secondary key, ties broken by primary key *)
Definition entry_lt (a b : bytes * object) : Prop :=
  nuk_lt (p_id (o_data (snd a))) (fst a) (p_id (o_data (snd b))) (fst b).

(* the specification of an iteration over the non-unique index for a key predicate Q:
   the result pairs every live object having a qualifying key with its smallest such key,
   once, in ascending (key, primary key) order *)
Definition nu_iter_spec (Q : bytes -> Prop) (t : table) (res : list object) : Prop :=
  exists L : list (bytes * object),
    res = map snd L /\
    NoDup res /\
    (forall o, In o res <-> live t o /\ exists k, In k (p_n (o_data o)) /\ Q k) /\
    (forall k o, In (k, o) L <-> live t o /\ least_key Q (p_n (o_data o)) k) /\
    StronglySorted entry_lt L.

(* secondary key of a composite key *)
Definition sec_of (K : bytes) : bytes := match encodedSecondary K with Some es => dec es | None => [] end.

Lemma nu_iter (Q : bytes -> Prop) t E : TInv t -> n_agree t -> pk_short t -> om_sorted E ->
  (forall K o, In (K, o) E <-> In (K, o) (t_n t) /\ exists k, K = nuk (p_id (o_data o)) k /\ Q k) ->
  nu_iter_spec Q t (vals (dedup_primary [] E)).
Proof.
  intros I A Hsh HsE HE.
  (* every entry of E, decomposed *)
  assert (HE1 : forall K o, In (K, o) E -> exists k, In k (p_n (o_data o)) /\ K = nuk (p_id (o_data o)) k /\
                  live t o /\ Q k /\ sec_of K = k /\ encodedPrimary K = Some (enc (p_id (o_data o)))).
  { intros K o Hin. apply HE in Hin. destruct Hin as [Hin [k' [EK HQ]]].
    destruct (n_entry _ _ _ A Hsh Hin) as [k [Hk [EK2 [HL [_ [_ [Hes Hep]]]]]]].
    assert (k' = k) by (rewrite EK in EK2; apply nuk_inj in EK2; tauto). subst k'.
    exists k. repeat split; auto. unfold sec_of. rewrite Hes. apply dec_enc. }
  assert (HE2 : forall o k, live t o -> In k (p_n (o_data o)) -> Q k -> In (nuk (p_id (o_data o)) k, o) E).
  { intros o k HL Hk HQ. apply HE. split; [now apply n_entry_conv|eauto]. }
  rewrite dedup_primary_by by (intros K o Hin; destruct (HE1 _ _ Hin) as [k Hk]; tauto).
  set (D := dedup_by epk [] E).
  assert (HD : forall x, In x D -> In x E) by (intros x Hx; apply dedup_by_In in Hx; tauto).
  assert (HsD : StronglySorted key_lt D) by (apply dedup_by_sorted; now apply om_sorted_ssorted).
  (* membership of the result *)
  assert (Hmem : forall o, In o (vals D) <-> live t o /\ exists k, In k (p_n (o_data o)) /\ Q k).
  { intros o. unfold vals. rewrite in_map_iff. split.
    - intros [[K o'] [Eo Hin]]. simpl in Eo. subst o'. apply HD in Hin.
      destruct (HE1 _ _ Hin) as [k Hk]. split; [tauto|]. exists k. tauto.
    - intros [HL [k [Hk HQ]]]. pose proof (HE2 _ _ HL Hk HQ) as Hin.
      destruct (dedup_by_complete epk E [] _ Hin) as [[K' o'] [Hy Ey]]; [simpl; tauto|].
      fold D in Hy. unfold epk in Ey. cbn [snd] in Ey. apply enc_inj in Ey.
      pose proof (HD _ Hy) as Hy'. destruct (HE1 _ _ Hy') as [k' Hk'].
      assert (o' = o) by (apply (live_same_id t); tauto). subst o'. exists (K', o). auto. }
  (* the kept entry of an object carries its least qualifying key *)
  assert (Hleast : forall K o, In (K, o) D -> least_key Q (p_n (o_data o)) (sec_of K)).
  { intros K o Hin. pose proof (HD _ Hin) as HinE. destruct (HE1 _ _ HinE) as [k [Hk [EK [HL [HQ [Hsec _]]]]]].
    rewrite Hsec. split; auto. split; auto. intros k' Hk' HQ' Hlt.
    pose proof (HE2 _ _ HL Hk' HQ') as Hin'.
    assert (Hord : lex_lt (nuk (p_id (o_data o)) k') K).
    { rewrite EK. apply nuk_order_fwd; [now apply Hsh|]. left; auto. }
    destruct (dedup_by_first epk key_lt E [] (K, o) (proj1 (om_sorted_ssorted _) HsE) Hin _ Hin' eq_refl) as [Eq|Hgt].
    - injection Eq as Eq. rewrite Eq in Hord. now apply lex_lt_irrefl in Hord.
    - unfold key_lt in Hgt. cbn [fst] in Hgt. exact (lex_lt_asym _ _ Hord Hgt). }
  exists (map (fun kv => (sec_of (fst kv), snd kv)) D).
  split; [unfold vals; rewrite map_map; reflexivity|]. split; [|split; [exact Hmem|split]].
  - (* no object twice *)
    pose proof (dedup_by_NoDup epk E []) as Hnd. fold D in Hnd.
    replace (map epk D) with (map (fun o => enc (p_id (o_data o))) (vals D)) in Hnd
      by (unfold vals; rewrite map_map; reflexivity).
    now apply NoDup_map_inv in Hnd.
  - intros k o. rewrite in_map_iff. split.
    + intros [[K o'] [Eq Hin]]. cbn [fst snd] in Eq. injection Eq as <- ->.
      split; [|now apply Hleast]. apply HD in Hin. destruct (HE1 _ _ Hin) as [k Hk]. tauto.
    + intros [HL Hlk]. assert (Ho : In o (vals D)).
      { apply Hmem. split; auto. destruct Hlk as [H1 [H2 _]]. eauto. }
      unfold vals in Ho. apply in_map_iff in Ho. destruct Ho as [[K o'] [Eo Hin]]. simpl in Eo. subst o'.
      exists (K, o). split; auto. cbn [fst snd]. f_equal.
      eapply least_key_unique; [apply Hleast; eauto|exact Hlk].
  - apply ssorted_map_impl with (R := key_lt); auto.
    intros [K1 o1] [K2 o2] H1 H2 Hlt. apply HD in H1, H2.
    destruct (HE1 _ _ H1) as [k1 [_ [E1 [L1 [_ [S1 _]]]]]]. destruct (HE1 _ _ H2) as [k2 [_ [E2 [L2 [_ [S2 _]]]]]].
    unfold entry_lt, key_lt in *. cbn [fst snd] in *. rewrite S1, S2.
    now apply (n_entries_order t _ _ _ _ _ _ Hsh L1 L2 E1 E2).
Qed.

Theorem q_prefix_n_exact t p : TInv t -> n_agree t -> pk_short t ->
  nu_iter_spec (fun k => has_prefix k p = true) t (q_prefix INn p t).
Proof.
  intros I A Hsh. unfold q_prefix. cbn [is_unique index_of].
  apply nu_iter; auto.
  - apply om_filter_sorted, om_prefix_sorted. apply A.
  - intros K o. rewrite filter_In, om_prefix_In. cbn [fst]. split.
    + intros [[Hin Hp] Hl]. split; auto.
      destruct (n_entry _ _ _ A Hsh Hin) as [k [Hk [EK [HL [_ [Hsl _]]]]]]. exists k. split; auto.
      rewrite Hsl in Hl. apply negb_true_iff, Z.ltb_ge in Hl. unfold zlen in Hl.
      rewrite EK in Hp. unfold nuk in Hp. rewrite has_prefix_app_long in Hp by lia.
      now rewrite enc_has_prefix in Hp.
    + intros [Hin [k [EK HQ]]].
      destruct (n_entry _ _ _ A Hsh Hin) as [k' [_ [EK2 [_ [_ [Hsl _]]]]]].
      assert (k' = k) by (rewrite EK in EK2; apply nuk_inj in EK2; destruct EK2; congruence). subst k'.
      rewrite <- enc_has_prefix in HQ. pose proof (has_prefix_length _ _ HQ) as Hlen.
      split; [split; auto|].
      * rewrite EK. unfold nuk. rewrite has_prefix_app_long by lia. exact HQ.
      * rewrite Hsl. apply negb_true_iff, Z.ltb_ge. unfold zlen. lia.
Qed.

Theorem q_lower_bound_n_exact t key : TInv t -> n_agree t -> pk_short t ->
  nu_iter_spec (fun k => ~ lex_lt k key) t (q_lower_bound INn key t).
Proof.
  intros I A Hsh. unfold q_lower_bound. cbn [is_unique index_of].
  apply nu_iter; auto.
  - apply om_filter_sorted, om_lower_bound_sorted. apply A.
  - intros K o. rewrite filter_In, om_lower_bound_spec by apply A. cbn [fst]. split.
    + intros [[Hin Hlb] Hf]. split; auto.
      destruct (n_entry _ _ _ A Hsh Hin) as [k [Hk [EK [HL [_ [_ [Hes _]]]]]]]. exists k. split; auto.
      rewrite Hes in Hf. apply negb_true_iff, bytes_ltb_false in Hf.
      intros Hc. apply Hf. now apply enc_mono.
    + intros [Hin [k [EK HQ]]].
      destruct (n_entry _ _ _ A Hsh Hin) as [k' [_ [EK2 [_ [_ [_ [Hes _]]]]]]].
      assert (k' = k) by (rewrite EK in EK2; apply nuk_inj in EK2; destruct EK2; congruence). subst k'.
      assert (Hge : ~ lex_lt (enc k) (enc key)) by (intros Hc; apply HQ; now apply enc_mono_iff).
      split; [split; auto|].
      * apply bytes_ltb_false. intros Hc. apply Hge. rewrite EK in Hc. unfold nuk in Hc.
        now apply lex_lt_app_inv in Hc.
      * rewrite Hes. apply negb_true_iff, bytes_ltb_false. exact Hge.
Qed.

(* ---- the unique index -------------------------------------------------------------------------------- *)
Theorem q_get_u_exact t k o : u_agree t ->
  (q_get IU k t = Some o <-> live t o /\ In k (p_u (o_data o))).
Proof.
  intros [Hs Ha]. unfold q_get. cbn [is_unique index_of]. rewrite <- om_get_In by assumption.
  rewrite Ha. tauto.
Qed.

Theorem q_list_u_exact t k : u_agree t ->
  (length (q_list IU k t) <= 1)%nat /\
  forall o, In o (q_list IU k t) <-> live t o /\ In k (p_u (o_data o)).
Proof.
  intros A. pose proof (q_get_u_exact t k) as G. unfold q_get, q_list in *. cbn [is_unique index_of] in *.
  destruct (om_get k (t_u t)) as [o'|]; simpl; split; auto.
  - intros o. rewrite <- (G o A). split; [intros [->|[]]; auto|]. intros H; injection H; auto.
  - intros o. rewrite <- (G o A). split; [tauto|discriminate].
Qed.

(* Prefix / LowerBound: one result per (key, object) entry with a qualifying key, ascending keys *)
Theorem q_prefix_u_exact t p : u_agree t ->
  exists L, q_prefix IU p t = map snd L /\ om_sorted L /\
    forall K o, In (K, o) L <-> has_prefix K p = true /\ In K (p_u (o_data o)) /\ live t o.
Proof.
  intros [Hs Ha]. exists (om_prefix p (t_u t)). split; [reflexivity|]. split; [now apply om_prefix_sorted|].
  intros K o. rewrite om_prefix_In, Ha. cbn [fst]. tauto.
Qed.

Theorem q_lower_bound_u_exact t k : u_agree t ->
  exists L, q_lower_bound IU k t = map snd L /\ om_sorted L /\
    forall K o, In (K, o) L <-> ~ lex_lt K k /\ In K (p_u (o_data o)) /\ live t o.
Proof.
  intros [Hs Ha]. exists (om_lower_bound k (t_u t)). split; [reflexivity|]. split; [now apply om_lower_bound_sorted|].
  intros K o. rewrite om_lower_bound_spec, Ha, bytes_ltb_false by assumption. cbn [fst]. tauto.
Qed.

(* ---- the primary index (needs only TInv) ------------------------------------------------------------- *)
Theorem q_get_primary_exact t k o : TInv t ->
  (q_get IPrimary k t = Some o <-> live t o /\ p_id (o_data o) = k).
Proof.
  intros I. unfold q_get. cbn [is_unique index_of]. split.
  - intros H. destruct (get_primary_live _ _ _ I H) as [H1 [H2 _]]. auto.
  - intros [HL <-]. now apply live_get.
Qed.

Theorem q_all_exact t : TInv t ->
  StronglySorted by_pk (q_all t) /\ forall o, In o (q_all t) <-> live t o.
Proof. intros I. split; [now apply vals_primary_sorted|]. intros o. now apply vals_In. Qed.

(* ---- the LPM indexes ------------------------------------------------------------------------------------ *)
Definition lpm_idx (u : bool) (t : table) : lidx := if u then t_lu t else t_ln t.
Definition lpm_keys (u : bool) : payload -> list lkey := if u then p_lu else p_ln.
(* Get / List through an LPM index (run_query QLGet / QLList on a full-length key) *)
Definition ql_list (u : bool) (q : lkey) (t : table) : list object :=
  match l_lookup q (lpm_idx u t) with Some e => map snd e | None => [] end.
Definition ql_get (u : bool) (q : lkey) (t : table) : option object :=
  match l_lookup q (lpm_idx u t) with Some ((_, o) :: _) => Some o | _ => None end.

Lemma run_query_ql d tab u q t :
  run_query d tab (QLList u q) t = (if negb (Nat.eqb (length q) 16) then OutNone else OutObjs (ql_list u q t)) /\
  run_query d tab (QLGet u q) t = (if negb (Nat.eqb (length q) 16) then OutNone else OutGet (ql_get u q t)) /\
  run_query d tab (QLPrefix u q) t = OutObjs (l_objs (l_prefix q (lpm_idx u t))) /\
  run_query d tab (QLLowerBound u q) t = OutObjs (l_objs (l_lower_bound q (lpm_idx u t))).
Proof. destruct u; repeat split. Qed.

Lemma Agree_lpm u t : Agree t -> l_agree_on (live t) (lpm_keys u) (lpm_idx u t).
Proof. intros [_ [_ [A1 A2]]]. destruct u; [exact A1|exact A2]. Qed.

(* k is a stored prefix (a key of a live object) covering q / the longest such *)
Definition covers (u : bool) (t : table) (q k : lkey) : Prop :=
  bits_prefix k q = true /\ exists o, live t o /\ In k (lpm_keys u (o_data o)).
Definition longest_cover (u : bool) (t : table) (q k : lkey) : Prop :=
  covers u t q k /\ forall k', covers u t q k' -> (length k' <= length k)%nat.

Lemma bits_prefix_same_len a : forall b q, bits_prefix a q = true -> bits_prefix b q = true ->
  length a = length b -> a = b.
Proof.
  induction a as [|x a IH]; intros [|y b] [|z q]; cbn [bits_prefix length]; try discriminate; auto.
  rewrite !andb_true_iff, !Bool.eqb_true_iff. intros [-> H1] [-> H2] Hl. f_equal. eapply IH; eauto.
Qed.

Definition has_lkey (u : bool) (k : lkey) (o : object) : bool := existsb (bits_eqb k) (lpm_keys u (o_data o)).
Lemma has_lkey_In u k o : has_lkey u k o = true <-> In k (lpm_keys u (o_data o)).
Proof. apply lks_exists_In. Qed.

Theorem ql_list_exact u q t : TInv t -> Agree t ->
  (forall k, longest_cover u t q k -> ql_list u q t = filter (has_lkey u k) (vals (t_primary t))) /\
  ((forall k, ~ covers u t q k) -> ql_list u q t = []) /\
  ql_get u q t = hd_error (ql_list u q t).
Proof.
  intros I A. pose proof (l_lookup_exact _ _ _ q (Agree_lpm u t A)) as Hx.
  unfold ql_list, ql_get. destruct (l_lookup q (lpm_idx u t)) as [e|].
  - destruct Hx as [k [Hp [Hmax [Hne [Hs Hin]]]]].
    assert (Hc : covers u t q k).
    { split; auto. destruct e as [|[pk o] r]; [congruence|]. exists o. apply Hin. simpl. auto. }
    split; [|split].
    + intros k0 [Hc0 Hmax0].
      assert (k0 = k).
      { destruct Hc0 as [Hp0 [o0 [HL0 Hk0]]]. eapply bits_prefix_same_len; eauto.
        apply Nat.le_antisymm; [eapply Hmax; eauto|now apply Hmax0]. }
      subst k0. apply (ssorted_ext by_pk by_pk_asym); auto.
      * apply ssorted_filter. now apply vals_primary_sorted.
      * intros o. rewrite Hin, filter_In, (vals_In _ _ I), has_lkey_In. tauto.
    + intros Hno. exfalso. exact (Hno _ Hc).
    + destruct e as [|[pk o] r]; reflexivity.
  - split; [|split]; auto.
    intros k [[Hp [o [HL Hk]]] _]. rewrite (Hx o k HL Hk) in Hp. discriminate.
Qed.

Theorem ql_prefix_exact u q t : Agree t ->
  let F := l_flat (l_prefix q (lpm_idx u t)) in
  l_objs (l_prefix q (lpm_idx u t)) = map snd F /\ StronglySorted flat_lt F /\
  forall k pk o, In (k, pk, o) F <->
    (bits_prefix q k = true /\ In k (lpm_keys u (o_data o)) /\ pk = p_id (o_data o) /\ live t o).
Proof.
  intros A. cbn zeta. split; [apply l_objs_flat|]. apply (l_prefix_exact _ _ _ q (Agree_lpm u t A)).
Qed.

Theorem ql_lower_bound_exact u q t : Agree t ->
  let F := l_flat (l_lower_bound q (lpm_idx u t)) in
  l_objs (l_lower_bound q (lpm_idx u t)) = map snd F /\ StronglySorted flat_lt F /\
  forall k pk o, In (k, pk, o) F <->
    (bits_ltb k q = false /\ In k (lpm_keys u (o_data o)) /\ pk = p_id (o_data o) /\ live t o).
Proof.
  intros A. cbn zeta. split; [apply l_objs_flat|]. apply (l_lower_bound_exact _ _ _ q (Agree_lpm u t A)).
Qed.

(* with a well-formed unique LPM index a lookup yields at most one object *)
Theorem ql_list_unique_le1 q t : Agree t -> lu_wf t -> (length (ql_list true q t) <= 1)%nat.
Proof.
  intros A W. pose proof (l_lookup_exact _ _ _ q (Agree_lpm true t A)) as Hx. unfold ql_list.
  destruct (l_lookup q (lpm_idx true t)) as [e|]; [|simpl; lia].
  destruct Hx as [k [_ [_ [_ [Hs Hin]]]]].
  destruct (map snd e) as [|o1 [|o2 r]]; simpl; try lia. exfalso.
  apply StronglySorted_inv in Hs. destruct Hs as [_ Hf]. apply Forall_inv in Hf.
  destruct (proj1 (Hin o1) (or_introl eq_refl)) as [L1 K1].
  destruct (proj1 (Hin o2) (or_intror (or_introl eq_refl))) as [L2 K2].
  rewrite (W o1 o2 k L1 L2 K1 K2) in Hf. exact (by_pk_asym _ _ Hf Hf).
Qed.

(* ---- NumObjects ------------------------------------------------------------------------------------------ *)
Lemma ssorted_NoDup {A} (R : A -> A -> Prop) (Hirr : forall a, ~ R a a) l : StronglySorted R l -> NoDup l.
Proof.
  induction 1 as [|a l Hs IH Hf]; constructor; auto.
  intros Hin. rewrite Forall_forall in Hf. exact (Hirr _ (Hf _ Hin)).
Qed.

Theorem q_all_NoDup t : TInv t -> NoDup (q_all t).
Proof.
  intros I. apply (ssorted_NoDup by_pk); [intros a H; exact (by_pk_asym _ _ H H)|now apply vals_primary_sorted].
Qed.

(* NumObjects (the length of the revision index) is the number of live objects *)
Theorem q_num_exact t : TInv t -> q_num t = N.of_nat (length (q_all t)).
Proof.
  intros I. unfold q_num, q_all. f_equal.
  assert (Hin : forall o, In o (vals (t_revidx t)) <-> In o (vals (t_primary t))).
  { intros o. rewrite (vals_In _ _ I). unfold vals. rewrite in_map_iff. split.
    - intros [[k o'] [E H]]. simpl in E. subst o'. apply (ti_revidx _ I) in H. tauto.
    - intros HL. exists (rev_key (o_rev o), o). split; auto. apply (ti_revidx _ I). auto. }
  assert (Hnd : NoDup (vals (t_revidx t))).
  { apply (ssorted_NoDup (fun a b => lex_lt (rev_key (o_rev a)) (rev_key (o_rev b)))).
    - intros a. apply lex_lt_irrefl.
    - unfold vals. apply ssorted_map_impl with (R := key_lt).
      + apply om_sorted_ssorted. apply (ti_sorted_revidx _ I).
      + intros [k1 o1] [k2 o2] H1 H2 Hlt. unfold key_lt in Hlt. cbn [fst snd] in *.
        apply (ti_revidx _ I) in H1, H2. destruct H1 as [<- _], H2 as [<- _]. exact Hlt. }
  pose proof (q_all_NoDup t I) as Hnd2. unfold q_all in Hnd2.
  rewrite <- (map_length snd (t_revidx t)). change (map snd (t_revidx t)) with (vals (t_revidx t)).
  apply Nat.le_antisymm; apply NoDup_incl_length; auto; intros o Ho; now apply Hin.
Qed.

Theorem q_num_objects t : TInv t -> NoDup (q_all t) /\ q_num t = N.of_nat (length (q_all t)).
Proof. intros I; split; [now apply q_all_NoDup|now apply q_num_exact]. Qed.
