(* Table/ChangesFromInit.v — the change-iterator theorems for databases reachable from the initial
   one: the table invariant is discharged by Table/Inv2.v (DInv_step), the structural invariant by
   ChangesHist.wf_run; what remains as a hypothesis is that revisions keep room below 2^64 in every
   state of the run (no uint64 overflow), plus the usage conditions `friendly`.
   Also: boolean checkers for these hypotheses, to exhibit concrete runs that satisfy them. *)
From SV Require Import Base.Bytes Base.OrdMap KeyEnc.Model
                       Table.Model Table.InvDefs Table.Proofs Table.Inv Table.Inv2
                       Table.ChangesStream Table.ChangesIter Table.ChangesProofs Table.ChangesRet
                       Table.ChangesHist.
From Coq Require Import ZifyN ZifyNat ZifyBool.
Open Scope N_scope.

(* revision room in every state of a run *)
Fixpoint room_run (d : db) (ops : list op) : Prop :=
  all_tables rev_room d /\ match ops with [] => True | o :: r => room_run (fst (step d o)) r end.

Lemma all_tables_impl (P Q : table -> Prop) d : (forall t, P t -> Q t) -> all_tables P d -> all_tables Q d.
Proof.
  intros H [A [B C]]. split; [eapply Forall_impl; eauto|]. split.
  - intros es old E. destruct (B _ _ E) as [B1 B2]. split; eapply Forall_impl; eauto. intros a. apply H.
  - intros sid r E. eapply Forall_impl; eauto.
Qed.

Lemma ok_run_of_room ops : forall d, DInv d -> room_run d ops -> ok_run d ops.
Proof.
  induction ops as [|o r IH]; intros d HI [HR Hr]; cbn [ok_run]; split; try (split; assumption); auto.
  apply IH; auto. apply DInv_step; auto. destruct r; destruct Hr as [Hr _];
    (eapply all_tables_impl; [|exact Hr]; intros t; apply rev_room_bound).
Qed.

Lemma ok_run_app l1 : forall d l2, ok_run d (l1 ++ l2) -> ok_run d l1 /\ ok_run (fst (run d l1)) l2.
Proof.
  induction l1 as [|o r IH]; intros d l2 H; cbn [app ok_run run] in *.
  - split; auto. split; auto. destruct l2; cbn in H; tauto.
  - destruct H as [H1 H2]. destruct (IH _ _ H2) as [A B]. split; [split; auto|].
    destruct (step d o) as [d1 x]. cbn [fst] in *. destruct (run d1 r); exact B.
Qed.

Section FromInit.
Variables (n : nat) (pre : list op) (iid : N) (tab : nat) (t0 : table) (ops : list op).
Let d := fst (run (init_db n) pre).
Let d0 := fst (step d (OChanges iid tab)).
Hypothesis Hroom : room_run (init_db n) (pre ++ OChanges iid tab :: ops).
Hypothesis Hcreated : created d iid tab t0.
Hypothesis Hfresh : forall cur, nth_error (d_root d) tab = Some cur -> ~ reg iid cur.
Hypothesis Hfriendly : friendly_run iid tab d0 ops.

Lemma from_init_facts : wf d /\ tables_ok d /\ ok_run d0 ops.
Proof.
  pose proof (ok_run_of_room _ _ (DInv_init n) Hroom) as Hok.
  destruct (ok_run_app _ _ _ Hok) as [H1 H2]. fold d in H2. cbn [ok_run] in H2. destruct H2 as [H2 H3].
  split; [apply wf_run; auto; apply wf_init|]. split; auto.
Qed.

Theorem init_strictly_increasing : asc (map crev (delivered iid d0 ops)).
Proof.
  destruct from_init_facts as [A [B C]].
  exact (fresh_strictly_increasing iid tab d t0 ops Hcreated A Hfresh (conj B C) Hfriendly).
Qed.

Theorem init_converge : forall it,
  assoc iid (d_iters (fst (run d0 ops))) = Some it -> it_pending it = None ->
  replay (delivered iid d0 ops) = abs_of (fst (grun iid (t0, []) d0 ops)).
Proof.
  destruct from_init_facts as [A [B C]].
  exact (fresh_converge iid tab d t0 ops Hcreated A Hfresh (conj B C) Hfriendly).
Qed.

Theorem init_retention : forall it cur,
  assoc iid (d_iters (fst (run d0 ops))) = Some it ->
  nth_error (d_root (fst (run d0 ops))) tab = Some cur -> reg iid cur ->
  retained (fst (grun iid (t0, []) d0 ops)) cur (it_delrev it) /\
  assoc iid (d_wm (fst (run d0 ops))) = Some (it_delrev it).
Proof.
  destruct from_init_facts as [A [B C]].
  exact (fresh_retention iid tab d t0 ops Hcreated A Hfresh (conj B C) Hfriendly).
Qed.
End FromInit.

Theorem init_converge_next n pre iid tab t0 ops s S :
  let d := fst (run (init_db n) pre) in
  let d0 := fst (step d (OChanges iid tab)) in
  room_run (init_db n) (pre ++ OChanges iid tab :: ops ++ [ONext iid s None]) ->
  created d iid tab t0 ->
  (forall cur, nth_error (d_root d) tab = Some cur -> ~ reg iid cur) ->
  friendly_run iid tab d0 (ops ++ [ONext iid s None]) ->
  next_source (fst (run d0 ops)) iid s = Some S ->
  replay (delivered iid d0 (ops ++ [ONext iid s None])) = abs_of S.
Proof.
  intros d d0 Hroom Hc Hf Hfr Hn.
  destruct (from_init_facts n pre iid tab _ Hroom) as [A [B C]].
  exact (fresh_converge_next iid tab d t0 ops s S Hc A Hf (conj B C) Hfr Hn).
Qed.

(* ---- boolean checkers for the hypotheses ------------------------------------------------------------- *)
Definition roomb (t : table) : bool := t_rev t <? 18446744073709551615.
Definition tables_roomb (d : db) : bool :=
  forallb roomb (d_root d) &&
  match d_txn d with Some (es, old) => forallb (fun e => roomb (fst e)) es && forallb roomb old | None => true end &&
  forallb (fun sr => forallb roomb (snd sr)) (d_snaps d).

Lemma tables_roomb_ok d : tables_roomb d = true -> all_tables rev_room d.
Proof.
  unfold tables_roomb. rewrite !andb_true_iff. intros [[H1 H2] H3].
  assert (Hr : forall t, roomb t = true -> rev_room t).
  { intros t H. unfold roomb in H. apply N.ltb_lt in H. exact H. }
  split; [|split].
  - apply Forall_forall. intros t Ht. apply Hr. rewrite forallb_forall in H1. auto.
  - intros es old E. rewrite E in H2. apply andb_true_iff in H2. destruct H2 as [A B].
    rewrite forallb_forall in A, B. split; apply Forall_forall; intros x Hx; apply Hr; auto.
  - intros sid r Hin. rewrite forallb_forall in H3. specialize (H3 _ Hin). cbn in H3.
    rewrite forallb_forall in H3. apply Forall_forall. intros t Ht. apply Hr. auto.
Qed.

Fixpoint room_runb (d : db) (ops : list op) : bool :=
  tables_roomb d && match ops with [] => true | o :: r => room_runb (fst (step d o)) r end.

Lemma room_runb_ok ops : forall d, room_runb d ops = true -> room_run d ops.
Proof.
  induction ops as [|o r IH]; intros d H; cbn [room_runb room_run] in *; apply andb_true_iff in H; destruct H as [A B].
  - split; auto. now apply tables_roomb_ok.
  - split; [now apply tables_roomb_ok|auto].
Qed.

Definition reg_rootb (iid : N) (tab : nat) (d : db) : bool :=
  match nth_error (d_root d) tab with Some cur => existsb (N.eqb iid) (t_trackers cur) | None => false end.

Lemma reg_rootb_ok iid tab d : reg_rootb iid tab d = true -> reg_root iid tab d.
Proof.
  unfold reg_rootb, reg_root, reg. destruct (nth_error (d_root d) tab) as [cur|]; [|discriminate].
  intros H. exists cur. split; auto. apply existsb_exists in H. destruct H as [x [Hx E]].
  apply N.eqb_eq in E. now subst.
Qed.

Definition friendlyb (iid : N) (tab : nat) (d : db) (o : op) : bool :=
  match o with
  | OChanges i _ => negb (i =? iid)
  | ONext i s _ => negb (i =? iid) ||
                   (match s with SFresh | STxn => true | SSnap _ => false end && reg_rootb iid tab d)
  | OAbort => reg_rootb iid tab d
  | _ => true
  end.

Lemma friendlyb_ok iid tab d o : friendlyb iid tab d o = true -> friendly iid tab d o.
Proof.
  destruct o; cbn [friendlyb friendly]; auto.
  - intros H _. now apply reg_rootb_ok.
  - intros H. now apply negb_true_iff, N.eqb_neq in H.
  - intros H E. subst. rewrite N.eqb_refl in H. cbn in H. apply andb_true_iff in H. destruct H as [A B].
    split; [destruct s; auto; discriminate|now apply reg_rootb_ok].
Qed.

Fixpoint friendly_runb (iid : N) (tab : nat) (d : db) (ops : list op) : bool :=
  match ops with [] => true | o :: r => friendlyb iid tab d o && friendly_runb iid tab (fst (step d o)) r end.

Lemma friendly_runb_ok iid tab ops : forall d, friendly_runb iid tab d ops = true -> friendly_run iid tab d ops.
Proof.
  induction ops as [|o r IH]; intros d H; cbn [friendly_runb friendly_run] in *; auto.
  apply andb_true_iff in H. destruct H as [A B]. split; [now apply friendlyb_ok|auto].
Qed.

(* ---- a concrete run satisfying every hypothesis: insert a, b; Changes; commit; Next (partial);
        delete a; update b; collection scan; re-insert a; delete a again; collection apply; Next --------- *)
Definition ex_a : payload := mkP [97] 1 [] [] [] [].
Definition ex_b : payload := mkP [98] 2 [] [] [] [].
Definition ex_pre : list op := [OBegin [0%nat]; OInsert 0 ex_a; OInsert 0 ex_b; OCommit 0; OBegin [0%nat]].
Definition ex_ops : list op :=
  [OCommit 1; ONext 7 SFresh (Some 1%nat);
   OBegin [0%nat]; ODelete 0 [97]; OInsert 0 (mkP [98] 5 [] [] [] []); OCommit 2;
   OResume 7 None; ONext 7 SFresh None; OGcScan;
   OBegin [0%nat]; OInsert 0 ex_a; OCommit 3; OBegin [0%nat]; ODelete 0 [97]; OCommit 4;
   OGcApply].

Example fresh_hypotheses_satisfiable :
  let d := fst (run (init_db 1) ex_pre) in
  let d0 := fst (step d (OChanges 7 0)) in
  let all := ex_ops ++ [ONext 7 SFresh None] in
  room_run (init_db 1) (ex_pre ++ OChanges 7 0 :: all) /\
  (exists t0, created d 7 0 t0) /\
  (forall cur, nth_error (d_root d) 0 = Some cur -> ~ reg 7 cur) /\
  friendly_run 7 0 d0 all /\
  (exists S, next_source (fst (run d0 ex_ops)) 7 SFresh = Some S) /\
  length (delivered 7 d0 all) = 5%nat /\
  replay (delivered 7 d0 all) = [([98], (5, 4))].
Proof.
  cbv zeta. split; [apply room_runb_ok; vm_compute; reflexivity|].
  split; [vm_compute; do 4 eexists; split; [reflexivity|split; reflexivity]|].
  split; [intros cur H; vm_compute in H; injection H as <-; vm_compute; tauto|].
  split; [apply friendly_runb_ok; vm_compute; reflexivity|].
  split; [vm_compute; eexists; reflexivity|].
  split; vm_compute; reflexivity.
Qed.
