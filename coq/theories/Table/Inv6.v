(* Table/Inv6.v — the number of tables is constant along histories (the key lists a collection
   pass applies were computed from a root of the same length), hence: every committed table
   persists and its revision never decreases. *)
From SV Require Import Base.Bytes Base.OrdMap KeyEnc.Model Table.Model Table.InvDefs
                       Table.Proofs Table.GcProofs Table.Inv Table.Inv2 Table.Inv3.
From Coq Require Import ZifyN ZifyNat ZifyBool.
Open Scope N_scope.

(* ---- where the collector's phase comes from -------------------------------------------------------- *)
Lemma gc_settle_gate2 d keys : d_gc (gc_settle d) = GGate2 keys -> d_gc d = GGate2 keys.
Proof. unfold gc_settle. destruct (d_gc d) eqn:E, (d_gcchan d); simpl; congruence. Qed.

Lemma gc_trigger_gate2 d keys : d_gc (gc_trigger d) = GGate2 keys -> d_gc d = GGate2 keys.
Proof. unfold gc_trigger. intros H. apply gc_settle_gate2 in H. exact H. Qed.

Lemma consume_gate2 take l keys : forall it d iid,
  d_gc (snd (consume take l it d iid)) = GGate2 keys -> d_gc d = GGate2 keys.
Proof.
  revert take. induction l as [|[o del] r IH]; intros take it d iid; simpl; auto.
  assert (Hd : forall b : bool, d_gc (if b then gc_trigger (set_wm d (assoc_set iid (o_rev o) (d_wm d))) else d) = GGate2 keys ->
                                d_gc d = GGate2 keys).
  { intros [|] H; [apply gc_trigger_gate2 in H|]; exact H. }
  destruct take as [[|[|n]]|]; simpl.
  - auto.
  - apply Hd.
  - match goal with |- context [consume ?t r ?i ?dd iid] => specialize (IH t i dd iid);
      destruct (consume t r i dd iid) as [[x y] z] end. simpl in *. intros H. apply (Hd del). auto.
  - match goal with |- context [consume ?t r ?i ?dd iid] => specialize (IH t i dd iid);
      destruct (consume t r i dd iid) as [[x y] z] end. simpl in *. intros H. apply (Hd del). auto.
Qed.

Lemma with_locked_gc d tab f a b : d_gc (fst (with_locked d tab f a b)) = d_gc d.
Proof.
  unfold with_locked. destruct (d_txn d) as [[es old]|]; auto.
  destruct (nth_error es tab) as [[t [|]]|]; auto. destruct (f t); auto.
Qed.

Theorem step_gate2 d o keys : d_gc (fst (step d o)) = GGate2 keys ->
  d_gc d = GGate2 keys \/ (o = OGcScan /\ keys = map (gc_scan_table (d_wm d)) (d_root d)).
Proof.
  destruct o; cbn [step]; try (rewrite with_locked_gc; auto; fail).
  - destruct (d_txn d); auto.
  - destruct (d_txn d) as [[es old]|]; auto.
    destruct (nth_error es tab) as [[t [|]]|]; try (rewrite with_locked_gc; auto; fail).
    destruct (t_primary t); auto.
  - destruct (d_txn d) as [[es old]|]; auto.
  - destruct (d_txn d); auto.
  - auto.
  - destruct (src_root d s); auto. destruct (nth_error l tab); auto.
  - destruct (d_txn d) as [[es old]|]; auto.
    destruct (nth_error es tab) as [[t [|]]|]; auto. destruct (nth_error old tab); auto.
  - destruct (assoc iid (d_iters d)) as [it|]; auto.
    destruct (src_committed d s) as [rt|]; auto.
    destruct (nth_error rt (it_tab it)) as [t|]; auto.
    destruct (nth_error (d_root d) (it_tab it)) as [cur|]; auto.
    match goal with |- context [if ?c then _ else _] => destruct c end; auto.
    match goal with |- context [consume ?a ?b ?c ?dd ?e] =>
      pose proof (consume_gate2 a b keys c dd e) as Hc; destruct (consume a b c dd e) as [[x y] z] end.
    simpl in *. auto.
  - destruct (assoc iid (d_iters d)) as [it|]; auto.
    destruct (it_pending it) as [l|]; auto. destruct (it_seq it); auto.
    match goal with |- context [consume ?a ?b ?c ?dd ?e] =>
      pose proof (consume_gate2 a b keys c dd e) as Hc; destruct (consume a b c dd e) as [[x y] z] end.
    simpl in *. auto.
  - destruct (assoc iid (d_iters d)) as [it|]; auto. destruct (d_txn d); auto.
    cbn [fst]. intros H. apply gc_trigger_gate2 in H. auto.
  - destruct (d_gc d) eqn:E; simpl; intros H.
    + rewrite E in H. discriminate.
    + right. injection H as <-. auto.
    + left. congruence.
  - destruct (d_gc d) eqn:E; try (simpl; rewrite E; auto; fail).
    destruct (d_txn d); [simpl; rewrite E; auto|].
    cbn [fst]. intros H. apply gc_settle_gate2 in H. simpl in H. discriminate.
  - match goal with |- context [with_locked d tab ?f ?a ?b] =>
      pose proof (with_locked_gc d tab f a b) as Hw; destruct (with_locked d tab f a b) as [d' x] end.
    simpl in *. rewrite Hw. auto.
Qed.

(* ---- the invariant ------------------------------------------------------------------------------------ *)
Definition LenInv (d : db) : Prop := forall keys, d_gc d = GGate2 keys -> length keys = length (d_root d).

Lemma zip_with_length_eq {A B C} (f : A -> B -> C) : forall l1 l2, length l1 = length l2 ->
  length (zip_with f l1 l2) = length l2.
Proof. induction l1 as [|a r IH]; intros [|b l] H; simpl in *; auto; try discriminate. Qed.

Lemma Forall2_length_eq {A B} (R : A -> B -> Prop) l1 l2 : Forall2 R l1 l2 -> length l1 = length l2.
Proof. induction 1; simpl; auto. Qed.

Theorem root_length_const d o : TxnInv d -> LenInv d -> length (d_root (fst (step d o))) = length (d_root d).
Proof.
  intros HT HL. pose proof (step_shape d o) as Sh. set (d' := fst (step d o)) in *.
  inversion Sh as [E|es E1 E2 E|es old tab t0 t0' E1 E2 Hu _ _ E|tab name es old t0 t0' _ E1 E2 Hu E|tab name _ E
                   |sid es old _ E1 E|E|sid E|iid tab E1 E|keys Eg E1 E];
    apply (core5_inv d') in E; destruct E as [Er _]; rewrite Er; auto.
  - destruct (HT _ _ E1) as [_ HF]. apply zip_with_length_eq. eapply Forall2_length_eq; eauto.
  - apply length_upd_nth.
  - apply zip_with_length_eq. auto.
Qed.

Theorem LenInv_init n : LenInv (init_db n).
Proof. intros keys H. discriminate. Qed.

Theorem LenInv_step d o : TxnInv d -> LenInv d -> LenInv (fst (step d o)).
Proof.
  intros HT HL keys H. rewrite root_length_const by auto.
  destruct (step_gate2 _ _ _ H) as [H1|[_ ->]]; auto. apply map_length.
Qed.

Theorem LenInv_run ops : forall d, TxnInv d -> LenInv d -> LenInv (fst (run d ops)).
Proof.
  induction ops as [|o r IH]; intros d HT HL; [exact HL|]. rewrite run_cons_fst.
  apply IH; [now apply TxnInv_step|now apply LenInv_step].
Qed.

(* ---- committed tables persist, their revision never decreases --------------------------------------- *)
Theorem root_persist_step d o i t : TxnInv d -> LenInv d -> nth_error (d_root d) i = Some t ->
  exists t', nth_error (d_root (fst (step d o))) i = Some t' /\ t_rev t <= t_rev t'.
Proof.
  intros HT HL H1.
  destruct (nth_error (d_root (fst (step d o))) i) as [t'|] eqn:E.
  - exists t'. split; auto. eapply root_rev_mono_step; eauto.
  - exfalso. apply nth_error_None in E. rewrite root_length_const in E by auto.
    assert (i < length (d_root d))%nat by (apply nth_error_Some; congruence). lia.
Qed.

Theorem root_persist_run ops : forall d i t, TxnInv d -> LenInv d -> nth_error (d_root d) i = Some t ->
  exists t', nth_error (d_root (fst (run d ops))) i = Some t' /\ t_rev t <= t_rev t'.
Proof.
  induction ops as [|o r IH]; intros d i t HT HL H1.
  - exists t. split; auto. simpl. lia.
  - rewrite run_cons_fst. destruct (root_persist_step d o i t HT HL H1) as [t1 [H2 H3]].
    destruct (IH (fst (step d o)) i t1 (TxnInv_step _ _ HT) (LenInv_step _ _ HT HL) H2) as [t2 [H4 H5]].
    exists t2. split; auto. lia.
Qed.

(* from the initial state: along any history, splitting it anywhere *)
Theorem committed_revision_monotone n ops1 ops2 i t :
  let d1 := fst (run (init_db n) ops1) in
  nth_error (d_root d1) i = Some t ->
  exists t', nth_error (d_root (fst (run d1 ops2))) i = Some t' /\ t_rev t <= t_rev t'.
Proof.
  intros d1 H. apply root_persist_run; auto.
  - apply TxnInv_run, TxnInv_init.
  - apply LenInv_run; [apply TxnInv_init|apply LenInv_init].
Qed.

(* ---- summaries (for Properties/C09.v) ---------------------------------------------------------------- *)
Theorem TInv_table_ops :
  TInv empty_table /\
  (forall g m p t, TInv t -> rev_bound (fst (modify g m p t)) -> TInv (fst (modify g m p t))) /\
  (forall g id t, TInv t -> rev_bound (fst (delete g id t)) -> TInv (fst (delete g id t))) /\
  (forall t, TInv t -> rev_bound (delete_all t) -> TInv (delete_all t)) /\
  (forall keys t, TInv t -> rev_bound t -> TInv (gc_apply_table keys t)) /\
  (forall t trk ini, TInv t -> TInv (set_meta t trk ini)).
Proof.
  exact (conj TInv_empty (conj TInv_modify (conj TInv_delete (conj TInv_delete_all (conj TInv_gc_apply TInv_set_meta))))).
Qed.

Theorem DInv_histories :
  (forall n, all_tables TInv (init_db n)) /\
  (forall d o, all_tables TInv d -> all_tables rev_bound (fst (step d o)) -> all_tables TInv (fst (step d o))) /\
  (forall ops d, all_tables TInv d -> run_bounded d ops -> all_tables TInv (fst (run d ops))).
Proof. exact (conj DInv_init (conj DInv_step DInv_run)). Qed.
